package rules

import (
	"fmt"
	"go/constant"
	"go/token"
	"go/types"

	"golang.org/x/tools/go/ssa"

	"fqverif/fw"
)

// ---------------------------------------------------------------------------
// C06.wrapconv: a 64-bit unsigned value converted to a signed integer is not used as an index, slice
// bound or make size while it may be negative
//
// Decoders read sizes and offsets as uint64 (scalar.Uint.Actual, U64, LEB128, custom readers) and convert
// them with int(..)/int64(..). A value of 2^63 and above is negative after the conversion; a signed test
// `v > len(x)` does not reject it, and x[v:], x[v], make(T, v) fault. The obligation, for every index /
// slice bound / make size of signed type whose derivation (copies, +-*<< with constants, phis; one level
// of parameter passing to static callers) contains such a conversion of a source u:
//   (a) u has a finite interval at the conversion (reader width below 63 bits, mask, shift, min), or
//   (b) a dominating test in the unsigned domain bounds u by a length, a constant or a finite value, or
//   (c) the operand is proved >= 0 where it is used (signed test v < 0, max(0, v), ...).

var wrapConvExceptions = map[string]string{
	"format/mpeg.frameDecode|index|1": "mpegVersionNr is a value of the map mpegVersionN (values 1..3, checked here) or 0",
}

var wrapConvExceptionChecks = map[string]func(p *fw.Program) string{
	"format/mpeg.frameDecode|index|1": func(p *fw.Program) string { return c06MapValuesWithin(p, "format/mpeg", "mpegVersionN", 1, 3) },
}

type c06WrapSrc struct {
	conv *ssa.Convert
	path string
}

// c06WrapSources: conversions uint64 -> signed in the derivation of v (within its function).
func c06WrapSources(v ssa.Value, depth int, seen map[ssa.Value]bool, out *[]*ssa.Convert, params *[]*ssa.Parameter) {
	if v == nil || depth > 8 || seen[v] {
		return
	}
	seen[v] = true
	switch x := v.(type) {
	case *ssa.Convert:
		if !isIntT(x.Type()) || !isIntT(x.X.Type()) {
			return
		}
		if isUnsignedT(x.X.Type()) && !isUnsignedT(x.Type()) && sizeofInt(x.X.Type()) == 64 {
			*out = append(*out, x)
			return
		}
		if isUnsignedT(x.Type()) {
			return // back in the unsigned domain: a later conversion is found on its own
		}
		c06WrapSources(x.X, depth+1, seen, out, params)
	case *ssa.ChangeType:
		c06WrapSources(x.X, depth+1, seen, out, params)
	case *ssa.BinOp:
		switch x.Op {
		case token.ADD, token.SUB, token.MUL, token.SHL:
			if _, ok := x.Y.(*ssa.Const); ok {
				c06WrapSources(x.X, depth+1, seen, out, params)
			} else if _, ok := x.X.(*ssa.Const); ok && x.Op != token.SHL {
				c06WrapSources(x.Y, depth+1, seen, out, params)
			}
		}
	case *ssa.Phi:
		for _, e := range x.Edges {
			c06WrapSources(e, depth+1, seen, out, params)
		}
	case *ssa.Parameter:
		if params != nil && isIntT(x.Type()) && !isUnsignedT(x.Type()) {
			*params = append(*params, x)
		}
	case *ssa.UnOp:
		// a local variable (spilled because a closure captures it): every stored value
		if x.Op != token.MUL {
			return
		}
		if a, ok := x.X.(*ssa.Alloc); ok && a.Referrers() != nil && isIntT(x.Type()) {
			for _, rf := range *a.Referrers() {
				if st, ok := rf.(*ssa.Store); ok && st.Addr == ssa.Value(a) {
					c06WrapSources(st.Val, depth+1, seen, out, params)
				}
			}
		}
	}
}

// c06UnsignedBounded: at block b a dominating unsigned comparison bounds u (or a value it was converted
// from / to within the unsigned domain) from above by a length, a constant or a value of finite interval.
func c06UnsignedBounded(env *fw.IntervalEnv, u ssa.Value, b *ssa.BasicBlock) bool {
	same := func(a ssa.Value) bool {
		for {
			if a == u {
				return true
			}
			c, ok := a.(*ssa.Convert)
			if !ok || !isUnsignedT(c.Type()) || !isUnsignedT(c.X.Type()) || sizeofInt(c.Type()) < sizeofInt(c.X.Type()) {
				break
			}
			a = c.X
		}
		// two loads of the same variable / field
		return env.Poly.Of(a).Equal(env.Poly.Of(u)) && isUnsignedT(a.Type())
	}
	finite := func(y ssa.Value) bool {
		if c, ok := y.(*ssa.Const); ok && c.Value != nil {
			return true
		}
		// uint64(len(x)), uint64(int value that is a length)
		z := y
		for {
			c, ok := z.(*ssa.Convert)
			if !ok {
				break
			}
			z = c.X
		}
		if call, ok := z.(*ssa.Call); ok {
			if fw.IsBuiltinCall(call, "len") || fw.IsBuiltinCall(call, "cap") {
				return true
			}
		}
		if !isUnsignedT(z.Type()) && isIntT(z.Type()) {
			// a signed value converted to unsigned for the comparison: it is at most MaxInt64 when non-negative,
			// and a negative one becomes huge, which only weakens the bound; accept non-negative ones
			if env.At(z, b).NonNeg() {
				return true
			}
		}
		iv := env.At(y, b)
		return !iv.HiInf
	}
	for _, g := range c06Guards(b) {
		g = g.Normalize()
		bo, ok := g.Cond.(*ssa.BinOp)
		if !ok || !isUnsignedT(bo.X.Type()) {
			continue
		}
		op := bo.Op
		if !g.True {
			switch op {
			case token.LSS:
				op = token.GEQ
			case token.LEQ:
				op = token.GTR
			case token.GTR:
				op = token.LEQ
			case token.GEQ:
				op = token.LSS
			case token.EQL:
				op = token.NEQ
			case token.NEQ:
				op = token.EQL
			}
		}
		switch op {
		case token.LSS, token.LEQ:
			if same(bo.X) && finite(bo.Y) {
				return true
			}
		case token.GTR, token.GEQ:
			if same(bo.Y) && finite(bo.X) {
				return true
			}
		case token.EQL:
			if (same(bo.X) && finite(bo.Y)) || (same(bo.Y) && finite(bo.X)) {
				return true
			}
		}
	}
	return false
}

// c06SlowCounter: u is a loop counter that starts at a constant and moves by a constant step: reaching
// 2^63 needs 2^63 iterations.
func c06SlowCounter(u ssa.Value) bool {
	ph, ok := u.(*ssa.Phi)
	if !ok {
		return false
	}
	for _, e := range ph.Edges {
		if _, isC := e.(*ssa.Const); isC {
			continue
		}
		bo, isBo := e.(*ssa.BinOp)
		if !isBo || (bo.Op != token.ADD && bo.Op != token.SUB) || bo.X != ssa.Value(ph) {
			return false
		}
		if _, isC := bo.Y.(*ssa.Const); !isC {
			return false
		}
	}
	return true
}

func c06WrapConv(r *fw.Run, p *fw.Program) {
	ru := r.Rule("C06.wrapconv", "an index, slice bound or make size of signed type that derives (copies, arithmetic with constants, phis, one level of static parameter passing) from a conversion of a 64-bit unsigned value is safe from the wrap to a negative number: the source has a finite interval (reader width < 63 bits, mask, min), or a dominating unsigned comparison bounds it by a length / constant / finite value, or the operand is proved >= 0 at the use", 10)
	envs := map[*ssa.Function]*fw.IntervalEnv{}
	envOf := func(fn *ssa.Function) *fw.IntervalEnv {
		if e := envs[fn]; e != nil {
			return e
		}
		e := fw.NewIntervalEnv(fn)
		e.CallRange = readerCallRange
		envs[fn] = e
		return e
	}
	// safeConv: conversion cv (in its function) is harmless for a use in block ub of the same function
	safeConv := func(cv *ssa.Convert, ub *ssa.BasicBlock) bool {
		fn := cv.Parent()
		env := envOf(fn)
		u := cv.X
		if iv := c06At(env, u, cv.Block()); !iv.HiInf {
			return true
		}
		if iv := c06At(env, u, ub); !iv.HiInf {
			return true
		}
		if c06SlowCounter(u) {
			return true
		}
		if c06MapperActualFinite(p, fn, u) {
			return true
		}
		if c06UnsignedBounded(env, u, ub) || c06UnsignedBounded(env, u, cv.Block()) {
			return true
		}
		// min(u, finite)
		if call, ok := u.(*ssa.Call); ok && fw.IsBuiltinCall(call, "min") {
			for _, a := range call.Common().Args {
				if iv := c06At(env, a, cv.Block()); !iv.HiInf {
					return true
				}
			}
		}
		return false
	}
	for _, fn := range p.FqFunctions() {
		pr := pkgRel(fn)
		if !(len(pr) >= 6 && pr[:6] == "format") && pr != "pkg/decode" {
			continue
		}
		if !linkedPackages(p)[fw.FnPkgPath(fn)] || pr == "format/tls/tlsdecrypt" {
			continue
		}
		ord := map[string]int{}
		check := func(ins ssa.Instruction, what string, v ssa.Value) {
			if v == nil {
				return
			}
			if _, isC := v.(*ssa.Const); isC {
				return
			}
			if !isIntT(v.Type()) || isUnsignedT(v.Type()) {
				return
			}
			var convs []*ssa.Convert
			var params []*ssa.Parameter
			c06WrapSources(v, 0, map[ssa.Value]bool{}, &convs, &params)
			type site struct {
				cv   *ssa.Convert
				call ssa.CallInstruction
			}
			var sites []site
			for _, cv := range convs {
				sites = append(sites, site{cv: cv})
			}
			for _, par := range params {
				idx := -1
				for i, pa := range fn.Params {
					if pa == par {
						idx = i
					}
				}
				if idx < 0 {
					continue
				}
				for _, c := range callersOf(p, fn) {
					args := c.Common().Args
					if idx >= len(args) {
						continue
					}
					var cc []*ssa.Convert
					c06WrapSources(args[idx], 0, map[ssa.Value]bool{}, &cc, nil)
					for _, cv := range cc {
						sites = append(sites, site{cv: cv, call: c})
					}
				}
			}
			if len(sites) == 0 {
				return
			}
			ord[what]++
			key := fmt.Sprintf("%s|%s|%d", fw.ShortFn(fn), what, ord[what])
			env := envOf(fn)
			if c06ProvedNonNeg(env, v, ins.Block()) {
				ru.Ok(key, p.Rel(ins.Pos()), "operand proved >= 0 at the use")
				return
			}
			bad := ""
			for _, s := range sites {
				ub := ins.Block()
				if s.call != nil {
					ub = s.call.Block()
				}
				if safeConv(s.cv, ub) {
					continue
				}
				if s.call != nil {
					// the argument proved >= 0 at the call
					cenv := envOf(s.call.Parent())
					argOK := false
					for _, a := range s.call.Common().Args {
						var cc []*ssa.Convert
						c06WrapSources(a, 0, map[ssa.Value]bool{}, &cc, nil)
						for _, x := range cc {
							if x == s.cv && c06ProvedNonNeg(cenv, a, s.call.Block()) {
								argOK = true
							}
						}
					}
					if argOK {
						continue
					}
					bad = fmt.Sprintf("%s converts %s to %s and passes it to this function (%s)", fw.ShortFn(s.call.Parent()), envOf(s.cv.Parent()).Poly.Of(s.cv.X).String(), s.cv.Type().String(), p.Rel(s.call.Pos()))
				} else {
					bad = fmt.Sprintf("conversion of %s to %s (%s)", env.Poly.Of(s.cv.X).String(), s.cv.Type().String(), p.Rel(s.cv.Pos()))
				}
			}
			if bad == "" {
				ru.Ok(key, p.Rel(ins.Pos()), "the converted source is bounded below 2^63")
				return
			}
			if reason, ok := wrapConvExceptions[key]; ok {
				if chk := wrapConvExceptionChecks[key]; chk != nil {
					if why := chk(p); why != "" {
						ru.Fail(key, p.Rel(ins.Pos()), "the exception for this operand ("+reason+") no longer holds: "+why)
						return
					}
				}
				ru.Except(key, p.Rel(ins.Pos()), reason)
				return
			}
			ru.Fail(key, p.Rel(ins.Pos()), what+" "+env.Poly.Of(v).String()+" may be negative: "+bad+" is a 64-bit unsigned value with no upper bound; 2^63 and above wraps to a negative number, passes signed upper-bound tests and faults here (slice bounds / index out of range, makeslice: len out of range)")
		}
		fw.EachInstr(fn, func(ins ssa.Instruction) {
			switch x := ins.(type) {
			case *ssa.IndexAddr:
				check(x, "index", x.Index)
			case *ssa.Index:
				if _, isMap := x.X.Type().Underlying().(*types.Map); !isMap {
					check(x, "index", x.Index)
				}
			case *ssa.Slice:
				check(x, "slice low", x.Low)
				check(x, "slice high", x.High)
			case *ssa.MakeSlice:
				check(x, "make len", x.Len)
				if x.Cap != x.Len {
					check(x, "make cap", x.Cap)
				}
			}
		})
	}
}

var _ = constant.Int

// c06MapperActualFinite: u is the Actual field of the scalar parameter of a Map<Kind> method of a mapper
// type, and every reader call in fq that the mapper type is attached to reads a fixed width below 63 bits
// (so Actual is below 2^63 whenever the method runs).
func c06MapperActualFinite(p *fw.Program, fn *ssa.Function, u ssa.Value) bool {
	if fn.Signature.Recv() == nil || len(fn.Params) < 2 || len(fn.Name()) < 4 || fn.Name()[:3] != "Map" {
		return false
	}
	// u = load/field "Actual" rooted at the second parameter
	isActual := false
	switch x := u.(type) {
	case *ssa.Field:
		isActual = fieldNameOf(x.X.Type(), x.Field) == "Actual" && c06RootParam(x.X) == fn.Params[1]
	case *ssa.UnOp:
		if fa, ok := x.X.(*ssa.FieldAddr); ok && x.Op == token.MUL {
			isActual = fieldNameOf(fa.X.Type(), fa.Field) == "Actual" && c06RootParam(fa.X) == fn.Params[1]
		}
	}
	if !isActual {
		return false
	}
	recvT := fn.Signature.Recv().Type()
	if pt, ok := recvT.(*types.Pointer); ok {
		recvT = pt.Elem()
	}
	n := 0
	ok := true
	for _, f := range p.FqFunctions() {
		if !linkedPackages(p)[fw.FnPkgPath(f)] {
			continue
		}
		fw.EachInstr(f, func(ins ssa.Instruction) {
			mi, isMI := ins.(*ssa.MakeInterface)
			if !isMI {
				return
			}
			t := mi.X.Type()
			if pt, isP := t.(*types.Pointer); isP {
				t = pt.Elem()
			}
			if !types.Identical(t, recvT) || mi.Referrers() == nil {
				return
			}
			// the interface value goes into the variadic mapper slice of a reader call (or straight into a call)
			for _, call := range c06CallsReceiving(mi, 0) {
				n++
				cl, isCall := call.(*ssa.Call)
				if !isCall {
					ok = false
					continue
				}
				rng, known := readerCallRange(cl, 0)
				if !known || rng.HiInf {
					ok = false
				}
			}
		})
	}
	return ok && n > 0
}

func c06RootParam(v ssa.Value) *ssa.Parameter {
	for i := 0; i < 6; i++ {
		switch x := v.(type) {
		case *ssa.Parameter:
			return x
		case *ssa.Alloc:
			// spilled parameter: the entry block stores the parameter into it
			if x.Referrers() != nil {
				for _, rf := range *x.Referrers() {
					if st, ok := rf.(*ssa.Store); ok && st.Addr == ssa.Value(x) {
						if pa, ok := st.Val.(*ssa.Parameter); ok {
							return pa
						}
					}
				}
			}
			return nil
		case *ssa.FieldAddr:
			v = x.X
		case *ssa.Field:
			v = x.X
		case *ssa.UnOp:
			v = x.X
		default:
			return nil
		}
	}
	return nil
}

// c06CallsReceiving: the calls that receive v as an argument, directly or packed into a variadic slice.
func c06CallsReceiving(v ssa.Value, depth int) []ssa.CallInstruction {
	if depth > 4 || v.Referrers() == nil {
		return nil
	}
	var out []ssa.CallInstruction
	for _, rf := range *v.Referrers() {
		switch x := rf.(type) {
		case ssa.CallInstruction:
			out = append(out, x)
		case *ssa.Store:
			if ia, ok := x.Addr.(*ssa.IndexAddr); ok && x.Val == v {
				if al, ok := ia.X.(*ssa.Alloc); ok {
					out = append(out, c06CallsReceiving(al, depth+1)...)
				}
			}
		case *ssa.Slice:
			out = append(out, c06CallsReceiving(x, depth+1)...)
		case *ssa.ChangeInterface:
			out = append(out, c06CallsReceiving(x, depth+1)...)
		case *ssa.Phi:
			out = append(out, c06CallsReceiving(x, depth+1)...)
		}
	}
	return out
}
