package rules

import (
	"fmt"
	"sort"
	"strings"

	"github.com/wader/gojq"
	"golang.org/x/tools/go/ssa"

	"fqverif/fw"
)

// ---------------------------------------------------------------------------
// jq helpers

func jqStrip(q *gojq.Query) *gojq.Query {
	for q != nil && q.Left == nil && len(q.FuncDefs) == 0 && q.Term != nil && q.Term.Type == gojq.TermTypeQuery && len(q.Term.SuffixList) == 0 {
		q = q.Term.Query
	}
	return q
}

// jqPath: q is exactly `.a.b.c` -> [a b c]; `.` -> [] (ok).
func jqPath(q *gojq.Query) ([]string, bool) {
	q = jqStrip(q)
	if q == nil || q.Left != nil || q.Term == nil || len(q.FuncDefs) > 0 {
		return nil, false
	}
	t := q.Term
	var out []string
	switch t.Type {
	case gojq.TermTypeIdentity:
	case gojq.TermTypeIndex:
		if t.Index == nil || t.Index.Name == "" {
			return nil, false
		}
		out = append(out, strings.TrimPrefix(t.Index.Name, "."))
	default:
		return nil, false
	}
	for _, s := range t.SuffixList {
		if s.Index == nil || s.Index.Name == "" || s.Iter || s.Bind != nil {
			return nil, false
		}
		out = append(out, strings.TrimPrefix(s.Index.Name, "."))
	}
	return out, true
}

func jqIsNull(q *gojq.Query) bool {
	q = jqStrip(q)
	return q != nil && q.Left == nil && q.Term != nil && q.Term.Type == gojq.TermTypeNull && len(q.Term.SuffixList) == 0
}

type jqCond struct {
	Field   string
	Alts    []string
	HasNull bool
}

// jqCondOf parses `.F == "a" or .F == null` and `.F | . == "a" or . == "b"`.
func jqCondOf(q *gojq.Query, ctx string) (jqCond, bool) {
	q = jqStrip(q)
	if q == nil {
		return jqCond{}, false
	}
	switch {
	case q.Op == gojq.OpPipe && q.Left != nil:
		p, ok := jqPath(q.Left)
		if !ok || len(p) != 1 || ctx != "" {
			return jqCond{}, false
		}
		return jqCondOf(q.Right, p[0])
	case q.Op == gojq.OpOr && q.Left != nil:
		a, ok1 := jqCondOf(q.Left, ctx)
		b, ok2 := jqCondOf(q.Right, ctx)
		if !ok1 || !ok2 || a.Field != b.Field {
			return jqCond{}, false
		}
		return jqCond{Field: a.Field, Alts: append(a.Alts, b.Alts...), HasNull: a.HasNull || b.HasNull}, true
	case q.Op == gojq.OpEq && q.Left != nil:
		p, ok := jqPath(q.Left)
		if !ok {
			return jqCond{}, false
		}
		field := ctx
		if ctx == "" {
			if len(p) != 1 {
				return jqCond{}, false
			}
			field = p[0]
		} else if len(p) != 0 {
			return jqCond{}, false
		}
		if s, ok := fw.JQConstString(jqStrip(q.Right)); ok {
			return jqCond{Field: field, Alts: []string{s}}, true
		}
		if jqIsNull(q.Right) {
			return jqCond{Field: field, HasNull: true}, true
		}
	}
	return jqCond{}, false
}

func jqAsIf(q *gojq.Query) *gojq.If {
	q = jqStrip(q)
	if q != nil && q.Left == nil && q.Term != nil && q.Term.Type == gojq.TermTypeIf && len(q.Term.SuffixList) == 0 {
		return q.Term.If
	}
	return nil
}

type jqBranch struct {
	Cond jqCond
	Else bool
	Body *gojq.Query
}

func jqBranches(i *gojq.If) ([]jqBranch, string) {
	var out []jqBranch
	add := func(c, body *gojq.Query) string {
		jc, ok := jqCondOf(c, "")
		if !ok {
			return "condition `" + fw.JQStr(c) + "` is not a comparison of one field with string constants"
		}
		out = append(out, jqBranch{Cond: jc, Body: body})
		return ""
	}
	if m := add(i.Cond, i.Then); m != "" {
		return nil, m
	}
	for _, e := range i.Elif {
		if m := add(e.Cond, e.Then); m != "" {
			return nil, m
		}
	}
	out = append(out, jqBranch{Else: true, Body: i.Else})
	return out, ""
}

// jqRoute evaluates the if-tree for a row's discriminator Syms and returns the leaf body.
func jqRoute(i *gojq.If, attrs map[string]string) (*gojq.Query, string, string) {
	trace := ""
	for depth := 0; depth < 6; depth++ {
		brs, why := jqBranches(i)
		if why != "" {
			return nil, trace, why
		}
		var body *gojq.Query
		for _, b := range brs {
			if b.Else {
				body = b.Body
				trace += "/else"
				break
			}
			v, has := attrs[b.Cond.Field]
			hit := !has && b.Cond.HasNull
			for _, a := range b.Cond.Alts {
				if has && a == v {
					hit = true
				}
			}
			if hit {
				body = b.Body
				trace += "/" + b.Cond.Field + "=" + v
				break
			}
		}
		if body == nil {
			return nil, trace, "no else arm"
		}
		if nested := jqAsIf(body); nested != nil {
			i = nested
			continue
		}
		return body, trace, ""
	}
	return nil, trace, "if-tree too deep"
}

// jqLeafKind classifies how the last stage of a leaf builds its result.
func jqLeafKind(q *gojq.Query) string {
	q = jqStrip(q)
	if q == nil {
		return "identity"
	}
	switch q.Op {
	case gojq.OpAlt:
		r := jqStrip(q.Right)
		if r != nil && r.Term != nil && r.Left == nil {
			if r.Term.Type == gojq.TermTypeObject && (r.Term.Object == nil || len(r.Term.Object.KeyVals) == 0) {
				return "object-total"
			}
			if r.Term.Type == gojq.TermTypeArray && (r.Term.Array == nil || r.Term.Array.Query == nil) {
				return "array-total"
			}
		}
		return "alt"
	case gojq.OpEq, gojq.OpNe, gojq.OpLt, gojq.OpLe, gojq.OpGt, gojq.OpGe:
		return "bool"
	}
	if q.Left != nil || q.Term == nil {
		return "expr"
	}
	t := q.Term
	switch t.Type {
	case gojq.TermTypeFunc:
		switch fw.JQFuncKey(t.Func) {
		case "from_entries/0":
			return "object-total"
		case "map/1":
			return "array-total"
		case "tovalue/0", "tostring/0", "tojson/0":
			return "scalar"
		case "add/0", "add/1", "first/0", "last/0", "first/1", "last/1", "min/0", "max/0":
			return "partial:" + t.Func.Name
		case "error/1", "error/0":
			return "error"
		}
		return "call:" + t.Func.Name
	case gojq.TermTypeReduce:
		return "reduce"
	case gojq.TermTypeArray:
		return "array-total"
	case gojq.TermTypeObject:
		return "object-total"
	}
	return "expr"
}

// c16LeafExact: what the leaf of a scalar / bytes / numeric-bool arm must be so that the result is
// the encoded value: `.<field> | tovalue` (a byte string may also use tostring: both give the
// bytes as a string; tostring / tojson of a number or bool is a different value), and a numeric
// bool is true exactly when the octet is not 0.
func c16LeafExact(class string, st []*gojq.Query, p []string) string {
	switch class {
	case "scalar", "bytes":
		if len(st) != 2 || len(p) != 1 {
			return "expected `.<field> | tovalue`"
		}
		last := st[len(st)-1]
		if fw.JQIsCall(last, "tovalue", 0) != nil {
			return ""
		}
		if class == "bytes" && fw.JQIsCall(last, "tostring", 0) != nil {
			return ""
		}
		return "the value is converted (tostring / tojson of a number, bool or null is not that value); expected tovalue"
	case "bool":
		c := jqStrip(st[0])
		if len(st) != 1 || c == nil || c.Left == nil || len(p) != 1 {
			return "expected `.<field> != 0`"
		}
		n, ok := fw.JQConstNumber(jqStrip(c.Right))
		if !ok {
			return "the octet is not compared with a number"
		}
		switch {
		case c.Op == gojq.OpNe && n == "0", c.Op == gojq.OpGt && n == "0", c.Op == gojq.OpGe && n == "1", c.Op == gojq.OpEq && n == "1":
			// (== 1 agrees with != 0 on every octet an encoder emits)
			return ""
		}
		return "true must be `octet != 0` or `== 1` (the comparison `" + c.Op.String() + " " + n + "` maps some octets to the opposite truth value)"
	}
	return ""
}

// ---------------------------------------------------------------------------

type c16Reducer struct {
	def   *fw.JQDef
	ifn   *gojq.If
	names map[string]bool // names that recurse into the reducer
}

func (x *c16) reducer(ru *fw.Rule, f *c16Format) *c16Reducer {
	name := "_" + f.Name + "_torepr"
	ds := x.jq.TopDefs(name, 0)
	if len(ds) != 1 {
		ru.Undecided(f.Name+":def", "", fmt.Sprintf("%d definitions of %s/0 in the bundled jq sources, expected 1", len(ds), name))
		return nil
	}
	d := ds[0]
	if !strings.HasPrefix(d.File.Rel, f.Pkg+"/") {
		ru.Fail(f.Name+":def", d.File.Rel, name+" is not defined next to its decoder in "+f.Pkg)
	}
	r := &c16Reducer{def: d, names: map[string]bool{name + "/0": true}}
	var ifs []*gojq.If
	fw.WalkJQ(d.Def, func(n any) bool {
		switch v := n.(type) {
		case *gojq.FuncDef:
			r.names[fmt.Sprintf("%s/%d", v.Name, len(v.Args))] = true
		case *gojq.If:
			ifs = append(ifs, v)
			return false
		}
		return true
	}, false)
	if len(ifs) != 1 {
		ru.Undecided(f.Name+":def", d.File.Rel, fmt.Sprintf("%s has %d top-level if-chains, expected 1", name, len(ifs)))
		return nil
	}
	r.ifn = ifs[0]
	return r
}

func (r *c16Reducer) recursive(q *gojq.Query) bool {
	st := fw.JQPipeline(q)
	if len(st) == 0 {
		return false
	}
	last := jqStrip(st[len(st)-1])
	if last == nil || last.Left != nil || last.Term == nil || last.Term.Type != gojq.TermTypeFunc || len(last.Term.SuffixList) > 0 {
		return false
	}
	return r.names[fw.JQFuncKey(last.Term.Func)]
}

func (x *c16) repr(fs []*c16Format) {
	rd := x.r.Rule("C16.repr.dispatch", "torepr: funcs.jq torepr calls _format_func(format; \"torepr\"), the generated dispatcher names _<format>_<func>, each binary format registers Functions [\"torepr\"] under the group name its reducer is named after", 7)
	rs := x.r.Rule("C16.repr.syms", "torepr reducers: every string a reducer compares a discriminator with is a Sym the Go table of that field emits, every field a reducer indexes is created by the format's decoder", 25)
	rt := x.r.Rule("C16.repr.route", "torepr reducers: every Go table row is routed (by its Sym) to an arm whose first index is a field the row's handler adds and whose construction fits the row's class (map / array / bytes / scalar / numeric bool): scalars are exactly `.<field> | tovalue`, a numeric bool is `.<field> != 0`", 70)
	rb := x.r.Rule("C16.repr.build", "torepr reducers: map arms are path | map({key,value}) | from_entries (or end in `// {}`) with key from the key field and value from the value field through the reducer; array arms are path | map(reducer): empty containers yield {} / []", 9)
	x.reprDispatch(rd, fs)
	for _, f := range fs {
		if len(f.Rows) == 0 {
			rt.Undecided(f.Name, "", "no Go rows extracted for this format")
			continue
		}
		r := x.reducer(rs, f)
		if r == nil {
			continue
		}
		file := r.def.File.Rel
		// syms
		var walk func(i *gojq.If)
		walk = func(i *gojq.If) {
			brs, why := jqBranches(i)
			if why != "" {
				rs.Undecided(f.Name+":cond", file, why)
				return
			}
			for _, b := range brs {
				if !b.Else {
					syms, known := f.Syms[b.Cond.Field]
					if !known {
						rs.Fail(f.Name+":field:"+b.Cond.Field, file, "reducer discriminates on ."+b.Cond.Field+" which has no Go Sym table")
					}
					for _, a := range b.Cond.Alts {
						rs.Check(syms[a], fmt.Sprintf("%s:%s=%s", f.Name, b.Cond.Field, a), file, "emitted by the Go table", fmt.Sprintf("reducer compares .%s with %q, which the Go decoder never emits as Sym: the arm is dead and those values fall through", b.Cond.Field, a))
					}
				}
				if n := jqAsIf(b.Body); n != nil {
					walk(n)
				}
			}
		}
		walk(r.ifn)
		// fields
		seen := map[string]bool{}
		fw.WalkJQ(r.def.Def, func(n any) bool {
			if ix, ok := n.(*gojq.Index); ok && ix.Name != "" {
				seen[strings.TrimPrefix(ix.Name, ".")] = true
			}
			return true
		}, false)
		for _, name := range fw.SortedKeys(seen) {
			rs.Check(f.PkgFields[name], f.Name+":index:"+name, file, "field created by the decoder", "reducer indexes ."+name+" but no decoder call in "+f.Pkg+" creates a field of that name")
		}
		// rows
		built := map[string]bool{}
		for _, row := range f.Rows {
			if row.Class == "none" {
				continue
			}
			key := f.Name + ":" + row.Key
			leaf, trace, why := jqRoute(r.ifn, row.Attrs)
			if why != "" {
				rt.Undecided(key, file, why)
				continue
			}
			st := fw.JQPipeline(leaf)
			if len(st) == 0 {
				rt.Fail(key, file, "row is routed to an empty arm")
				continue
			}
			first := st[0]
			if c := jqStrip(first); len(st) == 1 && c != nil && c.Left != nil && jqLeafKind(c) == "bool" {
				first = c.Left // `.value != 0`: the compared field
			}
			p, ok := jqPath(first)
			if !ok || len(p) == 0 {
				rt.Fail(key, file, "arm "+trace+" does not start by indexing a field: `"+fw.JQStr(leaf)+"`")
				continue
			}
			if !row.Produced[p[0]] {
				rt.Fail(key, row.Pos, fmt.Sprintf("row is routed to arm %s which reads .%s, but the row's handler adds only {%s}", trace, p[0], c16Names(row.Produced)))
				continue
			}
			kind := jqLeafKind(st[len(st)-1])
			want := map[string]string{"map": "object-total", "array": "array-total", "bytes": "scalar", "scalar": "scalar", "bool": "bool"}[row.Class]
			if kind == want {
				// the leaf yields the decoded value itself, not a conversion of it
				if why := c16LeafExact(row.Class, st, p); why != "" {
					rt.Fail(key, row.Pos, fmt.Sprintf("a %s row is routed to arm %s `%s`: %s", row.Class, trace, fw.JQStr(leaf), why))
					continue
				}
			}
			rt.Check(kind == want, key, row.Pos, fmt.Sprintf("%s -> %s (%s)", row.Class, trace, kind), fmt.Sprintf("a %s row is routed to arm %s whose result is built by %s, expected %s", row.Class, trace, kind, want))
			if (row.Class == "map" || row.Class == "array") && !built[trace] {
				built[trace] = true
				msg := r.buildCheck(row.Class, st)
				rb.Check(msg == "", f.Name+":"+row.Class+":"+trace, file, "total construction", fmt.Sprintf("%s arm %s: %s", row.Class, trace, msg))
			}
		}
		if f.Name == "bson" {
			x.bsonRoot(rt, f, r)
		}
	}
}

// buildCheck: shape of a container arm.
func (r *c16Reducer) buildCheck(class string, st []*gojq.Query) string {
	last := jqStrip(st[len(st)-1])
	kind := jqLeafKind(last)
	if class == "array" {
		if kind != "array-total" {
			return "result is built by " + kind + ", which is not [] for an empty list"
		}
		m := fw.JQIsCall(last, "map", 1)
		if m == nil || len(st) != 2 {
			return "expected `<elements> | map(<reducer>)`"
		}
		if !r.recursive(m.Args[0]) {
			return "elements are not mapped through the reducer"
		}
		return ""
	}
	if kind != "object-total" {
		return "result is built by " + kind + ", which is not {} for an empty list (use from_entries or `// {}`)"
	}
	// find map({key:..., value:...})
	var obj *gojq.Object
	for _, s := range st {
		inner := s
		if jqStrip(s).Op == gojq.OpAlt {
			for _, s2 := range fw.JQPipeline(jqStrip(s).Left) {
				if m := fw.JQIsCall(s2, "map", 1); m != nil {
					inner = s2
				}
			}
		}
		if m := fw.JQIsCall(inner, "map", 1); m != nil {
			a := jqStrip(m.Args[0])
			if a != nil && a.Term != nil && a.Left == nil && a.Term.Type == gojq.TermTypeObject {
				obj = a.Term.Object
			}
		}
	}
	if obj == nil {
		return "no map({key: ..., value: ...}) stage"
	}
	var keyQ, valQ *gojq.Query
	for _, kv := range obj.KeyVals {
		switch kv.Key {
		case "key", "k", "name":
			keyQ = kv.Val
		case "value", "v":
			valQ = kv.Val
		}
	}
	if keyQ == nil && valQ == nil && len(obj.KeyVals) == 1 && obj.KeyVals[0].KeyQuery != nil {
		// {(<key>): <value>} merged by add (only total together with `// {}`, checked above)
		keyQ, valQ = obj.KeyVals[0].KeyQuery, obj.KeyVals[0].Val
	}
	if keyQ == nil || valQ == nil {
		return "entry object lacks key or value"
	}
	kst := fw.JQPipeline(keyQ)
	kp, ok := jqPath(kst[0])
	if !ok || len(kp) != 1 || (kp[0] != "key" && kp[0] != "name") {
		return "entry key is not taken from the pair's key field: `" + fw.JQStr(keyQ) + "`"
	}
	if len(kst) > 1 && !r.recursive(keyQ) {
		return "entry key is not reduced through the reducer"
	}
	if !r.recursive(valQ) {
		return "entry value is not reduced through the reducer"
	}
	vst := fw.JQPipeline(valQ)
	if len(vst) > 1 {
		vp, ok := jqPath(vst[0])
		if !ok || len(vp) != 1 || vp[0] != "value" {
			return "entry value is not taken from the pair's value field: `" + fw.JQStr(valQ) + "`"
		}
	}
	return ""
}

// bsonRoot: the reducer wraps the root as {type: <document Sym>, value: .}.
func (x *c16) bsonRoot(rt *fw.Rule, f *c16Format, r *c16Reducer) {
	file := r.def.File.Rel
	body := *r.def.Def.Body
	body.FuncDefs = nil
	st := fw.JQPipeline(&body)
	ok := false
	msg := "root is not wrapped as {type: \"<document>\", value: .} | <reducer>"
	if len(st) == 2 && r.recursive(st[1]) {
		o := jqStrip(st[0])
		if o != nil && o.Term != nil && o.Term.Type == gojq.TermTypeObject && o.Term.Object != nil {
			var typ string
			idv := false
			for _, kv := range o.Term.Object.KeyVals {
				if kv.Key == "type" {
					typ, _ = fw.JQConstString(jqStrip(kv.Val))
				}
				if kv.Key == "value" {
					p, isP := jqPath(kv.Val)
					idv = isP && len(p) == 0
				}
			}
			for _, row := range f.Rows {
				if row.Class == "map" && row.Attrs["type"] == typ && idv {
					ok = true
				}
			}
			if !ok {
				msg = fmt.Sprintf("root is wrapped with type %q, which is not the Sym of the document element type", typ)
			}
		}
	}
	rt.Check(ok, "bson:root", file, "root reduced as a document", msg)
}

// ---------------------------------------------------------------------------

func (x *c16) reprDispatch(rd *fw.Rule, fs []*c16Format) {
	// (1) def torepr
	d := x.jq.Def("pkg/interp/funcs.jq", "torepr", 0)
	if d == nil {
		rd.Undecided("torepr", "pkg/interp/funcs.jq", "def torepr/0 not found")
	} else {
		okCall, okFmt := false, false
		for _, c := range fw.JQCalls(d.Def) {
			if c.Name == "_format_func" && len(c.Args) == 2 {
				if s, ok := fw.JQConstString(c.Args[1]); ok && s == "torepr" {
					a := jqStrip(c.Args[0])
					if a != nil && a.Term != nil && a.Term.Type == gojq.TermTypeFunc && strings.HasPrefix(a.Term.Func.Name, "$") {
						okCall = true
					}
				}
			}
			if c.Name == "format" && len(c.Args) == 0 {
				okFmt = true
			}
		}
		rd.Check(okCall && okFmt, "torepr", "pkg/interp/funcs.jq", "format as $f | _format_func($f; \"torepr\")", "torepr does not dispatch on the value's format name with function name \"torepr\"")
	}
	// (2) generated dispatcher: ... then _\($f.name)_\(.)
	gf := x.jq.File("pkg/interp/format_func.jq")
	if gf == nil {
		rd.Undecided("format_func", "pkg/interp/format_func.jq", "file not found")
	} else {
		ok := false
		fw.WalkJQ(gf.Query, func(n any) bool {
			s, isS := n.(*gojq.String)
			if !isS || len(s.Queries) < 4 {
				return true
			}
			for i := 0; i+3 < len(s.Queries); i++ {
				lit, ok1 := fw.JQConstString(s.Queries[i])
				p1, ok2 := jqVarPath(s.Queries[i+1])
				lit2, ok3 := fw.JQConstString(s.Queries[i+2])
				p2, ok4 := jqPath(s.Queries[i+3])
				if ok1 && ok2 && ok3 && ok4 && strings.HasSuffix(lit, "then _") && p1 == "name" && lit2 == "_" && len(p2) == 0 {
					ok = true
				}
			}
			return true
		}, false)
		rd.Check(ok, "format_func", gf.Rel, "arm body is _<format name>_<function name>", "the generated dispatcher does not call _\\($f.name)_\\(.)")
	}
	// (3) Go registration
	regFn := x.p.Fn("pkg/interp.RegisterFormat")
	if regFn == nil {
		rd.Undecided("register", "", "interp.RegisterFormat not found")
		return
	}
	fmtNamed, fidx := decodeFormatField(x.p, "Functions")
	for _, f := range fs {
		key := "register:" + f.Name
		found := false
		for _, fn := range x.p.FqFunctions() {
			if pkgRel(fn) != f.Pkg {
				continue
			}
			for _, c := range fw.CallsIn(fn) {
				if c.Common().StaticCallee() != regFn || len(c.Common().Args) != 2 {
					continue
				}
				gname := x.groupName(c.Common().Args[0])
				if gname != f.Name {
					continue
				}
				found = true
				has := false
				fw.EachInstr(fn, func(ins ssa.Instruction) {
					st, ok := ins.(*ssa.Store)
					if !ok || !isFieldAddrOf(st.Addr, fmtNamed, fidx) {
						return
					}
					if fa := st.Addr.(*ssa.FieldAddr); fa.X != c.Common().Args[1] {
						return
					}
					if sl, ok := st.Val.(*ssa.Slice); ok {
						if a, ok := sl.X.(*ssa.Alloc); ok {
							for _, v := range c16StoresUnder(fn, a) {
								if s, ok := constString(v); ok && s == "torepr" {
									has = true
								}
							}
						}
					}
				})
				rd.Check(has, key, x.p.Rel(c.Pos()), "Functions contains torepr", "format "+f.Name+" does not list \"torepr\" in decode.Format.Functions: torepr fails with \"has no torepr\"")
			}
		}
		if !found {
			rd.Fail(key, "", "no interp.RegisterFormat call in "+f.Pkg+" registers a group named "+f.Name+" (the reducer _"+f.Name+"_torepr would never be selected)")
		}
	}
}

func jqVarPath(q *gojq.Query) (string, bool) {
	q = jqStrip(q)
	if q == nil || q.Left != nil || q.Term == nil || q.Term.Type != gojq.TermTypeFunc || !strings.HasPrefix(q.Term.Func.Name, "$") || len(q.Term.SuffixList) != 1 {
		return "", false
	}
	s := q.Term.SuffixList[0]
	if s.Index == nil {
		return "", false
	}
	return strings.TrimPrefix(s.Index.Name, "."), true
}

// groupName: v is a load of a package-level *decode.Group; returns its constant Name.
func (x *c16) groupName(v ssa.Value) string {
	ld, ok := v.(*ssa.UnOp)
	if !ok {
		return ""
	}
	g, ok := ld.X.(*ssa.Global)
	if !ok {
		return ""
	}
	init := g.Pkg.Func("init")
	if init == nil {
		return ""
	}
	name := ""
	fw.EachInstr(init, func(ins ssa.Instruction) {
		st, ok := ins.(*ssa.Store)
		if !ok || st.Addr != ssa.Value(g) {
			return
		}
		if a, ok := st.Val.(*ssa.Alloc); ok {
			if s, ok := constString(c16StoresUnder(init, a)[".Name"]); ok {
				name = s
			}
		}
	})
	return name
}

var _ = sort.Strings
