package rules

import (
	"go/token"
	"go/types"

	"golang.org/x/tools/go/ssa"

	"fqverif/fw"
)

// closureFn: the function behind a func value (plain function or closure).
func (c *c03x) closureFn(v ssa.Value) *ssa.Function {
	switch x := c.canon(v).(type) {
	case *ssa.Function:
		return x
	case *ssa.MakeClosure:
		f, _ := x.Fn.(*ssa.Function)
		return f
	}
	return nil
}

// childElem: v is a load of Children[idx] of a compound satisfying isComp; returns the index value.
func (c *c03x) childElem(v ssa.Value, isComp func(ssa.Value) bool) (idx ssa.Value, ok bool) {
	v = c.canon(v)
	if ld, ok := v.(*ssa.UnOp); ok && ld.Op == token.MUL {
		v = ld.X
	}
	ia, ok := v.(*ssa.IndexAddr)
	if !ok {
		return nil, false
	}
	pp := c.pathOf(ia.X)
	if pp.path != ".Children" || !isComp(pp.root) {
		return nil, false
	}
	return ia.Index, true
}

// countsFromZero: idx is the induction variable of a loop that starts at 0 and steps by 1.
func (c *c03x) countsFromZero(idx ssa.Value) bool {
	isK := func(v ssa.Value, k int64) bool { x, ok := c03ConstInt(v); return ok && x == k }
	// phi with exactly one incoming start constant k (entering the loop), every other incoming value
	// (back edges: end of body, continue) satisfying next
	startsAt := func(ph *ssa.Phi, k int64, next func(ssa.Value) bool) bool {
		nStart := 0
		for i, e := range ph.Edges {
			back := ph.Block().Dominates(ph.Block().Preds[i])
			switch {
			case !back && isK(e, k):
				nStart++
			case back && next(e):
			default:
				return false
			}
		}
		return nStart == 1 && len(ph.Edges) >= 2
	}
	switch x := idx.(type) {
	case *ssa.BinOp: // range loop: idx = phi(-1, idx) + 1
		if x.Op != token.ADD || !isK(x.Y, 1) {
			return false
		}
		ph, ok := x.X.(*ssa.Phi)
		if !ok {
			return false
		}
		return startsAt(ph, -1, func(e ssa.Value) bool { return e == idx })
	case *ssa.Phi: // for i := 0; ...; i++
		return startsAt(x, 0, func(e ssa.Value) bool {
			bo, ok := e.(*ssa.BinOp)
			return ok && bo.Op == token.ADD && bo.X == idx && isK(bo.Y, 1)
		})
	}
	return false
}

func c03Post(r *fw.Run, c *c03x) {
	ru := r.Rule("C03.post", "postProcess: one-root post-order walk; a compound's Range is assigned from its first counted child and MinMax-folded with every further one; a child is left out only if IsRoot (other buffer) or synthetic; struct children are sorted by slices.SortStableFunc ascending on Range.Start, arrays are not sorted; array children get Index = position counted from 0, struct children -1", 11)
	p := c.p
	PP := c.fn(ru, c03Value+"postProcess")
	if PP == nil {
		return
	}
	recv := ssa.Value(PP.Params[0])
	var walk *ssa.Call
	n := 0
	fw.EachInstr(PP, func(ins ssa.Instruction) {
		call, ok := ins.(*ssa.Call)
		if !ok {
			return
		}
		cal := call.Common().StaticCallee()
		if cal != nil && cal.Signature.Recv() != nil && c.isNamed(cal.Signature.Recv().Type(), c.valueT) && len(cal.Name()) >= 4 && cal.Name()[:4] == "Walk" {
			walk = call
			n++
		}
	})
	if n != 1 {
		ru.Undecided("postProcess:walk", c.at(PP), "expected exactly one Walk* call")
		return
	}
	wn := walk.Common().StaticCallee().Name()
	ru.Check(wn == "WalkRootPostOrder" && c.canon(walk.Common().Args[0]) == recv, "postProcess:walk-post-order-one-root", p.Rel(walk.Pos()), "v.WalkRootPostOrder",
		"postProcess walks with "+wn+": it must be post-order (a parent folds ranges its children already computed, and assigns array indices after the child reset its own) and stay inside this buffer root")
	W := c.closureFn(walk.Common().Args[1])
	if W == nil || len(W.Params) < 1 {
		ru.Undecided("postProcess:fn", p.Rel(walk.Pos()), "walk function not resolvable")
		return
	}
	v := ssa.Value(W.Params[0])
	isComp := func(x ssa.Value) bool { return c.compOf(x, v, ".V") }

	// ---- range fold
	type rs struct {
		st     *ssa.Store
		child  ssa.Value // the child value f
		direct bool
		guards []fw.Guard // conditions under which this variant of the store value is taken
	}
	var stores []rs
	okShape := true
	why := ""
	// classify one candidate value of a store to v.Range: child.Range (direct) or MinMax(v.Range, child.Range)
	classify := func(val ssa.Value) (child ssa.Value, direct bool, bad string) {
		val = c.canon(val)
		if call, ok := val.(*ssa.Call); ok && fw.CalleeName(call) == fw.Mod+"/pkg/ranges.MinMax" {
			a0, a1 := c.pathOf(call.Common().Args[0]), c.pathOf(call.Common().Args[1])
			if a0.is(v, ".Range") && a1.path == ".Range" {
				child = a1.root
			} else if a1.is(v, ".Range") && a0.path == ".Range" {
				child = a0.root
			}
			if child == nil {
				return nil, false, "MinMax is not applied to (v.Range, child.Range)"
			}
			if _, ok := c.childElem(child, isComp); !ok {
				return nil, false, "MinMax operand is not a child of the visited compound"
			}
			return child, false, ""
		}
		pp := c.pathOf(val)
		if pp.path == ".Range" {
			if _, ok := c.childElem(pp.root, isComp); ok {
				return pp.root, true, ""
			}
		}
		return nil, false, "v.Range is assigned something that is neither child.Range nor MinMax(v.Range, child.Range)"
	}
	for _, fs := range c.fieldStores(W, c.valueT, "Range") {
		if !(fs.base.is(v, "") && fs.sub == "") {
			okShape, why = false, "Range of something other than the visited compound is written (or only part of it)"
			continue
		}
		// the stored value may be chosen by control flow (r := child.Range; if !first { r = MinMax(v.Range, r) }; v.Range = r):
		// every incoming value is one variant of the store, taken under the conditions of its edge
		if ph, ok := c.canon(fs.st.Val).(*ssa.Phi); ok {
			for i, e := range ph.Edges {
				child, direct, bad := classify(e)
				if bad != "" {
					okShape, why = false, bad
					continue
				}
				stores = append(stores, rs{fs.st, child, direct, c03EdgeGuards(ph.Block().Preds[i], ph.Block())})
			}
			continue
		}
		child, direct, bad := classify(fs.st.Val)
		if bad != "" {
			okShape, why = false, bad
			continue
		}
		stores = append(stores, rs{fs.st, child, direct, fw.Guards(fs.st.Block())})
	}
	nFold := 0
	var child ssa.Value
	for _, s := range stores {
		if !s.direct {
			nFold++
		}
		if child == nil {
			child = s.child
		} else if child != s.child {
			okShape, why = false, "range stores refer to different children"
		}
	}
	if okShape && nFold == 0 {
		okShape, why = false, "no MinMax fold of children ranges"
	}
	ru.Check(okShape, "postProcess:fold-shape", c.at(W), "v.Range = child.Range | MinMax(v.Range, child.Range)", "postProcess: "+why+": a compound's range no longer spans its children")
	if okShape && child != nil {
		body := child.(ssa.Instruction).Block()
		// (a) direct assignment only for the first counted child
		okFirst := true
		var flagIf *ssa.If
		for _, s := range stores {
			var flag *ssa.Phi
			var fg fw.Guard
			for _, g := range s.guards {
				gn := c03Norm(g)
				if ph, ok := gn.Cond.(*ssa.Phi); ok && types.Identical(ph.Type().Underlying(), types.Typ[types.Bool]) {
					flag, fg = ph, gn
				}
			}
			if !s.direct {
				if flag != nil {
					if flagIf == nil {
						flagIf = fg.If
					}
				}
				continue
			}
			if flag == nil || !fg.True {
				okFirst = false
				continue
			}
			flagIf = fg.If
			pb := flag.Block()
			for i, e := range flag.Edges {
				pred := pb.Preds[i]
				if pb.Dominates(pred) { // back edge
					afterStore := s.st.Block().Dominates(pred)
					switch {
					case e == ssa.Value(flag):
						if afterStore {
							okFirst = false
						}
					case c03IsConstBool(e, false):
						if !afterStore {
							okFirst = false
						}
					default:
						okFirst = false
					}
				} else if !c03IsConstBool(e, true) {
					okFirst = false
				}
			}
		}
		ru.Check(okFirst, "postProcess:first-child-only", c.at(W), "plain assignment is guarded by a flag cleared by that assignment", "postProcess: v.Range = child.Range can happen for a child that is not the first counted one: earlier children drop out of the range")
		// (b) every iteration stores unless the child is another buffer's root or synthetic
		storeBlocks := map[*ssa.BasicBlock]bool{}
		for _, s := range stores {
			storeBlocks[s.st.Block()] = true
		}
		cut := map[[2]*ssa.BasicBlock]bool{}
		nRootSkip := 0
		for _, b := range W.Blocks {
			ifi, ok := b.Instrs[len(b.Instrs)-1].(*ssa.If)
			if !ok {
				continue
			}
			g := c03Norm(fw.Guard{Cond: ifi.Cond, True: true})
			trueSucc := b.Succs[0]
			if !g.True {
				trueSucc = b.Succs[1]
			}
			if c.pathOf(g.Cond).is(child, ".IsRoot") {
				cut[[2]*ssa.BasicBlock{b, trueSucc}] = true
				nRootSkip++
			}
			if call, ok := g.Cond.(*ssa.Call); ok {
				if cal := call.Common().StaticCallee(); cal != nil && cal.Name() == "IsSynthetic" && pkgRel(cal) == "pkg/scalar" && c.flagsOfChild(call.Common().Args[0], child) {
					cut[[2]*ssa.BasicBlock{b, trueSucc}] = true
				}
			}
		}
		escaped := false
		seen := map[*ssa.BasicBlock]bool{}
		stack := []*ssa.BasicBlock{body}
		for len(stack) > 0 {
			b := stack[len(stack)-1]
			stack = stack[:len(stack)-1]
			if seen[b] || storeBlocks[b] {
				continue
			}
			seen[b] = true
			for _, s := range b.Succs {
				if cut[[2]*ssa.BasicBlock{b, s}] {
					continue
				}
				if s == body || !body.Dominates(s) {
					escaped = true
					continue
				}
				stack = append(stack, s)
			}
		}
		ru.Check(!escaped && nRootSkip >= 1, "postProcess:every-child-counted", c.at(W), "a child is skipped only when IsRoot or synthetic", "postProcess: some child of the same buffer can pass the loop without being folded into v.Range (a skip condition other than IsRoot/synthetic, or the IsRoot exclusion is gone and nested-buffer lengths leak into the parent's range)")
		// (b') a skipped child only ends its own iteration: the skip edge leads to the next iteration
		// (continue), never out of the loop (break / return) - later children would drop out of the range
		okCont := false
		if hdr := c03LoopHeader(body); hdr != nil {
			loop := c03NaturalLoop(hdr)
			okCont = len(cut) >= 1
			for e := range cut {
				if !c03StaysInLoop(e[1], hdr, loop) {
					okCont = false
				}
			}
		}
		ru.Check(okCont, "postProcess:skip-continues", c.at(W), "the IsRoot / synthetic skip goes on with the next child", "postProcess: skipping a nested-buffer or synthetic child leaves the children loop (break/return instead of continue): the children after it are not folded into v.Range and the compound no longer spans them")
		rootGuard := true
		for _, s := range stores {
			val, found := c03GuardOn(s.st.Block(), func(cond ssa.Value) bool { return c.pathOf(cond).is(child, ".IsRoot") })
			if !found || val {
				rootGuard = false
			}
		}
		ru.Check(rootGuard, "postProcess:other-buffer-excluded", c.at(W), "stores dominated by !child.IsRoot", "postProcess: a child that is the root of another buffer is folded into the parent's range: the parent's range leaves its own buffer")
	}

	// ---- sort
	var sorts []*ssa.Call
	fw.EachInstr(W, func(ins ssa.Instruction) {
		call, ok := ins.(*ssa.Call)
		if !ok || call.Common().IsInvoke() {
			return
		}
		if _, isB := call.Common().Value.(*ssa.Builtin); isB {
			return
		}
		for _, a := range call.Common().Args {
			pp := c.pathOf(a)
			if pp.path == ".Children" && isComp(pp.root) {
				sorts = append(sorts, call)
			}
		}
	})
	if len(sorts) != 1 {
		ru.Fail("postProcess:sort", c.at(W), "expected exactly one call that reorders Children (slices.SortStableFunc), found "+c03Itoa(len(sorts)))
	} else {
		sc := sorts[0]
		name := fw.CalleeName(sc)
		ru.Check(name == "slices.SortStableFunc", "postProcess:sort-stable", p.Rel(sc.Pos()), "slices.SortStableFunc", "postProcess sorts struct fields with "+name+": fields with equal start (zero-length, synthetic) must keep decode order, the sort must be stable")
		val, found := c03GuardOn(sc.Block(), func(cond ssa.Value) bool { pp := c.pathOf(cond); return pp.path == ".IsArray" && isComp(pp.root) })
		ru.Check(found && !val, "postProcess:sort-structs-only", p.Rel(sc.Pos()), "sort dominated by !IsArray", "postProcess: the sort is not restricted to structs: array elements would be reordered (indices no longer decode order) or structs left unsorted")
		if len(sc.Common().Args) == 2 {
			cf := c.closureFn(sc.Common().Args[1])
			if cf == nil || len(cf.Params) != 2 {
				ru.Undecided("postProcess:sort-order", p.Rel(sc.Pos()), "comparator not resolvable")
			} else {
				a, b := ssa.Value(cf.Params[0]), ssa.Value(cf.Params[1])
				okCmp, und := true, false
				fw.EachInstr(cf, func(ins ssa.Instruction) {
					ret, ok := ins.(*ssa.Return)
					if !ok {
						return
					}
					if k, isK := c03ConstInt(c.canon(ret.Results[0])); isK {
						// hand-written three-way comparison: the sign returned must be the one the
						// conditions on (a.Range.Start, b.Range.Start) at this return establish
						lt, gt, le, ge, eq := c.orderFacts(ret.Block(), c03LinTerm(a, ".Range.Start"), c03LinTerm(b, ".Range.Start"))
						switch {
						case k < 0 && lt, k > 0 && gt, k == 0 && (eq || (le && ge)):
						default:
							okCmp = false
						}
						return
					}
					call, ok := c.canon(ret.Results[0]).(*ssa.Call)
					if !ok || fw.CalleeName(call) != "cmp.Compare" {
						und = true
						return
					}
					if !(c.linIsPath(c.linOf(call.Common().Args[0]), a, ".Range.Start") && c.linIsPath(c.linOf(call.Common().Args[1]), b, ".Range.Start")) {
						okCmp = false
					}
				})
				if und {
					ru.Undecided("postProcess:sort-order", c.at(cf), "comparator is neither a cmp.Compare call nor a three-way comparison with constant results")
				} else {
					ru.Check(okCmp, "postProcess:sort-order", c.at(cf), "cmp.Compare(a.Range.Start, b.Range.Start)", "postProcess: the comparator is not ascending on Range.Start of (a, b): struct fields are not ordered by start position")
				}
			}
		}
	}

	// ---- index
	nArr, nStruct := 0, 0
	okIdx, okStructIdx := true, true
	whyIdx := ""
	for _, fs := range c.fieldStores(W, c.valueT, "Index") {
		if fs.base.is(v, "") {
			continue // the compound's own index; its parent overwrites it for array elements (post-order)
		}
		if fs.base.path != "" || fs.sub != "" {
			okIdx, whyIdx = false, "Index of an unexpected value is written"
			continue
		}
		idx, ok := c.childElem(fs.base.root, isComp)
		if !ok {
			okIdx, whyIdx = false, "Index of a value that is not a child of the visited compound is written"
			continue
		}
		val, found := c03GuardOn(fs.st.Block(), func(cond ssa.Value) bool { pp := c.pathOf(cond); return pp.path == ".IsArray" && isComp(pp.root) })
		if !found {
			okIdx, whyIdx = false, "index assignment not distinguished by IsArray"
			continue
		}
		if val {
			nArr++
			if !c.linOf(fs.st.Val).equal(c.linOf(idx)) || !c.countsFromZero(idx) {
				okIdx, whyIdx = false, "array child Index is not its position counted from 0 (is "+c.showLin(c.linOf(fs.st.Val))+")"
			}
		} else {
			nStruct++
			if k, ok := c03ConstInt(fs.st.Val); !ok || k != -1 {
				okStructIdx = false
			}
		}
	}
	ru.Check(okIdx && nArr == 1, "postProcess:array-index", c.at(W), "array children: Index = position from 0", "postProcess: "+whyIdx+" (array index stores: "+c03Itoa(nArr)+"): array elements are not numbered consecutively from zero")
	ru.Check(okStructIdx && nStruct >= 1, "postProcess:struct-index", c.at(W), "struct children: Index = -1", "postProcess: struct children do not get Index -1")
}

// loopHeader: the header of the innermost loop containing block b (the closest dominator of b that
// has a back edge from a block it dominates and from which b is inside the natural loop).
func c03LoopHeader(b *ssa.BasicBlock) *ssa.BasicBlock {
	for h := b; h != nil; h = h.Idom() {
		back := false
		for _, p := range h.Preds {
			if h.Dominates(p) {
				back = true
			}
		}
		if back && c03NaturalLoop(h)[b] {
			return h
		}
	}
	return nil
}

// naturalLoop: the blocks of the loop with header h (h and everything that reaches a back edge of h
// without passing h).
func c03NaturalLoop(h *ssa.BasicBlock) map[*ssa.BasicBlock]bool {
	loop := map[*ssa.BasicBlock]bool{h: true}
	var stack []*ssa.BasicBlock
	for _, p := range h.Preds {
		if h.Dominates(p) {
			stack = append(stack, p)
		}
	}
	for len(stack) > 0 {
		b := stack[len(stack)-1]
		stack = stack[:len(stack)-1]
		if loop[b] {
			continue
		}
		loop[b] = true
		stack = append(stack, b.Preds...)
	}
	return loop
}

// staysInLoop: every path from block t reaches the header h again without leaving the loop.
func c03StaysInLoop(t, h *ssa.BasicBlock, loop map[*ssa.BasicBlock]bool) bool {
	seen := map[*ssa.BasicBlock]bool{}
	stack := []*ssa.BasicBlock{t}
	for len(stack) > 0 {
		b := stack[len(stack)-1]
		stack = stack[:len(stack)-1]
		if b == h || seen[b] {
			continue
		}
		seen[b] = true
		if !loop[b] || len(b.Succs) == 0 {
			return false
		}
		stack = append(stack, b.Succs...)
	}
	return true
}

// minMaxOf: v is min(x, y) / max(x, y) of two integer values: the builtin, or a two-way phi whose
// every incoming value is known, on its edge, to be <= (min) resp. >= (max) the other one.
func (c *c03x) minMaxOf(v ssa.Value) (kind string, x, y *c03Lin, ok bool) {
	if call, isCall := v.(*ssa.Call); isCall {
		for _, k := range []string{"min", "max"} {
			if fw.IsBuiltinCall(call, k) && len(call.Common().Args) == 2 {
				return k, c.linOf(call.Common().Args[0]), c.linOf(call.Common().Args[1]), true
			}
		}
		return "", nil, nil, false
	}
	ph, isPhi := v.(*ssa.Phi)
	if !isPhi || len(ph.Edges) != 2 || !c03IsIntT(ph.Type()) {
		return "", nil, nil, false
	}
	l := [2]*c03Lin{c.linOf(ph.Edges[0]), c.linOf(ph.Edges[1])}
	if l[0].equal(l[1]) {
		return "", nil, nil, false
	}
	for i := 0; i < 2; i++ {
		chosen, other := l[i], l[1-i]
		rel := "" // relation chosen REL other established on this edge
		for _, g := range c03EdgeGuards(ph.Block().Preds[i], ph.Block()) {
			g = c03Norm(g)
			bo, isBin := g.Cond.(*ssa.BinOp)
			if !isBin {
				continue
			}
			op := bo.Op
			if !g.True {
				switch op {
				case token.LSS:
					op = token.GEQ
				case token.LEQ:
					op = token.GTR
				case token.GTR:
					op = token.LEQ
				case token.GEQ:
					op = token.LSS
				default:
					continue
				}
			}
			lx, ly := c.linOf(bo.X), c.linOf(bo.Y)
			if lx.equal(other) && ly.equal(chosen) { // other OP chosen  ==  chosen OP' other
				switch op {
				case token.LSS:
					op = token.GTR
				case token.LEQ:
					op = token.GEQ
				case token.GTR:
					op = token.LSS
				case token.GEQ:
					op = token.LEQ
				}
			} else if !(lx.equal(chosen) && ly.equal(other)) {
				continue
			}
			switch op {
			case token.LSS, token.LEQ:
				rel = "min"
			case token.GTR, token.GEQ:
				rel = "max"
			}
		}
		if rel == "" || (kind != "" && kind != rel) {
			return "", nil, nil, false
		}
		kind = rel
	}
	return kind, l[0], l[1], true
}

// orderFacts: what the branch conditions holding at block b say about x versus y.
func (c *c03x) orderFacts(b *ssa.BasicBlock, x, y *c03Lin) (lt, gt, le, ge, eq bool) {
	for _, g := range fw.Guards(b) {
		g = c03Norm(g)
		bo, ok := g.Cond.(*ssa.BinOp)
		if !ok {
			continue
		}
		op := bo.Op
		lx, ly := c.linOf(bo.X), c.linOf(bo.Y)
		if lx.equal(y) && ly.equal(x) {
			switch op {
			case token.LSS:
				op = token.GTR
			case token.LEQ:
				op = token.GEQ
			case token.GTR:
				op = token.LSS
			case token.GEQ:
				op = token.LEQ
			}
		} else if !(lx.equal(x) && ly.equal(y)) {
			continue
		}
		if !g.True {
			switch op {
			case token.LSS:
				op = token.GEQ
			case token.LEQ:
				op = token.GTR
			case token.GTR:
				op = token.LEQ
			case token.GEQ:
				op = token.LSS
			case token.EQL:
				op = token.NEQ
			case token.NEQ:
				op = token.EQL
			}
		}
		switch op {
		case token.LSS:
			lt, le = true, true
		case token.GTR:
			gt, ge = true, true
		case token.LEQ:
			le = true
		case token.GEQ:
			ge = true
		case token.EQL:
			eq, le, ge = true, true, true
		}
	}
	return
}

// edgeGuards: the conditions known when control flows from pred to succ: those at pred plus the
// outcome of pred's own terminating If.
func c03EdgeGuards(pred, succ *ssa.BasicBlock) []fw.Guard {
	out := append([]fw.Guard{}, fw.Guards(pred)...)
	if ifi, ok := pred.Instrs[len(pred.Instrs)-1].(*ssa.If); ok && len(pred.Succs) == 2 && pred.Succs[0] != pred.Succs[1] {
		out = append(out, fw.Guard{Cond: ifi.Cond, True: pred.Succs[0] == succ, If: ifi})
	}
	return out
}

// flagsOfChild: v is child.V.(Scalarable).ScalarFlags().
func (c *c03x) flagsOfChild(v ssa.Value, child ssa.Value) bool {
	call, ok := c.canon(v).(*ssa.Call)
	if !ok || !call.Common().IsInvoke() || call.Common().Method.Name() != "ScalarFlags" {
		return false
	}
	ex, ok := call.Common().Value.(*ssa.Extract)
	if !ok {
		return false
	}
	ta, ok := ex.Tuple.(*ssa.TypeAssert)
	if !ok {
		return false
	}
	return c.pathOf(ta.X).is(child, ".V")
}

// ---------------------------------------------------------------------------

func c03MinMax(r *fw.Run, c *c03x) {
	ru := r.Rule("C03.minmax", "ranges.MinMax(a,b) = {min(a.Start,b.Start), max(a.Stop(),b.Stop()) - that min}; Range.Stop = Start + Len", 3)
	if f := c.fn(ru, "(pkg/ranges.Range).Stop"); f != nil {
		rp := ssa.Value(f.Params[0])
		ok := true
		fw.EachInstr(f, func(ins ssa.Instruction) {
			if ret, isRet := ins.(*ssa.Return); isRet {
				if !c.linOf(ret.Results[0]).equal(c03LinTerm(rp, ".Start").plus(c03LinTerm(rp, ".Len"))) {
					ok = false
				}
			}
		})
		ru.Check(ok, "Stop", c.at(f), "Start + Len", "Range.Stop is not Start + Len")
	}
	f := c.fn(ru, "pkg/ranges.MinMax")
	if f == nil || len(f.Params) != 2 {
		return
	}
	a, b := ssa.Value(f.Params[0]), ssa.Value(f.Params[1])
	// pair: v is the minimum / maximum (kind) of exactly the two linear forms x and y, written with
	// the builtin or as a compare-and-select
	pair := func(v ssa.Value, kind string, x, y *c03Lin) bool {
		k, l0, l1, ok := c.minMaxOf(v)
		if !ok || k != kind {
			return false
		}
		return (l0.equal(x) && l1.equal(y)) || (l0.equal(y) && l1.equal(x))
	}
	okS, okL := true, true
	nRet := 0
	fw.EachInstr(f, func(ins ssa.Instruction) {
		ret, isRet := ins.(*ssa.Return)
		if !isRet {
			return
		}
		nRet++
		s, l := c.rangeParts(ret.Results[0], 0)
		st, ok := c03SingleTerm(s)
		if !ok || st.path != "" || !pair(st.root, "min", c03LinTerm(a, ".Start"), c03LinTerm(b, ".Start")) {
			okS = false
		}
		good := false
		if ok && l != nil && l.c == 0 && len(l.t) == 2 && l.t[st] == -1 {
			for t, k := range l.t {
				if k == 1 && t.path == "" {
					good = pair(t.root, "max", c03LinTerm(a, ".Start").plus(c03LinTerm(a, ".Len")), c03LinTerm(b, ".Start").plus(c03LinTerm(b, ".Len")))
				}
			}
		}
		if !good {
			okL = false
		}
	})
	ru.Check(okS && nRet > 0, "MinMax:start", c.at(f), "Start = min(a.Start, b.Start)", "ranges.MinMax: Start is not min(a.Start, b.Start): a parent's range can start after one of its children")
	ru.Check(okL && nRet > 0, "MinMax:len", c.at(f), "Len = max(a.Stop(), b.Stop()) - Start", "ranges.MinMax: Len is not max(a.Stop(), b.Stop()) - min(a.Start, b.Start): a parent's range can end before one of its children")
}

// ---------------------------------------------------------------------------

func c03Walk(r *fw.Run, c *c03x) {
	ru := r.Rule("C03.walk", "Walk wrappers pass the PreOrder/OneRoot constants their names say; the walk function visits every element of Children (counted from 0) recursively, calls Fn on the visited value before the children iff PreOrder and after them otherwise, and under OneRoot returns early exactly for values other than the start value that are IsRoot", 7)
	p := c.p
	walkFn := c.fn(ru, c03Value+"Walk")
	if walkFn == nil {
		return
	}
	woT := p.NamedType("pkg/decode", "WalkOpts")
	for _, w := range []struct {
		name     string
		pre, one bool
	}{{"WalkPreOrder", true, false}, {"WalkPostOrder", false, false}, {"WalkRootPreOrder", true, true}, {"WalkRootPostOrder", false, true}} {
		f := c.fn(ru, c03Value+w.name)
		if f == nil {
			continue
		}
		calls := c.callsTo(f, walkFn)
		good := len(calls) == 1 && woT != nil
		if good {
			good = false
			if ld, ok := calls[0].Common().Args[1].(*ssa.UnOp); ok {
				if al, ok := ld.X.(*ssa.Alloc); ok && c.isNamed(al.Type(), woT) {
					pre, ok1 := c.litBool(al, "PreOrder")
					one, ok2 := c.litBool(al, "OneRoot")
					fnv, ok3 := c.litField(al, "Fn")
					good = ok1 && ok2 && ok3 && pre == w.pre && one == w.one && fnv != nil && c.canon(fnv) == ssa.Value(f.Params[1]) && c.canon(calls[0].Common().Args[0]) == ssa.Value(f.Params[0])
				}
			}
		}
		ru.Check(good, "wrapper:"+w.name, c.at(f), "Walk{PreOrder:"+c03BoolStr(w.pre)+", OneRoot:"+c03BoolStr(w.one)+"}", w.name+" does not call Walk with PreOrder="+c03BoolStr(w.pre)+", OneRoot="+c03BoolStr(w.one)+" and the given function: rebase/postProcess would cross buffer roots or run parents before children")
	}
	if len(walkFn.AnonFuncs) != 1 {
		ru.Undecided("Walk:fn", c.at(walkFn), "expected one closure in Walk")
		return
	}
	W := walkFn.AnonFuncs[0]
	if len(W.Params) != 4 {
		ru.Undecided("Walk:fn", c.at(W), "walk closure signature changed")
		return
	}
	start, opts := ssa.Value(walkFn.Params[0]), ssa.Value(walkFn.Params[1])
	wv := ssa.Value(W.Params[0])
	isComp := func(x ssa.Value) bool { return c.compOf(x, wv, ".V") }
	// recursion
	var rec []*ssa.Call
	var fnCalls []*ssa.Call
	fw.EachInstr(W, func(ins ssa.Instruction) {
		call, ok := ins.(*ssa.Call)
		if !ok || call.Common().IsInvoke() || call.Common().StaticCallee() != nil {
			return
		}
		if _, isB := call.Common().Value.(*ssa.Builtin); isB {
			return
		}
		val := call.Common().Value
		if c.pathOf(val).is(opts, ".Fn") {
			fnCalls = append(fnCalls, call)
			return
		}
		if ld, ok := val.(*ssa.UnOp); ok {
			if cell := c.cellOf(ld.X); cell != nil {
				for _, w := range c.cell(cell).whole {
					if c.closureFn(w.Val) == W {
						rec = append(rec, call)
					}
				}
			}
		}
	})
	okRec := len(rec) == 1
	if okRec {
		idx, ok := c.childElem(rec[0].Common().Args[0], isComp)
		okRec = ok && c.countsFromZero(idx)
	}
	ru.Check(okRec, "Walk:all-children", c.at(W), "recursive call on every Children[i], i from 0", "Walk: the recursion does not visit every element of the visited compound's Children")
	var pre, post *ssa.Call
	okFn := len(fnCalls) == 2
	for _, fc := range fnCalls {
		val, found := c03GuardOn(fc.Block(), func(cond ssa.Value) bool { return c.pathOf(cond).is(opts, ".PreOrder") })
		if !found || c.canon(fc.Common().Args[0]) != wv {
			okFn = false
			continue
		}
		if val {
			pre = fc
		} else {
			post = fc
		}
	}
	if okFn && pre != nil && post != nil && len(rec) == 1 {
		okFn = c03ReachesAvoiding(pre.Block(), rec[0].Block(), nil, nil) && !c03ReachesAvoiding(rec[0].Block(), pre.Block(), nil, nil) &&
			c03ReachesAvoiding(rec[0].Block(), post.Block(), nil, nil) && !c03ReachesAvoiding(post.Block(), rec[0].Block(), nil, nil)
	} else {
		okFn = false
	}
	ru.Check(okFn, "Walk:order", c.at(W), "Fn(wv) before the children iff PreOrder, after them otherwise", "Walk: Fn is not called on the visited value before its children under PreOrder and after them otherwise: post-order users (postProcess) would see parents before children")
	// one-root skip
	okSkip := false
	for _, b := range W.Blocks {
		ret, ok := b.Instrs[len(b.Instrs)-1].(*ssa.Return)
		if !ok || !isNilConst(ret.Results[0]) {
			continue
		}
		one, isRoot, notStart := false, false, false
		var oneIf *ssa.If
		for _, g := range fw.Guards(b) {
			gn := c03Norm(g)
			pp := c.pathOf(gn.Cond)
			if pp.is(opts, ".OneRoot") && gn.True {
				one, oneIf = true, g.If
			}
			if pp.is(wv, ".IsRoot") && gn.True {
				isRoot = true
			}
			if bo, ok := gn.Cond.(*ssa.BinOp); ok && (bo.Op == token.NEQ || bo.Op == token.EQL) {
				x, y := c.canon(bo.X), c.canon(bo.Y)
				if (x == wv && y == start) || (y == wv && x == start) {
					if (bo.Op == token.NEQ) == gn.True {
						notStart = true
					}
				}
			}
		}
		if one && isRoot && notStart && len(fw.Guards(b)) == 3 && pre != nil && len(rec) == 1 && oneIf.Block().Dominates(pre.Block()) && oneIf.Block().Dominates(rec[0].Block()) {
			okSkip = true
		}
	}
	ru.Check(okSkip, "Walk:one-root-skip", c.at(W), "return nil iff OneRoot && wv != start && wv.IsRoot, decided before Fn and the children", "Walk: the OneRoot early return is not exactly `wv != start value && wv.IsRoot`: same-root walks (rebase, postProcess, FillGaps) would enter nested buffers or skip their own start value")
}
