package rules

import (
	"fmt"
	"go/constant"
	"go/token"
	"go/types"
	"regexp"
	"sort"
	"strconv"
	"strings"

	"golang.org/x/tools/go/ssa"

	"fqverif/fw"
)

// ---------------------------------------------------------------------------
// mechanised precondition of the "total mapper" exceptions of C06.sym
//
// A Sym accessor may be called without a Sym != nil test when the scalar comes straight from a fixed
// width reader and one of the mappers passed to that reader is a literal that assigns a symbol to every
// value of the width: a scalar.UintRangeToScalar whose ranges (each with a Sym) cover 0..2^n-1, a
// scalar.UintMapSym* map literal with all 2^n keys, or a scalar.BoolMapSym* literal with both keys.
// Deleting an entry or narrowing a range makes the accessor panic on the uncovered value.

var symExceptionChecks = map[string]func(p *fw.Program, c ssa.CallInstruction) string{
	"format/asn1.decodeASN1BERValue$1|(pkg/scalar.Bool).SymSint|1": c06SymMapperTotal,
	"format/asn1.decodeASN1BERValue$1|(pkg/scalar.Uint).SymUint|1": c06SymMapperTotal,
	"format/flac.frameDecode$2$1|(pkg/scalar.Uint).SymStr|1":       c06SymMapperTotal,
	"format/flac.frameDecode$2$1|(pkg/scalar.Uint).SymStr|2":       c06SymMapperTotal,
}

var c06ScalarReaderRe = regexp.MustCompile(`^FieldScalar(?:U(\d+)|(Bool))$`)

func c06SymMapperTotal(p *fw.Program, c ssa.CallInstruction) string {
	args := c.Common().Args
	if len(args) == 0 {
		return "accessor without receiver"
	}
	rd := c06ReaderOfScalar(args[0], 0)
	if rd == nil {
		return "the scalar does not come straight from a FieldScalarU<n>/FieldScalarBool call"
	}
	m := c06ScalarReaderRe.FindStringSubmatch(rd.Common().StaticCallee().Name())
	if m == nil {
		return "reader " + rd.Common().StaticCallee().Name() + " has no fixed width"
	}
	isBool := m[2] != ""
	var maxV uint64
	if !isBool {
		n, _ := strconv.Atoi(m[1])
		if n <= 0 || n > 16 {
			return "reader width too large to enumerate"
		}
		maxV = uint64(1)<<uint(n) - 1
	}
	ra := rd.Common().Args
	if len(ra) < 3 {
		return "reader called without mappers"
	}
	why := "no mapper literal passed to the reader assigns a symbol to every value"
	for _, mv := range c06VariadicElems(ra[len(ra)-1]) {
		x := mv
		for {
			if mi, ok := x.(*ssa.MakeInterface); ok {
				x = mi.X
				continue
			}
			if ci, ok := x.(*ssa.ChangeInterface); ok {
				x = ci.X
				continue
			}
			break
		}
		tn := shortType(x.Type())
		switch {
		case strings.HasSuffix(tn, "scalar.UintRangeToScalar") && !isBool:
			rs, reason := c06RangeLiteral(x)
			if reason != "" {
				why = reason
				continue
			}
			want := map[string]string{"SymStr": "string", "SymUint": "uint64", "SymSint": "int64", "SymBool": "bool", "SymFlt": "float64"}[c.Common().StaticCallee().Name()]
			typeBad := false
			for _, t := range c06RangeSymTypes[x] {
				if want == "" || t != want {
					typeBad = true
				}
			}
			if typeBad {
				why = "a range entry carries a symbol that is not a " + want
				continue
			}
			sort.Slice(rs, func(i, j int) bool { return rs[i][0] < rs[j][0] })
			next := uint64(0)
			gap := false
			for _, r := range rs {
				if r[0] > next {
					gap = true
					break
				}
				if r[1]+1 > next {
					next = r[1] + 1
				}
			}
			if !gap && next > maxV {
				return ""
			}
			why = fmt.Sprintf("the ranges of the UintRangeToScalar literal do not cover %d (domain 0..%d)", next, maxV)
		case (strings.Contains(tn, "scalar.UintMapSym")) && !isBool:
			keys, reason := c06MapLiteralKeys(x)
			if reason != "" {
				why = reason
				continue
			}
			missing := ""
			for v := uint64(0); v <= maxV; v++ {
				if !keys[fmt.Sprint(v)] {
					missing = fmt.Sprint(v)
					break
				}
			}
			if missing == "" {
				return ""
			}
			why = "the " + tn + " literal has no key " + missing + " (domain 0.." + fmt.Sprint(maxV) + ")"
		case strings.Contains(tn, "scalar.BoolMapSym") && isBool:
			keys, reason := c06MapLiteralKeys(x)
			if reason != "" {
				why = reason
				continue
			}
			if keys["true"] && keys["false"] {
				return ""
			}
			why = "the " + tn + " literal does not have both keys true and false"
		}
	}
	return why
}

// c06ReaderOfScalar: the decode.D reader call whose result the scalar value v is (through one local).
func c06ReaderOfScalar(v ssa.Value, depth int) *ssa.Call {
	if depth > 3 {
		return nil
	}
	switch x := v.(type) {
	case *ssa.Call:
		if cal := x.Common().StaticCallee(); cal != nil && cal.Signature.Recv() != nil && isDecodeD(cal.Signature.Recv().Type()) {
			return x
		}
	case *ssa.UnOp:
		if x.Op != token.MUL {
			return nil
		}
		var cell ssa.Value = x.X
		if cl, ok := cell.(*ssa.Call); ok {
			return c06ReaderOfScalar(cl, depth+1) // reader returning *scalar.<Kind>
		}
		if fv, ok := cell.(*ssa.FreeVar); ok {
			vals, _ := freeVarBindings(fv.Parent(), fv)
			if len(vals) == 1 {
				cell = vals[0]
			}
		}
		a, ok := cell.(*ssa.Alloc)
		if !ok || a.Referrers() == nil {
			return nil
		}
		var only *ssa.Call
		n := 0
		for _, rf := range *a.Referrers() {
			if st, ok := rf.(*ssa.Store); ok && st.Addr == ssa.Value(a) {
				n++
				only = c06ReaderOfScalar(st.Val, depth+1)
			}
		}
		if n == 1 {
			return only
		}
	}
	return nil
}

// c06VariadicElems: the values stored into the array behind a variadic slice argument.
func c06VariadicElems(v ssa.Value) []ssa.Value {
	sl, ok := v.(*ssa.Slice)
	if !ok {
		return nil
	}
	al, ok := sl.X.(*ssa.Alloc)
	if !ok || al.Referrers() == nil {
		return nil
	}
	var out []ssa.Value
	for _, rf := range *al.Referrers() {
		ia, ok := rf.(*ssa.IndexAddr)
		if !ok || ia.Referrers() == nil {
			continue
		}
		for _, r2 := range *ia.Referrers() {
			if st, ok := r2.(*ssa.Store); ok && st.Addr == ssa.Value(ia) {
				out = append(out, st.Val)
			}
		}
	}
	return out
}

var c06RangeSymTypes = map[ssa.Value][]string{}

// c06RangeLiteral: the constant [lo,hi] ranges of a local scalar.UintRangeToScalar slice literal whose
// entries all carry a non-nil Sym.
func c06RangeLiteral(v ssa.Value) ([][2]uint64, string) {
	sl, ok := v.(*ssa.Slice)
	if !ok {
		return nil, "the range mapper is not a local slice literal"
	}
	al, ok := sl.X.(*ssa.Alloc)
	if !ok || al.Referrers() == nil {
		return nil, "the range mapper is not a local slice literal"
	}
	at, ok := al.Type().Underlying().(*types.Pointer).Elem().Underlying().(*types.Array)
	if !ok {
		return nil, "the range mapper is not a local slice literal"
	}
	type ent struct {
		lo, hi       uint64
		hasLo, hasHi bool
		sym          bool
	}
	ents := map[int64]*ent{}
	constU := func(v ssa.Value) (uint64, bool) {
		c, ok := v.(*ssa.Const)
		if !ok || c.Value == nil || c.Value.Kind() != constant.Int {
			return 0, false
		}
		return constant.Uint64Val(c.Value)
	}
	for _, rf := range *al.Referrers() {
		ia, ok := rf.(*ssa.IndexAddr)
		if !ok {
			continue
		}
		ic, ok := ia.Index.(*ssa.Const)
		if !ok || ia.Referrers() == nil {
			return nil, "range literal entry with a non-constant position"
		}
		e := ents[ic.Int64()]
		if e == nil {
			e = &ent{}
			ents[ic.Int64()] = e
		}
		for _, r2 := range *ia.Referrers() {
			fa, ok := r2.(*ssa.FieldAddr)
			if !ok || fa.Referrers() == nil {
				continue
			}
			switch fieldNameOf(fa.X.Type(), fa.Field) {
			case "Range":
				for _, r3 := range *fa.Referrers() {
					ia2, ok := r3.(*ssa.IndexAddr)
					if !ok || ia2.Referrers() == nil {
						continue
					}
					k, ok := ia2.Index.(*ssa.Const)
					if !ok {
						continue
					}
					for _, r4 := range *ia2.Referrers() {
						if st, ok := r4.(*ssa.Store); ok && st.Addr == ssa.Value(ia2) {
							if u, ok := constU(st.Val); ok {
								if k.Int64() == 0 {
									e.lo, e.hasLo = u, true
								} else {
									e.hi, e.hasHi = u, true
								}
							}
						}
					}
				}
			case "S":
				for _, r3 := range *fa.Referrers() {
					fa2, ok := r3.(*ssa.FieldAddr)
					if !ok || fieldNameOf(fa2.X.Type(), fa2.Field) != "Sym" || fa2.Referrers() == nil {
						continue
					}
					for _, r4 := range *fa2.Referrers() {
						if st, ok := r4.(*ssa.Store); ok && st.Addr == ssa.Value(fa2) && !isNilConst(st.Val) {
							e.sym = true
							if mi, ok := st.Val.(*ssa.MakeInterface); ok {
								c06RangeSymTypes[v] = append(c06RangeSymTypes[v], mi.X.Type().Underlying().String())
							} else {
								c06RangeSymTypes[v] = append(c06RangeSymTypes[v], "?")
							}
						}
					}
				}
			}
		}
	}
	var out [][2]uint64
	for i := int64(0); i < at.Len(); i++ {
		e := ents[i]
		if e == nil {
			// an all-zero entry {Range: {0,0}} without Sym has no stores at all
			continue
		}
		// constant zero bounds are not stored explicitly only when the whole field is zero; go/ssa stores them
		if !e.sym {
			continue // an entry without a symbol does not help totality
		}
		out = append(out, [2]uint64{e.lo, e.hi})
	}
	if len(out) == 0 {
		return nil, "no range entry with a symbol found in the literal"
	}
	return out, ""
}

// c06MapLiteralKeys: the constant keys of a local map literal (MakeMap + MapUpdate with constant keys).
func c06MapLiteralKeys(v ssa.Value) (map[string]bool, string) {
	if ct, ok := v.(*ssa.ChangeType); ok {
		v = ct.X
	}
	mm, ok := v.(*ssa.MakeMap)
	if !ok || mm.Referrers() == nil {
		return nil, "the map mapper is not a local map literal"
	}
	keys := map[string]bool{}
	for _, rf := range *mm.Referrers() {
		mu, ok := rf.(*ssa.MapUpdate)
		if !ok || mu.Map != ssa.Value(mm) {
			continue
		}
		k, ok := mu.Key.(*ssa.Const)
		if !ok || k.Value == nil {
			return nil, "map literal with a non-constant key"
		}
		if isNilConst(mu.Value) {
			continue
		}
		keys[k.Value.ExactString()] = true
	}
	return keys, ""
}
