package rules

import (
	"fmt"
	"go/constant"
	"go/token"
	"go/types"
	"strings"

	"github.com/wader/gojq"
	"golang.org/x/tools/go/ssa"

	"fqverif/fw"
)

// ---------------------------------------------------------------------------
// C07.passthru: debug/0, debug/1, stderr/0 emit their input exactly once after a silent side effect

type c07Silent struct {
	p     *fw.Program
	jq    *fw.JQ
	goReg map[string]c07Reg
	why   string
}

// goIterSilent: every return of a registered iterator function is gojq.NewIter() or gojq.NewIter(<error>).
func (s *c07Silent) goIterSilent(fn *ssa.Function) bool { return s.goIterSilentD(fn, 0) }

func (s *c07Silent) goIterSilentD(fn *ssa.Function, depth int) bool {
	if fn == nil || fn.Blocks == nil || depth > 2 {
		return false
	}
	errT := types.Universe.Lookup("error").Type().Underlying().(*types.Interface)
	ok, n := true, 0
	fw.EachInstr(fn, func(ins ssa.Instruction) {
		ret, isRet := ins.(*ssa.Return)
		if !isRet {
			return
		}
		n++
		if len(ret.Results) != 1 {
			ok = false
			return
		}
		call, isCall := ret.Results[0].(*ssa.Call)
		if isCall && call.Common().StaticCallee() != nil && call.Common().StaticCallee().Pkg == fn.Pkg && call.Common().StaticCallee() != fn {
			// a same-package helper that builds the iterator
			if !s.goIterSilentD(call.Common().StaticCallee(), depth+1) {
				ok = false
			}
			return
		}
		if !isCall || call.Common().StaticCallee() == nil || call.Common().StaticCallee().String() != c07GojqPath+".NewIter" || len(call.Common().Args) != 1 {
			ok = false
			return
		}
		switch a := call.Common().Args[0].(type) {
		case *ssa.Const:
			if !a.IsNil() {
				ok = false
			}
		case *ssa.Slice:
			al, isAl := a.X.(*ssa.Alloc)
			if !isAl || al.Referrers() == nil {
				ok = false
				return
			}
			at, isArr := al.Type().Underlying().(*types.Pointer).Elem().Underlying().(*types.Array)
			if !isArr || at.Len() != 1 {
				ok = false
				return
			}
			for _, r := range *al.Referrers() {
				ia, isIA := r.(*ssa.IndexAddr)
				if !isIA || ia.Referrers() == nil {
					continue
				}
				for _, r2 := range *ia.Referrers() {
					st, isSt := r2.(*ssa.Store)
					if !isSt {
						continue
					}
					_, t := stripIface(st.Val)
					if !types.Implements(t, errT) {
						ok = false
					}
				}
			}
		default:
			ok = false
		}
	})
	return ok && n > 0
}

// silent decides (structurally) that q produces no outputs. knownStr: the input is known to be a string.
func (s *c07Silent) silent(q *gojq.Query, knownStr bool, depth int) bool {
	q = c07jqUnparen(q)
	if q == nil || depth > 10 || len(q.FuncDefs) != 0 {
		return false
	}
	if q.Left != nil {
		switch q.Op {
		case gojq.OpComma:
			return s.silent(q.Left, knownStr, depth+1) && s.silent(q.Right, knownStr, depth+1)
		case gojq.OpPipe:
			ks := knownStr
			for _, st := range fw.JQPipeline(q) {
				if s.silent(st, ks, depth+1) {
					return true
				}
				ks = s.yieldsString(st)
			}
			return false
		}
		return false
	}
	t := q.Term
	if t == nil || len(t.SuffixList) != 0 {
		return false
	}
	switch t.Type {
	case gojq.TermTypeFunc:
		f := t.Func
		key := fw.JQFuncKey(f)
		if key == "empty/0" && len(s.jq.TopDefs("empty", 0)) == 0 {
			return true
		}
		ds := s.jq.TopDefs(f.Name, len(f.Args))
		if len(ds) == 1 {
			// closure parameters are unknown: a body that is silent whatever they do
			return s.silent(ds[0].Def.Body, knownStr, depth+1)
		}
		if len(ds) == 0 {
			if g, ok := s.goReg[key]; ok && g.iter {
				return s.goIterSilent(g.fn)
			}
		}
		return false
	case gojq.TermTypeIf:
		iff := t.If
		if knownStr && len(iff.Elif) == 0 && iff.Else != nil && c07IsDotEqNull(iff.Cond) {
			return s.silent(iff.Else, knownStr, depth+1)
		}
		if iff.Else == nil {
			return false
		}
		if !s.silent(iff.Then, knownStr, depth+1) || !s.silent(iff.Else, knownStr, depth+1) {
			return false
		}
		for _, e := range iff.Elif {
			if !s.silent(e.Then, knownStr, depth+1) {
				return false
			}
		}
		return true
	}
	return false
}

func c07IsDotEqNull(q *gojq.Query) bool {
	q = c07jqUnparen(q)
	if q == nil || q.Op != gojq.OpEq || q.Left == nil || q.Right == nil {
		return false
	}
	isNull := func(x *gojq.Query) bool {
		x = c07jqUnparen(x)
		return x != nil && x.Left == nil && x.Term != nil && x.Term.Type == gojq.TermTypeNull && len(x.Term.SuffixList) == 0
	}
	return (c07jqIsIdentity(q.Left) && isNull(q.Right)) || (c07jqIsIdentity(q.Right) && isNull(q.Left))
}

// yieldsString: every output of the stage is a string (the engine's tostring, or a string literal).
func (s *c07Silent) yieldsString(q *gojq.Query) bool {
	q = c07jqUnparen(q)
	if q == nil {
		return false
	}
	if q.Left != nil {
		if q.Op == gojq.OpComma {
			return s.yieldsString(q.Left) && s.yieldsString(q.Right)
		}
		return false
	}
	if f := fw.JQIsCall(q, "tostring", 0); f != nil && len(s.jq.TopDefs("tostring", 0)) == 0 {
		return true
	}
	if q.Term != nil && q.Term.Type == gojq.TermTypeString && len(q.Term.SuffixList) == 0 {
		return true
	}
	return false
}

func c07PassThru(r *fw.Run, p *fw.Program, jq *fw.JQ, goReg map[string]c07Reg) {
	ru := r.Rule("C07.passthru", "debug/0, debug/1 and stderr/0 are `<side effect>, .` where the side effect provably yields no output (ends in empty or in a stdio writer whose Go iterator returns no value); debug/1 evaluates its closure into debug/0; debug/0 reports [\"DEBUG:\", .] as JSON", 3)
	s := &c07Silent{p: p, jq: jq, goReg: goReg}
	for _, k := range []string{"debug/0", "debug/1", "stderr/0"} {
		name := k[:strings.Index(k, "/")]
		ar := int(k[len(k)-1] - '0')
		d := jq.Def("", name, ar)
		if d == nil {
			ru.Undecided(k, "", "definition not found")
			continue
		}
		b := c07jqUnparen(d.Def.Body)
		if b == nil || b.Op != gojq.OpComma || b.Left == nil || len(b.FuncDefs) != 0 {
			ru.Fail(k, c07jqPos(d), "body is not `<side effect>, .`: the input is not passed through exactly once whatever the side effect yields (got `"+fw.JQStr(d.Def.Body)+"`)")
			continue
		}
		if !c07jqIsIdentity(b.Right) {
			ru.Fail(k, c07jqPos(d), "second alternative of the comma is not `.`: output is not the unchanged input")
			continue
		}
		if !s.silent(b.Left, false, 0) {
			ru.Fail(k, c07jqPos(d), "side-effect branch `"+fw.JQStr(b.Left)+"` is not provably silent: its outputs would be emitted in addition to the input")
			continue
		}
		ru.Ok(k, c07jqPos(d), "`"+fw.JQStr(b.Left)+"` is silent, then `.`")
		stages := fw.JQPipeline(b.Left)
		switch k {
		case "debug/1":
			ok := len(stages) >= 2 && c07jqIsParamRef(stages[0], d.Def, 0) && fw.JQIsCall(stages[1], "debug", 0) != nil
			ru.Check(ok, k+":message", c07jqPos(d), "closure | debug", "the message closure is not evaluated on the input and piped into debug/0")
		case "debug/0":
			ok := false
			if len(stages) >= 2 && fw.JQIsCall(stages[1], "tojson", 0) != nil {
				a := c07jqUnparen(stages[0])
				if a != nil && a.Left == nil && a.Term != nil && a.Term.Type == gojq.TermTypeArray && a.Term.Array != nil && len(a.Term.SuffixList) == 0 {
					in := c07jqUnparen(a.Term.Array.Query)
					if in != nil && in.Op == gojq.OpComma {
						lit, isLit := fw.JQConstString(in.Left)
						ok = isLit && lit == "DEBUG:" && c07jqIsIdentity(in.Right)
					}
				}
			}
			ru.Check(ok, k+":message", c07jqPos(d), "[\"DEBUG:\", .] | tojson", "debug does not report `[\"DEBUG:\", .] | tojson` (the jq/gojq command line format)")
		}
	}
}

// ---------------------------------------------------------------------------
// C07.exttype

func c07ExtType(r *fw.Run, p *fw.Program, goReg map[string]c07Reg) {
	ru := r.Rule("C07.exttype", "_exttype returns ExtType() only for interp.Value and gojq.TypeOf(input) otherwise; \"binary\" is returned by the ExtType of interp.Binary alone", 3)
	reg, ok := goReg["_exttype/0"]
	valueT := p.NamedType("pkg/interp", "Value")
	if !ok || reg.fn == nil || valueT == nil {
		ru.Undecided("_exttype/0", "", "Go registration of _exttype/0 or interp.Value not found")
		return
	}
	fn := reg.fn
	var input *ssa.Parameter
	for _, pa := range fn.Params {
		if _, isI := pa.Type().Underlying().(*types.Interface); isI && !types.Identical(pa.Type(), fn.Params[0].Type()) {
			input = pa
		}
	}
	if input == nil && len(fn.Params) >= 2 {
		input = fn.Params[1]
	}
	nRet, nExt, nType := 0, 0, 0
	bad := ""
	fw.EachInstr(fn, func(ins ssa.Instruction) {
		ret, isRet := ins.(*ssa.Return)
		if !isRet {
			return
		}
		nRet++
		if len(ret.Results) != 1 {
			bad = "unexpected result arity"
			return
		}
		v, _ := stripIface(ret.Results[0])
		call, isCall := v.(*ssa.Call)
		if !isCall {
			bad = "returns something that is neither ExtType() nor gojq.TypeOf(input)"
			return
		}
		cc := call.Common()
		if cc.IsInvoke() && cc.Method.Name() == "ExtType" {
			// receiver: checked assertion of the input to interp.Value, on the ok branch
			ex, isEx := cc.Value.(*ssa.Extract)
			var ta *ssa.TypeAssert
			if isEx {
				ta, _ = ex.Tuple.(*ssa.TypeAssert)
			}
			if ta == nil || ta.X != ssa.Value(input) || !types.Identical(ta.AssertedType, valueT) {
				bad = "ExtType() is not invoked on the input asserted to interp.Value"
				return
			}
			guarded := false
			for _, g := range fw.Guards(call.Block()) {
				g = g.Normalize()
				if e2, isE2 := g.Cond.(*ssa.Extract); isE2 && e2.Tuple == ta && e2.Index == 1 && g.True {
					guarded = true
				}
			}
			if !guarded {
				bad = "ExtType() branch is not guarded by the ok result of the assertion"
				return
			}
			nExt++
			return
		}
		if f := cc.StaticCallee(); f != nil && f.String() == c07GojqPath+".TypeOf" && len(cc.Args) == 1 && cc.Args[0] == ssa.Value(input) {
			nType++
			return
		}
		bad = "returns " + fw.CalleeName(call) + ", neither ExtType() nor gojq.TypeOf(input)"
	})
	ru.Check(bad == "" && nExt >= 1 && nType >= 1, "_exttype/0", p.Rel(fn.Pos()), "ExtType() for interp.Value, gojq.TypeOf(input) otherwise",
		"_exttype: "+bad+fmt.Sprintf(" (returns=%d ExtType=%d TypeOf=%d): plain JSON input may be classified as binary or mis-typed", nRet, nExt, nType))

	// all ExtType methods of fq types
	iface, _ := valueT.Underlying().(*types.Interface)
	n := 0
	for _, pk := range p.Roots {
		sc := pk.Types.Scope()
		for _, nm := range sc.Names() {
			tn, isTN := sc.Lookup(nm).(*types.TypeName)
			if !isTN || tn.IsAlias() {
				continue
			}
			named, isNamed := tn.Type().(*types.Named)
			if !isNamed || named.TypeParams().Len() > 0 {
				continue
			}
			if _, isI := named.Underlying().(*types.Interface); isI {
				continue
			}
			for _, T := range []types.Type{named, types.NewPointer(named)} {
				ms := types.NewMethodSet(T)
				sel := ms.Lookup(pk.Types, "ExtType")
				if sel == nil || len(sel.Index()) != 1 {
					continue // promoted methods are accounted at the embedded type
				}
				if _, isPtr := T.(*types.Pointer); isPtr && types.NewMethodSet(named).Lookup(pk.Types, "ExtType") != nil {
					continue
				}
				mf := p.SSA.MethodValue(sel)
				if mf == nil || mf.Blocks == nil {
					continue
				}
				n++
				key := "ExtType:" + shortType(named)
				var consts []string
				allConst := true
				fw.EachInstr(mf, func(ins ssa.Instruction) {
					if ret, isRet := ins.(*ssa.Return); isRet && len(ret.Results) == 1 {
						if s, isS := constString(ret.Results[0]); isS {
							consts = append(consts, s)
						} else {
							allConst = false
						}
					}
				})
				isBinary := tn.Name() == "Binary" && pk.PkgPath == fw.Mod+"/pkg/interp"
				retBinary := false
				for _, c := range consts {
					if c == "binary" {
						retBinary = true
					}
				}
				switch {
				case !allConst:
					ru.Undecided(key, p.Rel(mf.Pos()), "ExtType does not return a constant")
				case isBinary && !retBinary:
					ru.Fail(key, p.Rel(mf.Pos()), "interp.Binary.ExtType no longer returns \"binary\": binary overloads never dispatch")
				case !isBinary && retBinary:
					ru.Fail(key, p.Rel(mf.Pos()), "a non-Binary type reports ext type \"binary\"")
				default:
					ru.Ok(key, p.Rel(mf.Pos()), "returns "+strings.Join(consts, ","))
				}
			}
			_ = iface
		}
	}
	if n == 0 {
		ru.Undecided("ExtType", "", "no ExtType method found")
	}
}

// ---------------------------------------------------------------------------
// C07.tojson

func c07ToJSON(r *fw.Run, p *fw.Program, jq *fw.JQ, goReg map[string]c07Reg) {
	ru := r.Rule("C07.tojson", "tojson/0 is _to_json(null); the Go _to_json marshals its input with colorjson in the engine-equivalent configuration (no colour, no tab, indent only from options, JQValue unwrapped) and returns the buffer; fromjson decodes with UseNumber and gojq.NormalizeNumbers", 7)
	// jq side
	if d := jq.Def("", "tojson", 0); d == nil {
		ru.Undecided("tojson/0", "", "not found")
	} else {
		f := fw.JQIsCall(d.Def.Body, "_to_json", 1)
		ok := false
		if f != nil {
			a := c07jqUnparen(f.Args[0])
			ok = a != nil && a.Left == nil && a.Term != nil && a.Term.Type == gojq.TermTypeNull && len(a.Term.SuffixList) == 0
		}
		ru.Check(ok, "tojson/0", c07jqPos(d), "_to_json(null): default (compact) options", "tojson/0 is not `_to_json(null)`: standard tojson would not use the default compact options (got `"+fw.JQStr(d.Def.Body)+"`)")
	}
	if d := jq.Def("", "fromjson", 0); d == nil {
		ru.Undecided("fromjson/0", "", "not found")
	} else {
		st := fw.JQPipeline(d.Def.Body)
		ok := false
		if len(st) >= 1 {
			if f := fw.JQIsCall(st[0], "decode", 1); f != nil {
				s, isS := fw.JQConstString(f.Args[0])
				ok = isS && s == "json"
			}
		}
		raises := false
		for _, c := range fw.JQCalls(d.Def.Body) {
			if c.Name == "error" {
				raises = true
			}
		}
		ru.Check(ok && raises, "fromjson/0", c07jqPos(d), "decode(\"json\") and raises on ._error", "fromjson/0 does not decode with the json format and raise its error")
	}
	// Go side: _to_json
	reg, ok := goReg["_to_json/1"]
	encT := p.NamedType("internal/colorjson", "Encoder")
	optT := p.NamedType("internal/colorjson", "Options")
	if !ok || reg.fn == nil || encT == nil || optT == nil {
		ru.Undecided("_to_json/1", "", "Go registration of _to_json/1 or colorjson.Encoder/Options not found")
	} else {
		c07CheckToJSONGo(ru, p, reg.fn, optT)
	}
	// fromjson decoder
	dec := p.Fn("format/json.decodeJSONEx")
	if dec == nil {
		ru.Undecided("decodeJSON", "", "format/json.decodeJSONEx not found")
		return
	}
	var decodeCalls, useNumber []*ssa.Call
	for _, c := range fw.CallsIn(dec) {
		call, isCall := c.(*ssa.Call)
		if !isCall {
			continue
		}
		switch fw.CalleeName(c) {
		case "(*encoding/json.Decoder).Decode":
			decodeCalls = append(decodeCalls, call)
		case "(*encoding/json.Decoder).UseNumber":
			useNumber = append(useNumber, call)
		}
	}
	if len(decodeCalls) == 0 {
		ru.Undecided("decodeJSON:Decode", p.Rel(dec.Pos()), "no (*json.Decoder).Decode call")
	}
	for i, dc := range decodeCalls {
		good := false
		for _, un := range useNumber {
			if un.Common().Args[0] == dc.Common().Args[0] && (un.Block() == dc.Block() || un.Block().Dominates(dc.Block())) {
				good = true
			}
		}
		ru.Check(good, fmt.Sprintf("decodeJSON:UseNumber#%d", i), p.Rel(dc.Pos()), "UseNumber() on the same decoder dominates Decode", "Decode without a dominating UseNumber() on the same decoder: integers beyond 2^53 lose precision (the engine's fromjson uses UseNumber)")
	}
	// the decoder reads the whole input: NewDecoder(NewIOReader(d.RawLen(d.Len()))) on one and the same d
	{
		whole := false
		var newDec ssa.CallInstruction
		for _, c := range fw.CallsIn(dec) {
			if fw.CalleeName(c) == "encoding/json.NewDecoder" && len(c.Common().Args) == 1 {
				newDec = c
			}
		}
		if newDec != nil {
			v, _ := stripIface(newDec.Common().Args[0])
			if rd, ok := v.(*ssa.Call); ok && fw.CalleeName(rd) == fw.Mod+"/pkg/bitio.NewIOReader" && len(rd.Common().Args) == 1 {
				br, _ := stripIface(rd.Common().Args[0])
				if rl, ok := br.(*ssa.Call); ok && rl.Common().StaticCallee() != nil && rl.Common().StaticCallee().Name() == "RawLen" && len(rl.Common().Args) == 2 {
					if ln, ok := rl.Common().Args[1].(*ssa.Call); ok && ln.Common().StaticCallee() != nil && ln.Common().StaticCallee().Name() == "Len" &&
						len(ln.Common().Args) == 1 && ln.Common().Args[0] == rl.Common().Args[0] && len(dec.Params) > 0 && rl.Common().Args[0] == ssa.Value(dec.Params[0]) {
						whole = true
					}
				}
			}
		}
		if newDec == nil {
			ru.Undecided("decodeJSON:whole-input", p.Rel(dec.Pos()), "no encoding/json.NewDecoder call")
		} else {
			ru.Check(whole, "decodeJSON:whole-input", p.Rel(newDec.Pos()), "json.NewDecoder(bitio.NewIOReader(d.RawLen(d.Len())))", "the JSON decoder is not fed exactly the whole input d.RawLen(d.Len()): fromjson sees a truncated or different text")
		}
	}
	// every store to scalar.Any.Actual comes from gojq.NormalizeNumbers
	anyT := p.NamedType("pkg/scalar", "Any")
	nst := 0
	if anyT != nil {
		fw.EachInstr(dec, func(ins ssa.Instruction) {
			st, isSt := ins.(*ssa.Store)
			if !isSt {
				return
			}
			fa, isFA := st.Addr.(*ssa.FieldAddr)
			if !isFA || fieldNameOf(fa.X.Type(), fa.Field) != "Actual" {
				return
			}
			pt, isP := fa.X.Type().Underlying().(*types.Pointer)
			if !isP || !types.Identical(pt.Elem(), anyT) {
				return
			}
			nst++
			call, isCall := st.Val.(*ssa.Call)
			good := isCall && call.Common().StaticCallee() != nil && call.Common().StaticCallee().String() == c07GojqPath+".NormalizeNumbers"
			ru.Check(good, fmt.Sprintf("decodeJSON:Normalize#%d", nst), p.Rel(st.Pos()), "value = gojq.NormalizeNumbers(decoded)", "decoded JSON is stored without gojq.NormalizeNumbers: json.Number leaks instead of int/float64/*big.Int")
		})
	}
	if nst == 0 {
		ru.Undecided("decodeJSON:Normalize", p.Rel(dec.Pos()), "no store to scalar.Any.Actual found")
	}
}

func c07CheckToJSONGo(ru *fw.Rule, p *fw.Program, fn *ssa.Function, optT *types.Named) {
	// functions of the json format package reachable from fn by static calls (helper extraction tolerant)
	seen := map[*ssa.Function]bool{}
	var fns []*ssa.Function
	var visit func(f *ssa.Function)
	visit = func(f *ssa.Function) {
		if f == nil || seen[f] || f.Blocks == nil || fw.FnPkgPath(f) != fw.FnPkgPath(fn) {
			return
		}
		seen[f] = true
		fns = append(fns, f)
		for _, c := range fw.CallsIn(f) {
			visit(c.Common().StaticCallee())
		}
	}
	visit(fn)
	input := fn.Params[1]
	var newEnc, marshal *ssa.Call
	for _, f := range fns {
		for _, c := range fw.CallsIn(f) {
			call, isCall := c.(*ssa.Call)
			if !isCall {
				continue
			}
			switch fw.CalleeName(c) {
			case fw.Mod + "/internal/colorjson.NewEncoder":
				newEnc = call
			case "(*" + fw.Mod + "/internal/colorjson.Encoder).Marshal":
				marshal = call
			}
		}
	}
	if newEnc == nil || marshal == nil {
		ru.Fail("_to_json/1:encoder", p.Rel(fn.Pos()), "_to_json does not marshal through colorjson.NewEncoder(...).Marshal")
		return
	}
	// options literal
	st, _ := optT.Underlying().(*types.Struct)
	load, isLoad := newEnc.Common().Args[0].(*ssa.UnOp)
	var al *ssa.Alloc
	if isLoad {
		al, _ = load.X.(*ssa.Alloc)
	}
	if al == nil || al.Referrers() == nil || st == nil {
		ru.Undecided("_to_json/1:options", p.Rel(newEnc.Pos()), "Options argument is not a local literal")
	} else {
		stores := map[string]ssa.Value{}
		for _, rf := range *al.Referrers() {
			fa, isFA := rf.(*ssa.FieldAddr)
			if !isFA || fa.Referrers() == nil {
				continue
			}
			for _, r2 := range *fa.Referrers() {
				if s, isSt := r2.(*ssa.Store); isSt {
					stores[st.Field(fa.Field).Name()] = s.Val
				}
			}
		}
		for _, bf := range []string{"Color", "Tab"} {
			v, has := stores[bf]
			good := !has
			if c, isC := v.(*ssa.Const); has && isC && c.Value != nil && c.Value.ExactString() == "false" {
				good = true
			}
			ru.Check(good, "_to_json/1:options."+bf, p.Rel(newEnc.Pos()), bf+" is false", "tojson encoder is configured with "+bf+" != false: output is no longer the engine's plain JSON text")
		}
		iv, has := stores["Indent"]
		good := !has
		if has {
			if c, isC := iv.(*ssa.Const); isC {
				good = c.Value != nil && c.Value.ExactString() == "0"
			} else {
				// must be a field of the options parameter, possibly clamped so that 0 stays 0
				good = c07IndentFromOptions(iv)
			}
		}
		ru.Check(good, "_to_json/1:options.Indent", p.Rel(newEnc.Pos()), "Indent is 0 or comes from the caller's options", "tojson encoder has a fixed non-zero Indent: tojson/0 is no longer compact")
		vf, has := stores["ValueFn"]
		good = false
		if has {
			if mc, isMC := vf.(*ssa.MakeClosure); isMC {
				vf = mc.Fn
			}
			if f, isF := vf.(*ssa.Function); isF {
				for _, c := range fw.CallsIn(f) {
					if c.Common().IsInvoke() && c.Common().Method.Name() == "JQValueToGoJQ" {
						good = true
					}
				}
			}
		}
		ru.Check(good, "_to_json/1:options.ValueFn", p.Rel(newEnc.Pos()), "ValueFn unwraps gojq.JQValue with JQValueToGoJQ (as the engine's encoder does)", "ValueFn does not unwrap gojq.JQValue through JQValueToGoJQ")
	}
	// the options reach the encoder as the caller passed them: tojson/0 passes null, i.e. the zero options, so
	// nothing may assign to a field of an options parameter (a Go-side default would make tojson/0 non-compact)
	modified := ""
	for _, f := range fns {
		for _, pa := range f.Params {
			if !types.Identical(pa.Type(), fn.Params[len(fn.Params)-1].Type()) {
				continue
			}
			if _, isStruct := pa.Type().Underlying().(*types.Struct); !isStruct || pa.Referrers() == nil {
				continue
			}
			for _, rf := range *pa.Referrers() {
				sp, isSt := rf.(*ssa.Store)
				if !isSt || sp.Val != ssa.Value(pa) {
					continue
				}
				al, isAl := sp.Addr.(*ssa.Alloc)
				if !isAl || al.Referrers() == nil {
					continue
				}
				for _, r2 := range *al.Referrers() {
					fa, isFA := r2.(*ssa.FieldAddr)
					if !isFA || fa.Referrers() == nil {
						continue
					}
					for _, r3 := range *fa.Referrers() {
						if st2, isSt2 := r3.(*ssa.Store); isSt2 && st2.Addr == ssa.Value(fa) {
							modified = fieldNameOf(fa.X.Type(), fa.Field) + " in " + f.Name()
						}
					}
				}
			}
		}
	}
	ru.Check(modified == "", "_to_json/1:options.unmodified", p.Rel(fn.Pos()), "the options parameter is never assigned to", "the options parameter is modified before use ("+modified+"): tojson/0 (null options) no longer encodes with the zero, compact options")
	// Marshal(input, buf) and return buf.String()
	v, _ := stripIface(marshal.Common().Args[1])
	ru.Check(v == ssa.Value(input) || marshal.Common().Args[1] == ssa.Value(input), "_to_json/1:marshal-input", p.Rel(marshal.Pos()), "Marshal(input, buffer)", "the value marshalled is not the jq input of _to_json")
	bufV, _ := stripIface(marshal.Common().Args[2])
	good := false
	other := ""
	fw.EachInstr(fn, func(ins ssa.Instruction) {
		ret, isRet := ins.(*ssa.Return)
		if !isRet || len(ret.Results) != 1 {
			return
		}
		rv, _ := stripIface(ret.Results[0])
		if call, isCall := rv.(*ssa.Call); isCall && fw.CalleeName(call) == "(*bytes.Buffer).String" && call.Common().Args[0] == bufV {
			good = true
			return
		}
		// every other return is an error value (a conversion failure), never a text produced some other way
		if types.Implements(rv.Type(), errorIface()) || types.Implements(types.NewPointer(rv.Type()), errorIface()) {
			return
		}
		other = p.Rel(ret.Pos())
	})
	ru.Check(good, "_to_json/1:result", p.Rel(fn.Pos()), "returns String() of the buffer marshalled into", "the result is not the String() of the buffer the encoder wrote to")
	ru.Check(other == "", "_to_json/1:only-result", p.Rel(fn.Pos()), "every non-error return is the marshalled buffer", "_to_json has a return at "+other+" that is neither an error nor the text the engine-equivalent encoder wrote: some inputs (a fast path for strings, numbers ...) are encoded by something else, e.g. encoding/json which escapes <, >, & and U+2028/9 where the engine does not")
}

func c07FromParamField(v ssa.Value) bool {
	for i := 0; i < 6; i++ {
		switch x := v.(type) {
		case *ssa.Field:
			v = x.X
		case *ssa.UnOp:
			if x.Op != token.MUL {
				return false
			}
			v = x.X
		case *ssa.FieldAddr:
			v = x.X
		case *ssa.Parameter:
			return true
		case *ssa.Alloc:
			// parameter spilled to a local: a store of a parameter into it
			if x.Referrers() != nil {
				for _, r := range *x.Referrers() {
					if st, ok := r.(*ssa.Store); ok && st.Addr == ssa.Value(x) {
						if _, isP := st.Val.(*ssa.Parameter); isP {
							return true
						}
					}
				}
			}
			return false
		default:
			return false
		}
	}
	return false
}

// c07IndentFromOptions: v is a field of the options parameter, or min/max clamps of one with
// constants that leave 0 (and the small widths) unchanged: max(c, x) with c <= 0, min(x, c) with c >= 8.
func c07IndentFromOptions(v ssa.Value) bool {
	if c07FromParamField(v) {
		return true
	}
	call, ok := v.(*ssa.Call)
	if !ok {
		return false
	}
	b, ok := call.Call.Value.(*ssa.Builtin)
	if !ok || (b.Name() != "min" && b.Name() != "max") {
		return false
	}
	fromOpts := false
	for _, a := range call.Call.Args {
		if c, isC := a.(*ssa.Const); isC {
			if c.Value == nil {
				return false
			}
			n, exact := constant.Int64Val(constant.ToInt(c.Value))
			if !exact || (b.Name() == "max" && n > 0) || (b.Name() == "min" && n < 8) {
				return false
			}
			continue
		}
		if !c07IndentFromOptions(a) {
			return false
		}
		fromOpts = true
	}
	return fromOpts
}
