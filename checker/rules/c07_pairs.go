package rules

import (
	"go/constant"
	"go/token"

	"golang.org/x/tools/go/ssa"

	"fqverif/fw"
)

// c07Pairs (part of C07.json): the object encoder emits every key/value pair of the map once, key with its
// own value. fq (like the engine) copies the pairs into a slice, sorts it and walks it. Obligations:
// the slice has one slot per map entry; every iteration of the range over the map stores (k, v) of that
// iteration into the slot numbered by a counter that starts at 0 and is advanced by exactly 1 per
// iteration (or appends it); the slice that is sorted and the slice that is walked are that slice; the
// key handed to the string encoder and the value handed to the value encoder are the key field and the
// value field of the same walked element.
func c07Pairs(ru *fw.Rule, p *fw.Program, e *c07Enc) {
	fn := e.roles["object"]
	pos := p.Rel(fn.Pos())
	key := "object: pairs"
	data := fn.Params[1]
	var next *ssa.Next
	fw.EachInstr(fn, func(ins ssa.Instruction) {
		if n, ok := ins.(*ssa.Next); ok {
			if rg, ok := n.Iter.(*ssa.Range); ok && rg.X == ssa.Value(data) {
				next = n
			}
		}
	})
	if next == nil || next.Referrers() == nil {
		ru.Undecided(key, pos, "the object encoder does not range over its map argument")
		return
	}
	var k, v ssa.Value
	for _, rf := range *next.Referrers() {
		if ex, ok := rf.(*ssa.Extract); ok {
			switch ex.Index {
			case 1:
				k = ex
			case 2:
				v = ex
			}
		}
	}
	storeOf := func(val ssa.Value) *ssa.Store {
		var out *ssa.Store
		if val == nil || val.Referrers() == nil {
			return nil
		}
		for _, rf := range *val.Referrers() {
			if st, ok := rf.(*ssa.Store); ok && st.Val == val {
				if out != nil {
					return nil
				}
				out = st
			}
		}
		return out
	}
	sk, sv := storeOf(k), storeOf(v)
	if sk == nil || sv == nil {
		ru.Fail(key, pos, "key and value of a map iteration are not both stored into a pair exactly once: pairs are lost or mixed")
		return
	}
	fk, ok1 := sk.Addr.(*ssa.FieldAddr)
	fv, ok2 := sv.Addr.(*ssa.FieldAddr)
	if !ok1 || !ok2 || fk.X != fv.X || fk.Field == fv.Field {
		ru.Fail(key, p.Rel(sk.Pos()), "key and value of a map iteration are not stored into two fields of one pair")
		return
	}
	// the pair reaches a slot of the slice
	var slot *ssa.IndexAddr
	appended := false
	var slice ssa.Value
	switch base := fk.X.(type) {
	case *ssa.IndexAddr:
		slot = base
	case *ssa.Alloc:
		if base.Referrers() != nil {
			for _, rf := range *base.Referrers() {
				ld, ok := rf.(*ssa.UnOp)
				if !ok || ld.Op != token.MUL || ld.Referrers() == nil {
					continue
				}
				for _, r2 := range *ld.Referrers() {
					st, ok := r2.(*ssa.Store)
					if !ok || st.Val != ssa.Value(ld) {
						continue
					}
					if ia, ok := st.Addr.(*ssa.IndexAddr); ok {
						slot = ia
					}
				}
			}
		}
	}
	if slot == nil {
		ru.Undecided(key, p.Rel(sk.Pos()), "where the pair of a map iteration is stored is not resolved")
		return
	}
	// append form: the slot is element 0 of the variadic array of an append whose result is carried round the loop
	if al, ok := slot.X.(*ssa.Alloc); ok && al.Referrers() != nil {
		for _, rf := range *al.Referrers() {
			if sl, ok := rf.(*ssa.Slice); ok && sl.Referrers() != nil {
				for _, r2 := range *sl.Referrers() {
					if call, ok := r2.(*ssa.Call); ok && fw.IsBuiltinCall(call, "append") && call.Common().Args[1] == ssa.Value(sl) {
						if ph, ok := call.Common().Args[0].(*ssa.Phi); ok && ph.Block() == next.Block() {
							for _, ed := range ph.Edges {
								if ed == ssa.Value(call) {
									appended, slice = true, ph
								}
							}
						}
					}
				}
			}
		}
	}
	if !appended {
		slice = slot.X
		ms, ok := slice.(*ssa.MakeSlice)
		lenOK := false
		if ok {
			if call, ok := ms.Len.(*ssa.Call); ok && fw.IsBuiltinCall(call, "len") && call.Common().Args[0] == ssa.Value(data) {
				lenOK = true
			}
		}
		if !lenOK {
			ru.Fail(key, p.Rel(slot.Pos()), "the slice the pairs are stored into is not made with one slot per map entry (len(map))")
			return
		}
		ph, ok := slot.Index.(*ssa.Phi)
		ctrOK := ok && ph.Block() == next.Block() && len(ph.Edges) == 2
		if ctrOK {
			n0, n1 := 0, 0
			for i, ed := range ph.Edges {
				pb := ph.Block().Preds[i]
				if c, ok := ed.(*ssa.Const); ok && !ph.Block().Dominates(pb) {
					if c.Value != nil && c.Value.Kind() == constant.Int && c.Int64() == 0 {
						n0++
					}
					continue
				}
				if bo, ok := ed.(*ssa.BinOp); ok && bo.Op == token.ADD && bo.X == ssa.Value(ph) {
					if c, ok := bo.Y.(*ssa.Const); ok && c.Value != nil && c.Value.Kind() == constant.Int && c.Int64() == 1 {
						n1++
					}
				}
			}
			ctrOK = n0 == 1 && n1 == 1
		}
		if !ctrOK {
			ru.Fail(key, p.Rel(slot.Pos()), "the slot a map entry is stored into is not numbered by a counter that starts at 0 and advances by exactly 1 per iteration: entries overwrite each other or slots stay empty")
			return
		}
	}
	// the walk: string role gets the key field, value role the value field, of one element of that slice
	elemOf := func(arg ssa.Value) (field int, elem ssa.Value) {
		switch x := arg.(type) {
		case *ssa.Field:
			return x.Field, x.X
		case *ssa.UnOp:
			if fa, ok := x.X.(*ssa.FieldAddr); ok && x.Op == token.MUL {
				return fa.Field, fa.X
			}
		}
		return -1, nil
	}
	// fromSlice: the element (possibly spilled to a local) is loaded from an index of the slice
	var fromSlice func(elem ssa.Value, d int) bool
	sameSlice := func(x ssa.Value) bool {
		if x == slice {
			return true
		}
		if appended {
			// the final value of the appended slice: the loop phi itself
			return x == slice
		}
		return false
	}
	fromSlice = func(elem ssa.Value, d int) bool {
		if elem == nil || d > 4 {
			return false
		}
		switch x := elem.(type) {
		case *ssa.IndexAddr:
			return sameSlice(x.X)
		case *ssa.UnOp:
			return x.Op == token.MUL && fromSlice(x.X, d+1)
		case *ssa.Alloc:
			if x.Referrers() == nil {
				return false
			}
			n, ok := 0, true
			for _, rf := range *x.Referrers() {
				if st, isSt := rf.(*ssa.Store); isSt && st.Addr == ssa.Value(x) {
					n++
					if !fromSlice(st.Val, d+1) {
						ok = false
					}
				}
			}
			return ok && n == 1
		}
		return false
	}
	var kElem, vElem ssa.Value
	kF, vF := -1, -1
	for _, c := range fw.CallsIn(fn) {
		f := c.Common().StaticCallee()
		if f == nil || len(c.Common().Args) < 2 {
			continue
		}
		switch e.roleOf[f] {
		case "string":
			kF, kElem = elemOf(c.Common().Args[1])
		case "value":
			vF, vElem = elemOf(c.Common().Args[1])
		}
	}
	switch {
	case kElem == nil || vElem == nil:
		ru.Fail(key, pos, "the key handed to the string encoder / the value handed to the value encoder is not a field of a walked pair")
	case kElem != vElem:
		ru.Fail(key, pos, "key and value are taken from different elements")
	case kF != fk.Field || vF != fv.Field:
		ru.Fail(key, pos, "the field emitted as key (or as value) is not the field the map key (or value) was stored into")
	case !fromSlice(kElem, 0):
		ru.Fail(key, pos, "the pairs walked for output are not the elements of the slice the map entries were stored into")
	default:
		// the slice sorted is that slice
		sorted := false
		for _, c := range fw.CallsIn(fn) {
			f := c.Common().StaticCallee()
			if f == nil || len(c.Common().Args) == 0 {
				continue
			}
			switch c07CalleeShort(f) {
			case "slices.SortFunc", "slices.SortStableFunc", "sort.Slice", "sort.SliceStable":
				a, _ := stripIface(c.Common().Args[0])
				if sameSlice(a) {
					sorted = true
				}
			}
		}
		ru.Check(sorted, key, pos, "one slot per entry, (k, v) of one iteration per slot, that slice sorted and walked, key/value of the same element", "the slice that is sorted is not the slice the map entries were stored into")
	}
}
