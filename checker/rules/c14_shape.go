package rules

import (
	"fmt"
	"go/token"
	"go/types"

	"golang.org/x/tools/go/ssa"

	"fqverif/fw"
)

// C14.shape: a container conversion produces exactly one output element per input element.
//
//	(a) a slice that is appended to does not start with elements of a make(T, n), n != 0
//	    (the n zero values would precede every appended element);
//	(b) a slice created with make(T, n), n != 0, is filled by index with an induction variable of
//	    the loop the store is in, and n is the length of the container that loop ranges over;
//	(c) in the recursive container conversions of internal/gojqx every iteration of a loop over a
//	    slice emits (append / indexed store) exactly once on every path that continues the loop,
//	    and no loop iteration emits more than once.
func c14Shape(cx *c14Ctx) {
	ru := cx.r.Rule("C14.shape", "container conversions keep one output element per input element: a slice that is appended to never starts as make(T, n) with n != 0; a make(T, n) slice is filled by the loop's own index and n is the length of the ranged container; in the recursive gojqx conversions (NormalizeFn, ToGoJQValueFn) every loop iteration over a slice emits exactly once, none emits twice", 38)
	p := cx.p
	for _, f := range p.FqFunctions() {
		if !c14InScope(f) {
			continue
		}
		fn := fw.ShortFn(f)
		loops := c14Loops(f)
		env := fw.NewPolyEnv(f)

		// (a) append bases
		nApp := 0
		fw.EachInstr(f, func(ins ssa.Instruction) {
			c, ok := ins.(*ssa.Call)
			if !ok || !fw.IsBuiltinCall(c, "append") || len(c.Call.Args) == 0 {
				return
			}
			nApp++
			key := fmt.Sprintf("%s|append#%d", fn, nApp)
			var bad *ssa.MakeSlice
			for _, o := range c14SliceOrigins(c.Call.Args[0]) {
				if ms, ok := o.(*ssa.MakeSlice); ok && !c14IsConst(ms.Len, 0) {
					bad = ms
				}
			}
			ru.Check(bad == nil, key, p.Rel(c.Pos()), "appended slice starts empty or from existing data",
				"append in "+fn+" extends a slice created with make(T, n), n != 0: the n zero values stay in front of the appended elements (output has more elements than input)")
		})

		// (b) make(T, n) filled by index
		nMake := 0
		fw.EachInstr(f, func(ins ssa.Instruction) {
			ms, ok := ins.(*ssa.MakeSlice)
			if !ok || c14IsConst(ms.Len, 0) {
				return
			}
			// indexed stores into this slice (through phis the slice value does not change)
			var stores []*ssa.Store
			if ms.Referrers() != nil {
				for _, ref := range *ms.Referrers() {
					ia, ok := ref.(*ssa.IndexAddr)
					if !ok || ia.X != ssa.Value(ms) || ia.Referrers() == nil {
						continue
					}
					for _, r2 := range *ia.Referrers() {
						if st, ok := r2.(*ssa.Store); ok && st.Addr == ssa.Value(ia) {
							stores = append(stores, st)
						}
					}
				}
			}
			if len(stores) == 0 {
				return // a buffer that is not filled element-wise here (copy, io) or an append base (clause a)
			}
			nMake++
			key := fmt.Sprintf("%s|make#%d", fn, nMake)
			var problems []string
			for _, st := range stores {
				ia := st.Addr.(*ssa.IndexAddr)
				l := c14Innermost(loops, st.Block())
				if l == nil {
					continue // a single store outside loops
				}
				if !c14IsInductionValue(ia.Index, l) {
					problems = append(problems, "the index of the store is not the loop's own counter")
					continue
				}
				// n == len(ranged container)
				if x := c14RangedContainer(l); x != nil {
					want := false
					fw.EachInstr(f, func(i2 ssa.Instruction) {
						if lc, ok := i2.(*ssa.Call); ok && fw.IsBuiltinCall(lc, "len") && lc.Call.Args[0] == x {
							if env.Of(ms.Len).Equal(env.Of(lc)) {
								want = true
							}
						}
					})
					if !want {
						problems = append(problems, "its length "+env.Of(ms.Len).String()+" is not the length of the container the filling loop ranges over")
					}
				}
			}
			ru.Check(len(problems) == 0, key, p.Rel(ms.Pos()), "filled by the loop index, one slot per element", fmt.Sprintf("make(T, n) slice in %s: %v", fn, problems))
		})

		// (c) exactly one emit per iteration in the recursive gojqx conversions
		if pkgRel(f) != "internal/gojqx" || !c14SelfRecursive(f) {
			continue
		}
		for li, l := range loops {
			nested := false
			for _, l2 := range loops {
				if l2 != l && l.body[l2.head] {
					nested = true
				}
			}
			x := c14RangedContainer(l)
			if nested || x == nil {
				continue
			}
			_, overSlice := x.Type().Underlying().(*types.Slice)
			minE, maxE := c14EmitRange(l)
			key := fmt.Sprintf("%s|loop#%d", fn, li+1)
			pos := p.Rel(l.head.Instrs[0].Pos())
			switch {
			case maxE > 1:
				ru.Fail(key, pos, fmt.Sprintf("a loop iteration of %s emits %d output elements for one input element", fn, maxE))
			case overSlice && minE < 1:
				ru.Fail(key, pos, "a loop iteration of "+fn+" over a slice can continue without emitting an output element: later elements shift position")
			default:
				ru.Ok(key, pos, "one output element per iteration")
			}
		}
	}
}

// c14SliceOrigins walks a slice value back through phis, appends and re-slices to where it starts.
func c14SliceOrigins(v ssa.Value) []ssa.Value {
	seen := map[ssa.Value]bool{}
	var out []ssa.Value
	var walk func(v ssa.Value)
	walk = func(v ssa.Value) {
		if seen[v] {
			return
		}
		seen[v] = true
		switch x := v.(type) {
		case *ssa.Phi:
			for _, e := range x.Edges {
				walk(e)
			}
		case *ssa.Call:
			if fw.IsBuiltinCall(x, "append") && len(x.Call.Args) > 0 {
				walk(x.Call.Args[0])
				return
			}
			out = append(out, v)
		case *ssa.ChangeType:
			walk(x.X)
		default:
			out = append(out, v)
		}
	}
	walk(v)
	return out
}

// c14IsInductionValue: v is an induction phi of loop l or that phi +/- a constant.
func c14IsInductionValue(v ssa.Value, l *c14Loop) bool {
	for {
		if cv, ok := v.(*ssa.Convert); ok {
			v = cv.X
			continue
		}
		break
	}
	if ph, ok := v.(*ssa.Phi); ok {
		return ph.Block() == l.head && c14Induction(ph, l)
	}
	if bo, ok := v.(*ssa.BinOp); ok && (bo.Op == token.ADD || bo.Op == token.SUB) {
		if _, isC := bo.Y.(*ssa.Const); isC {
			if ph, ok := bo.X.(*ssa.Phi); ok {
				return ph.Block() == l.head && c14Induction(ph, l)
			}
		}
	}
	return false
}

// c14RangedContainer returns the container loop l iterates over: the operand of range (maps,
// strings) or, for index loops `i < len(x)`, x.
func c14RangedContainer(l *c14Loop) ssa.Value {
	for _, ins := range l.head.Instrs {
		if nx, ok := ins.(*ssa.Next); ok {
			if rg, ok := nx.Iter.(*ssa.Range); ok {
				return rg.X
			}
		}
	}
	ifi, ok := l.head.Instrs[len(l.head.Instrs)-1].(*ssa.If)
	if !ok {
		return nil
	}
	bo, ok := ifi.Cond.(*ssa.BinOp)
	if !ok || bo.Op != token.LSS {
		return nil
	}
	if lc, ok := bo.Y.(*ssa.Call); ok && fw.IsBuiltinCall(lc, "len") {
		return lc.Call.Args[0]
	}
	return nil
}

func c14SelfRecursive(f *ssa.Function) bool {
	for _, c := range fw.CallsIn(f) {
		if c.Common().StaticCallee() == f {
			return true
		}
	}
	return false
}

// c14EmitRange: minimum and maximum number of emits (append, store through a slice index, map
// store) over all paths of one iteration that return to the loop head.
func c14EmitRange(l *c14Loop) (int, int) {
	emits := func(b *ssa.BasicBlock) int {
		n := 0
		for _, ins := range b.Instrs {
			switch x := ins.(type) {
			case *ssa.Call:
				if fw.IsBuiltinCall(x, "append") {
					n++
				}
			case *ssa.MapUpdate:
				n++
			case *ssa.Store:
				if ia, ok := x.Addr.(*ssa.IndexAddr); ok {
					if _, isSlice := ia.X.Type().Underlying().(*types.Slice); isSlice {
						n++
					}
				}
			}
		}
		return n
	}
	minE, maxE := -1, 0
	var walk func(b *ssa.BasicBlock, n int, depth int)
	walk = func(b *ssa.BasicBlock, n int, depth int) {
		if depth > 64 {
			return
		}
		n += emits(b)
		for _, s := range b.Succs {
			if s == l.head {
				if minE < 0 || n < minE {
					minE = n
				}
				if n > maxE {
					maxE = n
				}
				continue
			}
			if l.body[s] {
				walk(s, n, depth+1)
			}
		}
	}
	walk(l.head, 0, 0)
	if minE < 0 {
		minE = 0
	}
	return minE, maxE
}
