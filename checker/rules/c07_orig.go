package rules

import (
	"fmt"
	"strings"

	"github.com/wader/gojq"

	"fqverif/fw"
)

// ---------------------------------------------------------------------------
// C07.orig: what every orig-dispatch override does on input that is not an fq binary
//
// The override bodies are partially evaluated for the case the property is about (standard jq on
// plain JSON, i.e. `_exttype != "binary"`, C07.exttype): fq's private closure helpers are
// beta-reduced, conditionals on `_exttype ==/!= "binary"` that test the override's own input are
// decided, and what is left (the residual) must be a plain call, with the override's parameters
// in order, of an alias that was bound to the engine's builtin before the override shadowed it.
// if/else inversion, inlining or extracting the dispatcher, renames and parentheses do not matter.

type c07Resid struct {
	jq  *fw.JQ
	ref *c07Ref
}

// aliasShape: d is `def A(params): f(...);` for a standard builtin f of the same arity (whether the arguments
// are right is the alias obligation; the shape alone makes it a role of its own that is not beta-reduced).
func (rs *c07Resid) aliasShape(d *fw.JQDef) bool {
	f := fw.JQIsCall(d.Def.Body, "", len(d.Def.Args))
	return f != nil && f.Name != d.Def.Name && rs.ref.has(fw.JQFuncKey(f))
}

// extCond decides `_exttype == "binary"` / `_exttype != "binary"` (either operand order; _exttype may
// have been bound to a variable at the override's input) for non-binary input.
func (rs *c07Resid) extCond(c *gojq.Query, extVars map[string]bool) (value, known bool) {
	c = c07jqUnparen(c)
	if c == nil || c.Left == nil || c.Right == nil || len(c.FuncDefs) != 0 || (c.Op != gojq.OpEq && c.Op != gojq.OpNe) {
		return false, false
	}
	l, r := c.Left, c.Right
	if _, isStr := fw.JQConstString(l); isStr {
		l, r = r, l
	}
	s, isStr := fw.JQConstString(r)
	if !isStr || s != "binary" {
		return false, false
	}
	f := fw.JQIsCall(l, "", 0)
	if f == nil || !(f.Name == "_exttype" || extVars[f.Name]) {
		return false, false
	}
	return c.Op == gojq.OpNe, true
}

// reduce follows the input position of q: conditionals decided by extCond are replaced by the arm
// taken, `_exttype as $t | body` records $t. Anything after a pipe no longer sees the override's input
// and is left alone.
func (rs *c07Resid) reduce(q *gojq.Query, extVars map[string]bool, depth int) *gojq.Query {
	q = c07jqUnparen(q)
	if q == nil || depth > 12 || q.Left != nil || len(q.FuncDefs) != 0 || q.Term == nil {
		return q
	}
	t := q.Term
	switch {
	case t.Type == gojq.TermTypeIf && t.If != nil && len(t.SuffixList) == 0:
		v, known := rs.extCond(t.If.Cond, extVars)
		if !known {
			return q
		}
		if v {
			return rs.reduce(t.If.Then, extVars, depth+1)
		}
		if len(t.If.Elif) > 0 {
			rest := &gojq.Query{Term: &gojq.Term{Type: gojq.TermTypeIf, If: &gojq.If{Cond: t.If.Elif[0].Cond, Then: t.If.Elif[0].Then, Elif: t.If.Elif[1:], Else: t.If.Else}}}
			return rs.reduce(rest, extVars, depth+1)
		}
		if t.If.Else == nil {
			return &gojq.Query{Term: &gojq.Term{Type: gojq.TermTypeIdentity}}
		}
		return rs.reduce(t.If.Else, extVars, depth+1)
	case t.Type == gojq.TermTypeFunc && t.Func != nil && t.Func.Name == "_exttype" && len(t.Func.Args) == 0 && len(t.SuffixList) == 1 && t.SuffixList[0].Bind != nil:
		b := t.SuffixList[0].Bind
		if len(b.Patterns) == 1 && b.Patterns[0].Name != "" {
			ev := map[string]bool{b.Patterns[0].Name: true}
			for k := range extVars {
				ev[k] = true
			}
			return rs.reduce(b.Body, ev, depth+1)
		}
	}
	return q
}

// residual of a definition for non-binary input.
func (rs *c07Resid) residual(d *fw.JQDef) (*gojq.FuncDef, *gojq.Query, error) {
	cl, err := c07jqCloneDef(d.Def)
	if err != nil {
		return nil, nil, err
	}
	c07jqInline(rs.jq, rs.ref, cl.Body, 0, rs.aliasShape)
	return cl, rs.reduce(cl.Body, map[string]bool{}, 0), nil
}

func c07OrigRule(r *fw.Run, p *fw.Program, jq *fw.JQ, ref *c07Ref) {
	ru := r.Rule("C07.orig", "every orig-dispatch override f/n, partially evaluated for input that is not an fq binary (private closure helpers beta-reduced, conditionals on _exttype ==/!= \"binary\" decided), is a plain call with its own parameters in order of an alias defined earlier in the same file whose body is f(params in order); the dispatch helpers reduce to their original-builtin closure; _exttype is not redefined in jq", 22)
	rs := &c07Resid{jq: jq, ref: ref}

	// the dispatch helpers, if the overrides go through helpers: each reduces to the closure that receives the
	// original. Which closure that is follows from use: the slot the overrides fill with an alias call.
	helpers := map[string]*fw.JQDef{}
	slot := map[string]int{}
	helperOf := func(body *gojq.Query) (*gojq.Func, *fw.JQDef) {
		f := fw.JQIsCall(body, "", -1)
		if f == nil || !strings.HasPrefix(f.Name, "_") || ref.has(fw.JQFuncKey(f)) {
			return nil, nil
		}
		ds := jq.TopDefs(f.Name, len(f.Args))
		if len(ds) == 0 || rs.aliasShape(ds[len(ds)-1]) {
			return nil, nil
		}
		return f, ds[len(ds)-1]
	}
	for _, k := range fw.SortedKeys(c07Shadow) {
		if c07Shadow[k] != clsOrig {
			continue
		}
		name, ar := c07SplitKey(k)
		over := jq.Def("", name, ar)
		if over == nil {
			continue
		}
		f, h := helperOf(over.Def.Body)
		if f == nil {
			continue
		}
		hk := fw.JQFuncKey(f)
		helpers[hk] = h
		for i, a := range f.Args {
			if c := fw.JQIsCall(a, "", ar); c != nil {
				for _, d := range jq.TopDefs(c.Name, ar) {
					if rs.aliasShape(d) {
						slot[hk] = i
					}
				}
			}
		}
	}
	for round := 0; round < 3; round++ {
		for _, hk := range fw.SortedKeys(helpers) {
			h := helpers[hk]
			f, g := helperOf(h.Def.Body)
			if f == nil {
				continue
			}
			gk := fw.JQFuncKey(f)
			helpers[gk] = g
			if si, ok := slot[hk]; ok {
				for i, a := range f.Args {
					if c07jqIsParamRef(a, h.Def, si) {
						slot[gk] = i
					}
				}
			}
		}
	}
	for _, hk := range fw.SortedKeys(helpers) {
		h := helpers[hk]
		if n := len(jq.TopDefs(h.Def.Name, len(h.Def.Args))); n != 1 {
			ru.Fail(hk+":unique", c07jqPos(h), fmt.Sprintf("dispatch helper defined %d times", n))
			continue
		}
		want, ok := slot[hk]
		if !ok {
			ru.Undecided(hk, c07jqPos(h), "cannot tell which closure of the dispatch helper receives the original builtin")
			continue
		}
		cl, res, err := rs.residual(h)
		if err != nil {
			ru.Undecided(hk, c07jqPos(h), err.Error())
			continue
		}
		ru.Check(c07jqIsParamRef(res, cl, want), hk, c07jqPos(h), "for non-binary input reduces to its closure #"+fmt.Sprint(want+1)+" ("+cl.Args[want]+"), the original",
			"for non-binary input the dispatch helper reduces to `"+fw.JQStr(res)+"` instead of its closure #"+fmt.Sprint(want+1)+" ("+cl.Args[want]+") that the overrides fill with the original builtin: non-binary input no longer reaches the original")
	}
	// _exttype must be the Go-registered function, not redefined in jq
	if d := jq.Def("", "_exttype", 0); d != nil {
		ru.Fail("_exttype/0:jq", c07jqPos(d), "_exttype is redefined in jq")
	}

	for _, k := range fw.SortedKeys(c07Shadow) {
		if c07Shadow[k] != clsOrig {
			continue
		}
		name, ar := c07SplitKey(k)
		over := jq.Def("", name, ar)
		if over == nil {
			ru.Undecided(k, "", "override not found")
			continue
		}
		cl, res, err := rs.residual(over)
		if err != nil {
			ru.Undecided(k+":override", c07jqPos(over), err.Error())
			continue
		}
		call := fw.JQIsCall(res, "", ar)
		var alias *fw.JQDef
		if call != nil {
			for _, d := range jq.TopDefs(call.Name, ar) {
				if d.File == over.File {
					alias = d
				}
			}
		}
		switch {
		case call == nil:
			ru.Fail(k+":override", c07jqPos(over), "for non-binary input the override does not reduce to a plain call of an alias of the engine's "+k+" (left with `"+fw.JQStr(res)+"`)")
			continue
		case alias == nil:
			ru.Fail(k+":override", c07jqPos(over), "for non-binary input the override reduces to `"+fw.JQStr(res)+"`, which is not an alias of "+k+" defined in "+over.File.Rel)
			continue
		case !c07jqArgsAreParams(call, cl):
			ru.Fail(k+":override", c07jqPos(over), "the original is not called with the override's parameters in order (got `"+fw.JQStr(res)+"`)")
		default:
			ru.Ok(k+":override", c07jqPos(over), "non-binary input: "+fw.JQStr(res))
		}
		// alias: body is exactly name(params...) and it precedes the override (so it binds to the engine's builtin)
		ac := fw.JQIsCall(alias.Def.Body, name, ar)
		switch {
		case ac == nil:
			ru.Fail(k+":alias", c07jqPos(alias), "alias body is not a plain call of "+k+" (got `"+fw.JQStr(alias.Def.Body)+"`)")
		case !c07jqArgsAreParams(ac, alias.Def):
			ru.Fail(k+":alias", c07jqPos(alias), "alias does not pass its parameters in order to "+k)
		case alias.Order >= over.Order:
			ru.Fail(k+":alias", c07jqPos(alias), "alias is defined after the override: it calls fq's override (infinite recursion / wrong function), not the engine's builtin")
		case len(jq.TopDefs(alias.Def.Name, ar)) != 1:
			ru.Fail(k+":alias", c07jqPos(alias), "alias defined more than once")
		default:
			ru.Ok(k+":alias", c07jqPos(alias), alias.Key()+" = "+fw.JQStr(alias.Def.Body)+", before the override")
		}
	}
}

func c07SplitKey(k string) (string, int) {
	var ar int
	fmt.Sscanf(k[strings.LastIndex(k, "/")+1:], "%d", &ar)
	return k[:strings.LastIndex(k, "/")], ar
}
