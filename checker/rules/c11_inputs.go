package rules

// C11.inputs — every evaluation of the command-line program receives the same input program.
//
// The user's program P is evaluated by _cli_eval at more than one place (today: the plain run and
// the -i/--repl run of _main). One place puts the input in FRONT of P as a query AST
// (.input_query = _query_func("inputs") | _query_array  ==>  `[inputs] | P`), the other evaluates the
// input directly in jq and feeds each output to P as `.` (`[_inputs] | map(_cli_eval(...))`
// ==>  `_inputs | P`). "Wrapping the program with an input query does not change its results"
// requires that both denote the same jq input expression for every combination of the options that
// select it. The rule derives, per site, the decision tree  option tests -> denoted input expression
// (from the jq AST on one side, from the closed AST-constructor calls on the other), evaluates both
// over all truth assignments of the option tests and compares the denoted expressions. Order of
// tests, a missing or extra arm, a wrong leaf, a wrong option, map() dropped ... change the table;
// reordering arms with equal leaves, if<->nested if, inlining the helper, renaming it do not.

import (
	"fmt"
	"sort"
	"strings"

	"github.com/wader/gojq"

	"fqverif/fw"
)

// ---------------------------------------------------------------------------
// denotations: decision trees over option tests with small jq expressions as leaves

type c11Den struct {
	Cond       *gojq.Query // decision node when != nil
	Then, Else *c11Den
	Kind       string // leaf: null, call, array, array0, iter, dot, ambient, pipe, unk
	S          string
	A, B       *c11Den // operands of array/iter (A) and pipe (A,B); always leaves
}

var c11Dot = &c11Den{Kind: "dot"}

func c11DenUnk(s string) *c11Den { return &c11Den{Kind: "unk", S: s} }

func (d *c11Den) String() string {
	if d == nil {
		return "?"
	}
	if d.Cond != nil {
		return "if " + fw.JQStr(d.Cond) + " then " + d.Then.String() + " else " + d.Else.String() + " end"
	}
	switch d.Kind {
	case "null":
		return "null"
	case "call":
		return d.S
	case "array":
		return "[" + d.A.String() + "]"
	case "array0":
		return "[]"
	case "iter":
		return d.A.String() + "[]"
	case "dot":
		return "."
	case "ambient":
		return "<" + d.S + ">"
	case "pipe":
		return d.A.String() + " | " + d.B.String()
	}
	return "?(" + d.S + ")"
}

// has reports whether a leaf contains a leaf of the given kind.
func (d *c11Den) has(kind string) bool {
	if d == nil {
		return false
	}
	if d.Cond != nil {
		return d.Then.has(kind) || d.Else.has(kind)
	}
	return d.Kind == kind || d.A.has(kind) || d.B.has(kind)
}

// c11DenMap applies a leaf constructor under the decisions (exact: option tests are pure and single-valued).
func c11DenMap(d *c11Den, f func(*c11Den) *c11Den) *c11Den {
	if d == nil {
		return f(c11DenUnk("nothing"))
	}
	if d.Cond != nil {
		return &c11Den{Cond: d.Cond, Then: c11DenMap(d.Then, f), Else: c11DenMap(d.Else, f)}
	}
	return f(d)
}

func c11DenArray(d *c11Den) *c11Den {
	return c11DenMap(d, func(l *c11Den) *c11Den { return &c11Den{Kind: "array", A: l} })
}

func c11DenIter(d *c11Den) *c11Den {
	return c11DenMap(d, func(l *c11Den) *c11Den {
		if l.Kind == "array" { // [x][] == x
			return l.A
		}
		return &c11Den{Kind: "iter", A: l}
	})
}

// c11DenPipe is a | b where b is relative to `.`:  x | . == x,  . | x == x, and an expression that
// does not read `.` placed behind the once-only input of the enclosing definition is itself.
func c11DenPipe(a, b *c11Den) *c11Den {
	return c11DenMap(a, func(la *c11Den) *c11Den {
		return c11DenMap(b, func(lb *c11Den) *c11Den {
			switch {
			case lb.Kind == "dot":
				return la
			case la.Kind == "dot":
				return lb
			case la.Kind == "ambient" && !lb.has("dot"):
				return lb
			}
			return &c11Den{Kind: "pipe", A: la, B: lb}
		})
	})
}

// lexical scope of local definitions
type c11Scope struct {
	fd     *gojq.FuncDef
	parent *c11Scope
}

func (s *c11Scope) push(fds []*gojq.FuncDef) *c11Scope {
	for _, fd := range fds {
		s = &c11Scope{fd: fd, parent: s}
	}
	return s
}

func (s *c11Scope) lookup(name string, arity int) *c11Scope {
	for ; s != nil; s = s.parent {
		if s.fd.Name == name && len(s.fd.Args) == arity {
			return s
		}
	}
	return nil
}

func c11IfDen(iff *gojq.If, sub func(*gojq.Query) *c11Den, noElse *c11Den) *c11Den {
	var els *c11Den
	if iff.Else != nil {
		els = sub(iff.Else)
	} else {
		els = noElse // `if c then a end` yields its input
	}
	for i := len(iff.Elif) - 1; i >= 0; i-- {
		els = &c11Den{Cond: iff.Elif[i].Cond, Then: sub(iff.Elif[i].Then), Else: els}
	}
	return &c11Den{Cond: iff.Cond, Then: sub(iff.Then), Else: els}
}

// c11Denote: the outputs of the jq expression q when `.` is feed.
func c11Denote(q *gojq.Query, feed *c11Den, sc *c11Scope, depth int) *c11Den {
	q = c11Unparen(q)
	if q == nil {
		return c11DenUnk("nothing")
	}
	if depth > 8 {
		return c11DenUnk("recursion")
	}
	if len(q.FuncDefs) > 0 {
		sc = sc.push(q.FuncDefs)
		q = &gojq.Query{Term: q.Term, Left: q.Left, Op: q.Op, Right: q.Right}
		return c11Denote(q, feed, sc, depth)
	}
	if q.Left != nil {
		if q.Op == gojq.OpPipe {
			return c11DenPipe(c11Denote(q.Left, feed, sc, depth), c11Denote(q.Right, c11Dot, sc, depth))
		}
		return c11DenUnk(fw.JQStr(q))
	}
	t := q.Term
	if t == nil {
		return c11DenUnk(fw.JQStr(q))
	}
	var d *c11Den
	switch t.Type {
	case gojq.TermTypeNull:
		d = &c11Den{Kind: "null"}
	case gojq.TermTypeIdentity:
		d = feed
	case gojq.TermTypeQuery:
		d = c11Denote(t.Query, feed, sc, depth)
	case gojq.TermTypeArray:
		if t.Array == nil || t.Array.Query == nil {
			d = &c11Den{Kind: "array0"}
		} else {
			d = c11DenArray(c11Denote(t.Array.Query, feed, sc, depth))
		}
	case gojq.TermTypeIf:
		d = c11IfDen(t.If, func(b *gojq.Query) *c11Den { return c11Denote(b, feed, sc, depth) }, feed)
	case gojq.TermTypeFunc:
		f := t.Func
		switch {
		case f == nil || strings.HasPrefix(f.Name, "$") || len(f.Args) != 0:
			return c11DenUnk(fw.JQStr(q))
		default:
			if loc := sc.lookup(f.Name, 0); loc != nil {
				d = c11Denote(loc.fd.Body, feed, loc, depth+1)
			} else {
				d = &c11Den{Kind: "call", S: f.Name}
			}
		}
	default:
		return c11DenUnk(fw.JQStr(q))
	}
	for _, s := range t.SuffixList {
		if s.Iter {
			d = c11DenIter(d)
			continue
		}
		return c11DenUnk(fw.JQStr(q))
	}
	return d
}

// c11DenoteAST: the jq expression whose AST the constructor expression q builds, `in` being the
// AST value piped into q (nil: none). Only the capture-free constructor set of C11.closed is read.
func c11DenoteAST(q *gojq.Query, in *c11Den, sc *c11Scope, depth int) *c11Den {
	q = c11Unparen(q)
	if q == nil {
		return c11DenUnk("nothing")
	}
	if len(q.FuncDefs) > 0 || depth > 8 {
		return c11DenUnk(fw.JQStr(q))
	}
	if q.Left != nil {
		if q.Op == gojq.OpPipe {
			return c11DenoteAST(q.Right, c11DenoteAST(q.Left, in, sc, depth), sc, depth)
		}
		return c11DenUnk(fw.JQStr(q))
	}
	t := q.Term
	if t == nil || len(t.SuffixList) > 0 {
		return c11DenUnk(fw.JQStr(q))
	}
	need := func(f func(*c11Den) *c11Den) *c11Den {
		if in == nil {
			return c11DenUnk(fw.JQStr(q) + " without a query piped into it")
		}
		return f(in)
	}
	switch t.Type {
	case gojq.TermTypeIdentity:
		return need(func(d *c11Den) *c11Den { return d })
	case gojq.TermTypeIf:
		noElse := in
		if noElse == nil {
			noElse = c11DenUnk("conditional without else and without a query piped into it")
		}
		return c11IfDen(t.If, func(b *gojq.Query) *c11Den { return c11DenoteAST(b, in, sc, depth) }, noElse)
	case gojq.TermTypeFunc:
		if t.Func == nil {
			break
		}
		switch fw.JQFuncKey(t.Func) {
		case "_query_null/0":
			return &c11Den{Kind: "null"}
		case "_query_ident/0":
			return c11Dot
		case "_query_array/0":
			return need(c11DenArray)
		case "_query_iter/0":
			return need(c11DenIter)
		case "_query_func/1":
			if s, ok := fw.JQConstString(c11Unparen(t.Func.Args[0])); ok && c11IsIdent(s) {
				return &c11Den{Kind: "call", S: s}
			}
		default:
			if len(t.Func.Args) == 0 && !strings.HasPrefix(t.Func.Name, "$") {
				if loc := sc.lookup(t.Func.Name, 0); loc != nil {
					return c11DenoteAST(loc.fd.Body, in, loc, depth+1)
				}
			}
		}
	}
	return c11DenUnk(fw.JQStr(q))
}

// ---------------------------------------------------------------------------
// option tests

// c11CondAtoms collects the option tests ($var.key chains) of a condition; false if the condition
// has another form.
func c11CondAtoms(q *gojq.Query, atoms map[string]bool) bool {
	_, ok := c11CondEval(q, nil, atoms)
	return ok
}

func c11ConstBool(q *gojq.Query) (bool, bool) {
	q = c11Unparen(q)
	if !c11Plain(q) || q.Left != nil || q.Term == nil || len(q.Term.SuffixList) > 0 {
		return false, false
	}
	switch q.Term.Type {
	case gojq.TermTypeTrue:
		return true, true
	case gojq.TermTypeFalse:
		return false, true
	}
	return false, false
}

// c11CondEval evaluates a condition under a truth assignment of its option tests (env == nil: only collect).
func c11CondEval(q *gojq.Query, env map[string]bool, atoms map[string]bool) (bool, bool) {
	q = c11Unparen(q)
	if !c11Plain(q) {
		return false, false
	}
	if b, ok := c11ConstBool(q); ok {
		return b, true
	}
	if q.Left != nil {
		switch q.Op {
		case gojq.OpAnd, gojq.OpOr:
			a, ok1 := c11CondEval(q.Left, env, atoms)
			b, ok2 := c11CondEval(q.Right, env, atoms)
			if q.Op == gojq.OpAnd {
				return a && b, ok1 && ok2
			}
			return a || b, ok1 && ok2
		case gojq.OpPipe:
			if c11Call(q.Right, "not", 0) != nil {
				a, ok := c11CondEval(q.Left, env, atoms)
				return !a, ok
			}
		case gojq.OpEq, gojq.OpNe:
			x, k := q.Left, q.Right
			kb, ok := c11ConstBool(k)
			if !ok {
				x, k = q.Right, q.Left
				kb, ok = c11ConstBool(k)
			}
			if ok {
				a, ok := c11CondEval(x, env, atoms)
				return (a == kb) == (q.Op == gojq.OpEq), ok
			}
		}
		return false, false
	}
	ch := c11QueryChain(q)
	if ch == nil || !strings.HasPrefix(ch.Root, "$") || len(ch.Steps) == 0 || len(ch.Names) != len(ch.Steps) {
		return false, false
	}
	a := ch.String()
	if atoms != nil {
		atoms[a] = true
	}
	return env[a], true
}

func (d *c11Den) conds(atoms map[string]bool, bad *[]string) {
	if d == nil || d.Cond == nil {
		return
	}
	if !c11CondAtoms(d.Cond, atoms) {
		*bad = append(*bad, fw.JQStr(d.Cond))
	}
	d.Then.conds(atoms, bad)
	d.Else.conds(atoms, bad)
}

func (d *c11Den) at(env map[string]bool) *c11Den {
	for d != nil && d.Cond != nil {
		if b, _ := c11CondEval(d.Cond, env, nil); b {
			d = d.Then
		} else {
			d = d.Else
		}
	}
	return d
}

// ---------------------------------------------------------------------------
// sites

type c11InputSite struct {
	call  *gojq.Func
	feed  *c11Den // what `.` is at the call
	scope *c11Scope
}

type c11InputWalk struct {
	callee string
	arity  int
	sites  []*c11InputSite
	binds  map[string][]*gojq.Query // $var -> source expressions of `X as $var`
}

func c11Ambient(s string) *c11Den { return &c11Den{Kind: "ambient", S: s} }

func (w *c11InputWalk) contains(q *gojq.Query) bool {
	found := false
	fw.WalkJQ(q, func(n any) bool {
		if f, ok := n.(*gojq.Func); ok && f.Name == w.callee && len(f.Args) == w.arity {
			found = true
		}
		return !found
	}, false)
	return found
}

func (w *c11InputWalk) query(q *gojq.Query, feed *c11Den, sc *c11Scope) {
	if q == nil {
		return
	}
	if len(q.FuncDefs) > 0 {
		for i, fd := range q.FuncDefs {
			inner := sc.push(q.FuncDefs[:i+1])
			w.query(fd.Body, c11Ambient("input of "+fd.Name), inner)
		}
		sc = sc.push(q.FuncDefs)
	}
	if q.Left != nil {
		w.query(q.Left, feed, sc)
		if q.Op == gojq.OpPipe {
			if w.contains(q.Right) {
				w.query(q.Right, c11Denote(q.Left, feed, sc, 0), sc)
			}
			return
		}
		w.query(q.Right, feed, sc)
		return
	}
	w.term(q.Term, feed, sc)
}

func (w *c11InputWalk) term(t *gojq.Term, feed *c11Den, sc *c11Scope) {
	if t == nil {
		return
	}
	switch {
	case t.Func != nil:
		f := t.Func
		switch {
		case f.Name == w.callee && len(f.Args) == w.arity:
			w.sites = append(w.sites, &c11InputSite{call: f, feed: feed, scope: sc})
		case f.Name == "map" && len(f.Args) == 1 && sc.lookup("map", 1) == nil:
			// map(g) is [.[] | g]
			w.query(f.Args[0], c11DenIter(feed), sc)
		default:
			for _, a := range f.Args {
				w.query(a, c11Ambient("input of an argument of "+f.Name), sc)
			}
		}
	case t.If != nil:
		w.query(t.If.Cond, feed, sc)
		w.query(t.If.Then, feed, sc)
		for _, e := range t.If.Elif {
			w.query(e.Cond, feed, sc)
			w.query(e.Then, feed, sc)
		}
		w.query(t.If.Else, feed, sc)
	case t.Query != nil:
		w.query(t.Query, feed, sc)
	case t.Array != nil:
		w.query(t.Array.Query, feed, sc)
	case t.Object != nil:
		for _, kv := range t.Object.KeyVals {
			w.query(kv.KeyQuery, feed, sc)
			w.query(kv.Val, feed, sc)
		}
	case t.Try != nil:
		w.query(t.Try.Body, feed, sc)
		w.query(t.Try.Catch, c11Ambient("the caught error"), sc)
	case t.Label != nil:
		w.query(t.Label.Body, feed, sc)
	case t.Reduce != nil:
		w.query(t.Reduce.Query, feed, sc)
		w.query(t.Reduce.Start, feed, sc)
		w.query(t.Reduce.Update, c11Ambient("reduce state"), sc)
	case t.Foreach != nil:
		w.query(t.Foreach.Query, feed, sc)
		w.query(t.Foreach.Start, feed, sc)
		w.query(t.Foreach.Update, c11Ambient("foreach state"), sc)
		w.query(t.Foreach.Extract, c11Ambient("foreach state"), sc)
	}
	for i, s := range t.SuffixList {
		if s.Bind == nil {
			continue
		}
		src := *t
		src.SuffixList = t.SuffixList[:i]
		for _, p := range s.Bind.Patterns {
			if p.Name != "" {
				w.binds[p.Name] = append(w.binds[p.Name], &gojq.Query{Term: &src})
			} else {
				// destructuring: the names are bound, to parts of the source
				c11PatternNames(p, func(n string) { w.binds[n] = append(w.binds[n], nil) })
			}
		}
		// the body of `X as $v | body` sees the `.` that X saw
		w.query(s.Bind.Body, feed, sc)
	}
}

func c11PatternNames(p *gojq.Pattern, f func(string)) {
	if p == nil {
		return
	}
	if p.Name != "" {
		f(p.Name)
	}
	for _, a := range p.Array {
		c11PatternNames(a, f)
	}
	for _, o := range p.Object {
		if o.Val == nil && strings.HasPrefix(o.Key, "$") {
			f(o.Key)
		}
		c11PatternNames(o.Val, f)
	}
}

// c11EvalOpts reads the options expression given to _cli_eval: a base (variable bound once to an
// object literal, or an object literal) followed by `| .key = value` stages.
type c11EvalOpts struct {
	base   string      // printed base object
	input  *gojq.Query // constructor expression of input_query, nil if not set
	reason string      // why it could not be read
}

func c11ObjectLit(q *gojq.Query) *gojq.Object {
	q = c11Unparen(q)
	if !c11Plain(q) || q.Left != nil || q.Term == nil || q.Term.Type != gojq.TermTypeObject || len(q.Term.SuffixList) > 0 {
		return nil
	}
	if q.Term.Object == nil {
		return &gojq.Object{}
	}
	return q.Term.Object
}

func c11KVKey(kv *gojq.ObjectKeyVal) (string, bool) {
	if kv.KeyQuery != nil {
		return "", false
	}
	if kv.KeyString != nil {
		if len(kv.KeyString.Queries) > 0 {
			return "", false
		}
		return kv.KeyString.Str, true
	}
	return kv.Key, !strings.HasPrefix(kv.Key, "$") && kv.Val != nil
}

func (w *c11InputWalk) evalOpts(q *gojq.Query) c11EvalOpts {
	var out c11EvalOpts
	stages := c11Stages(q)
	if len(stages) == 0 {
		out.reason = "no options expression"
		return out
	}
	for i, st := range stages {
		if st.isBind() {
			out.reason = "a binding inside the options expression"
			return out
		}
		e := c11Unparen(st.Q)
		if i == 0 {
			obj := c11ObjectLit(e)
			if obj == nil {
				v, ok := c11Var(e, "")
				if !ok {
					out.reason = "the options start from `" + fw.JQStr(e) + "`, neither an object literal nor a variable"
					return out
				}
				srcs := w.binds[v]
				if len(srcs) != 1 || srcs[0] == nil {
					out.reason = fmt.Sprintf("%s is bound %d times / by destructuring in the enclosing definition", v, len(srcs))
					return out
				}
				if obj = c11ObjectLit(srcs[0]); obj == nil {
					out.reason = v + " is bound to `" + fw.JQStr(srcs[0]) + "`, not an object literal"
					return out
				}
			}
			var rest []string
			for _, kv := range obj.KeyVals {
				k, ok := c11KVKey(kv)
				if !ok {
					out.reason = "computed or shorthand key in the base options"
					return out
				}
				if k == "input_query" {
					out.input = kv.Val
					continue
				}
				if c11WrapperKeys[k] {
					continue
				}
				rest = append(rest, k+": "+fw.JQStr(c11Unparen(kv.Val)))
			}
			sort.Strings(rest)
			out.base = "{" + strings.Join(rest, ", ") + "}"
			continue
		}
		if !c11Plain(e) || e.Left == nil || e.Op != gojq.OpAssign {
			out.reason = "stage `" + fw.JQStr(e) + "` of the options expression is not a `.key = value` assignment"
			return out
		}
		ch := c11QueryChain(e.Left)
		if ch == nil || ch.Root != "." || len(ch.Steps) != 1 || len(ch.Names) != 1 {
			out.reason = "stage `" + fw.JQStr(e) + "` does not assign a single option key"
			return out
		}
		if ch.Names[0] == "input_query" {
			out.input = e.Right
		}
	}
	return out
}

// ---------------------------------------------------------------------------
// the rule

func (c *c11Ctx) inputs() {
	ru := c.r.Rule("C11.inputs", "all _cli_eval evaluations of the command-line program inside one definition agree: same expression argument, same base options, and for every truth assignment of the option tests involved the same denoted input expression in front of the program — whether it is given as an input_query AST (closed constructor set) or evaluated directly and fed as `.`", 10)
	const callee, arity = "_cli_eval", 2
	nDefs := 0
	for _, f := range c.jq.Files {
		if !strings.HasPrefix(f.Rel, "pkg/interp/") {
			continue
		}
		for _, d := range c.jq.Defs {
			if d.File != f || d.Parent != nil {
				continue
			}
			w := &c11InputWalk{callee: callee, arity: arity, binds: map[string][]*gojq.Query{}}
			if !w.contains(d.Def.Body) {
				continue
			}
			var sc *c11Scope
			w.query(d.Def.Body, c11Ambient("input of "+d.Def.Name), sc)
			nDefs++
			c.inputsDef(ru, d, w)
		}
	}
	if nDefs == 0 {
		ru.Undecided("sites", "", "no call of _cli_eval/2 found in pkg/interp/*.jq")
	}
	c.r.Assumption("C11.inputs: a _cli_eval call whose `.` is not constructed next to it is reached with the single input of its enclosing definition; how often a site is reached is not decided")
}

func (c *c11Ctx) inputsDef(ru *fw.Rule, d *fw.JQDef, w *c11InputWalk) {
	pos := c.pos(d)
	dk := d.Def.Name
	type siteInfo struct {
		name string
		expr string
		base string
		eff  *c11Den
		how  string
	}
	var infos []*siteInfo
	atoms := map[string]bool{}
	for i, s := range w.sites {
		name := fmt.Sprintf("call%d", i+1)
		key := "site:" + dk + ":" + name
		o := w.evalOpts(s.call.Args[1])
		if o.reason != "" {
			ru.Undecided(key, pos, "options of "+name+" of _cli_eval in "+dk+": "+o.reason)
			continue
		}
		eff := s.feed
		how := "fed as `.`"
		if o.input != nil {
			eff = c11DenPipe(s.feed, c11DenoteAST(o.input, nil, s.scope, 0))
			how = "input_query"
		}
		var bad []string
		eff.conds(atoms, &bad)
		if len(bad) > 0 {
			ru.Undecided(key, pos, fmt.Sprintf("%s of _cli_eval in %s: the input depends on `%s`, which is not a boolean combination of option tests ($var.key)", name, dk, strings.Join(bad, "`, `")))
			continue
		}
		ru.Ok(key, pos, how+": "+eff.String())
		infos = append(infos, &siteInfo{name: name, expr: fw.JQStr(c11Unparen(s.call.Args[0])), base: o.base, eff: eff, how: how})
	}
	if len(infos) != len(w.sites) {
		return
	}
	// every option variable tested must mean the same thing at every site: bound exactly once in the definition
	var names []string
	roots := map[string]bool{}
	for a := range atoms {
		names = append(names, a)
		roots[a[:strings.Index(a, ".")]] = true
	}
	sort.Strings(names)
	for _, r := range c11SortedSet(roots) {
		n := len(w.binds[r])
		for _, a := range d.Def.Args {
			if a == r {
				n++
			}
		}
		if n != 1 {
			ru.Undecided("optvar:"+dk+":"+r, pos, fmt.Sprintf("%s is bound %d times in %s; the option tests of different sites may read different values", r, n, dk))
			return
		}
	}
	if len(names) > 8 {
		ru.Undecided("agree:"+dk, pos, fmt.Sprintf("%d option tests select the input; too many to tabulate", len(names)))
		return
	}
	if len(infos) < 2 {
		// a single site has nothing to disagree with; its leaves must still be readable
		in := infos[0]
		c.inputsTable(ru, dk, pos, names, func(env map[string]bool, asg string) {
			l := in.eff.at(env)
			if l.has("unk") || l.has("dot") || l.has("ambient") {
				ru.Undecided("input:"+dk+":"+asg, pos, "the input in front of the program is `"+l.String()+"`, which is not a closed expression this rule can read")
			} else {
				ru.Ok("input:"+dk+":"+asg, pos, l.String())
			}
		})
		return
	}
	ref := infos[0]
	for _, in := range infos[1:] {
		pair := ref.name + "~" + in.name
		ru.Check(ref.expr == in.expr, "expr:"+dk+":"+pair, pos, "both evaluate "+ref.expr,
			fmt.Sprintf("%s evaluates `%s` but %s evaluates `%s`: the two runs do not evaluate the same program text", ref.name, ref.expr, in.name, in.expr))
		ru.Check(ref.base == in.base, "base:"+dk+":"+pair, pos, "same base options "+ref.base,
			fmt.Sprintf("%s starts from options %s but %s from %s", ref.name, ref.base, in.name, in.base))
		in := in
		c.inputsTable(ru, dk, pos, names, func(env map[string]bool, asg string) {
			key := "agree:" + dk + ":" + pair + ":" + asg
			a, b := ref.eff.at(env), in.eff.at(env)
			for _, l := range []*c11Den{a, b} {
				if l.has("unk") || l.has("dot") || l.has("ambient") {
					ru.Undecided(key, pos, fmt.Sprintf("with %s the input in front of the program is `%s`, which is not a closed expression this rule can read", asg, l.String()))
					return
				}
			}
			ru.Check(a.String() == b.String(), key, pos, "both run the program behind `"+a.String()+"`",
				fmt.Sprintf("with %s, %s (%s) runs the program behind `%s` but %s (%s) behind `%s`: the same command line gives different results depending on the evaluation path", asg, ref.name, ref.how, a.String(), in.name, in.how, b.String()))
		})
	}
}

// inputsTable calls f for every truth assignment of the option tests; the assignment is rendered
// with the variable prefix dropped when all tests share it.
func (c *c11Ctx) inputsTable(ru *fw.Rule, dk, pos string, names []string, f func(env map[string]bool, asg string)) {
	for m := 0; m < 1<<len(names); m++ {
		env := map[string]bool{}
		var parts []string
		for i, n := range names {
			v := m&(1<<i) != 0
			env[n] = v
			b := "0"
			if v {
				b = "1"
			}
			parts = append(parts, n+"="+b)
		}
		f(env, strings.Join(parts, ","))
	}
}
