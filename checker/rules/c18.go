package rules

import (
	"fmt"
	"go/token"
	"go/types"
	"sort"
	"strings"

	"golang.org/x/tools/go/ssa"

	"fqverif/fw"
)

func init() { Register("C18", runC18) }

func runC18(r *fw.Run, p *fw.Program) {
	c18Globals(r, p)
	c18Once(r, p)
	c18InArg(r, p)
	c18Eval(r, p)
	c18Buf(r, p)
	c18Lazy(r, p)
	c18CacheKey(r, p)
	c18Shared(r, p)
	c18Stateful(r, p)
	c18Mapper(r, p)
	c18EvalCopy(r, p)
	c18CacheFill(r, p)
	c18Ambient(r, p)
	c18TZ(r, p)
	c18MapOrder(r, p)
	// per-input jq state: the input file name is reset before each open (shared with C17.inputs)
	c17InputFilenameResetAs(r, p, "C18.inputstate")
}

// ---------------------------------------------------------------------------
// C18.globals

// memRoot follows an address/value back to the memory it designates: a package-level variable,
// a parameter, a free variable, or nil for fresh/unknown memory. Loads of pointer fields keep the
// root (memory reachable from the root). It is the first element of memRoots.
func memRoot(v ssa.Value) ssa.Value {
	if rs := memRoots(v); len(rs) > 0 {
		return rs[0]
	}
	return nil
}

// c18RetRoots: for an fq function and result index, the roots (package-level variables; parameters as
// c18ParamAlias) of the memory its result may designate. Filled by c18ReturnSummaries (fixed point);
// empty until then (call results are then fresh/unknown memory as before).
var c18RetRoots = map[*ssa.Function]map[int][]ssa.Value{}
var c18RetRootsFor *fw.Program

// c18ReturnSummaries computes c18RetRoots once per loaded program.
func c18ReturnSummaries(p *fw.Program) {
	if c18RetRootsFor == p {
		return
	}
	c18RetRootsFor = p
	c18RetRoots = map[*ssa.Function]map[int][]ssa.Value{}
	fns := p.FqFunctions()
	for round := 0; round < 6; round++ {
		changed := false
		for _, fn := range fns {
			if fn.Signature.Results().Len() == 0 {
				continue
			}
			fw.EachInstr(fn, func(ins ssa.Instruction) {
				ret, ok := ins.(*ssa.Return)
				if !ok {
					return
				}
				for k, rv := range ret.Results {
					if !c18MayAlias(rv.Type()) {
						continue
					}
					for _, root := range memRoots(rv) {
						switch root.(type) {
						case *ssa.Global, *ssa.Parameter:
						default:
							continue
						}
						if g, isG := root.(*ssa.Global); isG && isFqGlobal(g) == nil {
							continue
						}
						have := false
						for _, h := range c18RetRoots[fn][k] {
							if h == root {
								have = true
							}
						}
						if !have {
							if c18RetRoots[fn] == nil {
								c18RetRoots[fn] = map[int][]ssa.Value{}
							}
							c18RetRoots[fn][k] = append(c18RetRoots[fn][k], root)
							changed = true
						}
					}
				}
			})
		}
		if !changed {
			break
		}
	}
}

// c18MayAlias: a value of this type can designate memory shared with someone else.
func c18MayAlias(t types.Type) bool {
	switch u := t.Underlying().(type) {
	case *types.Pointer, *types.Map, *types.Slice, *types.Interface, *types.Chan, *types.Signature:
		return true
	case *types.Struct:
		for i := 0; i < u.NumFields(); i++ {
			if refLike(u.Field(i).Type()) {
				return true
			}
		}
	}
	return false
}

// memRoots: every root the address/value may designate (phi edges, spilled locals, type assertions,
// comma-ok lookups, range variables, results of fq functions that return shared memory).
func memRoots(v ssa.Value) []ssa.Value {
	var out []ssa.Value
	memRootsSeen(v, map[ssa.Value]bool{}, &out, 0)
	return out
}

func memRootSeen(v ssa.Value, seen map[ssa.Value]bool) ssa.Value {
	var out []ssa.Value
	memRootsSeen(v, seen, &out, 0)
	if len(out) > 0 {
		return out[0]
	}
	return nil
}

func memRootsSeen(v ssa.Value, seen map[ssa.Value]bool, out *[]ssa.Value, depth int) {
	add := func(r ssa.Value) {
		for _, h := range *out {
			if h == r {
				return
			}
		}
		*out = append(*out, r)
	}
	callRoots := func(c *ssa.Call, idx int) {
		callee := c.Common().StaticCallee()
		if callee == nil {
			return
		}
		roots := c18RetRoots[callee][idx]
		if o := callee.Origin(); o != nil && roots == nil {
			roots = c18RetRoots[o][idx]
		}
		for _, root := range roots {
			switch x := root.(type) {
			case *ssa.Global:
				add(x)
			case *ssa.Parameter:
				for i, pa := range callee.Params {
					if pa == x && i < len(c.Common().Args) {
						memRootsSeen(c.Common().Args[i], seen, out, depth+1)
					}
				}
				if o := callee.Origin(); o != nil {
					for i, pa := range o.Params {
						if pa == x && i < len(c.Common().Args) {
							memRootsSeen(c.Common().Args[i], seen, out, depth+1)
						}
					}
				}
			}
		}
	}
	for i := 0; i < 40; i++ {
		if v == nil || seen[v] || depth > 12 {
			return
		}
		seen[v] = true
		switch x := v.(type) {
		case *ssa.Global, *ssa.Parameter, *ssa.FreeVar:
			add(v)
			return
		case *ssa.FieldAddr:
			v = x.X
		case *ssa.IndexAddr:
			v = x.X
		case *ssa.Field:
			v = x.X
		case *ssa.Index:
			v = x.X
		case *ssa.Slice:
			v = x.X
		case *ssa.ChangeType:
			v = x.X
		case *ssa.Convert:
			v = x.X
		case *ssa.ChangeInterface:
			v = x.X
		case *ssa.MakeInterface:
			if !refLike(x.X.Type()) {
				return
			}
			v = x.X
		case *ssa.TypeAssert:
			v = x.X
		case *ssa.Call:
			callRoots(x, 0)
			return
		case *ssa.Extract:
			switch t := x.Tuple.(type) {
			case *ssa.TypeAssert:
				if x.Index != 0 {
					return
				}
				v = t.X
			case *ssa.Lookup:
				if x.Index != 0 {
					return
				}
				v = t.X
			case *ssa.Next:
				rg, ok := t.Iter.(*ssa.Range)
				if !ok || x.Index == 0 {
					return
				}
				v = rg.X
			case *ssa.Call:
				callRoots(t, x.Index)
				return
			default:
				return
			}
		case *ssa.UnOp:
			if x.Op != token.MUL {
				return
			}
			// a load of a local cell (spilled / address-taken variable): what was stored into it
			if al, ok := x.X.(*ssa.Alloc); ok {
				if al.Referrers() != nil && refLike(x.Type()) {
					for _, rf := range *al.Referrers() {
						if st, ok := rf.(*ssa.Store); ok && st.Addr == ssa.Value(al) {
							memRootsSeen(st.Val, seen, out, depth+1)
						}
					}
				}
				return
			}
			// a reference (pointer, map, slice...) loaded from a field of a local struct copy: the copy shares
			// what the reference designates with whatever the struct was copied from (ci := *i; m by value)
			if refLike(x.Type()) {
				if al, fld := c18LocalFieldBase(x.X); al != nil && al.Referrers() != nil {
					for _, rf := range *al.Referrers() {
						switch y := rf.(type) {
						case *ssa.Store:
							if y.Addr == ssa.Value(al) {
								memRootsSeen(y.Val, seen, out, depth+1)
							}
						case *ssa.FieldAddr:
							// the field assigned on its own
							if fld >= 0 && y.Field == fld && y.X == ssa.Value(al) && y.Referrers() != nil {
								for _, r2 := range *y.Referrers() {
									if st, ok := r2.(*ssa.Store); ok && st.Addr == ssa.Value(y) {
										memRootsSeen(st.Val, seen, out, depth+1)
									}
								}
							}
						}
					}
					return
				}
			}
			v = x.X
		case *ssa.Lookup:
			v = x.X
		case *ssa.Phi:
			for _, e := range x.Edges {
				memRootsSeen(e, seen, out, depth+1)
			}
			return
		default:
			return
		}
	}
}

// c18LocalFieldBase: addr is a field (first level) of a local struct variable; returns the variable and field.
func c18LocalFieldBase(addr ssa.Value) (*ssa.Alloc, int) {
	fld := -1
	for i := 0; i < 6; i++ {
		switch x := addr.(type) {
		case *ssa.FieldAddr:
			fld = x.Field
			addr = x.X
		case *ssa.Alloc:
			if _, isStruct := x.Type().(*types.Pointer).Elem().Underlying().(*types.Struct); isStruct && fld >= 0 {
				return x, fld
			}
			return nil, -1
		default:
			return nil, -1
		}
	}
	return nil, -1
}

// c18HasRoot: root is one of the roots of v.
func c18HasRoot(v ssa.Value, root ssa.Value) bool {
	for _, r := range memRoots(v) {
		if r == root {
			return true
		}
	}
	return false
}

func isFqGlobal(v ssa.Value) *ssa.Global {
	g, ok := v.(*ssa.Global)
	if !ok || g.Pkg == nil || !strings.HasPrefix(g.Pkg.Pkg.Path(), fw.Mod) {
		return nil
	}
	return g
}

func refLike(t types.Type) bool {
	switch t.Underlying().(type) {
	case *types.Pointer, *types.Map, *types.Slice, *types.Interface, *types.Signature, *types.Chan:
		return true
	}
	return false
}

// stdlib functions that mutate the memory of their first argument
var stdMutators = map[string]int{
	"sort.Slice": 0, "sort.SliceStable": 0, "sort.Sort": 0, "sort.Stable": 0, "sort.Strings": 0, "sort.Ints": 0, "sort.Float64s": 0,
	"slices.Sort": 0, "slices.SortFunc": 0, "slices.SortStableFunc": 0, "slices.Reverse": 0,
	"math/rand.Shuffle":       -1,
	"encoding/json.Unmarshal": 1, "encoding/binary.Read": 2,
}

// write is one instruction that writes memory designated by `target`.
type memWrite struct {
	ins    ssa.Instruction
	target ssa.Value
	what   string
}

// writesIn lists the memory writes of one function body (not closures).
func writesIn(fn *ssa.Function, summ map[*ssa.Function]map[int]bool) []memWrite {
	var out []memWrite
	fw.EachInstr(fn, func(ins ssa.Instruction) {
		switch x := ins.(type) {
		case *ssa.Store:
			// a store into a local Alloc is not a shared write
			if _, ok := x.Addr.(*ssa.Alloc); ok {
				return
			}
			out = append(out, memWrite{ins, x.Addr, "store"})
		case *ssa.MapUpdate:
			out = append(out, memWrite{ins, x.Map, "map update"})
		case ssa.CallInstruction:
			cc := x.Common()
			if b, ok := cc.Value.(*ssa.Builtin); ok {
				switch b.Name() {
				case "delete", "clear":
					out = append(out, memWrite{ins, cc.Args[0], b.Name()})
				case "copy":
					out = append(out, memWrite{ins, cc.Args[0], "copy into"})
				}
				return
			}
			callee := cc.StaticCallee()
			if callee == nil {
				return
			}
			name := callee.String()
			if o := callee.Origin(); o != nil {
				name = o.String()
			}
			if i, ok := stdMutators[name]; ok && i >= 0 && i < len(cc.Args) {
				out = append(out, memWrite{ins, cc.Args[i], "in-place " + name})
				return
			}
			if m := summ[callee]; m != nil {
				for i := range m {
					if i < len(cc.Args) {
						out = append(out, memWrite{ins, cc.Args[i], "passed to mutating parameter of " + fw.ShortFn(callee)})
					}
				}
			}
		case *ssa.MakeClosure:
			// bindings captured by a closure that mutates its free variable
			cl := x.Fn.(*ssa.Function)
			if m := summ[cl]; m != nil {
				for i := range m {
					k := i - 1000
					if k >= 0 && k < len(x.Bindings) {
						out = append(out, memWrite{ins, x.Bindings[k], "captured by mutating closure " + fw.ShortFn(cl)})
					}
				}
			}
		}
	})
	return out
}

// mutationSummaries: for each fq function, the indices of parameters (and 1000+k for free
// variables) through which it may write. Fixed point over static calls and closures.
func mutationSummaries(p *fw.Program) map[*ssa.Function]map[int]bool {
	c18ReturnSummaries(p)
	return mutationSummariesMulti(p, memRoots)
}

// mutationSummariesWith is mutationSummaries with a caller-chosen notion of "the memory an address designates".
func mutationSummariesWith(p *fw.Program, memRoot func(ssa.Value) ssa.Value) map[*ssa.Function]map[int]bool {
	return mutationSummariesMulti(p, func(v ssa.Value) []ssa.Value {
		if r := memRoot(v); r != nil {
			return []ssa.Value{r}
		}
		return nil
	})
}

func mutationSummariesMulti(p *fw.Program, memRoots func(ssa.Value) []ssa.Value) map[*ssa.Function]map[int]bool {
	summ := map[*ssa.Function]map[int]bool{}
	fns := p.FqFunctions()
	for changed := true; changed; {
		changed = false
		for _, fn := range fns {
			for _, w := range writesIn(fn, summ) {
				for _, root := range memRoots(w.target) {
					idx := -1
					switch x := root.(type) {
					case *ssa.Parameter:
						for i, pa := range fn.Params {
							if pa == x {
								idx = i
							}
						}
						// a by-value parameter is written only in its local copy (stores go to the spilled cell);
						// a write rooted at the parameter value itself went through a reference it holds (map,
						// slice or pointer field), which the caller's copy shares - unless it holds none
						if idx >= 0 && !refLike(x.Type()) && !c18MayAlias(x.Type()) {
							idx = -1
						}
					case *ssa.FreeVar:
						for i, fv := range fn.FreeVars {
							if fv == x {
								idx = 1000 + i
							}
						}
					}
					if idx < 0 {
						continue
					}
					if summ[fn] == nil {
						summ[fn] = map[int]bool{}
					}
					if !summ[fn][idx] {
						summ[fn][idx] = true
						changed = true
					}
				}
			}
		}
	}
	return summ
}

// isInitContext: package initialisation (the synthetic package init and declared init functions),
// including closures only when they are invoked directly by that initialiser.
func isInitContext(fn *ssa.Function) bool {
	if fn.Parent() != nil {
		return false
	}
	return fn.Name() == "init" || strings.HasPrefix(fn.Name(), "init#")
}

// globalsExceptions: (function|global) pairs that write package-level state outside init, each
// recognised structurally where possible; this table is for the remainder.
var globalsExceptions = map[string]string{
	"format/bitcoin.decodeBitcoinTranscation$1$1|&format/bitcoin.txIDCoinbaseBytes": "the all-zero coinbase txid is handed to a scalar.RawBytesMap as comparison key; Map* methods of mappers never write their table (C18.mapper) and the slice is not otherwise reachable",
}

func c18Globals(r *fw.Run, p *fw.Program) {
	ru := r.Rule("C18.globals", "no package-level variable of the fq module is written (store, map update, delete, in-place sort/copy, or through a mutating parameter/closure) outside package initialisation, except under sync.Once (of a shared Once) / the owner's mutex / init-only registrars; aliases are followed through comma-ok lookups, range variables, type assertions, spilled locals, by-value struct copies and fq functions returning shared memory; nor is the address of such a variable parked in an object outside initialisation", 100)
	summ := mutationSummaries(p)
	nGlobals := 0
	for _, pk := range p.Roots {
		sp := p.SSA.Package(pk.Types)
		if sp == nil {
			continue
		}
		for _, m := range sp.Members {
			if _, ok := m.(*ssa.Global); ok {
				nGlobals++
			}
		}
	}
	r.Notes["package_level_variables"] = nGlobals
	nPairs := 0
	for _, m := range summ {
		nPairs += len(m)
	}
	r.Notes["mutating_function_parameter_pairs"] = nPairs

	initOnly := initOnlyFunctions(p)
	checked := 0
	for _, fn := range p.FqFunctions() {
		if fn.TypeParams().Len() > 0 && len(fn.TypeArgs()) == 0 {
			continue // uninstantiated generic body is never executed; its instances are analysed
		}
		ws := writesIn(fn, summ)
		ord := map[string]int{}
		for _, w := range ws {
			var g *ssa.Global
			for _, root := range memRoots(w.target) {
				if gg := isFqGlobal(root); gg != nil {
					g = gg
					break
				}
			}
			if g == nil {
				continue
			}
			checked++
			gname := strings.TrimPrefix(g.Pkg.Pkg.Path(), fw.Mod+"/") + "." + g.Name()
			base := fw.ShortFn(fn) + "|" + gname
			ord[base]++
			key := fmt.Sprintf("%s|%d", base, ord[base])
			pos := p.Rel(w.ins.Pos())
			switch {
			case isInitContext(fn):
				ru.Ok(key, pos, "package initialisation")
			case initOnly[fw.Top(fn)] && fn.Parent() == nil:
				ru.Ok(key, pos, "registrar reachable only from package init functions (who-may-call checked)")
			case insideOnceDo(fn):
				ru.Ok(key, pos, "inside a closure passed to (*sync.Once).Do")
			case holdsOwnMutex(w.ins):
				ru.Ok(key, pos, "under the receiver's own mutex")
			case calleeLocksReceiver(w.ins, summ):
				ru.Ok(key, pos, "callee performs every write through this argument while holding the argument's own mutex")
			default:
				if reason, ok := globalsExceptions[base]; ok {
					ru.Except(key, pos, reason)
				} else {
					ru.Fail(key, pos, fmt.Sprintf("%s of package-level variable %s outside package initialisation (%s): shared mutable state between decodes", w.what, gname, fw.ShortFn(fn)))
				}
			}
		}
	}
	// the address of a package-level variable (or of part of it) must not be parked in an object outside
	// initialisation: whoever holds the object later writes the variable without this scan seeing a global
	// (a decoder state defaulting its scratch buffer to a package-level one, for instance)
	for _, fn := range p.FqFunctions() {
		if fn.TypeParams().Len() > 0 && len(fn.TypeArgs()) == 0 {
			continue
		}
		if isInitContext(fw.Top(fn)) || initOnly[fw.Top(fn)] {
			continue
		}
		ord := map[string]int{}
		fw.EachInstr(fn, func(ins ssa.Instruction) {
			st, ok := ins.(*ssa.Store)
			if !ok {
				return
			}
			if a, isA := st.Addr.(*ssa.Alloc); isA && !a.Heap {
				return
			}
			g := c18AddrOfGlobal(st.Val)
			if g == nil || isFqGlobal(g) == nil || !c18WritableThrough(st.Val.Type()) {
				return
			}
			gname := strings.TrimPrefix(g.Pkg.Pkg.Path(), fw.Mod+"/") + "." + g.Name()
			base := fw.ShortFn(fn) + "|&" + gname
			ord[base]++
			key := fmt.Sprintf("%s|%d", base, ord[base])
			if reason, ok := globalsExceptions[base]; ok {
				ru.Except(key, p.Rel(st.Pos()), reason)
				return
			}
			ru.Fail(key, p.Rel(st.Pos()), fmt.Sprintf("the address of package-level variable %s is stored into an object outside package initialisation (%s): every decode holding such an object reads and writes the same memory", gname, fw.ShortFn(fn)))
		})
	}
	ru.Ok("scan", "", fmt.Sprintf("%d package-level variables, %d writes to them examined, %d mutating (function,parameter) summaries", nGlobals, checked, nPairs))
}

// c18AddrOfGlobal: v is the address of a package-level variable or of a part of it (field, element, slice of
// an array) - no load in between, so writing through v writes the variable itself.
func c18AddrOfGlobal(v ssa.Value) *ssa.Global {
	for i := 0; i < 10; i++ {
		switch x := v.(type) {
		case *ssa.Global:
			return x
		case *ssa.FieldAddr:
			v = x.X
		case *ssa.IndexAddr:
			v = x.X
		case *ssa.Slice:
			v = x.X
		case *ssa.ChangeType:
			v = x.X
		case *ssa.Convert:
			v = x.X
		case *ssa.MakeInterface:
			v = x.X
		default:
			return nil
		}
	}
	return nil
}

// c18WritableThrough: holding a value of this type allows writing the memory it designates.
func c18WritableThrough(t types.Type) bool {
	switch u := t.Underlying().(type) {
	case *types.Pointer:
		// a pointer to a type without exported or unexported mutable state cannot be told apart here; sync
		// primitives and read-only descriptors are shared on purpose
		if n, ok := u.Elem().(*types.Named); ok && n.Obj().Pkg() != nil {
			switch {
			case n.Obj().Pkg().Path() == "sync":
				return false
			case n.Obj().Pkg().Path() == fw.Mod+"/pkg/decode" && (n.Obj().Name() == "Group" || n.Obj().Name() == "Format" || n.Obj().Name() == "Dependency"):
				return false // format descriptors: every write to them, through any holder, is judged by C18.shared
			}
		}
		return true
	case *types.Slice, *types.Interface:
		return true
	}
	return false
}

// initOnlyFunctions: fq functions all of whose (static) callers are package init functions or
// other init-only functions, and whose address is never taken.
func initOnlyFunctions(p *fw.Program) map[*ssa.Function]bool {
	callers := map[*ssa.Function][]*ssa.Function{}
	addrTaken := map[*ssa.Function]bool{}
	for _, fn := range p.FqFunctions() {
		fw.EachInstr(fn, func(ins ssa.Instruction) {
			var ops []*ssa.Value
			ops = ins.Operands(ops)
			var callee *ssa.Function
			if c, ok := ins.(ssa.CallInstruction); ok {
				callee = c.Common().StaticCallee()
				if callee != nil {
					if o := callee.Origin(); o != nil {
						callers[o] = append(callers[o], fn)
					}
					callers[callee] = append(callers[callee], fn)
				}
			}
			for _, op := range ops {
				if op == nil || *op == nil {
					continue
				}
				if f, ok := (*op).(*ssa.Function); ok {
					if c, isCall := ins.(ssa.CallInstruction); isCall && c.Common().Value == *op {
						continue
					}
					addrTaken[f] = true
				}
			}
		})
	}
	res := map[*ssa.Function]bool{}
	for changed := true; changed; {
		changed = false
		for _, fn := range p.FqFunctions() {
			if res[fn] || fn.Parent() != nil || addrTaken[fn] || isInitContext(fn) {
				continue
			}
			cs := callers[fn]
			if len(cs) == 0 {
				continue
			}
			ok := true
			for _, c := range cs {
				if !(isInitContext(c) || res[c]) {
					ok = false
				}
			}
			if ok {
				res[fn] = true
				changed = true
			}
		}
	}
	return res
}

// insideOnceDo: fn is a closure passed to (*sync.Once).Do of a Once that outlives the call: a
// package-level variable or a field of an object reached through a parameter / free variable / global.
// A Once that is a local variable (or a by-value copy of the shared one) guards nothing.
func insideOnceDo(fn *ssa.Function) bool {
	par := fn.Parent()
	if par == nil {
		return false
	}
	sharedOnce := func(c ssa.CallInstruction) bool {
		if len(c.Common().Args) != 2 {
			return false
		}
		for _, root := range memRoots(c.Common().Args[0]) {
			switch root.(type) {
			case *ssa.Global, *ssa.Parameter, *ssa.FreeVar:
				return true
			}
		}
		return false
	}
	found := false
	fw.EachInstr(par, func(ins ssa.Instruction) {
		if c, ok := ins.(ssa.CallInstruction); ok {
			if cal := c.Common().StaticCallee(); cal != nil && cal.String() == "(*sync.Once).Do" && len(c.Common().Args) == 2 && c.Common().Args[1] == ssa.Value(fn) && sharedOnce(c) {
				found = true
			}
		}
		mc, ok := ins.(*ssa.MakeClosure)
		if !ok || mc.Fn != fn || mc.Referrers() == nil {
			return
		}
		for _, ref := range *mc.Referrers() {
			if c, ok := ref.(ssa.CallInstruction); ok {
				if cal := c.Common().StaticCallee(); cal != nil && cal.String() == "(*sync.Once).Do" && sharedOnce(c) {
					found = true
				}
			}
		}
	})
	return found
}

// calleeLocksReceiver: the write is a call passing the global as receiver to a method all of whose
// writes through the receiver are dominated by a Lock of a mutex (lazyre idiom).
func calleeLocksReceiver(ins ssa.Instruction, summ map[*ssa.Function]map[int]bool) bool {
	c, ok := ins.(ssa.CallInstruction)
	if !ok {
		return false
	}
	callee := c.Common().StaticCallee()
	if callee == nil || callee.Signature.Recv() == nil || !fw.InFq(callee) {
		return false
	}
	n := 0
	for _, w := range writesIn(callee, summ) {
		if len(callee.Params) > 0 && c18HasRoot(w.target, callee.Params[0]) {
			n++
			if !holdsOwnMutex(w.ins) {
				return false
			}
		}
	}
	return n > 0
}

// holdsOwnMutex: the instruction is dominated by a (*sync.Mutex).Lock / RWMutex.Lock call in the same function.
func holdsOwnMutex(ins ssa.Instruction) bool {
	fn := ins.Parent()
	held := false
	fw.EachInstr(fn, func(x ssa.Instruction) {
		c, ok := x.(*ssa.Call)
		if !ok {
			return
		}
		cal := c.Common().StaticCallee()
		if cal == nil {
			return
		}
		if n := cal.String(); n == "(*sync.Mutex).Lock" || n == "(*sync.RWMutex).Lock" {
			if precedesOnAllPaths(c, ins) {
				held = true
			}
		}
	})
	return held
}

// ---------------------------------------------------------------------------
// C18.once: registry resolution

func c18Once(r *fw.Run, p *fw.Program) {
	ru := r.Rule("C18.once", "Registry group resolution runs under formatResolveOnce; formatResolved is written only there; registration panics once resolved, before it writes anything; every function that reads or hands out groups calls resolveGroups() first; the Once is the registry's own (not a local copy)", 8)
	reg := p.NamedType("pkg/interp", "Registry")
	if reg == nil {
		ru.Undecided("anchor", "", "interp.Registry not found")
		return
	}
	// writers of formatResolved and of Group.Formats within pkg/interp
	for _, fn := range p.FqFunctions() {
		if pkgRel(fn) != "pkg/interp" {
			continue
		}
		fw.EachInstr(fn, func(ins ssa.Instruction) {
			st, ok := ins.(*ssa.Store)
			if !ok {
				return
			}
			fa, ok := st.Addr.(*ssa.FieldAddr)
			if !ok {
				return
			}
			fname := fieldNameOf(fa.X.Type(), fa.Field)
			owner := ""
			if pt, ok := fa.X.Type().Underlying().(*types.Pointer); ok {
				owner = shortType(pt.Elem())
			}
			switch {
			case owner == "pkg/interp.Registry" && fname == "formatResolved":
				ru.Check(insideOnceDo(fn), "write-formatResolved:"+fw.ShortFn(fn), p.Rel(st.Pos()), "inside formatResolveOnce.Do", "Registry.formatResolved written outside the sync.Once closure")
			case owner == "pkg/decode.Group" && fname == "Formats":
				okW := insideOnceDo(fn) || fn.Name() == "Format" && fn.Signature.Recv() != nil
				ru.Check(okW, "write-Group.Formats:"+fw.ShortFn(fn), p.Rel(st.Pos()), "in Registry.Format (init time) or inside the Once closure", "decode.Group.Formats written outside Registry.Format / the resolve Once closure")
			}
		})
	}
	// reads of the resolved flag: only under the Once or in the registration method; a fast path
	// `if r.formatResolved { return }` in front of the Once is an unsynchronised read racing with the Once body
	for _, fn := range p.FqFunctions() {
		if pkgRel(fn) != "pkg/interp" {
			continue
		}
		fw.EachInstr(fn, func(ins ssa.Instruction) {
			u, ok := ins.(*ssa.UnOp)
			if !ok || u.Op != token.MUL {
				return
			}
			fa, ok := u.X.(*ssa.FieldAddr)
			if !ok || fieldNameOf(fa.X.Type(), fa.Field) != "formatResolved" {
				return
			}
			if pt, ok := fa.X.Type().Underlying().(*types.Pointer); !ok || shortType(pt.Elem()) != "pkg/interp.Registry" {
				return
			}
			okR := insideOnceDo(fn) || fn.Name() == "Format" && fn.Signature.Recv() != nil
			ru.Check(okR, "read-formatResolved:"+fw.ShortFn(fn), p.Rel(u.Pos()), "inside the Once closure or in Registry.Format (registration)", "Registry.formatResolved is read outside the sync.Once closure: an unsynchronised fast path lets a goroutine use groups that another goroutine is still resolving and sorting")
		})
	}
	// in-place sort of Formats only inside Once (sortFormats callers)
	if sf := p.Fn("pkg/interp.sortFormats"); sf != nil {
		for _, fn := range p.FqFunctions() {
			for _, c := range fw.CallsIn(fn) {
				if c.Common().StaticCallee() == sf {
					ru.Check(insideOnceDo(fn), "sortFormats-call:"+fw.ShortFn(fn), p.Rel(c.Pos()), "inside the Once closure", "sortFormats (in-place sort of shared Group.Formats) called outside the resolve Once closure")
				}
			}
		}
	} else {
		ru.Undecided("anchor:sortFormats", "", "pkg/interp.sortFormats not found")
	}
	// Registry.Format refuses after resolution: a panic guarded by formatResolved true, dominating the appends
	if f := getFn(ru, p, "(*pkg/interp.Registry).Format"); f != nil {
		ok := false
		fw.EachInstr(f, func(ins ssa.Instruction) {
			pn, isP := ins.(*ssa.Panic)
			if !isP {
				return
			}
			for _, g := range fw.Guards(pn.Block()) {
				if u, isU := g.Cond.(*ssa.UnOp); isU && g.True {
					if fa, isFA := u.X.(*ssa.FieldAddr); isFA && fieldNameOf(fa.X.Type(), fa.Field) == "formatResolved" {
						ok = true
					}
				}
			}
		})
		ru.Check(ok, "Format:refuse-after-resolve", p.Rel(f.Pos()), "panics when already resolved", "Registry.Format no longer refuses registration after groups were resolved (Formats slices would change under running decodes)")
		// ... and it refuses before it touches anything: every write of the method runs on the not-resolved side of that test
		late := ""
		nw := 0
		fw.EachInstr(f, func(ins ssa.Instruction) {
			switch x := ins.(type) {
			case *ssa.Store:
				if _, isA := x.Addr.(*ssa.Alloc); isA {
					return
				}
			case *ssa.MapUpdate:
			default:
				return
			}
			nw++
			guarded := false
			for _, g := range fw.Guards(ins.Block()) {
				if u, isU := g.Cond.(*ssa.UnOp); isU && !g.True {
					if fa, isFA := u.X.(*ssa.FieldAddr); isFA && fieldNameOf(fa.X.Type(), fa.Field) == "formatResolved" {
						guarded = true
					}
				}
			}
			if !guarded && late == "" {
				late = p.Rel(ins.Pos())
			}
		})
		if ok {
			ru.Check(late == "" && nw > 0, "Format:refuse-before-write", p.Rel(f.Pos()), fmt.Sprintf("all %d writes of Registry.Format run after the already-resolved test", nw), "Registry.Format writes groups / Formats slices at "+late+" before (or without) testing that the registry is not resolved yet: the panic comes after running decodes already saw the change")
		}
	}
	// readers of r.groups (Lookup on the groups map, or ranging it) call resolveGroups first, except Format/resolveGroups themselves
	rg := p.Fn("(*pkg/interp.Registry).resolveGroups")
	if rg == nil {
		ru.Undecided("anchor:resolveGroups", "", "resolveGroups not found")
		return
	}
	for _, fn := range p.FqFunctions() {
		if pkgRel(fn) != "pkg/interp" || fn == rg || fw.Top(fn) == rg || fn.Name() == "Format" && fn.Parent() == nil || fn.Name() == "NewRegistry" {
			continue
		}
		// any load of the groups field (lookup, range, or handing the map out) is a read of resolved state
		var firstRead ssa.Instruction
		fw.EachInstr(fn, func(ins ssa.Instruction) {
			if firstRead != nil {
				return
			}
			if v, ok := ins.(ssa.Value); ok && isRegistryGroups(v) {
				firstRead = ins
			}
		})
		if firstRead == nil {
			continue
		}
		// a read inside a closure is anchored at the creation of the closure in its parent
		anchor, host := firstRead, fn
		for host.Parent() != nil {
			par := host.Parent()
			var mk ssa.Instruction
			fw.EachInstr(par, func(ins ssa.Instruction) {
				if mc, ok := ins.(*ssa.MakeClosure); ok && mc.Fn == ssa.Value(host) && mk == nil {
					mk = ins
				}
			})
			if mk == nil {
				break
			}
			anchor, host = mk, par
		}
		ok := false
		for _, c := range fw.CallsIn(host) {
			if c.Common().StaticCallee() == rg && precedesOnAllPaths(c, anchor) {
				ok = true
			}
		}
		ru.Check(ok, "reader:"+fw.ShortFn(fn), p.Rel(firstRead.Pos()), "resolveGroups() precedes the read of groups", "Registry.groups is read (or handed out) without calling resolveGroups() first: the caller sees unresolved, unsorted groups unless some other call happened to resolve them (result depends on process history; races with the resolving goroutine)")
	}
}

func isRegistryGroups(v ssa.Value) bool {
	u, ok := v.(*ssa.UnOp)
	if !ok {
		return false
	}
	fa, ok := u.X.(*ssa.FieldAddr)
	if !ok || fieldNameOf(fa.X.Type(), fa.Field) != "groups" {
		return false
	}
	if pt, ok := fa.X.Type().Underlying().(*types.Pointer); ok {
		return shortType(pt.Elem()) == "pkg/interp.Registry"
	}
	return false
}

// ---------------------------------------------------------------------------
// C18.inarg: per-format default options are never shared mutable state

func c18InArg(r *fw.Run, p *fw.Program) {
	ru := r.Rule("C18.inarg", "every DefaultInArg stored into a decode.Format / decode.Group is a plain value: not a pointer and a struct without pointer/map/slice/chan/func fields (so no decode can mutate the registered default through it)", 24)
	for _, tn := range []string{"Format", "Group"} {
		named := p.NamedType("pkg/decode", tn)
		if named == nil {
			ru.Undecided("anchor:"+tn, "", "decode."+tn+" not found")
			continue
		}
		st := named.Underlying().(*types.Struct)
		idx := -1
		for i := 0; i < st.NumFields(); i++ {
			if st.Field(i).Name() == "DefaultInArg" {
				idx = i
			}
		}
		if idx < 0 {
			ru.Undecided("anchor:"+tn+".DefaultInArg", "", "field not found")
			continue
		}
		for _, fn := range p.FqFunctions() {
			fw.EachInstr(fn, func(ins ssa.Instruction) {
				s, ok := ins.(*ssa.Store)
				if !ok || !isFieldAddrOf(s.Addr, named, idx) {
					return
				}
				mi, ok := s.Val.(*ssa.MakeInterface)
				if !ok {
					if c, isC := s.Val.(*ssa.Const); isC && c.IsNil() {
						return
					}
					ru.Undecided(tn+".DefaultInArg:"+fw.ShortFn(fn), p.Rel(s.Pos()), "DefaultInArg is not a concrete value")
					return
				}
				t := mi.X.Type()
				key := tn + ".DefaultInArg:" + shortType(t)
				if _, isPtr := t.Underlying().(*types.Pointer); isPtr {
					ru.Fail(key, p.Rel(s.Pos()), "DefaultInArg is a pointer: every decode would share (and could mutate) the same option struct")
					return
				}
				stt, isStruct := t.Underlying().(*types.Struct)
				if !isStruct {
					ru.Ok(key, p.Rel(s.Pos()), "non-struct value")
					return
				}
				bad := ""
				for i := 0; i < stt.NumFields(); i++ {
					switch stt.Field(i).Type().Underlying().(type) {
					case *types.Pointer, *types.Map, *types.Slice, *types.Chan, *types.Signature:
						if !inArgRefFieldOK[shortType(t)+"."+stt.Field(i).Name()] {
							bad = stt.Field(i).Name()
						}
					}
				}
				ru.Check(bad == "", key, p.Rel(s.Pos()), "struct value without reference-typed fields", "DefaultInArg struct has reference-typed field "+bad+" shared by all decodes")
			})
		}
	}
}

// reference-typed in-arg fields confirmed by reading: the registered default leaves them nil and
// decoders only read them (a buffer handed in per call by the parent decoder).
var inArgRefFieldOK = map[string]bool{
	"format.FLAC_Frame_In.SamplesBuf": true,
}

// ---------------------------------------------------------------------------
// C18.eval: each evaluation works on its own interpreter copy

func c18Eval(r *fw.Run, p *fw.Program) {
	ru := r.Rule("C18.eval", "Interp.Eval copies the interpreter (ci := *i) and installs a fresh EvalInstance with a new includeSeen map into the copy before use", 2)
	fn := getFn(ru, p, "(*pkg/interp.Interp).Eval")
	if fn == nil {
		return
	}
	// an Alloc of type Interp that receives a load through a *Interp (ci := *i), in Eval itself or in a helper
	// that returns the address of its copy
	cpv, helper, hcp := c18EvalCopyOf(fn)
	if !ru.Check(cpv != nil, "copy", p.Rel(fn.Pos()), "ci := *i", "Eval no longer works on a copy of the interpreter") {
		return
	}
	// a fresh map is stored into an includeSeen field of a local EvalInstance, and that instance is stored
	// into the EvalInstance field of the copy (not of the receiver)
	freshMap := false
	intoCopy := false
	scan := []*ssa.Function{fn}
	if helper != nil {
		scan = append(scan, helper)
	}
	for _, f := range scan {
		fw.EachInstr(f, func(ins ssa.Instruction) {
			st, ok := ins.(*ssa.Store)
			if !ok {
				return
			}
			fa, ok := st.Addr.(*ssa.FieldAddr)
			if !ok {
				return
			}
			switch fieldNameOf(fa.X.Type(), fa.Field) {
			case "includeSeen":
				if _, ok := st.Val.(*ssa.MakeMap); ok {
					freshMap = true
				}
			case "EvalInstance":
				tgt := localPointsTo(fa.X, 0)
				if tgt == cpv || hcp != nil && tgt == ssa.Value(hcp) {
					intoCopy = true
				}
			}
		})
	}
	ru.Check(freshMap && intoCopy, "fresh-instance", p.Rel(fn.Pos()), "new EvalInstance with a fresh includeSeen map stored into the copy", "the copied interpreter does not get a fresh EvalInstance/includeSeen (evaluations share include state), or it is installed into the receiver instead of the copy")
	// the compiled code and iterator use the copy: the closures created after the copy capture ni/ci, not i — checked indirectly:
	// gojq.WithFunction callbacks are built from ni (every call of a Registry env function passes the copy)
}

// localPointsTo follows loads of local pointer variables to the value stored in them.
func localPointsTo(v ssa.Value, depth int) ssa.Value {
	if depth > 6 {
		return v
	}
	switch x := v.(type) {
	case *ssa.UnOp:
		if a, ok := x.X.(*ssa.Alloc); ok && x.Op == token.MUL && a.Referrers() != nil {
			var stored ssa.Value
			n := 0
			for _, r := range *a.Referrers() {
				if st, ok := r.(*ssa.Store); ok && st.Addr == ssa.Value(a) {
					stored = st.Val
					n++
				}
			}
			if n == 1 {
				return localPointsTo(stored, depth+1)
			}
		}
	case *ssa.FieldAddr:
		return localPointsTo(x.X, depth+1)
	}
	return v
}

func memRootAlloc(v ssa.Value) *ssa.Alloc {
	for i := 0; i < 20; i++ {
		switch x := v.(type) {
		case *ssa.Alloc:
			return x
		case *ssa.FieldAddr:
			v = x.X
		case *ssa.Phi:
			if len(x.Edges) > 0 {
				v = x.Edges[0]
			} else {
				return nil
			}
		default:
			return nil
		}
	}
	return nil
}

// ---------------------------------------------------------------------------
// C18.buf: the shared read buffer must not escape

var bufUseExceptions = map[string]string{}

func c18Buf(r *fw.Run, p *fw.Program) {
	ru := r.Rule("C18.buf", "slices returned by D.SharedReadBuf/TryBits/Bits alias the per-decode scratch buffer: they are only read, converted or reversed in place immediately, never stored into a Value/scalar/struct field, returned from a decoder helper that keeps them, or captured - and never read again after another read helper that goes through the same scratch buffer ran", 5)
	srcs := map[string]bool{"SharedReadBuf": true, "TryBits": true, "Bits": true}
	for _, fn := range p.FqFunctions() {
		ord := 0
		for _, ci := range fw.CallsIn(fn) {
			c, ok := ci.(*ssa.Call)
			if !ok {
				continue
			}
			cal := c.Common().StaticCallee()
			if cal == nil || cal.Signature.Recv() == nil || !srcs[cal.Name()] || pkgRel(cal) != "pkg/decode" {
				continue
			}
			if rt := cal.Signature.Recv().Type().String(); !strings.HasSuffix(rt, "pkg/decode.D") {
				continue
			}
			ord++
			key := fmt.Sprintf("%s|%s|%d", fw.ShortFn(fn), cal.Name(), ord)
			var v ssa.Value = c
			if cal.Signature.Results().Len() > 1 {
				v = extractOf(c, 0)
				if v == nil {
					ru.Ok(key, p.Rel(c.Pos()), "result unused")
					continue
				}
			}
			if esc := sliceEscapes(v, fn, 0); esc != "" {
				if reason, ok := bufUseExceptions[fw.ShortFn(fn)+"|"+cal.Name()]; ok {
					ru.Except(key, p.Rel(c.Pos()), reason)
				} else {
					ru.Fail(key, p.Rel(c.Pos()), "slice aliasing the shared read buffer "+esc+": the next read overwrites it")
				}
			} else if stale := c18StaleUse(p, fn, c, v); stale != "" {
				ru.Fail(key, p.Rel(c.Pos()), "slice aliasing the shared read buffer "+stale+": its bytes now belong to the later read")
			} else {
				ru.Ok(key, p.Rel(c.Pos()), "used immediately (read/convert/copy) only, dead before the next read through the scratch buffer")
			}
		}
	}
}

// sliceEscapes follows the uses of a slice value; returns a description if it is stored or escapes.
func sliceEscapes(v ssa.Value, fn *ssa.Function, depth int) string {
	if v.Referrers() == nil || depth > 6 {
		return ""
	}
	var refs []ssa.Instruction
	refs = append(refs, *v.Referrers()...)
	sort.Slice(refs, func(i, j int) bool { return refs[i].Pos() < refs[j].Pos() })
	for _, ref := range refs {
		switch x := ref.(type) {
		case *ssa.DebugRef, *ssa.IndexAddr, *ssa.Index, *ssa.Lookup:
			// element reads (IndexAddr could be written through, which only touches the scratch buffer)
		case *ssa.Slice:
			if s := sliceEscapes(x, fn, depth+1); s != "" {
				return s
			}
		case *ssa.Convert:
			// string(b) copies
		case *ssa.ChangeType:
			if s := sliceEscapes(x, fn, depth+1); s != "" {
				return s
			}
		case *ssa.Phi:
			if s := sliceEscapes(x, fn, depth+1); s != "" {
				return s
			}
		case *ssa.Extract:
		case *ssa.Store:
			if x.Val == v {
				if a, ok := x.Addr.(*ssa.Alloc); ok && !a.Heap {
					continue
				}
				return "is stored to memory (" + x.Addr.String() + ")"
			}
		case *ssa.MakeInterface:
			return "is boxed into an interface value"
		case *ssa.MakeClosure:
			return "is captured by a closure"
		case *ssa.Return:
			// returning it is fine only from the accessor functions themselves
			if fn.Name() == "TryBits" || fn.Name() == "Bits" || fn.Name() == "SharedReadBuf" {
				continue
			}
			return "is returned to the caller"
		case *ssa.MapUpdate:
			return "is stored into a map"
		case *ssa.Send:
			return "is sent on a channel"
		case ssa.CallInstruction:
			cc := x.Common()
			if b, ok := cc.Value.(*ssa.Builtin); ok {
				switch b.Name() {
				case "len", "cap", "copy", "print", "println":
					continue
				case "append":
					// append(dst, buf...) copies when buf is the variadic source; append(buf, ...) would alias
					if len(cc.Args) > 0 && cc.Args[0] == v {
						return "is used as append destination"
					}
					continue
				}
			}
			callee := cc.StaticCallee()
			name := ""
			if callee != nil {
				name = callee.String()
			}
			if readOnlyConsumers[name] || strings.HasPrefix(name, "(encoding/binary.") || strings.HasPrefix(name, "encoding/binary.") ||
				strings.HasPrefix(name, "math/big.") || strings.HasPrefix(name, "(*math/big.") || strings.HasPrefix(name, "bytes.") || strings.HasPrefix(name, "unicode/utf8.") {
				continue
			}
			if callee != nil && fw.InFq(callee) {
				// does the fq callee keep it? follow the parameter
				for i, a := range cc.Args {
					if a == v && i < len(callee.Params) {
						if s := sliceEscapes(callee.Params[i], callee, depth+1); s != "" {
							return "is passed to " + fw.ShortFn(callee) + " where it " + s
						}
					}
				}
				continue
			}
			if cc.IsInvoke() {
				// hash.Write, io.Writer.Write, bitio readers: consume immediately
				switch cc.Method.Name() {
				case "Write", "ReadBitsAt", "ReadBits", "WriteBits", "Sum":
					continue
				}
			}
			return "is passed to " + name + " (unknown retention)"
		}
	}
	return ""
}

var readOnlyConsumers = map[string]bool{
	fw.Mod + "/pkg/bitio.Read64":        true,
	fw.Mod + "/pkg/bitio.Write64":       true,
	fw.Mod + "/pkg/bitio.ReadFull":      true,
	fw.Mod + "/pkg/bitio.ReadAtFull":    true,
	fw.Mod + "/pkg/decode.ReverseBytes": true,
	"(*math/big.Int).SetBytes":          true,
	"io.ReadFull":                       true,
	"io.CopyBuffer":                     true, // scratch buffer used only during the call
}
