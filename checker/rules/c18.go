package rules

import (
	"fmt"
	"go/token"
	"go/types"
	"sort"
	"strings"

	"golang.org/x/tools/go/ssa"

	"fqverif/fw"
)

func init() { Register("C18", runC18) }

func runC18(r *fw.Run, p *fw.Program) {
	c18Globals(r, p)
	c18Once(r, p)
	c18InArg(r, p)
	c18Eval(r, p)
	c18Buf(r, p)
	c18Lazy(r, p)
	c18CacheKey(r, p)
	c18Shared(r, p)
	c18Stateful(r, p)
	c18Mapper(r, p)
	// per-input jq state: the input file name is reset before each open (shared with C17.inputs)
	c17InputFilenameResetAs(r, p, "C18.inputstate")
}

// ---------------------------------------------------------------------------
// C18.globals

// memRoot follows an address/value back to the memory it designates: a package-level variable,
// a parameter, a free variable, or nil for fresh/unknown memory. Loads of pointer fields keep the
// root (memory reachable from the root).
func memRoot(v ssa.Value) ssa.Value {
	return memRootSeen(v, map[ssa.Value]bool{})
}

func memRootSeen(v ssa.Value, seen map[ssa.Value]bool) ssa.Value {
	for i := 0; i < 40; i++ {
		if seen[v] {
			return nil
		}
		seen[v] = true
		switch x := v.(type) {
		case *ssa.Global, *ssa.Parameter, *ssa.FreeVar:
			return v
		case *ssa.FieldAddr:
			v = x.X
		case *ssa.IndexAddr:
			v = x.X
		case *ssa.Field:
			v = x.X
		case *ssa.Index:
			v = x.X
		case *ssa.Slice:
			v = x.X
		case *ssa.ChangeType:
			v = x.X
		case *ssa.Convert:
			v = x.X
		case *ssa.UnOp:
			if x.Op != token.MUL {
				return nil
			}
			v = x.X
		case *ssa.Lookup:
			v = x.X
		case *ssa.Phi:
			for _, e := range x.Edges {
				if r := memRootSeen(e, seen); r != nil {
					return r
				}
			}
			return nil
		default:
			return nil
		}
	}
	return nil
}

func isFqGlobal(v ssa.Value) *ssa.Global {
	g, ok := v.(*ssa.Global)
	if !ok || g.Pkg == nil || !strings.HasPrefix(g.Pkg.Pkg.Path(), fw.Mod) {
		return nil
	}
	return g
}

func refLike(t types.Type) bool {
	switch t.Underlying().(type) {
	case *types.Pointer, *types.Map, *types.Slice, *types.Interface, *types.Signature, *types.Chan:
		return true
	}
	return false
}

// stdlib functions that mutate the memory of their first argument
var stdMutators = map[string]int{
	"sort.Slice": 0, "sort.SliceStable": 0, "sort.Sort": 0, "sort.Stable": 0, "sort.Strings": 0, "sort.Ints": 0, "sort.Float64s": 0,
	"slices.Sort": 0, "slices.SortFunc": 0, "slices.SortStableFunc": 0, "slices.Reverse": 0,
	"math/rand.Shuffle": -1,
	"encoding/json.Unmarshal": 1, "encoding/binary.Read": 2,
}

// write is one instruction that writes memory designated by `target`.
type memWrite struct {
	ins    ssa.Instruction
	target ssa.Value
	what   string
}

// writesIn lists the memory writes of one function body (not closures).
func writesIn(fn *ssa.Function, summ map[*ssa.Function]map[int]bool) []memWrite {
	var out []memWrite
	fw.EachInstr(fn, func(ins ssa.Instruction) {
		switch x := ins.(type) {
		case *ssa.Store:
			// a store into a local Alloc is not a shared write
			if _, ok := x.Addr.(*ssa.Alloc); ok {
				return
			}
			out = append(out, memWrite{ins, x.Addr, "store"})
		case *ssa.MapUpdate:
			out = append(out, memWrite{ins, x.Map, "map update"})
		case ssa.CallInstruction:
			cc := x.Common()
			if b, ok := cc.Value.(*ssa.Builtin); ok {
				switch b.Name() {
				case "delete", "clear":
					out = append(out, memWrite{ins, cc.Args[0], b.Name()})
				case "copy":
					out = append(out, memWrite{ins, cc.Args[0], "copy into"})
				}
				return
			}
			callee := cc.StaticCallee()
			if callee == nil {
				return
			}
			name := callee.String()
			if o := callee.Origin(); o != nil {
				name = o.String()
			}
			if i, ok := stdMutators[name]; ok && i >= 0 && i < len(cc.Args) {
				out = append(out, memWrite{ins, cc.Args[i], "in-place " + name})
				return
			}
			if m := summ[callee]; m != nil {
				for i := range m {
					if i < len(cc.Args) {
						out = append(out, memWrite{ins, cc.Args[i], "passed to mutating parameter of " + fw.ShortFn(callee)})
					}
				}
			}
		case *ssa.MakeClosure:
			// bindings captured by a closure that mutates its free variable
			cl := x.Fn.(*ssa.Function)
			if m := summ[cl]; m != nil {
				for i := range m {
					k := i - 1000
					if k >= 0 && k < len(x.Bindings) {
						out = append(out, memWrite{ins, x.Bindings[k], "captured by mutating closure " + fw.ShortFn(cl)})
					}
				}
			}
		}
	})
	return out
}

// mutationSummaries: for each fq function, the indices of parameters (and 1000+k for free
// variables) through which it may write. Fixed point over static calls and closures.
func mutationSummaries(p *fw.Program) map[*ssa.Function]map[int]bool {
	return mutationSummariesWith(p, memRoot)
}

// mutationSummariesWith is mutationSummaries with a caller-chosen notion of "the memory an address designates".
func mutationSummariesWith(p *fw.Program, memRoot func(ssa.Value) ssa.Value) map[*ssa.Function]map[int]bool {
	summ := map[*ssa.Function]map[int]bool{}
	fns := p.FqFunctions()
	for changed := true; changed; {
		changed = false
		for _, fn := range fns {
			for _, w := range writesIn(fn, summ) {
				root := memRoot(w.target)
				idx := -1
				switch x := root.(type) {
				case *ssa.Parameter:
					for i, pa := range fn.Params {
						if pa == x {
							idx = i
						}
					}
					// a store directly to the parameter's own (by-value) struct fields is local
					if idx >= 0 && !refLike(x.Type()) {
						idx = -1
					}
					// a Store whose address IS derived from a by-value param cannot happen in SSA (params are values)
				case *ssa.FreeVar:
					for i, fv := range fn.FreeVars {
						if fv == x {
							idx = 1000 + i
						}
					}
				}
				if idx < 0 {
					continue
				}
				if summ[fn] == nil {
					summ[fn] = map[int]bool{}
				}
				if !summ[fn][idx] {
					summ[fn][idx] = true
					changed = true
				}
			}
		}
	}
	return summ
}

// isInitContext: package initialisation (the synthetic package init and declared init functions),
// including closures only when they are invoked directly by that initialiser.
func isInitContext(fn *ssa.Function) bool {
	if fn.Parent() != nil {
		return false
	}
	return fn.Name() == "init" || strings.HasPrefix(fn.Name(), "init#")
}

// globalsExceptions: (function|global) pairs that write package-level state outside init, each
// recognised structurally where possible; this table is for the remainder.
var globalsExceptions = map[string]string{}

func c18Globals(r *fw.Run, p *fw.Program) {
	ru := r.Rule("C18.globals", "no package-level variable of the fq module is written (store, map update, delete, in-place sort/copy, or through a mutating parameter/closure) outside package initialisation, except under sync.Once / the owner's mutex / init-only registrars", 100)
	summ := mutationSummaries(p)
	nGlobals := 0
	for _, pk := range p.Roots {
		sp := p.SSA.Package(pk.Types)
		if sp == nil {
			continue
		}
		for _, m := range sp.Members {
			if _, ok := m.(*ssa.Global); ok {
				nGlobals++
			}
		}
	}
	r.Notes["package_level_variables"] = nGlobals
	nPairs := 0
	for _, m := range summ {
		nPairs += len(m)
	}
	r.Notes["mutating_function_parameter_pairs"] = nPairs

	initOnly := initOnlyFunctions(p)
	checked := 0
	for _, fn := range p.FqFunctions() {
		if fn.TypeParams().Len() > 0 && len(fn.TypeArgs()) == 0 {
			continue // uninstantiated generic body is never executed; its instances are analysed
		}
		ws := writesIn(fn, summ)
		ord := map[string]int{}
		for _, w := range ws {
			g := isFqGlobal(memRoot(w.target))
			if g == nil {
				continue
			}
			checked++
			gname := strings.TrimPrefix(g.Pkg.Pkg.Path(), fw.Mod+"/") + "." + g.Name()
			base := fw.ShortFn(fn) + "|" + gname
			ord[base]++
			key := fmt.Sprintf("%s|%d", base, ord[base])
			pos := p.Rel(w.ins.Pos())
			switch {
			case isInitContext(fn):
				ru.Ok(key, pos, "package initialisation")
			case initOnly[fw.Top(fn)] && fn.Parent() == nil:
				ru.Ok(key, pos, "registrar reachable only from package init functions (who-may-call checked)")
			case insideOnceDo(fn):
				ru.Ok(key, pos, "inside a closure passed to (*sync.Once).Do")
			case holdsOwnMutex(w.ins):
				ru.Ok(key, pos, "under the receiver's own mutex")
			case calleeLocksReceiver(w.ins, summ):
				ru.Ok(key, pos, "callee performs every write through this argument while holding the argument's own mutex")
			default:
				if reason, ok := globalsExceptions[base]; ok {
					ru.Except(key, pos, reason)
				} else {
					ru.Fail(key, pos, fmt.Sprintf("%s of package-level variable %s outside package initialisation (%s): shared mutable state between decodes", w.what, gname, fw.ShortFn(fn)))
				}
			}
		}
	}
	ru.Ok("scan", "", fmt.Sprintf("%d package-level variables, %d writes to them examined, %d mutating (function,parameter) summaries", nGlobals, checked, nPairs))
}

// initOnlyFunctions: fq functions all of whose (static) callers are package init functions or
// other init-only functions, and whose address is never taken.
func initOnlyFunctions(p *fw.Program) map[*ssa.Function]bool {
	callers := map[*ssa.Function][]*ssa.Function{}
	addrTaken := map[*ssa.Function]bool{}
	for _, fn := range p.FqFunctions() {
		fw.EachInstr(fn, func(ins ssa.Instruction) {
			var ops []*ssa.Value
			ops = ins.Operands(ops)
			var callee *ssa.Function
			if c, ok := ins.(ssa.CallInstruction); ok {
				callee = c.Common().StaticCallee()
				if callee != nil {
					if o := callee.Origin(); o != nil {
						callers[o] = append(callers[o], fn)
					}
					callers[callee] = append(callers[callee], fn)
				}
			}
			for _, op := range ops {
				if op == nil || *op == nil {
					continue
				}
				if f, ok := (*op).(*ssa.Function); ok {
					if c, isCall := ins.(ssa.CallInstruction); isCall && c.Common().Value == *op {
						continue
					}
					addrTaken[f] = true
				}
			}
		})
	}
	res := map[*ssa.Function]bool{}
	for changed := true; changed; {
		changed = false
		for _, fn := range p.FqFunctions() {
			if res[fn] || fn.Parent() != nil || addrTaken[fn] || isInitContext(fn) {
				continue
			}
			cs := callers[fn]
			if len(cs) == 0 {
				continue
			}
			ok := true
			for _, c := range cs {
				if !(isInitContext(c) || res[c]) {
					ok = false
				}
			}
			if ok {
				res[fn] = true
				changed = true
			}
		}
	}
	return res
}

// insideOnceDo: fn is a closure passed to (*sync.Once).Do.
func insideOnceDo(fn *ssa.Function) bool {
	par := fn.Parent()
	if par == nil {
		return false
	}
	found := false
	fw.EachInstr(par, func(ins ssa.Instruction) {
		if c, ok := ins.(ssa.CallInstruction); ok {
			if cal := c.Common().StaticCallee(); cal != nil && cal.String() == "(*sync.Once).Do" && len(c.Common().Args) == 2 && c.Common().Args[1] == ssa.Value(fn) {
				found = true
			}
		}
		mc, ok := ins.(*ssa.MakeClosure)
		if !ok || mc.Fn != fn || mc.Referrers() == nil {
			return
		}
		for _, ref := range *mc.Referrers() {
			if c, ok := ref.(ssa.CallInstruction); ok {
				if cal := c.Common().StaticCallee(); cal != nil && cal.String() == "(*sync.Once).Do" {
					found = true
				}
			}
		}
	})
	return found
}

// calleeLocksReceiver: the write is a call passing the global as receiver to a method all of whose
// writes through the receiver are dominated by a Lock of a mutex (lazyre idiom).
func calleeLocksReceiver(ins ssa.Instruction, summ map[*ssa.Function]map[int]bool) bool {
	c, ok := ins.(ssa.CallInstruction)
	if !ok {
		return false
	}
	callee := c.Common().StaticCallee()
	if callee == nil || callee.Signature.Recv() == nil || !fw.InFq(callee) {
		return false
	}
	n := 0
	for _, w := range writesIn(callee, summ) {
		if p, ok := memRoot(w.target).(*ssa.Parameter); ok && len(callee.Params) > 0 && p == callee.Params[0] {
			n++
			if !holdsOwnMutex(w.ins) {
				return false
			}
		}
	}
	return n > 0
}

// holdsOwnMutex: the instruction is dominated by a (*sync.Mutex).Lock / RWMutex.Lock call in the same function.
func holdsOwnMutex(ins ssa.Instruction) bool {
	fn := ins.Parent()
	held := false
	fw.EachInstr(fn, func(x ssa.Instruction) {
		c, ok := x.(*ssa.Call)
		if !ok {
			return
		}
		cal := c.Common().StaticCallee()
		if cal == nil {
			return
		}
		if n := cal.String(); n == "(*sync.Mutex).Lock" || n == "(*sync.RWMutex).Lock" {
			if precedesOnAllPaths(c, ins) {
				held = true
			}
		}
	})
	return held
}

// ---------------------------------------------------------------------------
// C18.once: registry resolution

func c18Once(r *fw.Run, p *fw.Program) {
	ru := r.Rule("C18.once", "Registry group resolution runs under formatResolveOnce; formatResolved is written only there; registration panics once resolved; every reader of groups resolves first", 5)
	reg := p.NamedType("pkg/interp", "Registry")
	if reg == nil {
		ru.Undecided("anchor", "", "interp.Registry not found")
		return
	}
	// writers of formatResolved and of Group.Formats within pkg/interp
	for _, fn := range p.FqFunctions() {
		if pkgRel(fn) != "pkg/interp" {
			continue
		}
		fw.EachInstr(fn, func(ins ssa.Instruction) {
			st, ok := ins.(*ssa.Store)
			if !ok {
				return
			}
			fa, ok := st.Addr.(*ssa.FieldAddr)
			if !ok {
				return
			}
			fname := fieldNameOf(fa.X.Type(), fa.Field)
			owner := ""
			if pt, ok := fa.X.Type().Underlying().(*types.Pointer); ok {
				owner = shortType(pt.Elem())
			}
			switch {
			case owner == "pkg/interp.Registry" && fname == "formatResolved":
				ru.Check(insideOnceDo(fn), "write-formatResolved:"+fw.ShortFn(fn), p.Rel(st.Pos()), "inside formatResolveOnce.Do", "Registry.formatResolved written outside the sync.Once closure")
			case owner == "pkg/decode.Group" && fname == "Formats":
				okW := insideOnceDo(fn) || fn.Name() == "Format" && fn.Signature.Recv() != nil
				ru.Check(okW, "write-Group.Formats:"+fw.ShortFn(fn), p.Rel(st.Pos()), "in Registry.Format (init time) or inside the Once closure", "decode.Group.Formats written outside Registry.Format / the resolve Once closure")
			}
		})
	}
	// reads of the resolved flag: only under the Once or in the registration method; a fast path
	// `if r.formatResolved { return }` in front of the Once is an unsynchronised read racing with the Once body
	for _, fn := range p.FqFunctions() {
		if pkgRel(fn) != "pkg/interp" {
			continue
		}
		fw.EachInstr(fn, func(ins ssa.Instruction) {
			u, ok := ins.(*ssa.UnOp)
			if !ok || u.Op != token.MUL {
				return
			}
			fa, ok := u.X.(*ssa.FieldAddr)
			if !ok || fieldNameOf(fa.X.Type(), fa.Field) != "formatResolved" {
				return
			}
			if pt, ok := fa.X.Type().Underlying().(*types.Pointer); !ok || shortType(pt.Elem()) != "pkg/interp.Registry" {
				return
			}
			okR := insideOnceDo(fn) || fn.Name() == "Format" && fn.Signature.Recv() != nil
			ru.Check(okR, "read-formatResolved:"+fw.ShortFn(fn), p.Rel(u.Pos()), "inside the Once closure or in Registry.Format (registration)", "Registry.formatResolved is read outside the sync.Once closure: an unsynchronised fast path lets a goroutine use groups that another goroutine is still resolving and sorting")
		})
	}
	// in-place sort of Formats only inside Once (sortFormats callers)
	if sf := p.Fn("pkg/interp.sortFormats"); sf != nil {
		for _, fn := range p.FqFunctions() {
			for _, c := range fw.CallsIn(fn) {
				if c.Common().StaticCallee() == sf {
					ru.Check(insideOnceDo(fn), "sortFormats-call:"+fw.ShortFn(fn), p.Rel(c.Pos()), "inside the Once closure", "sortFormats (in-place sort of shared Group.Formats) called outside the resolve Once closure")
				}
			}
		}
	} else {
		ru.Undecided("anchor:sortFormats", "", "pkg/interp.sortFormats not found")
	}
	// Registry.Format refuses after resolution: a panic guarded by formatResolved true, dominating the appends
	if f := getFn(ru, p, "(*pkg/interp.Registry).Format"); f != nil {
		ok := false
		fw.EachInstr(f, func(ins ssa.Instruction) {
			pn, isP := ins.(*ssa.Panic)
			if !isP {
				return
			}
			for _, g := range fw.Guards(pn.Block()) {
				if u, isU := g.Cond.(*ssa.UnOp); isU && g.True {
					if fa, isFA := u.X.(*ssa.FieldAddr); isFA && fieldNameOf(fa.X.Type(), fa.Field) == "formatResolved" {
						ok = true
					}
				}
			}
		})
		ru.Check(ok, "Format:refuse-after-resolve", p.Rel(f.Pos()), "panics when already resolved", "Registry.Format no longer refuses registration after groups were resolved (Formats slices would change under running decodes)")
	}
	// readers of r.groups (Lookup on the groups map, or ranging it) call resolveGroups first, except Format/resolveGroups themselves
	rg := p.Fn("(*pkg/interp.Registry).resolveGroups")
	if rg == nil {
		ru.Undecided("anchor:resolveGroups", "", "resolveGroups not found")
		return
	}
	for _, fn := range p.FqFunctions() {
		if pkgRel(fn) != "pkg/interp" || fn.Parent() != nil || fn == rg || fn.Name() == "Format" || fn.Name() == "NewRegistry" {
			continue
		}
		var firstRead ssa.Instruction
		fw.EachInstr(fn, func(ins ssa.Instruction) {
			if firstRead != nil {
				return
			}
			switch x := ins.(type) {
			case *ssa.Lookup:
				if isRegistryGroups(x.X) {
					firstRead = ins
				}
			case *ssa.Range:
				if isRegistryGroups(x.X) {
					firstRead = ins
				}
			}
		})
		if firstRead == nil {
			continue
		}
		ok := false
		for _, c := range fw.CallsIn(fn) {
			if c.Common().StaticCallee() == rg && precedesOnAllPaths(c, firstRead) {
				ok = true
			}
		}
		ru.Check(ok, "reader:"+fw.ShortFn(fn), p.Rel(firstRead.Pos()), "resolveGroups() precedes the read of groups", "Registry.groups is read without calling resolveGroups() first")
	}
}

func isRegistryGroups(v ssa.Value) bool {
	u, ok := v.(*ssa.UnOp)
	if !ok {
		return false
	}
	fa, ok := u.X.(*ssa.FieldAddr)
	if !ok || fieldNameOf(fa.X.Type(), fa.Field) != "groups" {
		return false
	}
	if pt, ok := fa.X.Type().Underlying().(*types.Pointer); ok {
		return shortType(pt.Elem()) == "pkg/interp.Registry"
	}
	return false
}

// ---------------------------------------------------------------------------
// C18.inarg: per-format default options are never shared mutable state

func c18InArg(r *fw.Run, p *fw.Program) {
	ru := r.Rule("C18.inarg", "every DefaultInArg stored into a decode.Format / decode.Group is a plain value: not a pointer and a struct without pointer/map/slice/chan/func fields (so no decode can mutate the registered default through it)", 24)
	for _, tn := range []string{"Format", "Group"} {
		named := p.NamedType("pkg/decode", tn)
		if named == nil {
			ru.Undecided("anchor:"+tn, "", "decode."+tn+" not found")
			continue
		}
		st := named.Underlying().(*types.Struct)
		idx := -1
		for i := 0; i < st.NumFields(); i++ {
			if st.Field(i).Name() == "DefaultInArg" {
				idx = i
			}
		}
		if idx < 0 {
			ru.Undecided("anchor:"+tn+".DefaultInArg", "", "field not found")
			continue
		}
		for _, fn := range p.FqFunctions() {
			fw.EachInstr(fn, func(ins ssa.Instruction) {
				s, ok := ins.(*ssa.Store)
				if !ok || !isFieldAddrOf(s.Addr, named, idx) {
					return
				}
				mi, ok := s.Val.(*ssa.MakeInterface)
				if !ok {
					if c, isC := s.Val.(*ssa.Const); isC && c.IsNil() {
						return
					}
					ru.Undecided(tn+".DefaultInArg:"+fw.ShortFn(fn), p.Rel(s.Pos()), "DefaultInArg is not a concrete value")
					return
				}
				t := mi.X.Type()
				key := tn + ".DefaultInArg:" + shortType(t)
				if _, isPtr := t.Underlying().(*types.Pointer); isPtr {
					ru.Fail(key, p.Rel(s.Pos()), "DefaultInArg is a pointer: every decode would share (and could mutate) the same option struct")
					return
				}
				stt, isStruct := t.Underlying().(*types.Struct)
				if !isStruct {
					ru.Ok(key, p.Rel(s.Pos()), "non-struct value")
					return
				}
				bad := ""
				for i := 0; i < stt.NumFields(); i++ {
					switch stt.Field(i).Type().Underlying().(type) {
					case *types.Pointer, *types.Map, *types.Slice, *types.Chan, *types.Signature:
						if !inArgRefFieldOK[shortType(t)+"."+stt.Field(i).Name()] {
							bad = stt.Field(i).Name()
						}
					}
				}
				ru.Check(bad == "", key, p.Rel(s.Pos()), "struct value without reference-typed fields", "DefaultInArg struct has reference-typed field "+bad+" shared by all decodes")
			})
		}
	}
}

// reference-typed in-arg fields confirmed by reading: the registered default leaves them nil and
// decoders only read them (a buffer handed in per call by the parent decoder).
var inArgRefFieldOK = map[string]bool{
	"format.FLAC_Frame_In.SamplesBuf": true,
}

// ---------------------------------------------------------------------------
// C18.eval: each evaluation works on its own interpreter copy

func c18Eval(r *fw.Run, p *fw.Program) {
	ru := r.Rule("C18.eval", "Interp.Eval copies the interpreter (ci := *i) and installs a fresh EvalInstance with a new includeSeen map into the copy before use", 2)
	fn := getFn(ru, p, "(*pkg/interp.Interp).Eval")
	if fn == nil {
		return
	}
	// an Alloc of type Interp that receives a load through a *Interp (ci := *i)
	var cp *ssa.Alloc
	fw.EachInstr(fn, func(ins ssa.Instruction) {
		st, ok := ins.(*ssa.Store)
		if !ok {
			return
		}
		a, ok := st.Addr.(*ssa.Alloc)
		if !ok || shortType(a.Type()) != "*pkg/interp.Interp" {
			return
		}
		if u, ok := st.Val.(*ssa.UnOp); ok && u.Op == token.MUL && shortType(u.X.Type()) == "*pkg/interp.Interp" {
			cp = a
		}
	})
	if !ru.Check(cp != nil, "copy", p.Rel(fn.Pos()), "ci := *i", "Eval no longer works on a copy of the interpreter") {
		return
	}
	// a fresh map is stored into an includeSeen field of a local EvalInstance, and that instance is stored
	// into the EvalInstance field of the copy (not of the receiver)
	freshMap := false
	intoCopy := false
	fw.EachInstr(fn, func(ins ssa.Instruction) {
		st, ok := ins.(*ssa.Store)
		if !ok {
			return
		}
		fa, ok := st.Addr.(*ssa.FieldAddr)
		if !ok {
			return
		}
		switch fieldNameOf(fa.X.Type(), fa.Field) {
		case "includeSeen":
			if _, ok := st.Val.(*ssa.MakeMap); ok {
				freshMap = true
			}
		case "EvalInstance":
			if localPointsTo(fa.X, 0) == ssa.Value(cp) {
				intoCopy = true
			}
		}
	})
	ru.Check(freshMap && intoCopy, "fresh-instance", p.Rel(fn.Pos()), "new EvalInstance with a fresh includeSeen map stored into the copy", "the copied interpreter does not get a fresh EvalInstance/includeSeen (evaluations share include state), or it is installed into the receiver instead of the copy")
	// the compiled code and iterator use the copy: the closures created after the copy capture ni/ci, not i — checked indirectly:
	// gojq.WithFunction callbacks are built from ni (every call of a Registry env function passes the copy)
}

// localPointsTo follows loads of local pointer variables to the value stored in them.
func localPointsTo(v ssa.Value, depth int) ssa.Value {
	if depth > 6 {
		return v
	}
	switch x := v.(type) {
	case *ssa.UnOp:
		if a, ok := x.X.(*ssa.Alloc); ok && x.Op == token.MUL && a.Referrers() != nil {
			var stored ssa.Value
			n := 0
			for _, r := range *a.Referrers() {
				if st, ok := r.(*ssa.Store); ok && st.Addr == ssa.Value(a) {
					stored = st.Val
					n++
				}
			}
			if n == 1 {
				return localPointsTo(stored, depth+1)
			}
		}
	case *ssa.FieldAddr:
		return localPointsTo(x.X, depth+1)
	}
	return v
}

func memRootAlloc(v ssa.Value) *ssa.Alloc {
	for i := 0; i < 20; i++ {
		switch x := v.(type) {
		case *ssa.Alloc:
			return x
		case *ssa.FieldAddr:
			v = x.X
		case *ssa.Phi:
			if len(x.Edges) > 0 {
				v = x.Edges[0]
			} else {
				return nil
			}
		default:
			return nil
		}
	}
	return nil
}

// ---------------------------------------------------------------------------
// C18.buf: the shared read buffer must not escape

var bufUseExceptions = map[string]string{}

func c18Buf(r *fw.Run, p *fw.Program) {
	ru := r.Rule("C18.buf", "slices returned by D.SharedReadBuf/TryBits/Bits alias the per-decode scratch buffer: they are only read, converted or reversed in place immediately, never stored into a Value/scalar/struct field, returned from a decoder helper that keeps them, or captured", 5)
	srcs := map[string]bool{"SharedReadBuf": true, "TryBits": true, "Bits": true}
	for _, fn := range p.FqFunctions() {
		ord := 0
		for _, ci := range fw.CallsIn(fn) {
			c, ok := ci.(*ssa.Call)
			if !ok {
				continue
			}
			cal := c.Common().StaticCallee()
			if cal == nil || cal.Signature.Recv() == nil || !srcs[cal.Name()] || pkgRel(cal) != "pkg/decode" {
				continue
			}
			if rt := cal.Signature.Recv().Type().String(); !strings.HasSuffix(rt, "pkg/decode.D") {
				continue
			}
			ord++
			key := fmt.Sprintf("%s|%s|%d", fw.ShortFn(fn), cal.Name(), ord)
			var v ssa.Value = c
			if cal.Signature.Results().Len() > 1 {
				v = extractOf(c, 0)
				if v == nil {
					ru.Ok(key, p.Rel(c.Pos()), "result unused")
					continue
				}
			}
			if esc := sliceEscapes(v, fn, 0); esc != "" {
				if reason, ok := bufUseExceptions[fw.ShortFn(fn)+"|"+cal.Name()]; ok {
					ru.Except(key, p.Rel(c.Pos()), reason)
				} else {
					ru.Fail(key, p.Rel(c.Pos()), "slice aliasing the shared read buffer "+esc+": the next read overwrites it")
				}
			} else {
				ru.Ok(key, p.Rel(c.Pos()), "used immediately (read/convert/copy) only")
			}
		}
	}
}

// sliceEscapes follows the uses of a slice value; returns a description if it is stored or escapes.
func sliceEscapes(v ssa.Value, fn *ssa.Function, depth int) string {
	if v.Referrers() == nil || depth > 6 {
		return ""
	}
	var refs []ssa.Instruction
	refs = append(refs, *v.Referrers()...)
	sort.Slice(refs, func(i, j int) bool { return refs[i].Pos() < refs[j].Pos() })
	for _, ref := range refs {
		switch x := ref.(type) {
		case *ssa.DebugRef, *ssa.IndexAddr, *ssa.Index, *ssa.Lookup:
			// element reads (IndexAddr could be written through, which only touches the scratch buffer)
		case *ssa.Slice:
			if s := sliceEscapes(x, fn, depth+1); s != "" {
				return s
			}
		case *ssa.Convert:
			// string(b) copies
		case *ssa.ChangeType:
			if s := sliceEscapes(x, fn, depth+1); s != "" {
				return s
			}
		case *ssa.Phi:
			if s := sliceEscapes(x, fn, depth+1); s != "" {
				return s
			}
		case *ssa.Extract:
		case *ssa.Store:
			if x.Val == v {
				if a, ok := x.Addr.(*ssa.Alloc); ok && !a.Heap {
					continue
				}
				return "is stored to memory (" + x.Addr.String() + ")"
			}
		case *ssa.MakeInterface:
			return "is boxed into an interface value"
		case *ssa.MakeClosure:
			return "is captured by a closure"
		case *ssa.Return:
			// returning it is fine only from the accessor functions themselves
			if fn.Name() == "TryBits" || fn.Name() == "Bits" || fn.Name() == "SharedReadBuf" {
				continue
			}
			return "is returned to the caller"
		case *ssa.MapUpdate:
			return "is stored into a map"
		case *ssa.Send:
			return "is sent on a channel"
		case ssa.CallInstruction:
			cc := x.Common()
			if b, ok := cc.Value.(*ssa.Builtin); ok {
				switch b.Name() {
				case "len", "cap", "copy", "print", "println":
					continue
				case "append":
					// append(dst, buf...) copies when buf is the variadic source; append(buf, ...) would alias
					if len(cc.Args) > 0 && cc.Args[0] == v {
						return "is used as append destination"
					}
					continue
				}
			}
			callee := cc.StaticCallee()
			name := ""
			if callee != nil {
				name = callee.String()
			}
			if readOnlyConsumers[name] || strings.HasPrefix(name, "(encoding/binary.") || strings.HasPrefix(name, "encoding/binary.") ||
				strings.HasPrefix(name, "math/big.") || strings.HasPrefix(name, "(*math/big.") || strings.HasPrefix(name, "bytes.") || strings.HasPrefix(name, "unicode/utf8.") {
				continue
			}
			if callee != nil && fw.InFq(callee) {
				// does the fq callee keep it? follow the parameter
				for i, a := range cc.Args {
					if a == v && i < len(callee.Params) {
						if s := sliceEscapes(callee.Params[i], callee, depth+1); s != "" {
							return "is passed to " + fw.ShortFn(callee) + " where it " + s
						}
					}
				}
				continue
			}
			if cc.IsInvoke() {
				// hash.Write, io.Writer.Write, bitio readers: consume immediately
				switch cc.Method.Name() {
				case "Write", "ReadBitsAt", "ReadBits", "WriteBits", "Sum":
					continue
				}
			}
			return "is passed to " + name + " (unknown retention)"
		}
	}
	return ""
}

var readOnlyConsumers = map[string]bool{
	fw.Mod + "/pkg/bitio.Read64":      true,
	fw.Mod + "/pkg/bitio.Write64":     true,
	fw.Mod + "/pkg/bitio.ReadFull":    true,
	fw.Mod + "/pkg/bitio.ReadAtFull":  true,
	fw.Mod + "/pkg/decode.ReverseBytes": true,
	"(*math/big.Int).SetBytes":         true,
	"io.ReadFull":                      true,
	"io.CopyBuffer":                    true, // scratch buffer used only during the call
}
