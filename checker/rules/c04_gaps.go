package rules

// C04 rules about pkg/ranges.Gaps: sort, merge predicate, run bookkeeping, complement emission.

import (
	"fmt"
	"go/token"
	"go/types"
	"regexp"
	"sort"
	"strings"

	"golang.org/x/tools/go/ssa"

	"fqverif/fw"
)

// c04Gaps is the role model of ranges.Gaps resolved from its SSA: which parameter is the
// total range, which the range list, the cell holding the current run, the slice of merged
// runs and the returned slice.
type c04Gaps struct {
	p       *fw.Program
	fn      *ssa.Function
	s       *fw.GxSym
	total   *ssa.Parameter
	rs      *ssa.Parameter
	list    ssa.Value // the list the merge loop reads: the parameter itself or a local slices.Clone of it
	m       *ssa.Alloc
	starts  []*ssa.Store // m = R[i]
	runIdx  ssa.Value    // i
	scanIdx ssa.Value    // j (set by c04Merge)
	flushes []*ssa.Call  // merged = append(merged, m)
	mRoot   ssa.Value
	gRoot   ssa.Value
	litRets []*ssa.Return // returns of a one-element literal
	gRets   []*ssa.Return
}

func c04RangeType(p *fw.Program) *types.Named { return p.NamedType("pkg/ranges", "Range") }

func c04IsRange(p *fw.Program, t types.Type) bool {
	n := c04RangeType(p)
	return n != nil && types.Identical(t, n)
}

func c04IsRangeSlice(p *fw.Program, t types.Type) bool {
	sl, ok := t.Underlying().(*types.Slice)
	return ok && c04IsRange(p, sl.Elem())
}

// c04LoadOf returns the address a value was loaded from (nil if v is no load).
func c04LoadOf(v ssa.Value) ssa.Value {
	if u, ok := v.(*ssa.UnOp); ok && u.Op == token.MUL {
		return u.X
	}
	return nil
}

func c04ResolveGaps(p *fw.Program) (*c04Gaps, string) {
	fn := p.Fn("pkg/ranges.Gaps")
	if fn == nil {
		return nil, "pkg/ranges.Gaps not found"
	}
	if len(fn.Params) != 2 || !c04IsRange(p, fn.Params[0].Type()) || !c04IsRangeSlice(p, fn.Params[1].Type()) ||
		fn.Signature.Results().Len() != 1 || !c04IsRangeSlice(p, fn.Signature.Results().At(0).Type()) {
		return nil, "ranges.Gaps no longer has the signature (Range, []Range) []Range"
	}
	g := &c04Gaps{p: p, fn: fn, s: fw.NewGxSym(fn), total: fn.Params[0], rs: fn.Params[1]}
	// run cell: a Range cell that receives R[i] and is appended to a list
	type cand struct {
		st  *ssa.Store
		idx ssa.Value
	}
	cells := map[*ssa.Alloc][]cand{}
	// local copies of the parameter (the caller's slice is then left unsorted): same elements, same length
	clones := map[ssa.Value]bool{}
	fw.EachInstr(fn, func(ins ssa.Instruction) {
		if c, ok := ins.(*ssa.Call); ok && fw.CalleeName(c) == "slices.Clone" && len(c.Call.Args) == 1 && fw.GxSliceRoot(c.Call.Args[0]) == ssa.Value(g.rs) {
			clones[c] = true
		}
	})
	mixed := false
	fw.EachInstr(fn, func(ins ssa.Instruction) {
		st, ok := ins.(*ssa.Store)
		if !ok {
			return
		}
		a, ok := st.Addr.(*ssa.Alloc)
		if !ok {
			return
		}
		ia, ok := c04LoadOf(st.Val).(*ssa.IndexAddr)
		if !ok {
			return
		}
		root := fw.GxSliceRoot(ia.X)
		if root == nil || (root != ssa.Value(g.rs) && !clones[root]) {
			return
		}
		if g.list != nil && g.list != root {
			mixed = true
		}
		g.list = root
		cells[a] = append(cells[a], cand{st, ia.Index})
	})
	if mixed || g.list == nil {
		return nil, "the run is not loaded from one list (the ranges parameter or a local clone of it)"
	}
	flushOf := map[*ssa.Alloc][]*ssa.Call{}
	fw.EachInstr(fn, func(ins ssa.Instruction) {
		c, ok := ins.(*ssa.Call)
		if !ok {
			return
		}
		es := fw.GxAppendElems(c)
		if len(es) != 1 {
			return
		}
		if a, ok := c04LoadOf(es[0]).(*ssa.Alloc); ok && len(cells[a]) > 0 {
			flushOf[a] = append(flushOf[a], c)
		}
	})
	if len(flushOf) != 1 {
		return nil, fmt.Sprintf("expected one cell holding the current run (m = ranges[i], later appended to the merged list), found %d", len(flushOf))
	}
	for a, fl := range flushOf {
		g.m = a
		g.flushes = fl
		for _, c := range cells[a] {
			g.starts = append(g.starts, c.st)
			g.runIdx = c.idx
		}
	}
	if len(g.starts) != 1 {
		return nil, fmt.Sprintf("expected one run start (m = ranges[i]), found %d", len(g.starts))
	}
	for _, c := range g.flushes {
		r := fw.GxSliceRoot(c.Call.Args[0])
		if r == nil || (g.mRoot != nil && r != g.mRoot) {
			return nil, "the current run is appended to more than one list"
		}
		g.mRoot = r
	}
	if _, ok := g.mRoot.(*ssa.MakeSlice); !ok {
		return nil, "merged list is not a local make([]Range, ...)"
	}
	// returns
	for _, b := range fn.Blocks {
		ret, ok := b.Instrs[len(b.Instrs)-1].(*ssa.Return)
		if !ok {
			continue
		}
		r := fw.GxSliceRoot(ret.Results[0])
		switch x := r.(type) {
		case *ssa.Alloc:
			g.litRets = append(g.litRets, ret)
		case *ssa.MakeSlice:
			if r == g.mRoot {
				return nil, "Gaps returns the merged runs instead of the gaps"
			}
			if g.gRoot != nil && g.gRoot != r {
				return nil, "Gaps returns more than one result list"
			}
			g.gRoot = x
			g.gRets = append(g.gRets, ret)
		default:
			return nil, "unrecognised return value " + ret.Results[0].Name()
		}
	}
	if g.gRoot == nil {
		return nil, "no returned gap list found"
	}
	g.s.Name(g.total, "total")
	g.s.Name(g.rs, "R")
	g.s.Name(g.list, "R")
	g.s.Name(g.m, "m")
	g.s.Name(g.mRoot, "M")
	g.s.Name(g.gRoot, "G")
	return g, ""
}

func c04A(name string) *fw.Poly { return fw.PAtom(name) }

// pretty replaces SSA register names of loop variables by role names so that keys and messages
// do not depend on register numbering.
func (g *c04Gaps) pretty(str string) string {
	if ph, ok := g.runIdx.(*ssa.Phi); ok {
		str = strings.ReplaceAll(str, "phi:"+ph.Name(), "i")
	}
	if g.scanIdx != nil {
		str = strings.ReplaceAll(str, "phi:"+g.scanIdx.Name(), "j")
	}
	return regexp.MustCompile(`phi:t[0-9]+`).ReplaceAllString(str, "phi")
}

func (g *c04Gaps) pos(ins ssa.Instruction) string {
	if ifi, ok := ins.(*ssa.If); ok && fw.GxIfPos(ifi).IsValid() {
		return g.p.Rel(fw.GxIfPos(ifi))
	}
	if ins.Pos().IsValid() {
		return g.p.Rel(ins.Pos())
	}
	return g.p.Rel(g.fn.Pos())
}

// stop(loc) = loc.Start + loc.Len
func c04Stop(loc string) *fw.Poly { return c04A(loc + ".Start").Add(c04A(loc + ".Len")) }

// ---------------------------------------------------------------------------
// C04.sort

func c04Sort(r *fw.Run, g *c04Gaps) {
	ru := r.Rule("C04.sort", "ranges.Gaps sorts the range list ascending by Start (comparator compares a.Start with b.Start in that order) before the merge loop", 3)
	var sortCall *ssa.Call
	for _, c := range fw.CallsIn(g.fn) {
		n := fw.CalleeName(c)
		if n != "slices.SortFunc" && n != "slices.SortStableFunc" {
			continue
		}
		cl, ok := c.(*ssa.Call)
		if !ok || len(cl.Call.Args) != 2 || fw.GxSliceRoot(cl.Call.Args[0]) != g.list {
			continue
		}
		sortCall = cl
	}
	if sortCall == nil {
		ru.Fail("Gaps:sort-call", g.pos(g.starts[0]), "ranges.Gaps does not sort its range list with slices.SortFunc before merging: the merge loop assumes ascending Start")
		return
	}
	ru.Ok("Gaps:sort-call", g.pos(sortCall), "slices sort of the range list")
	// before the merge loop
	sb, mb := sortCall.Block(), g.starts[0].Block()
	ru.Check(sb != mb && sb.Dominates(mb), "Gaps:sort-before-merge", g.pos(sortCall), "sort dominates the merge loop", "the sort does not precede the merge loop on every path")
	// comparator
	var cmpFn *ssa.Function
	switch x := sortCall.Call.Args[1].(type) {
	case *ssa.Function:
		cmpFn = x
	case *ssa.MakeClosure:
		cmpFn, _ = x.Fn.(*ssa.Function)
	}
	if cmpFn == nil || len(cmpFn.Params) != 2 || len(cmpFn.Blocks) == 0 {
		ru.Undecided("Gaps:sort-key", g.pos(sortCall), "comparator is not a resolvable function literal")
		return
	}
	cs := fw.NewGxSym(cmpFn)
	cs.Name(cmpFn.Params[0], "a")
	cs.Name(cmpFn.Params[1], "b")
	var rets []*ssa.Return
	fw.EachInstr(cmpFn, func(ins ssa.Instruction) {
		if rt, ok := ins.(*ssa.Return); ok {
			rets = append(rets, rt)
		}
	})
	if len(rets) != 1 {
		ru.Undecided("Gaps:sort-key", g.pos(sortCall), "comparator has more than one return; shape not recognised")
		return
	}
	aS, bS := c04A("a.Start"), c04A("b.Start")
	res := rets[0].Results[0]
	if call, ok := res.(*ssa.Call); ok && fw.CalleeName(call) == "cmp.Compare" && len(call.Call.Args) == 2 {
		x, y := cs.Int(call.Call.Args[0]), cs.Int(call.Call.Args[1])
		switch {
		case x.Equal(aS) && y.Equal(bS):
			ru.Ok("Gaps:sort-key", g.pos(call), "cmp.Compare(a.Start, b.Start)")
		case x.Equal(bS) && y.Equal(aS):
			ru.Fail("Gaps:sort-key", g.pos(call), "comparator is cmp.Compare(b.Start, a.Start): descending order breaks the merge loop (ranges are lost or reported as gaps)")
		default:
			ru.Fail("Gaps:sort-key", g.pos(call), fmt.Sprintf("comparator compares %s with %s, not a.Start with b.Start", x, y))
		}
		return
	}
	if cs.Int(res).Equal(aS.Sub(bS)) {
		ru.Ok("Gaps:sort-key", g.pos(rets[0]), "a.Start - b.Start")
		return
	}
	ru.Undecided("Gaps:sort-key", g.pos(rets[0]), "comparator result not recognised: "+cs.Int(res).String())
}

// ---------------------------------------------------------------------------
// C04.merge

// KnownSlackKey is the key under which the adjacency slack of today's tree (DESIGN K1) is reported.
const c04SlackKeyFmt = "Gaps:merge-slack=%d"

// c04RIndex extracts the index strings of atoms R[...] occurring in a polynomial.
func c04IndexOf(p *fw.Poly, slice string) map[string]bool {
	out := map[string]bool{}
	for _, a := range p.Atoms() {
		if strings.HasPrefix(a, slice+"[") {
			if i := strings.LastIndex(a, "]"); i > 0 {
				out[a[len(slice)+1:i]] = true
			}
		}
	}
	return out
}

// c04PhiLeaves returns the non-phi values flowing into phi through phi nodes that are not loop
// headers themselves (join phis after if/break), as polynomials. Loop-header phis other than
// the start are leaves.
func (g *c04Gaps) phiLeaves(phi *ssa.Phi) []*fw.Poly {
	seen := map[ssa.Value]bool{phi: true}
	var out []*fw.Poly
	var rec func(v ssa.Value)
	rec = func(v ssa.Value) {
		if ph, ok := v.(*ssa.Phi); ok && !seen[ph] && !fw.GxIsLoopHeaderPhi(ph) {
			seen[ph] = true
			for _, e := range ph.Edges {
				rec(e)
			}
			return
		}
		if v == ssa.Value(phi) {
			return
		}
		out = append(out, g.s.Int(v))
	}
	for _, e := range phi.Edges {
		rec(e)
	}
	return out
}

func c04PolyIn(p *fw.Poly, set ...*fw.Poly) bool {
	for _, q := range set {
		if p.Equal(q) {
			return true
		}
	}
	return false
}

func c04Merge(r *fw.Run, g *c04Gaps) {
	ru := r.Rule("C04.merge", "ranges.Gaps merge loop: a following range is merged into the current run iff it starts at or before the run's stop (no slack), merging never shrinks the run, a range that is not merged ends the run and starts the next one at that range, scanning advances by one and only ends at the end of the list", 9)
	s := g.s
	mLenAddr := func(v ssa.Value) bool {
		fa, ok := v.(*ssa.FieldAddr)
		return ok && fa.X == ssa.Value(g.m) && s.Val(fa).Loc == "m.Len"
	}
	var ext []*ssa.Store
	fw.EachInstr(g.fn, func(ins ssa.Instruction) {
		if st, ok := ins.(*ssa.Store); ok && mLenAddr(st.Addr) {
			ext = append(ext, st)
		}
	})
	// alternatively the run is replaced as a whole by the span helper: m = MinMax(m, ranges[j])
	var spanOther ssa.Value // the argument of MinMax that is not the run
	if len(ext) == 0 {
		mm := g.p.Fn("pkg/ranges.MinMax")
		fw.EachInstr(g.fn, func(ins ssa.Instruction) {
			stw, ok := ins.(*ssa.Store)
			if !ok || stw.Addr != ssa.Value(g.m) || stw == g.starts[0] {
				return
			}
			call, ok := stw.Val.(*ssa.Call)
			if !ok || mm == nil || call.Common().StaticCallee() != mm || len(call.Call.Args) != 2 {
				return
			}
			for i, a := range call.Call.Args {
				if c04LoadOf(a) == ssa.Value(g.m) {
					ext = append(ext, stw)
					spanOther = call.Call.Args[1-i]
				}
			}
		})
	}
	if len(ext) != 1 {
		ru.Undecided("Gaps:extend", g.pos(g.starts[0]), fmt.Sprintf("expected exactly one assignment to the run's Len (m.Len = ... or m = MinMax(m, next)), found %d", len(ext)))
		return
	}
	st := ext[0]
	facts := s.GuardFacts(st.Block())
	mStart, mLen := c04A("m.Start"), c04A("m.Len")
	iStr := s.Int(g.runIdx).String()
	// the run was loaded from R[i]: a test that R[i] is non-empty is a test of the run
	isRunElemNonEmpty := func(f fw.GxFact) bool {
		l := c04A("R[" + iStr + "].Len")
		return f.Same(fw.GxFact{P: l, K: fw.GxNE}) || f.Same(fw.GxFact{P: l.Sub(fw.PConst(1)), K: fw.GxGE})
	}
	// the scanned element index J
	idxSet := map[string]bool{}
	for _, f := range facts {
		if isRunElemNonEmpty(f.GxFact) {
			continue
		}
		for k := range c04IndexOf(f.P, "R") {
			idxSet[k] = true
		}
	}
	if spanOther != nil {
		for k := range c04IndexOf(c04A(s.Val(spanOther).Loc+".Start"), "R") {
			idxSet[k] = true
		}
	} else {
		for k := range c04IndexOf(s.Int(st.Val), "R") {
			idxSet[k] = true
		}
	}
	if len(idxSet) != 1 {
		ru.Fail("Gaps:merge-predicate", g.pos(st), fmt.Sprintf("the merge test and the extension of the run refer to %d different list elements, expected exactly the scanned one", len(idxSet)))
		return
	}
	var J string
	for k := range idxSet {
		J = k
	}
	rj := "R[" + J + "]"
	var jVal ssa.Value
	fw.EachInstr(g.fn, func(ins ssa.Instruction) {
		if ia, ok := ins.(*ssa.IndexAddr); ok && fw.GxSliceRoot(ia.X) == g.list && s.Int(ia.Index).String() == J {
			jVal = ia.Index
		}
	})
	g.scanIdx = jVal
	rjStart := c04A(rj + ".Start")
	lower := fw.GxFact{P: rjStart.Sub(mStart), K: fw.GxGE}
	adj0 := mStart.Add(mLen).Sub(rjStart) // + c >= 0
	grow0 := c04Stop(rj).Sub(mStart).Sub(mLen)
	var adjIf, lowerIf, growIf *fw.GxGuardFact
	haveGrow := false
	for i := range facts {
		f := facts[i]
		if !f.Mentions("m.") && !f.Mentions("R[") {
			continue
		}
		if f.K == fw.GxGE {
			if f.Same(lower) {
				lowerIf = &facts[i]
				continue
			}
			if c, ok := f.P.Sub(adj0).IsConst(); ok {
				adjIf = &facts[i]
				key := fmt.Sprintf(c04SlackKeyFmt, c)
				if c == 0 {
					ru.Ok("Gaps:merge-slack", g.pos(f.If), "merged iff next.Start <= run.Stop()")
				} else {
					ru.Fail(key, g.pos(f.If), fmt.Sprintf("merge predicate is run.Stop()%+d >= next.Start: a range starting %d bit(s) %s the run's stop is %s (slack must be 0)",
						c, c04Abs(c), map[bool]string{true: "after", false: "before"}[c > 0],
						map[bool]string{true: "merged and the bits between are never reported as a gap", false: "split off although it touches/overlaps the run (spurious or negative gap)"}[c > 0]))
				}
				continue
			}
			if c, ok := f.P.Sub(grow0).IsConst(); ok && (c == 0 || c == -1) {
				haveGrow = true
				growIf = &facts[i]
				continue
			}
		}
		if f.Same(fw.GxFact{P: mLen, K: fw.GxNE}) || f.Same(fw.GxFact{P: mLen.Sub(fw.PConst(1)), K: fw.GxGE}) || isRunElemNonEmpty(f.GxFact) {
			continue // the run is non-empty (C04.runs)
		}
		ru.Fail("Gaps:merge-guard:"+g.pretty(f.String()), g.pos(f.If), "unrecognised condition on the merge path: "+g.pretty(f.String()))
	}
	if adjIf == nil {
		ru.Fail("Gaps:merge-slack", g.pos(st), "the extension of the run is not guarded by an adjacency test run.Stop() >= next.Start")
	}
	// extension value and growth guard
	want := c04Stop(rj).Sub(mStart)
	val := s.Int(st.Val)
	isMax := false
	if spanOther != nil {
		// MinMax(m, R[j]) = {min start, max stop - min start}; the list is sorted, so min start is m.Start
		okSpan, why := c04MinMaxOK(g.p)
		if !okSpan {
			ru.Fail("Gaps:extend-span", g.pos(st), "the run is extended with ranges.MinMax, which is not {min(a.Start, b.Start), max(a.Stop(), b.Stop()) - min start}: "+why)
		} else {
			ru.Ok("Gaps:extend-span", g.pos(st), "ranges.MinMax is the span of its arguments")
		}
		isMax = s.Val(spanOther).Loc == rj
		val = c04A("MinMax(m, " + g.pretty(s.Val(spanOther).Loc) + ").Len")
	}
	if call, ok := st.Val.(*ssa.Call); ok && spanOther == nil && fw.IsBuiltinCall(call, "max") && len(call.Call.Args) == 2 {
		a, b := s.Int(call.Call.Args[0]), s.Int(call.Call.Args[1])
		if (a.Equal(mLen) && b.Equal(want)) || (b.Equal(mLen) && a.Equal(want)) {
			isMax = true
		}
	}
	ru.Check(isMax || val.Equal(want), "Gaps:extend-value", g.pos(st), "run.Len = next.Stop() - run.Start",
		"merged run length is "+g.pretty(val.String())+", expected next.Stop() - run.Start")
	ru.Check(isMax || haveGrow, "Gaps:extend-guard", g.pos(st), "run only grows (guarded by next.Stop() > run.Stop())",
		"the run's Len is overwritten without testing next.Stop() > run.Stop(): a contained range shrinks the run and covered bits are reported as a gap")
	// not merged => flushed
	isFlushBlock := func(b *ssa.BasicBlock) bool {
		for _, c := range g.flushes {
			if c.Block() == b {
				return true
			}
		}
		return false
	}
	for _, gf := range []*fw.GxGuardFact{adjIf, lowerIf} {
		if gf == nil {
			continue
		}
		other := gf.If.Block().Succs[1]
		if !gf.True {
			other = gf.If.Block().Succs[0]
		}
		name := "adjacency"
		if gf == lowerIf {
			name = "order"
		}
		ru.Check(isFlushBlock(other), "Gaps:not-merged-flushes:"+name, g.pos(gf.If), "failing the test appends the run to the merged list",
			"when the "+name+" test fails the current run is not appended to the merged list")
	}
	// run restart index and scan step
	iPhi, _ := g.runIdx.(*ssa.Phi)
	jPhi, _ := jVal.(*ssa.Phi)
	if iPhi == nil || jPhi == nil || !fw.GxIsLoopHeaderPhi(iPhi) || !fw.GxIsLoopHeaderPhi(jPhi) {
		ru.Undecided("Gaps:restart-index", g.pos(g.starts[0]), "run index / scan index are not loop variables")
		return
	}
	iP, jP := s.Int(iPhi), s.Int(jPhi)
	// the merge test reads the run as it is now: every load of the run cell that feeds the
	// adjacency (and growth) test is made inside the scan loop, after a possible extension
	{
		scan := fw.GxNaturalLoop(jPhi.Block())
		stale := false
		var conds []ssa.Value
		for _, f := range []*fw.GxGuardFact{adjIf, growIf} {
			if f != nil && f.If != nil {
				conds = append(conds, f.If.Cond)
			}
		}
		seen := map[ssa.Value]bool{}
		var rec func(v ssa.Value)
		rec = func(v ssa.Value) {
			if v == nil || seen[v] {
				return
			}
			seen[v] = true
			ins, ok := v.(ssa.Instruction)
			if !ok {
				return
			}
			if u, ok := v.(*ssa.UnOp); ok && u.Op == token.MUL {
				base := u.X
				if fa, ok := base.(*ssa.FieldAddr); ok {
					base = fa.X
				}
				if base == ssa.Value(g.m) && !scan[ins.Block()] && !(len(s.Val(u.X).Loc) > 0 && s.Val(u.X).Loc == "m.Start") {
					stale = true
				}
				return
			}
			if _, isPhi := v.(*ssa.Phi); isPhi {
				return
			}
			for _, op := range ins.Operands(nil) {
				if op != nil {
					rec(*op)
				}
			}
		}
		for _, c := range conds {
			rec(c)
		}
		ru.Check(!stale, "Gaps:merge-fresh", g.pos(st), "the merge test reads the run's current stop", "the merge test uses a stop of the run that was read before the scan loop: after the run was extended the test still compares with the old stop (stale state)")
	}
	one := fw.PConst(1)
	okI, has0, hasJ := true, false, false
	var bad []string
	for _, l := range g.phiLeaves(iPhi) {
		switch {
		case l.Equal(fw.PConst(0)):
			has0 = true
		case l.Equal(jP):
			hasJ = true
		case l.Equal(iP.Add(one)), l.Equal(iP):
		default:
			okI = false
			bad = append(bad, l.String())
		}
	}
	ru.Check(okI && has0 && hasJ, "Gaps:restart-index", g.pos(g.starts[0]), "next run starts at the first range that was not merged",
		"run index takes unexpected values "+g.pretty(strings.Join(bad, ", "))+fmt.Sprintf(" (starts at 0: %v, restarts at the unmerged range: %v): ranges are skipped or rescanned", has0, hasJ))
	okJ, hasStep := true, false
	bad = nil
	for _, l := range g.phiLeaves(jPhi) {
		switch {
		case l.Equal(jP.Add(one)):
			hasStep = true
		case l.Equal(iP.Add(one)), l.Equal(iP):
		default:
			okJ = false
			bad = append(bad, l.String())
		}
	}
	ru.Check(okJ && hasStep, "Gaps:scan-step", g.pos(st), "scan starts right after the run start and advances by one",
		"scan index takes unexpected values "+g.pretty(strings.Join(bad, ", "))+": ranges are skipped")
	// loop exits
	loop := fw.GxNaturalLoop(iPhi.Block())
	lenR := c04A("len(R)")
	allowI := fw.GxFact{P: iP.Sub(lenR), K: fw.GxGE}
	allowJ := fw.GxFact{P: jP.Sub(lenR), K: fw.GxGE}
	nExit := 0
	var blocks []*ssa.BasicBlock
	for b := range loop {
		blocks = append(blocks, b)
	}
	sort.Slice(blocks, func(i, j int) bool { return blocks[i].Index < blocks[j].Index })
	for _, b := range blocks {
		for _, su := range b.Succs {
			if loop[su] {
				continue
			}
			nExit++
			f, ok := s.EdgeFact(b, su)
			last := b.Instrs[len(b.Instrs)-1]
			if !ok {
				ru.Undecided(fmt.Sprintf("Gaps:loop-exit#%d", nExit), g.pos(last), "merge loop is left through an unconditional or unrecognised edge")
				continue
			}
			which, kkey := "", ""
			switch {
			case f.Same(allowI) || (f.K == fw.GxEQ && f.Same(fw.GxFact{P: allowI.P, K: fw.GxEQ})):
				which, kkey = "run index reached the end", "run-index"
			case f.Same(allowJ) || (f.K == fw.GxEQ && f.Same(fw.GxFact{P: allowJ.P, K: fw.GxEQ})):
				which, kkey = "scan index reached the end", "scan-index"
			}
			if which != "" {
				ru.Ok("Gaps:loop-exit:"+kkey, g.pos(last), which)
			} else {
				ru.Fail("Gaps:loop-exit:"+g.pretty(f.String()), g.pos(last), "merge loop ends under "+g.pretty(f.String())+", expected only index - len(ranges) >= 0: trailing ranges are never merged and their bits are reported as gaps")
			}
		}
	}
	if nExit == 0 {
		ru.Undecided("Gaps:loop-exit", g.pos(g.starts[0]), "merge loop has no exit edge")
	}
}

// c04MinMaxOK: ranges.MinMax(a, b) returns Range{min(a.Start, b.Start), max(a.Stop(), b.Stop()) - min(a.Start, b.Start)}.
func c04MinMaxOK(p *fw.Program) (bool, string) {
	fn := p.Fn("pkg/ranges.MinMax")
	if fn == nil || len(fn.Params) != 2 || len(fn.Blocks) != 1 {
		return false, "ranges.MinMax not found or not a straight-line function"
	}
	s := fw.NewGxSym(fn)
	s.Name(fn.Params[0], "a")
	s.Name(fn.Params[1], "b")
	ret, ok := fn.Blocks[0].Instrs[len(fn.Blocks[0].Instrs)-1].(*ssa.Return)
	if !ok || len(ret.Results) != 1 {
		return false, "no single result"
	}
	f, _, ok := fw.GxLitFields(ret.Results[0])
	if !ok || f["Start"] == nil || f["Len"] == nil {
		return false, "result is not a Range{Start, Len} literal"
	}
	mm := func(name string, x, y *fw.Poly) *fw.Poly {
		as := []string{x.String(), y.String()}
		sort.Strings(as)
		return fw.PAtom(name + "(" + strings.Join(as, ", ") + ")")
	}
	wantStart := mm("min", c04A("a.Start"), c04A("b.Start"))
	wantLen := mm("max", c04Stop("a"), c04Stop("b")).Sub(wantStart)
	if !s.Int(f["Start"]).Equal(wantStart) {
		return false, "Start is " + s.Int(f["Start"]).String()
	}
	if !s.Int(f["Len"]).Equal(wantLen) {
		return false, "Len is " + s.Int(f["Len"]).String()
	}
	return true, ""
}

func c04Abs(c int64) int64 {
	if c < 0 {
		return -c
	}
	return c
}

// ---------------------------------------------------------------------------
// C04.runs: abstract interpretation of the run bookkeeping

const (
	c04None     = iota // no run pending (before the first, or an empty range was skipped)
	c04Unknown         // run loaded, emptiness not yet tested
	c04NonEmpty        // non-empty run pending, not yet appended
	c04Flushed         // run appended to the merged list
)

var c04PendName = [...]string{"no run", "untested run", "pending run", "flushed run"}

type c04State struct {
	pend  int
	alias bool // the run cell still holds exactly R[i] (loaded, not yet modified)
	env   map[ssa.Value]int64
	facts []fw.GxFact
}

func (st c04State) clone() c04State {
	n := c04State{pend: st.pend, alias: st.alias, env: map[ssa.Value]int64{}}
	for k, v := range st.env {
		n.env[k] = v
	}
	n.facts = append([]fw.GxFact(nil), st.facts...)
	return n
}

func (st c04State) key() string {
	var es []string
	for k, v := range st.env {
		es = append(es, fmt.Sprintf("%s=%d", k.Name(), v))
	}
	sort.Strings(es)
	var fs []string
	for _, f := range st.facts {
		fs = append(fs, f.String())
	}
	sort.Strings(fs)
	return fmt.Sprintf("%d%v|%s|%s", st.pend, st.alias, strings.Join(es, ","), strings.Join(fs, ";"))
}

func (st *c04State) addFact(f fw.GxFact) {
	for _, x := range st.facts {
		if x.Same(f) {
			return
		}
	}
	st.facts = append(st.facts, f)
}

func (st *c04State) dropFacts(pred func(fw.GxFact) bool) {
	var keep []fw.GxFact
	for _, f := range st.facts {
		if !pred(f) {
			keep = append(keep, f)
		}
	}
	st.facts = keep
}

// subst replaces phi atoms with known constant values.
func (g *c04Gaps) substEnv(f fw.GxFact, env map[ssa.Value]int64) fw.GxFact {
	p := f.P
	for v, c := range env {
		if ph, ok := v.(*ssa.Phi); ok {
			at := g.s.Int(ph)
			if fw.GxPolyMentions(p, at) {
				p = fw.GxReplaceAtom(p, at, fw.PConst(c))
			}
		}
	}
	return fw.GxFact{P: p, K: f.K}
}

func c04Decide(f fw.GxFact, facts []fw.GxFact) (known, val bool) {
	if c, ok := f.P.IsConst(); ok {
		switch f.K {
		case fw.GxGE:
			return true, c >= 0
		case fw.GxEQ:
			return true, c == 0
		default:
			return true, c != 0
		}
	}
	neg := f.Negate()
	for _, x := range facts {
		if x.Implies(f) {
			return true, true
		}
		if x.Implies(neg) {
			return true, false
		}
	}
	return false, false
}

func c04Runs(r *fw.Run, g *c04Gaps) {
	ru := r.Rule("C04.runs", "ranges.Gaps run bookkeeping (path-sensitive over the CFG, flags constant-propagated): every non-empty run is appended to the merged list exactly once before the next run starts or the list is read; empty ranges never become a run", 4)
	s := g.s
	mLen := c04A("m.Len")
	emptyFacts := []fw.GxFact{{P: mLen, K: fw.GxEQ}, {P: mLen.Neg(), K: fw.GxGE}}
	nonEmptyFacts := []fw.GxFact{{P: mLen, K: fw.GxNE}, {P: mLen.Sub(fw.PConst(1)), K: fw.GxGE}}
	errs := map[string][]string{}
	sitePos := map[string]string{}
	addErr := func(site, msg string) {
		for _, m := range errs[site] {
			if m == msg {
				return
			}
		}
		errs[site] = append(errs[site], msg)
	}
	outer, _ := g.runIdx.(*ssa.Phi)
	var loop map[*ssa.BasicBlock]bool
	if outer != nil {
		loop = fw.GxNaturalLoop(outer.Block())
	}
	flushSite := func(c *ssa.Call) string {
		if loop != nil && loop[c.Block()] {
			return "Gaps:flush:in-loop"
		}
		return "Gaps:flush:after-loop"
	}
	sitePos["Gaps:run-start"] = g.pos(g.starts[0])
	sitePos["Gaps:merged-read"] = g.pos(g.starts[0])
	for _, c := range g.flushes {
		sitePos[flushSite(c)] = g.pos(c)
	}
	isFlush := map[ssa.Instruction]bool{}
	for _, c := range g.flushes {
		isFlush[c] = true
	}
	readsMerged := func(ins ssa.Instruction) bool {
		switch x := ins.(type) {
		case *ssa.Call:
			if fw.IsBuiltinCall(x, "len") || fw.IsBuiltinCall(x, "cap") {
				return fw.GxSliceRoot(x.Call.Args[0]) == g.mRoot
			}
		case *ssa.IndexAddr:
			return fw.GxSliceRoot(x.X) == g.mRoot
		case *ssa.Return:
			return true
		case *ssa.Range:
			return false
		}
		return false
	}

	type item struct {
		b    *ssa.BasicBlock
		pred int // index into b.Preds, -1 for entry
		st   c04State
	}
	seen := map[string]bool{}
	work := []item{{b: g.fn.Blocks[0], pred: -1, st: c04State{env: map[ssa.Value]int64{}}}}
	steps := 0
	for len(work) > 0 {
		it := work[len(work)-1]
		work = work[:len(work)-1]
		k := fmt.Sprintf("%d<%d|%s", it.b.Index, it.pred, it.st.key())
		if seen[k] {
			continue
		}
		seen[k] = true
		steps++
		if steps > 200000 {
			ru.Undecided("Gaps:runs", g.pos(g.starts[0]), "state space too large")
			return
		}
		st := it.st.clone()
		b := it.b
		// phis (simultaneous)
		if it.pred >= 0 {
			if b.Dominates(b.Preds[it.pred]) {
				st.facts = nil // back edge: values computed in the loop body are recomputed
			}
			newEnv := map[ssa.Value]int64{}
			var phis []*ssa.Phi
			for _, ins := range b.Instrs {
				ph, ok := ins.(*ssa.Phi)
				if !ok {
					break
				}
				phis = append(phis, ph)
				e := ph.Edges[it.pred]
				if c, ok := e.(*ssa.Const); ok && c.Value != nil {
					sv := s.Val(c)
					if sv.P != nil {
						if cv, isC := sv.P.IsConst(); isC {
							newEnv[ph] = cv
						}
					}
				} else if cv, ok := st.env[e]; ok {
					newEnv[ph] = cv
				}
			}
			for _, ph := range phis {
				delete(st.env, ph)
				at := s.Int(ph)
				st.dropFacts(func(f fw.GxFact) bool { return fw.GxPolyMentions(f.P, at) })
			}
			for ph, v := range newEnv {
				st.env[ph] = v
			}
		}
		for _, ins := range b.Instrs {
			switch x := ins.(type) {
			case *ssa.Store:
				if x.Addr == ssa.Value(g.m) {
					st.alias = false
					if x == g.starts[0] {
						if st.pend == c04Unknown || st.pend == c04NonEmpty {
							addErr("Gaps:run-start", "a new run is loaded while the previous one was never appended to the merged list: its bits are reported as a gap")
						}
						st.pend = c04Unknown
						st.alias = true
					}
					st.dropFacts(func(f fw.GxFact) bool { return f.Mentions("m.") })
				} else if fa, ok := x.Addr.(*ssa.FieldAddr); ok && fa.X == ssa.Value(g.m) {
					st.alias = false
					loc := s.Val(fa).Loc
					st.dropFacts(func(f fw.GxFact) bool { return f.Mentions(loc) })
				}
			case *ssa.Call:
				if isFlush[x] {
					site := flushSite(x)
					switch st.pend {
					case c04None:
						addErr(site, "the run cell is appended to the merged list although no run is pending (empty range skipped or nothing loaded): a zero-length run splits or invents gaps")
					case c04Unknown:
						addErr(site, "a range is appended as a run without testing that it is non-empty (m.Len == 0): with merge slack an empty range swallows the bit before the next field")
					case c04Flushed:
						addErr(site, "the same run is appended twice: a gap of negative length is emitted between the copies")
					}
					st.pend = c04Flushed
				}
			}
			if readsMerged(ins) {
				if st.pend == c04Unknown || st.pend == c04NonEmpty {
					addErr("Gaps:merged-read", "the merged list is read (or the function returns) while the last run was never appended: its bits are reported as a gap")
				}
			}
		}
		last := b.Instrs[len(b.Instrs)-1]
		ifi, isIf := last.(*ssa.If)
		if !isIf {
			for _, su := range b.Succs {
				work = append(work, item{b: su, pred: c04PredIndex(su, b), st: st})
			}
			continue
		}
		// decide the branch
		var known, val bool
		cond := ifi.Cond
		neg := false
		for {
			u, ok := cond.(*ssa.UnOp)
			if !ok || u.Op != token.NOT {
				break
			}
			cond, neg = u.X, !neg
		}
		if c, ok := cond.(*ssa.Const); ok && c.Value != nil {
			known, val = true, s.Int(c).Const() != 0
		} else if cv, ok := st.env[cond]; ok {
			known, val = true, cv != 0
		}
		if known && neg {
			val = !val
		}
		tf, okF := s.FactOf(ifi.Cond, true)
		if okF && st.alias {
			// the run cell is a fresh copy of R[i]: a test of the element is a test of the run
			for _, fld := range []string{"Start", "Len"} {
				tf.P = fw.GxReplaceAtom(tf.P, c04A("R["+s.Int(g.runIdx).String()+"]."+fld), c04A("m."+fld))
			}
		}
		if !known && okF {
			known, val = c04Decide(g.substEnv(tf, st.env), st.facts)
		}
		if !known && okF && (st.pend == c04NonEmpty || st.pend == c04Flushed) {
			// a pending or flushed run is non-empty and stays so: it is only ever extended (C04.merge
			// extend-guard / extend-value decide that an extension never shrinks it)
			for _, q := range nonEmptyFacts {
				if tf.Same(q) {
					known, val = true, true
				}
			}
			for _, q := range emptyFacts {
				if tf.Same(q) {
					known, val = true, false
				}
			}
		}
		for i, su := range b.Succs {
			taken := i == 0
			if known && val != taken {
				continue
			}
			ns := st.clone()
			if okF {
				ef := tf
				if !taken {
					ef = tf.Negate()
				}
				ns.addFact(ef)
				if ns.pend == c04Unknown {
					for _, q := range emptyFacts {
						if ef.Implies(q) || ef.Same(q) {
							ns.pend = c04None
						}
					}
					for _, q := range nonEmptyFacts {
						if ef.Implies(q) || ef.Same(q) {
							ns.pend = c04NonEmpty
						}
					}
				}
			}
			work = append(work, item{b: su, pred: c04PredIndex(su, b), st: ns})
		}
	}
	for _, site := range fw.SortedKeys(sitePos) {
		if es := errs[site]; len(es) > 0 {
			ru.Fail(site, sitePos[site], strings.Join(es, "; "))
		} else {
			ru.Ok(site, sitePos[site], "holds on every path ("+fmt.Sprint(steps)+" abstract states)")
		}
	}
}

func c04PredIndex(b, pred *ssa.BasicBlock) int {
	for i, p := range b.Preds {
		if p == pred {
			return i
		}
	}
	return -1
}

// ---------------------------------------------------------------------------
// C04.emit

func c04Emit(r *fw.Run, p *fw.Program, g *c04Gaps) {
	ru := r.Rule("C04.emit", "ranges.Gaps emits exactly the complement of the merged runs inside total: [total.Start, first.Start), [run[k].Stop(), run[k+1].Start) for every consecutive pair, [last.Stop(), total.Stop()), each under the test that it is non-empty, into an initially empty result; the whole range is returned when there are no (non-empty) ranges", 12)
	s := g.s
	lenM := c04A("len(M)")
	lastLoc := "M[" + lenM.Sub(fw.PConst(1)).String() + "]"
	m0 := "M[0]"
	totStart := c04A("total.Start")
	totStop := c04Stop("total")
	commonOK := []fw.GxFact{
		{P: lenM.Sub(fw.PConst(1)), K: fw.GxGE},
		{P: c04A("len(R)").Sub(fw.PConst(1)), K: fw.GxGE},
	}
	inFacts := func(f fw.GxFact, set []fw.GxFact) bool {
		for _, q := range set {
			if f.Same(q) {
				return true
			}
		}
		return false
	}
	// result list is created empty
	if mk, ok := g.gRoot.(*ssa.MakeSlice); ok {
		c, isC := s.Int(mk.Len).IsConst()
		ru.Check(isC && c == 0, "Gaps:result-empty", g.pos(mk), "result list starts empty", "result list is created with non-zero length "+s.Int(mk.Len).String()+": zero ranges 0:0 are returned as gaps")
	}
	// literal returns
	for i, ret := range g.litRets {
		key := fmt.Sprintf("Gaps:return-total#%d", i+1)
		arr, _ := fw.GxSliceRoot(ret.Results[0]).(*ssa.Alloc)
		var elems []ssa.Value
		if arr != nil && arr.Referrers() != nil {
			for _, rf := range *arr.Referrers() {
				if ia, ok := rf.(*ssa.IndexAddr); ok && ia.Referrers() != nil {
					for _, rr := range *ia.Referrers() {
						if st, ok := rr.(*ssa.Store); ok && st.Addr == ssa.Value(ia) {
							elems = append(elems, st.Val)
						}
					}
				}
			}
		}
		if len(elems) != 1 || s.Val(elems[0]).Loc != "total" {
			ru.Fail(key, g.pos(ret), "early return is not the one-element list {total}")
			continue
		}
		okGuard := false
		for _, f := range s.GuardFacts(ret.Block()) {
			if f.Same(fw.GxFact{P: c04A("len(R)"), K: fw.GxEQ}) || f.Same(fw.GxFact{P: lenM, K: fw.GxEQ}) ||
				f.Same(fw.GxFact{P: c04A("len(R)").Neg(), K: fw.GxGE}) || f.Same(fw.GxFact{P: lenM.Neg(), K: fw.GxGE}) {
				okGuard = true
			} else if !inFacts(f.GxFact, commonOK) {
				okGuard = false
				break
			}
		}
		ru.Check(okGuard, key, g.pos(ret), "{total} returned only when there is no (non-empty) range", "{total} is returned under a condition other than len(ranges)==0 / len(merged)==0: decoded fields get an overlapping whole-buffer gap")
	}
	if len(g.litRets) < 2 {
		ru.Fail("Gaps:return-total", g.pos(g.starts[0]), fmt.Sprintf("expected the whole range to be returned both for an empty list and for a list of only empty ranges, found %d such returns", len(g.litRets)))
	}
	// When every caller passes a total range starting at the constant 0, total.Start and 0 are
	// interchangeable in the emission formulas (today the leading gap is emitted at the literal 0).
	zeroOK, zeroObs := c04CallersStartZero(p, g)
	usedZero := false
	nz := func(q *fw.Poly) *fw.Poly { return fw.GxReplaceAtom(q, totStart, fw.PConst(0)) }
	eq := func(a, b *fw.Poly) bool {
		if a.Equal(b) {
			return true
		}
		if nz(a).Equal(nz(b)) {
			usedZero = true
			return zeroOK
		}
		return false
	}
	sameFact := func(f, q fw.GxFact) bool {
		if f.Same(q) {
			return true
		}
		if (fw.GxFact{P: nz(f.P), K: f.K}).Same(fw.GxFact{P: nz(q.P), K: q.K}) {
			usedZero = true
			return zeroOK
		}
		return false
	}
	// appends to the result
	mIdx := map[string]bool{} // index strings of M[...] used anywhere
	fw.EachInstr(g.fn, func(ins ssa.Instruction) {
		if ia, ok := ins.(*ssa.IndexAddr); ok && fw.GxSliceRoot(ia.X) == g.mRoot {
			mIdx[s.Int(ia.Index).String()] = true
		}
	})
	count := map[string]int{}
	fw.EachInstr(g.fn, func(ins ssa.Instruction) {
		c, ok := ins.(*ssa.Call)
		if !ok || !fw.IsBuiltinCall(c, "append") || fw.GxSliceRoot(c.Call.Args[0]) != g.gRoot {
			return
		}
		es := fw.GxAppendElems(c)
		if len(es) != 1 {
			ru.Fail("Gaps:emit:other", g.pos(c), "result list is extended by something other than one range")
			return
		}
		fields, _, ok := fw.GxLitFields(es[0])
		if !ok {
			ru.Fail("Gaps:emit:other", g.pos(c), "appended gap is not a Range{Start, Len} literal")
			return
		}
		startP, lenP := fw.PConst(0), fw.PConst(0)
		if v, ok := fields["Start"]; ok {
			startP = s.Int(v)
		}
		if v, ok := fields["Len"]; ok {
			lenP = s.Int(v)
		}
		facts := s.GuardFacts(c.Block())
		checkGuards := func(key string, need []fw.GxFact, needDesc string) {
			have := false
			for _, f := range facts {
				isNeed := false
				for _, q := range need {
					if sameFact(f.GxFact, q) {
						isNeed = true
					}
				}
				if isNeed {
					have = true
					continue
				}
				if inFacts(f.GxFact, commonOK) || fw.GxIsLoopExitGuard(f.If, c.Block()) {
					continue
				}
				ru.Fail(key+":extra-guard:"+g.pretty(f.String()), g.pos(f.If), "gap is emitted only under the additional condition "+g.pretty(f.String())+": it is dropped otherwise and its bits are accounted nowhere")
			}
			ru.Check(have, key+":guard", g.pos(c), "emitted iff "+needDesc, "gap is not guarded by "+needDesc+": empty gap fields are added or non-empty ones dropped")
		}
		switch {
		case eq(startP, totStart):
			count["first"]++
			first := c04A(m0 + ".Start")
			ru.Ok("Gaps:emit:first:start", g.pos(c), "Start = total.Start")
			ru.Check(eq(lenP, first.Sub(totStart)), "Gaps:emit:first:len", g.pos(c), "Len = first.Start - total.Start", "leading gap length is "+g.pretty(lenP.String())+", expected first.Start - total.Start")
			checkGuards("Gaps:emit:first", []fw.GxFact{
				{P: first.Sub(totStart), K: fw.GxNE}, {P: first.Sub(totStart).Sub(fw.PConst(1)), K: fw.GxGE},
			}, "first.Start != total.Start")
		case startP.Equal(c04Stop(lastLoc)):
			count["tail"]++
			ru.Check(eq(lenP, totStop.Sub(startP)), "Gaps:emit:tail:len", g.pos(c), "Len = total.Stop() - last.Stop()", "trailing gap length is "+g.pretty(lenP.String())+", expected total.Stop() - last.Stop()")
			d := totStop.Sub(c04Stop(lastLoc))
			checkGuards("Gaps:emit:tail", []fw.GxFact{{P: d, K: fw.GxNE}, {P: d.Sub(fw.PConst(1)), K: fw.GxGE}}, "last.Stop() != total.Stop()")
		default:
			K := ""
			for k := range mIdx {
				if startP.Equal(c04Stop("M[" + k + "]")) {
					K = k
				}
			}
			if K == "" {
				ru.Fail("Gaps:emit:other", g.pos(c), "gap starts at "+g.pretty(startP.String())+", which is neither total.Start nor the stop of a merged run")
				return
			}
			count["mid"]++
			// index value of K
			var kVal ssa.Value
			fw.EachInstr(g.fn, func(ins ssa.Instruction) {
				if ia, ok := ins.(*ssa.IndexAddr); ok && fw.GxSliceRoot(ia.X) == g.mRoot && s.Int(ia.Index).String() == K && (kVal == nil || ia.Block() == c.Block()) {
					kVal = ia.Index
				}
			})
			if kVal == nil {
				ru.Undecided("Gaps:emit:mid:index", g.pos(c), "index of the merged run not found")
				return
			}
			next := "M[" + s.Int(kVal).Add(fw.PConst(1)).String() + "]"
			ru.Check(lenP.Equal(c04A(next+".Start").Sub(startP)), "Gaps:emit:mid:len", g.pos(c), "Len = run[k+1].Start - run[k].Stop()", "gap length between runs is "+g.pretty(lenP.String())+", expected run[k+1].Start - run[k].Stop()")
			_, off, init, step, ok := fw.GxLoopPhi(kVal)
			if !ok {
				ru.Undecided("Gaps:emit:mid:loop", g.pos(c), "run index is not a simple loop variable")
				return
			}
			ru.Check(init+off == 0 && step == 1, "Gaps:emit:mid:loop-start", g.pos(c), "pairs are visited from k=0 in steps of 1",
				fmt.Sprintf("pairs are visited from k=%d in steps of %d: gaps between runs are skipped", init+off, step))
			bound, ok := s.IterBound(kVal, c.Block())
			wantB := fw.GxFact{P: lenM.Sub(fw.PConst(2)).Sub(c04A("IDX")), K: fw.GxGE}
			okB := ok && len(bound) > 0
			for _, f := range bound {
				if !f.Same(wantB) {
					okB = false
				}
			}
			msg := "loop bound not recognised"
			if ok && len(bound) > 0 {
				msg = "loop runs while " + bound[0].String() + " (IDX = k), expected k <= len(merged)-2: the last gap between runs is dropped or the list is over-indexed"
			}
			ru.Check(okB, "Gaps:emit:mid:loop-bound", g.pos(c), "pairs are visited while k+1 < len(merged)", msg)
		}
	})
	for _, cat := range []string{"first", "mid", "tail"} {
		if count[cat] != 1 {
			ru.Fail("Gaps:emit:"+cat+":count", g.pos(g.starts[0]), fmt.Sprintf("%d emission sites for the %s gap, expected 1", count[cat], cat))
		}
	}
	if usedZero {
		// the formulas are only right for total.Start == 0: every caller must guarantee it
		for _, o := range zeroObs {
			switch o.st {
			case "ok":
				ru.Ok(o.key, o.pos, o.msg)
			case "fail":
				ru.Fail(o.key, o.pos, o.msg)
			default:
				ru.Undecided(o.key, o.pos, o.msg)
			}
		}
	}
	for i, ret := range g.gRets {
		ru.Ok(fmt.Sprintf("Gaps:return-gaps#%d", i+1), g.pos(ret), "returns the gap list (not the merged runs)")
	}
}

type c04Ob struct{ st, key, pos, msg string }

// c04CallersStartZero: does every caller of ranges.Gaps pass a total range whose Start is the
// constant 0 (directly or by forwarding its own parameter)? Returns the verdict and the
// per-call-site obligations, which are recorded only when an emission formula relies on it.
func c04CallersStartZero(p *fw.Program, g *c04Gaps) (bool, []c04Ob) {
	var obs []c04Ob
	all := true
	n := 0
	var visit func(fn *ssa.Function, argIdx int, depth int)
	visit = func(fn *ssa.Function, argIdx int, depth int) {
		for _, caller := range p.FqFunctions() {
			for _, c := range fw.CallsIn(caller) {
				if c.Common().StaticCallee() != fn || c.Common().IsInvoke() {
					continue
				}
				args := c.Common().Args
				if argIdx >= len(args) {
					continue
				}
				n++
				key := "Gaps:emit:total-starts-at-0:" + fw.ShortFn(caller)
				a := args[argIdx]
				if par, ok := a.(*ssa.Parameter); ok && depth < 3 {
					idx := -1
					for i, q := range caller.Params {
						if q == par {
							idx = i
						}
					}
					if idx >= 0 {
						obs = append(obs, c04Ob{"ok", key, p.Rel(c.Pos()), "forwards its own parameter"})
						visit(caller, idx, depth+1)
						continue
					}
				}
				fields, _, ok := fw.GxLitFields(a)
				if !ok {
					all = false
					obs = append(obs, c04Ob{"undecided", key, p.Rel(c.Pos()), "ranges.Gaps emission assumes total.Start == 0 but the total range passed here is not a literal or a forwarded parameter"})
					continue
				}
				st, has := fields["Start"]
				zero := !has
				if has {
					cv, isC := fw.NewGxSym(caller).Int(st).IsConst()
					zero = isC && cv == 0
				}
				if zero {
					obs = append(obs, c04Ob{"ok", key, p.Rel(c.Pos()), "total.Start is the constant 0"})
				} else {
					all = false
					obs = append(obs, c04Ob{"fail", key, p.Rel(c.Pos()), "ranges.Gaps emits its gaps assuming total.Start == 0 but this caller passes a total range that does not start at 0"})
				}
			}
		}
	}
	visit(g.fn, 0, 0)
	if n == 0 {
		all = false
		obs = append(obs, c04Ob{"undecided", "Gaps:emit:total-starts-at-0", g.pos(g.starts[0]), "no caller of ranges.Gaps found"})
	}
	return all, obs
}
