package rules

import (
	"strings"

	"fqverif/fw"
)

// Every program given on the command line or in the REPL is not handed to the engine as written: eval.jq
// parses it, rewrites the tree (`<inputs> | try (<program>) catch <handler> | <output>`, slurp calls cut
// out) and prints it back. "Same outputs, fails at the same point" for a standard program on several
// inputs therefore needs two things that sibling properties already decide exactly; they are borrowed
// under C07 rule ids so that C07 reports them itself:
//
//	C07.rewrite  (C11.wrap)      the rewrite wraps the untouched program, always and only as `(program)`,
//	                             whatever its shape (the decision to wrap depends on the options alone);
//	C07.perinput (C17.handlers)  the protected program sits inside the input iteration and before the
//	                             output query, _query_try/_query_pipe build what their names say, and the
//	                             handler records, prints and continues: an error raised for one input is
//	                             reported for that input and the next input is still evaluated, as the
//	                             reference engine's command line does.
func c07Rewrite(r *fw.Run, p *fw.Program) {
	if f := Get("C11"); f != nil {
		sc := r.Scratch()
		f(sc, p)
		r.Import(sc, "C11.wrap", "C07.rewrite", "the query rewrite every command-line/REPL program goes through (_eval_query_rewrite) probes the untouched query, cuts a slurp call out with the matching transformer, and puts the user's program into try only as (program) via _query_query, under a condition on the options alone (never on the shape of the program); input and output queries are piped around it (C11.wrap obligations)", 29, nil)
	} else {
		r.Rule("C07.rewrite", "borrowed from C11.wrap", 1).Undecided("anchor", "", "property C11 is not registered")
	}
	if f := Get("C17"); f != nil {
		sc := r.Scratch()
		f(sc, p)
		r.Import(sc, "C17.handlers", "C07.perinput", "a runtime error of the user's program on one input is reported for that input and evaluation continues with the next: the rewrite is `inputs | try (program) catch handler | output`, _query_try/_query_pipe build try-catch and pipe of their arguments in order, and the expression-error handler records, prints and does not raise (C17.handlers obligations on the rewrite and the expression-error handler)", 8,
			func(k string) bool {
				return strings.HasPrefix(k, "rewrite:") || strings.HasPrefix(k, "on_expr_error:")
			})
	} else {
		r.Rule("C07.perinput", "borrowed from C17.handlers", 1).Undecided("anchor", "", "property C17 is not registered")
	}
}
