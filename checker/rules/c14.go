package rules

// C14 Conversion functions round-trip and agree with reference implementations.
//
// Statically, "agrees with the reference" is shown by *calling* the reference; "round-trips" by
// agreement of the small facts both directions share (tables, labels, option literals, keys).
// Every rule below is a structural necessary condition; no inverse law is decided.

import (
	"fmt"
	"go/constant"
	"go/token"
	"go/types"
	"strings"

	"golang.org/x/tools/go/ssa"

	"fqverif/fw"
)

func init() { Register("C14", runC14) }

// c14Ctx carries what the C14 rules share.
type c14Ctx struct {
	r   *fw.Run
	p   *fw.Program
	reg map[string]*ssa.Function // jq name -> registered Go function
	jq  *fw.JQ

	// label sets of the selector functions, filled by c14Case and used by the jq pair rule
	strLabels, b64Labels, hashLabels map[string]bool
	b64Default                       string // identifier returned by the default arm
}

func runC14(r *fw.Run, p *fw.Program) {
	cx := &c14Ctx{r: r, p: p, reg: map[string]*ssa.Function{}}
	for fn := range jqRegistered(p) {
		if n := jqRegisteredName(p, fn); n != "" {
			cx.reg[n] = fn
		}
	}
	jq, err := fw.LoadJQ(p.Repo)
	if err != nil {
		r.Fatal("jq sources: " + err.Error())
		return
	}
	cx.jq = jq

	c14Bind(cx)
	c14Case(cx)
	c14Err(cx)
	c14Bits(cx)
	c14Norm(cx)
	c14Shape(cx)
	c14Multi(cx)
	c14Seq(cx)
	c14Prefix(cx)
	c14XMLKeys(cx)
	c14Flush(cx)
	c14URLKeys(cx)
	c14CSV(cx)
	c14JSON(cx)
	c14Pair(cx)
	c14Radix(cx)
	c14Regex(cx)
	c14JQErr(cx)
	c14Feed(cx)
	c14Flow(cx)
	c14JQLit(cx)
	c14XMLNS(cx)
	// tojson | fromjson is the identity only if the string encoder writes every byte once and escapes as the
	// engine does (borrowed from C07.json string role and C07.scan)
	if ref, err := c07LoadRef(p); err != nil {
		r.Rule("C14.jsonenc", "borrowed C07.json", 1).Undecided("borrowed:C07.json", "", err.Error())
	} else {
		sc := r.Scratch()
		c07Encoder(sc, p, ref)
		c07ScanRule(sc, p)
		const d = "tojson/to_jsonl text is what fromjson reads back: colorjson's string, array and object roles have exactly the engine encoder's effects (escape table, \\u00XX form, invalid UTF-8 replacement) and the string loop writes every input byte exactly once (C07.json string/array/object obligations, C07.scan)"
		r.Import(sc, "C07.json", "C14.jsonenc", d, 20, func(k string) bool { return !strings.Contains(k, "float:") })
		r.Import(sc, "C07.scan", "C14.jsonenc", d, 20, nil)
		// a number survives tojson | fromjson only if its digits come from the exact printer of its type
		c10JSONRules(sc, p)
		r.Import(sc, "C10.json", "C14.jsonenc", d, 20, func(k string) bool { return strings.Contains(k, "one-printer") })
	}
}

// ---------------------------------------------------------------------------
// generic helpers (resolution through SSA only)

// c14Resolve resolves the function a call targets: static callee, a function value, or a
// closure held in a single-assignment local variable (possibly captured by the caller).
func c14Resolve(c ssa.CallInstruction) *ssa.Function {
	cc := c.Common()
	if cc.IsInvoke() {
		return nil
	}
	if f := cc.StaticCallee(); f != nil {
		return f
	}
	return c14FuncValue(cc.Value, 0)
}

func c14FuncValue(v ssa.Value, depth int) *ssa.Function {
	if depth > 4 {
		return nil
	}
	switch x := v.(type) {
	case *ssa.Function:
		return x
	case *ssa.MakeClosure:
		f, _ := x.Fn.(*ssa.Function)
		return f
	case *ssa.ChangeType:
		return c14FuncValue(x.X, depth+1)
	case *ssa.UnOp:
		if x.Op != token.MUL {
			return nil
		}
		cell := c14Cell(x.X, 0)
		if cell == nil {
			return nil
		}
		var val ssa.Value
		n := 0
		for _, f := range fw.WithClosures(cell.Parent()) {
			fw.EachInstr(f, func(ins ssa.Instruction) {
				st, ok := ins.(*ssa.Store)
				if !ok {
					return
				}
				if c14Cell(st.Addr, 0) == cell {
					n++
					val = st.Val
				}
			})
		}
		if n != 1 {
			return nil
		}
		return c14FuncValue(val, depth+1)
	}
	return nil
}

// c14Cell resolves an address to the Alloc it denotes, following captured variables outwards.
func c14Cell(addr ssa.Value, depth int) *ssa.Alloc {
	if depth > 4 {
		return nil
	}
	switch a := addr.(type) {
	case *ssa.Alloc:
		return a
	case *ssa.FreeVar:
		fn := a.Parent()
		idx := -1
		for i, fv := range fn.FreeVars {
			if fv == a {
				idx = i
			}
		}
		if idx < 0 || fn.Parent() == nil {
			return nil
		}
		var out *ssa.Alloc
		fw.EachInstr(fn.Parent(), func(ins ssa.Instruction) {
			mc, ok := ins.(*ssa.MakeClosure)
			if !ok || mc.Fn != fn || idx >= len(mc.Bindings) {
				return
			}
			if c := c14Cell(mc.Bindings[idx], depth+1); c != nil {
				out = c
			}
		})
		return out
	}
	return nil
}

// c14Local returns root and every fq function of the same package reachable from it through
// resolvable calls, with their nested closures, in stable order.
func c14Local(root *ssa.Function) []*ssa.Function {
	pkg := fw.FnPkgPath(root)
	seen := map[*ssa.Function]bool{}
	var out []*ssa.Function
	var visit func(f *ssa.Function)
	visit = func(f *ssa.Function) {
		if f == nil || seen[f] || f.Blocks == nil || fw.FnPkgPath(f) != pkg {
			return
		}
		seen[f] = true
		out = append(out, f)
		for _, a := range f.AnonFuncs {
			visit(a)
		}
		for _, c := range fw.CallsIn(f) {
			visit(c14Resolve(c))
			// function values passed as arguments (ValueFn: ..., sort comparators)
			for _, a := range c.Common().Args {
				if g := c14FuncValue(a, 0); g != nil {
					visit(g)
				}
			}
		}
	}
	visit(root)
	return out
}

// c14CalleePkg returns the package path that declares the callee (for interface calls: the
// package of the named interface type).
func c14CalleePkg(c ssa.CallInstruction) string {
	cc := c.Common()
	if cc.IsInvoke() {
		if n, ok := cc.Value.Type().(*types.Named); ok && n.Obj().Pkg() != nil {
			return n.Obj().Pkg().Path()
		}
		return ""
	}
	f := cc.StaticCallee()
	if f == nil {
		return ""
	}
	if o := f.Origin(); o != nil {
		f = o
	}
	if f.Object() != nil && f.Object().Pkg() != nil {
		return f.Object().Pkg().Path()
	}
	if f.Pkg != nil {
		return f.Pkg.Pkg.Path()
	}
	return ""
}

// c14Name is the callee name: "pkg.Func", "(*pkg.T).Method", or for interface calls "pkg.Iface.Method".
func c14Name(c ssa.CallInstruction) string {
	cc := c.Common()
	if cc.IsInvoke() {
		return types.TypeString(cc.Value.Type(), nil) + "." + cc.Method.Name()
	}
	return fw.CalleeName(c)
}

// codec packages: the reference implementations conversion functions must call.
var c14CodecPkgs = map[string]bool{
	"encoding/hex": true, "encoding/base64": true, "net/url": true, "html": true,
	"crypto/md5": true, "crypto/sha1": true, "crypto/sha256": true, "crypto/sha512": true,
	"golang.org/x/crypto/md4": true, "golang.org/x/crypto/sha3": true, "hash": true,
	"golang.org/x/text/encoding": true, "golang.org/x/text/encoding/charmap": true, "golang.org/x/text/encoding/unicode": true,
	"encoding/json": true, "gopkg.in/yaml.v3": true, "github.com/BurntSushi/toml": true,
	"encoding/xml": true, "encoding/csv": true, fw.Mod + "/internal/colorjson": true,
}

// c14Deps is the backward data-dependence closure of v: operands, values stored into a local
// cell it reads, calls that receive the address of such a cell, captured variables.
func c14Deps(v ssa.Value) map[ssa.Value]bool {
	seen := map[ssa.Value]bool{}
	var work []ssa.Value
	push := func(x ssa.Value) {
		if x != nil && !seen[x] {
			seen[x] = true
			work = append(work, x)
		}
	}
	push(v)
	var addrUsers func(a ssa.Value, depth int)
	addrUsers = func(a ssa.Value, depth int) {
		if depth > 6 || a.Referrers() == nil {
			return
		}
		for _, ref := range *a.Referrers() {
			switch x := ref.(type) {
			case *ssa.Store:
				if x.Addr == a {
					push(x.Val)
				}
			case *ssa.FieldAddr:
				addrUsers(x, depth+1)
			case *ssa.IndexAddr:
				if x.X == a {
					addrUsers(x, depth+1)
				}
			case *ssa.MakeInterface:
				addrUsers(x, depth+1)
			case *ssa.ChangeType:
				addrUsers(x, depth+1)
			case *ssa.Slice:
				// slicing a local array: stores go through IndexAddr of the array, nothing to add
			case *ssa.MapUpdate:
				if x.Map == a {
					push(x.Key)
					push(x.Value)
				}
			case *ssa.Call:
				for _, arg := range x.Common().Args {
					if arg == a {
						push(x)
					}
				}
			}
		}
	}
	for len(work) > 0 {
		x := work[len(work)-1]
		work = work[:len(work)-1]
		switch t := x.(type) {
		case *ssa.Alloc:
			addrUsers(t, 0)
			continue
		case *ssa.MakeMap:
			addrUsers(t, 0)
			continue
		case *ssa.FreeVar:
			if c := c14Cell(t, 0); c != nil {
				push(c)
			}
			continue
		}
		if ins, ok := x.(ssa.Instruction); ok {
			for _, op := range ins.Operands(nil) {
				if op != nil && *op != nil {
					push(*op)
				}
			}
		}
	}
	return seen
}

// c14DepCalls lists the names of the calls in the dependence closure of v.
func c14DepCalls(v ssa.Value) map[string]*ssa.Call {
	out := map[string]*ssa.Call{}
	for d := range c14Deps(v) {
		if c, ok := d.(*ssa.Call); ok {
			out[c14Name(c)] = c
		}
	}
	return out
}

func c14IsErrorType(t types.Type) bool {
	errT := types.Universe.Lookup("error").Type()
	if types.Identical(t, errT) {
		return true
	}
	if _, isIface := t.Underlying().(*types.Interface); isIface {
		return false
	}
	return types.Implements(t, errT.Underlying().(*types.Interface)) ||
		types.Implements(types.NewPointer(t), errT.Underlying().(*types.Interface))
}

// c14Strip removes interface conversions.
func c14Strip(v ssa.Value) ssa.Value {
	for {
		switch x := v.(type) {
		case *ssa.MakeInterface:
			v = x.X
		case *ssa.ChangeInterface:
			v = x.X
		case *ssa.ChangeType:
			v = x.X
		default:
			return v
		}
	}
}

func c14ConstInt(v ssa.Value) (int64, bool) {
	c, ok := v.(*ssa.Const)
	if !ok || c.Value == nil {
		return 0, false
	}
	switch c.Value.Kind() {
	case constant.Int:
		return constant.Int64Val(c.Value)
	case constant.Bool:
		if constant.BoolVal(c.Value) {
			return 1, true
		}
		return 0, true
	}
	return 0, false
}

// c14DecodeRoot finds the function stored into DecodeFn of the decode.Format registered for
// the exported format group variable format.<group>.
func c14DecodeRoot(p *fw.Program, group string) *ssa.Function {
	named, idx := decodeFormatField(p, "DecodeFn")
	if named == nil || idx < 0 {
		return nil
	}
	var out *ssa.Function
	for _, fn := range p.FqFunctions() {
		for _, c := range fw.CallsIn(fn) {
			if fw.CalleeName(c) != fw.Mod+"/pkg/interp.RegisterFormat" || len(c.Common().Args) < 2 {
				continue
			}
			ld, ok := c.Common().Args[0].(*ssa.UnOp)
			if !ok {
				continue
			}
			g, ok := ld.X.(*ssa.Global)
			if !ok || g.Name() != group || g.Pkg.Pkg.Path() != fw.Mod+"/format" {
				continue
			}
			alloc := c.Common().Args[1]
			fw.EachInstr(fn, func(ins ssa.Instruction) {
				st, ok := ins.(*ssa.Store)
				if !ok || !isFieldAddrOf(st.Addr, named, idx) || st.Addr.(*ssa.FieldAddr).X != alloc {
					return
				}
				if f := c14FuncValue(st.Val, 0); f != nil {
					out = f
				}
			})
		}
	}
	return out
}

// ---------------------------------------------------------------------------
// C14.bind

// c14Row binds a conversion entry point to the reference codec entry points it must reach.
type c14Row struct {
	jq     string   // registered jq name, or
	group  string   // decode root of format.<group>
	anyOf  []string // at least one of these must be called (all are allowed)
	all    []string // each of these must be called
	also   []string // further allowed callees of the codec packages
	prefix []string // allowed callee prefixes (e.g. the label->codec selector arms)
}

// accessors of url.Values that may be used to build a query (misuse in loops is C14.multi's business)
var c14URLAlso = []string{"(net/url.Values).Add", "(net/url.Values).Set", "(net/url.Values).Get", "(net/url.Values).Has", "(net/url.Values).Del"}

var c14Rows = []c14Row{
	{jq: "from_hex", anyOf: []string{"encoding/hex.DecodeString", "encoding/hex.Decode", "encoding/hex.NewDecoder", "encoding/hex.AppendDecode"}},
	{jq: "to_hex", anyOf: []string{"encoding/hex.NewEncoder", "encoding/hex.EncodeToString", "encoding/hex.Encode", "encoding/hex.AppendEncode"}},
	{jq: "_from_base64", anyOf: []string{"(*encoding/base64.Encoding).DecodeString", "(*encoding/base64.Encoding).Decode", "(*encoding/base64.Encoding).AppendDecode", "encoding/base64.NewDecoder"}},
	{jq: "_to_base64", anyOf: []string{"encoding/base64.NewEncoder", "(*encoding/base64.Encoding).EncodeToString", "(*encoding/base64.Encoding).Encode", "(*encoding/base64.Encoding).AppendEncode"}},
	{jq: "from_urlencode", anyOf: []string{"net/url.QueryUnescape"}},
	{jq: "to_urlencode", anyOf: []string{"net/url.QueryEscape"}},
	{jq: "from_urlpath", anyOf: []string{"net/url.PathUnescape"}},
	{jq: "to_urlpath", anyOf: []string{"net/url.PathEscape"}},
	{jq: "from_urlquery", anyOf: []string{"net/url.ParseQuery"}},
	{jq: "to_urlquery", anyOf: []string{"(net/url.Values).Encode"}, also: c14URLAlso},
	{jq: "from_url", anyOf: []string{"net/url.Parse"}, also: []string{"(*net/url.URL).Query", "(*net/url.Userinfo).Username", "(*net/url.Userinfo).Password"}},
	{jq: "to_url", anyOf: []string{"(*net/url.URL).String"}, also: append([]string{"(net/url.Values).Encode", "net/url.User", "net/url.UserPassword"}, c14URLAlso...)},
	{jq: "_to_hash", all: []string{"hash.Hash.Sum"}, also: []string{"hash.Hash.Write"},
		prefix: []string{"crypto/md5.", "crypto/sha1.", "crypto/sha256.", "crypto/sha512.", "golang.org/x/crypto/md4.", "golang.org/x/crypto/sha3."}},
	{jq: "_to_strencoding", all: []string{"golang.org/x/text/encoding.Encoding.NewEncoder"}, anyOf: []string{"(*golang.org/x/text/encoding.Encoder).Writer", "(*golang.org/x/text/encoding.Encoder).Bytes", "(*golang.org/x/text/encoding.Encoder).String"},
		prefix: []string{"golang.org/x/text/encoding/unicode.UTF"}},
	{jq: "_from_strencoding", all: []string{"golang.org/x/text/encoding.Encoding.NewDecoder"}, anyOf: []string{"(*golang.org/x/text/encoding.Decoder).Reader", "(*golang.org/x/text/encoding.Decoder).Bytes", "(*golang.org/x/text/encoding.Decoder).String"},
		prefix: []string{"golang.org/x/text/encoding/unicode.UTF"}},
	{jq: "_to_json", anyOf: []string{"(*" + fw.Mod + "/internal/colorjson.Encoder).Marshal"}, also: []string{fw.Mod + "/internal/colorjson.NewEncoder"}},
	{jq: "to_jsonl", anyOf: []string{"(*" + fw.Mod + "/internal/colorjson.Encoder).Marshal"}, also: []string{fw.Mod + "/internal/colorjson.NewEncoder"}},
	{jq: "_to_yaml", anyOf: []string{"(*gopkg.in/yaml.v3.Encoder).Encode", "gopkg.in/yaml.v3.Marshal"}, also: []string{"gopkg.in/yaml.v3.NewEncoder", "(*gopkg.in/yaml.v3.Encoder).SetIndent", "(*gopkg.in/yaml.v3.Encoder).Close"}},
	{jq: "_to_toml", anyOf: []string{"(*github.com/BurntSushi/toml.Encoder).Encode", "github.com/BurntSushi/toml.Marshal"}, also: []string{"github.com/BurntSushi/toml.NewEncoder"}},
	{jq: "_to_csv", anyOf: []string{"(*encoding/csv.Writer).Write", "(*encoding/csv.Writer).WriteAll"}, all: []string{"(*encoding/csv.Writer).Flush"}, also: []string{"encoding/csv.NewWriter", "(*encoding/csv.Writer).Error"}},
	{jq: "to_xml", anyOf: []string{"(*encoding/xml.Encoder).Encode", "(*encoding/xml.Encoder).EncodeElement", "encoding/xml.Marshal", "encoding/xml.MarshalIndent"},
		also: []string{"encoding/xml.NewEncoder", "(*encoding/xml.Encoder).Indent", "(*encoding/xml.Encoder).Flush", "(*encoding/xml.Encoder).Close"}},
	{jq: "from_xmlentities", anyOf: []string{"html.UnescapeString"}},
	{jq: "to_xmlentities", anyOf: []string{"html.EscapeString"}},
	{group: "JSON", anyOf: []string{"(*encoding/json.Decoder).Decode"}, all: []string{"(*encoding/json.Decoder).UseNumber"}, also: []string{"encoding/json.NewDecoder"}},
	{group: "JSONL", anyOf: []string{"(*encoding/json.Decoder).Decode"}, all: []string{"(*encoding/json.Decoder).UseNumber"}, also: []string{"encoding/json.NewDecoder"}},
	{group: "YAML", anyOf: []string{"(*gopkg.in/yaml.v3.Decoder).Decode", "gopkg.in/yaml.v3.Unmarshal"}, also: []string{"gopkg.in/yaml.v3.NewDecoder"}},
	{group: "TOML", anyOf: []string{"(*github.com/BurntSushi/toml.Decoder).Decode", "github.com/BurntSushi/toml.Unmarshal", "github.com/BurntSushi/toml.Decode", "github.com/BurntSushi/toml.NewDecoder"}, also: []string{"github.com/BurntSushi/toml.NewDecoder"}},
	{group: "XML", anyOf: []string{"(*encoding/xml.Decoder).Decode", "(*encoding/xml.Decoder).DecodeElement", "encoding/xml.Unmarshal"},
		also: []string{"encoding/xml.NewDecoder", "(*encoding/xml.Decoder).Token", "(*encoding/xml.Decoder).InputOffset", "(*encoding/xml.Decoder).DecodeElement"}},
	{group: "CSV", anyOf: []string{"(*encoding/csv.Reader).Read", "(*encoding/csv.Reader).ReadAll"}, also: []string{"encoding/csv.NewReader"}},
}

func (row c14Row) key() string {
	if row.jq != "" {
		return row.jq
	}
	return "decode:" + strings.ToLower(row.group)
}

// c14Root resolves a row's entry point.
func (cx *c14Ctx) root(row c14Row) *ssa.Function {
	if row.jq != "" {
		return cx.reg[row.jq]
	}
	return c14DecodeRoot(cx.p, row.group)
}

// harmless helpers of the codec packages that compute no converted value
func c14Harmless(name string) bool {
	short := name[strings.LastIndex(name, ".")+1:]
	return strings.HasSuffix(short, "Len") || short == "Error" || short == "Strict" || short == "Buffered"
}

func c14Bind(cx *c14Ctx) {
	ru := cx.r.Rule("C14.bind", "each registered conversion function / text decoder reaches the reference codec entry point of its name (hex, base64, net/url, html, x/text encoder vs decoder, hash.Sum, colorjson, yaml, toml, xml, csv, json.Decoder+UseNumber) and calls no other function of the codec packages", 29)
	for _, row := range c14Rows {
		root := cx.root(row)
		if root == nil {
			ru.Undecided(row.key(), "", "conversion entry point not found (renamed or no longer registered): update the binding table")
			continue
		}
		called := map[string]ssa.CallInstruction{}
		for _, f := range c14Local(root) {
			for _, c := range fw.CallsIn(f) {
				if c14CodecPkgs[c14CalleePkg(c)] {
					called[c14Name(c)] = c
				}
			}
		}
		allowed := map[string]bool{}
		for _, l := range [][]string{row.anyOf, row.all, row.also} {
			for _, n := range l {
				allowed[n] = true
			}
		}
		var problems []string
		if len(row.anyOf) > 0 {
			hit := false
			for _, n := range row.anyOf {
				if called[n] != nil {
					hit = true
				}
			}
			if !hit {
				problems = append(problems, "calls none of the reference entry points "+strings.Join(row.anyOf, " | "))
			}
		}
		for _, n := range row.all {
			if called[n] == nil {
				problems = append(problems, "does not call "+n)
			}
		}
		for _, n := range fw.SortedKeys(called) {
			if allowed[n] || c14Harmless(n) {
				continue
			}
			ok := false
			for _, pre := range row.prefix {
				if strings.HasPrefix(n, pre) {
					ok = true
				}
			}
			if !ok {
				problems = append(problems, "calls "+n+", which is not the codec bound to this name")
			}
		}
		ru.Check(len(problems) == 0, row.key(), cx.p.Rel(root.Pos()), "reaches "+strings.Join(fw.SortedKeys(called), ", "), strings.Join(problems, "; "))
	}
}

// ---------------------------------------------------------------------------
// C14.case: label -> codec selector functions

// c14Selector finds, in the registered function jqName, the resolvable fq callee whose single
// result has the named type pkg.name, and the call instruction.
func (cx *c14Ctx) selector(jqName, pkg, name string) (*ssa.Function, *ssa.Call, *ssa.Function) {
	root := cx.reg[jqName]
	if root == nil {
		return nil, nil, nil
	}
	for _, f := range c14Local(root) {
		for _, ci := range fw.CallsIn(f) {
			c, ok := ci.(*ssa.Call)
			if !ok {
				continue
			}
			g := c14Resolve(c)
			if g == nil || !fw.InFq(g) || g.Signature.Results().Len() != 1 {
				continue
			}
			t := g.Signature.Results().At(0).Type()
			if pt, ok := t.(*types.Pointer); ok {
				t = pt.Elem()
			}
			n, ok := t.(*types.Named)
			if !ok || n.Obj().Pkg() == nil || n.Obj().Pkg().Path() != pkg || n.Obj().Name() != name {
				continue
			}
			return g, c, f
		}
	}
	return nil, nil, nil
}

// c14Arm is one return of a selector with the labels that lead to it (nil = default arm).
type c14Arm struct {
	labels []string
	ret    *ssa.Return
}

// c14Arms computes the label -> return mapping of a function of one string parameter that
// compares it with constants (switch or if chain).
func c14Arms(f *ssa.Function) []c14Arm {
	labelsOf := map[*ssa.BasicBlock][]string{}
	fw.EachInstr(f, func(ins ssa.Instruction) {
		ifi, ok := ins.(*ssa.If)
		if !ok {
			return
		}
		bo, ok := ifi.Cond.(*ssa.BinOp)
		if !ok || bo.Op != token.EQL {
			return
		}
		var s string
		var isConst bool
		if _, isP := bo.X.(*ssa.Parameter); isP {
			s, isConst = c14Str(bo.Y)
		} else if _, isP := bo.Y.(*ssa.Parameter); isP {
			s, isConst = c14Str(bo.X)
		}
		if !isConst {
			return
		}
		t := ifi.Block().Succs[0]
		labelsOf[t] = append(labelsOf[t], s)
	})
	var out []c14Arm
	for _, ret := range returnsOf(f) {
		var labels []string
		for b := ret.Block(); b != nil; b = b.Idom() {
			if l, ok := labelsOf[b]; ok {
				labels = l
				break
			}
		}
		out = append(out, c14Arm{labels: labels, ret: ret})
	}
	return out
}

func c14PkgConst(p *fw.Program, pkg, name string) (int64, bool) {
	pk := p.ByPath[pkg]
	if pk == nil || pk.Types == nil {
		return 0, false
	}
	c, ok := pk.Types.Scope().Lookup(name).(*types.Const)
	if !ok {
		return 0, false
	}
	switch c.Val().Kind() {
	case constant.Bool:
		if constant.BoolVal(c.Val()) {
			return 1, true
		}
		return 0, true
	case constant.Int:
		return constant.Int64Val(c.Val())
	}
	return 0, false
}

func c14PkgHas(p *fw.Program, pkg, name string) bool {
	pk := p.ByPath[pkg]
	return pk != nil && pk.Types != nil && pk.Types.Scope().Lookup(name) != nil
}

// c14HashRef derives the reference constructor a hash label names.
func c14HashRef(label string) string {
	switch label {
	case "md4":
		return "golang.org/x/crypto/md4.New"
	case "md5":
		return "crypto/md5.New"
	case "sha1":
		return "crypto/sha1.New"
	case "sha224":
		return "crypto/sha256.New224"
	case "sha256":
		return "crypto/sha256.New"
	case "sha384":
		return "crypto/sha512.New384"
	case "sha512":
		return "crypto/sha512.New"
	case "sha512_224":
		return "crypto/sha512.New512_224"
	case "sha512_256":
		return "crypto/sha512.New512_256"
	}
	if strings.HasPrefix(label, "sha3_") {
		return "golang.org/x/crypto/sha3.New" + strings.TrimPrefix(label, "sha3_")
	}
	return ""
}

// loadedGlobal returns the package-level variable v is a load of.
func c14LoadedGlobal(v ssa.Value) *ssa.Global {
	v = c14Strip(v)
	if u, ok := v.(*ssa.UnOp); ok && u.Op == token.MUL {
		g, _ := u.X.(*ssa.Global)
		return g
	}
	return nil
}

func c14Case(cx *c14Ctx) {
	ru := cx.r.Rule("C14.case", "in the label->codec selectors (base64 variant, string encoding, hash) every case label that names an identifier of the codec package returns exactly that identifier (UTF16LE/BE/BOM rows: endianness and BOM policy constants), both directions use the same selector fed from the options field, and its nil default is turned into an error", 68)
	p := cx.p
	cx.strLabels, cx.b64Labels, cx.hashLabels = map[string]bool{}, map[string]bool{}, map[string]bool{}

	type selUse struct {
		jq        string
		pkg, name string
	}
	groups := [][]selUse{
		{{"_to_base64", "encoding/base64", "Encoding"}, {"_from_base64", "encoding/base64", "Encoding"}},
		{{"_to_strencoding", "golang.org/x/text/encoding", "Encoding"}, {"_from_strencoding", "golang.org/x/text/encoding", "Encoding"}},
		{{"_to_hash", "hash", "Hash"}},
	}
	for gi, g := range groups {
		var sel *ssa.Function
		for _, u := range g {
			f, call, caller := cx.selector(u.jq, u.pkg, u.name)
			if f == nil {
				ru.Undecided("selector:"+u.jq, "", "no fq callee returning "+u.pkg+"."+u.name+" found in "+u.jq)
				continue
			}
			if sel == nil {
				sel = f
			} else {
				ru.Check(sel == f, "same-selector:"+u.jq, p.Rel(call.Pos()), "both directions use "+fw.ShortFn(f),
					u.jq+" selects its codec with "+fw.ShortFn(f)+" but the opposite direction uses "+fw.ShortFn(sel)+": the pair no longer agrees on label meaning")
			}
			// the selector argument comes from the options parameter
			fromOpts := false
			if len(call.Call.Args) == 1 && len(caller.Params) > 0 {
				opts := caller.Params[len(caller.Params)-1]
				fromOpts = c14Deps(call.Call.Args[0])[opts]
			}
			ru.Check(fromOpts, "selector-arg:"+u.jq, p.Rel(call.Pos()), "label comes from the options argument", "the label passed to "+fw.ShortFn(f)+" does not come from the options argument of "+u.jq)
			// a nil default must become an error at the call site
			hasNil := false
			for _, a := range c14Arms(f) {
				if c, ok := c14Strip(a.ret.Results[0]).(*ssa.Const); ok && c.IsNil() {
					hasNil = true
				}
			}
			if hasNil {
				ok, why := c14NilChecked(call)
				ru.Check(ok, "nil-default:"+u.jq, p.Rel(call.Pos()), "unknown label yields an error", "unknown label is not rejected in "+u.jq+": "+why)
			}
		}
		if sel == nil {
			continue
		}
		for _, arm := range c14Arms(sel) {
			rv := c14Strip(arm.ret.Results[0])
			pos := p.Rel(arm.ret.Pos())
			if arm.labels == nil {
				// default arm
				switch gi {
				case 0:
					g := c14LoadedGlobal(rv)
					if g != nil {
						cx.b64Default = g.Name()
					}
					ru.Check(g != nil && g.Pkg.Pkg.Path() == "encoding/base64" && g.Name() == "StdEncoding", "base64:default", pos, "default is base64.StdEncoding",
						"the default base64 variant (used for null options and \"std\") is not base64.StdEncoding")
				}
				continue
			}
			for _, label := range arm.labels {
				switch gi {
				case 0:
					cx.b64Labels[label] = true
					want := ""
					if pk := p.ByPath["encoding/base64"]; pk != nil {
						for _, n := range pk.Types.Scope().Names() {
							if strings.ToLower(n) == strings.ToLower(label)+"encoding" {
								want = n
							}
						}
					}
					if want == "" {
						continue
					}
					g := c14LoadedGlobal(rv)
					ru.Check(g != nil && g.Pkg.Pkg.Path() == "encoding/base64" && g.Name() == want, "base64:"+label, pos, "returns base64."+want,
						fmt.Sprintf("case %q returns %s, expected base64.%s", label, c14Describe(rv), want))
				case 1:
					cx.strLabels[label] = true
					switch {
					case strings.HasPrefix(label, "UTF16"):
						c14CheckUTF16(cx, ru, label, rv, pos)
					case c14PkgHas(p, "golang.org/x/text/encoding/charmap", label), c14PkgHas(p, "golang.org/x/text/encoding/unicode", label):
						g := c14LoadedGlobal(rv)
						ru.Check(g != nil && g.Name() == label && strings.HasPrefix(g.Pkg.Pkg.Path(), "golang.org/x/text/encoding/"), "strencoding:"+label, pos, "returns "+label,
							fmt.Sprintf("case %q returns %s, expected the encoding named %s", label, c14Describe(rv), label))
					}
				case 2:
					cx.hashLabels[label] = true
					want := c14HashRef(label)
					if want == "" {
						continue
					}
					got := ""
					if c, ok := rv.(*ssa.Call); ok {
						got = c14Name(c)
					}
					ru.Check(got == want, "hash:"+label, pos, "returns "+want+"()", fmt.Sprintf("case %q returns %s, expected %s()", label, c14Describe(rv), want))
				}
			}
		}
	}
}

func c14Describe(v ssa.Value) string {
	if g := c14LoadedGlobal(v); g != nil {
		return g.Pkg.Pkg.Name() + "." + g.Name()
	}
	if c, ok := v.(*ssa.Call); ok {
		return c14Name(c) + "(...)"
	}
	return v.String()
}

func c14CheckUTF16(cx *c14Ctx, ru *fw.Rule, label string, rv ssa.Value, pos string) {
	const upkg = "golang.org/x/text/encoding/unicode"
	call, ok := rv.(*ssa.Call)
	if !ok || c14Name(call) != upkg+".UTF16" || len(call.Call.Args) != 2 {
		ru.Fail("strencoding:"+label, pos, fmt.Sprintf("case %q returns %s, expected unicode.UTF16(...)", label, c14Describe(rv)))
		return
	}
	endian, ok1 := c14ConstInt(call.Call.Args[0])
	bom, ok2 := c14ConstInt(call.Call.Args[1])
	le, ok3 := c14PkgConst(cx.p, upkg, "LittleEndian")
	be, ok4 := c14PkgConst(cx.p, upkg, "BigEndian")
	ignore, ok5 := c14PkgConst(cx.p, upkg, "IgnoreBOM")
	use, ok6 := c14PkgConst(cx.p, upkg, "UseBOM")
	expect, ok7 := c14PkgConst(cx.p, upkg, "ExpectBOM")
	if !(ok1 && ok2 && ok3 && ok4 && ok5 && ok6 && ok7) {
		ru.Undecided("strencoding:"+label, pos, "UTF16 arguments or x/text constants are not constants")
		return
	}
	switch strings.TrimPrefix(label, "UTF16") {
	case "LE":
		ru.Check(endian == le && bom == ignore, "strencoding:"+label, pos, "UTF16(LittleEndian, IgnoreBOM)", "UTF16LE must be unicode.UTF16(LittleEndian, IgnoreBOM)")
	case "BE":
		ru.Check(endian == be && bom == ignore, "strencoding:"+label, pos, "UTF16(BigEndian, IgnoreBOM)", "UTF16BE must be unicode.UTF16(BigEndian, IgnoreBOM)")
	case "":
		ru.Check(bom == use || bom == expect, "strencoding:"+label, pos, "UTF16 with a BOM policy that honours the BOM", "UTF16 (byte order from BOM) must use UseBOM or ExpectBOM, otherwise a big-endian BOM is decoded as little-endian text")
	}
}

// c14NilChecked: the call's result is compared with nil and the nil arm fails.
func c14NilChecked(call *ssa.Call) (bool, string) {
	if call.Referrers() == nil {
		return false, "result unused"
	}
	for _, ref := range *call.Referrers() {
		bo, ok := ref.(*ssa.BinOp)
		if !ok || (bo.Op != token.EQL && bo.Op != token.NEQ) || !(isNilConst(bo.X) || isNilConst(bo.Y)) {
			continue
		}
		for _, r2 := range *bo.Referrers() {
			ifi, ok := r2.(*ssa.If)
			if !ok {
				continue
			}
			arm := ifi.Block().Succs[0]
			if bo.Op == token.NEQ {
				arm = ifi.Block().Succs[1]
			}
			if ok, why := c14ArmFails(arm, ifi.Block()); ok {
				return true, ""
			} else {
				return false, why
			}
		}
	}
	return false, "result is not compared with nil"
}

// c14NamedResult: in functions with defer the results are named cells and a return loads them;
// resolve such a load to the value last stored on the way from arm to block b.
func c14NamedResult(res ssa.Value, b, arm *ssa.BasicBlock) ssa.Value {
	ld, ok := c14Strip(res).(*ssa.UnOp)
	if !ok || ld.Op != token.MUL {
		return res
	}
	cell, ok := ld.X.(*ssa.Alloc)
	if !ok {
		return res
	}
	for blk := b; blk != nil; blk = blk.Idom() {
		for i := len(blk.Instrs) - 1; i >= 0; i-- {
			if st, ok := blk.Instrs[i].(*ssa.Store); ok && st.Addr == ssa.Value(cell) {
				return st.Val
			}
		}
		if blk == arm {
			break
		}
	}
	return res
}

// c14ArmFails: every path from arm ends in a return of an error value (or a non-nil error
// result) or never returns (Fatalf/panic); from is the branching block (a path back to it
// through a loop is cut there).
func c14ArmFails(arm, from *ssa.BasicBlock) (bool, string) {
	if len(arm.Preds) != 1 {
		return false, "the failing arm is shared with other paths"
	}
	seen := map[*ssa.BasicBlock]bool{}
	var rec func(b *ssa.BasicBlock) (bool, string)
	rec = func(b *ssa.BasicBlock) (bool, string) {
		if seen[b] {
			return true, ""
		}
		seen[b] = true
		if fw.CurrentNR != nil && fw.CurrentNR.CutIndex(b) >= 0 {
			return true, ""
		}
		for _, ins := range b.Instrs {
			if _, ok := ins.(*ssa.Panic); ok {
				return true, ""
			}
		}
		if ret, ok := b.Instrs[len(b.Instrs)-1].(*ssa.Return); ok {
			for _, res := range ret.Results {
				v := c14Strip(c14NamedResult(res, b, arm))
				if c, isC := v.(*ssa.Const); isC && c.IsNil() {
					continue
				}
				if c14IsErrorType(v.Type()) {
					return true, ""
				}
			}
			return false, "a path returns a non-error value"
		}
		for _, s := range b.Succs {
			if ok, why := rec(s); !ok {
				return false, why
			}
		}
		return true, ""
	}
	return rec(arm)
}

// ---------------------------------------------------------------------------
// C14.err

// c14ErrExceptions: error results whose handling is path-sensitive beyond the arm analysis.
var c14ErrExceptions = map[string]string{
	"decode:json|(*encoding/json.Decoder).Decode#1":  "the non-nil arm only completes for io.EOF after exactly one value (or in lines mode); any other error leaves foundEOF false and the `len(vs) != 1 || !foundEOF` guard calls d.Fatalf, in lines mode d.Fatalf is called directly",
	"decode:jsonl|(*encoding/json.Decoder).Decode#1": "same function as decode:json (decodeJSONEx)",
	"decode:xml|(*encoding/xml.Decoder).Token#1":     "trailing-token loop: a non-EOF error leaves the token nil, which reaches the default arm of the type switch and d.Fatalf",
	"_to_base64|io.WriteCloser.Close#1":              "Close of the base64 stream encoder only flushes the last partial group into a bytes.Buffer, whose Write never fails",
}

func c14ErrInteresting(c ssa.CallInstruction, local map[*ssa.Function]bool) bool {
	pkg := c14CalleePkg(c)
	if c14CodecPkgs[pkg] {
		return true
	}
	n := c14Name(c)
	switch n {
	case fw.Mod + "/pkg/interp.ToBitReader", fw.Mod + "/pkg/interp.NewBinaryFromBitReader", "io.Copy", "io.ReadAll", "io.WriteCloser.Close", "io.Closer.Close":
		return true
	}
	if f := c14Resolve(c); f != nil && local[f] {
		return true
	}
	return false
}

func c14Err(cx *c14Ctx) {
	ru := cx.r.Rule("C14.err", "in every conversion function and text decoder each error result of a codec / bit-reader / io.Copy call is tested and its non-nil arm returns an error value or does not return (d.Fatalf), or the error itself is returned: malformed input yields an error, not a value; the json decoder completes only with a flag that is set on io.EOF alone, after a decode error other than io.EOF it cannot return normally in any mode, and element 0 is taken only where len == 1 was established; the xml trailing-token type switch has a failing default arm", 40)
	p := cx.p
	for _, row := range c14Rows {
		root := cx.root(row)
		if root == nil {
			continue // reported by C14.bind
		}
		fns := c14Local(root)
		local := map[*ssa.Function]bool{}
		for _, f := range fns {
			local[f] = true
		}
		ord := map[string]int{}
		for _, f := range fns {
			for _, ci := range fw.CallsIn(f) {
				c, ok := ci.(*ssa.Call)
				if !ok || !c14ErrInteresting(c, local) {
					continue
				}
				res := c.Call.Signature().Results()
				errIdx := -1
				for i := 0; i < res.Len(); i++ {
					if types.Identical(res.At(i).Type(), types.Universe.Lookup("error").Type()) {
						errIdx = i
					}
				}
				if errIdx < 0 {
					continue
				}
				name := c14Name(c)
				ord[name]++
				key := fmt.Sprintf("%s|%s#%d", row.key(), strings.ReplaceAll(name, fw.Mod+"/", ""), ord[name])
				pos := p.Rel(c.Pos())
				if reason, ok := c14ErrExceptions[key]; ok {
					ru.Except(key, pos, reason)
					continue
				}
				var e ssa.Value = c
				if res.Len() > 1 {
					e = extractOf(c, errIdx)
				}
				ok, why := c14ErrHandled(e)
				ru.Check(ok, key, pos, "error result handled", "error result of "+name+" in "+fw.ShortFn(f)+" "+why)
			}
		}
	}
	c14JSONEOF(cx, ru)
	c14JSONPaths(cx, ru)
	c14XMLTrailing(cx, ru)
}

// c14ErrHandled decides the obligation for one error value.
func c14ErrHandled(e ssa.Value) (bool, string) {
	if e == nil || e.Referrers() == nil || len(*e.Referrers()) == 0 {
		return false, "is dropped"
	}
	tested := false
	for _, ref := range *e.Referrers() {
		switch x := ref.(type) {
		case *ssa.BinOp:
			if (x.Op != token.EQL && x.Op != token.NEQ) || !(isNilConst(x.X) || isNilConst(x.Y)) || x.Referrers() == nil {
				continue
			}
			for _, r2 := range *x.Referrers() {
				ifi, ok := r2.(*ssa.If)
				if !ok {
					continue
				}
				arm := ifi.Block().Succs[0]
				if x.Op == token.EQL {
					arm = ifi.Block().Succs[1]
				}
				tested = true
				if ok, why := c14ArmFails(arm, ifi.Block()); !ok {
					return false, "is tested, but on the non-nil arm " + why
				}
			}
		}
	}
	if tested {
		return true, ""
	}
	// returned as is (possibly through a phi / interface conversion)?
	seen := map[ssa.Value]bool{}
	var returned func(v ssa.Value) bool
	returned = func(v ssa.Value) bool {
		if seen[v] || v.Referrers() == nil {
			return false
		}
		seen[v] = true
		for _, ref := range *v.Referrers() {
			switch x := ref.(type) {
			case *ssa.Return:
				return true
			case *ssa.ChangeInterface:
				if returned(x) {
					return true
				}
			case *ssa.MakeInterface:
				if returned(x) {
					return true
				}
			case *ssa.Phi:
				if returned(x) {
					return true
				}
			}
		}
		return false
	}
	if returned(e) {
		return true, ""
	}
	// tested only through errors.Is(e, sentinel): the arm where it is NOT the sentinel must fail
	for _, ref := range *e.Referrers() {
		c, ok := ref.(*ssa.Call)
		if !ok || c14Name(c) != "errors.Is" || c.Referrers() == nil {
			continue
		}
		for _, r2 := range *c.Referrers() {
			var ifi *ssa.If
			neg := false
			switch y := r2.(type) {
			case *ssa.If:
				ifi = y
			case *ssa.UnOp:
				if y.Op == token.NOT && y.Referrers() != nil {
					for _, r3 := range *y.Referrers() {
						if i3, ok := r3.(*ssa.If); ok {
							ifi, neg = i3, true
						}
					}
				}
			}
			if ifi == nil {
				continue
			}
			arm := ifi.Block().Succs[1]
			if neg {
				arm = ifi.Block().Succs[0]
			}
			if ok, _ := c14ArmFails(arm, ifi.Block()); ok {
				return true, ""
			}
			return false, "is only matched against a sentinel and other errors continue"
		}
	}
	return false, "is neither tested against nil nor returned"
}

// c14Str returns the value of a constant string operand (through an interface conversion).
func c14Str(v ssa.Value) (string, bool) {
	if mi, ok := v.(*ssa.MakeInterface); ok {
		v = mi.X
	}
	c, ok := v.(*ssa.Const)
	if !ok || c.Value == nil || c.Value.Kind() != constant.String {
		return "", false
	}
	return constant.StringVal(c.Value), true
}
