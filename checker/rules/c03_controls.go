package rules

// Positive controls for C03: seeded edits (applied in memory) that must make the named rule fire.

func init() {
	const dec = "pkg/decode/decode.go"
	const val = "pkg/decode/value.go"
	add := func(id, rule, file, old, new, key string) {
		AddControl(Control{ID: id, Prop: "C03", Rule: rule, File: file, Old: old, New: new, ExpectKey: key})
	}
	// own
	add("c03-own-decoder-pokes-range", "C03.own", "format/riff/wav.go", "func wavDecode(d *decode.D) any {", "func wavDecode(d *decode.D) any {\n\td.Value.Range.Start = 8", "Value.Range|format/riff.wavDecode")
	add("c03-own-addchild-outside", "C03.own", "format/riff/wav.go", "func wavDecode(d *decode.D) any {", "func wavDecode(d *decode.D) any {\n\td.AddChild(&decode.Value{})", "call:AddChild|format/riff.wavDecode")
	add("c03-own-text-len-operand", "C03.own", "format/json/json.go", "d.Value.Range.Len = d.Len()", "d.Value.Range.Len = d.Pos()", "Value.Range|format/json.decodeJSONEx")
	add("c03-own-children-swap", "C03.own", "format/riff/wav.go", "func wavDecode(d *decode.D) any {", "func wavDecode(d *decode.D) any {\n\tif c, ok := d.Value.V.(*decode.Compound); ok && len(c.Children) > 1 {\n\t\tc.Children[0], c.Children[1] = c.Children[1], c.Children[0]\n\t}", "element-store")
	// addchild
	add("c03-addchild-errorf", "C03.addchild", dec, "d.Fatalf(\"%q already exist in struct %s\", v.Name, d.Value.Name)", "d.Errorf(\"%q already exist in struct %s\", v.Name, d.Value.Name)", "AddChild:duplicate-test")
	add("c03-addchild-no-parent", "C03.addchild", dec, "\tv.Parent = d.Value\n\n\tswitch fv := d.Value.V.(type) {", "\tswitch fv := d.Value.V.(type) {", "AddChild:parent")
	add("c03-addchild-array-only-append", "C03.addchild", dec, "\t\tfv.Children = append(fv.Children, v)\n\t}\n}", "\t\tif !fv.IsArray {\n\t\t\tfv.Children = append(fv.Children, v)\n\t\t}\n\t}\n}", "AddChild:struct-insert-on-every-path")
	// byname (F11 regression)
	add("c03-byname-remove-parent-name", "C03.byname", val, "delete(fv.ByName, v.Name)", "delete(fv.ByName, p.Name)", "delete-key")
	add("c03-byname-remove-filter", "C03.byname", val, "\t\t\tif c == v {\n\t\t\t\tfound = true\n\t\t\t\tcontinue\n\t\t\t}", "\t\t\tif c != v {\n\t\t\t\tfound = true\n\t\t\t\tcontinue\n\t\t\t}", "remove-children")
	// range
	add("c03-range-len-is-stop", "C03.range", dec, "v.Range = ranges.Range{Start: start, Len: stop - start}", "v.Range = ranges.Range{Start: start, Len: stop}", "TryFieldValue:len")
	add("c03-range-start-after-read", "C03.range", dec, "\tstart := d.Pos()\n\tv, err := fn()\n\tstop := d.Pos()", "\tv, err := fn()\n\tstart := d.Pos()\n\tstop := d.Pos()", "TryFieldValue:start")
	add("c03-range-compound-start", "C03.range", dec, "Range:      ranges.Range{Start: d.Pos(), Len: 0},", "Range:      ranges.Range{Start: 0, Len: 0},", "fieldDecoder:range")
	add("c03-range-reader-outside-window", "C03.range", "pkg/decode/decode_gen.go",
		"func (d *D) TryFieldScalarUintFn(name string, fn func(d *D) (scalar.Uint, error), sms ...scalar.UintMapper) (*scalar.Uint, error) {\n\tv, err := d.TryFieldValue(name, func() (*Value, error) {\n\t\ts, err := fn(d)\n",
		"func (d *D) TryFieldScalarUintFn(name string, fn func(d *D) (scalar.Uint, error), sms ...scalar.UintMapper) (*scalar.Uint, error) {\n\ts, err := fn(d)\n\tv, err := d.TryFieldValue(name, func() (*Value, error) {\n",
		"reader-inside-window|(*pkg/decode.D).TryFieldScalarUintFn")
	add("c03-range-name-after-link", "C03.range", dec, "\tv.Name = name\n\tv.RootReader = d.bitBuf\n\tv.Range = ranges.Range{Start: start, Len: stop - start}\n\tif err != nil {\n\t\treturn nil, err\n\t}\n\td.AddChild(v)\n", "\tv.RootReader = d.bitBuf\n\tv.Range = ranges.Range{Start: start, Len: stop - start}\n\tif err != nil {\n\t\treturn nil, err\n\t}\n\td.AddChild(v)\n\tv.Name = name\n", "TryFieldValue:link-after-set")
	// window
	add("c03-window-negative-errorf", "C03.window", dec, "func (d *D) FramedFn(nBits int64, fn func(d *D)) int64 {\n\tif nBits < 0 {\n\t\td.Fatalf(", "func (d *D) FramedFn(nBits int64, fn func(d *D)) int64 {\n\tif nBits < 0 {\n\t\td.Errorf(", "FramedFn:negative-fatal")
	add("c03-window-limited-advance", "C03.window", dec, "\tdecodeLen := d.RangeFn(d.Pos(), nBits, fn)\n\td.SeekRel(decodeLen)", "\tdecodeLen := d.RangeFn(d.Pos(), nBits, fn)\n\td.SeekRel(nBits)", "LimitedFn:advance")
	add("c03-window-subreader", "C03.window", dec, "br := d.BitBufRange(0, firstBit+nBits)", "br := d.BitBufRange(firstBit, nBits)", "RangeFn:sub-reader")
	add("c03-window-zero-rejected", "C03.window", dec, "func (d *D) LimitedFn(nBits int64, fn func(d *D)) int64 {\n\tif nBits < 0 {", "func (d *D) LimitedFn(nBits int64, fn func(d *D)) int64 {\n\tif nBits <= 0 {", "LimitedFn:zero-legal")
	// sub
	add("c03-sub-samebuffer-isroot", "C03.sub", dec, "\t\tName:        name,\n\t\tForce:       d.Options.Force,\n\t\tFillGaps:    false,\n\t\tIsRoot:      false,", "\t\tName:        name,\n\t\tForce:       d.Options.Force,\n\t\tFillGaps:    false,\n\t\tIsRoot:      true,", "TryFieldFormat:isroot")
	add("c03-sub-len-advance", "C03.sub", dec, "if _, err := d.bitBuf.SeekBits(nBits, io.SeekCurrent); err != nil {", "if _, err := d.bitBuf.SeekBits(dv.Range.Len, io.SeekCurrent); err != nil {", "TryFieldFormatLen:advance")
	add("c03-sub-struct-kind", "C03.sub", dec, "func (d *D) FieldStruct(name string, fn func(d *D)) *D {\n\tc := &Compound{IsArray: false}", "func (d *D) FieldStruct(name string, fn func(d *D)) *D {\n\tc := &Compound{IsArray: true}", "FieldStruct:kind")
	add("c03-sub-bitbuf-not-placed", "C03.sub", dec, "\tdv.Range.Start = d.Pos()\n\n", "", "TryFieldFormatBitBuf:placed-at-pos")
	add("c03-sub-entry-not-root", "C03.sub", "pkg/interp/decode.go", "\t\t\tIsRoot:      true,\n\t\t\tFillGaps:    true,\n\t\t\tForce:       opts.Force,", "\t\t\tIsRoot:      false,\n\t\t\tFillGaps:    true,\n\t\t\tForce:       opts.Force,", "entry|")
	add("c03-sub-postprocess-not-deferred", "C03.sub", dec, "\tc := &Compound{IsArray: true}\n\tcd := d.fieldDecoder(name, br, c)\n\tcd.Value.IsRoot = true\n\td.AddChild(cd.Value)\n\t// also post process partial tree if fn panics with a decode error,\n\t// walk of the parent root do not descend into this root\n\tdefer cd.Value.postProcess()\n\tfn(cd)\n", "\tc := &Compound{IsArray: true}\n\tcd := d.fieldDecoder(name, br, c)\n\tcd.Value.IsRoot = true\n\td.AddChild(cd.Value)\n\tfn(cd)\n\tcd.Value.postProcess()\n", "FieldArrayRootBitBufFn:postprocess-deferred")
	// rebase
	add("c03-rebase-assign", "C03.rebase", dec, "v.Range.Start += decodeRange.Start", "v.Range.Start = decodeRange.Start", "decode:rebase")
	add("c03-rebase-extent-after", "C03.rebase", dec, "\t\t\tminMaxRange = ranges.MinMax(minMaxRange, v.Range)\n\t\t\tv.Range.Start += decodeRange.Start\n", "\t\t\tv.Range.Start += decodeRange.Start\n\t\t\tminMaxRange = ranges.MinMax(minMaxRange, v.Range)\n", "decode:extent-before-rebase")
	add("c03-rebase-postprocess-only-ok", "C03.rebase", dec, "\t\tif opts.IsRoot {\n\t\t\td.Value.postProcess()\n\t\t}", "\t\tif opts.IsRoot && rOk {\n\t\t\td.Value.postProcess()\n\t\t}", "decode:postprocess")
	add("c03-rebase-early-return", "C03.rebase", dec, "\t\t\tif len(group.Formats) != 1 {\n\t\t\t\tcontinue\n\t\t\t}", "\t\t\tif len(group.Formats) != 1 {\n\t\t\t\tcontinue\n\t\t\t}\n\t\t\treturn d.Value, decodeV, formatsErr", "decode:no-unfinished-tree")
	add("c03-rebase-all-roots", "C03.rebase", dec, "if err := d.Value.WalkRootPreOrder(func(v *Value, _ *Value, _ int, _ int) error {\n\t\t\tminMaxRange", "if err := d.Value.WalkPreOrder(func(v *Value, _ *Value, _ int, _ int) error {\n\t\t\tminMaxRange", "decode:walk-scope")
	// post
	add("c03-post-unstable-sort", "C03.post", val, "slices.SortStableFunc(vv.Children", "slices.SortFunc(vv.Children", "postProcess:sort-stable")
	add("c03-post-descending", "C03.post", val, "return cmp.Compare(a.Range.Start, b.Range.Start)", "return cmp.Compare(b.Range.Start, a.Range.Start)", "postProcess:sort-order")
	add("c03-post-index-off-by-one", "C03.post", val, "\t\t\t\t\tf.Index = i\n", "\t\t\t\t\tf.Index = i + 1\n", "postProcess:array-index")
	add("c03-post-nested-root-folded", "C03.post", val, "\t\t\t\tif f.IsRoot {\n\t\t\t\t\tcontinue\n\t\t\t\t}\n", "", "postProcess:other-buffer-excluded")
	add("c03-post-first-flag-stuck", "C03.post", val, "\t\t\t\t\tv.Range = f.Range\n\t\t\t\t\tfirst = false\n", "\t\t\t\t\tv.Range = f.Range\n", "postProcess:first-child-only")
	add("c03-post-preorder", "C03.post", val, "if err := v.WalkRootPostOrder(func(v *Value, _ *Value, _ int, _ int) error {\n\t\tswitch vv := v.V.(type) {", "if err := v.WalkRootPreOrder(func(v *Value, _ *Value, _ int, _ int) error {\n\t\tswitch vv := v.V.(type) {", "postProcess:walk-post-order-one-root")
	// minmax
	add("c03-minmax-start", "C03.minmax", "pkg/ranges/ranges.go", "minStart := min(a.Start, b.Start)", "minStart := max(a.Start, b.Start)", "MinMax:start")
	add("c03-minmax-len", "C03.minmax", "pkg/ranges/ranges.go", "maxStop := max(a.Stop(), b.Stop())", "maxStop := max(a.Stop(), b.Len)", "MinMax:len")
	// walk
	add("c03-walk-root-wrapper", "C03.walk", val, "func (v *Value) WalkRootPreOrder(fn WalkFn) error {\n\treturn v.Walk(WalkOpts{\n\t\tPreOrder: true,\n\t\tOneRoot:  true,", "func (v *Value) WalkRootPreOrder(fn WalkFn) error {\n\treturn v.Walk(WalkOpts{\n\t\tPreOrder: true,\n\t\tOneRoot:  false,", "wrapper:WalkRootPreOrder")
	add("c03-walk-skips-start", "C03.walk", val, "if opts.OneRoot && wv != v && wv.IsRoot {", "if opts.OneRoot && wv.IsRoot {", "Walk:one-root-skip")
	add("c03-walk-post-before-children", "C03.walk", val, "\t\tif !opts.PreOrder {\n\t\t\terr := opts.Fn(wv, rootV, depth, rootDepth+rootDepthDelta)", "\t\tif opts.PreOrder {\n\t\t\terr := opts.Fn(wv, rootV, depth, rootDepth+rootDepthDelta)", "Walk:order")
}
