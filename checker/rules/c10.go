package rules

import (
	"fqverif/fw"
	"strings"
)

func init() { Register("C10", runC10) }

// runC10: structural necessary conditions of "what fq displays is true".
func runC10(r *fw.Run, p *fw.Program) {
	c10DumpRules(r, p)
	c10WriterRules(r, p)
	c10ColWriterRules(r, p)
	c10TableRules(r, p)
	c10BitsRules(r, p)
	c10OptsRules(r, p)
	c10JSONRules(r, p)
	c10AliasRules(r, p)
	// the range a value is displayed with (verbose range, hexdump of the value) is InnerRange / RootReader: for a
	// root decoded from a sub-range of its buffer it keeps the start (borrowed from C05.rootbase)
	{
		sc := r.Scratch()
		formB := c05Prov(sc, p)
		c05RootBase(sc, p, formB)
		r.Import(sc, "C05.rootbase", "C10.rootbase", "the range and bytes a value is displayed with are (RootReader, InnerRange): InnerRange keeps the start of a parentless root decoded from a sub-range of its buffer and is {0, Len} only for nested buffer roots, every value carries the reader its range refers to (C05.rootbase obligations)", 30, nil)
	}
	// what is displayed for a value is a function of the value and the options of this display: the dump code
	// keeps nothing in package-level objects between displays (borrowed from C18.globals / C18.parked, pkg/interp)
	{
		sc := r.Scratch()
		{
			c18Globals(sc, p)
			c18Parked(sc, p)
			keep := func(k string) bool {
				return strings.HasPrefix(k, "pkg/interp.") || strings.HasPrefix(k, "(*pkg/interp.") || strings.HasPrefix(k, "(pkg/interp.")
			}
			r.Import(sc, "C18.globals", "C10.nostate", "no display code in pkg/interp writes a package-level variable or parks state in a package-level library object (cache, pool, map): a dump is a function of the value and this display's options, not of earlier displays in the process (C18.globals / C18.parked obligations of pkg/interp)", 30, keep)
			r.Import(sc, "C18.parked", "C10.nostate", "", 30, keep)
		}
	}
}
