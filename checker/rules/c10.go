package rules

import (
	"fqverif/fw"
)

func init() { Register("C10", runC10) }

// runC10: structural necessary conditions of "what fq displays is true".
func runC10(r *fw.Run, p *fw.Program) {
	c10DumpRules(r, p)
	c10WriterRules(r, p)
	c10ColWriterRules(r, p)
	c10TableRules(r, p)
	c10BitsRules(r, p)
	c10OptsRules(r, p)
	c10JSONRules(r, p)
	c10AliasRules(r, p)
}
