package rules

import (
	"fmt"
	"go/types"
	"os"
	"strings"

	"fqverif/fw"

	"golang.org/x/tools/go/ssa"
)

// c06ExploreArrays: exploratory listing (C06_EXPLORE=1) of indexes into fixed-size arrays in decoder code
// whose range is not proved. Not a rule: used to look for candidates by hand.
func c06ExploreArrays(p *fw.Program) {
	if os.Getenv("C06_EXPLORE") == "" {
		return
	}
	for _, fn := range p.FqFunctions() {
		if !strings.HasPrefix(pkgRel(fn), "format") {
			continue
		}
		var env *fw.IntervalEnv
		fw.EachInstr(fn, func(ins ssa.Instruction) {
			var xs, idx ssa.Value
			switch y := ins.(type) {
			case *ssa.Index:
				xs, idx = y.X, y.Index
			case *ssa.IndexAddr:
				xs, idx = y.X, y.Index
			default:
				return
			}
			if _, isC := idx.(*ssa.Const); isC {
				return
			}
			t := xs.Type().Underlying()
			if pt, ok := t.(*types.Pointer); ok {
				t = pt.Elem().Underlying()
			}
			at, ok := t.(*types.Array)
			if !ok {
				return
			}
			if env == nil {
				env = fw.NewIntervalEnv(fn)
				env.CallRange = readerCallRange
			}
			iv := env.At(idx, ins.Block())
			if !iv.HiInf && iv.Hi < at.Len() && !iv.LoInf && iv.Lo >= 0 {
				return
			}
			fmt.Printf("EXPLORE array-index: %s [%d] idx=%s iv=[%s,%s] at %s\n", fw.ShortFn(fn), at.Len(), env.Poly.Of(idx).String(), loStr(iv), hiStr(iv), p.Rel(ins.Pos()))
		})
	}
}

// c06DebugSSA: C06_SSA=<fn,fn> prints the SSA of the named functions and their closures (debug aid).
func c06DebugSSA(p *fw.Program) {
	names := os.Getenv("C06_SSA")
	if names == "" {
		return
	}
	for _, n := range strings.Split(names, ",") {
		fn := p.Fn(n)
		if fn == nil {
			println("no such fn", n)
			continue
		}
		for _, f := range fw.WithClosures(fn) {
			f.WriteTo(os.Stdout)
		}
	}
}

// c06ExploreConstIdx: exploratory listing (C06_EXPLORE=1) of constant indexes into slices that no
// dominating length fact proves.
func c06ExploreConstIdx(p *fw.Program) {
	if os.Getenv("C06_EXPLORE") == "" {
		return
	}
	n, bad := 0, 0
	for _, fn := range p.FqFunctions() {
		if !strings.HasPrefix(pkgRel(fn), "format") || !linkedPackages(p)[fw.FnPkgPath(fn)] {
			continue
		}
		var env *fw.PolyEnv
		fw.EachInstr(fn, func(ins ssa.Instruction) {
			var xs, idx ssa.Value
			switch y := ins.(type) {
			case *ssa.Index:
				xs, idx = y.X, y.Index
			case *ssa.IndexAddr:
				xs, idx = y.X, y.Index
			default:
				return
			}
			k, isC := idx.(*ssa.Const)
			if !isC || k.Value == nil {
				return
			}
			if _, isSl := xs.Type().Underlying().(*types.Slice); !isSl {
				if bt, isB := xs.Type().Underlying().(*types.Basic); !isB || bt.Kind() != types.String {
					return
				}
			}
			if _, ok := constLenOf(xs); ok {
				return
			}
			if env == nil {
				env = fw.NewPolyEnv(fn)
			}
			n++
			path, ok := fw.AccessPath(xs)
			if !ok {
				path = env.Of(xs).String()
			}
			want := fw.Cmp{P: fw.StripVersions(fw.PAtom("len(" + path + ")")).Sub(fw.PConst(k.Int64())), Rel: fw.GT}
			proved := false
			for _, f := range c06Facts(env, ins.Block()) {
				f.P = fw.StripVersions(f.P)
				if f.Implies(want) || (k.Int64() == 0 && f.Implies(fw.Cmp{P: want.P, Rel: fw.NE})) {
					proved = true
				}
			}
			if !proved {
				bad++
				fmt.Printf("EXPLORE const-index unproved: %s %s[%d] at %s\n", fw.ShortFn(fn), path, k.Int64(), p.Rel(ins.Pos()))
			}
		})
	}
	fmt.Printf("EXPLORE const-index: %d sites, %d unproved\n", n, bad)
}
