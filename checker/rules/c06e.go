package rules

import (
	"fmt"
	"go/types"
	"os"
	"strings"

	"fqverif/fw"

	"golang.org/x/tools/go/ssa"
)

// c06ExploreArrays: exploratory listing (C06_EXPLORE=1) of indexes into fixed-size arrays in decoder code
// whose range is not proved. Not a rule: used to look for candidates by hand.
func c06ExploreArrays(p *fw.Program) {
	if os.Getenv("C06_EXPLORE") == "" {
		return
	}
	for _, fn := range p.FqFunctions() {
		if !strings.HasPrefix(pkgRel(fn), "format") {
			continue
		}
		var env *fw.IntervalEnv
		fw.EachInstr(fn, func(ins ssa.Instruction) {
			var xs, idx ssa.Value
			switch y := ins.(type) {
			case *ssa.Index:
				xs, idx = y.X, y.Index
			case *ssa.IndexAddr:
				xs, idx = y.X, y.Index
			default:
				return
			}
			if _, isC := idx.(*ssa.Const); isC {
				return
			}
			t := xs.Type().Underlying()
			if pt, ok := t.(*types.Pointer); ok {
				t = pt.Elem().Underlying()
			}
			at, ok := t.(*types.Array)
			if !ok {
				return
			}
			if env == nil {
				env = fw.NewIntervalEnv(fn)
				env.CallRange = readerCallRange
			}
			iv := env.At(idx, ins.Block())
			if !iv.HiInf && iv.Hi < at.Len() && !iv.LoInf && iv.Lo >= 0 {
				return
			}
			fmt.Printf("EXPLORE array-index: %s [%d] idx=%s iv=[%s,%s] at %s\n", fw.ShortFn(fn), at.Len(), env.Poly.Of(idx).String(), loStr(iv), hiStr(iv), p.Rel(ins.Pos()))
		})
	}
}
