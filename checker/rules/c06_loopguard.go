package rules

import (
	"fmt"
	"go/token"
	"go/types"
	"strings"

	"golang.org/x/tools/go/ssa"

	"fqverif/fw"
)

// ---------------------------------------------------------------------------
// C06.loopguard: recursion through input-controlled offsets passes through one recursion detector
//
// A decoder that follows offsets read from the input (d.SeekAbs/SeekRel(offset, callback) where the
// callback leads back to the function issuing the seek) recurses as deep as the input says; a record that
// points at itself ends in `fatal error: stack overflow`, which nothing recovers. The repo's defence is a
// position stack (apple.PosLoopDetector: Push compares the position with all positions on the stack and
// calls a detect function). The obligations:
//   seek:<fn>    a function whose seek callback statically leads back to itself pushes on a detector (in
//                itself or in the callback's code)
//   detect:<fn>  the detect function handed to Push/PushAndPop never returns (d.Fatalf, not d.Errorf: with
//                force the recursion would go on)
//   maker:<fn>   the detector object outlives the recursion: the function that creates it (declares the
//                variable a closure captures, or builds the struct that holds it) is not statically
//                reachable from the code that pushes on it - a fresh detector per hop detects nothing

func c06IsLoopDetector(t types.Type) bool {
	if pt, ok := t.(*types.Pointer); ok {
		t = pt.Elem()
	}
	n, ok := t.(*types.Named)
	return ok && strings.HasSuffix(n.Obj().Name(), "LoopDetector") && n.Obj().Pkg() != nil && strings.HasPrefix(n.Obj().Pkg().Path(), fw.Mod)
}

// c06StaticReach: functions statically reachable from f: static fq callees, closures created (nested
// function literals), functions referenced as values, and closures returned by static callees.
func c06StaticReach(f *ssa.Function, max int) map[*ssa.Function]bool {
	seen := map[*ssa.Function]bool{}
	var visit func(g *ssa.Function, depth int)
	visit = func(g *ssa.Function, depth int) {
		if g == nil || seen[g] || depth > max || len(g.Blocks) == 0 || !fw.InFq(g) {
			return
		}
		seen[g] = true
		fw.EachInstr(g, func(ins ssa.Instruction) {
			if mc, ok := ins.(*ssa.MakeClosure); ok {
				visit(mc.Fn.(*ssa.Function), depth+1)
			}
			if ci, ok := ins.(ssa.CallInstruction); ok {
				if cal := ci.Common().StaticCallee(); cal != nil {
					visit(cal, depth+1)
				}
			}
			for _, op := range ins.Operands(nil) {
				if op == nil || *op == nil {
					continue
				}
				if fv, ok := (*op).(*ssa.Function); ok {
					visit(fv, depth+1)
				}
			}
		})
		// a captured variable that holds a closure of the enclosing function (var f func(); f = func(){ .. f .. })
		for _, fv := range g.FreeVars {
			vals, _ := freeVarBindings(g, fv)
			for _, bv := range vals {
				if al, ok := bv.(*ssa.Alloc); ok && al.Referrers() != nil {
					for _, rf := range *al.Referrers() {
						if st, ok := rf.(*ssa.Store); ok && st.Addr == ssa.Value(al) {
							if mc, ok := st.Val.(*ssa.MakeClosure); ok {
								visit(mc.Fn.(*ssa.Function), depth+1)
							}
						}
					}
				}
			}
		}
	}
	visit(f, 0)
	return seen
}

func c06LoopGuard(r *fw.Run, p *fw.Program) {
	ru := r.Rule("C06.loopguard", "a decoder function whose d.SeekAbs/SeekRel callback statically leads back to itself pushes the position on a recursion detector (apple.PosLoopDetector); the detect function of every Push/PushAndPop never returns; the function that creates the detector is not statically reachable from the code that pushes on it (a detector made afresh on every hop detects nothing and the self-referencing record ends in a fatal stack overflow)", 6)
	type pushSite struct {
		fn   *ssa.Function
		call ssa.CallInstruction
	}
	var pushes []pushSite
	for _, fn := range p.FqFunctions() {
		if !strings.HasPrefix(pkgRel(fn), "format") || !linkedPackages(p)[fw.FnPkgPath(fn)] {
			continue
		}
		if fn.TypeParams().Len() > 0 && len(fn.TypeArgs()) == 0 {
			continue
		}
		if fn.Signature.Recv() != nil && c06IsLoopDetector(fn.Signature.Recv().Type()) {
			continue // the detector's own methods
		}
		for _, c := range fw.CallsIn(fn) {
			cal := c.Common().StaticCallee()
			if cal == nil || cal.Signature.Recv() == nil || !c06IsLoopDetector(cal.Signature.Recv().Type()) {
				continue
			}
			if n := cal.Name(); !strings.HasPrefix(n, "Push") {
				continue
			}
			pushes = append(pushes, pushSite{fn, c})
		}
	}
	hasPush := map[*ssa.Function]bool{}
	for _, ps := range pushes {
		hasPush[ps.fn] = true
	}
	// detect + maker
	ord := map[string]int{}
	for _, ps := range pushes {
		name := fw.ShortFn(ps.fn)
		ord[name]++
		suffix := fmt.Sprintf("%s#%d", name, ord[name])
		args := ps.call.Common().Args
		// detect function: last argument
		var det *ssa.Function
		if len(args) > 0 {
			switch a := args[len(args)-1].(type) {
			case *ssa.MakeClosure:
				det, _ = a.Fn.(*ssa.Function)
			case *ssa.Function:
				det = a
			}
		}
		if det == nil || len(det.Blocks) == 0 {
			ru.Undecided("detect:"+suffix, p.Rel(ps.call.Pos()), "detect function of the recursion detector is not a function literal")
		} else {
			ru.Check(fw.CurrentNR != nil && fw.CurrentNR.BlockFails(det.Blocks[0]), "detect:"+suffix, p.Rel(ps.call.Pos()), "detect function never returns", "the detect function of the recursion detector can return (d.Errorf returns under force): a detected loop is followed anyway until the stack overflows")
		}
		// the detector object
		recv := args[0]
		var makers []*ssa.Function
		what := ""
		if root, owner := c06DetectorRoot(ps.fn, recv, 0); root != nil {
			if owner == ps.fn {
				what = "local"
			} else {
				makers = []*ssa.Function{owner}
				what = "declares the captured detector variable"
			}
		}
		switch x := recv.(type) {
		case *ssa.FieldAddr:
			// field of a struct: makers are the functions that build a value of that struct type
			st := x.X.Type()
			if pt, ok := st.Underlying().(*types.Pointer); ok {
				st = pt.Elem()
			}
			for _, g := range p.FqFunctions() {
				if g.Pkg != fw.Top(ps.fn).Pkg {
					continue
				}
				fw.EachInstr(g, func(ins ssa.Instruction) {
					if al, ok := ins.(*ssa.Alloc); ok {
						if pt, ok := al.Type().Underlying().(*types.Pointer); ok && types.Identical(pt.Elem(), st) {
							makers = append(makers, g)
						}
					}
				})
			}
			what = "builds the struct that holds the detector"
		}
		if what == "local" {
			ru.Fail("maker:"+suffix, p.Rel(ps.call.Pos()), "the recursion detector is a local variable of the function that pushes on it: every activation has its own empty detector")
			continue
		}
		if len(makers) == 0 {
			ru.Undecided("maker:"+suffix, p.Rel(ps.call.Pos()), "cannot find where the recursion detector object is created")
			continue
		}
		reach := c06StaticReach(ps.fn, 12)
		bad := ""
		for _, m := range makers {
			if reach[m] && m != ps.fn {
				bad = fw.ShortFn(m)
			}
			if m == ps.fn {
				bad = fw.ShortFn(m)
			}
		}
		ru.Check(bad == "", "maker:"+suffix, p.Rel(ps.call.Pos()), "the function that "+what+" is not reachable from the guarded code", "the function that "+what+" ("+bad+") is statically reachable from the code that pushes on the detector: each hop through it starts with an empty detector, a self-referencing offset is never detected and the decoder recurses until the fatal stack overflow")
	}
	c06RecSeek(ru, p)
	// recursive seeks
	sord := map[string]int{}
	for _, fn := range p.FqFunctions() {
		if !strings.HasPrefix(pkgRel(fn), "format") || !linkedPackages(p)[fw.FnPkgPath(fn)] {
			continue
		}
		for _, c := range fw.CallsIn(fn) {
			cal := c.Common().StaticCallee()
			if cal == nil || cal.Signature.Recv() == nil || !isDecodeD(cal.Signature.Recv().Type()) {
				continue
			}
			if n := cal.Name(); n != "SeekAbs" && n != "SeekRel" && n != "TrySeekAbs" && n != "TrySeekRel" {
				continue
			}
			args := c.Common().Args
			if len(args) < 3 {
				continue
			}
			if _, isC := args[1].(*ssa.Const); isC {
				continue
			}
			for _, cbv := range c06VariadicElems(args[2]) {
				var cbs []*ssa.Function
				switch a := cbv.(type) {
				case *ssa.MakeClosure:
					cbs = append(cbs, a.Fn.(*ssa.Function))
				case *ssa.Function:
					cbs = append(cbs, a)
				case *ssa.Call:
					cbs = append(cbs, closuresReturnedBy(a.Common().StaticCallee())...)
				case *ssa.UnOp:
					// load of a (captured) variable holding a closure
					if a.Op == token.MUL {
						var cell ssa.Value = a.X
						f := fn
						for {
							fv, ok := cell.(*ssa.FreeVar)
							if !ok || f.Parent() == nil {
								break
							}
							vals, _ := freeVarBindings(f, fv)
							if len(vals) != 1 {
								break
							}
							cell, f = vals[0], f.Parent()
						}
						if al, ok := cell.(*ssa.Alloc); ok && al.Referrers() != nil {
							for _, rf := range *al.Referrers() {
								if st, ok := rf.(*ssa.Store); ok && st.Addr == ssa.Value(al) {
									if mc, ok := st.Val.(*ssa.MakeClosure); ok {
										cbs = append(cbs, mc.Fn.(*ssa.Function))
									}
								}
							}
						}
					}
				}
				for _, cb := range cbs {
					reach := c06StaticReach(cb, 12)
					if !reach[fn] && cb != fn {
						continue
					}
					name := fw.ShortFn(fn)
					sord[name]++
					key := fmt.Sprintf("seek:%s#%d", name, sord[name])
					guarded := hasPush[fn]
					for g := range reach {
						if hasPush[g] {
							guarded = true
						}
					}
					ru.Check(guarded, key, p.Rel(c.Pos()), "the recursive seek passes a recursion detector", "seek to an offset from the input whose callback leads back to this function, with no recursion detector on the way: a record that points at itself recurses until the fatal stack overflow")
				}
			}
		}
	}
}

// c06DetectorRoot: the local variable (Alloc of a detector type) that the receiver address v denotes, and
// the function that declares it; follows captures and pointer-typed locals holding its address.
func c06DetectorRoot(fn *ssa.Function, v ssa.Value, depth int) (*ssa.Alloc, *ssa.Function) {
	if depth > 6 {
		return nil, nil
	}
	switch x := v.(type) {
	case *ssa.Alloc:
		if pt, ok := x.Type().Underlying().(*types.Pointer); ok && c06IsLoopDetector(pt.Elem()) {
			return x, x.Parent()
		}
	case *ssa.FreeVar:
		vals, _ := freeVarBindings(fn, x)
		if len(vals) == 1 && fn.Parent() != nil {
			return c06DetectorRoot(fn.Parent(), vals[0], depth+1)
		}
	case *ssa.UnOp:
		if x.Op != token.MUL {
			return nil, nil
		}
		// load of a pointer variable: the single value stored into it
		var cell ssa.Value = x.X
		f := fn
		for {
			fv, ok := cell.(*ssa.FreeVar)
			if !ok || f.Parent() == nil {
				break
			}
			vals, _ := freeVarBindings(f, fv)
			if len(vals) != 1 {
				return nil, nil
			}
			cell, f = vals[0], f.Parent()
		}
		al, ok := cell.(*ssa.Alloc)
		if !ok || al.Referrers() == nil {
			return nil, nil
		}
		var val ssa.Value
		n := 0
		for _, rf := range *al.Referrers() {
			if st, ok := rf.(*ssa.Store); ok && st.Addr == ssa.Value(al) {
				n++
				val = st.Val
			}
		}
		if n == 1 {
			return c06DetectorRoot(f, val, depth+1)
		}
	}
	return nil, nil
}
