package rules

import (
	"fmt"
	"go/types"
	"math/big"
	"strings"

	"golang.org/x/tools/go/ssa"

	"fqverif/fw"
)

// C08.tovalue: the deep conversion behind tovalue keeps every leaf, every array position and every object key.
func (c *c08ctx) ruleToValue() {
	ru := c.r.Rule("C08.tovalue", "the deep conversion (ToGoJQValueFn) returns each leaf unchanged or through a value-preserving conversion (int64 via big.NewInt, uint64 via SetUint64 or a guarded int conversion), converts array element i to position i and map entry k to key k with the same value function, converts the value function's result again; toValue converts decode values with their option-aware form when options are given", 16)
	// role: the function of internal/gojqx that calls itself and takes a func(any) (any, error)
	var deep *ssa.Function
	for _, fn := range c.p.FqFunctions() {
		if pkgRel(fn) != "internal/gojqx" || fn.Parent() != nil || len(fn.Params) != 2 {
			continue
		}
		if sig, ok := fn.Params[1].Type().Underlying().(*types.Signature); !ok || sig.Params().Len() != 1 || sig.Results().Len() != 2 ||
			fn.TypeParams().Len() > 0 || len(fn.TypeArgs()) > 0 {
			continue
		}
		self := false
		for _, call := range fw.CallsIn(fn) {
			if call.Common().StaticCallee() == fn {
				self = true
			}
		}
		if self && fn.Signature.Results().Len() == 2 {
			if deep != nil {
				ru.Undecided("anchor", c.pos(fn), "two recursive (any, func) converters in internal/gojqx")
				return
			}
			deep = fn
		}
	}
	if deep == nil {
		ru.Undecided("anchor", "", "recursive deep converter of internal/gojqx not found")
		return
	}
	e := c.env(deep)
	self := "call " + strings.ReplaceAll(deep.String(), fw.Mod+"/", "")
	rec := func(x string) string { return self + "(" + x + ", arg1)#0" }
	maxInt64 := new(big.Int).SetUint64(1<<63 - 1)
	seen := map[string]bool{}
	for _, rc := range fw.ReturnCases(deep, 0) {
		// the positive type test of the arm
		var at types.Type
		A := ""
		for _, cd := range rc.Conds {
			if ex, ok := cd.Val.(*ssa.Extract); ok && ex.Index == 1 && cd.True {
				if ta, ok := ex.Tuple.(*ssa.TypeAssert); ok && e.Term(ta.X) == "arg0" {
					at = ta.AssertedType
					A = e.Term(ta) + ".v"
				}
			}
		}
		t := e.Term(rc.Val)
		pos := c.p.Rel(rc.Block.Instrs[len(rc.Block.Instrs)-1].Pos())
		if at == nil {
			// nil arm or default arm
			switch {
			case t == "arg0":
				isNil := false
				for _, cd := range rc.Conds {
					if x, nn, ok := nilTest(e, cd); ok && x == "arg0" && !nn {
						isNil = true
					}
				}
				ru.Check(isNil, "leaf:nil", pos, "nil stays nil", "the input is returned unconverted on a path where it is not nil")
				seen["nil"] = true
			case isConstNil(rc.Val):
				// error path
			default:
				want := rec("dyn arg1(arg0)#0")
				ru.Check(t == want, "default", pos, "value function result is converted again with the same function",
					"default arm returns "+t+", expected "+want)
				seen["default"] = true
			}
			continue
		}
		an := fw.TypeStr(at)
		key := "leaf:" + an
		if isConstNil(rc.Val) {
			continue // error path of a collection arm / error arm
		}
		if seen[an+"|"+t] {
			continue
		}
		seen[an+"|"+t] = true
		switch u := at.Underlying().(type) {
		case *types.Slice:
			if _, isByte := u.Elem().Underlying().(*types.Basic); isByte {
				ru.Check(t == "conv<string>("+A+")", key, pos, "bytes become a string", "returns "+t)
				continue
			}
			ms, ok := stripIfaceVal(rc.Val).(*ssa.MakeSlice)
			var msgs []string
			if !ok {
				msgs = append(msgs, "does not return a new slice")
			} else {
				if e.Int(ms.Len).String() != "len("+A+")" {
					msgs = append(msgs, "result length is "+e.Int(ms.Len).String()+", expected len of the input")
				}
				n := 0
				for _, wr := range seqWrites(deep) {
					if wr.dest != ms {
						continue
					}
					n++
					lo, hi, _, ok := e.AffineRange(wr.idx)
					if !ok || lo.String() != "0" || hi.String() != "len("+A+")" {
						msgs = append(msgs, "positions written are not exactly 0..len-1")
					}
					j := e.Int(wr.idx).String()
					if got, want := e.Term(wr.val), rec("elem("+A+", "+j+")"); got != want {
						msgs = append(msgs, fmt.Sprintf("result[%s] = %s, expected %s", j, got, want))
					}
				}
				if n != 1 {
					msgs = append(msgs, fmt.Sprintf("%d write sites, expected 1", n))
				}
			}
			ru.Check(len(msgs) == 0, "array", pos, "element i converted to position i", strings.Join(uniq(msgs), "; "))
			seen["array"] = true
		case *types.Map:
			mm, ok := stripIfaceVal(rc.Val).(*ssa.MakeMap)
			var msgs []string
			if !ok {
				msgs = append(msgs, "does not return a new map")
			} else {
				n := 0
				fw.EachInstr(deep, func(ins ssa.Instruction) {
					mu, ok := ins.(*ssa.MapUpdate)
					if !ok || mu.Map != ssa.Value(mm) {
						return
					}
					n++
					k := e.Term(mu.Key)
					if !strings.HasPrefix(k, "next(range#") || !strings.HasSuffix(k, "("+A+")).key") {
						msgs = append(msgs, "key written is "+k+", not a key of the input map")
						return
					}
					if got, want := e.Term(mu.Value), rec(strings.TrimSuffix(k, ".key")+".val"); got != want {
						msgs = append(msgs, fmt.Sprintf("value stored under %s is %s, expected %s", k, got, want))
					}
				})
				if n != 1 {
					msgs = append(msgs, fmt.Sprintf("%d map writes, expected 1", n))
				}
			}
			ru.Check(len(msgs) == 0, "object", pos, "entry k converted under key k", strings.Join(uniq(msgs), "; "))
			seen["object"] = true
		default:
			okLeaf := t == A
			why := ""
			if b, isB := u.(*types.Basic); isB {
				switch b.Kind() {
				case types.Int64:
					okLeaf = okLeaf || t == "call math/big.NewInt("+A+")"
				case types.Uint64:
					if t == "conv<int>("+A+")" {
						// needs an upper bound not above MaxInt64 on this way
						bound := false
						for _, cd := range rc.Conds {
							if s, ok := e.GE(cd); ok && strings.HasSuffix(s, " + -1*"+A+" >= 0") {
								if n, ok := new(big.Int).SetString(strings.TrimSuffix(s, " + -1*"+A+" >= 0"), 10); ok && n.Cmp(maxInt64) <= 0 && n.Sign() >= 0 {
									bound = true
								}
							}
						}
						okLeaf = bound
						why = " without an upper bound <= MaxInt on the value"
					}
					okLeaf = okLeaf || (strings.HasPrefix(t, "call (*math/big.Int).SetUint64(") && strings.HasSuffix(t, ", "+A+")"))
				case types.Float32:
					okLeaf = t == "conv<float64>("+A+")"
				}
			}
			if an == "*math/big.Int" && t == "call (*math/big.Int).Int64("+A+")" {
				okLeaf = hasCond(e, rc.Conds, "call (*math/big.Int).IsInt64("+A+")", true)
				why = " without IsInt64"
			}
			if an == "error" {
				continue
			}
			ru.Check(okLeaf, key+"->"+shortLeaf(t, A), pos, "value preserved", "a "+an+" leaf is returned as "+t+why+": not the same number/value")
		}
	}
	for _, need := range []string{"nil", "array", "object", "default"} {
		if !seen[need] {
			ru.Fail("arm:"+need, c.pos(deep), "deep conversion has no "+need+" arm")
		}
	}

	// toValue: the caller in pkg/interp passing a closure as value function
	n := 0
	for _, fn := range c.p.FqFunctions() {
		if pkgRel(fn) != "pkg/interp" {
			continue
		}
		for _, call := range fw.CallsIn(fn) {
			if call.Common().StaticCallee() != deep {
				continue
			}
			mc, ok := call.Common().Args[1].(*ssa.MakeClosure)
			if !ok {
				continue
			}
			cf := mc.Fn.(*ssa.Function)
			ce := c.env(cf)
			// the options function captured: a func-typed parameter of fn
			opts := ""
			for _, pa := range fn.Params {
				if sig, ok := pa.Type().Underlying().(*types.Signature); ok && sig.Results().Len() == 2 {
					opts = c.env(fn).Term(pa)
				}
			}
			if opts == "" {
				continue
			}
			n++
			key := "toValue:" + fw.ShortFn(fn)
			var msgs []string
			nEx, nPlain, nId := 0, 0, 0
			x := ce.Term(cf.Params[0])
			for _, rc := range fw.ReturnCases(cf, 0) {
				t := ce.Term(rc.Val)
				switch {
				case strings.HasPrefix(t, "invoke assert<") && strings.HasSuffix(t, "("+x+").v.JQValueToGoJQEx("+opts+")"):
					nEx++
					nonNil := false
					for _, cd := range rc.Conds {
						if y, nn, ok := nilTest(ce, cd); ok && y == opts && nn {
							nonNil = true
						}
					}
					if !nonNil {
						msgs = append(msgs, "option-aware conversion is used where the options function may be nil")
					}
				case strings.HasPrefix(t, "invoke assert<") && strings.HasSuffix(t, "("+x+").v.JQValueToGoJQ()"):
					nPlain++
					// for an option-aware value the plain form is allowed only when no options were given
					if strings.Contains(t, "JQValueEx>") {
						isNil := false
						for _, cd := range rc.Conds {
							if y, nn, ok := nilTest(ce, cd); ok && y == opts && !nn {
								isNil = true
							}
						}
						if !isNil {
							msgs = append(msgs, "an option-aware value is converted without the options although options were given")
						}
					}
				case t == x:
					nId++
				default:
					msgs = append(msgs, "value function returns "+t)
				}
			}
			if nEx == 0 {
				msgs = append(msgs, "never uses the option-aware conversion JQValueToGoJQEx(optsFn): gaps/raw bytes options would be ignored")
			}
			if nPlain == 0 {
				msgs = append(msgs, "never converts plain JQValues")
			}
			ru.Check(len(msgs) == 0, key, c.p.Rel(call.Pos()), "Ex(optsFn) when options given, plain otherwise", strings.Join(uniq(msgs), "; "))
		}
	}
	if n == 0 {
		ru.Undecided("toValue", "", "no caller in pkg/interp passes an options-capturing closure to the deep converter")
	}
}

func shortLeaf(t, A string) string {
	t = strings.ReplaceAll(t, A, "x")
	if len(t) > 40 {
		t = t[:40]
	}
	return t
}
