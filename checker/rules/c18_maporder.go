package rules

import (
	"fmt"
	"go/ast"
	"go/token"
	"go/types"
	"strings"

	"golang.org/x/tools/go/ssa"

	"fqverif/fw"
)

// ---------------------------------------------------------------------------
// C18.maporder: nothing observable is produced in map-iteration order
//
// Go randomises the iteration order of maps per loop, so "byte-identical results" requires that no result
// depends on the order in which a `for ... range m` visits the entries. Rule, per map-range loop outside the
// command-line front end:
//  (a) a slice that accumulates across the iterations (append carried around the loop, or indexed stores
//      slice[i] with a counter) is sorted after the loop;
//  (b) if several elements can be added for one map entry (the append sits in a nested loop) the sort is a
//      stable one (or of plain ordered values): an unstable sort leaves the order of equal keys to the
//      initial permutation, i.e. to the map order;
//  (c) the body calls nothing that writes through an object living outside the loop other than a map
//      (decode-tree building, writers, encoders): such effects happen in map order;
//  unless the ranged map provably has at most one entry (an element of a package-level table literal all of
//  whose elements at that depth have at most one entry).

var c18SortFns = map[string]bool{ // true = stable, or ties indistinguishable
	"sort.Slice": false, "sort.Sort": false, "slices.SortFunc": false,
	"sort.SliceStable": true, "sort.Stable": true, "slices.SortStableFunc": true,
	"sort.Strings": true, "sort.Ints": true, "sort.Float64s": true, "slices.Sort": true,
	fw.Mod + "/internal/sortx.ProxySort":   false,
	fw.Mod + "/internal/sortx.ProxyStable": true,
}

// (function|accumulator) accepted although not sorted, with the reason order cannot be observed
var c18MapOrderExceptions = map[string]string{
	"(*pkg/interp.Interp).Eval|variableNames":  "names and values of the slurp variables are appended pairwise in the same iteration and handed to gojq.WithVariables / RunWithContext in the same order; gojq binds variables by name, so their relative order is not observable",
	"(*pkg/interp.Interp).Eval|variableValues": "names and values of the slurp variables are appended pairwise in the same iteration and handed to gojq.WithVariables / RunWithContext in the same order; gojq binds variables by name, so their relative order is not observable",
}

func c18MapOrder(r *fw.Run, p *fw.Program) {
	ru := r.Rule("C18.maporder", "no result is produced in map-iteration order: in every `range` over a map outside the command-line front end, a slice accumulated across iterations is sorted after the loop (with a stable sort when one entry can contribute several elements), and the body performs no write through a non-map object living outside the loop (decode tree, writer, encoder) - unless the ranged map is an element of a package-level table whose elements all have at most one entry", 18)
	summ := mutationSummaries(p)
	for _, fn := range p.FqFunctions() {
		if c18FrontEnd(fn) || (fn.TypeParams().Len() > 0 && len(fn.TypeArgs()) == 0) {
			continue
		}
		nth := 0
		fw.EachInstr(fn, func(ins ssa.Instruction) {
			rg, ok := ins.(*ssa.Range)
			if !ok {
				return
			}
			if _, isMap := rg.X.Type().Underlying().(*types.Map); !isMap || rg.Referrers() == nil {
				return
			}
			var hdr *ssa.BasicBlock
			for _, rf := range *rg.Referrers() {
				if n, ok := rf.(*ssa.Next); ok {
					hdr = n.Block()
				}
			}
			if hdr == nil || len(hdr.Succs) != 2 {
				return
			}
			nth++
			base := fmt.Sprintf("%s|range#%d", fw.ShortFn(fn), nth)
			c18CheckMapLoop(ru, p, fn, rg, hdr, base, summ)
		})
	}
}

func c18CheckMapLoop(ru *fw.Rule, p *fw.Program, fn *ssa.Function, rg *ssa.Range, hdr *ssa.BasicBlock, base string, summ map[*ssa.Function]map[int]bool) {
	pos := p.Rel(rg.Pos())
	entry := hdr.Succs[0]
	body := map[*ssa.BasicBlock]bool{}
	for _, b := range fn.Blocks {
		if b != hdr && entry.Dominates(b) {
			body[b] = true
		}
	}
	inLoop := func(v ssa.Value) bool {
		ins, ok := v.(ssa.Instruction)
		return ok && ins.Block() != nil && (body[ins.Block()] || ins.Block() == hdr)
	}
	// blocks of the body that lie on a cycle not passing through the header: nested loops
	nested := map[*ssa.BasicBlock]bool{}
	for b := range body {
		seen := map[*ssa.BasicBlock]bool{}
		stack := append([]*ssa.BasicBlock{}, b.Succs...)
		for len(stack) > 0 {
			x := stack[len(stack)-1]
			stack = stack[:len(stack)-1]
			if x == hdr || !body[x] || seen[x] {
				continue
			}
			if x == b {
				nested[b] = true
				break
			}
			seen[x] = true
			stack = append(stack, x.Succs...)
		}
	}

	if why := c18SingletonMap(p, rg.X); why != "" {
		ru.Ok(base+"|singleton", pos, why)
		return
	}

	type accum struct {
		name   string
		phi    *ssa.Phi  // register-carried
		addr   ssa.Value // memory-carried: address (or slice base for indexed stores)
		multi  bool
		at     token.Pos
		viaIdx bool
	}
	var accs []*accum
	find := func(a *accum) *accum {
		for _, x := range accs {
			if x.phi != nil && x.phi == a.phi || x.addr != nil && a.addr != nil && c18SameAddr(x.addr, a.addr) {
				x.multi = x.multi || a.multi
				return x
			}
		}
		accs = append(accs, a)
		return a
	}
	// trace the slice an append extends back to what carries it around the loop
	var carried func(v ssa.Value, seen map[ssa.Value]bool) (*ssa.Phi, ssa.Value)
	carried = func(v ssa.Value, seen map[ssa.Value]bool) (*ssa.Phi, ssa.Value) {
		if v == nil || seen[v] {
			return nil, nil
		}
		seen[v] = true
		switch x := v.(type) {
		case *ssa.Phi:
			if x.Block() == hdr {
				return x, nil
			}
			if !body[x.Block()] {
				return nil, nil
			}
			for _, e := range x.Edges {
				if ph, ad := carried(e, seen); ph != nil || ad != nil {
					return ph, ad
				}
			}
		case *ssa.Call:
			if b, ok := x.Common().Value.(*ssa.Builtin); ok && b.Name() == "append" && inLoop(x) {
				return carried(x.Common().Args[0], seen)
			}
		case *ssa.Slice:
			return carried(x.X, seen)
		case *ssa.UnOp:
			if x.Op == token.MUL && c18AddrOutside(x.X, inLoop) {
				return nil, x.X
			}
		}
		return nil, nil
	}
	for _, b := range fn.Blocks {
		if !body[b] {
			continue
		}
		for _, ins := range b.Instrs {
			switch x := ins.(type) {
			case *ssa.Call:
				bi, ok := x.Common().Value.(*ssa.Builtin)
				if !ok || bi.Name() != "append" {
					continue
				}
				ph, ad := carried(x.Common().Args[0], map[ssa.Value]bool{})
				if ph == nil && ad == nil {
					continue
				}
				a := find(&accum{phi: ph, addr: ad, multi: nested[b], at: x.Pos()})
				if a.name == "" {
					a.name = c18AccName(ph, ad)
				}
			case *ssa.Store:
				// slice[i] = v with the slice living outside the loop and i carried around it
				ia, ok := x.Addr.(*ssa.IndexAddr)
				if !ok {
					continue
				}
				if _, isSl := ia.X.Type().Underlying().(*types.Slice); !isSl || inLoop(ia.X) && !c18LoadOutside(ia.X, inLoop) {
					continue
				}
				if !c18LoopCarriedIndex(ia.Index, hdr, body) {
					continue
				}
				a := find(&accum{addr: ia.X, multi: nested[b], at: x.Pos(), viaIdx: true})
				if a.name == "" {
					a.name = c18AccName(nil, ia.X)
				}
			}
		}
	}

	// sort calls after the loop
	type sortCall struct {
		call   ssa.CallInstruction
		stable bool
	}
	var sorts []sortCall
	for _, b := range fn.Blocks {
		if body[b] {
			continue
		}
		for _, ins := range b.Instrs {
			c, ok := ins.(ssa.CallInstruction)
			if !ok {
				continue
			}
			cal := c.Common().StaticCallee()
			if cal == nil {
				continue
			}
			name := cal.String()
			if o := cal.Origin(); o != nil {
				name = o.String()
			}
			if st, ok := c18SortFns[name]; ok {
				sorts = append(sorts, sortCall{c, st})
			}
		}
	}
	for _, a := range accs {
		key := base + "|" + a.name
		fkey := fw.ShortFn(fn) + "|" + a.name
		sorted, stable := false, false
		for _, sc := range sorts {
			for ai, arg := range sc.call.Common().Args {
				if c18AliasesAccum(arg, a.phi, a.addr, 0) {
					sorted = true
					stable = stable || sc.stable
					// the key slice of a proxy sort, of plain ordered values compared as a whole: equal keys are
					// indistinguishable, so their relative order cannot be observed in this slice
					if cal := sc.call.Common().StaticCallee(); cal != nil && strings.HasSuffix(fw.FnPkgPath(cal), "/internal/sortx") && ai == 0 {
						if sl, ok := arg.Type().Underlying().(*types.Slice); ok {
							if _, basic := sl.Elem().Underlying().(*types.Basic); basic {
								stable = true
							}
						}
					}
				}
			}
		}
		switch {
		case !sorted:
			if reason, ok := c18MapOrderExceptions[fkey]; ok {
				ru.Except(key, p.Rel(a.at), reason)
			} else if reason := c18MapOrderGuarded(p, fkey); reason != "" {
				ru.Except(key, p.Rel(a.at), reason)
			} else {
				ru.Fail(key, p.Rel(a.at), "slice "+a.name+" is filled in map-iteration order and never sorted afterwards: element order differs from run to run")
			}
		case a.multi && !stable:
			ru.Fail(key, p.Rel(a.at), "slice "+a.name+" is filled in map-iteration order, several elements per map entry (nested loop), and then sorted with an unstable sort: elements with equal sort keys keep an order that depends on the initial (map) permutation - use a stable sort")
		default:
			ru.Ok(key, p.Rel(a.at), "accumulated slice is sorted after the loop")
		}
	}

	// (c) order-dependent effects through objects outside the loop
	nEff := 0
	for _, b := range fn.Blocks {
		if !body[b] {
			continue
		}
		for _, ins := range b.Instrs {
			c, ok := ins.(ssa.CallInstruction)
			if !ok {
				continue
			}
			cc := c.Common()
			if _, isB := cc.Value.(*ssa.Builtin); isB {
				continue
			}
			outsideObj := func(v ssa.Value) bool {
				if v == nil || inLoop(v) && !c18LoadOutside(v, inLoop) {
					return false
				}
				switch v.(type) {
				case *ssa.Const, *ssa.Function, *ssa.Builtin:
					return false
				}
				switch v.Type().Underlying().(type) {
				case *types.Pointer, *types.Interface, *types.Slice:
					return true
				}
				return false
			}
			what := ""
			if callee := cc.StaticCallee(); callee != nil && fw.InFq(callee) {
				for i := range summ[callee] {
					if i < len(cc.Args) && outsideObj(cc.Args[i]) {
						what = "calls " + fw.ShortFn(callee) + ", which writes through its argument " + fmt.Sprint(i) + " (an object that outlives the iteration)"
					}
				}
			} else {
				name := ""
				var recvArg ssa.Value
				if cc.IsInvoke() {
					name = cc.Method.Name()
					recvArg = cc.Value
				} else if callee != nil {
					name = callee.Name()
					if len(cc.Args) > 0 {
						recvArg = cc.Args[0]
					}
				}
				emit := false
				for _, pre := range []string{"Write", "Print", "Fprint", "Encode", "Emit"} {
					if strings.HasPrefix(name, pre) {
						emit = true
					}
				}
				if emit && outsideObj(recvArg) {
					what = "emits output through " + name + " on an object that outlives the iteration"
				}
			}
			if what != "" {
				nEff++
				ru.Fail(fmt.Sprintf("%s|effect#%d", base, nEff), p.Rel(c.Pos()), "the body of a range over a map "+what+": the effects happen in map-iteration order, which differs from run to run")
			}
		}
	}
	if len(accs) == 0 && nEff == 0 {
		ru.Ok(base+"|order-free", pos, "no accumulated slice and no write through a non-map object outside the loop")
	}
}

func c18AccName(ph *ssa.Phi, addr ssa.Value) string {
	if ph != nil {
		if c := ph.Comment; c != "" {
			return c
		}
		return "slice"
	}
	var parts []string
	v := addr
	for i := 0; i < 8 && v != nil; i++ {
		switch x := v.(type) {
		case *ssa.FieldAddr:
			parts = append([]string{fieldNameOf(x.X.Type(), x.Field)}, parts...)
			v = x.X
			continue
		case *ssa.UnOp:
			v = x.X
			continue
		case *ssa.Alloc:
			parts = append([]string{x.Comment}, parts...)
		case *ssa.Global:
			parts = append([]string{x.Name()}, parts...)
		case *ssa.Parameter:
			parts = append([]string{x.Name()}, parts...)
		case *ssa.FreeVar:
			parts = append([]string{x.Name()}, parts...)
		case *ssa.Phi:
			if x.Comment != "" {
				parts = append([]string{x.Comment}, parts...)
			}
		case *ssa.Call:
			if x.Name() != "" {
				parts = append([]string{"slice"}, parts...)
			}
		}
		break
	}
	if len(parts) == 0 {
		return "slice"
	}
	return strings.Join(parts, ".")
}

// c18AddrOutside: the address designates memory that exists before the loop (its base is not created inside).
func c18AddrOutside(addr ssa.Value, inLoop func(ssa.Value) bool) bool {
	for i := 0; i < 10; i++ {
		switch x := addr.(type) {
		case *ssa.FieldAddr:
			addr = x.X
		case *ssa.IndexAddr:
			addr = x.X
		case *ssa.Alloc:
			return !inLoop(x)
		case *ssa.Global, *ssa.Parameter, *ssa.FreeVar:
			return true
		case *ssa.UnOp:
			if x.Op != token.MUL {
				return false
			}
			addr = x.X
		default:
			return false
		}
	}
	return false
}

// c18LoadOutside: v is a load (emitted inside the loop) of memory that exists before the loop.
func c18LoadOutside(v ssa.Value, inLoop func(ssa.Value) bool) bool {
	u, ok := v.(*ssa.UnOp)
	return ok && u.Op == token.MUL && c18AddrOutside(u.X, inLoop)
}

// c18LoopCarriedIndex: the index is a counter carried around the loop (phi at the header, or a load of a
// local that is incremented in the body).
func c18LoopCarriedIndex(idx ssa.Value, hdr *ssa.BasicBlock, body map[*ssa.BasicBlock]bool) bool {
	switch x := idx.(type) {
	case *ssa.Phi:
		return x.Block() == hdr
	case *ssa.UnOp:
		if a, ok := x.X.(*ssa.Alloc); ok && x.Op == token.MUL && a.Referrers() != nil {
			for _, rf := range *a.Referrers() {
				if st, ok := rf.(*ssa.Store); ok && st.Addr == ssa.Value(a) && body[st.Block()] {
					return true
				}
			}
		}
	case *ssa.Convert:
		return c18LoopCarriedIndex(x.X, hdr, body)
	}
	return false
}

func c18SameAddr(a, b ssa.Value) bool {
	if a == b {
		return true
	}
	switch x := a.(type) {
	case *ssa.FieldAddr:
		y, ok := b.(*ssa.FieldAddr)
		return ok && x.Field == y.Field && c18SameAddr(x.X, y.X)
	case *ssa.UnOp:
		y, ok := b.(*ssa.UnOp)
		return ok && x.Op == y.Op && c18SameAddr(x.X, y.X)
	}
	return false
}

// c18AliasesAccum: the sort argument is (derived from) the accumulator.
func c18AliasesAccum(arg ssa.Value, ph *ssa.Phi, addr ssa.Value, depth int) bool {
	if arg == nil || depth > 8 {
		return false
	}
	if ph != nil && arg == ssa.Value(ph) {
		return true
	}
	if addr != nil && arg == addr {
		return true
	}
	switch x := arg.(type) {
	case *ssa.UnOp:
		if x.Op == token.MUL && addr != nil && c18SameAddr(x.X, addr) {
			return true
		}
		if x.Op == token.MUL && addr != nil {
			// indexed-store accumulators are identified by the loaded slice value
			if u, ok := addr.(*ssa.UnOp); ok && c18SameAddr(x.X, u.X) {
				return true
			}
		}
	case *ssa.Phi:
		for _, e := range x.Edges {
			if c18AliasesAccum(e, ph, addr, depth+1) {
				return true
			}
		}
	case *ssa.ChangeType:
		return c18AliasesAccum(x.X, ph, addr, depth+1)
	case *ssa.Convert:
		return c18AliasesAccum(x.X, ph, addr, depth+1)
	case *ssa.MakeInterface:
		return c18AliasesAccum(x.X, ph, addr, depth+1)
	case *ssa.Slice:
		return c18AliasesAccum(x.X, ph, addr, depth+1)
	}
	return false
}

// c18SingletonMap: the ranged map is an element, some levels down, of a package-level map/slice literal all of
// whose elements at that depth are literals with at most one entry. Returns the justification or "".
func c18SingletonMap(p *fw.Program, m ssa.Value) string {
	depth := 0
	v := m
	for i := 0; i < 8; i++ {
		switch x := v.(type) {
		case *ssa.Extract:
			lk, ok := x.Tuple.(*ssa.Lookup)
			if !ok || x.Index != 0 {
				return ""
			}
			v = lk
			continue
		case *ssa.Lookup:
			depth++
			v = x.X
			continue
		case *ssa.UnOp:
			if x.Op != token.MUL {
				return ""
			}
			g, ok := x.X.(*ssa.Global)
			if !ok || isFqGlobal(g) == nil || depth == 0 {
				return ""
			}
			lit := c18GlobalLiteral(p, g)
			if lit == nil {
				return ""
			}
			n, max := c18LitWidthAt(lit, depth)
			if n == 0 || max > 1 {
				return ""
			}
			return fmt.Sprintf("ranges over an element of table %s whose %d elements at depth %d all have at most one entry: at most one iteration", g.Name(), n, depth)
		}
		return ""
	}
	return ""
}

// c18GlobalLiteral: the composite literal initialising a package-level variable (nil if it is assigned anywhere else).
func c18GlobalLiteral(p *fw.Program, g *ssa.Global) *ast.CompositeLit {
	rel := strings.TrimPrefix(strings.TrimPrefix(g.Pkg.Pkg.Path(), fw.Mod), "/")
	pk := p.Pkg(rel)
	if pk == nil {
		return nil
	}
	// written only by the package initialiser
	for _, fn := range p.FqFunctions() {
		if fn.Pkg != g.Pkg {
			continue
		}
		bad := false
		fw.EachInstr(fn, func(ins ssa.Instruction) {
			switch x := ins.(type) {
			case *ssa.Store:
				if x.Addr == ssa.Value(g) && !(fn.Name() == "init" && fn.Synthetic != "") {
					bad = true
				}
			case *ssa.MapUpdate:
				if !(fn.Name() == "init" && fn.Synthetic != "") && c18HasRoot(x.Map, g) {
					bad = true
				}
			}
		})
		if bad {
			return nil
		}
	}
	for _, f := range pk.Syntax {
		for _, d := range f.Decls {
			gd, ok := d.(*ast.GenDecl)
			if !ok || gd.Tok != token.VAR {
				continue
			}
			for _, sp := range gd.Specs {
				vs := sp.(*ast.ValueSpec)
				for i, n := range vs.Names {
					if pk.TypesInfo.Defs[n] == g.Object() && i < len(vs.Values) {
						lit, _ := vs.Values[i].(*ast.CompositeLit)
						return lit
					}
				}
			}
		}
	}
	return nil
}

// c18LitWidthAt: number of literals at the given nesting depth and the largest number of entries among them.
func c18LitWidthAt(lit *ast.CompositeLit, depth int) (int, int) {
	level := []*ast.CompositeLit{lit}
	for d := 0; d < depth; d++ {
		var next []*ast.CompositeLit
		for _, l := range level {
			for _, e := range l.Elts {
				v := e
				if kv, ok := e.(*ast.KeyValueExpr); ok {
					v = kv.Value
				}
				cl, ok := v.(*ast.CompositeLit)
				if !ok {
					return 0, 0 // not a literal: unknown width
				}
				next = append(next, cl)
			}
		}
		level = next
	}
	max := 0
	for _, l := range level {
		if len(l.Elts) > max {
			max = len(l.Elts)
		}
	}
	return len(level), max
}

// c18MapOrderGuarded: exceptions that hold only while a checked fact about the code holds.
func c18MapOrderGuarded(p *fw.Program, fkey string) string {
	switch fkey {
	case "format/markdown.attr|as", "format/markdown.attr|slice":
		// ast.Attribute.Attrs is filled only by the parser's Attributes extension, which the default parser
		// (markdown.Parse(b, nil) -> parser.New() -> CommonExtensions) does not enable
		n := 0
		for _, fn := range p.FqFunctions() {
			if pkgRel(fn) != "format/markdown" {
				continue
			}
			for _, c := range fw.CallsIn(fn) {
				cal := c.Common().StaticCallee()
				if cal == nil || cal.Pkg == nil || cal.Pkg.Pkg.Path() != "github.com/gomarkdown/markdown" || cal.Name() == "init" {
					continue
				}
				if cal.Name() != "Parse" || len(c.Common().Args) != 2 {
					return ""
				}
				k, ok := c.Common().Args[1].(*ssa.Const)
				if !ok || !k.IsNil() {
					return ""
				}
				n++
			}
		}
		if n > 0 {
			return "ast.Attribute.Attrs is only filled by gomarkdown's Attributes parser extension; every markdown.Parse call of the decoder passes a nil parser (default CommonExtensions, which exclude it), so the map is always empty here (checked: all calls into gomarkdown are Parse(b, nil))"
		}
	}
	return ""
}
