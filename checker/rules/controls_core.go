package rules

func init() {
	// ---- C06
	AddControl(Control{ID: "c06-panic-string", Prop: "C06", Rule: "C06.panic", File: "pkg/decode/decode.go",
		Old: `		d.Fatalf("%q already exist in struct %s", v.Name, d.Value.Name)`,
		New: `		panic(fmt.Sprintf("%q already exist in struct %s", v.Name, d.Value.Name))`, ExpectKey: "AddChild"})
	AddControl(Control{ID: "c06-errval", Prop: "C06", Rule: "C06.errval", File: "format/csv/csv.go",
		Old: `			d.Fatalf("%s", err)`, New: `			return err`, ExpectKey: "decodeCSV"})
	AddControl(Control{ID: "c06-assert", Prop: "C06", Rule: "C06.assert", File: "format/ogg/ogg.go",
		Old: `			oggPageOut, ok := dv.(format.Ogg_Page_Out)
			if !ok {
				panic("page decode is not a oggPageOut")
			}`, New: `			oggPageOut := dv.(format.Ogg_Page_Out)`, ExpectKey: "decodeOgg"})
	AddControl(Control{ID: "c06-recover-swallow", Prop: "C06", Rule: "C06.recover", File: "internal/recoverfn/recoverfn.go",
		Old: `if re, ok := recoverV.(RecoverableErrorer); ok && re.IsRecoverableError() {`,
		New: `if _, ok := recoverV.(RecoverableErrorer); ok {`, ExpectKey: "Run:filter"})
	AddControl(Control{ID: "c06-sym-unguarded", Prop: "C06", Rule: "C06.sym", File: "format/ar/ar.go",
		Old: `				if sizeStr.Sym == nil {
					d.Fatalf("could not decode file_size")
				}
`, New: ``, ExpectKey: "decodeAr"})
	// ---- C01
	AddControl(Control{ID: "c01-seek-end-minus", Prop: "C01", Rule: "C01.seek", File: "pkg/bitio/multireader.go",
		Old: `		p = end + bitOff`, New: `		p = end - bitOff`, ExpectKey: "SeekEnd"})
	AddControl(Control{ID: "c01-seek-base-dropped", Prop: "C01", Rule: "C01.seek", File: "pkg/bitio/sectiontreader.go",
		Old: `	return bitOff - r.bitBase, nil`, New: `	return bitOff, nil`, ExpectKey: "return"})
	AddControl(Control{ID: "c01-clamp-plus-one", Prop: "C01", Rule: "C01.clamp", File: "pkg/bitio/sectiontreader.go",
		Old: `	if maxBits := r.bitLimit - bitOff; nBits > maxBits {`, New: `	if maxBits := r.bitLimit - bitOff; nBits > maxBits+1 {`, ExpectKey: "count"})
	AddControl(Control{ID: "c01-multi-eof", Prop: "C01", Rule: "C01.clamp", File: "pkg/bitio/multireader.go",
		Old: `		if bitOff+rBits < end {`, New: `		if bitOff < end {`, ExpectKey: "eof"})
	AddControl(Control{ID: "c01-limit-charge", Prop: "C01", Rule: "C01.clamp", File: "pkg/bitio/limitreader.go",
		Old: `	r.n -= n`, New: `	r.n -= nBits`, ExpectKey: "charge"})
	AddControl(Control{ID: "c01-eof-skip", Prop: "C01", Rule: "C01.eof", File: "pkg/bitio/iobitreadseeker.go",
		Old: `		nBits = max(0, int64(readBytes)*8-readSkipBits)`, New: `		nBits = int64(readBytes) * 8`, ExpectKey: "short-read"})
	AddControl(Control{ID: "c01-ahead-no-invalidate", Prop: "C01", Rule: "C01.ahead", File: "internal/aheadreadseeker/aheadreadseeker.go",
		Old: `	r.offset = absOff
	r.cacheOffset = 0
	r.cacheUsed = 0

	return absOff, nil`, New: `	r.offset = absOff

	return absOff, nil`, ExpectKey: "invalidate"})
	AddControl(Control{ID: "c01-err-dropped", Prop: "C01", Rule: "C01.err", File: "pkg/bitio/iobitreadseeker.go",
		Old: `	_, err := r.rs.Seek(readBytePos, io.SeekStart)
	if err != nil {
		return 0, err
	}`, New: `	_, _ = r.rs.Seek(readBytePos, io.SeekStart)
	var err error`, ExpectKey: "Seek"})
	// ---- C13
	AddControl(Control{ID: "c13-shift-unguarded", Prop: "C13", Rule: "C13.pre", File: "pkg/interp/bitops.go",
		Old: `		func(l, r int) any {
			if r < 0 {
				return fmt.Errorf("bsr: negative shift count %d", r)
			}
			return l >> r
		},`, New: `		func(l, r int) any {
			return l >> r
		},`, ExpectKey: "shift"})
		AddControl(Control{ID: "c13-unit-zero", Prop: "C13", Rule: "C13.pre", File: "pkg/interp/binary.go",
		Old: `	if opts.Unit <= 0 || opts.PadToUnits < 0 {`, New: `	if opts.Unit < 0 || opts.PadToUnits < 0 {`, ExpectKey: "div"})
		AddControl(Control{ID: "c13-clamp-swapped", Prop: "C13", Rule: "C13.inv", File: "pkg/interp/interp.go",
		Old: `	opts.Addrbase = mathx.Clamp(2, 36, opts.Addrbase)`, New: `	opts.Addrbase = mathx.Clamp(opts.Addrbase, 2, 36)`, ExpectKey: "Addrbase"})
	AddControl(Control{ID: "c13-linebytes-zero", Prop: "C13", Rule: "C13.inv", File: "pkg/interp/interp.go",
		Old: `	opts.LineBytes = max(1, opts.LineBytes)`, New: `	opts.LineBytes = max(0, opts.LineBytes)`, ExpectKey: "LineBytes"})
	AddControl(Control{ID: "c13-comma-empty", Prop: "C13", Rule: "C13.pre", File: "format/csv/csv.go",
		Old: `	if opts.Comma != "" {
		w.Comma = rune(opts.Comma[0])
	}`, New: `	w.Comma = rune(opts.Comma[0])`, ExpectKey: "stridx"})
	AddControl(Control{ID: "c13-panic-added", Prop: "C13", Rule: "C13.panic", File: "pkg/interp/bitops.go",
		Old: `		return &gojqx.UnaryTypeError{Name: "bnot", V: c}`, New: `		panic("bnot: unsupported type")`, ExpectKey: "bnot"})
	// ---- C18
	AddControl(Control{ID: "c18-global-cache", Prop: "C18", Rule: "C18.globals", File: "format/csv/csv.go",
		Old: `func decodeCSV(d *decode.D) any {`, New: `var lastRows = map[string]int{}

func decodeCSV(d *decode.D) any {
	lastRows["n"]++`, ExpectKey: "lastRows"})
	AddControl(Control{ID: "c18-once-sort-outside", Prop: "C18", Rule: "C18.once", File: "pkg/interp/registry.go",
		Old: `	r.resolveGroups()
	if g, ok := r.groups[name]; ok {
		return g, nil
	}`, New: `	r.resolveGroups()
	if g, ok := r.groups[name]; ok {
		sortFormats(g)
		return g, nil
	}`, ExpectKey: "sortFormats"})
	AddControl(Control{ID: "c18-inarg-pointer", Prop: "C18", Rule: "C18.inarg", File: "format/flac/flac_frame.go",
		Old: `			DefaultInArg: format.FLAC_Frame_In{`, New: `			DefaultInArg: &format.FLAC_Frame_In{`, ExpectKey: "FLAC_Frame_In"})
	AddControl(Control{ID: "c18-eval-shared-instance", Prop: "C18", Rule: "C18.eval", File: "pkg/interp/interp.go",
		Old: `	ni.EvalInstance = EvalInstance{
		includeSeen: map[string]struct{}{},
	}`, New: `	if ni.EvalInstance.includeSeen == nil {
		i.EvalInstance = EvalInstance{
			includeSeen: map[string]struct{}{},
		}
	}`, ExpectKey: "fresh"})
	AddControl(Control{ID: "c18-buf-kept", Prop: "C18", Rule: "C18.buf", File: "pkg/decode/decode.go",
		Old: `func (d *D) Bits(nBits int) []byte {
	b, err := d.TryBits(nBits)`, New: `var lastBits [][]byte

func (d *D) Bits(nBits int) []byte {
	b, err := d.TryBits(nBits)
	lastBits = append(lastBits[:0], b)`, ExpectKey: "Bits"})
}

func init() {
	AddControl(Control{ID: "c06-sentinel-frames", Prop: "C06", Rule: "C06.sentinel", File: "internal/recoverfn/recoverfn.go",
		Old: "	if bottomIndex != -1 {\n		endIndex = bottomIndex - bottomSkip", New: "	if bottomPC != 0 {\n		endIndex = bottomIndex - bottomSkip", ExpectKey: "(internal/recoverfn.Raw).frames|bottomIndex#1"})
	AddControl(Control{ID: "c18-lazy-once-moved", Prop: "C18", Rule: "C18.lazy", File: "format/wasm/wasm.go",
		Old: "	d.Endian = decode.LittleEndian\n\n	// delayed initialization", New: "	d.Endian = decode.LittleEndian\n	decodeWASMModule(d)\n\n	// delayed initialization", ExpectKey: "format/wasm.instrMap|reader:format/wasm.decodeInstruction"})
	AddControl(Control{ID: "c18-cachekey-mismatch", Prop: "C18", Rule: "C18.cachekey", File: "pkg/interp/interp.go",
		Old: "i.includeCache[filename] = q", New: "i.includeCache[filenamePart] = q", ExpectKey: "pkg/interp.Interp.includeCache|(*pkg/interp.Interp).Eval$2"})
}

func init() {
	AddControl(Control{ID: "c13-alloc-indent-unclamped", Prop: "C13", Rule: "C13.alloc", File: "format/toml/toml.go",
		Old: "min(max(0, opts.Indent), maxIndent)", New: "max(0, opts.Indent)", ExpectKey: "format/toml.toTOML|repeat|1"})
	AddControl(Control{ID: "c13-alloc-read-grow", Prop: "C13", Rule: "C13.alloc", File: "pkg/interp/interp.go",
		Old: "	buf := &bytes.Buffer{}\n	_, err = io.CopyN(buf, r, int64(l))", New: "	buf := &bytes.Buffer{}\n	buf.Grow(l)\n	_, err = io.CopyN(buf, r, int64(l))", ExpectKey: "(*pkg/interp.Interp)._stdioRead|grow|1"})
	AddControl(Control{ID: "c13-alloc-read-len", Prop: "C13", Rule: "C13.alloc", File: "pkg/interp/interp.go",
		Old: "	buf := &bytes.Buffer{}\n	_, err = io.CopyN(buf, r, int64(l))\n	s := buf.String()", New: "	rbuf := make([]byte, l)\n	n, err := io.ReadFull(r, rbuf)\n	s := string(rbuf[0:n])", ExpectKey: "(*pkg/interp.Interp)._stdioRead|make|1"})
}

func init() {
	AddControl(Control{ID: "c13-nilret-unknown-encoding", Prop: "C13", Rule: "C13.nilret", File: "format/text/encoding.go",
		Old: "		default:\n			return base64.StdEncoding", New: "		case \"\", \"std\":\n			return base64.StdEncoding\n		default:\n			return nil", ExpectKey: ""})
	AddControl(Control{ID: "c13-errval-typed-arg", Prop: "C13", Rule: "C13.errval", File: "internal/gojqx/makefn_gen.go",
		Old: "V: a[1]}\n			}\n\n			return fn(env, cv, a0, a1)", New: "V: a1}\n			}\n\n			return fn(env, cv, a0, a1)", ExpectKey: ""})
}

func init() {
	AddControl(Control{ID: "c06-wrapguard-text-bits", Prop: "C06", Rule: "C06.wrapguard", File: "pkg/decode/read.go",
		Old: "	if int64(nBytes) > bytesLeft {", New: "	if int64(nBytes)*8 > d.BitsLeft() {", ExpectKey: "(*pkg/decode.D).tryText|guard#1"})
}

func init() {
	AddControl(Control{ID: "c06-forceeq-mpeg-version", Prop: "C06", Rule: "C06.forceeq", File: "format/mpeg/mp3_frame.go",
		Old: "d.Fatalf(\"Unsupported mpeg version\")", New: "d.Errorf(\"Unsupported mpeg version\")", ExpectKey: "format/mpeg.frameDecode$1|mpegVersionNr==0"})
}

func init() {
	AddControl(Control{ID: "c18-shared-probeorder", Prop: "C18", Rule: "C18.shared", File: "pkg/decode/decode.go",
		Old: "	for _, f := range group.Formats {\n		var inArgs []any", New: "	for _, f := range group.Formats {\n		f.ProbeOrder++\n		var inArgs []any", ExpectKey: "pkg/decode.decode|Format.ProbeOrder#1"})
}

func init() {
	AddControl(Control{ID: "c07-immut-normalize-inplace", Prop: "C07", Rule: "C07.immut", File: "internal/gojqx/types.go",
		Old: "			vs[i] = NormalizeFn(e, fn)\n", New: "			vs[i] = NormalizeFn(e, fn)\n			v[i] = vs[i]\n", ExpectKey: "jq:to_xml=format/xml.toXML"})
	AddControl(Control{ID: "c14-immut-normalize-inplace", Prop: "C14", Rule: "C14.immut", File: "internal/gojqx/types.go",
		Old: "			vm[k] = NormalizeFn(e, fn)\n		}\n		return vm\n	case map[any]any:", New: "			vm[k] = NormalizeFn(e, fn)\n			v[k] = vm[k]\n		}\n		return vm\n	case map[any]any:", ExpectKey: "jq:_to_toml=format/toml.toTOML"})
}

func init() {
	AddControl(Control{ID: "c01-buffer-bits-count", Prop: "C01", Rule: "C01.buffer", File: "pkg/bitio/buffer.go",
		Old: "	return buf, l\n", New: "	return buf, b.bufBits\n", ExpectKey: "Bits:reported"})
	AddControl(Control{ID: "c01-buffer-read-advance", Prop: "C01", Rule: "C01.buffer", File: "pkg/bitio/buffer.go",
		Old: "	b.bitsOff += c\n", New: "	b.bitsOff += nBits\n", ExpectKey: "ReadBits:advance"})
}

func init() {
	AddControl(Control{ID: "c13-jqtype-string-slice", Prop: "C13", Rule: "C13.jqtype", File: "format/text/url.go",
		Old: "				qm[k] = vm\n", New: "				qm[k] = v\n				_ = vm\n", ExpectKey: ""})
}

func init() {
	AddControl(Control{ID: "c18-stateful-decoder-table", Prop: "C18", Rule: "C18.stateful", File: "format/id3/id3v2.go",
		Old: "func decodeToString(e int, b []byte) string {", New: "var sharedUTF8Decoder = unicode.UTF8.NewDecoder()\n\nfunc decodeToString(e int, b []byte) string {", ExpectKey: "format/id3.sharedUTF8Decoder"})
}

func init() {
	AddControl(Control{ID: "c06-div-elf-entsize", Prop: "C06", Rule: "C06.div", File: "format/elf/elf.go",
		Old: "	case SHT_SYMTAB:\n		if entSize == 0 {\n			d.Fatalf(\"symbol table entry size is zero\")\n		}\n", New: "	case SHT_SYMTAB:\n", ExpectKey: "format/elf.elfDecodeSectionHeader$3|div|1"})
}
