package rules

// Positive controls of C04: seeded one-to-three-line breakages, applied in memory.

func init() {
	const R = "pkg/ranges/ranges.go"
	const D = "pkg/decode/decode.go"
	const V = "pkg/decode/value.go"
	add := func(id, rule, file, old, new, expect string) {
		AddControl(Control{ID: id, Prop: "C04", Rule: rule, File: file, Old: old, New: new, ExpectKey: expect})
	}
	add("c04-leafs-gap-recut-relative", "C04.leafs", D, "\t\t\tminMaxRange = ranges.MinMax(minMaxRange, v.Range)\n", "\t\t\tminMaxRange = ranges.MinMax(minMaxRange, v.Range)\n\t\t\tif bb, ok := v.V.(*scalar.BitBuf); ok && bb.Flags.IsGap() {\n\t\t\t\tif gapBR, err := bitiox.Range(br, v.Range.Start, v.Range.Len); err == nil {\n\t\t\t\t\tbb.Actual = gapBR\n\t\t\t\t}\n\t\t\t}\n", "gap-value:actual-final")
	// C04.sort
	add("c04-sort-descending", "C04.sort", R, "cmp.Compare(a.Start, b.Start)", "cmp.Compare(b.Start, a.Start)", "Gaps:sort-key")
	// C04.merge
	add("c04-merge-slack2", "C04.merge", R, "m.Stop()+1 >= ranges[j].Start", "m.Stop()+2 >= ranges[j].Start", "Gaps:merge-slack=2")
	add("c04-merge-break-early", "C04.merge", R, "if j >= len(ranges) {", "if j >= len(ranges)-1 {", "Gaps:loop-exit")
	add("c04-merge-restart-skips", "C04.merge", R, "\t\t\t\ti = j\n", "\t\t\t\ti = j + 1\n", "Gaps:restart-index")
	add("c04-merge-shrinks", "C04.merge", R, "if ranges[j].Stop() > m.Stop() {", "if ranges[j].Stop() < m.Stop() {", "Gaps:extend-guard")
	add("c04-merge-scan-from", "C04.merge", R, "j := i + 1", "j := i + 2", "Gaps:scan-step")
	add("c04-merge-stale-stop", "C04.merge", R, "\t\tj := i + 1\n\t\tfor ; j < len(ranges); j++ {\n\t\t\tif m.Start <= ranges[j].Start && m.Stop()+1 >= ranges[j].Start {", "\t\tj := i + 1\n\t\tstop := m.Stop()\n\t\tfor ; j < len(ranges); j++ {\n\t\t\tif m.Start <= ranges[j].Start && stop+1 >= ranges[j].Start {", "Gaps:merge-fresh")
	// C04.runs
	add("c04-runs-stale-flag", "C04.runs", R, "\t\tmadded = false\n\t\tm = ranges[i]", "\t\tm = ranges[i]", "Gaps:merged-read")
	add("c04-runs-inverted-flag", "C04.runs", R, "if !madded {", "if madded {", "Gaps:flush:after-loop")
	add("c04-runs-empty-test", "C04.runs", R, "if m.Len == 0 {", "if m.IsZero() {", "Gaps:flush")
	// C04.emit
	add("c04-emit-mid-bound", "C04.emit", R, "range len(merged) - 1", "range len(merged) - 2", "Gaps:emit:mid:loop-bound")
	add("c04-emit-tail-len", "C04.emit", R, "Len: total.Stop() - l.Stop()}", "Len: total.Stop() - l.Start}", "Gaps:emit:tail:len")
	add("c04-emit-result-len", "C04.emit", R, "gaps := make([]Range, 0, len(merged))", "gaps := make([]Range, len(merged))", "Gaps:result-empty")
	add("c04-emit-total-cond", "C04.emit", R, "\tif len(merged) == 0 {\n\t\treturn []Range{total}", "\tif len(merged) <= 1 {\n\t\treturn []Range{total}", "Gaps:return-total")
	// C04.opts
	add("c04-opts-bitbuf-nofill", "C04.opts", D, "\t\tFillGaps:    true,\n\t\tIsRoot:      true,", "\t\tFillGaps:    false,\n\t\tIsRoot:      true,", "TryFieldFormatBitBuf:FillGaps")
	add("c04-opts-len-openended", "C04.opts", D, "Range:       ranges.Range{Start: d.Pos(), Len: nBits},", "Range:       ranges.Range{Start: d.Pos(), Len: d.BitsLeft()},", "TryFieldFormatLen:FillGaps")
	add("c04-opts-interp-nofill", "C04.opts", "pkg/interp/decode.go", "\t\t\tFillGaps:    true,", "\t\t\tFillGaps:    false,", "_decode:FillGaps")
	// C04.path
	add("c04-path-len-whole-buffer", "C04.path", D, "d.FillGaps(ranges.Range{Start: 0, Len: decodeRange.Len}, \"gap\")", "d.FillGaps(ranges.Range{Start: 0, Len: brLen}, \"gap\")", "decode:fillgaps-range:len")
	add("c04-path-only-on-success", "C04.path", D, "\t\tif opts.FillGaps {\n\t\t\td.FillGaps", "\t\tif opts.FillGaps && rOk {\n\t\t\td.FillGaps", "filled")
	add("c04-path-shift-assign", "C04.path", D, "v.Range.Start += decodeRange.Start", "v.Range.Start = decodeRange.Start", "decode:shift:start")
	add("c04-path-continue-always", "C04.path", D, "\t\t\tif len(group.Formats) != 1 {\n\t\t\t\tcontinue", "\t\t\tif len(group.Formats) != 0 {\n\t\t\t\tcontinue", "decode:failed-continue")
	// C04.leafs
	add("c04-leafs-no-filter", "C04.leafs", D, "\t\t\tswitch iv.V.(type) {\n\t\t\tcase *Compound:\n\t\t\tdefault:\n\t\t\t\tfn(iv)\n\t\t\t}", "\t\t\tfn(iv)", "leaf-filter")
	add("c04-leafs-bits-swapped", "C04.leafs", D, "br, err := bitiox.Range(d.bitBuf, gap.Start, gap.Len)", "br, err := bitiox.Range(d.bitBuf, gap.Len, gap.Start)", "FillGaps:gap-bits:range")
	add("c04-leafs-all-roots", "C04.leafs", D, "\t_ = d.Value.WalkRootPreOrder(makeWalkFn(func(iv *Value) {\n\t\tvalueRanges[i]", "\t_ = d.Value.WalkPreOrder(makeWalkFn(func(iv *Value) {\n\t\tvalueRanges[i]", "root-limited")
	add("c04-leafs-skip-first-gap", "C04.leafs", D, "for i, gap := range gaps {", "for i, gap := range gaps[1:] {", "FillGaps:gap-loop")
	add("c04-leafs-section", "C04.leafs", "internal/bitiox/bitiox.go", "return bitio.NewSectionReader(br, firstBitOffset, nBits), nil", "return bitio.NewSectionReader(br, firstBitOffset, nBits-1), nil", "bitiox.Range:section")
	add("c04-leafs-gaps-before-fill", "C04.leafs", D,
		"\ti := 0\n\t_ = d.Value.WalkRootPreOrder(makeWalkFn(func(iv *Value) {\n\t\tvalueRanges[i] = iv.Range\n\t\ti++\n\t}))\n\n\tgaps := ranges.Gaps(r, valueRanges)\n",
		"\tgaps := ranges.Gaps(r, valueRanges)\n\ti := 0\n\t_ = d.Value.WalkRootPreOrder(makeWalkFn(func(iv *Value) {\n\t\tvalueRanges[i] = iv.Range\n\t\ti++\n\t}))\n",
		"FillGaps:collect:order")
	add("c04-path-default-cond", "C04.path", D, "\tif decodeRange.IsZero() {\n\t\tdecodeRange = ranges.Range{Len: brLen}", "\tif decodeRange.Len == 0 {\n\t\tdecodeRange = ranges.Range{Len: brLen}", "decode:range-default")
	add("c04-path-default-len", "C04.path", D, "decodeRange = ranges.Range{Len: brLen}", "decodeRange = ranges.Range{Len: brLen - decodeRange.Start}", "decode:range-default")
	add("c04-path-continue-after-success", "C04.path", D, "\t\t\tif len(group.Formats) != 1 {\n\t\t\t\tcontinue\n\t\t\t}\n\t\t}\n", "\t\t}\n\t\tif len(group.Formats) != 1 && len(formatsErr.Errs) > 0 {\n\t\t\tcontinue\n\t\t}\n", "decode:failed-continue")
	add("c04-path-shift-leafs-only", "C04.path", D, "\t\t\tv.Range.Start += decodeRange.Start\n", "\t\t\tif _, isCompound := v.V.(*Compound); isCompound {\n\t\t\t\tv.Range.Start += decodeRange.Start\n\t\t\t}\n", "decode:shift:start")
	// C04.leafs (second round)
	add("c04-leafs-filter-extra-type", "C04.leafs", D, "\t\t\tswitch iv.V.(type) {\n\t\t\tcase *Compound:\n\t\t\tdefault:", "\t\t\tswitch iv.V.(type) {\n\t\t\tcase *Compound, *scalar.BitBuf:\n\t\t\tdefault:", "filter-exact")
	add("c04-leafs-walk-cut-short", "C04.leafs", D, "\t\t\tswitch iv.V.(type) {\n\t\t\tcase *Compound:\n\t\t\tdefault:", "\t\t\tswitch iv.V.(type) {\n\t\t\tcase *Compound:\n\t\t\t\tif iv.Err != nil {\n\t\t\t\t\treturn ErrWalkSkipChildren\n\t\t\t\t}\n\t\t\tdefault:", "no-abort")
	add("c04-leafs-collect-conditional", "C04.leafs", D, "\t\tvalueRanges[i] = iv.Range\n\t\ti++\n", "\t\tif iv.Err == nil {\n\t\t\tvalueRanges[i] = iv.Range\n\t\t\ti++\n\t\t}\n", "FillGaps:collect:unconditional")
	add("c04-leafs-skip-leading-gap", "C04.leafs", D, "\tfor i, gap := range gaps {\n", "\tfor i, gap := range gaps {\n\t\tif gap.Start == 0 && d.Value.Parent != nil {\n\t\t\tcontinue\n\t\t}\n", "FillGaps:gap-add")
	add("c04-leafs-shared-bitbuf", "C04.leafs", D, "\tfor i, gap := range gaps {\n\t\tbr, err := bitiox.Range(d.bitBuf, gap.Start, gap.Len)\n\t\tif err != nil {\n\t\t\td.IOPanic(err, namePrefix, \"bitiox.Range\")\n\t\t}\n\n\t\tv := &Value{\n\t\t\tName: fmt.Sprintf(\"%s%d\", namePrefix, i),\n\t\t\tV: &scalar.BitBuf{\n\t\t\t\tActual: br,\n\t\t\t\tFlags:  scalar.FlagGap,\n\t\t\t},",
		"\tgapBitBuf := scalar.BitBuf{Flags: scalar.FlagGap}\n\tfor i, gap := range gaps {\n\t\tbr, err := bitiox.Range(d.bitBuf, gap.Start, gap.Len)\n\t\tif err != nil {\n\t\t\td.IOPanic(err, namePrefix, \"bitiox.Range\")\n\t\t}\n\n\t\tgapBitBuf.Actual = br\n\t\tv := &Value{\n\t\t\tName: fmt.Sprintf(\"%s%d\", namePrefix, i),\n\t\t\tV:    &gapBitBuf,", "FillGaps:gap-value:fresh-bits")
	add("c04-leafs-shared-value", "C04.leafs", D, "\tfor i, gap := range gaps {\n\t\tbr, err := bitiox.Range(d.bitBuf, gap.Start, gap.Len)\n\t\tif err != nil {\n\t\t\td.IOPanic(err, namePrefix, \"bitiox.Range\")\n\t\t}\n\n\t\tv := &Value{\n", "\tv := &Value{}\n\tfor i, gap := range gaps {\n\t\tbr, err := bitiox.Range(d.bitBuf, gap.Start, gap.Len)\n\t\tif err != nil {\n\t\t\td.IOPanic(err, namePrefix, \"bitiox.Range\")\n\t\t}\n\n\t\t*v = Value{\n", "FillGaps:gap-value")
	// C04.merge (second round)
	add("c04-merge-span-wrong-elem", "C04.merge", R, "\t\t\t\tif ranges[j].Stop() > m.Stop() {\n\t\t\t\t\tm.Len = ranges[j].Stop() - m.Start\n\t\t\t\t}", "\t\t\t\tm = MinMax(m, ranges[i])", "Gaps:merge-predicate")
	// C04.walk
	add("c04-walk-callback-conditional", "C04.walk", V, "\t\tif opts.PreOrder {\n\t\t\terr := opts.Fn(wv, rootV, depth, rootDepth+rootDepthDelta)", "\t\tif opts.PreOrder && depth > 0 {\n\t\t\terr := opts.Fn(wv, rootV, depth, rootDepth+rootDepthDelta)", "Walk:callback")
	add("c04-walk-children-from-1", "C04.walk", V, "\t\t\tfor _, wv := range wvv.Children {\n\t\t\t\tif err := walkFn(wv, rootV, depth+1", "\t\t\tfor _, wv := range wvv.Children[1:] {\n\t\t\t\tif err := walkFn(wv, rootV, depth+1", "Walk:all-children")
	// C04.link
	add("c04-link-arrays-not-appended", "C04.link", D, "\t\t\tfv.ByName[v.Name] = v\n\t\t}\n\t\tfv.Children = append(fv.Children, v)", "\t\t\tfv.ByName[v.Name] = v\n\t\t\tfv.Children = append(fv.Children, v)\n\t\t}", "AddChild:")
	// C04.roots
	add("c04-roots-fielddecoder-parent-reader", "C04.roots", D, "\t\tOptions: d.Options,\n\n\t\tbitBuf:  bitBuf,", "\t\tOptions: d.Options,\n\n\t\tbitBuf:  d.bitBuf,", "fieldDecoder:one-reader")
	add("c04-roots-newdecoder", "C04.roots", D, "\t\t\tIsRoot:     opts.IsRoot,", "\t\t\tIsRoot:     false,", "newDecoder:IsRoot")
	add("c04-roots-walk-skips-start", "C04.roots", V, "if opts.OneRoot && wv != v && wv.IsRoot {", "if opts.OneRoot && wv.IsRoot {", "Walk:one-root-skip")
	add("c04-roots-rootbitbuf-unmarked", "C04.roots", D, "\tv.RootReader = br\n\tv.IsRoot = true\n", "\tv.RootReader = br\n", "RootReader:(*pkg/decode.D).FieldRootBitBuf")
}
