package rules

import (
	"fmt"
	"sort"
	"strings"

	"github.com/wader/gojq"

	"fqverif/fw"
)

// ---------------------------------------------------------------------------
// C11.ctor

// c11CtorFlow: for each AST constructor of query.jq, where its input (<.>) and its arguments
// (<arg0>, <arg1> by position) and constants end up in the value it builds, as sorted path=leaf facts.
var c11CtorFlow = map[string]string{
	"_query_null/0":   `term.type="TermTypeNull"`,
	"_query_ident/0":  `term.type="TermTypeIdentity"`,
	"_query_query/0":  `term.query=<.> term.type="TermTypeQuery"`,
	"_query_string/1": `term.str.str=<arg0> term.type="TermTypeString"`,
	"_query_func/2":   `term.func.args=<arg1> term.func.name=<arg0> term.type="TermTypeFunc"`,
	"_query_func/1":   `term.func.args=null term.func.name=<arg0> term.type="TermTypeFunc"`,
	"_query_empty/0":  `term.func.args=null term.func.name="empty" term.type="TermTypeFunc"`,
	"_query_pipe/2":   `left=<arg0> op="|" right=<arg1>`,
	"_query_comma/2":  `left=<arg0> op="," right=<arg1>`,
	"_query_try/2":    `term.try.body=<arg0> term.try.catch=<arg1> term.type="TermTypeTry"`,
	"_query_try/1":    `term.try.body=<arg0> term.try.catch=null term.type="TermTypeTry"`,
	"_query_array/0":  `if(<.>){term.array.query=<.> term.type="TermTypeArray"}{term.array={} term.type="TermTypeArray"}`,
	"_query_object/0": `term.object.key_vals=<?> term.type="TermTypeObject"`,
	"_query_iter/0":   `set(<.>;.term.suffix_list=[0].iter=true)`,
}

// c11CtorFlowAlt: equivalent shapes. gojq.Func's printer (and compiler) test len(Args), so an empty
// argument list and an absent one are the same call.
var c11CtorFlowAlt = map[string]string{
	"_query_func/1":  `term.func.args=[] term.func.name=<arg0> term.type="TermTypeFunc"`,
	"_query_empty/0": `term.func.args=[] term.func.name="empty" term.type="TermTypeFunc"`,
}

func c11DropNullFacts(flat string) string {
	var out []string
	for _, f := range strings.Split(flat, " ") {
		if strings.HasSuffix(f, "=null") && !strings.ContainsAny(f, "(){}") {
			continue
		}
		out = append(out, f)
	}
	return strings.Join(out, " ")
}

// c11Accessors: the field (or comparison) each accessor is.
var c11Accessors = map[string]string{
	"_query_is_func/0":    `.term.type=="TermTypeFunc"`,
	"_query_func_name/0":  `.term.func.name`,
	"_query_func_args/0":  `.term.func.args`,
	"_query_is_string/0":  `.term.type=="TermTypeString"`,
	"_query_string_str/0": `.term.str.str`,
	"_query_is_ident/0":   `.term.type=="TermTypeIdentity"`,
}

func (c *c11Ctx) ctor() {
	ru := c.r.Rule("C11.ctor", "each jq AST constructor builds a value that decodes into gojq's structs (field names, TermType/operator strings, the field its printer arm reads) and puts its input, arguments and constants at the places the construct's meaning requires (left/right, body/catch, name/args ...); _query_commas folds every non-empty list", 36)
	queryField := c11Field{Kind: "struct", Elem: "Query"}
	for _, k := range fw.SortedKeys(c11CtorFlow) {
		var name string
		var ar int
		i := strings.LastIndex(k, "/")
		name = k[:i]
		fmt.Sscanf(k[i+1:], "%d", &ar)
		d := c.def(ru, c11QueryJQ, name, ar)
		if d == nil {
			continue
		}
		v := c.evalDef(d)
		got := v.flat()
		if alt, ok := c11CtorFlowAlt[k]; ok && got == alt {
			got = c11CtorFlow[k]
		}
		// an absent key and an explicit null decode to the same (nil) field
		if c11DropNullFacts(got) == c11DropNullFacts(c11CtorFlow[k]) {
			got = c11CtorFlow[k]
		}
		ru.Check(got == c11CtorFlow[k], "flow:"+k, c.pos(d), got,
			fmt.Sprintf("%s builds %s, but the construct needs %s (an argument, the input or a constant ends up in the wrong place)", k, got, c11CtorFlow[k]))
		var probs []string
		c.validate(v, queryField, "", &probs)
		ru.Check(len(probs) == 0, "schema:"+k, c.pos(d), "value fits gojq.Query", k+" builds a value the Go side does not read as intended: "+strings.Join(probs, "; "))
	}
	// accessors / predicates the rewrite relies on: what they read
	for _, k := range fw.SortedKeys(c11Accessors) {
		i := strings.LastIndex(k, "/")
		var ar int
		fmt.Sscanf(k[i+1:], "%d", &ar)
		d := c.def(ru, c11QueryJQ, k[:i], ar)
		if d == nil {
			continue
		}
		got := c11CondStr(d.Def.Body, "")
		ru.Check(got == c11Accessors[k], "reads:"+k, c.pos(d), got, fmt.Sprintf("%s reads %s, but its callers (slurp detection in _eval_query_rewrite, help) need %s", k, got, c11Accessors[k]))
	}
	// _query_object: key/val pairs come from to_entries' key/value
	if d := c.def(ru, c11QueryJQ, "_query_object", 0); d != nil {
		found := 0
		fw.WalkJQ(d.Def.Body, func(n any) bool {
			t, ok := n.(*gojq.Term)
			if !ok || t.Type != gojq.TermTypeObject || t.Object == nil || len(t.SuffixList) > 0 {
				return true
			}
			keys := map[string]string{}
			for _, kv := range t.Object.KeyVals {
				if ch := c11QueryChain(kv.Val); ch != nil && ch.Root == "." {
					keys[kv.Key] = ch.Path()
				}
			}
			if len(t.Object.KeyVals) == 2 && len(keys) == 2 {
				if _, has := keys["key"]; has {
					found++
					okv := keys["key"] == ".key" && keys["val"] == ".value"
					_, f1 := c.sc.field("ObjectKeyVal", "key")
					_, f2 := c.sc.field("ObjectKeyVal", "val")
					ru.Check(okv && f1 && f2, "flow:_query_object:key_vals", c.pos(d), "{key: .key, val: .value} over to_entries",
						fmt.Sprintf("_query_object maps entries to {key: %s, val: %s}; gojq.ObjectKeyVal needs key <- .key and val <- .value", keys["key"], keys["val"]))
				}
			}
			return true
		}, false)
		if found != 1 {
			ru.Undecided("flow:_query_object:key_vals", c.pos(d), "the {key, val} entry constructor was not found")
		}
		calls := map[string]bool{}
		for _, f := range fw.JQCalls(d.Def.Body) {
			calls[fw.JQFuncKey(f)] = true
		}
		ru.Check(calls["to_entries/0"] && calls["map/1"], "flow:_query_object:entries", c.pos(d), "to_entries | map(...)", "_query_object no longer maps over to_entries")
	}
	// _query_commas: a, b, c in order, each element once; empty list -> empty
	if d := c.def(ru, c11QueryJQ, "_query_commas", 0); d != nil {
		c.commasGuard(ru, d)
		var red *gojq.Reduce
		fw.WalkJQ(d.Def.Body, func(n any) bool {
			if r, ok := n.(*gojq.Reduce); ok {
				red = r
			}
			return true
		}, false)
		ok := false
		msg := "no reduce found"
		if red != nil && red.Pattern != nil && red.Pattern.Name != "" {
			start := c11QueryChain(red.Start)
			upd := c11Call(red.Update, "_query_comma", 2)
			msg = "elements folded are " + fw.JQStr(red.Query) + ", want .[1:][] (every element after the first, once)"
			if t := c11Unparen(red.Query); t != nil && t.Left == nil && t.Term != nil && t.Term.Type == gojq.TermTypeIndex && t.Term.Index != nil && len(t.Term.SuffixList) == 1 {
				ix := t.Term.Index
				if ix.IsSlice && ix.End == nil && ix.Name == "" && ix.Str == nil && t.Term.SuffixList[0].Iter {
					if n, isn := c11ConstInt(ix.Start); isn && n == "1" {
						msg = ""
					}
				}
			}
			if msg == "" {
				switch {
				case start == nil || start.String() != ".[0]":
					msg = "fold starts from " + fw.JQStr(red.Start) + ", want .[0]"
				case upd == nil || !c11IsIdentity(upd.Args[0]):
					msg = "fold step must be _query_comma(.; $elem): accumulated queries on the left"
				default:
					if v, isv := c11Var(upd.Args[1], red.Pattern.Name); !isv {
						msg = "fold step's right operand is " + v + fw.JQStr(upd.Args[1]) + ", want the element variable " + red.Pattern.Name
					} else {
						ok = true
					}
				}
			}
		}
		ru.Check(ok, "flow:_query_commas", c.pos(d), "reduce .[1:][] as $q (.[0]; _query_comma(.; $q))", "_query_commas: "+msg)
	}
}

// ---------------------------------------------------------------------------
// C11.keys

// c11KeyScopes: definitions whose path expressions navigate query ASTs. roots: which chain
// roots are AST-valued ("." and/or named variables).
type c11KeyScope struct {
	file   string
	prefix string // all top-level defs with this name prefix
	name   string // or one named def (any arity)
	roots  []string
	except map[string]string // def key -> reason
}

var c11KeyScopes = []c11KeyScope{
	{file: c11QueryJQ, prefix: "_query_", roots: []string{"."}, except: map[string]string{
		"_query_completion/1": "navigates the completion descriptor {query, type, prefix} built by _query_completion_type, not a query AST (its .meta/.imports use is covered through _query_fromtostring's twin code in C11.fromto)",
		"_query_commas/0":     "input is an array of queries; only positional indexing",
		"_query_object/0":     "input is a jq object whose values are queries; .key/.value are to_entries' fields (the constructed shape is covered by C11.ctor)",
	}},
	{file: c11EvalJQ, name: "_eval_query_rewrite", roots: []string{"."}},
	{file: c11JSONJQ, name: "from_jq", roots: []string{".", "$v"}},
}

func (c *c11Ctx) keys() {
	ru := c.r.Rule("C11.keys", "every field path the jq accessors use on a query AST is a walk through json names of gojq's AST structs starting at some AST struct, every \"TermType…\" literal is a TermType the decoder accepts, and every literal compared with an .op field is an operator string", 70)
	for _, sc := range c11KeyScopes {
		n := 0
		for _, d := range c.jq.Defs {
			if d.Parent != nil || d.File.Rel != sc.file {
				continue
			}
			if sc.prefix != "" && !strings.HasPrefix(d.Def.Name, sc.prefix) {
				continue
			}
			if sc.name != "" && d.Def.Name != sc.name {
				continue
			}
			n++
			if why, ok := sc.except[d.Key()]; ok {
				ru.Except("scope:"+d.Key(), c.pos(d), why)
				continue
			}
			c.keysDef(ru, d, sc.roots)
		}
		if n == 0 {
			ru.Undecided("anchor:"+sc.file+":"+sc.prefix+sc.name, sc.file, "no definition in scope found")
		}
	}
	// TermType literals anywhere in the files that speak the AST dialect
	for _, rel := range []string{c11QueryJQ, c11EvalJQ, c11JSONJQ, "pkg/interp/repl.jq", "pkg/interp/help.jq", "pkg/interp/init.jq"} {
		f := c.jq.File(rel)
		if f == nil {
			ru.Undecided("anchor:"+rel, rel, "bundled jq file not found")
			continue
		}
		seen := map[string]bool{}
		for _, fd := range f.Query.FuncDefs {
			fw.WalkJQ(fd, func(n any) bool {
				s, ok := n.(*gojq.String)
				if !ok || len(s.Queries) > 0 || !strings.HasPrefix(s.Str, "TermType") || seen[fd.Name+s.Str] {
					return true
				}
				seen[fd.Name+s.Str] = true
				_, valid := c.sc.TermTypes[s.Str]
				ru.Check(valid, fmt.Sprintf("termtype:%s:%s:%s", rel, fd.Name, s.Str), rel, "accepted by TermTypeFromString",
					fmt.Sprintf("%q in %s is not a TermType of the gojq fork: a constructed term fails to decode, a comparison never matches", s.Str, fd.Name))
				return true
			}, false)
		}
	}
}

// keysDef checks the chains and comparisons inside one definition (nested defs included).
func (c *c11Ctx) keysDef(ru *fw.Rule, d *fw.JQDef, roots []string) {
	isRoot := func(r string) bool {
		for _, x := range roots {
			if x == r {
				return true
			}
		}
		return false
	}
	seen := map[string]bool{}
	checkChain := func(ch *c11Chain) {
		if ch == nil || !isRoot(ch.Root) || len(ch.Names) == 0 {
			return
		}
		p := ch.Path()
		if seen[p] {
			return
		}
		seen[p] = true
		from, bad := c.walkAny(ch.Steps)
		key := "path:" + d.Key() + ":" + p
		if bad == "" {
			ru.Ok(key, c.pos(d), "valid from gojq."+strings.Join(from, "|"))
		} else {
			ru.Fail(key, c.pos(d), fmt.Sprintf("path %s used on a query AST in %s matches no walk through gojq's JSON field names (%s): it always yields null / creates a field the decoder ignores", ch.String(), d.Key(), bad))
		}
	}
	fw.WalkJQ(d.Def.Body, func(n any) bool {
		switch x := n.(type) {
		case *gojq.Term:
			// pattern `. as {$meta, $imports}` destructures an AST value: keys must be fields
			if k := len(x.SuffixList); k > 0 && x.SuffixList[k-1].Bind != nil {
				src := *x
				src.SuffixList = src.SuffixList[:k-1]
				if sch := c11TermChain(&src); sch != nil && isRoot(sch.Root) {
					for _, pt := range x.SuffixList[k-1].Bind.Patterns {
						for _, po := range pt.Object {
							name := strings.TrimPrefix(po.Key, "$")
							if name == "" {
								continue
							}
							checkChain(&c11Chain{Root: sch.Root, Steps: append(append([]string{}, sch.Steps...), "."+name), Names: append(append([]string{}, sch.Names...), name)})
						}
					}
				}
				// the source term itself
				checkChain(c11TermChain(&src))
				return true
			}
			// longest pure-path prefix of the term
			cp := *x
			for i, s := range x.SuffixList {
				if s.Index == nil && !s.Iter {
					cp.SuffixList = x.SuffixList[:i]
					break
				}
				if s.Index != nil {
					if _, _, ok := c11IndexStep(s.Index); !ok {
						cp.SuffixList = x.SuffixList[:i]
						break
					}
				}
			}
			checkChain(c11TermChain(&cp))
		case *gojq.Query:
			// comparisons  <chain ending in .op / .type> == "literal"
			if x.Left != nil && x.Right != nil && (x.Op == gojq.OpEq || x.Op == gojq.OpNe) {
				l, r := c11Unparen(x.Left), c11Unparen(x.Right)
				if _, ok := fw.JQConstString(l); ok {
					l, r = r, l
				}
				lit, ok := fw.JQConstString(r)
				ch := c11QueryChain(l)
				if ok && ch != nil && len(ch.Names) > 0 {
					last := ch.Names[len(ch.Names)-1]
					key := fmt.Sprintf("literal:%s:%s==%q", d.Key(), ch.Path(), lit)
					if seen[key] {
						return true
					}
					switch last {
					case "op":
						seen[key] = true
						_, valid := c.sc.Operators[lit]
						ru.Check(valid, key, c.pos(d), "operator string of the fork", fmt.Sprintf("%s compares .op with %q which is not an operator string of gojq: the branch never matches", d.Key(), lit))
					case "type":
						seen[key] = true
						_, valid := c.sc.TermTypes[lit]
						ru.Check(valid, key, c.pos(d), "TermType of the fork", fmt.Sprintf("%s compares .type with %q which is not a TermType", d.Key(), lit))
					}
				}
			}
		}
		return true
	}, false)
}

// walkAny tries the named steps from every AST struct; returns the start types that work or a reason.
func (c *c11Ctx) walkAny(steps []string) ([]string, string) {
	var okFrom []string
	firstBad := ""
	for _, start := range c.sc.Order {
		cur := c11Field{Kind: "struct", Elem: start}
		bad := ""
		for _, st := range steps {
			if strings.HasPrefix(st, ".") {
				if cur.Kind != "struct" || cur.Slice {
					bad = st + " applied to a non-object"
					break
				}
				nf, ok := c.sc.field(cur.Elem, st[1:])
				if !ok {
					bad = st[1:] + " is not a field of gojq." + cur.Elem
					break
				}
				cur = nf
			} else {
				if !cur.Slice {
					bad = st + " applied to a non-array"
					break
				}
				cur.Slice = false
			}
		}
		if bad == "" {
			okFrom = append(okFrom, start)
		} else if start == "Query" {
			firstBad = "from Query: " + bad
		}
	}
	if len(okFrom) > 0 {
		sort.Strings(okFrom)
		return okFrom, ""
	}
	return nil, firstBad
}

// ---------------------------------------------------------------------------
// C11.descend

type c11DescendSpec struct {
	name   string
	arity  int
	local  string // nested recursive helper ("" = the def recurses into itself)
	opCond string // condition under which .right is entered
	sites  []string
	note   string
}

const (
	c11SL   = ".term.suffix_list"
	c11Last = ".term.suffix_list[-1]"
	c11Body = ".term.suffix_list[-1].bind.body"
)

func c11DescendSpecs() []c11DescendSpec {
	pipe := `.op=="|"`
	anyop := `.op`
	getter := func(self, op string) []string {
		return []string{
			fmt.Sprintf("%s@%s[pipe]{T(%s) & T(%s)}", self, c11Body, c11SL, c11Body),
			fmt.Sprintf("%s@.right[pipe]{F(%s) & T(%s)}", self, c11SL, op),
		}
	}
	return []c11DescendSpec{
		{name: "_query_pipe_last", arity: 0, opCond: pipe, sites: getter("_query_pipe_last/0", pipe),
			note: "last stage of a pipeline: through the body of a trailing `as` binding and through the right operand of `|` only"},
		{name: "_query_transform_pipe_last", arity: 1, local: "_f", opCond: pipe, sites: []string{
			fmt.Sprintf("_f/0@%s[update]{T(%s) & T(%s)}", c11Body, c11SL, c11Body),
			fmt.Sprintf("f/0@%s[update]{T(%s) & F(%s)}", c11Last, c11SL, c11Body),
			fmt.Sprintf("_f/0@.right[update]{F(%s) & T(%s)}", c11SL, pipe),
			fmt.Sprintf("f/0@[]{F(%s) & F(%s)}", c11SL, pipe),
		}, note: "rewrites exactly the node _query_pipe_last returns, keeping everything around it"},
		{name: "_query_last", arity: 0, opCond: anyop, sites: getter("_query_last/0", anyop),
			note: "right-most term (completion): through bind bodies and the right operand of any operator"},
		{name: "_query_transform_last", arity: 1, local: "_f", opCond: anyop, sites: []string{
			fmt.Sprintf("_f/0@%s[update]{T(%s) & T(%s)}", c11Body, c11SL, c11Body),
			fmt.Sprintf("f/0@[]{T(%s) & F(%s)}", c11SL, c11Body),
			fmt.Sprintf("_f/0@.right[update]{F(%s) & T(%s)}", c11SL, anyop),
			fmt.Sprintf("f/0@[]{F(%s) & F(%s)}", c11SL, anyop),
		}, note: "rewrites the node _query_last is about (the whole query when it ends in a suffix)"},
	}
}

func (c *c11Ctx) descend() {
	ru := c.r.Rule("C11.descend", "_query_pipe_last/_query_transform_pipe_last (and _query_last/_query_transform_last) recurse at exactly these places: the body of the last suffix's binding and the right operand of the pipe (resp. any) operator; transformers recurse with their local closure through |= and apply f only at the leaf; getter and transformer use the same conditions", 17)
	if _, ok := c.sc.Operators["|"]; !ok || c.sc.Operators["|"] != "OpPipe" {
		ru.Undecided("anchor:OpPipe", "", `"|" is not the string of gojq.OpPipe`)
	}
	// the paths the specs talk about exist in the schema from Query
	for _, pth := range []string{c11Body, ".right", ".op"} {
		from, _ := c.walkAny(c11SplitSteps(pth))
		has := false
		for _, f := range from {
			has = has || f == "Query"
		}
		ru.Check(has, "schema:"+pth, "", "path exists from gojq.Query", "path "+pth+" does not exist in gojq's JSON schema any more")
	}
	for _, sp := range c11DescendSpecs() {
		d := c.defRaw(ru, c11QueryJQ, sp.name, sp.arity)
		if d == nil {
			continue
		}
		key := d.Key()
		body := d.Def.Body
		targets := map[string]bool{}
		self := key
		if sp.local != "" {
			ld := c.jq.Nested(d, sp.local, 0)
			// the local helper is whatever nested def the outer body calls
			outer := c11Call(&gojq.Query{Term: d.Def.Body.Term, Left: d.Def.Body.Left, Op: d.Def.Body.Op, Right: d.Def.Body.Right}, "", 0)
			if outer != nil {
				ld = c.jq.Nested(d, outer.Name, 0)
			}
			if ld == nil || ld.Parent != d || outer == nil {
				ru.Fail("entry:"+key, c.pos(d), key+" must consist of a local recursive helper and a call of it; the outer body is `"+fw.JQStr(&gojq.Query{Term: d.Def.Body.Term, Left: d.Def.Body.Left, Op: d.Def.Body.Op, Right: d.Def.Body.Right})+"`")
				continue
			}
			ru.Ok("entry:"+key, c.pos(d), "outer body calls local "+ld.Key())
			body = ld.Def.Body
			self = ld.Key()
			targets[self] = true
			// the parameter f (closure, arity 0)
			param := d.Def.Args[0]
			if strings.HasPrefix(param, "$") {
				ru.Fail("param:"+key, c.pos(d), "transformer parameter must be a closure (evaluated at the leaf), not a value parameter")
				continue
			}
			targets[param+"/0"] = true
			// normalise names for comparison: local helper -> _f, parameter -> f
			w := &c11SiteWalker{targets: targets}
			w.query(body, "", "", nil)
			var got []string
			for _, s := range w.sites {
				if s.Callee == self {
					s.Callee = "_f/0"
				} else {
					s.Callee = "f/0"
				}
				got = append(got, s.String())
			}
			sort.Strings(got)
			c.descendCompare(ru, sp, d, got)
			continue
		}
		targets[self] = true
		w := &c11SiteWalker{targets: targets}
		w.query(body, "", "", nil)
		c.descendCompare(ru, sp, d, c11SiteSet(w.sites))
	}
}

func (c *c11Ctx) descendCompare(ru *fw.Rule, sp c11DescendSpec, d *fw.JQDef, got []string) {
	want := append([]string{}, sp.sites...)
	sort.Strings(want)
	gm := map[string]bool{}
	for _, g := range got {
		gm[c11NormSite(g)] = true
	}
	wm := map[string]bool{}
	for _, w := range want {
		wm[c11NormSite(w)] = true
		ru.Check(gm[c11NormSite(w)], "site:"+d.Key()+":"+w, c.pos(d), sp.note,
			fmt.Sprintf("%s does not apply %s; it has {%s}. %s", d.Key(), w, strings.Join(got, " ; "), sp.note))
	}
	for _, g := range got {
		if !wm[c11NormSite(g)] {
			ru.Fail("extra:"+d.Key()+":"+g, c.pos(d), fmt.Sprintf("%s applies %s, which is not part of its descent {%s}. %s", d.Key(), g, strings.Join(want, " ; "), sp.note))
		}
	}
}

// c11NormSite brings the guard set of a site into a canonical form. A gojq.Query is either a term
// or a binary query (op/left/right), never both, so a passed test on one side makes a failed test
// on the other side redundant: T(.term…) drops F(.op…) and T(.op…) drops F(.term…). The order
// in which a definition asks the two questions then does not matter.
func c11NormSite(s string) string {
	i := strings.LastIndex(s, "{")
	if i < 0 || !strings.HasSuffix(s, "}") {
		return s
	}
	head, body := s[:i], s[i+1:len(s)-1]
	if body == "" {
		return s
	}
	gs := strings.Split(body, " & ")
	tTerm, tOp := false, false
	for _, g := range gs {
		tTerm = tTerm || strings.HasPrefix(g, "T(.term")
		tOp = tOp || strings.HasPrefix(g, "T(.op")
	}
	var out []string
	seen := map[string]bool{}
	for _, g := range gs {
		if (tTerm && strings.HasPrefix(g, "F(.op")) || (tOp && strings.HasPrefix(g, "F(.term")) || seen[g] {
			continue
		}
		seen[g] = true
		out = append(out, g)
	}
	sort.Strings(out)
	return head + "{" + strings.Join(out, " & ") + "}"
}

// ---------------------------------------------------------------------------
// C11.fromto

func (c *c11Ctx) fromto() {
	ru := c.r.Rule("C11.fromto", "_query_fromtostring parses first and prints last, applies the rewrite f exactly once in between on a query whose module/import directives were saved and removed, and restores each directive to its own field afterwards; _query_toquery is tojson | _query_fromstring", 8)
	if d := c.def(ru, c11QueryJQ, "_query_fromtostring", 1); d != nil {
		c.fromtoDef(ru, d)
	}
	if d := c.def(ru, c11QueryJQ, "_query_toquery", 0); d != nil {
		st := c11Stages(d.Def.Body)
		ok := len(st) == 2 && !st[0].isBind() && !st[1].isBind() && (c11Call(st[0].Q, "tojson", 0) != nil || c11Call(st[0].Q, "tostring", 0) != nil) && c11Call(st[1].Q, "_query_fromstring", 0) != nil
		ru.Check(ok, "toquery", c.pos(d), "tojson | _query_fromstring", "_query_toquery must be exactly tojson | _query_fromstring (the AST of the JSON text of the AST); it is `"+fw.JQStr(d.Def.Body)+"`")
	}
}

// c11DelNames: the top-level fields a del() argument names (`.a` or `.a, .b`); nil if it has another form.
func c11DelNames(q *gojq.Query) map[string]bool {
	q = c11Unparen(q)
	if q == nil {
		return nil
	}
	if c11Plain(q) && q.Left != nil && q.Op == gojq.OpComma {
		a, b := c11DelNames(q.Left), c11DelNames(q.Right)
		if a == nil || b == nil {
			return nil
		}
		for k := range b {
			a[k] = true
		}
		return a
	}
	ch := c11QueryChain(q)
	if ch == nil || ch.Root != "." || len(ch.Steps) != 1 || len(ch.Names) != 1 {
		return nil
	}
	return map[string]bool{ch.Names[0]: true}
}

func (c *c11Ctx) fromtoDef(ru *fw.Rule, d *fw.JQDef) {
	key := d.Key()
	param := d.Def.Args[0]
	st := c11Stages(d.Def.Body)
	pos := c.pos(d)
	if len(st) < 3 {
		ru.Fail("shape:"+key, pos, "not a pipeline")
		return
	}
	ru.Check(!st[0].isBind() && c11Call(st[0].Q, "_query_fromstring", 0) != nil, "first:"+key, pos, "_query_fromstring first", "the first stage must be _query_fromstring; it is `"+c11StageStr(st[0])+"`")
	ru.Check(!st[len(st)-1].isBind() && c11Call(st[len(st)-1].Q, "_query_tostring", 0) != nil, "last:"+key, pos, "_query_tostring last", "the last stage must be _query_tostring; it is `"+c11StageStr(st[len(st)-1])+"`")
	// the directive fields of gojq.Query (everything that the printer emits before the body and is not part of an expression)
	directives := []string{"meta", "imports"}
	for _, dn := range directives {
		if _, ok := c.sc.field("Query", dn); !ok {
			ru.Undecided("anchor:Query."+dn, pos, "gojq.Query has no JSON field "+dn)
			return
		}
	}
	fIdx := -1
	nF := 0
	for i, s := range st {
		if !s.isBind() && c11Call(s.Q, param, 0) != nil {
			fIdx = i
			nF++
		}
	}
	// f must not be used anywhere else either
	uses := 0
	for _, f := range fw.JQCalls(d.Def.Body) {
		if f.Name == param && len(f.Args) == 0 {
			uses++
		}
	}
	if !ru.Check(nF == 1 && uses == 1, "f-once:"+key, pos, "f is one stage of the pipeline", fmt.Sprintf("the rewrite closure must be applied exactly once as a pipeline stage (stages: %d, uses: %d)", nF, uses)) {
		return
	}
	saved := map[string]string{} // directive -> variable
	savedAt := map[string]int{}
	for i, s := range st {
		if !s.isBind() {
			continue
		}
		// .meta as $m
		if ch := c11QueryChain(s.BindSrc); ch != nil && ch.Root == "." && len(ch.Steps) == 1 && len(ch.Names) == 1 && len(s.Patterns) == 1 && s.Patterns[0].Name != "" {
			saved[ch.Names[0]] = s.Patterns[0].Name
			savedAt[ch.Names[0]] = i
			continue
		}
		if !c11IsIdentity(s.BindSrc) {
			continue
		}
		for _, p := range s.Patterns {
			for _, po := range p.Object {
				switch {
				case strings.HasPrefix(po.Key, "$") && po.Val == nil:
					saved[po.Key[1:]] = po.Key
					savedAt[po.Key[1:]] = i
				case po.Key != "" && po.Val != nil && po.Val.Name != "":
					saved[po.Key] = po.Val.Name
					savedAt[po.Key] = i
				}
			}
		}
	}
	for _, dn := range directives {
		// saved before removal, removed before f, restored after f from its own variable
		delAt, restoreAt, restoreFrom := -1, -1, ""
		for i, s := range st {
			if s.isBind() {
				continue
			}
			if f := c11Call(s.Q, "del", 1); f != nil && c11DelNames(f.Args[0])[dn] {
				if delAt < 0 {
					delAt = i
				}
			}
			q := c11Unparen(s.Q)
			if c11Plain(q) && q.Op == gojq.OpAssign && q.Left != nil && c11IsChain(q.Left, ".", "."+dn) {
				restoreAt = i
				restoreFrom, _ = c11Var(q.Right, "")
			}
		}
		v, isSaved := saved[dn]
		ok := isSaved && delAt >= 0 && savedAt[dn] < delAt && delAt < fIdx && savedAt[dn] >= 1
		ru.Check(ok, "strip:"+key+":"+dn, pos, "saved, then deleted before f",
			fmt.Sprintf("the %s directive must be saved from the parsed query and deleted before the rewrite runs (otherwise `module`/`import` end up inside the wrapper's parentheses and the printed text no longer parses, or the directive is lost)", dn))
		ok = isSaved && restoreAt > fIdx && restoreAt < len(st)-1 && restoreFrom == v
		ru.Check(ok, "restore:"+key+":"+dn, pos, "restored after f from "+v,
			fmt.Sprintf("after the rewrite .%s must be set from the variable that saved it (%s); found source %q", dn, v, restoreFrom))
	}
	// nothing else between parse and print
	for i, s := range st {
		if i == 0 || i == len(st)-1 || i == fIdx {
			continue
		}
		known := s.isBind() && c11IsIdentity(s.BindSrc)
		if s.isBind() {
			if ch := c11QueryChain(s.BindSrc); ch != nil && ch.Root == "." && len(ch.Steps) == 1 && len(ch.Names) == 1 && (ch.Names[0] == "meta" || ch.Names[0] == "imports") {
				known = true
			}
		}
		if !s.isBind() {
			if f := c11Call(s.Q, "del", 1); f != nil {
				if names := c11DelNames(f.Args[0]); names != nil {
					known = true
					for n := range names {
						known = known && (n == "meta" || n == "imports")
					}
				}
			}
			q := c11Unparen(s.Q)
			if c11Plain(q) && q.Op == gojq.OpAssign && q.Left != nil {
				if ch := c11QueryChain(q.Left); ch != nil && len(ch.Names) == 1 && (ch.Names[0] == "meta" || ch.Names[0] == "imports") {
					known = true
				}
			}
		}
		if !known {
			ru.Fail("stage:"+key+":"+c11StageStr(s), pos, "unexpected stage `"+c11StageStr(s)+"` between _query_fromstring and _query_tostring: the user's tree is altered outside the rewrite closure")
		}
	}
}

// ---------------------------------------------------------------------------
// C11.wrap

func (c *c11Ctx) wrap() {
	ru := c.r.Rule("C11.wrap", "_eval_query_rewrite: the last-stage probe sees the untouched query; a slurp call is cut out with the matching transformer before wrapping; the user query enters try only as (query) via an unconditional _query_query; empty queries become identity first; input_query is the LEFT operand and output_query the RIGHT operand of a top-level pipe; try wraps before the input pipe; the slurp descriptor carries orig/rewrite/args from the right sources; the expression text is handed from _cli_eval/_repl_eval to eval to _eval untouched except for the rewrite", 29)
	c.handoff(ru)
	d := c.def(ru, c11EvalJQ, "_eval_query_rewrite", 1)
	if d == nil {
		return
	}
	pos := c.pos(d)
	opts := d.Def.Args[0]
	if !strings.HasPrefix(opts, "$") {
		ru.Undecided("anchor:opts", pos, "options parameter is not a value parameter")
		return
	}
	outer := c11Call(d.Def.Body, "_query_fromtostring", 1)
	if !ru.Check(outer != nil, "entry", pos, "whole rewrite runs inside _query_fromtostring", "_eval_query_rewrite must be _query_fromtostring(<rewrite>): parse, rewrite the tree, print") {
		return
	}
	st := c11Stages(outer.Args[0])

	optChain := func(q *gojq.Query, name string) bool { return c11IsChain(q, opts, "."+name) }

	// --- binds before the first transforming stage
	firstNonBind := len(st)
	for i, s := range st {
		if !s.isBind() {
			firstNonBind = i
			break
		}
	}
	var origVar, lastVar, nameVar, argsVar, slurpVar string
	lastAt := -1
	for i, s := range st {
		if !s.isBind() || len(s.Patterns) != 1 {
			continue
		}
		pt := s.Patterns[0]
		switch {
		case c11IsIdentity(s.BindSrc) && pt.Name != "" && i < firstNonBind && origVar == "":
			origVar = pt.Name
		case c11Call(s.BindSrc, "_query_pipe_last", 0) != nil && pt.Name != "":
			lastVar = pt.Name
			lastAt = i
		}
	}
	ru.Check(lastVar != "" && lastAt < firstNonBind, "probe", pos, "_query_pipe_last as "+lastVar+" on the untouched query",
		"the last pipeline stage must be probed with _query_pipe_last on the query as parsed (before any rewrite stage)")
	ru.Check(origVar != "", "orig", pos, ". as "+origVar+" before any rewrite", "the original query must be saved (. as $orig) before any rewrite stage")

	// [$name, $args] destructuring
	for _, s := range st {
		if !s.isBind() || len(s.Patterns) != 1 || len(s.Patterns[0].Array) != 2 {
			continue
		}
		pa := s.Patterns[0].Array
		src := c11Stages(s.BindSrc)
		if len(src) != 2 || src[0].isBind() || src[1].isBind() {
			continue
		}
		if _, ok := c11Var(src[0].Q, lastVar); !ok || lastVar == "" {
			continue
		}
		q := c11Unparen(src[1].Q)
		if q == nil || q.Term == nil || q.Term.Type != gojq.TermTypeIf || q.Term.If.Else == nil || len(q.Term.If.Elif) > 0 {
			continue
		}
		iff := q.Term.If
		elems := func(a *gojq.Query) []*gojq.Query {
			a = c11Unparen(a)
			if a == nil || a.Term == nil || a.Term.Type != gojq.TermTypeArray || a.Term.Array == nil || len(a.Term.SuffixList) > 0 {
				return nil
			}
			x := a.Term.Array.Query
			if x == nil || x.Op != gojq.OpComma {
				return nil
			}
			return []*gojq.Query{x.Left, x.Right}
		}
		th, el := elems(iff.Then), elems(iff.Else)
		ok := c11Call(iff.Cond, "_query_is_func", 0) != nil && th != nil && el != nil &&
			c11Call(th[0], "_query_func_name", 0) != nil && c11Call(th[1], "_query_func_args", 0) != nil
		noname := ""
		if ok {
			var isStr bool
			noname, isStr = fw.JQConstString(c11Unparen(el[0]))
			ok = isStr
		}
		if ok {
			nameVar, argsVar = pa[0].Name, pa[1].Name
			ru.Ok("last-func", pos, fmt.Sprintf("[%s, %s] <- [_query_func_name, _query_func_args] of %s", nameVar, argsVar, lastVar))
			// the no-function placeholder name must not select a slurp
			for _, t := range c.slurpTables() {
				for _, kv := range t.Term.Object.KeyVals {
					if kv.Key == noname || (kv.KeyString != nil && kv.KeyString.Str == noname) {
						ru.Fail("last-func:placeholder", pos, fmt.Sprintf("the placeholder name %q used when the last stage is not a call is a key of a slurps table", noname))
					}
				}
			}
		}
	}
	if nameVar == "" || argsVar == "" {
		ru.Fail("last-func", pos, "the last stage's [name, args] must be taken as [_query_func_name, _query_func_args] when it _query_is_func and [\"\", []] otherwise, destructured in that order")
		return
	}
	for _, s := range st {
		if s.isBind() && len(s.Patterns) == 1 && s.Patterns[0].Name != "" && c11IsChain(s.BindSrc, opts, ".slurps["+nameVar+"]") {
			slurpVar = s.Patterns[0].Name
		}
	}
	if !ru.Check(slurpVar != "", "slurp-lookup", pos, opts+".slurps["+nameVar+"] as "+slurpVar, "the slurp function must be looked up as "+opts+".slurps[<name of the last call>]") {
		return
	}

	// --- transforming stages
	type stageKind struct {
		kind string
		at   int
	}
	var kinds []stageKind
	ifOf := func(q *gojq.Query) *gojq.If {
		q = c11Unparen(q)
		if c11Plain(q) && q.Left == nil && q.Term != nil && q.Term.Type == gojq.TermTypeIf && len(q.Term.SuffixList) == 0 {
			return q.Term.If
		}
		return nil
	}
	for i, s := range st {
		if s.isBind() {
			if i > firstNonBind {
				ru.Fail("stage:bind-after-rewrite:"+c11StageStr(s), pos, "a value is captured after rewriting started: `"+c11StageStr(s)+"`")
			}
			continue
		}
		iff := ifOf(s.Q)
		if iff == nil {
			ru.Fail("stage:unknown:"+c11StageStr(s), pos, "unrecognised rewrite stage `"+c11StageStr(s)+"` (every stage is a conditional wrapper)")
			continue
		}
		_, condSlurp := c11Var(iff.Cond, slurpVar)
		switch {
		case condSlurp && len(iff.Elif) == 0 && iff.Else == nil:
			kinds = append(kinds, stageKind{"cut", i})
			f := c11Call(iff.Then, "_query_transform_pipe_last", 1)
			ru.Check(f != nil && c11Call(f.Args[0], "_query_ident", 0) != nil, "cut", pos, "if "+slurpVar+" then _query_transform_pipe_last(_query_ident)",
				"when a slurp is found the call must be cut out with _query_transform_pipe_last(_query_ident) — the transformer that matches _query_pipe_last; found `"+fw.JQStr(iff.Then)+"`")
		case optChain(iff.Cond, "catch_query") && len(iff.Elif) == 0 && iff.Else == nil:
			kinds = append(kinds, stageKind{"try", i})
			c.wrapTry(ru, d, iff, opts)
		case optChain(iff.Cond, "input_query") && len(iff.Elif) == 0 && iff.Else == nil:
			kinds = append(kinds, stageKind{"input", i})
			f := c11Call(iff.Then, "_query_pipe", 2)
			ru.Check(f != nil && optChain(f.Args[0], "input_query") && c11IsIdentity(f.Args[1]), "input", pos, "_query_pipe("+opts+".input_query; .)",
				"the input query must be the left operand and the (wrapped) user query the right operand of _query_pipe; found `"+fw.JQStr(iff.Then)+"`")
		case condSlurp && len(iff.Elif) == 1 && iff.Else == nil && optChain(iff.Elif[0].Cond, "output_query"):
			kinds = append(kinds, stageKind{"output", i})
			f := c11Call(iff.Elif[0].Then, "_query_pipe", 2)
			ru.Check(f != nil && c11IsIdentity(f.Args[0]) && optChain(f.Args[1], "output_query"), "output", pos, "_query_pipe(.; "+opts+".output_query)",
				"the output query must be the right operand of _query_pipe with the query so far on the left; found `"+fw.JQStr(iff.Elif[0].Then)+"`")
			c.wrapSlurp(ru, d, iff.Then, slurpVar, nameVar, argsVar, origVar)
		default:
			ru.Fail("stage:unknown:"+c11StageStr(s), pos, "unrecognised rewrite stage `if "+fw.JQStr(iff.Cond)+" ...`")
		}
	}
	idx := map[string]int{}
	for _, k := range kinds {
		if _, dup := idx[k.kind]; dup {
			ru.Fail("stage:dup:"+k.kind, pos, "rewrite stage "+k.kind+" occurs twice")
		}
		idx[k.kind] = k.at
	}
	for _, k := range []string{"cut", "try", "input", "output"} {
		if _, ok := idx[k]; !ok {
			ru.Fail("stage:missing:"+k, pos, "rewrite stage "+k+" is missing")
			return
		}
	}
	ru.Check(idx["cut"] < idx["try"], "order:cut<try", pos, "slurp call removed before wrapping",
		"the slurp call must be cut out before the query is wrapped in try (afterwards the transformer sees a single try term and replaces the whole user program)")
	ru.Check(idx["try"] < idx["input"], "order:try<input", pos, "try wraps the user query only; the input generator stays outside",
		"try must wrap the user query before the input query is piped in front (otherwise one failing input aborts the remaining inputs)")
	ru.Check(idx["try"] < idx["output"], "order:try<output", pos, "output/slurp stage consumes the wrapped query",
		"the output (or slurp descriptor) stage must come after the try wrapper")
	ru.Check(idx["input"] < idx["output"], "order:input<output", pos, "slurp descriptor's rewrite includes the input pipe",
		"the slurp descriptor must capture the query after the input pipe was added (rewrite: input | try (…) …)")
}

// wrapTry checks  _query_try( . | <empty -> identity> | _query_query ; $opts.catch_query ).
func (c *c11Ctx) wrapTry(ru *fw.Rule, d *fw.JQDef, iff *gojq.If, opts string) {
	pos := c.pos(d)
	f := c11Call(iff.Then, "_query_try", 2)
	if !ru.Check(f != nil, "try", pos, "_query_try(body; catch)", "with a catch query the user query must be wrapped by _query_try/2; found `"+fw.JQStr(iff.Then)+"`") {
		return
	}
	ru.Check(c11IsChain(f.Args[1], opts, ".catch_query"), "try:catch", pos, "catch <- "+opts+".catch_query", "the catch operand must be "+opts+".catch_query; found `"+fw.JQStr(f.Args[1])+"`")
	st := c11Stages(f.Args[0])
	n := len(st)
	last := st[n-1]
	ru.Check(!last.isBind() && c11Call(last.Q, "_query_query", 0) != nil, "try:paren", pos, "body ends in an unconditional _query_query",
		"the user query must reach _query_try through an unconditional _query_query (parentheses): `try` binds a single postfix term, so `try try E catch H`, `try a | b catch H`, `try -x catch H` re-parse as a different program; the body pipeline ends in `"+c11StageStr(last)+"`")
	for i, s := range st[:n-1] {
		if s.isBind() {
			ru.Fail("try:body-stage:"+c11StageStr(s), pos, "unexpected binding in the try body pipeline")
			continue
		}
		if c11IsIdentity(s.Q) {
			continue
		}
		q := c11Unparen(s.Q)
		ok := false
		msg := "unexpected stage `" + c11StageStr(s) + "` between the user query and _query_query"
		if c11Plain(q) && q.Left == nil && q.Term != nil && q.Term.Type == gojq.TermTypeIf && len(q.Term.SuffixList) == 0 && q.Term.If.Else == nil && len(q.Term.If.Elif) == 0 {
			ii := q.Term.If
			// cond: (<.a or .b ...>) | not
			cs := c11Stages(ii.Cond)
			names := map[string]bool{}
			okc := len(cs) == 2 && !cs[0].isBind() && !cs[1].isBind() && c11Call(cs[1].Q, "not", 0) != nil
			if okc {
				var ors func(x *gojq.Query) bool
				ors = func(x *gojq.Query) bool {
					x = c11Unparen(x)
					if c11Plain(x) && x.Op == gojq.OpOr && x.Left != nil {
						return ors(x.Left) && ors(x.Right)
					}
					ch := c11QueryChain(x)
					if ch == nil || ch.Root != "." || len(ch.Steps) != 1 || len(ch.Names) != 1 {
						return false
					}
					names[ch.Names[0]] = true
					return true
				}
				okc = ors(cs[0].Q)
			}
			for nme := range names {
				if _, isField := c.sc.field("Query", nme); !isField {
					okc = false
				}
			}
			if !okc {
				msg = "the emptiness test must be (.term or .op) | not over fields of gojq.Query; found `" + fw.JQStr(ii.Cond) + "`"
			} else if !(names["term"] && (names["op"] || names["left"] || names["right"]) && !names["func_defs"] && !names["meta"] && !names["imports"]) {
				msg = "the emptiness test `" + fw.JQStr(ii.Cond) + "` must call a query empty only when it has neither a term nor an operator part: a binary query has no .term, adding an identity term to it makes the printer drop the user's program"
			} else {
				t := c11Unparen(ii.Then)
				okt := c11Plain(t) && t.Op == gojq.OpAdd && t.Left != nil && c11IsIdentity(t.Left) && c11Call(t.Right, "_query_ident", 0) != nil
				if okt {
					ok = true
				} else {
					msg = "an empty query must become identity by `. + _query_ident` (keeping function definitions); found `" + fw.JQStr(ii.Then) + "`"
				}
			}
		}
		ru.Check(ok, fmt.Sprintf("try:body-stage:%d", i), pos, "empty query -> identity", msg)
	}
}

// wrapSlurp checks  _query_func($slurp; [ {slurp, slurp_args, orig, rewrite} | _query_object ]).
func (c *c11Ctx) wrapSlurp(ru *fw.Rule, d *fw.JQDef, then *gojq.Query, slurpVar, nameVar, argsVar, origVar string) {
	pos := c.pos(d)
	f := c11Call(then, "_query_func", 2)
	okf := f != nil
	if okf {
		_, okf = c11Var(f.Args[0], slurpVar)
	}
	if !ru.Check(okf, "slurp:call", pos, "_query_func("+slurpVar+"; [descriptor])", "a slurp rewrite must produce a call of the looked-up slurp function: _query_func("+slurpVar+"; [...])") {
		return
	}
	arr := c11Unparen(f.Args[1])
	var inner *gojq.Query
	if arr != nil && arr.Term != nil && arr.Term.Type == gojq.TermTypeArray && arr.Term.Array != nil && len(arr.Term.SuffixList) == 0 {
		inner = arr.Term.Array.Query
	}
	st := c11Stages(inner)
	if !ru.Check(len(st) == 2 && !st[0].isBind() && !st[1].isBind() && c11Call(st[1].Q, "_query_object", 0) != nil && st[0].Q.Term != nil && st[0].Q.Term.Type == gojq.TermTypeObject,
		"slurp:descriptor", pos, "[{...} | _query_object]", "the slurp function must get exactly one argument: an object literal turned into a query by _query_object") {
		return
	}
	vals := map[string]*gojq.Query{}
	for _, kv := range st[0].Q.Term.Object.KeyVals {
		k := kv.Key
		if kv.KeyString != nil {
			k = kv.KeyString.Str
		}
		vals[k] = kv.Val
	}
	// orig <- $orig_query | _query_toquery
	{
		s := c11Stages(vals["orig"])
		ok := len(s) == 2 && !s[0].isBind() && !s[1].isBind() && c11Call(s[1].Q, "_query_toquery", 0) != nil
		if ok {
			_, ok = c11Var(s[0].Q, origVar)
		}
		ru.Check(ok, "slurp:orig", pos, "orig <- "+origVar+" | _query_toquery", "descriptor field orig must be the saved original query ("+origVar+" | _query_toquery); found `"+fw.JQStr(vals["orig"])+"`")
	}
	ru.Check(c11Call(vals["rewrite"], "_query_toquery", 0) != nil, "slurp:rewrite", pos, "rewrite <- _query_toquery of the rewritten query",
		"descriptor field rewrite must be the rewritten query itself (_query_toquery applied to `.`); found `"+fw.JQStr(vals["rewrite"])+"`")
	{
		fs := c11Call(vals["slurp"], "_query_string", 1)
		ok := fs != nil
		if ok {
			_, ok = c11Var(fs.Args[0], nameVar)
		}
		ru.Check(ok, "slurp:name", pos, "slurp <- _query_string("+nameVar+")", "descriptor field slurp must be _query_string("+nameVar+"); found `"+fw.JQStr(vals["slurp"])+"`")
	}
	{
		s := c11Stages(vals["slurp_args"])
		ok := len(s) == 2 && !s[0].isBind() && !s[1].isBind()
		if ok {
			_, ok = c11Var(s[0].Q, argsVar)
		}
		msg := "descriptor field slurp_args must start from " + argsVar
		if ok {
			q := c11Unparen(s[1].Q)
			ok = false
			msg = "slurp_args must be `if . then map(_query_toquery) | _query_commas | _query_array else null | _query_array end` of " + argsVar
			if q.Term != nil && q.Term.Type == gojq.TermTypeIf && q.Term.If.Else != nil && len(q.Term.If.Elif) == 0 && c11IsIdentity(q.Term.If.Cond) {
				th := c11Stages(q.Term.If.Then)
				el := c11Stages(q.Term.If.Else)
				okt := len(th) == 3 && c11Call(th[1].Q, "_query_commas", 0) != nil && c11Call(th[2].Q, "_query_array", 0) != nil
				if okt {
					m := c11Call(th[0].Q, "map", 1)
					okt = m != nil && c11Call(m.Args[0], "_query_toquery", 0) != nil
				}
				oke := len(el) == 2 && el[0].Q != nil && el[0].Q.Term != nil && el[0].Q.Term.Type == gojq.TermTypeNull && c11Call(el[1].Q, "_query_array", 0) != nil
				ok = okt && oke
			}
		}
		ru.Check(ok, "slurp:args", pos, "slurp_args <- "+argsVar+" | map(_query_toquery) | _query_commas | _query_array", msg+"; found `"+fw.JQStr(vals["slurp_args"])+"`")
	}
	// readers of the descriptor use only keys that are written
	written := map[string]bool{}
	for k := range vals {
		written[k] = true
	}
	readers := 0
	doneReader := map[string]bool{}
	for _, t := range c.slurpTables() {
		for _, kv := range t.Term.Object.KeyVals {
			name, ok := fw.JQConstString(kv.Val)
			if !ok {
				continue
			}
			for _, sd := range c.jq.TopDefs(name, 1) {
				p0 := sd.Def.Args[0]
				if !strings.HasPrefix(p0, "$") || doneReader[sd.Key()] {
					continue
				}
				doneReader[sd.Key()] = true
				seen := map[string]bool{}
				fw.WalkJQ(sd.Def.Body, func(n any) bool {
					t, ok := n.(*gojq.Term)
					if !ok {
						return true
					}
					cp := *t
					for i, s := range t.SuffixList {
						if s.Index == nil {
							cp.SuffixList = t.SuffixList[:i]
							break
						}
					}
					ch := c11TermChain(&cp)
					if ch == nil || ch.Root != p0 || len(ch.Names) == 0 || seen[ch.Names[0]] {
						return true
					}
					seen[ch.Names[0]] = true
					readers++
					ru.Check(written[ch.Names[0]], "slurp:reader:"+sd.Key()+":"+ch.Names[0], c.pos(sd), "descriptor key is written by _eval_query_rewrite",
						fmt.Sprintf("%s reads %s.%s but _eval_query_rewrite writes only {%s}", sd.Key(), p0, ch.Names[0], strings.Join(c11SortedSet(written), ", ")))
					return true
				}, false)
			}
		}
	}
	if readers == 0 {
		ru.Undecided("slurp:readers", pos, "no reader of the slurp descriptor found")
	}
}

// slurpTables returns the object literals given as `slurps:` anywhere in the bundled jq.
func (c *c11Ctx) slurpTables() []*gojq.Query {
	var out []*gojq.Query
	for _, d := range c.interpDefs() {
		fw.WalkJQ(d.Def, func(n any) bool {
			kv, ok := n.(*gojq.ObjectKeyVal)
			if ok && kv.Key == "slurps" && kv.Val != nil {
				v := c11Unparen(kv.Val)
				if v != nil && v.Term != nil && v.Term.Type == gojq.TermTypeObject && v.Term.Object != nil {
					out = append(out, v)
				}
			}
			return true
		}, false)
	}
	return out
}

// ---------------------------------------------------------------------------
// C11.closed

var c11WrapperKeys = map[string]bool{"input_query": true, "output_query": true, "catch_query": true}

// c11ClosedCtors: constructors allowed in wrapper queries; all build a single postfix term without
// bindings, definitions, labels or reduce/foreach, so they can neither capture nor shadow anything
// of the user's program, and they print correctly as operand of `|` and of `catch`.
var c11ClosedCtors = map[string]bool{"_query_null/0": true, "_query_ident/0": true, "_query_iter/0": true, "_query_array/0": true, "_query_func/1": true}

func (c *c11Ctx) closed() {
	ru := c.r.Rule("C11.closed", "every input_query/output_query/catch_query handed to eval is built only from {_query_func(\"const\"), _query_null, _query_ident, _query_iter, _query_array} (single terms, nothing that binds or defines), names an existing arity-0 function (a catch_query is always such a call: what the handler yields becomes a result of the program), and option keys written and read agree; slurps tables name existing arity-1 functions", 24)
	type site struct {
		key  string
		val  *gojq.Query
		file string
		def  string
	}
	var sites []site
	writtenKeys := map[string]bool{}
	for _, d := range c.interpDefs() {
		f, fd := d.File, d.Def
		{
			fw.WalkJQ(fd, func(n any) bool {
				switch x := n.(type) {
				case *gojq.ObjectKeyVal:
					k := x.Key
					if x.KeyString != nil && len(x.KeyString.Queries) == 0 {
						k = x.KeyString.Str
					}
					if c11WrapperKeys[k] || k == "slurps" {
						writtenKeys[k] = true
					}
					if c11WrapperKeys[k] {
						sites = append(sites, site{k, x.Val, f.Rel, fd.Name})
					}
				case *gojq.Query:
					if x.Left != nil && x.Right != nil && x.Op != gojq.OpPipe && x.Op != gojq.OpComma {
						if ch := c11QueryChain(x.Left); ch != nil && len(ch.Names) > 0 && c11WrapperKeys[ch.Names[len(ch.Names)-1]] {
							switch x.Op {
							case gojq.OpAssign:
								k := ch.Names[len(ch.Names)-1]
								writtenKeys[k] = true
								sites = append(sites, site{k, x.Right, f.Rel, fd.Name})
							case gojq.OpModify, gojq.OpUpdateAdd, gojq.OpUpdateSub, gojq.OpUpdateMul, gojq.OpUpdateDiv, gojq.OpUpdateMod, gojq.OpUpdateAlt:
								k := ch.Names[len(ch.Names)-1]
								sites = append(sites, site{k, nil, f.Rel, fd.Name})
							}
						}
					}
				}
				return true
			}, false)
		}
	}
	ord := map[string]int{}
	for _, s := range sites {
		base := s.file + ":" + s.def + ":" + s.key
		ord[base]++
		key := fmt.Sprintf("wrapper:%s#%d", base, ord[base])
		if s.val == nil {
			ru.Fail(key, s.file, s.key+" is modified in place or given by shorthand; its value cannot be seen to come from the closed constructor set")
			continue
		}
		var probs []string
		names := c.closedValue(s.val, false, &probs)
		if len(probs) > 0 {
			ru.Fail(key, s.file, fmt.Sprintf("%s in %s is `%s`: %s", s.key, s.def, fw.JQStr(s.val), strings.Join(probs, "; ")))
			continue
		}
		ru.Ok(key, s.file, fw.JQStr(s.val))
		if s.key == "catch_query" {
			// what the handler yields lands in the result stream of the program (try (P) catch H | output):
			// identity, null, [..] and .[] always yield the error (or parts of it) as a result
			den := c11DenoteAST(s.val, nil, nil, 0)
			bad := ""
			var leaves func(d *c11Den)
			leaves = func(d *c11Den) {
				if d == nil {
					return
				}
				if d.Cond != nil {
					leaves(d.Then)
					leaves(d.Else)
					return
				}
				if d.Kind != "call" {
					bad = d.String()
				}
			}
			leaves(den)
			ru.Check(bad == "", "catch-call:"+fmt.Sprintf("%s#%d", base, ord[base]), s.file, "the error handler is a function call",
				fmt.Sprintf("catch_query in %s denotes `%s`: whatever the handler yields becomes a result of the user's program, so it must be a call of a reporting function, not a value expression", s.def, bad))
		}
		dedup := map[string]bool{}
		for _, nm := range names {
			if dedup[nm] {
				continue
			}
			dedup[nm] = true
			ok := len(c.jq.TopDefs(nm, 0)) > 0 || c11Builtin0[nm]
			ru.Check(ok, fmt.Sprintf("wrapper-func:%s:%s", base, nm), s.file, "names a bundled arity-0 definition (or jq builtin)",
				fmt.Sprintf("%s calls %s/0 which is neither defined in the bundled jq nor a known builtin", s.key, nm))
		}
	}
	if len(sites) == 0 {
		ru.Undecided("wrapper", "", "no input_query/output_query/catch_query construction found")
	}
	// option keys: readers in _eval_query_rewrite vs writers
	if d := c.def(ru, c11EvalJQ, "_eval_query_rewrite", 1); d != nil {
		opts := d.Def.Args[0]
		read := map[string]bool{}
		fw.WalkJQ(d.Def.Body, func(n any) bool {
			t, ok := n.(*gojq.Term)
			if !ok || t.Type != gojq.TermTypeFunc || t.Func == nil || t.Func.Name != opts || len(t.SuffixList) == 0 {
				return true
			}
			if st, name, ok := c11IndexStep(t.SuffixList[0].Index); ok && name != "" {
				_ = st
				read[name] = true
			}
			return true
		}, false)
		for _, k := range c11SortedSet(read) {
			ru.Check(writtenKeys[k], "optkey:read:"+k, c.pos(d), "some caller sets it", fmt.Sprintf("_eval_query_rewrite reads %s.%s but no caller in pkg/interp sets that key: the wrapper is silently never applied", opts, k))
		}
		for _, k := range c11SortedSet(writtenKeys) {
			ru.Check(read[k], "optkey:written:"+k, c.pos(d), "read by _eval_query_rewrite", fmt.Sprintf("callers set option %s but _eval_query_rewrite never reads it", k))
		}
	}
	// slurps tables
	tabs := c.slurpTables()
	if len(tabs) == 0 {
		ru.Undecided("slurps", "", "no slurps table found")
	}
	for i, t := range tabs {
		for _, kv := range t.Term.Object.KeyVals {
			name, ok := fw.JQConstString(kv.Val)
			key := fmt.Sprintf("slurps#%d:%s", i+1, kv.Key)
			if !ok {
				ru.Fail(key, "", "slurp function name is not a string constant")
				continue
			}
			ru.Check(len(c.jq.TopDefs(name, 1)) > 0, key, "", name+"/1 is defined", "slurps table maps "+kv.Key+" to "+name+" but no "+name+"/1 is defined in the bundled jq")
		}
	}
}

var c11Builtin0 = map[string]bool{"inputs": true, "input": true, "empty": true}

// closedValue checks that q (a jq expression producing a query AST) is built from the closed
// constructor set and returns the function names given to _query_func.
func (c *c11Ctx) closedValue(q *gojq.Query, piped bool, probs *[]string) []string {
	q = c11Unparen(q)
	if q == nil {
		*probs = append(*probs, "no value")
		return nil
	}
	if len(q.FuncDefs) > 0 {
		*probs = append(*probs, "local definitions")
		return nil
	}
	if q.Left != nil {
		if q.Op != gojq.OpPipe {
			*probs = append(*probs, "operator "+q.Op.String()+" in a wrapper query expression")
			return nil
		}
		a := c.closedValue(q.Left, piped, probs)
		b := c.closedValue(q.Right, true, probs)
		return append(a, b...)
	}
	t := q.Term
	if t == nil || len(t.SuffixList) > 0 {
		*probs = append(*probs, "not a constructor call: `"+fw.JQStr(q)+"`")
		return nil
	}
	switch t.Type {
	case gojq.TermTypeIf:
		var out []string
		out = append(out, c.closedValue(t.If.Then, piped, probs)...)
		for _, e := range t.If.Elif {
			out = append(out, c.closedValue(e.Then, piped, probs)...)
		}
		if t.If.Else == nil {
			if !piped {
				*probs = append(*probs, "conditional without else yields the enclosing input, not a constructed query")
			}
		} else {
			out = append(out, c.closedValue(t.If.Else, piped, probs)...)
		}
		return out
	case gojq.TermTypeFunc:
		k := fw.JQFuncKey(t.Func)
		if !c11ClosedCtors[k] {
			*probs = append(*probs, "`"+fw.JQStr(q)+"` is outside the closed constructor set {_query_func(\"name\"), _query_null, _query_ident, _query_iter, _query_array}: a wrapper built otherwise may bind, define or parse arbitrary syntax around the user's program")
			return nil
		}
		takesInput := k == "_query_iter/0" || k == "_query_array/0"
		if takesInput && !piped {
			*probs = append(*probs, k+" wraps its input; here its input is not a constructed query")
		}
		if !takesInput && piped {
			*probs = append(*probs, k+" ignores the query piped into it")
		}
		if k == "_query_func/1" {
			s, ok := fw.JQConstString(c11Unparen(t.Func.Args[0]))
			if !ok {
				*probs = append(*probs, "function name is not a string constant")
				return nil
			}
			if !c11IsIdent(s) {
				*probs = append(*probs, fmt.Sprintf("function name %q is not a plain identifier (it is printed verbatim into the program)", s))
				return nil
			}
			return []string{s}
		}
		return nil
	}
	*probs = append(*probs, "not a constructor call: `"+fw.JQStr(q)+"`")
	return nil
}

func c11IsIdent(s string) bool {
	if s == "" {
		return false
	}
	for i, r := range s {
		if r == '_' || (r >= 'a' && r <= 'z') || (r >= 'A' && r <= 'Z') || (i > 0 && r >= '0' && r <= '9') {
			continue
		}
		return false
	}
	return true
}

// handoff: the expression text travels untouched from _cli_eval/_repl_eval to eval, and eval
// evaluates exactly the rewrite of it with its own options.
func (c *c11Ctx) handoff(ru *fw.Rule) {
	if d := c.def(ru, c11EvalJQ, "eval", 4); d != nil {
		var calls []*gojq.Func
		for _, f := range fw.JQCalls(d.Def.Body) {
			if f.Name == "_eval" {
				calls = append(calls, f)
			}
		}
		ok := len(calls) == 1 && len(calls[0].Args) == 2
		msg := fmt.Sprintf("eval/4 must call _eval/2 exactly once (found %d)", len(calls))
		if ok {
			prog := calls[0].Args[0]
			// the program may be bound to a variable first:  (PROG) as $p | _eval($p; ...)
			if vn, isVar := c11Var(prog, ""); isVar && vn != d.Def.Args[0] {
				srcs := c11BindSources(d.Def.Body, vn)
				if len(srcs) == 1 {
					prog = srcs[0]
				}
			}
			st := c11Stages(prog)
			ok = len(st) == 2 && !st[0].isBind() && !st[1].isBind()
			msg = "the program given to _eval must be `" + d.Def.Args[0] + " | _eval_query_rewrite(" + d.Def.Args[1] + ")`; it is `" + fw.JQStr(calls[0].Args[0]) + "`"
			if ok {
				_, isExpr := c11Var(st[0].Q, d.Def.Args[0])
				rw := c11Call(st[1].Q, "_eval_query_rewrite", 1)
				ok = isExpr && rw != nil
				if ok {
					_, ok = c11Var(rw.Args[0], d.Def.Args[1])
				}
			}
		}
		ru.Check(ok, "handoff:eval/4", c.pos(d), "_eval("+d.Def.Args[0]+" | _eval_query_rewrite("+d.Def.Args[1]+"); ...)", msg)
	}
	// the sub-evaluation of a slurp's rewritten query / arguments: printed from the descriptor's AST, no wrappers
	if d := c.def(ru, "pkg/interp/repl.jq", "_repl_slurp_eval", 1); d != nil {
		var calls []*gojq.Func
		for _, f := range fw.JQCalls(d.Def.Body) {
			if f.Name == "eval" && len(f.Args) == 4 {
				calls = append(calls, f)
			}
		}
		ok := len(calls) == 1
		if ok {
			prog := calls[0].Args[0]
			// the program may be bound to a variable first:  (PROG) as $p | _eval($p; ...)
			if vn, isVar := c11Var(prog, ""); isVar && vn != d.Def.Args[0] {
				var srcs []*gojq.Query
				fw.WalkJQ(d.Def.Body, func(n any) bool {
					t, isT := n.(*gojq.Term)
					if !isT {
						return true
					}
					for i, sfx := range t.SuffixList {
						if sfx.Bind == nil {
							continue
						}
						for _, pt := range sfx.Bind.Patterns {
							if pt.Name == vn {
								src := *t
								src.SuffixList = t.SuffixList[:i]
								srcs = append(srcs, &gojq.Query{Term: &src})
							}
						}
					}
					return true
				}, false)
				if len(srcs) == 1 {
					prog = srcs[0]
				}
			}
			st := c11Stages(prog)
			ok = len(st) == 2 && !st[0].isBind() && !st[1].isBind() && c11Call(st[1].Q, "_query_tostring", 0) != nil
			if ok {
				_, ok = c11Var(st[0].Q, d.Def.Args[0])
			}
			o := c11Unparen(calls[0].Args[1])
			ok = ok && o != nil && o.Term != nil && o.Term.Type == gojq.TermTypeObject && (o.Term.Object == nil || len(o.Term.Object.KeyVals) == 0) && len(o.Term.SuffixList) == 0
		}
		ru.Check(ok, "handoff:"+d.Key(), c.pos(d), "eval("+d.Def.Args[0]+" | _query_tostring; {}; ...)", d.Key()+" must evaluate exactly the printed form of the query it is given, with empty options (the query was already wrapped once)")
	}
	for _, w := range []struct {
		file, name string
		arity      int
	}{{"pkg/interp/init.jq", "_cli_eval", 2}, {"pkg/interp/repl.jq", "_repl_eval", 3}} {
		d := c.def(ru, w.file, w.name, w.arity)
		if d == nil {
			continue
		}
		var calls []*gojq.Func
		for _, f := range fw.JQCalls(d.Def.Body) {
			if f.Name == "eval" && len(f.Args) == 4 {
				calls = append(calls, f)
			}
		}
		ok := len(calls) == 1
		if ok {
			_, ok = c11Var(calls[0].Args[0], d.Def.Args[0])
		}
		ru.Check(ok, "handoff:"+d.Key(), c.pos(d), "eval("+d.Def.Args[0]+"; ...)", d.Key()+" must hand its expression parameter "+d.Def.Args[0]+" to eval/4 as is")
	}
}
