package rules

import (
	"fmt"
	"go/token"
	"go/types"
	"strconv"
	"strings"

	"github.com/wader/gojq"
	"golang.org/x/tools/go/ssa"

	"fqverif/fw"
)

// ---------------------------------------------------------------------------
// C07.stdio: what debug/0 and stderr/0 write, and where
//
// jq side: the side-effect branch of the pass-through definitions is evaluated symbolically (values are
// terms over the input `.`, string literals, the engine's tostring and the classified tojson); every call
// of a Go-registered silent writer is recorded as (file descriptor, value). Go side: that writer looks its
// descriptor argument up in a table whose entry "stderr" is OS.Stderr(), and writes exactly its input
// with fmt.Fprint, conditional on nothing but the lookup having succeeded and not being in completion mode.

type c07Write struct {
	fd, val string
	via     string // name/arity of the Go-registered writer
}

type c07Sio struct {
	jq     *fw.JQ
	silent *c07Silent
	writes []c07Write
	why    string
}

func c07symIsString(v string) bool {
	return strings.HasPrefix(v, "\"") || strings.HasPrefix(v, "tostring(") || strings.HasPrefix(v, "tojson(")
}

func c07symNonNull(v string) bool {
	return c07symIsString(v) || strings.HasPrefix(v, "[") || strings.HasPrefix(v, "{")
}

func (s *c07Sio) fail(why string) ([]string, bool) {
	if s.why == "" {
		s.why = why
	}
	return nil, false
}

// eval returns the outputs of q on input `in` (symbolic), recording writes in evaluation order.
func (s *c07Sio) eval(q *gojq.Query, in string, env map[string]string, depth int) ([]string, bool) {
	q = c07jqUnparen(q)
	if q == nil || depth > 16 {
		return s.fail("evaluation too deep")
	}
	if len(q.FuncDefs) != 0 {
		return s.fail("local definitions in `" + fw.JQStr(q) + "`")
	}
	if q.Left != nil {
		switch q.Op {
		case gojq.OpComma:
			l, ok := s.eval(q.Left, in, env, depth+1)
			if !ok {
				return nil, false
			}
			r, ok := s.eval(q.Right, in, env, depth+1)
			if !ok {
				return nil, false
			}
			return append(append([]string{}, l...), r...), true
		case gojq.OpPipe:
			l, ok := s.eval(q.Left, in, env, depth+1)
			if !ok {
				return nil, false
			}
			var out []string
			for _, v := range l {
				r, ok := s.eval(q.Right, v, env, depth+1)
				if !ok {
					return nil, false
				}
				out = append(out, r...)
			}
			return out, true
		}
		return s.fail("operator in `" + fw.JQStr(q) + "`")
	}
	t := q.Term
	if t == nil || len(t.SuffixList) != 0 {
		return s.fail("cannot evaluate `" + fw.JQStr(q) + "`")
	}
	switch t.Type {
	case gojq.TermTypeIdentity:
		return []string{in}, true
	case gojq.TermTypeNull:
		return []string{"null"}, true
	case gojq.TermTypeString:
		if t.Str != nil && len(t.Str.Queries) == 0 {
			return []string{strconv.Quote(t.Str.Str)}, true
		}
	case gojq.TermTypeArray:
		if t.Array == nil || t.Array.Query == nil {
			return []string{"[]"}, true
		}
		// construction must not write
		n := len(s.writes)
		el, ok := s.eval(t.Array.Query, in, env, depth+1)
		if !ok {
			return nil, false
		}
		if len(s.writes) != n {
			return s.fail("write inside an array construction")
		}
		return []string{"[" + strings.Join(el, ",") + "]"}, true
	case gojq.TermTypeIf:
		iff := t.If
		if len(iff.Elif) == 0 && c07IsDotEqNull(iff.Cond) {
			switch {
			case in == "null":
				return s.eval(iff.Then, in, env, depth+1)
			case c07symNonNull(in):
				if iff.Else == nil {
					return []string{in}, true
				}
				return s.eval(iff.Else, in, env, depth+1)
			}
		}
		return s.fail("condition of `" + fw.JQStr(q) + "` is not decided for input " + in)
	case gojq.TermTypeFunc:
		f := t.Func
		key := fw.JQFuncKey(f)
		if strings.HasPrefix(f.Name, "$") && len(f.Args) == 0 {
			if v, ok := env[f.Name]; ok {
				return []string{v}, true
			}
			return s.fail("unbound " + f.Name)
		}
		ds := s.jq.TopDefs(f.Name, len(f.Args))
		switch {
		case len(ds) == 0 && key == "empty/0":
			return nil, true
		case len(ds) == 0 && key == "tostring/0":
			if c07symIsString(in) {
				return []string{in}, true // tostring of a string is the string
			}
			return []string{"tostring(" + in + ")"}, true
		case key == "tojson/0" && len(ds) == 1 && c07Shadow[key] == clsJSON:
			return []string{"tojson(" + in + ")"}, true
		case len(ds) == 1:
			d := ds[0].Def
			env2 := map[string]string{}
			for i, a := range d.Args {
				if !strings.HasPrefix(a, "$") {
					return s.fail(key + " takes a closure")
				}
				n := len(s.writes)
				vs, ok := s.eval(f.Args[i], in, env, depth+1)
				if !ok {
					return nil, false
				}
				if len(vs) != 1 || len(s.writes) != n {
					return s.fail("argument of " + key + " is not a single pure value")
				}
				env2[a] = vs[0]
			}
			return s.eval(d.Body, in, env2, depth+1)
		case len(ds) == 0:
			if g, ok := s.silent.goReg[key]; ok && g.iter && s.silent.goIterSilent(g.fn) && len(f.Args) == 1 {
				n := len(s.writes)
				vs, ok := s.eval(f.Args[0], in, env, depth+1)
				if !ok {
					return nil, false
				}
				if len(vs) != 1 || len(s.writes) != n {
					return s.fail("argument of " + key + " is not a single pure value")
				}
				s.writes = append(s.writes, c07Write{fd: vs[0], val: in, via: key})
				return nil, true
			}
		}
		return s.fail("call of " + key + " cannot be evaluated")
	}
	return s.fail("cannot evaluate `" + fw.JQStr(q) + "`")
}

func c07WritesStr(ws []c07Write) string {
	var p []string
	for _, w := range ws {
		p = append(p, w.fd+" <- "+w.val)
	}
	if len(p) == 0 {
		return "nothing"
	}
	return strings.Join(p, " ; ")
}

func c07Stdio(r *fw.Run, p *fw.Program, jq *fw.JQ, goReg map[string]c07Reg) {
	ru := r.Rule("C07.stdio", "the side effect of stderr/0 is exactly one write of tostring(.) to the descriptor \"stderr\", that of debug/0 exactly tojson([\"DEBUG:\", .]) then \"\\n\" to \"stderr\" (symbolic evaluation of the bundled definitions); the Go writer behind them resolves its descriptor argument through a table whose entries name the OS stream of the same name, writes exactly its input with fmt.Fprint to the resolved stream, and does so unless the lookup failed or the interpreter is completing", 8)
	sil := &c07Silent{p: p, jq: jq, goReg: goReg}
	want := map[string][]c07Write{
		"stderr/0": {{fd: `"stderr"`, val: "tostring(.)"}},
		"debug/0":  {{fd: `"stderr"`, val: `tojson(["DEBUG:",.])`}, {fd: `"stderr"`, val: `"\n"`}},
	}
	writers := map[string]bool{}
	for _, k := range []string{"debug/0", "stderr/0"} {
		name, ar := c07SplitKey(k)
		d := jq.Def("", name, ar)
		if d == nil {
			ru.Undecided(k+":writes", "", "definition not found")
			continue
		}
		b := c07jqUnparen(d.Def.Body)
		if b == nil || b.Op != gojq.OpComma || b.Left == nil {
			ru.Fail(k+":writes", c07jqPos(d), "body is not `<side effect>, .`")
			continue
		}
		s := &c07Sio{jq: jq, silent: sil}
		outs, ok := s.eval(b.Left, ".", map[string]string{}, 0)
		if !ok {
			ru.Fail(k+":writes", c07jqPos(d), "what the side effect `"+fw.JQStr(b.Left)+"` writes cannot be determined: "+s.why)
			continue
		}
		same := len(s.writes) == len(want[k]) && len(outs) == 0
		for i := 0; same && i < len(s.writes); i++ {
			same = s.writes[i].fd == want[k][i].fd && s.writes[i].val == want[k][i].val
		}
		for _, w := range s.writes {
			writers[w.via] = true
		}
		ru.Check(same, k+":writes", c07jqPos(d), c07WritesStr(want[k]), "writes ["+c07WritesStr(s.writes)+"] and yields "+fmt.Sprint(len(outs))+" value(s); the jq command line contract is ["+c07WritesStr(want[k])+"] and no value")
	}
	if len(writers) == 0 {
		ru.Undecided("writer", "", "no Go-registered writer reached from debug/0 or stderr/0")
		return
	}
	for _, wk := range fw.SortedKeys(writers) {
		c07StdioWriter(ru, p, wk, goReg[wk].fn)
	}
}

// c07Frame: a function activation with its parameters bound to caller values.
type c07Frame struct {
	fn     *ssa.Function
	args   map[*ssa.Parameter]ssa.Value
	parent *c07Frame
	call   ssa.CallInstruction // call in parent that created this frame
}

// up resolves v to a value of the outermost frame where possible (parameters are replaced by arguments).
func (f *c07Frame) up(v ssa.Value) ssa.Value {
	for fr := f; fr != nil; fr = fr.parent {
		pa, ok := v.(*ssa.Parameter)
		if !ok {
			break
		}
		a, ok := fr.args[pa]
		if !ok {
			break
		}
		v = a
	}
	return v
}

func c07StdioWriter(ru *fw.Rule, p *fw.Program, wk string, fn *ssa.Function) {
	key := "go:" + wk
	if fn == nil || fn.Blocks == nil || len(fn.Params) < 3 {
		ru.Undecided(key, "", "Go function of the writer not resolved")
		return
	}
	pos := p.Rel(fn.Pos())
	input, fdArg := fn.Params[1], fn.Params[2]
	// the write site, through same-package helpers
	type site struct {
		fr   *c07Frame
		call ssa.CallInstruction
	}
	var sites []site
	var other []string
	var visit func(fr *c07Frame, d int)
	visit = func(fr *c07Frame, d int) {
		for _, c := range fw.CallsIn(fr.fn) {
			cal := c.Common().StaticCallee()
			name := fw.CalleeName(c)
			switch {
			case strings.HasPrefix(name, "fmt.Fprint") || name == "io.WriteString":
				sites = append(sites, site{fr, c})
			case c.Common().IsInvoke() && (c.Common().Method.Name() == "Write" || c.Common().Method.Name() == "WriteString"):
				other = append(other, c.Common().Method.Name())
			case cal != nil && cal.Pkg == fn.Pkg && cal.Blocks != nil && d < 2:
				args := map[*ssa.Parameter]ssa.Value{}
				for i, pa := range cal.Params {
					if i < len(c.Common().Args) {
						args[pa] = fr.up(c.Common().Args[i])
					}
				}
				visit(&c07Frame{fn: cal, args: args, parent: fr, call: c}, d+1)
			}
		}
	}
	visit(&c07Frame{fn: fn}, 0)
	if len(sites) != 1 || len(other) != 0 {
		ru.Fail(key+":value", pos, fmt.Sprintf("the writer has %d fmt.Fprint*/io.WriteString sites and %d direct Write calls; expected exactly one fmt.Fprint(stream, input)", len(sites), len(other)))
		return
	}
	st := sites[0]
	cc := st.call.Common()
	// (1) value
	okVal := fw.CalleeName(st.call) == "fmt.Fprint" && len(cc.Args) == 2
	if okVal {
		vals := c07VariadicElems(cc.Args[1])
		okVal = len(vals) == 1
		if okVal {
			v, _ := stripIface(vals[0])
			okVal = st.fr.up(v) == ssa.Value(input) || st.fr.up(vals[0]) == ssa.Value(input)
		}
	}
	ru.Check(okVal, key+":value", p.Rel(st.call.Pos()), "fmt.Fprint(stream, input)", "the writer does not write exactly its jq input with fmt.Fprint (calls "+fw.CalleeName(st.call)+"): a newline, another value or a formatted value is written to the stream")
	// (2) stream: type assertion of the first result of lookup(fdName)
	var lookup *ssa.Call
	var assert *ssa.TypeAssert
	w := st.fr.up(cc.Args[0])
	if ex, ok := w.(*ssa.Extract); ok && ex.Index == 0 {
		assert, _ = ex.Tuple.(*ssa.TypeAssert)
	} else if ta, ok := w.(*ssa.TypeAssert); ok {
		assert = ta
	}
	if assert != nil {
		x := assert.X
		if ex, ok := x.(*ssa.Extract); ok && ex.Index == 0 {
			x = ex.Tuple
		}
		if c, ok := x.(*ssa.Call); ok && c.Common().StaticCallee() != nil && c.Common().StaticCallee().Pkg == fn.Pkg {
			for _, a := range c.Common().Args {
				if a == ssa.Value(fdArg) {
					lookup = c
				}
			}
		}
	}
	if lookup == nil {
		ru.Fail(key+":stream", p.Rel(st.call.Pos()), "the stream written to is not the result of looking the descriptor-name argument up (lookup(fdName) asserted to io.Writer)")
		return
	}
	ru.Ok(key+":stream", p.Rel(st.call.Pos()), "stream = "+lookup.Common().StaticCallee().Name()+"(fdName).(io.Writer)")
	// (3) guards of the write: nothing but lookup succeeded / is a writer / not completing
	bad := ""
	for fr, at := st.fr, st.call; fr != nil; fr, at = fr.parent, fr.call {
		for _, g := range fw.Guards(at.Block()) {
			g = g.Normalize()
			if why := c07StdioGuardOK(g, fr, lookup, assert); why != "" {
				bad = why
			}
		}
	}
	ru.Check(bad == "", key+":guards", p.Rel(st.call.Pos()), "written whenever the lookup succeeded and the interpreter is not completing", "the write is conditional: "+bad)
	// (4) lookup table
	c07StdioLookup(ru, p, lookup.Common().StaticCallee())
}

func c07VariadicElems(v ssa.Value) []ssa.Value {
	sl, ok := v.(*ssa.Slice)
	if !ok {
		return nil
	}
	al, ok := sl.X.(*ssa.Alloc)
	if !ok || al.Referrers() == nil {
		return nil
	}
	var out []ssa.Value
	for _, r := range *al.Referrers() {
		ia, ok := r.(*ssa.IndexAddr)
		if !ok || ia.Referrers() == nil {
			continue
		}
		for _, r2 := range *ia.Referrers() {
			if st, ok := r2.(*ssa.Store); ok {
				out = append(out, st.Val)
			}
		}
	}
	if at, ok := al.Type().Underlying().(*types.Pointer).Elem().Underlying().(*types.Array); !ok || int(at.Len()) != len(out) {
		return nil
	}
	return out
}

// c07StdioGuardOK returns "" when guard g is one of the admissible conditions of the write.
func c07StdioGuardOK(g fw.Guard, fr *c07Frame, lookup *ssa.Call, assert *ssa.TypeAssert) string {
	switch x := g.Cond.(type) {
	case *ssa.BinOp:
		if x.Op == token.NEQ || x.Op == token.EQL {
			var other ssa.Value
			if isNilConst(x.Y) {
				other = x.X
			} else if isNilConst(x.X) {
				other = x.Y
			}
			if other != nil {
				other = fr.up(other)
				if ex, ok := other.(*ssa.Extract); ok && ex.Tuple == ssa.Value(lookup) && ex.Index == 1 {
					if (x.Op == token.EQL) == g.True {
						return ""
					}
					return "it happens only when the descriptor lookup failed"
				}
			}
		}
	case *ssa.Extract:
		if x.Tuple == ssa.Value(assert) && x.Index == 1 {
			if g.True {
				return ""
			}
			return "it happens only when the stream is not a writer"
		}
	case *ssa.UnOp:
		if _, f := c07FieldLoad(x); f == "IsCompleting" {
			if !g.True {
				return ""
			}
			return "it happens only in completion mode (IsCompleting), never in a normal evaluation"
		}
	case *ssa.Field:
		if _, f := c07FieldLoad(x); f == "IsCompleting" {
			if !g.True {
				return ""
			}
			return "it happens only in completion mode (IsCompleting), never in a normal evaluation"
		}
	}
	return "guarded by a condition that is neither lookup-succeeded, is-a-writer nor not-completing"
}

// c07StdioLookup: every constant descriptor name of the table maps to the OS stream accessor of that name.
func c07StdioLookup(ru *fw.Rule, p *fw.Program, f *ssa.Function) {
	if f == nil || f.Blocks == nil {
		ru.Undecided("fd", "", "descriptor lookup function has no body")
		return
	}
	var name *ssa.Parameter
	for _, pa := range f.Params {
		if b, ok := pa.Type().Underlying().(*types.Basic); ok && b.Kind() == types.String {
			name = pa
		}
	}
	if name == nil {
		ru.Undecided("fd", p.Rel(f.Pos()), "descriptor lookup has no string parameter")
		return
	}
	n := 0
	fw.EachInstr(f, func(ins ssa.Instruction) {
		ret, ok := ins.(*ssa.Return)
		if !ok || len(ret.Results) == 0 {
			return
		}
		v, _ := stripIface(ret.Results[0])
		call, ok := v.(*ssa.Call)
		if !ok || !call.Common().IsInvoke() {
			return
		}
		var consts []string
		for _, g := range fw.Guards(ret.Block()) {
			g = g.Normalize()
			bo, ok := g.Cond.(*ssa.BinOp)
			if !ok || bo.Op != token.EQL || !g.True {
				continue
			}
			if bo.X == ssa.Value(name) {
				if s, ok := constString(bo.Y); ok {
					consts = append(consts, s)
				}
			} else if bo.Y == ssa.Value(name) {
				if s, ok := constString(bo.X); ok {
					consts = append(consts, s)
				}
			}
		}
		m := call.Common().Method.Name()
		if len(consts) != 1 {
			ru.Undecided("fd:"+m, p.Rel(ret.Pos()), "stream accessor "+m+"() is returned under no single descriptor-name constant")
			return
		}
		n++
		ru.Check(strings.EqualFold(m, consts[0]), "fd:"+consts[0], p.Rel(ret.Pos()), "\""+consts[0]+"\" -> OS."+m+"()", "descriptor \""+consts[0]+"\" resolves to OS."+m+"(): debug/stderr output goes to the wrong stream")
	})
	if n < 3 {
		ru.Undecided("fd", p.Rel(f.Pos()), fmt.Sprintf("only %d descriptor names resolved in the lookup table", n))
	}
}
