package rules

import (
	"fmt"
	"go/types"
	"sort"
	"strings"

	"golang.org/x/tools/go/ssa"

	"fqverif/fw"
)

// RFC 8949 section 3: major types, and 3.3 for major type 7.
var c16CborClass = map[int64]string{0: "scalar", 1: "scalar", 2: "bytes", 3: "scalar", 4: "array", 5: "map", 6: "scalar", 7: "scalar"}

const (
	c16CborIndef = 31
	c16CborBreak = 0xff
)

func (x *c16) cbor() *c16Format {
	f := &c16Format{Name: "cbor", Pkg: "format/cbor", Syms: map[string]map[string]bool{"major_type": {}}}
	rt := x.r.Rule("C16.cbor.table", "cbor: the major-type table has exactly the keys 0..7 of the 3-bit major type, the initial byte is read as U3+U5, the table maps and dispatches the same field, the handler receives (shortCount, count) in that order", 12)
	rc := x.r.Rule("C16.cbor.count", "cbor: additional information 24/25/26/27 reads an 8/16/32/64-bit count (only when major type != 7), 28..30 are fatal, smaller values are the count itself", 9)
	rr := x.r.Rule("C16.cbor.row", "cbor: each major type's handler builds the value RFC 8949 says (uint = count, nint = -1-count, bytes/text of count bytes, count elements / key-value pairs through the dispatcher, tag + nested value, false/true/null and float16/32/64 by additional information)", 14)
	ri := x.r.Rule("C16.cbor.indef", "cbor: indefinite-length items end only at the break byte (the element count never bounds the loop when shortCount is 31) and the break byte is consumed before the handler returns; byte/text strings take the chunked form exactly when shortCount (not count) is 31", 12)
	rk := x.r.Rule("C16.cbor.chunks", "cbor: the chunks of an indefinite-length byte/text string are what the definite-length handler returns: the dispatcher returns the handler's result, the definite path returns the payload it read, every chunk of the right type is appended to the buffer the value field is built from", 5)

	var mm *ssa.MakeMap
	n := 0
	for _, fn := range x.p.FqFunctions() {
		if pkgRel(fn) != f.Pkg {
			continue
		}
		fw.EachInstr(fn, func(ins ssa.Instruction) {
			m, ok := ins.(*ssa.MakeMap)
			if !ok {
				return
			}
			if mt, ok := m.Type().Underlying().(*types.Map); ok && c16IsEntryStruct(mt.Elem()) {
				mm = m
				n++
			}
		})
	}
	if n != 1 {
		rt.Undecided("anchor", "", fmt.Sprintf("%d major-type tables (map literal of {scalar.Uint, func}) found in format/cbor, expected 1", n))
		return f
	}
	tableFn := mm.Parent()
	pos := x.p.Rel(tableFn.Pos())
	f.PkgFields = x.pkgFields(f.Pkg)
	rows, why := c16MapRows(mm)
	if why != "" {
		rt.Undecided("table", pos, why)
		return f
	}
	byKey := map[int64]c16Row{}
	for _, row := range rows {
		k, ok := c16KeyInt(row.Key)
		if !ok {
			rt.Undecided("table", pos, "non-integer key")
			continue
		}
		if _, dup := byKey[k]; dup {
			rt.Fail(fmt.Sprintf("key:%d", k), pos, "duplicate key")
		}
		byKey[k] = row
		if k < 0 || k > 7 {
			rt.Fail(fmt.Sprintf("key:%d", k), pos, "key outside the 3-bit major type")
		}
	}
	for k := int64(0); k <= 7; k++ {
		_, ok := byKey[k]
		rt.Check(ok, fmt.Sprintf("key:%d", k), pos, "present", "major type missing from the table: decoding it panics \"unreachable\"")
	}
	// initial byte
	e := newC16Eval()
	ops := x.opsOfFn(tableFn, e)
	rd := c16Reads(ops)
	if len(rd) < 2 {
		rt.Undecided("initial-byte", pos, "expected the major type and short count reads")
		return f
	}
	typ, sc := rd[0], rd[1]
	isU := func(o c16Op, w int64) bool { c, ok := o.Bits.isConst(); return o.Kind == "U" && ok && c == w }
	rt.Check(isU(typ, 3) && typ.Field == "major_type", "initial-byte:major", pos, "U3 major_type", fmt.Sprintf("major type is read as %s%s named %q", typ.Kind, typ.Bits, typ.Field))
	rt.Check(isU(sc, 5), "initial-byte:short", pos, "U5 additional information", fmt.Sprintf("additional information is read as %s%s", sc.Kind, sc.Bits))
	mapped := false
	for _, m := range c16Mappers(typ.Call) {
		if m == ssa.Value(mm) {
			mapped = true
		}
	}
	rt.Check(mapped, "dispatch:mapper", pos, "major_type is mapped by the table", "the major_type Sym is not produced by the dispatch table")
	// lookup + dynamic call
	var dyn *ssa.Call
	lookupOK := false
	fw.EachInstr(tableFn, func(ins ssa.Instruction) {
		switch v := ins.(type) {
		case *ssa.Lookup:
			if v.X == ssa.Value(mm) && c16Origin(v.Index) == ssa.Value(typ.Call) {
				lookupOK = true
			}
		case *ssa.Call:
			if v.Common().StaticCallee() == nil && !v.Common().IsInvoke() && len(v.Common().Args) == 3 {
				if _, isB := v.Common().Value.(*ssa.Builtin); !isB {
					dyn = v
				}
			}
		}
	})
	rt.Check(lookupOK, "dispatch:lookup", pos, "table indexed by the major type read", "the table is not indexed by the major_type value")
	if dyn == nil {
		rt.Undecided("dispatch:call", pos, "handler invocation not found")
		return f
	}
	rt.Check(c16Origin(dyn.Common().Args[1]) == ssa.Value(sc.Call), "dispatch:arg-short", x.p.Rel(dyn.Pos()), "second argument is the short count", "handler's shortCount argument is not the additional-information read")
	x.cborCount(rc, tableFn, typ, sc, rd[2:], dyn)
	x.cborDispatchReturn(rk, tableFn, dyn)
	x.bigEndianOnly(rt, f.Pkg)

	// rows
	var keys []int64
	for k := range byKey {
		keys = append(keys, k)
	}
	sort.Slice(keys, func(i, j int) bool { return keys[i] < keys[j] })
	for _, k := range keys {
		row := byKey[k]
		sym, ok := c16Sym(row)
		key := fmt.Sprintf("major:%d", k)
		rpos := x.p.Rel(row.Pos)
		if !ok {
			rr.Undecided(key, rpos, "Sym not constant")
			continue
		}
		f.Syms["major_type"][sym] = true
		he := newC16Eval()
		h, why := c16ResolveHandler(row.Fields["d"], he)
		if h == nil || len(h.Params) != 3 {
			rr.Undecided(key, rpos, "handler not resolvable: "+why)
			continue
		}
		he.bind[h.Params[1]] = linA("$sc")
		he.bind[h.Params[2]] = linA("$count")
		msg := x.cborRow(k, h, he, tableFn)
		rr.Check(msg == "", key, rpos, sym+" agrees with RFC 8949", fmt.Sprintf("major type %d (%s): %s", k, sym, msg))
		if k == 7 {
			x.cborSimple(rr, h, he)
		}
		if k >= 2 && k <= 5 {
			x.cborIndef(ri, k, h)
		}
		if k == 2 || k == 3 {
			x.cborFormSelect(ri, k, h)
			x.cborChunks(rk, k, h, tableFn)
		}
		hops := x.opsOfFn(h, newC16EvalFrom(he))
		f.Rows = append(f.Rows, c16GoRow{Key: key, Attrs: map[string]string{"major_type": sym}, Class: c16CborClass[k], Produced: c16Fields(hops), Pos: rpos})
	}
	return f
}

func (x *c16) cborCount(rc *fw.Rule, tableFn *ssa.Function, typ, sc c16Op, extra []c16Op, dyn *ssa.Call) {
	fl := c16Facts(tableFn, nil)
	pos := x.p.Rel(tableFn.Pos())
	want := map[int64]int64{24: 8, 25: 16, 26: 32, 27: 64}
	seen := map[int64]*ssa.Call{}
	for _, o := range extra {
		w, isC := o.Bits.isConst()
		key := fmt.Sprintf("read:%s%d", o.Kind, w)
		if o.Kind != "U" || !isC {
			rc.Fail(key, x.p.Rel(o.Call.Pos()), "count read is not an unsigned fixed-width read")
			continue
		}
		var k int64 = -1
		for kk, ww := range want {
			if ww == w {
				k = kk
			}
		}
		if k < 0 {
			rc.Fail(key, x.p.Rel(o.Call.Pos()), fmt.Sprintf("count of %d bits: the format only has 8/16/32/64", w))
			continue
		}
		okArm, okTyp := true, true
		fss := fl.At(o.Call.Block())
		for _, fs := range fss {
			if !fs.holdsEq(sc.Call, k) {
				okArm = false
			}
			if !fs.knowsNe(typ.Call, 7) {
				okTyp = false
			}
		}
		rc.Check(len(fss) > 0 && okArm, fmt.Sprintf("count:%d", k), x.p.Rel(o.Call.Pos()), fmt.Sprintf("additional information %d reads U%d", k, w), fmt.Sprintf("the U%d count read is not selected by additional information %d", w, k))
		rc.Check(okTyp, fmt.Sprintf("count:%d:not-float", k), x.p.Rel(o.Call.Pos()), "only when major type != 7", "count bytes are read for major type 7 too: float16/32/64 payloads would be consumed twice")
		seen[k] = o.Call
	}
	for k := range want {
		if seen[k] == nil {
			rc.Fail(fmt.Sprintf("count:%d", k), pos, fmt.Sprintf("no count read for additional information %d", k))
		}
	}
	// 28..30 fatal
	arm := fl.armBlocks(sc.Call, map[string]bool{"28": true, "29": true, "30": true})
	cs := c16CaseConsts(tableFn, sc.Call)
	fatal := len(arm) > 0
	for _, b := range arm {
		if fw.CurrentNR == nil || fw.CurrentNR.CutIndex(b) < 0 {
			fatal = false
		}
		break
	}
	_, c28 := cs["28"]
	_, c29 := cs["29"]
	_, c30 := cs["30"]
	rc.Check(fatal && c28 && c29 && c30, "count:reserved", pos, "28,29,30 are fatal", "reserved additional information 28..30 is not rejected")
	// the count argument
	ph, ok := dyn.Common().Args[2].(*ssa.Phi)
	if !ok {
		rc.Fail("count:arg", x.p.Rel(dyn.Pos()), "handler's count argument is not the merge of the short count and the count reads")
		return
	}
	exp := map[ssa.Value]bool{ssa.Value(sc.Call): true}
	for _, c := range seen {
		exp[c] = true
	}
	got := map[ssa.Value]bool{}
	okEdges := true
	for i, ed := range ph.Edges {
		o := c16Origin(ed)
		got[o] = true
		if !exp[o] {
			okEdges = false
		}
		if c, isCall := o.(*ssa.Call); isCall && c != sc.Call && ph.Block().Preds[i] != c.Block() {
			okEdges = false
		}
	}
	rc.Check(okEdges && len(got) == len(exp), "count:arg", x.p.Rel(dyn.Pos()), "count = short count, or the extended read of the selected width", "handler's count argument is not exactly {short count, U8, U16, U32, U64 read}")
}

func (x *c16) cborRow(k int64, h *ssa.Function, e *c16Eval, tableFn *ssa.Function) string {
	ops := x.opsOfFn(h, e)
	count := linA("$count")
	for _, o := range ops {
		if m := c16ReaderRE.FindStringSubmatch(o.Name); m != nil && m[4] == "LE" {
			return o.Name + ": little-endian reader in a big-endian format"
		}
	}
	argIs := func(o c16Op, i int, l c16Lin) bool { return i < len(o.Args) && e.lin(o.Args[i]).eq(l) }
	switch k {
	case 0:
		vs := c16Find(ops, "ValUint")
		if len(vs) != 1 || vs[0].Field != "value" || !argIs(vs[0], 1, count) {
			return "value is not the count"
		}
		if len(c16Reads(ops)) != 0 {
			return "consumes input beyond the head"
		}
	case 1:
		// n.SetUint64(count).Neg(n).Sub(n, one)
		var seq []string
		var oneOK, cntOK bool
		for _, c := range fw.CallsIn(h) {
			cal := c.Common().StaticCallee()
			if cal == nil || cal.Pkg == nil || cal.Pkg.Pkg.Path() != "math/big" {
				continue
			}
			seq = append(seq, cal.Name())
			if cal.Name() == "SetUint64" && e.lin(c.Common().Args[1]).eq(count) {
				cntOK = true
			}
			if cal.Name() == "Sub" {
				if ld, ok := c.Common().Args[2].(*ssa.UnOp); ok {
					if g, ok := ld.X.(*ssa.Global); ok && x.bigIntGlobalIs(g, 1) {
						oneOK = true
					}
				}
			}
		}
		if strings.Join(seq, ",") != "SetUint64,Neg,Sub" || !cntOK || !oneOK {
			return "value is not computed as -(count) - 1 (calls: " + strings.Join(seq, ",") + ")"
		}
		vs := c16Find(ops, "ValBigInt")
		if len(vs) != 1 || vs[0].Field != "value" {
			return "no big integer value field"
		}
	case 2, 3:
		kind := "Raw"
		if k == 3 {
			kind = "UTF8"
		}
		fl := c16Facts(h, nil)
		found := false
		for _, o := range c16Find(ops, kind) {
			if o.Field != "value" {
				continue
			}
			found = true
			if !o.Bits.eq(count.mulC(8)) {
				return fmt.Sprintf("payload is %s bits, expected 8*count", o.Bits)
			}
			for _, fs := range fl.At(o.Call.Block()) {
				if fs.holdsEq(h.Params[1], c16CborIndef) {
					return "definite-length payload read is reachable for the indefinite form"
				}
			}
		}
		if !found {
			return "no " + kind + " read named value"
		}
		if len(c16Find(ops, "Array")) != 1 {
			return "no chunk array for the indefinite form"
		}
	case 4, 5:
		if len(c16Reads(ops)) > 1 {
			return "unexpected reads"
		}
		arrs := c16Find(ops, "Array")
		if len(arrs) != 1 {
			return "no element array"
		}
		cl := c16FnArg(arrs[0], 1)
		if cl == nil {
			return "element closure unresolvable"
		}
		m := x.cborElemLoop(cl, h)
		if m.RowMsg != "" {
			return m.RowMsg
		}
		if m.Undecided != "" {
			return "element loop: " + m.Undecided
		}
		return x.perIteration(m.Body, e, k == 5, tableFn)
	case 6:
		vs := c16Find(ops, "ValUint")
		if len(vs) != 1 || !argIs(vs[0], 1, count) {
			return "tag number is not the count"
		}
		ss := c16Find(ops, "Struct")
		if len(ss) != 1 || ss[0].Field != "value" || !c16CallsOnly(c16FnArg(ss[0], 1), tableFn) {
			return "tagged value is not decoded as nested \"value\" through the dispatcher"
		}
	case 7:
		// arms checked by cborSimple
	}
	return ""
}

// bigIntGlobalIs: package-level *big.Int g is initialised with big.NewInt(v).
func (x *c16) bigIntGlobalIs(g *ssa.Global, v int64) bool {
	init := g.Pkg.Func("init")
	if init == nil {
		return false
	}
	ok := false
	fw.EachInstr(init, func(ins ssa.Instruction) {
		st, isSt := ins.(*ssa.Store)
		if !isSt || st.Addr != ssa.Value(g) {
			return
		}
		if c, isC := st.Val.(*ssa.Call); isC {
			if cal := c.Common().StaticCallee(); cal != nil && cal.String() == "math/big.NewInt" {
				if i, isI := c16ConstInt(c.Common().Args[0]); isI && i == v {
					ok = true
				}
			}
		}
	})
	return ok
}

// cborSimple: major type 7 by additional information (RFC 8949 3.3).
func (x *c16) cborSimple(rr *fw.Rule, h *ssa.Function, e *c16Eval) {
	fl := c16Facts(h, nil)
	sc := ssa.Value(h.Params[1])
	type exp struct {
		k    int64
		kind string
		bits int64
		cst  string
	}
	for _, w := range []exp{{20, "ValBool", 0, "false"}, {21, "ValBool", 0, "true"}, {22, "ValAny", 0, "nil"}, {25, "F", 16, ""}, {26, "F", 32, ""}, {27, "F", 64, ""}} {
		key := fmt.Sprintf("major:7:info:%d", w.k)
		arm := fl.armBlocks(sc, map[string]bool{fmt.Sprint(w.k): true})
		ops := x.opsIn(arm, newC16EvalFrom(e))
		var vals []c16Op
		for _, o := range ops {
			if o.Field == "value" {
				vals = append(vals, o)
			}
		}
		pos := x.p.Rel(h.Pos())
		if len(vals) != 1 || len(c16Reads(ops)) > 1 {
			rr.Fail(key, pos, fmt.Sprintf("additional information %d: expected exactly one \"value\" (%s), found %d", w.k, w.kind, len(vals)))
			continue
		}
		o := vals[0]
		pos = x.p.Rel(o.Call.Pos())
		if w.kind == "F" {
			c, isC := o.Bits.isConst()
			rr.Check(o.Kind == "F" && isC && c == w.bits, key, pos, fmt.Sprintf("float%d", w.bits), fmt.Sprintf("additional information %d reads %s%s, RFC 8949 says a %d-bit float", w.k, o.Kind, o.Bits, w.bits))
			continue
		}
		good := o.Kind == w.kind && len(o.Args) >= 2
		if good {
			c, isC := o.Args[1].(*ssa.Const)
			switch {
			case !isC:
				good = false
			case w.cst == "nil":
				good = c.IsNil()
			default:
				good = c.Value != nil && c.Value.String() == w.cst
			}
		}
		rr.Check(good, key, pos, w.cst, fmt.Sprintf("additional information %d does not yield %s", w.k, w.cst))
	}
}

// cborIndef: the indefinite-length discipline of major types 2..5.
func (x *c16) cborIndef(ri *fw.Rule, k int64, h *ssa.Function) {
	sc := ssa.Value(h.Params[1])
	key := fmt.Sprintf("major:%d", k)
	// (b) break byte consumed on every indefinite return path
	ev := func(ins ssa.Instruction) string {
		if c, ok := ins.(*ssa.Call); ok {
			if o, ok := x.op(c, newC16Eval()); ok && o.isRead() {
				if w, isC := o.Bits.isConst(); isC && w == 8 && o.Kind == "U" {
					return "u8"
				}
			}
		}
		return ""
	}
	fl := c16Facts(h, ev)
	okBrk, nIndef := true, 0
	for _, b := range h.Blocks {
		if _, isRet := b.Instrs[len(b.Instrs)-1].(*ssa.Return); !isRet {
			continue
		}
		for _, fs := range fl.AtExit(b) {
			if fs.holdsEq(sc, c16CborIndef) {
				nIndef++
				if !fs.events["u8"] {
					okBrk = false
				}
			}
		}
	}
	if nIndef == 0 {
		ri.Fail(key+":break-consumed", x.p.Rel(h.Pos()), "handler has no path specific to shortCount == 31: the indefinite form is not handled")
	} else {
		ri.Check(okBrk, key+":break-consumed", x.p.Rel(h.Pos()), "break byte read on every indefinite path", "indefinite-length item returns without consuming the 0xff break byte: the break is decoded as the next sibling value")
	}
	// (a) loop discipline in the chunk/element closure
	var cl *ssa.Function
	for _, o := range c16Find(x.opsOfFn(h, newC16Eval()), "Array") {
		cl = c16FnArg(o, 1)
	}
	if cl == nil {
		ri.Undecided(key+":loop", x.p.Rel(h.Pos()), "no element/chunk closure")
		return
	}
	if k < 4 {
		// chunk loop of a string: runs until the break marker
		brk := false
		isNone := func(ssa.Value) bool { return false }
		fw.EachInstr(cl, func(ins ssa.Instruction) {
			if v, ok := ins.(ssa.Value); ok {
				if kind, _ := x.cborAtom(v, isNone, isNone); kind == "brk" {
					brk = true
				}
			}
		})
		ri.Check(brk, key+":break-test", x.p.Rel(cl.Pos()), "loop peeks 8 bits against 0xff", "element loop does not test the next byte against the 0xff break marker")
		return
	}
	m := x.cborElemLoop(cl, h)
	mpos := x.p.Rel(m.Pos)
	if m.Undecided != "" {
		ri.Undecided(key+":break-test", mpos, m.Undecided)
		ri.Undecided(key+":count-not-bound", mpos, m.Undecided)
		return
	}
	ri.Check(m.BreakTest, key+":break-test", mpos, "the indefinite form continues until the next byte is 0xff", "element loop does not test the next byte against the 0xff break marker when shortCount == 31")
	ri.Check(m.CountGuarded, key+":count-not-bound", mpos, "count bounds the loop only for definite lengths", m.GuardMsg)
}
