package rules

// jq-level clauses added by the self-review by mutation (round 3).

import (
	"fmt"
	"regexp"
	"strconv"
	"strings"

	"github.com/wader/gojq"

	"fqverif/fw"
)

// c14JQStrNorm renders q with the parameters of the enclosing definition replaced by their
// position, so that two wrappers that differ only in the name of a parameter compare equal.
func c14JQStrNorm(d *fw.JQDef, q *gojq.Query) string {
	s := fw.JQStr(q)
	for i, a := range d.Def.Args {
		if !strings.HasPrefix(a, "$") {
			continue
		}
		re := regexp.MustCompile(regexp.QuoteMeta(a) + `\b`)
		s = re.ReplaceAllString(s, fmt.Sprintf("$$#%d", i))
	}
	return s
}

// ---------------------------------------------------------------------------
// a tiny symbolic evaluator for jq arithmetic over numbers and fixed arrays

type c14Sym struct {
	p   *fw.Poly
	arr []*c14Sym
}

func c14SymEval(q *gojq.Query, dot *c14Sym, env map[string]*c14Sym) (*c14Sym, bool) {
	if q == nil || len(q.FuncDefs) > 0 {
		return nil, false
	}
	if q.Term != nil && q.Left == nil {
		return c14SymTerm(q.Term, dot, env)
	}
	switch q.Op {
	case gojq.OpPipe:
		l, ok := c14SymEval(q.Left, dot, env)
		if !ok {
			return nil, false
		}
		return c14SymEval(q.Right, l, env)
	case gojq.OpAdd, gojq.OpSub, gojq.OpMul:
		l, ok1 := c14SymEval(q.Left, dot, env)
		r, ok2 := c14SymEval(q.Right, dot, env)
		if !ok1 || !ok2 || l.p == nil || r.p == nil {
			return nil, false
		}
		switch q.Op {
		case gojq.OpAdd:
			return &c14Sym{p: l.p.Add(r.p)}, true
		case gojq.OpSub:
			return &c14Sym{p: l.p.Sub(r.p)}, true
		default:
			return &c14Sym{p: l.p.Mul(r.p)}, true
		}
	}
	return nil, false
}

func c14SymList(q *gojq.Query, dot *c14Sym, env map[string]*c14Sym) ([]*c14Sym, bool) {
	if q != nil && q.Op == gojq.OpComma && len(q.FuncDefs) == 0 {
		l, ok1 := c14SymList(q.Left, dot, env)
		r, ok2 := c14SymList(q.Right, dot, env)
		return append(l, r...), ok1 && ok2
	}
	v, ok := c14SymEval(q, dot, env)
	return []*c14Sym{v}, ok
}

func c14SymIndex(cur *c14Sym, ix *gojq.Index) (*c14Sym, bool) {
	if cur == nil || cur.arr == nil || ix == nil || ix.IsSlice || ix.Name != "" || ix.Str != nil || ix.End != nil {
		return nil, false
	}
	ns, ok := fw.JQConstNumber(ix.Start)
	if !ok {
		return nil, false
	}
	k, err := strconv.Atoi(ns)
	if err != nil || k < 0 || k >= len(cur.arr) {
		return nil, false
	}
	return cur.arr[k], true
}

func c14SymTerm(t *gojq.Term, dot *c14Sym, env map[string]*c14Sym) (*c14Sym, bool) {
	var cur *c14Sym
	switch t.Type {
	case gojq.TermTypeIdentity:
		if dot == nil {
			return nil, false
		}
		cur = dot
	case gojq.TermTypeNumber:
		k, err := strconv.ParseInt(t.Number, 10, 64)
		if err != nil {
			return nil, false
		}
		cur = &c14Sym{p: fw.PConst(k)}
	case gojq.TermTypeIndex:
		v, ok := c14SymIndex(dot, t.Index)
		if !ok {
			return nil, false
		}
		cur = v
	case gojq.TermTypeFunc:
		if t.Func == nil || len(t.Func.Args) != 0 || !strings.HasPrefix(t.Func.Name, "$") || env[t.Func.Name] == nil {
			return nil, false
		}
		cur = env[t.Func.Name]
	case gojq.TermTypeArray:
		if t.Array == nil || t.Array.Query == nil {
			return nil, false
		}
		l, ok := c14SymList(t.Array.Query, dot, env)
		if !ok {
			return nil, false
		}
		cur = &c14Sym{arr: l}
	case gojq.TermTypeQuery:
		v, ok := c14SymEval(t.Query, dot, env)
		if !ok {
			return nil, false
		}
		cur = v
	case gojq.TermTypeUnary:
		if t.Unary == nil || t.Unary.Op != gojq.OpSub {
			return nil, false
		}
		v, ok := c14SymTerm(t.Unary.Term, dot, env)
		if !ok || v.p == nil {
			return nil, false
		}
		cur = &c14Sym{p: v.p.Neg()}
	default:
		return nil, false
	}
	for i, s := range t.SuffixList {
		switch {
		case s.Index != nil && !s.Iter && !s.Optional && s.Bind == nil:
			v, ok := c14SymIndex(cur, s.Index)
			if !ok {
				return nil, false
			}
			cur = v
		case s.Bind != nil && i == len(t.SuffixList)-1 && len(s.Bind.Patterns) == 1 && s.Bind.Patterns[0].Name != "":
			env2 := map[string]*c14Sym{}
			for k, v := range env {
				env2[k] = v
			}
			env2[s.Bind.Patterns[0].Name] = cur
			return c14SymEval(s.Bind.Body, dot, env2)
		default:
			return nil, false
		}
	}
	return cur, true
}

// ---------------------------------------------------------------------------
// C14.radix (arithmetic)

// c14SliceStage: q is `.[a:b]`; returns the printed bounds ("" when absent).
func c14SliceStage(q *gojq.Query) (start, end string, ok bool) {
	if q == nil || q.Term == nil || q.Left != nil {
		return "", "", false
	}
	t := q.Term
	var ix *gojq.Index
	switch {
	case t.Type == gojq.TermTypeIndex && len(t.SuffixList) == 0:
		ix = t.Index
	case t.Type == gojq.TermTypeIdentity && len(t.SuffixList) == 1 && t.SuffixList[0].Index != nil:
		ix = t.SuffixList[0].Index
	}
	if ix == nil || !ix.IsSlice {
		return "", "", false
	}
	return fw.JQStr(ix.Start), fw.JQStr(ix.End), true
}

func c14RadixArith(cx *c14Ctx, ru *fw.Rule) {
	jq := cx.jq
	const file = "format/math/radix.jq"
	to2, from2 := jq.Def(file, "to_radix", 2), jq.Def(file, "from_radix", 2)
	if to2 == nil || from2 == nil {
		return // reported by the guard clause
	}
	// ---- from_radix: positional evaluation
	func() {
		key := "from-positional"
		pos := c14JQPos(from2)
		base := from2.Def.Args[0]
		stages := fw.JQPipeline(from2.Def.Body)
		ri := -1
		for i, st := range stages {
			if st.Term != nil && st.Left == nil && st.Term.Type == gojq.TermTypeReduce && st.Term.Reduce != nil && len(st.Term.SuffixList) == 0 {
				ri = i
			}
		}
		if ri < 0 {
			ru.Undecided(key, pos, "from_radix/2 is not a pipeline with a reduce stage: its positional evaluation is not modelled")
			return
		}
		rev := 0
		for _, st := range stages[:ri] {
			if fw.JQIsCall(st, "reverse", 0) != nil {
				rev++
			}
		}
		lsbFirst := rev%2 == 1
		red := stages[ri].Term.Reduce
		if fw.JQStr(red.Query) != ".[]" || red.Pattern == nil || red.Pattern.Name == "" {
			ru.Undecided(key, pos, "the reduce of from_radix/2 does not iterate .[] into a single variable")
			return
		}
		start, ok := c14SymEval(red.Start, nil, map[string]*c14Sym{})
		if !ok {
			ru.Undecided(key, pos, "initial state "+fw.JQStr(red.Start)+" of the reduce is not a number or an array of numbers")
			return
		}
		b, c := fw.PAtom("base"), fw.PAtom("digit")
		env := map[string]*c14Sym{base: {p: b}, red.Pattern.Name: {p: c}}
		var state *c14Sym
		if start.arr != nil {
			state = &c14Sym{}
			for i := range start.arr {
				state.arr = append(state.arr, &c14Sym{p: fw.PAtom(fmt.Sprintf("s%d", i))})
			}
		} else {
			state = &c14Sym{p: fw.PAtom("s")}
		}
		upd, ok := c14SymEval(red.Update, state, env)
		if !ok {
			ru.Undecided(key, pos, "update "+fw.JQStr(red.Update)+" of the reduce is not arithmetic over the state, the digit and the base")
			return
		}
		switch {
		case start.arr == nil && upd.p != nil:
			// Horner form: needs most significant digit first
			good := !lsbFirst && start.p.Equal(fw.PConst(0)) && upd.p.Equal(state.p.Mul(b).Add(c))
			ru.Check(good, key, pos, "ans*base + digit over the digits, most significant first",
				fmt.Sprintf("from_radix/2 reduces with start %s and update %s over digits in %s order: this is not ans*base+digit over most-significant-first digits", start.p, upd.p, map[bool]string{true: "least-significant-first", false: "most-significant-first"}[lsbFirst]))
		case len(start.arr) == 2 && len(upd.arr) == 2 && ri+1 < len(stages):
			res, ok := c14SymEval(stages[ri+1], state, env)
			ia := -1
			if ok && res.p != nil {
				for i, s := range state.arr {
					if res.p.Equal(s.p) {
						ia = i
					}
				}
			}
			if ia < 0 || start.arr[0].p == nil || start.arr[1].p == nil || upd.arr[0].p == nil || upd.arr[1].p == nil {
				ru.Undecided(key, pos, "the stage after the reduce does not pick one element of the [power, answer] state")
				return
			}
			ip := 1 - ia
			var problems []string
			if !lsbFirst {
				problems = append(problems, "the digits reach the reduce most significant first (the string is not reversed), but the power grows with every digit")
			}
			if !start.arr[ip].p.Equal(fw.PConst(1)) || !start.arr[ia].p.Equal(fw.PConst(0)) {
				problems = append(problems, "the initial state is not power 1, answer 0")
			}
			if !upd.arr[ip].p.Equal(state.arr[ip].p.Mul(b)) {
				problems = append(problems, "the power is updated to "+upd.arr[ip].p.String()+", not power*base")
			}
			if !upd.arr[ia].p.Equal(state.arr[ia].p.Add(state.arr[ip].p.Mul(c))) {
				problems = append(problems, "the answer is updated to "+upd.arr[ia].p.String()+", not answer + power*digit")
			}
			ru.Check(len(problems) == 0, key, pos, "[power*base, answer + power*digit] from [1, 0] over reversed digits", "from_radix/2: "+strings.Join(problems, "; "))
		default:
			ru.Undecided(key, pos, "the state shape of the from_radix/2 reduce is not modelled")
		}
	}()
	// ---- to_radix: division and modulus by the base, exact integer division
	func() {
		base := to2.Def.Args[0]
		nMod, nDiv := 0, 0
		var problems []string
		fw.WalkJQ(to2.Def.Body, func(n any) bool {
			switch x := n.(type) {
			case *gojq.Query:
				switch x.Op {
				case gojq.OpMod:
					nMod++
					if fw.JQStr(x.Right) != base {
						problems = append(problems, "a digit is taken modulo "+fw.JQStr(x.Right)+", not "+base)
					}
				case gojq.OpDiv:
					problems = append(problems, "uses the floating point division "+fw.JQStr(x)+" (big integers lose precision; _intdiv is exact)")
				}
			case *gojq.Func:
				if x.Name == "_intdiv" && len(x.Args) == 2 {
					nDiv++
					if fw.JQStr(x.Args[1]) != base {
						problems = append(problems, "the number is divided by "+fw.JQStr(x.Args[1])+", not "+base)
					}
				}
			}
			return true
		}, false)
		if nMod == 0 || nDiv == 0 {
			problems = append(problems, "no `% "+base+"` / `_intdiv(.; "+base+")` pair found")
		}
		ru.Check(len(problems) == 0, "to-divmod", c14JQPos(to2), "digits are . % base of successive _intdiv(.; base)", "to_radix/2: "+strings.Join(problems, "; "))
	}()
	// ---- to_radix: digit order and the terminal zero of the recursion
	func() {
		key := "to-digit-order"
		pos := c14JQPos(to2)
		var stages []*gojq.Query
		fw.WalkJQ(to2.Def.Body, func(n any) bool {
			q, ok := n.(*gojq.Query)
			if !ok || stages != nil || q.Op != gojq.OpPipe {
				return stages == nil
			}
			st := fw.JQPipeline(q)
			if len(st) > 1 && st[0].Term != nil && st[0].Left == nil && st[0].Term.Type == gojq.TermTypeArray && c14HasCall(st[0], "recurse") {
				stages = st
				return false
			}
			return true
		}, false)
		if stages == nil {
			ru.Undecided(key, pos, "to_radix/2 does not collect its digits with [recurse(...) | ...]: digit order not modelled")
			return
		}
		// recurse(_intdiv) yields the least significant digit first and ends with the 0 it stops at
		msbFirst, zeroLast := false, true
		removed, wrong := 0, 0
	loop:
		for _, st := range stages[1:] {
			if fw.JQIsCall(st, "reverse", 0) != nil {
				msbFirst, zeroLast = !msbFirst, !zeroLast
				continue
			}
			if s, e, ok := c14SliceStage(st); ok {
				switch {
				case s == "1" && e == "" && !zeroLast:
					removed++
				case s == "" && e == "-1" && zeroLast:
					removed++
				default:
					wrong++
				}
				continue
			}
			break loop
		}
		ru.Check(msbFirst && removed == 1 && wrong == 0, key, pos, "digits reversed to most significant first, the terminal 0 of the recursion removed once",
			fmt.Sprintf("to_radix/2: after collecting the digits least significant first the pipeline leaves them most-significant-first: %v, removes the terminal 0 of the recursion %d time(s) and slices off something else %d time(s)", msbFirst, removed, wrong))
	}()
}

// c14RadixDigitGuard decides the comparison that rejects a digit: error exactly when digit >= base.
func c14RadixDigitGuard(ru *fw.Rule, from2 *fw.JQDef) {
	fbase := from2.Def.Args[0]
	key := "from-digit-guard"
	pos := c14JQPos(from2)
	found := false
	fw.WalkJQ(from2.Def.Body, func(n any) bool {
		ifn, ok := n.(*gojq.If)
		if !ok || ifn.Cond == nil || !c14Mentions(ifn.Cond, fbase) {
			return true
		}
		errThen, errElse := c14HasCall(ifn.Then, "error"), ifn.Else != nil && c14HasCall(ifn.Else, "error")
		if errThen == errElse {
			return true
		}
		found = true
		// disjuncts of the condition
		var disj []*gojq.Query
		var split func(q *gojq.Query)
		split = func(q *gojq.Query) {
			if q.Op == gojq.OpOr && len(q.FuncDefs) == 0 {
				split(q.Left)
				split(q.Right)
				return
			}
			if q.Term != nil && q.Left == nil && q.Term.Type == gojq.TermTypeQuery && len(q.Term.SuffixList) == 0 {
				split(q.Term.Query)
				return
			}
			disj = append(disj, q)
		}
		split(ifn.Cond)
		var cmp *gojq.Query
		for _, d := range disj {
			if c14Mentions(d, fbase) {
				if cmp != nil {
					cmp = nil
					break
				}
				cmp = d
			}
		}
		if cmp == nil || cmp.Left == nil || cmp.Right == nil {
			ru.Undecided(key, pos, "the digit test "+fw.JQStr(ifn.Cond)+" is not a disjunction with exactly one comparison against "+fbase)
			return false
		}
		if errThen {
			hasNull := false
			for _, d := range disj {
				if t := fw.JQStr(d); t == ". == null" || t == "null == ." {
					hasNull = true
				}
			}
			ru.Check(hasNull, "from-unknown-digit", pos, "a character that is not in the digit table is an error", "from_radix/2 does not reject a character whose table lookup is null ("+fw.JQStr(ifn.Cond)+"): null compares below every number and would be used as a digit")
		}
		baseLeft := fw.JQStr(cmp.Left) == fbase && fw.JQStr(cmp.Right) == "."
		baseRight := fw.JQStr(cmp.Right) == fbase && fw.JQStr(cmp.Left) == "."
		if !baseLeft && !baseRight {
			ru.Undecided(key, pos, "the comparison "+fw.JQStr(cmp)+" is not between the digit value (.) and "+fbase)
			return false
		}
		good := true
		for _, tc := range []struct {
			d       int
			wantErr bool
		}{{9, false}, {10, true}, {11, true}} {
			x, y := tc.d, 10
			if baseLeft {
				x, y = 10, tc.d
			}
			var h bool
			switch cmp.Op {
			case gojq.OpLt:
				h = x < y
			case gojq.OpLe:
				h = x <= y
			case gojq.OpGt:
				h = x > y
			case gojq.OpGe:
				h = x >= y
			case gojq.OpEq:
				h = x == y
			case gojq.OpNe:
				h = x != y
			default:
				ru.Undecided(key, pos, "operator of "+fw.JQStr(cmp)+" not modelled")
				return false
			}
			isErr := h
			if errElse {
				isErr = !h
			}
			if isErr != tc.wantErr {
				good = false
			}
		}
		ru.Check(good, key, pos, "a digit is rejected exactly when its value is >= base", "from_radix/2 tests "+fw.JQStr(cmp)+": this does not reject exactly the digits whose value is >= "+fbase+" (the digit equal to the base must be an error, the digit base-1 must be accepted)")
		return false
	}, false)
	if !found {
		ru.Fail(key, pos, "from_radix/2 never tests a digit value against "+fbase+": a digit >= base is accepted and yields a number (\"19\" | from_radix(2) == 11) instead of an error")
	}
}

// ---------------------------------------------------------------------------
// C14.jqlit: from_jq maps literal terms to their values

func c14JQLit(cx *c14Ctx) {
	ru := cx.r.Rule("C14.jqlit", "from_jq: in the dispatch on the parsed term type the null/true/false terms yield the literals null/true/false and a number term is converted with tonumber (the parser keeps the number as text); the object arm reads identifier keys and quoted keys; a unary minus term yields the negated number", 6)
	jq := cx.jq
	d := jq.Def("format/json/jq.jq", "from_jq", 0)
	if d == nil {
		ru.Undecided("from_jq", "", "from_jq/0 not found")
		return
	}
	n := 0
	for _, nd := range jq.Defs {
		if nd.Parent != d {
			continue
		}
		fw.WalkJQ(nd.Def.Body, func(x any) bool {
			ifn, ok := x.(*gojq.If)
			if !ok || len(ifn.Elif) < 3 || !strings.Contains(fw.JQStr(ifn.Cond), "TermType") {
				return true
			}
			type arm struct{ cond, then *gojq.Query }
			arms := []arm{{ifn.Cond, ifn.Then}}
			for _, e := range ifn.Elif {
				arms = append(arms, arm{e.Cond, e.Then})
			}
			for _, a := range arms {
				if a.cond == nil || a.cond.Op != gojq.OpEq {
					continue
				}
				label, ok := fw.JQConstString(a.cond.Right)
				if !ok {
					label, ok = fw.JQConstString(a.cond.Left)
				}
				if !ok {
					continue
				}
				pos := c14JQPos(nd)
				switch label {
				case "TermTypeNull", "TermTypeTrue", "TermTypeFalse":
					n++
					want := strings.ToLower(strings.TrimPrefix(label, "TermType"))
					ru.Check(fw.JQStr(a.then) == want, "from_jq|literal:"+want, pos, label+" -> "+want, fmt.Sprintf("from_jq yields %s for a %s term, expected %s", fw.JQStr(a.then), label, want))
				case "TermTypeNumber":
					n++
					ru.Check(c14HasCall(a.then, "tonumber"), "from_jq|number", pos, "number text converted with tonumber", "from_jq yields "+fw.JQStr(a.then)+" for a number term without tonumber: numbers come back as strings")
				case "TermTypeUnary":
					n++
					neg := false
					fw.WalkJQ(a.then, func(y any) bool {
						if t, ok := y.(*gojq.Term); ok && t.Type == gojq.TermTypeUnary && t.Unary != nil && t.Unary.Op == gojq.OpSub {
							neg = true
						}
						return true
					}, false)
					ru.Check(neg && c14HasCall(a.then, "tonumber"), "from_jq|negative", pos, "a unary minus term yields the negated number", "the unary arm of from_jq does not negate the converted number: negative numbers written by to_jq do not come back")
				case "TermTypeObject":
					n++
					names := map[string]bool{}
					fw.WalkJQ(a.then, func(y any) bool {
						if ix, ok := y.(*gojq.Index); ok && ix.Name != "" {
							names[ix.Name] = true
						}
						return true
					}, false)
					ru.Check(names["key"] && names["key_string"], "from_jq|object-keys", pos, "identifier keys (.key) and quoted keys (.key_string) are both read",
						"the object arm of from_jq does not read both .key and .key_string: to_jq writes non-identifier keys quoted, they would come back as null keys")
				}
			}
			return false
		}, true)
	}
	if n == 0 {
		ru.Undecided("from_jq|terms", c14JQPos(d), "term-type dispatch not found")
	}
	// the parser omits .str of a string term for the empty string: every read of a string term's text
	// (a path ending in .str) supplies "" when it is absent (`// ""`, or an if on its presence yielding "")
	strReads, undefaulted := 0, ""
	for _, nd := range jq.Defs {
		in := false
		for a := nd; a != nil; a = a.Parent {
			if a == d {
				in = true
			}
		}
		if !in {
			continue
		}
		defaulted := map[*gojq.Query]bool{}
		presenceIf := false
		fw.WalkJQ(nd.Def.Body, func(x any) bool {
			switch q := x.(type) {
			case *gojq.Query:
				if q.Op == gojq.OpAlt && q.Left != nil && q.Right != nil {
					if sv, ok := fw.JQConstString(q.Right); ok && sv == "" {
						defaulted[q.Left] = true
					}
				}
			case *gojq.If:
				if strings.Contains(fw.JQStr(q.Cond), ".str") {
					for _, br := range []*gojq.Query{q.Then, q.Else} {
						if br != nil {
							if sv, ok := fw.JQConstString(br); ok && sv == "" {
								presenceIf = true
							}
						}
					}
				}
			}
			return true
		}, false)
		fw.WalkJQ(nd.Def.Body, func(x any) bool {
			q, ok := x.(*gojq.Query)
			if !ok || q.Term == nil || q.Op != 0 {
				return true
			}
			t := q.Term
			last := ""
			if k := len(t.SuffixList); k > 0 {
				if ix := t.SuffixList[k-1].Index; ix != nil {
					last = ix.Name
				}
			} else if t.Type == gojq.TermTypeIndex && t.Index != nil {
				last = t.Index.Name
			}
			if last != "str" {
				return true
			}
			strReads++
			if !defaulted[q] && !presenceIf && undefaulted == "" {
				undefaulted = fw.JQStr(q)
			}
			return true
		}, false)
	}
	if strReads < 2 {
		ru.Undecided("from_jq|string-text", c14JQPos(d), fmt.Sprintf("%d reads of a string term's text found in from_jq, expected the string literal and the quoted key", strReads))
	} else {
		ru.Check(undefaulted == "", "from_jq|string-text", c14JQPos(d), "every read of a string term's text defaults to the empty string", "from_jq reads "+undefaulted+" without a default: the parser omits .str for the empty string, so \"\" and the empty key written by to_jq come back as null")
	}
}
