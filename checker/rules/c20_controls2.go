package rules

// Positive controls for the C20 clauses added by the mutation self-review (round 3).

func init() {
	const stack = "internal/ctxstack/ctxstack.go"
	const interp = "pkg/interp/interp.go"
	const cli = "pkg/cli/cli.go"
	c := func(id, rule, file, old, nw, expect string) {
		AddControl(Control{ID: id, Prop: "C20", Rule: rule, File: file, Old: old, New: nw, ExpectKey: expect})
	}
	// ---- C20.stack
	c("c20-stack-pop-fixed-index", "C20.stack", stack, "i >= stackIdx; i-- {\n\t\t\ts.cancelFns[i]()", "i >= stackIdx; i-- {\n\t\t\ts.cancelFns[stackIdx]()", "pop:cancels every entry from own index")
	c("c20-stack-pop-skips-one", "C20.stack", stack, `i >= stackIdx; i--`, `i > stackIdx+1; i--`, "pop:cancels every entry from own index")
	c("c20-stack-push-foreign-cancel", "C20.stack", stack, `s.cancelFns = append(s.cancelFns, stackCtxCancel)`,
		"_, otherCancel := context.WithCancel(parent)\n\ts.cancelFns = append(s.cancelFns, otherCancel)", "Push:pushes the cancel of the returned context")
	c("c20-stack-push-no-parent", "C20.stack", stack, `context.WithCancel(parent)`, `context.WithCancel(context.Background())`, "Push:context derived from parent")
	c("c20-stack-trigger-drops-entry", "C20.stack", stack, "\t\t\t\t\ts.cancelFns[len(s.cancelFns)-1]()\n", "\t\t\t\t\ts.cancelFns[len(s.cancelFns)-1]()\n\t\t\t\t\ts.cancelFns = s.cancelFns[:len(s.cancelFns)-1]\n", "trigger:does not modify the stack")
	// ---- C20.eval
	c("c20-eval-push-background", "C20.eval", interp, `i.interruptStack.Push(ctx)`, `i.interruptStack.Push(context.Background())`, "Eval:push parent")
	c("c20-eval-trigger-default", "C20.eval", interp, "\t\tcase <-os.InterruptChan():\n\t\t\treturn\n\t\t}", "\t\tcase <-os.InterruptChan():\n\t\t\treturn\n\t\tdefault:\n\t\t}", "interp.New:trigger")
	// ---- C20.ctxrs
	c("c20-ctxrs-new-other-ctx", "C20.ctxrs", "internal/ctxreadseeker/ctxreadseeker.go", "\t\tctx:    ctx,\n", "\t\tctx:    context.Background(),\n", "New:binds ctx")
	// ---- C20.sig
	c("c20-sig-forward-on-close", "C20.sig", cli, `			case <-interruptSignalChan:
				// ignore if interruptChan is full
				select {
				case interruptChan <- struct{}{}:
				default:
				}
			case <-closeChan:
				return
`, `			case <-interruptSignalChan:
			case <-closeChan:
				select {
				case interruptChan <- struct{}{}:
				default:
				}
				return
`, "bridge:forwards each signal")
	// ---- C20.repl
	c("c20-repl-no-error-field", "C20.repl", "pkg/interp/repl.jq", `  if .error | _is_context_canceled_error then empty`, `  if _is_context_canceled_error then empty`, "_repl_on_error")
	c("c20-repl-eval-error-key", "C20.repl", "pkg/interp/eval.jq", "        ( {error: ., input: $c}\n        | on_error", "        ( {err: ., input: $c}\n        | on_error", "eval/4:on_error input")
	c("c20-repl-handlers-swapped", "C20.repl", "pkg/interp/repl.jq", "        _repl_on_error;\n        _repl_on_compile_error", "        _repl_on_compile_error;\n        _repl_on_error", "_repl_loop/0:on_error wiring")
	c("c20-repl-go-branches-swapped", "C20.repl", interp, "\tif errors.Is(err, ErrInterrupt) {\n\t\treturn gojq.NewIter(valueError{\"interrupt\"})\n\t} else if errors.Is(err, ErrEOF) {",
		"\tif errors.Is(err, ErrEOF) {\n\t\treturn gojq.NewIter(valueError{\"interrupt\"})\n\t} else if errors.Is(err, ErrInterrupt) {", "only for ErrInterrupt")
	c("c20-repl-cli-maps-to-eof", "C20.repl", cli, "\tif errors.Is(err, readline.ErrInterrupt) {\n\t\treturn \"\", interp.ErrInterrupt", "\tif errors.Is(err, readline.ErrInterrupt) {\n\t\treturn \"\", interp.ErrEOF", "cli.Readline:ErrInterrupt mapping")
}
