package rules

import (
	"fmt"
	"go/constant"
	"go/token"
	"go/types"
	"strings"

	"golang.org/x/tools/go/ssa"

	"fqverif/fw"
)

// ---------------------------------------------------------------------------
// C06.recover (continued): the recovered value reaches the caller
//
// recoverfn.Run must hand the recoverable panic value back (not swallow it) and tell the caller that the
// function did not complete; decode() must consume the recovered value exactly where Run said "not ok".
//   Run:value   on the path that accepts a recoverable value the deferred closure stores recover()'s result
//               into a variable of the enclosing closure, and that variable is what the closure returns
//   Run:result  every `return _, true` of Run is dominated by <that value> == nil, every `return _, false`
//               by <that value> != nil, and the Raw returned with false carries the value in RecoverV
//   decode:rOk  in decode() every use of Run's Raw result is dominated by the ok result being false

func c06RecoverFlow(r *fw.Run, p *fw.Program) {
	ru := r.Rule("C06.recover", "", 7)
	runFn := p.Fn("internal/recoverfn.Run")
	if runFn == nil {
		return // reported by c06Recover
	}
	// the deferred closure with recover()
	var recFn *ssa.Function
	var recCall *ssa.Call
	for _, f := range fw.WithClosures(runFn) {
		for _, c := range fw.CallsIn(f) {
			if fw.IsBuiltinCall(c, "recover") {
				if cl, ok := c.(*ssa.Call); ok {
					recFn, recCall = f, cl
				}
			}
		}
	}
	if recFn == nil || recFn.Parent() == nil {
		return // reported by c06Recover
	}
	inner := recFn.Parent()
	pos := p.Rel(recCall.Pos())
	// (i) store of the recovered value into a captured variable, on a path that returns normally
	var cell *ssa.Alloc
	storeOK := false
	fw.EachInstr(recFn, func(ins ssa.Instruction) {
		st, ok := ins.(*ssa.Store)
		if !ok || st.Val != ssa.Value(recCall) {
			return
		}
		fv, ok := st.Addr.(*ssa.FreeVar)
		if !ok {
			return
		}
		// the storing block must end in (or fall through to) a Return, not in the re-panic
		if !c06BlockReturns(st.Block()) {
			return
		}
		vals, _ := freeVarBindings(recFn, fv)
		if len(vals) == 1 {
			if a, ok := vals[0].(*ssa.Alloc); ok {
				cell = a
				storeOK = true
			}
		}
	})
	ru.Check(storeOK, "Run:value", pos, "the accepted recovered value is stored into a variable of the enclosing function", "the deferred closure of Run does not store the recovered value on the path that swallows the panic: a recoverable decoder panic would be reported as a completed decode")
	if !storeOK {
		return
	}
	// which result of the enclosing closure is loaded from that variable on every return
	resIdx := -1
	consistent := true
	fw.EachInstr(inner, func(ins ssa.Instruction) {
		ret, ok := ins.(*ssa.Return)
		if !ok {
			return
		}
		found := -1
		for i, res := range ret.Results {
			if ld, ok := res.(*ssa.UnOp); ok && ld.Op == token.MUL && ld.X == ssa.Value(cell) {
				found = i
			}
		}
		if found < 0 || (resIdx >= 0 && resIdx != found) {
			consistent = false
		}
		resIdx = found
	})
	if inner != runFn {
		ru.Check(consistent && resIdx >= 0, "Run:value:returned", pos, "every return of the protected closure returns that variable", "the closure of Run that protects fn() does not return the variable holding the recovered value on every path (including the recover path)")
		if !consistent || resIdx < 0 {
			return
		}
	}
	// the value in Run
	var vv ssa.Value
	if inner == runFn {
		ru.Undecided("Run:result", pos, "recover() closure is deferred directly in Run: result flow not modelled")
		return
	}
	fw.EachInstr(runFn, func(ins ssa.Instruction) {
		ex, ok := ins.(*ssa.Extract)
		if !ok || ex.Index != resIdx {
			return
		}
		if c, ok := ex.Tuple.(*ssa.Call); ok {
			if mc, ok := c.Common().Value.(*ssa.MakeClosure); ok && mc.Fn == ssa.Value(inner) {
				vv = ex
			}
		}
	})
	if vv == nil {
		ru.Undecided("Run:result", pos, "call of the protected closure not found in Run")
		return
	}
	bad := ""
	nTrue, nFalse := 0, 0
	fw.EachInstr(runFn, func(ins ssa.Instruction) {
		ret, ok := ins.(*ssa.Return)
		if !ok || len(ret.Results) != 2 {
			return
		}
		isNil, isNonNil := false, false
		for _, g := range fw.Guards(ret.Block()) {
			g = g.Normalize()
			bo, ok := g.Cond.(*ssa.BinOp)
			if !ok || (bo.Op != token.EQL && bo.Op != token.NEQ) {
				continue
			}
			if !((bo.X == vv && isNilConst(bo.Y)) || (bo.Y == vv && isNilConst(bo.X))) {
				continue
			}
			if (bo.Op == token.EQL) == g.True {
				isNil = true
			} else {
				isNonNil = true
			}
		}
		switch okv := ret.Results[1].(type) {
		case *ssa.Const:
			if okv.Value == nil || okv.Value.Kind() != constant.Bool {
				bad = "ok result is not a boolean constant"
				return
			}
			if constant.BoolVal(okv.Value) {
				nTrue++
				if !isNil {
					bad = "`return _, true` is reachable with a recovered value (not dominated by value == nil)"
				}
			} else {
				nFalse++
				if !isNonNil {
					bad = "`return _, false` is not dominated by value != nil"
				}
				// the Raw carries the value
				carried := false
				fw.EachInstr(runFn, func(i2 ssa.Instruction) {
					if st, ok := i2.(*ssa.Store); ok && st.Val == vv {
						if fa, ok := st.Addr.(*ssa.FieldAddr); ok && fieldNameOf(fa.X.Type(), fa.Field) == "RecoverV" {
							carried = true
						}
					}
				})
				if !carried {
					bad = "the Raw returned with ok=false does not carry the recovered value in RecoverV"
				}
			}
		case *ssa.BinOp:
			// return raw, v == nil
			if !(okv.Op == token.EQL && ((okv.X == vv && isNilConst(okv.Y)) || (okv.Y == vv && isNilConst(okv.X)))) {
				bad = "ok result is not `value == nil`"
			} else {
				nTrue++
				nFalse++
			}
		default:
			bad = "ok result is neither a constant nor `value == nil`"
		}
	})
	if bad == "" && (nTrue == 0 || nFalse == 0) {
		bad = "Run does not have both an ok and a not-ok return"
	}
	ru.Check(bad == "", "Run:result", pos, "ok is true exactly when no value was recovered; the recovered value is carried in Raw.RecoverV", "Run reports the outcome wrongly: "+bad+" (a decode error would be taken for success, or success for an error)")

	// (iii) decode(): uses of the Raw only where ok is false
	dec := p.Fn("pkg/decode.decode")
	if dec == nil {
		ru.Undecided("decode:rOk", "", "pkg/decode.decode not found")
		return
	}
	n := 0
	badUse := ""
	badPos := ""
	for _, f := range fw.WithClosures(dec) {
		for _, c := range fw.CallsIn(f) {
			if c.Common().StaticCallee() != runFn {
				continue
			}
			call, ok := c.(*ssa.Call)
			if !ok || call.Referrers() == nil {
				continue
			}
			var raw, okv ssa.Value
			for _, rf := range *call.Referrers() {
				if ex, ok := rf.(*ssa.Extract); ok {
					if ex.Index == 0 {
						raw = ex
					} else {
						okv = ex
					}
				}
			}
			if raw == nil || okv == nil || raw.Referrers() == nil {
				continue
			}
			uses := []ssa.Instruction{}
			for _, use := range *raw.Referrers() {
				if _, isDbg := use.(*ssa.DebugRef); isDbg {
					continue
				}
				// spilled into a local: the uses are the uses of the local
				if st, ok := use.(*ssa.Store); ok && st.Val == raw {
					if a, ok := st.Addr.(*ssa.Alloc); ok && a.Referrers() != nil {
						for _, u2 := range *a.Referrers() {
							if u2 != use {
								if _, isDbg := u2.(*ssa.DebugRef); !isDbg {
									uses = append(uses, u2)
								}
							}
						}
						continue
					}
				}
				uses = append(uses, use)
			}
			for _, use := range uses {
				n++
				guarded := false
				for _, g := range fw.Guards(use.Block()) {
					g = g.Normalize()
					if g.Cond == okv && !g.True {
						guarded = true
					}
				}
				if !guarded && badUse == "" {
					badUse = "the Raw result of recoverfn.Run is used where its ok result is not known to be false"
					badPos = p.Rel(use.Pos())
				}
			}
		}
	}
	if n == 0 {
		ru.Undecided("decode:rOk", "", "decode() does not use the Raw result of recoverfn.Run")
		return
	}
	if badPos == "" {
		badPos = p.Rel(dec.Pos())
	}
	ru.Check(badUse == "", "decode:rOk", badPos, fmt.Sprintf("%d uses of the recovered value, all under !ok", n), badUse+": the decoder's error is dropped (or a nil value formatted) and the failed decode is returned as success")
}

// c06BlockReturns: control from b reaches a Return without passing a Panic (straight-line jumps only).
func c06BlockReturns(b *ssa.BasicBlock) bool {
	for i := 0; i < 8 && b != nil; i++ {
		switch b.Instrs[len(b.Instrs)-1].(type) {
		case *ssa.Return:
			return true
		case *ssa.Jump:
			b = b.Succs[0]
		default:
			return false
		}
	}
	return false
}

// ---------------------------------------------------------------------------
// C06.lenidx: an index or slice bound written relative to the length of the same slice is inside it
//
// x[len(x)+c] needs c < 0 and x[a:len(x)+c] / x[len(x)+c:] need c <= 0, on every incoming value of the
// operand (phi edges are looked at one by one). len(x)-1 idioms are where off-by-one slips live; the
// relation is syntactic, so the verdict is exact (for slices made with len == cap or re-sliced ones the
// capacity may be larger; such a slice expression is still a logic error the decoder does not intend).

func c06LenIdx(r *fw.Run, p *fw.Program) {
	ru := r.Rule("C06.lenidx", "an index written as len(x)+c into x itself has c < 0, and a slice bound len(x)+c of x has c <= 0, on every incoming value of the operand (decoder packages, pkg/decode, pkg/bitio, internal/bitiox, internal/recoverfn)", 15)
	for _, fn := range p.FqFunctions() {
		if pr := pkgRel(fn); (!c06DecodePkg(pr) && pr != "internal/recoverfn") || !linkedPackages(p)[fw.FnPkgPath(fn)] {
			continue
		}
		var env *fw.PolyEnv
		ord := 0
		fw.EachInstr(fn, func(ins ssa.Instruction) {
			var xs ssa.Value
			type opnd struct {
				v     ssa.Value
				what  string
				limit int64 // largest allowed c
			}
			var ops []opnd
			switch y := ins.(type) {
			case *ssa.IndexAddr:
				xs, ops = y.X, []opnd{{y.Index, "index", -1}}
			case *ssa.Index:
				xs, ops = y.X, []opnd{{y.Index, "index", -1}}
			case *ssa.Slice:
				xs, ops = y.X, []opnd{{y.Low, "slice low bound", 0}, {y.High, "slice high bound", 0}}
			default:
				return
			}
			switch xs.Type().Underlying().(type) {
			case *types.Slice, *types.Basic:
			default:
				return
			}
			var lens []*fw.Poly
			mk := func() {
				if env == nil {
					env = fw.NewPolyEnv(fn)
				}
			}
			if path, ok := fw.AccessPath(xs); ok {
				lens = append(lens, fw.PAtom("len("+path+")"))
			} else {
				mk()
				lens = append(lens, fw.StripVersions(fw.PAtom("len("+env.Of(xs).String()+")")))
			}
			if ms, ok := xs.(*ssa.MakeSlice); ok {
				mk()
				lens = append(lens, fw.StripVersions(env.Of(ms.Len)))
			}
			if len(lens) == 0 {
				return
			}
			for _, o := range ops {
				if o.v == nil {
					continue
				}
				if _, isC := o.v.(*ssa.Const); isC {
					continue
				}
				mk()
				related := false
				bad := ""
				for _, e := range c06PhiLeaves(o.v, 0, map[ssa.Value]bool{}) {
					ip := fw.StripVersions(env.Of(e))
					for _, lp := range lens {
						if c, isConst := ip.Sub(lp).IsConst(); isConst {
							related = true
							if c > o.limit {
								bad = fmt.Sprintf("%s is len+%d", o.what, c)
							}
						}
					}
				}
				if !related {
					continue
				}
				ord++
				path, _ := fw.AccessPath(xs)
				if path == "" {
					path = "make"
				}
				key := fmt.Sprintf("%s|%s|%d", fw.ShortFn(fn), path, ord)
				ru.Check(bad == "", key, p.Rel(ins.Pos()), "operand is len(x)+c with c inside the slice", bad+" of the slice it is applied to: always outside (index / slice bounds out of range)")
			}
		})
	}
}

// c06PhiLeaves expands phis (through integer conversions) into their incoming values.
func c06PhiLeaves(v ssa.Value, depth int, seen map[ssa.Value]bool) []ssa.Value {
	if seen[v] || depth > 3 {
		return []ssa.Value{v}
	}
	seen[v] = true
	if ph, ok := stripIntConv(v).(*ssa.Phi); ok {
		var out []ssa.Value
		for _, e := range ph.Edges {
			out = append(out, c06PhiLeaves(e, depth+1, seen)...)
		}
		return out
	}
	return []ssa.Value{v}
}

var _ = strings.HasPrefix

// ---------------------------------------------------------------------------
// C06.array: an index into a fixed-size array is proved inside it
//
// Fixed-size arrays in decoders are lookup tables (bit rates, sample rates, CRC tables, per-channel
// state) indexed by header fields. The array length is a compile-time fact, so the obligation is exact:
// the index interval (reader widths, masks, shifts, dominating no-return guards) lies in [0,N), or the
// dominating comparison facts prove 0 <= i < N.

var arrayExceptions = map[string]string{
	"format/mpeg.frameDecode|[4]|1":     "mpegVersionNr is a value of the map mpegVersionN (values 1..3, checked here) or 0, and 0 < 4",
	"format/mpeg.frameDecode$1|[4]|1":   "mpegVersionNr is a value of the map mpegVersionN (values 1..3, checked here) or 0, and 0 < 4",
	"format/mpeg.frameDecode$1$2|[3]|1": "mpegVersionNr-1: mpegVersionNr is a value of the map mpegVersionN (values 1..3, checked here); 0 is rejected by d.Fatalf before (C06.forceeq watches that guard)",
}

var arrayExceptionChecks = map[string]func(p *fw.Program) string{
	"format/mpeg.frameDecode|[4]|1":     func(p *fw.Program) string { return c06MapValuesWithin(p, "format/mpeg", "mpegVersionN", 1, 3) },
	"format/mpeg.frameDecode$1|[4]|1":   func(p *fw.Program) string { return c06MapValuesWithin(p, "format/mpeg", "mpegVersionN", 1, 3) },
	"format/mpeg.frameDecode$1$2|[3]|1": func(p *fw.Program) string { return c06MapValuesWithin(p, "format/mpeg", "mpegVersionN", 1, 3) },
}

// c06MapValuesWithin: every value stored into the package-level map by the package initialiser is a
// constant in [lo,hi] and nothing else writes the map. "" when so.
func c06MapValuesWithin(p *fw.Program, pkg, name string, lo, hi int64) string {
	var g *ssa.Global
	for _, pk := range p.SSA.AllPackages() {
		if pk.Pkg.Path() == fw.Mod+"/"+pkg {
			if m, ok := pk.Members[name].(*ssa.Global); ok {
				g = m
			}
		}
	}
	if g == nil {
		return "map " + pkg + "." + name + " not found"
	}
	n := 0
	bad := ""
	for _, fn := range p.FqFunctions() {
		if fn.Pkg != g.Pkg {
			continue
		}
		fw.EachInstr(fn, func(ins ssa.Instruction) {
			mu, ok := ins.(*ssa.MapUpdate)
			if !ok {
				return
			}
			// the map written is the one stored into / loaded from g
			isG := false
			switch m := mu.Map.(type) {
			case *ssa.UnOp:
				isG = m.X == ssa.Value(g)
			case *ssa.MakeMap:
				if m.Referrers() != nil {
					for _, rf := range *m.Referrers() {
						if st, ok := rf.(*ssa.Store); ok && st.Addr == ssa.Value(g) {
							isG = true
						}
					}
				}
			}
			if !isG {
				return
			}
			n++
			c, ok := mu.Value.(*ssa.Const)
			if !ok || c.Value == nil || c.Value.Kind() != constant.Int {
				bad = "non-constant value stored into " + name
				return
			}
			if v, exact := constant.Int64Val(c.Value); !exact || v < lo || v > hi {
				bad = fmt.Sprintf("value %s stored into %s is outside [%d,%d]", c.Value.ExactString(), name, lo, hi)
			}
		})
	}
	if bad != "" {
		return bad
	}
	if n == 0 {
		return "no initialising stores of " + name + " found"
	}
	return ""
}

func c06Array(r *fw.Run, p *fw.Program) {
	ru := r.Rule("C06.array", "every non-constant index into a fixed-size array in decoder code (format/** except the crypto/tls port format/tls/tlsdecrypt, pkg/decode, pkg/scalar, pkg/bitio, internal/bitiox) is proved inside the array: its interval from reader widths, masks and dominating no-return guards lies in [0,N), or the dominating comparison facts prove 0 <= i < N", 12)
	for _, fn := range p.FqFunctions() {
		pr := pkgRel(fn)
		if !c06DecodePkg(pr) || pr == "format/tls/tlsdecrypt" || !linkedPackages(p)[fw.FnPkgPath(fn)] {
			continue
		}
		var env *fw.IntervalEnv
		ord := map[int64]int{}
		fw.EachInstr(fn, func(ins ssa.Instruction) {
			var xs, idx ssa.Value
			switch y := ins.(type) {
			case *ssa.Index:
				xs, idx = y.X, y.Index
			case *ssa.IndexAddr:
				xs, idx = y.X, y.Index
			default:
				return
			}
			if _, isC := idx.(*ssa.Const); isC {
				return // the compiler rejects constant indexes outside an array
			}
			n := c06ArrayLen(xs.Type())
			if n < 0 {
				return
			}
			if env == nil {
				env = fw.NewIntervalEnv(fn)
				env.CallRange = readerCallRange
			}
			ord[n]++
			key := fmt.Sprintf("%s|[%d]|%d", fw.ShortFn(fn), n, ord[n])
			iv := c06At(env, idx, ins.Block())
			if !iv.HiInf && iv.Hi < n && !iv.LoInf && iv.Lo >= 0 {
				ru.Ok(key, p.Rel(ins.Pos()), fmt.Sprintf("index in [%d,%d] inside [%d]", iv.Lo, iv.Hi, n))
				return
			}
			ip := env.Poly.Of(idx)
			hiOK := (!iv.HiInf && iv.Hi < n) || fw.ProvesFrom(c06Facts(env.Poly, ins.Block()), fw.Cmp{P: ip.Sub(fw.PConst(n)), Rel: fw.LT}) || c06DecreasingFrom(idx, n-1)
			loOK := (!iv.LoInf && iv.Lo >= 0) || isUnsignedT(idx.Type()) || c06ProvedNonNeg(env, idx, ins.Block())
			if eh, el := c06LoopCounterWithin(env.Poly, idx, n); eh || el {
				hiOK = hiOK || eh
				loOK = loOK || el
			}
			if hiOK && loOK {
				ru.Ok(key, p.Rel(ins.Pos()), "comparison facts prove the index inside the array")
				return
			}
			if reason, ok := arrayExceptions[key]; ok {
				if chk := arrayExceptionChecks[key]; chk != nil {
					if why := chk(p); why != "" {
						ru.Fail(key, p.Rel(ins.Pos()), "the exception for this index ("+reason+") no longer holds: "+why)
						return
					}
				}
				ru.Except(key, p.Rel(ins.Pos()), reason)
				return
			}
			ru.Fail(key, p.Rel(ins.Pos()), fmt.Sprintf("index %s in [%s,%s] into an array of length %d is not proved inside it: a crafted header field selects an element outside the table (index out of range kills fq)", ip.String(), loStr(iv), hiStr(iv), n))
		})
	}
}

// c06DecreasingFrom: v is a loop counter that starts at a constant <= max and is only decremented.
func c06DecreasingFrom(v ssa.Value, max int64) bool {
	ph, ok := stripIntConv(v).(*ssa.Phi)
	if !ok {
		return false
	}
	hasInit := false
	for _, e := range ph.Edges {
		if c, ok := e.(*ssa.Const); ok && c.Value != nil && c.Value.Kind() == constant.Int {
			if k, exact := constant.Int64Val(c.Value); exact && k <= max {
				hasInit = true
				continue
			}
			return false
		}
		bo, ok := e.(*ssa.BinOp)
		if !ok {
			return false
		}
		c, isC := bo.Y.(*ssa.Const)
		if !isC || c.Value == nil || bo.X != ssa.Value(ph) {
			return false
		}
		k, exact := constant.Int64Val(constant.ToInt(c.Value))
		if !exact || !((bo.Op == token.SUB && k > 0) || (bo.Op == token.ADD && k < 0)) {
			return false
		}
	}
	return hasInit
}

// c06LoopCounterWithin: v is the counter of a rotated loop (phi at the loop body): every incoming value
// is a constant in [0,n) or is proved < n by the facts on its incoming edge (hi); every incoming value is
// a non-negative constant or the counter plus a positive constant (lo).
func c06LoopCounterWithin(env *fw.PolyEnv, v ssa.Value, n int64) (hi, lo bool) {
	ph, ok := stripIntConv(v).(*ssa.Phi)
	if !ok || len(ph.Edges) != len(ph.Block().Preds) {
		return false, false
	}
	hi, lo = true, true
	for i, e := range ph.Edges {
		if c, ok := e.(*ssa.Const); ok && c.Value != nil && c.Value.Kind() == constant.Int {
			k, exact := constant.Int64Val(c.Value)
			if !exact || k < 0 {
				lo = false
			}
			if !exact || k >= n {
				hi = false
			}
			continue
		}
		if !fw.ProvesFrom(env.EdgeFacts(ph.Block().Preds[i], ph.Block()), fw.Cmp{P: env.Of(e).Sub(fw.PConst(n)), Rel: fw.LT}) {
			hi = false
		}
		bo, isBo := e.(*ssa.BinOp)
		inc := false
		if isBo && bo.Op == token.ADD && bo.X == ssa.Value(ph) {
			if c, ok := bo.Y.(*ssa.Const); ok && c.Value != nil {
				if k, exact := constant.Int64Val(constant.ToInt(c.Value)); exact && k > 0 {
					inc = true
				}
			}
		}
		if !inc {
			lo = false
		}
	}
	return hi, lo
}

// ---------------------------------------------------------------------------
// C06.apisign: signed shift counts and slice bounds in the decode API are proved non-negative
//
// pkg/decode is where sizes chosen by decoders (and so by the input) arrive. A negative shift count
// and a negative slice bound are runtime panics, not decode errors. Each must be proved >= 0 in the
// function (interval of the value refined by dominating guards whose failing arm returns or does not
// return at all), or, when it is a parameter, at every static call site (lifted, up to 4 levels).

var apiSignExceptions = map[string]string{
	"(*pkg/decode.D).tryTextNull|slice high|1": "the bound is peekBits/8 where peekBits is TryPeekFind's count: with a positive step it is a non-negative multiple of the step, or -1 for not found, and int(-1)/8 is 0",
}

func c06ApiSign(r *fw.Run, p *fw.Program) {
	ru := r.Rule("C06.apisign", "in pkg/decode every shift by a signed non-constant count and every non-constant slice bound is proved >= 0 in the function or, for a parameter, at every static call site (a negative size handed in by a decoder must become a decode error, not a runtime panic)", 7)
	for _, fn := range p.FqFunctions() {
		if pkgRel(fn) != "pkg/decode" {
			continue
		}
		var env *fw.IntervalEnv
		ord := map[string]int{}
		need := func(ins ssa.Instruction, what string, v ssa.Value) {
			if v == nil {
				return
			}
			if _, isC := v.(*ssa.Const); isC {
				return
			}
			if isUnsignedT(v.Type()) {
				return
			}
			if env == nil {
				env = newC13Env(fn)
			}
			ord[what]++
			key := fmt.Sprintf("%s|%s|%d", fw.ShortFn(fn), what, ord[what])
			ok, why := c06NonNeg(p, fn, env, v, ins.Block(), 0)
			if ok {
				ru.Ok(key, p.Rel(ins.Pos()), what+" proved >= 0")
				return
			}
			if reason, has := apiSignExceptions[key]; has {
				ru.Except(key, p.Rel(ins.Pos()), reason)
				return
			}
			if why != "" {
				why = " (" + why + ")"
			}
			ru.Fail(key, p.Rel(ins.Pos()), what+" "+env.Poly.Of(v).String()+" is not proved >= 0"+why+": a negative value is a runtime panic instead of a decode error")
		}
		fw.EachInstr(fn, func(ins ssa.Instruction) {
			switch x := ins.(type) {
			case *ssa.BinOp:
				if x.Op == token.SHL || x.Op == token.SHR {
					need(x, "shift", x.Y)
				}
			case *ssa.Slice:
				need(x, "slice low", x.Low)
				need(x, "slice high", x.High)
			}
		})
	}
}

// c06NonNeg: v is proved >= 0 at block b of fn: locally (interval + dominating facts), through
// non-negativity preserving wrappers (integer conversion, bitio.BitsByteCount, division by a positive
// constant), for a bytes/strings Index* result by a dominating test excluding -1, or, for a parameter,
// at every static call site (functions nobody calls are vacuous).
func c06NonNeg(p *fw.Program, fn *ssa.Function, env *fw.IntervalEnv, v ssa.Value, b *ssa.BasicBlock, depth int) (bool, string) {
	if c06ProvedNonNeg(env, v, b) {
		return true, ""
	}
	if depth > 5 {
		return false, "call chain too deep"
	}
	switch x := v.(type) {
	case *ssa.Convert:
		if isIntT(x.Type()) && isIntT(x.X.Type()) {
			if isUnsignedT(x.X.Type()) && sizeofInt(x.X.Type()) < sizeofInt(x.Type()) {
				return true, ""
			}
			return c06NonNeg(p, fn, env, x.X, b, depth)
		}
	case *ssa.BinOp:
		if x.Op == token.QUO {
			if c, ok := x.Y.(*ssa.Const); ok && c.Value != nil {
				if k, exact := constant.Int64Val(constant.ToInt(c.Value)); exact && k > 0 {
					return c06NonNeg(p, fn, env, x.X, b, depth)
				}
			}
		}
	case *ssa.Call:
		if cal := x.Common().StaticCallee(); cal != nil {
			switch {
			case cal.String() == fw.Mod+"/pkg/bitio.BitsByteCount":
				return c06NonNeg(p, fn, env, x.Common().Args[0], b, depth)
			case c06IsIndexFn(cal):
				pv := env.Poly.Of(v)
				if env.Poly.Proves(b, fw.Cmp{P: pv.Add(fw.PConst(1)), Rel: fw.NE}) || env.Poly.Proves(b, fw.Cmp{P: pv.Add(fw.PConst(1)), Rel: fw.GT}) {
					return true, ""
				}
				return false, "the not-found result -1 of " + cal.Name() + " is not excluded"
			}
		}
	}
	// captured variables: by value (FreeVar) or by reference (load of a FreeVar bound to a local of the parent)
	if fv, ok := v.(*ssa.FreeVar); ok && fn.Parent() != nil {
		vals, sites := freeVarBindings(fn, fv)
		if len(vals) == 0 {
			return false, "captured variable with unknown binding"
		}
		for i, bv := range vals {
			if ok, why := c06NonNeg(p, fn.Parent(), newC13Env(fn.Parent()), bv, sites[i].Block(), depth+1); !ok {
				return false, why
			}
		}
		return true, ""
	}
	if ld, ok := v.(*ssa.UnOp); ok && ld.Op == token.MUL {
		var cell *ssa.Alloc
		owner := fn
		switch a := ld.X.(type) {
		case *ssa.FreeVar:
			vals, _ := freeVarBindings(fn, a)
			if len(vals) == 1 && fn.Parent() != nil {
				cell, _ = vals[0].(*ssa.Alloc)
				owner = fn.Parent()
			}
		case *ssa.Alloc:
			cell = a
		}
		if cell != nil && cell.Referrers() != nil && isIntT(ld.Type()) {
			n := 0
			for _, rf := range *cell.Referrers() {
				switch y := rf.(type) {
				case *ssa.Store:
					if y.Addr != ssa.Value(cell) {
						return false, "address of the variable escapes"
					}
					n++
					if ok, why := c06NonNeg(p, owner, newC13Env(owner), y.Val, y.Block(), depth+1); !ok {
						return false, why
					}
				case *ssa.MakeClosure:
					for _, sib := range owner.AnonFuncs {
						if len(storesThroughFreeVar(sib, cell)) > 0 {
							return false, "captured variable is assigned inside a closure"
						}
					}
				case *ssa.UnOp, *ssa.DebugRef:
				default:
					return false, "address of the variable escapes"
				}
			}
			if n > 0 {
				return true, ""
			}
		}
	}
	if par := paramOf(fn, env, v, needNonNeg); par != nil {
		idx := -1
		for i, pa := range fn.Params {
			if pa == par {
				idx = i
			}
		}
		for _, c := range callersOf(p, fn) {
			args := c.Common().Args
			if idx < 0 || idx >= len(args) {
				return false, "argument missing at a call site"
			}
			caller := c.Parent()
			cenv := newC13Env(caller)
			if ok, why := c06NonNeg(p, caller, cenv, args[idx], c.Block(), depth+1); !ok {
				if why == "" {
					why = "call site in " + fw.ShortFn(caller) + " passes " + cenv.Poly.Of(args[idx]).String()
				}
				return false, why
			}
		}
		return true, ""
	}
	return false, ""
}

// c06IsIndexFn: bytes/strings Index*/LastIndex* (result -1 means not found).
func c06IsIndexFn(f *ssa.Function) bool {
	if f.Pkg == nil || f.Signature.Recv() != nil {
		return false
	}
	pp := f.Pkg.Pkg.Path()
	if pp != "bytes" && pp != "strings" {
		return false
	}
	if !(strings.HasPrefix(f.Name(), "Index") || strings.HasPrefix(f.Name(), "LastIndex")) {
		return false
	}
	res := f.Signature.Results()
	return res.Len() == 1 && types.Identical(res.At(0).Type(), types.Typ[types.Int])
}

// ---------------------------------------------------------------------------
// mechanised preconditions of two api-misuse exceptions of C06.panic

func init() {
	panicExceptionChecks["pkg/bitio.Read64|string|fmt.Sprintf:nBits must be 0-64 (%d)"] = c06Read64CallersBound
	panicExceptionChecks["pkg/bitio.ReverseBytes64|string|fmt.Sprintf:unsupported bit length %d"] = c06ReverseBytesAfterRead
}

// c06Read64CallersBound: every call of bitio.Read64 in pkg/decode and format/** passes a bit count that is
// a constant in [0,64] or is proved inside [0,64] at the call (the decoder-controlled width of d.U(n) ends
// here: TryUintBits must reject it before).
func c06Read64CallersBound(p *fw.Program, pn *ssa.Panic) string {
	target := pn.Parent()
	n := 0
	for _, fn := range p.FqFunctions() {
		pr := pkgRel(fn)
		if pr != "pkg/decode" && !strings.HasPrefix(pr, "format") {
			continue
		}
		var env *fw.IntervalEnv
		for _, c := range fw.CallsIn(fn) {
			if c.Common().StaticCallee() != target || len(c.Common().Args) < 3 {
				continue
			}
			n++
			a := c.Common().Args[2]
			if env == nil {
				env = fw.NewIntervalEnv(fn)
			}
			iv := c06At(env, a, c.Block())
			if iv.LoInf || iv.HiInf || iv.Lo < 0 || iv.Hi > 64 {
				return fmt.Sprintf("%s calls Read64 with a bit count in [%s,%s] (%s)", fw.ShortFn(fn), loStr(iv), hiStr(iv), p.Rel(c.Pos()))
			}
		}
	}
	if n == 0 {
		return "no call of Read64 in pkg/decode found"
	}
	return ""
}

// c06ReverseBytesAfterRead: every call of bitio.ReverseBytes64(nBits, _) in pkg/decode is dominated by a
// call of (*D).TryUintBits with the same bit count (which rejects counts above 64), or passes a constant.
func c06ReverseBytesAfterRead(p *fw.Program, pn *ssa.Panic) string {
	target := pn.Parent()
	try := p.Fn("(*pkg/decode.D).TryUintBits")
	if try == nil {
		return "(*decode.D).TryUintBits not found"
	}
	// TryUintBits itself rejects counts above 64 before doing anything else
	tenv := fw.NewIntervalEnv(try)
	okTry := false
	for _, c := range fw.CallsIn(try) {
		if cal := c.Common().StaticCallee(); cal != nil && cal.Name() == "TryBits" && len(c.Common().Args) > 1 {
			iv := c06At(tenv, c.Common().Args[1], c.Block())
			okTry = !iv.HiInf && iv.Hi <= 64 && !iv.LoInf && iv.Lo >= 0
		}
	}
	if !okTry {
		return "TryUintBits does not bound its bit count to [0,64] before reading"
	}
	for _, fn := range p.FqFunctions() {
		if pkgRel(fn) != "pkg/decode" {
			continue
		}
		for _, c := range fw.CallsIn(fn) {
			if c.Common().StaticCallee() != target {
				continue
			}
			a := c.Common().Args[0]
			if k, ok := a.(*ssa.Const); ok && k.Value != nil && k.Int64() >= 0 && k.Int64() <= 64 {
				continue
			}
			dominated := false
			for _, c2 := range fw.CallsIn(fn) {
				if c2.Common().StaticCallee() == try && len(c2.Common().Args) > 1 && c2.Common().Args[1] == a && precedesOnAllPaths(c2, c) {
					dominated = true
				}
			}
			if !dominated {
				return fw.ShortFn(fn) + " calls ReverseBytes64 with a bit count that no preceding TryUintBits accepted (" + p.Rel(c.Pos()) + ")"
			}
		}
	}
	return ""
}

// ---------------------------------------------------------------------------
// C06.recover (continued): the failure primitives

// c06FailPrimitives: D.Fatalf and D.IOPanic never return (every guard of a fault site relies on it), and
// D.Errorf panics exactly when Options.Force is false.
func c06FailPrimitives(r *fw.Run, p *fw.Program) {
	ru := r.Rule("C06.recover", "", 7)
	for _, n := range []string{"Fatalf", "IOPanic"} {
		fn := p.Fn("(*pkg/decode.D)." + n)
		if fn == nil {
			ru.Undecided("api:"+n, "", "(*decode.D)."+n+" not found")
			continue
		}
		ru.Check(fw.CurrentNR != nil && fw.CurrentNR.Is(fn), "api:"+n+":noreturn", p.Rel(fn.Pos()), "never returns", "(*decode.D)."+n+" can return: every validity test in the decoders that fails through it no longer stops the decode (the guarded index / allocation runs with the rejected value)")
	}
	ef := p.Fn("(*pkg/decode.D).Errorf")
	if ef == nil {
		ru.Undecided("api:Errorf", "", "(*decode.D).Errorf not found")
		return
	}
	// the panic of Errorf is guarded by Options.Force == false only
	okE := false
	why := "no panic in Errorf"
	fw.EachInstr(ef, func(ins ssa.Instruction) {
		pn, ok := ins.(*ssa.Panic)
		if !ok {
			return
		}
		gs := fw.Guards(pn.Block())
		if len(gs) != 1 {
			why = fmt.Sprintf("the panic of Errorf is under %d conditions (expected exactly: !d.Options.Force)", len(gs))
			return
		}
		g := gs[0].Normalize()
		ld, isLd := g.Cond.(*ssa.UnOp)
		if !isLd || g.True {
			why = "the panic of Errorf is not under !d.Options.Force"
			return
		}
		if fa, isFA := ld.X.(*ssa.FieldAddr); isFA && fieldNameOf(fa.X.Type(), fa.Field) == "Force" {
			okE = true
		} else {
			why = "the panic of Errorf is not under !d.Options.Force"
		}
	})
	ru.Check(okE, "api:Errorf:force", p.Rel(ef.Pos()), "panics exactly when Options.Force is false", why+": without force a reported decode error must stop the decoder")
}
