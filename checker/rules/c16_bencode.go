package rules

import (
	"fmt"
	"go/constant"
	"go/token"

	"golang.org/x/tools/go/ssa"

	"fqverif/fw"
)

// bencode: i<base10>e, <len>:<bytes>, l...e, d...e
func (x *c16) bencode() *c16Format {
	f := &c16Format{Name: "bencode", Pkg: "format/bencode", Syms: map[string]map[string]bool{"type": {}}}
	rs := x.r.Rule("C16.bencode.scan", "bencode: the decimal scanner looks for its terminator within at least 21 bytes (sign + 19 digits + terminator), fails when it is absent, reads exactly the bytes before it and parses base 10 into 64 bits", 6)
	rr := x.r.Rule("C16.bencode.row", "bencode: every leading character '0'..'9','i','l','d' has a case and a Sym; strings re-read the first digit, scan the length up to ':' and read length bytes; integers scan up to 'e'; lists/dictionaries decode values / key-value pairs until 'e' and consume it; anything else is fatal", 8)

	root := x.decodeRootOf(f.Pkg)
	if root == nil {
		rr.Undecided("anchor", "", "format/bencode has no resolvable DecodeFn root")
		return f
	}
	f.PkgFields = x.pkgFields(f.Pkg)
	var valFn *ssa.Function
	for _, c := range fw.CallsIn(root) {
		if cal := c.Common().StaticCallee(); cal != nil && pkgRel(cal) == f.Pkg {
			valFn = cal
		}
	}
	if valFn == nil {
		rr.Undecided("anchor:value", x.p.Rel(root.Pos()), "value decoder not found")
		return f
	}
	vpos := x.p.Rel(valFn.Pos())
	e := newC16Eval()
	head := x.opsIn(valFn.Blocks[:1], e)
	hrd := c16Reads(head)
	if len(hrd) != 1 {
		rr.Undecided("type", vpos, "expected exactly one read (the type character) at the start of "+valFn.Name())
		return f
	}
	typ := hrd[0]
	rr.Check(typ.Kind == "UTF8" && typ.Bits.eq(linC(8)) && typ.Field == "type", "type", vpos, "one-byte type field", fmt.Sprintf("type is read as %s(%s) named %q", typ.Kind, typ.Bits, typ.Field))
	symOf := map[string]string{}
	if g := c16MapperGlobal(typ.Call); g != nil {
		rows, _ := x.globalMapRows(g)
		for _, row := range rows {
			if s, ok := c16Sym(row); ok && row.Key.Kind() == constant.String {
				symOf[constant.StringVal(row.Key)] = s
				f.Syms["type"][s] = true
			}
		}
	}
	if len(symOf) == 0 {
		rr.Undecided("type:mapper", vpos, "type field has no package-level string map mapper")
		return f
	}
	fl := c16Facts(valFn, nil)
	cases := c16CaseConsts(valFn, typ.Call)
	q := func(s string) string { return constant.MakeString(s).ExactString() }
	digits := map[string]bool{}
	for c := '0'; c <= '9'; c++ {
		s := string(c)
		digits[q(s)] = true
		_, hasCase := cases[q(s)]
		rr.Check(hasCase && symOf[s] != "", "lead:"+s, vpos, "case and Sym present", "leading character '"+s+"' has no case or no Sym: strings whose length starts with it fail to decode or cannot be routed by torepr")
	}
	type armSpec struct {
		ch, class string
	}
	scanners := map[*ssa.Function]int64{} // scanner constructor closure -> terminator
	for _, a := range []armSpec{{"0", "scalar"}, {"i", "scalar"}, {"l", "array"}, {"d", "map"}} {
		key := "arm:" + a.ch
		set := map[string]bool{q(a.ch): true}
		if a.ch == "0" {
			set = digits
		} else {
			_, hasCase := cases[q(a.ch)]
			if !hasCase || symOf[a.ch] == "" {
				rr.Fail(key, vpos, "leading character '"+a.ch+"' has no case or no Sym")
				continue
			}
		}
		arm := fl.armBlocks(typ.Call, set)
		ae := newC16Eval()
		ops := x.opsIn(arm, ae)
		msg := ""
		rd := c16Reads(ops)
		fns := c16Find(ops, "Fn")
		scan := func(o c16Op, term int64) string {
			if len(o.Args) < 2 {
				return "scanner missing"
			}
			call, ok := o.Args[1].(*ssa.Call)
			if !ok || call.Common().StaticCallee() == nil || len(call.Common().Args) != 1 {
				return "length/value is not produced by a scanner constructor call"
			}
			t, ok := c16ConstInt(call.Common().Args[0])
			if !ok || t != term {
				return fmt.Sprintf("scanner terminator is %d, expected %q", t, rune(term))
			}
			rsf := closuresReturnedBy(call.Common().StaticCallee())
			if len(rsf) != 1 {
				return "scanner constructor does not return one closure"
			}
			scanners[rsf[0]] = term
			return ""
		}
		assertIs := func(o c16Op, s string) bool {
			// the mapper d.StrAssert("s"). The byte is already known to be s (the scanner stops in
			// front of its terminator, the container loop leaves only in front of 'e'), so the
			// assertion is optional; one that asserts something else rejects every input.
			asserted := false
			for _, m := range c16Mappers(o.Call) {
				if c, ok := m.(*ssa.Call); ok && c.Common().StaticCallee() != nil && c.Common().StaticCallee().Name() == "StrAssert" {
					asserted = true
					for _, v := range c16Mappers(c) {
						if cs, ok := constString(v); ok && cs == s {
							return true
						}
					}
				}
			}
			return !asserted
		}
		switch a.ch {
		case "0":
			seeks := c16Find(ops, "Seek")
			switch {
			case len(seeks) != 1 || !seeks[0].Bits.eq(linC(-8)):
				msg = "the first length digit (already read as type) is not re-read with SeekRel(-8)"
			case len(fns) != 1 || len(rd) != 2:
				msg = "expected scanned length, separator, value; found " + c16OpsStr(ops)
			default:
				ae.bind[fns[0].Call] = linA("$len")
				if m := scan(fns[0], ':'); m != "" {
					msg = m
				} else if !(rd[0].Kind == "UTF8" && rd[0].Bits.eq(linC(8)) && assertIs(rd[0], ":")) {
					msg = "separator is not one byte (asserted, if at all, to be \":\")"
				} else if got := ae.lin(rd[1].Call.Common().Args[2]).mulC(8); rd[1].Kind != "UTF8" || rd[1].Field != "value" || !got.eq(linA("$len").mulC(8)) {
					msg = "value is not `length` bytes named value (" + got.String() + " bits)"
				}
			}
		case "i":
			switch {
			case len(fns) != 1 || fns[0].Field != "value" || len(rd) != 1:
				msg = "expected scanned integer named value then end; found " + c16OpsStr(ops)
			default:
				if m := scan(fns[0], 'e'); m != "" {
					msg = m
				} else if !(rd[0].Kind == "UTF8" && rd[0].Bits.eq(linC(8)) && assertIs(rd[0], "e")) {
					msg = "integer end is not one byte (asserted, if at all, to be \"e\")"
				}
			}
		case "l", "d":
			arrs := c16Find(ops, "Array")
			switch {
			case len(arrs) != 1 || len(rd) != 1:
				msg = "expected one array then the end byte; found " + c16OpsStr(ops)
			case !(rd[0].Kind == "UTF8" && rd[0].Bits.eq(linC(8)) && assertIs(rd[0], "e")):
				msg = "container end is not one byte (asserted, if at all, to be \"e\")"
			default:
				cl := c16FnArg(arrs[0], 1)
				if cl == nil {
					msg = "element closure unresolvable"
					break
				}
				// loop: while Peek(8) != 'e'
				okLoop := false
				var body []*ssa.BasicBlock
				fw.EachInstr(cl, func(ins ssa.Instruction) {
					ifi, ok := ins.(*ssa.If)
					if !ok {
						return
					}
					bo, ok := ifi.Cond.(*ssa.BinOp)
					if !ok {
						return
					}
					call, ok := bo.X.(*ssa.Call)
					if !ok {
						return
					}
					o, ok := x.op(call, newC16Eval())
					c, isC := c16ConstInt(bo.Y)
					if !ok || o.Kind != "Peek" || !isC || c != 'e' || len(o.Args) == 0 {
						return
					}
					if w, ok := c16ConstInt(o.Args[0]); !ok || w != 8 {
						return
					}
					cont := 0
					if bo.Op == token.EQL {
						cont = 1
					} else if bo.Op != token.NEQ {
						return
					}
					if c16Reaches(ifi.Block().Succs[cont], ifi.Block()) && !c16Reaches(ifi.Block().Succs[1-cont], ifi.Block()) {
						okLoop = true
						for _, b := range cl.Blocks {
							if b != ifi.Block() && c16Reaches(b, ifi.Block()) && c16Reaches(ifi.Block(), b) {
								body = append(body, b)
							}
						}
					}
				})
				if !okLoop {
					msg = "element loop does not run until the next byte is 'e'"
				} else {
					msg = x.perIteration(body, ae, a.ch == "d", valFn)
				}
			}
		}
		pos := vpos
		if len(arm) > 0 && len(arm[0].Instrs) > 0 {
			pos = x.p.Rel(arm[0].Instrs[0].Pos())
		}
		rr.Check(msg == "", key, pos, "agrees with the bencoding grammar", "values starting with '"+a.ch+"': "+msg)
		prod := c16Fields(ops)
		for k := range c16Fields(head) {
			prod[k] = true
		}
		f.Rows = append(f.Rows, c16GoRow{Key: key, Attrs: map[string]string{"type": symOf[a.ch]}, Class: a.class, Produced: prod, Pos: pos})
	}
	// default is fatal: some block knows typ differs from every case and is cut
	defFatal := false
	for _, b := range valFn.Blocks {
		if fw.CurrentNR == nil || fw.CurrentNR.CutIndex(b) < 0 {
			continue
		}
		all := len(fl.At(b)) > 0
		for _, fs := range fl.At(b) {
			for _, ef := range fs.eqFacts() {
				if ef.Eq && c16Origin(ef.X) == ssa.Value(typ.Call) {
					all = false
				}
			}
		}
		if all {
			defFatal = true
		}
	}
	rr.Check(defFatal, "arm:default", vpos, "unknown leading character is fatal", "an unknown leading character is not a decode error")

	// the scanner
	if len(scanners) == 0 {
		rs.Undecided("anchor", vpos, "no decimal scanner resolved from the string/integer arms")
		return f
	}
	for sc := range scanners {
		x.bencodeScanner(rs, sc)
		break
	}
	return f
}

func (x *c16) bencodeScanner(rs *fw.Rule, sc *ssa.Function) {
	pos := x.p.Rel(sc.Pos())
	e := newC16Eval()
	var peek *c16Op
	var ops []c16Op
	for _, o := range x.opsOfFn(sc, e) {
		o := o
		ops = append(ops, o)
		if o.Name == "PeekFindByte" {
			peek = &o
			e.bind[o.Call] = linA("$i")
		}
	}
	if peek == nil || len(peek.Args) != 2 {
		rs.Undecided("scan:window", pos, "PeekFindByte call not found in the scanner")
		return
	}
	w, isC := c16ConstInt(peek.Args[1])
	// sign + 19 digits (|int64 min| = 9223372036854775808) + terminator
	rs.Check(isC && w >= 21, "scan:window", x.p.Rel(peek.Call.Pos()), fmt.Sprintf("window %d bytes", w), fmt.Sprintf("scan window is %d bytes; a 64-bit integer needs 21 (sign, 19 digits, terminator): large negative integers fail to decode", w))
	// terminator is the constructor's parameter
	termOK := false
	if src := c16Origin(peek.Args[0]); src != nil {
		if _, ok := src.(*ssa.Parameter); ok {
			termOK = true
		}
	}
	rs.Check(termOK, "scan:terminator", x.p.Rel(peek.Call.Pos()), "searches for the constructor's terminator", "the scanner does not search for the terminator it was constructed with")
	fl := c16Facts(sc, nil)
	var utf *c16Op
	for _, o := range ops {
		o := o
		if o.Kind == "UTF8" {
			utf = &o
		}
	}
	if utf == nil {
		rs.Fail("scan:text", pos, "scanner does not read the digits")
		return
	}
	got := e.lin(utf.Call.Common().Args[1]).mulC(8)
	rs.Check(got.eq(linA("$i").mulC(8)), "scan:text", x.p.Rel(utf.Call.Pos()), "reads exactly the bytes before the terminator", "digits read are "+got.String()+" bits, expected 8*index of the terminator")
	guarded := len(fl.At(utf.Call.Block())) > 0
	for _, fs := range fl.At(utf.Call.Block()) {
		if !fs.knowsNe(peek.Call, -1) {
			guarded = false
		}
	}
	rs.Check(guarded, "scan:notfound", x.p.Rel(utf.Call.Pos()), "missing terminator is fatal", "a missing terminator (index -1) is not a decode error before the digits are read")
	// ParseInt(s, 10, 64), error fatal, result returned
	var parse *ssa.Call
	for _, c := range fw.CallsIn(sc) {
		if cal := c.Common().StaticCallee(); cal != nil && cal.String() == "strconv.ParseInt" {
			parse, _ = c.(*ssa.Call)
		}
	}
	if parse == nil {
		rs.Fail("scan:parse", pos, "digits are not parsed with strconv.ParseInt")
		return
	}
	b, ok1 := c16ConstInt(parse.Common().Args[1])
	bits, ok2 := c16ConstInt(parse.Common().Args[2])
	rs.Check(ok1 && ok2 && b == 10 && bits == 64 && parse.Common().Args[0] == ssa.Value(utf.Call), "scan:parse", x.p.Rel(parse.Pos()), "ParseInt(text, 10, 64)", fmt.Sprintf("digits parsed with base %d into %d bits (or not the scanned text)", b, bits))
	retOK := true
	nret := 0
	for _, blk := range sc.Blocks {
		ret, ok := blk.Instrs[len(blk.Instrs)-1].(*ssa.Return)
		if !ok {
			continue
		}
		nret++
		ex, ok := ret.Results[0].(*ssa.Extract)
		if !ok || ex.Tuple != ssa.Value(parse) || ex.Index != 0 {
			retOK = false
		}
		for _, fs := range fl.At(blk) {
			errNil := false
			for v, pol := range fs.facts {
				bo, ok := v.(*ssa.BinOp)
				if !ok {
					continue
				}
				if ex2, ok := bo.X.(*ssa.Extract); ok && ex2.Tuple == ssa.Value(parse) && ex2.Index == 1 && isNilConst(bo.Y) {
					if (bo.Op == token.NEQ && !pol) || (bo.Op == token.EQL && pol) {
						errNil = true
					}
				}
			}
			if !errNil {
				retOK = false
			}
		}
	}
	rs.Check(retOK && nret > 0, "scan:result", pos, "returns the parsed number, parse error is fatal", "the scanner can return without a successful ParseInt (error ignored or another value returned)")
}
