package rules

import (
	"strings"

	"golang.org/x/tools/go/ssa"

	"fqverif/fw"
)

// ---------------------------------------------------------------------------
// C17.open: what cannot be read fails in `open`, where it is an input i/o error (exit 2)
//
// `_open` (behind open/input) is where an unreadable input must fail: its error is what init.jq's input
// loop files under _input_io_errors (exit code 2) before going on with the next input. It hands out the
// file itself (read lazily, later, from inside decode or the program) only for what stat calls a regular
// file; everything else (a directory, a pipe, a device) is read completely here, so that its read error
// is an open error. Obligations on (*Interp)._open:
//   lazy-only-regular   the reader built directly on the opened file (ctxreadseeker.New over the file's own
//                       io.ReadSeeker) is created only under fFI.Mode().IsRegular() of the file's own Stat
//   eager-error         the error of the read-everything fallback is returned from _open
//   stat-error          the error of Stat is returned from _open

func c17Open(m *c17Model) {
	ru := m.r.Rule("C17.open", "(*Interp)._open hands out a lazily read file only when the file's own Stat says it is regular (a directory or device would fail later, inside decode, as a decode error or a crash instead of exit 2); everything else is read completely inside _open and the read error and the Stat error are returned from it, which is what makes an unreadable input an input i/o error that the remaining inputs survive", 3)
	fn := m.p.Fn("(*pkg/interp.Interp)._open")
	if fn == nil {
		ru.Undecided("anchor", "", "(*pkg/interp.Interp)._open not found")
		return
	}
	isCall := func(v ssa.Value, suffix string) *ssa.Call {
		c, ok := v.(*ssa.Call)
		if !ok {
			return nil
		}
		if cal := c.Common().StaticCallee(); cal != nil && strings.HasSuffix(cal.String(), suffix) {
			return c
		}
		if c.Common().IsInvoke() && "."+c.Common().Method.Name() == suffix {
			return c
		}
		return nil
	}
	// the file value: result of FS().Open / Stdin(); its Stat call
	var statCalls []*ssa.Call
	fw.EachInstr(fn, func(ins ssa.Instruction) {
		if c, ok := ins.(*ssa.Call); ok && c.Common().IsInvoke() && c.Common().Method.Name() == "Stat" {
			statCalls = append(statCalls, c)
		}
	})
	if len(statCalls) != 1 {
		ru.Undecided("anchor:stat", m.p.Rel(fn.Pos()), "expected exactly one Stat call in _open")
		return
	}
	stat := statCalls[0]
	fileV := stat.Common().Value
	// values derived from the file by type assertion (possibly through phis)
	var fromFile func(v ssa.Value, depth int) bool
	fromFile = func(v ssa.Value, depth int) bool {
		if depth > 6 {
			return false
		}
		if v == fileV {
			return true
		}
		switch x := v.(type) {
		case *ssa.TypeAssert:
			return fromFile(x.X, depth+1)
		case *ssa.Extract:
			return fromFile(x.Tuple, depth+1)
		case *ssa.ChangeInterface:
			return fromFile(x.X, depth+1)
		case *ssa.MakeInterface:
			return fromFile(x.X, depth+1)
		case *ssa.Phi:
			// the file variable itself is a phi of Open / Stdin
			if pv, ok := fileV.(*ssa.Phi); ok && pv == x {
				return true
			}
		}
		return false
	}
	// regular-file guard: Guards contain a call of (fs.FileMode).IsRegular on Mode() of stat's result, true
	regularAt := func(b *ssa.BasicBlock) bool {
		for _, g := range fw.Guards(b) {
			g = g.Normalize()
			c := isCall(g.Cond, "FileMode).IsRegular")
			if c == nil || !g.True || len(c.Common().Args) != 1 {
				continue
			}
			mode := c.Common().Args[0]
			mc, ok := mode.(*ssa.Call)
			if !ok || !mc.Common().IsInvoke() || mc.Common().Method.Name() != "Mode" {
				continue
			}
			if ex, ok := mc.Common().Value.(*ssa.Extract); ok && ex.Tuple == ssa.Value(stat) && ex.Index == 0 {
				return true
			}
		}
		return false
	}
	n := 0
	fw.EachInstr(fn, func(ins ssa.Instruction) {
		c, ok := ins.(*ssa.Call)
		if !ok {
			return
		}
		cal := c.Common().StaticCallee()
		if cal == nil || !strings.HasSuffix(cal.String(), "internal/ctxreadseeker.New") || len(c.Common().Args) < 2 {
			return
		}
		if !fromFile(c.Common().Args[1], 0) {
			return
		}
		n++
		ru.Check(regularAt(c.Block()), "lazy-only-regular", m.p.Rel(c.Pos()), "the reader over the opened file itself is created under Stat().Mode().IsRegular()", "the opened file is handed out for lazy reading without the file's own Stat saying it is a regular file: a directory (seekable on Linux) or a device is accepted by open and fails later inside decode, as a decode error (exit 4) or a crash instead of an input i/o error (exit 2), and inputs after it are not processed")
	})
	if n == 0 {
		ru.Undecided("lazy-only-regular", m.p.Rel(fn.Pos()), "no reader is built directly over the opened file (anchor moved)")
	}
	// errors of Stat and of io.ReadAll are returned
	var reachesReturn func(v ssa.Value, depth int) bool
	reachesReturn = func(v ssa.Value, depth int) bool {
		if depth > 5 || v.Referrers() == nil {
			return false
		}
		for _, rf := range *v.Referrers() {
			switch u := rf.(type) {
			case *ssa.Return:
				return true
			case *ssa.MakeInterface:
				if reachesReturn(u, depth+1) {
					return true
				}
			case *ssa.ChangeInterface:
				if reachesReturn(u, depth+1) {
					return true
				}
			case *ssa.Phi:
				if reachesReturn(u, depth+1) {
					return true
				}
			}
		}
		return false
	}
	retErr := func(call *ssa.Call, idx int) bool {
		if call.Referrers() == nil {
			return false
		}
		for _, rf := range *call.Referrers() {
			if ex, ok := rf.(*ssa.Extract); ok && ex.Index == idx && reachesReturn(ex, 0) {
				return true
			}
		}
		return false
	}
	ru.Check(retErr(stat, 1), "stat-error", m.p.Rel(stat.Pos()), "the Stat error is returned", "the error of Stat on the opened file is not returned from _open")
	var readAll *ssa.Call
	fw.EachInstr(fn, func(ins ssa.Instruction) {
		if c := isCallIns(ins, "io.ReadAll"); c != nil {
			readAll = c
		}
	})
	if readAll == nil {
		ru.Fail("eager-error", m.p.Rel(fn.Pos()), "_open no longer reads a non-regular input completely (io.ReadAll): its read errors surface later, outside open")
	} else {
		ru.Check(retErr(readAll, 1), "eager-error", m.p.Rel(readAll.Pos()), "the error of reading a non-regular input completely is returned", "the error of io.ReadAll is not returned from _open: an unreadable input (a directory) is opened as an empty or truncated input")
	}
}

func isCallIns(ins ssa.Instruction, name string) *ssa.Call {
	c, ok := ins.(*ssa.Call)
	if !ok {
		return nil
	}
	if cal := c.Common().StaticCallee(); cal != nil && cal.String() == name {
		return c
	}
	return nil
}
