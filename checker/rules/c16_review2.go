package rules

// C16, round 4: the xml namespace scope stack (push and lookup must agree on which end is the
// innermost scope, and on which field holds the URI / the prefix) and the content of an asn1 REAL
// (X.690 8.5.7: layout of the first octet, the number of exponent octets per format value).

import (
	"fmt"
	"go/constant"
	"go/token"
	"go/types"
	"sort"
	"strings"

	"golang.org/x/tools/go/ssa"

	"fqverif/fw"
)

// c16Src resolves a value read out of a struct to (root, field path): loads of field addresses,
// Field projections and copies through single-store locals (`ns := nss[i]`, `a := range ...`).
// root is the IndexAddr of an element, a Parameter, or whatever the walk stops at.
func c16Src(v ssa.Value) (ssa.Value, []string) {
	return c16SrcD(v, 0)
}

func c16SrcD(v ssa.Value, depth int) (ssa.Value, []string) {
	if depth > 12 {
		return v, nil
	}
	switch x := v.(type) {
	case *ssa.UnOp:
		if x.Op == token.MUL {
			return c16SrcAddr(x.X, depth+1)
		}
	case *ssa.Field:
		r, p := c16SrcD(x.X, depth+1)
		return r, append(p, fieldNameOf(x.X.Type(), x.Field))
	case *ssa.ChangeType:
		return c16SrcD(x.X, depth+1)
	}
	return v, nil
}

func c16SrcAddr(a ssa.Value, depth int) (ssa.Value, []string) {
	if depth > 12 {
		return a, nil
	}
	switch x := a.(type) {
	case *ssa.FieldAddr:
		r, p := c16SrcAddr(x.X, depth+1)
		return r, append(p, fieldNameOf(x.X.Type(), x.Field))
	case *ssa.Alloc:
		if v := c16CellValue(x); v != nil {
			return c16SrcD(v, depth+1)
		}
	case *ssa.FreeVar:
		if b := c16FreeVarBinding(x); b != nil {
			return c16SrcAddr(b, depth+1)
		}
	}
	return a, nil
}

func c16IsNamed(t types.Type, pkg, name string) bool {
	if p, ok := t.(*types.Pointer); ok {
		t = p.Elem()
	}
	n, ok := t.(*types.Named)
	return ok && n.Obj().Name() == name && n.Obj().Pkg() != nil && n.Obj().Pkg().Path() == pkg
}

// xmlNS: encoding/xml resolves prefixes to namespace URIs; fq's decoder maps the URI back to the
// prefix the document used through a stack of the xmlns declarations in scope. XML Namespaces
// 1.0 section 6.1: the innermost declaration of a URI/prefix wins.
func (x *c16) xmlNS() {
	ru := x.r.Rule("C16.xml.ns", "xml: the namespace scope stack: every xmlns declaration is pushed as (prefix = attribute local name or \"\", uri = attribute value), push stores them in the fields lookup reads (uri compared with Name.Space, prefix returned) and lookup visits the stack from the end push adds to (innermost scope first)", 7)
	const rel = "format/xml"
	var push, lookup *ssa.Function
	nPush, nLookup := 0, 0
	for fn := range x.p.AllFns {
		if pkgRel(fn) != rel || fn.Signature.Recv() == nil || fn.Synthetic != "" {
			continue
		}
		rt := fn.Signature.Recv().Type()
		sl, ok := rt.Underlying().(*types.Slice)
		if !ok {
			continue
		}
		if _, ok := sl.Elem().Underlying().(*types.Struct); !ok {
			continue
		}
		ps, rs := fn.Signature.Params(), fn.Signature.Results()
		switch {
		case ps.Len() == 1 && rs.Len() == 1 && c16IsNamed(ps.At(0).Type(), "encoding/xml", "Name") && c16IsString(rs.At(0).Type()):
			lookup = fn
			nLookup++
		case ps.Len() == 2 && rs.Len() == 1 && c16IsString(ps.At(0).Type()) && c16IsString(ps.At(1).Type()) && types.Identical(rs.At(0).Type(), rt):
			push = fn
			nPush++
		}
	}
	if nPush != 1 || nLookup != 1 || !types.Identical(push.Signature.Recv().Type(), lookup.Signature.Recv().Type()) {
		ru.Undecided("anchor", rel, fmt.Sprintf("expected one scope-stack type with push(string, string) and lookup(xml.Name) string in %s, found %d / %d", rel, nPush, nLookup))
		return
	}

	// (1) call sites of push: which argument is the prefix, which the URI
	prefixArg, uriArg := -1, -1
	type site struct {
		key, pos, msg string
		p, u          int
	}
	var sites []site
	for fn := range x.p.AllFns {
		if pkgRel(fn) != rel {
			continue
		}
		for _, c := range fw.CallsIn(fn) {
			if c.Common().StaticCallee() != push || len(c.Common().Args) != 3 {
				continue
			}
			role := [2]string{}
			for i, a := range c.Common().Args[1:] {
				if s, ok := constString(a); ok && s == "" {
					role[i] = "default"
					continue
				}
				root, path := c16Src(a)
				_ = root
				switch strings.Join(path, ".") {
				case "Value":
					role[i] = "uri"
				case "Name.Local":
					role[i] = "prefix"
				default:
					role[i] = "?" + strings.Join(path, ".")
				}
				if ia, ok := root.(*ssa.IndexAddr); !ok || !c16IsNamed(ia.Type(), "encoding/xml", "Attr") {
					role[i] = "?not an attribute"
				}
			}
			kind := "prefixed"
			if role[0] == "default" || role[1] == "default" {
				kind = "default"
			}
			s := site{key: "push:" + fw.Top(fn).Name() + ":" + kind, pos: x.p.Rel(c.Pos())}
			p, u := -1, -1
			for i, r := range role {
				switch r {
				case "prefix", "default":
					p = i
				case "uri":
					u = i
				}
			}
			s.p, s.u = p, u
			if p < 0 || u < 0 {
				s.msg = fmt.Sprintf("arguments are (%s, %s); expected the attribute's local name (or \"\") and its value", role[0], role[1])
			}
			sites = append(sites, s)
		}
	}
	sort.Slice(sites, func(i, j int) bool { return sites[i].key < sites[j].key })
	// the order most declarations use is the order push is written for (independent of visiting order)
	votes := map[[2]int]int{}
	for _, s := range sites {
		if s.msg == "" {
			votes[[2]int{s.p, s.u}]++
		}
	}
	best, tie := 0, false
	for pu, n := range votes {
		switch {
		case n > best:
			best, tie = n, false
			prefixArg, uriArg = pu[0], pu[1]
		case n == best:
			tie = true
		}
	}
	if tie {
		prefixArg, uriArg = -1, -1
	}
	for i := range sites {
		s := &sites[i]
		if s.msg == "" && (tie || s.p != prefixArg || s.u != uriArg) {
			s.msg = "prefix and URI are passed in the opposite order of the other declarations"
		}
	}
	for _, s := range sites {
		ru.Check(s.msg == "", s.key, s.pos, "(prefix, uri) of the declaration", "xmlns declaration: "+s.msg)
	}
	if len(sites) == 0 || prefixArg < 0 {
		ru.Undecided("push:sites", rel, "no resolvable push call")
		return
	}

	// (2) push: parameter -> field, and the end the new scope is added to
	ppos := x.p.Rel(push.Pos())
	fieldOf := map[int]string{} // explicit parameter index -> field name
	end := ""
	var elemRoot ssa.Value // the local / literal array the new scope entry is built in
	fw.EachInstr(push, func(ins ssa.Instruction) {
		st, ok := ins.(*ssa.Store)
		if !ok {
			return
		}
		fa, ok := st.Addr.(*ssa.FieldAddr)
		if !ok {
			return
		}
		for i, p := range push.Params[1:] {
			if st.Val == ssa.Value(p) {
				fieldOf[i] = fieldNameOf(fa.X.Type(), fa.Field)
				elemRoot, _ = c16AddrPath(fa)
			}
		}
	})
	fromNew := func(v ssa.Value) bool { // the one-element slice holding the new scope
		sl, ok := v.(*ssa.Slice)
		if !ok || elemRoot == nil {
			return false
		}
		arr, ok := sl.X.(*ssa.Alloc)
		if !ok {
			return false
		}
		if at, ok := arr.Type().(*types.Pointer).Elem().Underlying().(*types.Array); !ok || at.Len() != 1 {
			return false
		}
		if ssa.Value(arr) == elemRoot {
			return true
		}
		for _, s := range c16StoresUnder(push, arr) {
			if r, _ := c16Src(s); r == elemRoot {
				return true
			}
		}
		return false
	}
	var app *ssa.Call
	for _, c := range fw.CallsIn(push) {
		call, ok := c.(*ssa.Call)
		if !ok || !fw.IsBuiltinCall(call, "append") || len(call.Common().Args) != 2 {
			continue
		}
		switch {
		case fromNew(call.Common().Args[1]):
			end, app = "back", call
		case fromNew(call.Common().Args[0]):
			end, app = "front", call
		}
	}
	returned := false
	if app != nil {
		fw.EachInstr(push, func(ins ssa.Instruction) {
			if ret, ok := ins.(*ssa.Return); ok && len(ret.Results) == 1 && ret.Results[0] == ssa.Value(app) {
				returned = true
			}
		})
	}
	uriField, prefixField := fieldOf[uriArg], fieldOf[prefixArg]
	switch {
	case uriField == "" || prefixField == "" || uriField == prefixField:
		ru.Fail("push:append", ppos, "push does not store its two parameters into two fields of a new scope entry")
		return
	case end == "" || !returned:
		ru.Fail("push:append", ppos, "push does not return the stack with the new scope appended (or prepended)")
		return
	}
	ru.Ok("push:append", ppos, "new scope stored as ("+prefixField+", "+uriField+") at the "+end)

	// (3) lookup: visiting order
	lpos := x.p.Rel(lookup.Pos())
	recv := ssa.Value(lookup.Params[0])
	e := newC16Eval()
	for _, c := range fw.CallsIn(lookup) {
		if call, ok := c.(*ssa.Call); ok && fw.IsBuiltinCall(call, "len") && len(call.Common().Args) == 1 && call.Common().Args[0] == recv {
			e.bind[call] = linA("$len")
		}
	}
	dir := ""
	why := "the stack is not indexed in a loop"
	var elems []*ssa.IndexAddr
	fw.EachInstr(lookup, func(ins ssa.Instruction) {
		if ia, ok := ins.(*ssa.IndexAddr); ok && ia.X == recv {
			elems = append(elems, ia)
		}
	})
	for _, c := range fw.CallsIn(lookup) {
		// for ... := range slices.Backward(nss) / slices.All / slices.Values
		cal := c.Common().StaticCallee()
		if cal == nil || len(c.Common().Args) != 1 || c.Common().Args[0] != recv {
			continue
		}
		o := cal
		if cal.Origin() != nil {
			o = cal.Origin()
		}
		if o.Pkg != nil && o.Pkg.Pkg.Path() == "slices" {
			switch o.Name() {
			case "Backward":
				dir = "down"
			case "All", "Values":
				dir = "up"
			}
		}
	}
	for _, ia := range elems {
		d, w := c16VisitOrder(ia.Index, e)
		if d == "" {
			dir, why = "", w
			break
		}
		if dir != "" && dir != d {
			dir, why = "", "the stack is visited in both directions"
			break
		}
		dir = d
	}
	wantDir := map[string]string{"back": "down", "front": "up"}[end]
	switch {
	case dir == "":
		ru.Undecided("lookup:order", lpos, why)
	default:
		ru.Check(dir == wantDir, "lookup:order", lpos, "innermost scope first", fmt.Sprintf("push adds the new (inner) scope at the %s of the stack but lookup visits it %s: when an inner element binds an already bound namespace URI to another prefix, names written with the inner prefix are decoded with the outer one", end, map[string]string{"up": "from the front", "down": "from the back"}[dir]))
	}

	// (4) lookup: the URI field is compared with Name.Space, the prefix field is returned
	elemT := lookup.Signature.Recv().Type().Underlying().(*types.Slice).Elem()
	nested := map[*ssa.Function]bool{}
	for _, f := range fw.WithClosures(lookup) {
		nested[f] = f != lookup
	}
	isElem := func(r ssa.Value) bool {
		switch t := r.(type) {
		case *ssa.IndexAddr:
			return t.X == recv
		case *ssa.Parameter: // the element handed to the body of `range slices.Backward(nss)`
			return nested[t.Parent()] && types.Identical(t.Type(), elemT)
		}
		return false
	}
	cmpOK, cmpSeen := false, false
	for _, lf := range fw.WithClosures(lookup) {
		fw.EachInstr(lf, func(ins ssa.Instruction) {
			bo, ok := ins.(*ssa.BinOp)
			if !ok || (bo.Op != token.EQL && bo.Op != token.NEQ) || !c16IsString(bo.X.Type()) {
				return
			}
			for _, pr := range [][2]ssa.Value{{bo.X, bo.Y}, {bo.Y, bo.X}} {
				r0, p0 := c16Src(pr[0])
				r1, p1 := c16Src(pr[1])
				if r0 == ssa.Value(lookup.Params[1]) && strings.Join(p0, ".") == "Space" && isElem(r1) {
					cmpSeen = true
					cmpOK = len(p1) == 1 && p1[0] == uriField
				}
			}
		})
	}
	retOK, retSeen := true, false
	seen := map[ssa.Value]bool{}
	var walk func(v ssa.Value, d int)
	walk = func(v ssa.Value, d int) {
		if seen[v] || d > 8 {
			return
		}
		seen[v] = true
		switch t := v.(type) {
		case *ssa.Phi:
			for _, ed := range t.Edges {
				walk(ed, d+1)
			}
			return
		case *ssa.Const:
			return
		}
		r, p := c16Src(v)
		if a, ok := r.(*ssa.Alloc); ok && len(p) == 0 {
			// a result variable assigned in several places (also from a loop body closure)
			sts := c16CellStores(a)
			for _, st := range sts {
				walk(st.Val, d+1)
			}
			if len(sts) > 0 {
				return
			}
		}
		if isElem(r) {
			retSeen = true
			if len(p) != 1 || p[0] != prefixField {
				retOK = false
			}
			return
		}
		retOK = false
	}
	fw.EachInstr(lookup, func(ins ssa.Instruction) {
		if ret, ok := ins.(*ssa.Return); ok && len(ret.Results) == 1 {
			walk(ret.Results[0], 0)
		}
	})
	msg := ""
	switch {
	case !cmpSeen:
		msg = "no comparison of the name's Space (the resolved URI) with a field of the scope entries"
	case !cmpOK:
		msg = "the name's Space (the resolved URI) is compared with a field other than ." + uriField + " (where push stores the URI)"
	case !retSeen || !retOK:
		msg = "the result is not the ." + prefixField + " field (where push stores the prefix) of a scope entry"
	}
	ru.Check(msg == "", "lookup:match", lpos, "Space == ."+uriField+" -> ."+prefixField, "lookup: "+msg)
}

// c16VisitOrder: idx indexes a slice inside a loop; returns "down" when the first index visited is
// len-1 and indices decrease, "up" when it is 0 and they increase.
func c16VisitOrder(idx ssa.Value, e *c16Eval) (string, string) {
	// the induction phi idx depends on
	var ph *ssa.Phi
	var find func(v ssa.Value, d int)
	find = func(v ssa.Value, d int) {
		if d > 4 || ph != nil {
			return
		}
		switch t := v.(type) {
		case *ssa.Phi:
			if isInt(t.Type()) {
				ph = t
			}
		case *ssa.BinOp:
			find(t.X, d+1)
			find(t.Y, d+1)
		case *ssa.Convert:
			find(t.X, d+1)
		}
	}
	find(idx, 0)
	if ph == nil || len(ph.Edges) < 2 {
		return "", "the index is not driven by a loop counter"
	}
	ee := newC16EvalFrom(e)
	ee.bind[ph] = linA("$i")
	var start *c16Lin
	var step int64
	hasStep := false
	for _, ed := range ph.Edges {
		l := ee.lin(ed)
		if _, dep := l.T["$i"]; dep {
			d := l.add(linA("$i").mulC(-1))
			c, isC := d.isConst()
			if !isC || c == 0 || (hasStep && c != step) {
				return "", "the loop counter does not advance by a constant"
			}
			step, hasStep = c, true
			continue
		}
		if start != nil && !start.eq(l) {
			return "", "the loop counter has several start values"
		}
		ll := l
		start = &ll
	}
	if start == nil || !hasStep {
		return "", "the loop counter's start or step is not resolvable"
	}
	il := ee.lin(idx)
	a := il.T["$i"]
	if a == 0 {
		return "", "the index does not depend on the loop counter"
	}
	for k := range il.T {
		if strings.HasPrefix(k, "?") {
			return "", "the index expression is not linear"
		}
	}
	// first index visited: substitute the start value for $i
	rest := il.add(linA("$i").mulC(-a))
	first := rest.add(start.mulC(a))
	switch {
	case a*step < 0 && first.eq(linA("$len").add(linC(-1))):
		return "down", ""
	case a*step > 0 && first.eq(linC(0)):
		return "up", ""
	}
	return "", fmt.Sprintf("the stack is visited from index %s in steps of %d: not a full scan from one end", first, a*step)
}

// ---------------------------------------------------------------------------
// asn1 REAL, X.690 8.5.7 (binary encoding)

// asn1Real checks the arm of universal tag 9. First content octet: bit 8 = 1 (binary), bit 7
// sign, bits 6-5 base, bits 4-3 scaling factor, bits 2-1 exponent format: 00/01/10 = 1/2/3
// exponent octets, 11 = the next octet holds the count.
func (x *c16) asn1Real(body *ssa.Function, arm []*ssa.BasicBlock, base *c16FlowOpt) string {
	e := newC16Eval()
	ops := x.opsIn(arm, e)
	rd := c16Reads(ops)
	isK := func(o c16Op, kind string, w int64) bool {
		c, ok := o.Bits.isConst()
		return o.Kind == kind && ok && c == w
	}
	// layout of the first octet on the binary path
	var bin, sign *c16Op
	var u2 []*c16Op
	for i := range rd {
		o := &rd[i]
		switch {
		case isK(*o, "Bool", 1) && bin == nil:
			bin = o
		case isK(*o, "Bool", 1) && sign == nil && len(u2) == 0:
			sign = o
		case isK(*o, "U", 2) && len(u2) < 3:
			u2 = append(u2, o)
		}
	}
	if bin == nil || sign == nil || len(u2) != 3 {
		return "first content octet is not read as binary bit, sign bit, 2-bit base, 2-bit scaling factor, 2-bit exponent format; found " + c16OpsStr(rd)
	}
	// source order of the five reads (same block on today's tree; dominance otherwise)
	seq := []*c16Op{bin, sign, u2[0], u2[1], u2[2]}
	for i := 0; i+1 < len(seq); i++ {
		a, b := seq[i].Call, seq[i+1].Call
		if a.Block() == b.Block() {
			if c16InstrIdx(a) > c16InstrIdx(b) {
				return "the bit fields of the first content octet are read out of order"
			}
		} else if !a.Block().Dominates(b.Block()) {
			return "the bit fields of the first content octet are read out of order"
		}
	}
	format := u2[2]
	// sign and base tables
	if m := c16MapperMap(sign.Call); m != nil {
		rows, _ := c16MapRows(m)
		for _, r := range rows {
			v, ok := c16ConstInt(r.Fields[""])
			if r.Key.Kind() != constant.Bool || !ok {
				continue
			}
			if want := map[bool]int64{true: -1, false: 1}[constant.BoolVal(r.Key)]; v != want {
				return fmt.Sprintf("sign bit %v is mapped to %d, X.690 8.5.7.1 says %d", constant.BoolVal(r.Key), v, want)
			}
		}
	}
	if m := c16MapperMap(u2[0].Call); m != nil {
		rows, _ := c16MapRows(m)
		for _, r := range rows {
			k, ok1 := c16KeyInt(r.Key)
			v, ok2 := c16ConstInt(r.Fields[""])
			if !ok1 || !ok2 {
				continue
			}
			if want, has := map[int64]int64{0: 2, 1: 8, 2: 16}[k]; has && v != want {
				return fmt.Sprintf("base bits %02b are mapped to base %d, X.690 8.5.7.2 says %d", k, v, want)
			}
		}
	}
	// exponent octets
	stable := map[ssa.Value]bool{ssa.Value(format.Call): true}
	for k := range base.Stable {
		stable[k] = true
	}
	fl := c16FactsOpt(body, nil, &c16FlowOpt{Stable: stable, Track: func(cond ssa.Value) bool {
		ef, ok := c16EqOf(cond, true)
		return ok && stable[c16Origin(ef.X)]
	}})
	if fl.Overflow {
		return "too many paths"
	}
	inArm := map[*ssa.BasicBlock]bool{}
	for _, b := range arm {
		inArm[b] = true
	}
	ee := newC16Eval()
	aops := x.opsIn(arm, ee)
	ee.bind[format.Call] = linA("$fmt")
	served := map[int64]bool{}
	nExp := 0
	for _, o := range aops {
		if o.Kind != "S" || !inArm[o.Call.Block()] {
			continue
		}
		// only signed reads that come after the format field
		if !(format.Call.Block() == o.Call.Block() && c16InstrIdx(format.Call) < c16InstrIdx(o.Call)) && !format.Call.Block().Dominates(o.Call.Block()) {
			continue
		}
		nExp++
		var w c16Lin
		if m := c16ReaderRE.FindStringSubmatch(o.Name); m != nil && m[3] != "" {
			w = o.Bits
		} else if len(o.Args) >= 2 {
			w = ee.lin(o.Args[1])
		} else {
			return "exponent read without a width"
		}
		for _, fs := range fl.At(o.Call.Block()) {
			for f := int64(0); f <= 3; f++ {
				if fs.knowsNe(format.Call, f) {
					continue
				}
				served[f] = true
				// the width for this format value
				explicit := false
				got := int64(-1)
				switch {
				case len(w.T) == 0:
					got = w.C
				case len(w.T) == 1 && w.T["$fmt"] != 0:
					got = w.C + w.T["$fmt"]*f
				case len(w.T) == 1 && w.C == 0:
					for k, c := range w.T {
						if c == 8 && strings.HasPrefix(k, "$") && k != "$fmt" {
							explicit = true
						}
					}
				}
				switch {
				case f == 3 && !explicit:
					return "exponent format 11 does not read the octet count and then 8*count bits (width " + w.String() + ")"
				case f < 3 && explicit:
					return fmt.Sprintf("exponent format %02b reads an explicit octet count; it has %d octets", f, f+1)
				case f < 3 && got != 8*(f+1):
					if got < 0 {
						return fmt.Sprintf("exponent format %02b: the exponent width %s is not resolvable; X.690 8.5.7.4 says %d octets", f, w, f+1)
					}
					return fmt.Sprintf("exponent format %02b reads a %d-bit exponent, X.690 8.5.7.4 says %d octets (1, 2, 3: not 1, 2, 4)", f, got, f+1)
				}
			}
		}
	}
	if nExp == 0 {
		return "no signed exponent read after the format field"
	}
	for f := int64(0); f <= 3; f++ {
		if !served[f] {
			return fmt.Sprintf("exponent format %02b has no exponent read", f)
		}
	}
	return ""
}

// c16MapperMap: the map literal passed as mapper to a Field* call, or nil.
func c16MapperMap(c *ssa.Call) *ssa.MakeMap {
	for _, v := range c16Mappers(c) {
		for i := 0; i < 3; i++ {
			switch t := v.(type) {
			case *ssa.MakeMap:
				return t
			case *ssa.ChangeType:
				v = t.X
			case *ssa.MakeInterface:
				v = t.X
			}
		}
	}
	return nil
}
