package rules

import "os"

// Positive controls for C17: each is a small edit that still parses / type-checks and breaks the
// command line contract; the named rule must report it.

// c17CoreControls are registered always (each costs one full program load in the thorough tier);
// the others are registered only with FQVERIF_C17_ALL_CONTROLS=1. All of them fire on today's tree.
var c17CoreControls = map[string]bool{
	"code-decode-5": true, "store-alias": true, "finally-no-fin-on-error": true, "prec-swap-4-5": true,
	"reset-per-input": true, "record-null": true,
	"input-wrong-class": true, "input-decode-stop": true, "input-refeed-arm": true, "args-pair-eq-accepted": true,
	"args-error-code-3": true, "rawfile-swallowed": true,
	"args-split-at-every-eq": true, "args-value-reparsed": true,
	"flag-collision": true, "mode-files-include-expr": true,
	"go-exitcode-ignored": true, "go-halt-swallowed": true, "go-halt-tostring": true,
	"input-filename-not-reset": true, "rawinput-rtrim": true,
	// round 3
	"rawinput-slurp-field": true, "usage-null-input": true, "named-rawfile-dropped": true, "argjson-name-parsed": true,
	"go-compact-indent-1": true, "go-stderr-name": true,
	"expr-error-object": true, "go-error-continue": true, "go-exit-0-replaced": true,
	// round 4
	"argdecode-decode-outside-try": true, "go-print-as-format": true,
}

func init() {
	all := os.Getenv("FQVERIF_C17_ALL_CONTROLS") != ""
	add := func(id, rule, file, old, new, expect string) {
		if !all && !c17CoreControls[id] {
			return
		}
		AddControl(Control{ID: "C17." + id, Prop: "C17", Rule: rule, File: file, Old: old, New: new, ExpectKey: expect})
	}
	const (
		ini = "pkg/interp/init.jq"
		itl = "pkg/interp/internal.jq"
		arg = "pkg/interp/args.jq"
		opt = "pkg/interp/options.jq"
		evl = "pkg/interp/eval.jq"
	)
	// codes
	add("code-decode-5", "C17.codes", itl, "def _exit_code_input_decode_error: 4;", "def _exit_code_input_decode_error: 5;", "_exit_code_input_decode_error")
	add("code-args-1", "C17.codes", itl, "def _exit_code_args_error: 2;", "def _exit_code_args_error: 1;", "_exit_code_args_error")
	// stores
	add("store-alias", "C17.stores", itl, `def _input_decode_errors(f): _global_var("input_decode_errors"; f);`, `def _input_decode_errors(f): _global_var("input_io_errors"; f);`, "_input_decode_errors")
	add("store-ignore-update", "C17.stores", itl, `def _cli_last_expr_error(f): _global_var("cli_last_expr_error"; f);`, `def _cli_last_expr_error(f): _global_var("cli_last_expr_error"; null);`, "_cli_last_expr_error/1")
	// finally
	add("finally-no-fin-on-error", "C17.finally", itl, "    ( (fin | empty)\n    , error\n", "    ( error\n", "_finally:catch")
	add("finally-swallow", "C17.finally", itl, "    ( (fin | empty)\n    , error\n", "    ( (fin | empty)\n", "_finally:catch")
	// prec
	add("prec-swap-4-5", "C17.prec", ini,
		"        | if _input_decode_errors then null | halt_error(_exit_code_input_decode_error) end\n        | if _cli_last_expr_error then null | halt_error(_exit_code_expr_error) end\n",
		"        | if _cli_last_expr_error then null | halt_error(_exit_code_expr_error) end\n        | if _input_decode_errors then null | halt_error(_exit_code_input_decode_error) end\n", "fin:_input_decode_errors")
	add("prec-wrong-code", "C17.prec", ini, "if _input_decode_errors then null | halt_error(_exit_code_input_decode_error) end", "if _input_decode_errors then null | halt_error(_exit_code_expr_error) end", "fin:_input_decode_errors")
	add("prec-dropped-test", "C17.prec", ini, "        | if _cli_last_expr_error then null | halt_error(_exit_code_expr_error) end\n", "", "fin:_cli_last_expr_error")
	add("prec-no-halt", "C17.prec", ini, "if _input_io_errors then null | halt_error(_exit_code_input_io_error) end", "if _input_io_errors then _exit_code_input_io_error end", "fin:halt:_input_io_errors")
	// writes
	add("reset-per-input", "C17.writes", ini, "    | _input_filename(null) as $_\n    | ($h // \"<stdin>\") as $name", "    | _input_filename(null) as $_\n    | _cli_last_expr_error(null) as $_\n    | ($h // \"<stdin>\") as $name", "_cli_last_expr_error:input/0._input/2:reset")
	add("reset-in-finaliser", "C17.writes", ini, "        ( if _input_io_errors then null", "        ( _cli_last_expr_error(null) as $_ | if _input_io_errors then null", "_cli_last_expr_error:_main/0:reset")
	add("record-null", "C17.writes", ini, "  | _cli_last_expr_error($err) as $_", "  | _cli_last_expr_error(null) as $_", "_cli_last_expr_error:_cli_eval_on_expr_error/0:reset")
	add("record-maybe-falsy", "C17.writes", ini, "  | _cli_last_expr_error($err) as $_", "  | _cli_last_expr_error($err.error) as $_", "_cli_last_expr_error:_cli_eval_on_expr_error/0:value")
	add("reset-io-per-output", "C17.writes", ini, "def _cli_display:\n  display_implicit(_display_default_opts);", "def _cli_display:\n  ( _input_io_errors(null) as $_ | display_implicit(_display_default_opts) );", "_input_io_errors:_cli_display/0:reset")
	// inputs
	add("input-tail-off-by-one", "C17.inputs", ini, "| [.[0], .[1:]] as [$h, $t]\n    | _input_filenames($t)", "| [.[0], .[2:]] as [$h, $t]\n    | _input_filenames($t)", "_input:head-tail")
	add("input-no-pop", "C17.inputs", ini, "    | _input_filenames($t)\n", "", "_input:pop")
	add("input-pop-head", "C17.inputs", ini, "    | _input_filenames($t)\n", "    | _input_filenames([$h])\n", "_input:pop")
	add("input-wrong-class", "C17.inputs", ini, "        | _input_io_errors(. += {($name): $err}) as $_", "        | _input_decode_errors(. += {($name): $err}) as $_", "_input:open:record")
	add("input-decode-stop", "C17.inputs", ini, "            | (_error_str([$name]) | printerrln)\n            , _input($opts; f)\n            )", "            | (_error_str([$name]) | printerrln)\n            )", "_input:decode:continue")
	add("input-open-reraise", "C17.inputs", ini, "        , {next: _input($opts; f)}", "        , error", "_input:open:continue")
	add("input-break-token", "C17.inputs", ini, "    | if length == 0 then error(\"break\") end\n    | [.[0], .[1:]]", "    | if length == 0 then error(\"done\") end\n    | [.[0], .[1:]]", "_repeat_break:token")
	add("input-open-name", "C17.inputs", ini, "    | $h\n    | try\n        # null input", "    | $name\n    | try\n        # null input", "_input:open-operand")
	add("input-one-try", "C17.inputs", ini, "        | {opened: .}\n", "        | f\n        | {opened: .}\n", "_input:separate-tries")
	add("input-swapped-modes", "C17.inputs", ini, "if $opts.string_input then _input_string($opts)\n    else _input($opts; decode)", "if $opts.string_input then _input($opts; decode)\n    else _input_string($opts)", "input:dispatch")
	add("inputs-single", "C17.inputs", ini, "def inputs: _repeat_break(input);", "def inputs: input;", "inputs")
	add("input-no-print", "C17.inputs", ini, "        | $err\n        | (_error_str([$name]) | printerrln)\n        # result", "        | $err\n        | (_error_str([$name]) | empty)\n        # result", "_input:open:print")
	add("input-refeed-untagged", "C17.inputs", ini, "        , {next: _input($opts; f)}\n        )\n    | if has(\"next\") then .next\n      else\n        ( .opened\n", "        , {opened: _input($opts; f)}\n        )\n    | if has(\"next\") then .next\n      else\n        ( .opened\n", "_input:open:no-refeed")
	add("input-refeed-arm", "C17.inputs", ini, "    | if has(\"next\") then .next\n", "    | if has(\"next\") then .next | f\n", "_input:open:no-refeed")
	add("input-decode-whole-tag", "C17.inputs", ini, "        ( .opened\n        | try f\n", "        ( .\n        | try f\n", "_input:decode-operand")
	add("input-arms-swapped", "C17.inputs", ini, "    | if has(\"next\") then .next\n", "    | if has(\"opened\") then .next\n", "_input:open:no-refeed")
	add("input-filename-not-reset", "C17.inputs", ini, "    | _input_filenames($t)\n    | _input_filename(null) as $_\n", "    | _input_filenames($t)\n", "input_filename:reset-before-open")
	// rawinput
	add("rawinput-rtrim", "C17.rawinput", ini, "                  | rtrimstr(\"\\n\")\n", "                  | rtrim\n", "lines:strip-one-newline")
	add("rawinput-keep-newline", "C17.rawinput", ini, "                  | rtrimstr(\"\\n\")\n", "", "lines:strip-one-newline")
	add("rawinput-split-space", "C17.rawinput", ini, "                  | split(\"\\n\")\n", "                  | split(\" \")\n", "lines:split")
	add("rawinput-tail-lost", "C17.rawinput", ini, "          | _input_strings_lines($t)\n", "          | _input_strings_lines([])\n", "")
	// handlers
	add("args-error-code-3", "C17.handlers", ini, "      catch _fatal_error(_exit_code_args_error)", "      catch _fatal_error(_exit_code_compile_error)", "halt:_main/0")
	add("args-include-argv0", "C17.handlers", ini, "try _args_parse($args[1:]; _opt_cli_opts)", "try _args_parse($args[0:]; _opt_cli_opts)", "main:args-parse")
	add("eval-callbacks-swapped", "C17.handlers", ini, "    _cli_eval_on_error;\n    _cli_eval_on_compile_error\n", "    _cli_eval_on_compile_error;\n    _cli_eval_on_error\n", "_cli_eval:on_error")
	add("rawfile-swallowed", "C17.handlers", opt, `catch ("\($f): \(.)" | _fatal_error(_exit_code_args_error))`, `catch null`, "try:_opt_eval/1:open")
	add("argjson-code-5", "C17.handlers", opt, "                  ( \"--argjson \\($a[0]): \\(.)\"\n                  | _fatal_error(_exit_code_args_error)", "                  ( \"--argjson \\($a[0]): \\(.)\"\n                  | _fatal_error(_exit_code_expr_error)", "halt:_opt_eval/1")
	add("compile-code-5", "C17.handlers", ini, "  | _fatal_error(_exit_code_compile_error)", "  | _fatal_error(_exit_code_expr_error)", "halt:_cli_eval_on_compile_error/0")
	add("expr-error-halts", "C17.handlers", ini, "  | (_error_str([input_filename // empty]) | printerrln)\n  );", "  | (_error_str([input_filename // empty]) | _fatal_error(_exit_code_expr_error))\n  );", "on_expr_error:continues")
	add("eval-dispatch-swapped", "C17.handlers", evl, "        | {error: ., input: $c}\n        | on_compile_error", "        | {error: ., input: $c}\n        | on_error", "eval:dispatch")
	add("fatal-error-code", "C17.handlers", itl, `def _fatal_error($code): "error: \(.)\n" | halt_error($code);`, `def _fatal_error($code): "error: \(.)\n" | halt_error(1);`, "_fatal_error")
	add("stderr-is-stdout", "C17.handlers", itl, `def _stderr: _stdio("stderr");`, `def _stderr: _stdio("stdout");`, "stdio:_stderr")
	add("rewrite-inputs-inside-try", "C17.handlers", evl, "_query_pipe($opts.input_query; .)", "_query_pipe(.; $opts.input_query)", "rewrite:try-inside-inputs")
	// args
	add("args-split-at-every-eq", "C17.args", arg,
		"    | ( if $assign_i then $args[0][0:$assign_i]\n        else $args[0]\n        end\n      ) as $arg",
		"    | ( if $assign_i then $args[0] | split(\"=\")\n        else [$args[0]]\n        end\n      ) as [$arg, $assign_value]", "split:flag")
	add("args-value-keeps-eq", "C17.args", arg, "_parse_with_arg($args[1:]; $optname; $args[0][$assign_i+1:]; $opt)", "_parse_with_arg($args[1:]; $optname; $args[0][$assign_i:]; $opt)", "eq-value:value")
	add("args-last-eq", "C17.args", arg, `($args[0] | index("=")) as $assign_i`, `($args[0] | rindex("=")) as $assign_i`, "split:first-eq")
	add("args-value-reparsed", "C17.args", arg, "_parse_with_arg($args[2:]; $optname; $args[1]; $opt)", "_parse_with_arg($args[1:]; $optname; $args[1]; $opt)", "step:_parse_with_arg:next-value")
	add("args-pair-guard", "C17.args", arg, "if ($args | length) > 2 then", "if ($args | length) > 1 then", "step:_parse_with_arg:pair:guard")
	add("args-pair-consumes-2", "C17.args", arg, "_parse_with_arg($args[3:]; $optname; [$args[1], $args[2]]; $opt)", "_parse_with_arg($args[2:]; $optname; [$args[1], $args[2]]; $opt)", "step:_parse_with_arg:pair")
	add("args-greedy-key", "C17.args", arg, `capture("^(?<key>.*?)=(?<value>.*)$")`, `capture("^(?<key>.*)=(?<value>.*)$")`, "with-arg:object:split")
	add("args-array-overwrites", "C17.args", arg, "      elif $opt.array then\n        _parse($new_args; $flagmap; ($r | .parsed[$optname] += [$value]))", "      elif $opt.array then\n        _parse($new_args; $flagmap; ($r | .parsed[$optname] = [$value]))", "with-arg:$opt.array")
	add("args-unknown-ignored", "C17.args", arg, "              else\n                error(\"\\($arg): no such argument\")\n              end\n            elif", "              else\n                _parse($args[1:]; $flagmap; $r)\n              end\n            elif", "error:unknown-long")
	add("args-dashdash-drops-first", "C17.args", arg, "$r | .rest += $args[1:]", "$r | .rest += $args[2:]", "double-dash")
	add("args-no-aliases", "C17.args", arg, "          (.value.aliases // [])", "          []", "flagmap:fields")
	add("args-combined-drop", "C17.args", arg, `_parse_without_arg((["-"+$args[0][2:]]+$args[1:]); $optname)`, `_parse_without_arg((["-"+$args[0][3:]]+$args[1:]); $optname)`, "combined-short")
	add("args-bool-false", "C17.args", arg, "_parse($new_args; $flagmap; ($r | .parsed[$optname] = true));", "_parse($new_args; $flagmap; ($r | .parsed[$optname] = false));", "without-arg")
	add("args-pair-eq-accepted", "C17.args", arg, "if $assign_i then error(\"\\($arg): needs two argument\")\n              elif ($args | length) > 2 then", "if ($args | length) > 2 then", "pair")
	// flags
	add("flag-collision", "C17.flags", opt, "      { short: \"-C\"\n", "      { short: \"-c\"\n", "flag:-c:unique")
	add("flag-arity", "C17.flags", opt, "      , long: \"--include-path\"\n      , description: \"Include search path\"\n      , array: \"PATH\"", "      , long: \"--include-path\"\n      , description: \"Include search path\"\n      , bool: true", "compat:-L")
	add("flag-two-kinds", "C17.flags", opt, "      ,  long: \"--slurp\"\n", "      ,  long: \"--slurp\"\n      , string: \"X\"\n", "opt:slurp:kind")
	add("flag-unconsumed", "C17.flags", opt, "  , join_output:\n      { short: \"-j\"", "  , joined_output:\n      { short: \"-j\"", "joined_output")
	add("flag-spelling", "C17.flags", opt, "long: \"--raw-output0\"", "long: \"--raw-output-0\"", "compat:--raw-output0")
	// modes
	add("mode-nul-join", "C17.modes", opt, "        elif .null_output then \"\\u0000\"", "        elif .null_output then \"\\n\"", "opt_eval:join_string")
	add("mode-files-include-expr", "C17.modes", opt, "          elif .expr_file then $rest\n          else $rest[1:]\n          end\n        # null means stdin", "          elif .expr_file then $rest\n          else $rest[0:]\n          end\n        # null means stdin", "opt_eval:filenames")
	add("mode-raw-not-implied", "C17.modes", opt, "        if .raw_string\n          or .join_output\n          or .null_output", "        if .raw_string\n          or .null_output", "opt_eval:raw_string")
	add("mode-slurp-not-array", "C17.modes", ini, "elif $opts.slurp then _query_func(\"inputs\") | _query_array", "elif $opts.slurp then _query_func(\"inputs\")", "main:input_query")
	add("mode-flags-under-defaults", "C17.modes", ini, "      ( ( _opt_build_default_fixed\n        + $parsed_args\n", "      ( ( $parsed_args\n        + _opt_build_default_fixed\n", "main:layering")
	add("mode-stdin-lost", "C17.modes", opt, "        | if . == [] then [null] end", "        | if . == [] then [] end", "opt_eval:filenames")
	add("mode-filenames-init", "C17.modes", ini, "| _input_filenames($opts.filenames) as $_", "| _input_filenames($opts.filenames[1:]) as $_", "main:init-filenames")
	// round 3: raw input slurp guard, usage guard, named arguments, remaining derivations, -o conversions
	add("rawinput-slurp-field", "C17.rawinput", ini, "        | if $opts.slurp then\n            # jq --raw-input combined", "        | if $opts.string_input then\n            # jq --raw-input combined", "slurp:guard")
	add("usage-null-input", "C17.modes", ini, "        $opts.null_input == false and\n", "", "main:usage-guard:no-null-input")
	add("usage-stdout-tty", "C17.modes", ini, "        stdin_tty.is_terminal and\n        stdout_tty.is_terminal\n", "        stdin_tty.is_terminal\n", "main:usage-guard:stdout-tty")
	add("usage-exit-0", "C17.modes", ini, "      , (null | halt_error(_exit_code_args_error))\n      )", "      )", "main:usage-guard:halts-2")
	add("named-rawfile-dropped", "C17.modes", ini, "              $opts.raw_file +\n", "", "main:named-args:raw_file")
	add("named-swapped", "C17.modes", ini, "            | map({key: .[0], value: .[1]})", "            | map({key: .[1], value: .[0]})", "main:named-args:entry")
	add("argjson-name-parsed", "C17.modes", opt, "              ( . as $a\n              | .[1] |=\n                try fromjson", "              ( . as $a\n              | .[0] |=\n                try fromjson", "named-args:argjson:value-index")
	add("rawfile-name-read", "C17.modes", opt, "            ( map(.[1] |=\n                ( . as $f", "            ( map(.[0] |=\n                ( . as $f", "named-args:raw_file:value-index")
	add("argdecode-name-decoded", "C17.modes", ini, "      | .[1] |=\n        try (open | decode)", "      | .[0] |=\n        try (open | decode)", "named-args:argdecode:value-index")
	add("value-output-from-unicode", "C17.modes", opt, "        if .value_output == true then true", "        if .unicode_output == true then true", "opt_eval:value_output")
	add("at-file-off-by-one", "C17.modes", opt, "              ( .[1:]\n              | open", "              ( .[0:]\n              | open", "opt_eval:at-file")
	add("opt-to-number-string", "C17.modes", opt, "  elif $type == \"number\" then _opt_to_number", "  elif $type == \"number\" then _opt_to_string", "opt_to:number")
	// round 4
	add("argdecode-decode-outside-try", "C17.handlers", ini, "        try (open | decode)\n        catch\n          ( \"--argdecode \\($a[0]): \\(.)\"\n          | _fatal_error(_exit_code_args_error)\n          )\n", "        ( try open\n          catch\n            ( \"--argdecode \\($a[0]): \\(.)\"\n            | _fatal_error(_exit_code_args_error)\n            )\n        | decode\n        )\n", "covered:_main/0:decode")
	add("rawfile-read-outside-try", "C17.handlers", opt, "                | try (open | tobytes | tostring)\n                  catch (\"\\($f): \\(.)\" | _fatal_error(_exit_code_args_error))", "                | (try open catch (\"\\($f): \\(.)\" | _fatal_error(_exit_code_args_error)))\n                | tobytes | tostring", "covered:_opt_eval/1:tobytes")
	add("go-print-as-format", "C17.go", "pkg/interp/interp.go", "if _, err := fmt.Fprint(w, c); err != nil {", "if _, err := fmt.Fprintf(w, fmt.Sprint(c)); err != nil {", "stdio-write:no-format")
	add("go-print-adds-newline", "C17.go", "pkg/interp/interp.go", "if _, err := fmt.Fprint(w, c); err != nil {", "if _, err := fmt.Fprintln(w, c); err != nil {", "stdio-write:verbatim")
	add("expr-error-object", "C17.handlers", ini, "  | if _is_string | not then tojson end\n", "", "on_expr_error:message-kind")
	add("expr-error-only-objects", "C17.handlers", ini, "  | if _is_string | not then tojson end\n", "  | if _is_object then tojson end\n", "on_expr_error:message-kind")
	add("expr-error-record-after-print", "C17.handlers", ini, "  | _cli_last_expr_error($err) as $_\n  | (_error_str([input_filename // empty]) | printerrln)", "  | (_error_str([input_filename // empty]) | printerrln)\n  | _cli_last_expr_error($err)", "on_expr_error:record-before-print")
	add("expr-error-index-nonobject", "C17.handlers", ini, "  ( if _is_object then\n      if .error | _eval_is_compile_error", "  ( if _is_object | not then\n      if .error | _eval_is_compile_error", "on_expr_error:no-raise")
	add("compile-error-continues", "C17.handlers", ini, "  | _eval_compile_error_tostring\n  | _fatal_error(_exit_code_compile_error)", "  | _eval_compile_error_tostring\n  | (_error_str | printerrln)", "on_compile_error:halts")
	add("opt-drop-invalid", "C17.modes", opt, "      | .value |= _opt_to($opts[$k] // \"fuzzy\")\n      | select(.value != null)", "      | .value |= _opt_to($opts[$k] // \"fuzzy\")", "opt_to:drop-invalid")
	// go
	add("go-error-continue", "C17.go", "pkg/interp/interp.go", "\t\t\t} else {\n\t\t\t\tfmt.Fprintln(i.OS.Stderr(), v)\n\t\t\t}\n\t\t\treturn v", "\t\t\t} else {\n\t\t\t\tfmt.Fprintln(i.OS.Stderr(), v)\n\t\t\t\tcontinue\n\t\t\t}\n\t\t\treturn v", "Interp.Main:error-ends-run")
	add("go-exit-0-replaced", "C17.go", "pkg/cli/cli.go", "if ex, ok := err.(interp.Exiter); ok {", "if ex, ok := err.(interp.Exiter); ok && ex.ExitCode() != 0 {", "cli.Main:other-only-non-exiter")
	add("go-stdout-name", "C17.go", "pkg/interp/interp.go", "\tcase \"stdout\":\n\t\treturn i.OS.Stdout(), nil", "\tcase \"stdout\":\n\t\treturn i.OS.Stderr(), nil", "stdio-fd:stdout")
	add("go-compact-indent-1", "C17.go", "pkg/interp/interp.go", "\tif opts.Compact {\n\t\tindent = 0", "\tif opts.Compact {\n\t\tindent = 1", "compact:indent")
	add("go-compact-inverted", "C17.go", "pkg/interp/interp.go", "\tif opts.Compact {\n", "\tif !opts.Compact {\n", "compact:indent")
	add("go-stderr-name", "C17.go", "pkg/interp/interp.go", "\tcase \"stderr\":\n\t\treturn i.OS.Stderr(), nil", "\tcase \"stderr\":\n\t\treturn i.OS.Stdout(), nil", "stdio-fd:stderr")
	add("go-stderr-stream", "C17.go", "pkg/cli/cli.go", "func (o stderrOutput) Write(p []byte) (n int, err error) { return os.Stderr.Write(p) }", "func (o stderrOutput) Write(p []byte) (n int, err error) { return os.Stdout.Write(p) }", "os-stream:stderrOutput")
	add("go-exitcode-ignored", "C17.go", "pkg/cli/cli.go", "				return ex.ExitCode()", "				_ = ex\n				return 1", "cli.Main:has-exitcode")
	add("go-error-exits-0", "C17.go", "pkg/cli/cli.go", "				return ex.ExitCode()\n			}\n			return 1", "				return ex.ExitCode()\n			}\n			return 0", "cli.Main:return-0")
	add("go-halt-swallowed", "C17.go", "pkg/interp/interp.go", "				return haltErr\n", "				return nil\n", "Interp.Main:return-nil")
	add("go-error-swallowed", "C17.go", "pkg/interp/interp.go", "				fmt.Fprintln(i.OS.Stderr(), v)\n			}\n			return v", "				fmt.Fprintln(i.OS.Stderr(), v)\n			}\n			return nil", "Interp.Main:return-nil")
	add("go-halt-tostring", "C17.go", "pkg/interp/interp.go", "if str, ok := haltErrV.(string); ok {", "if str, err := toString(haltErrV); err == nil {", "halt-print:string-test")
	add("go-halt-no-newline", "C17.go", "pkg/interp/interp.go", "Write([]byte{'\\n'})", "Write([]byte{' '})", "halt-print")
	add("go-halt-nil-prints", "C17.go", "pkg/interp/interp.go", "if haltErrV := haltErr.Value(); haltErrV != nil {", "if haltErrV := haltErr.Value(); true {", "halt-print:nil-silent")
	add("go-halt-to-stdout", "C17.go", "pkg/interp/interp.go", "if _, err := i.OS.Stderr().Write([]byte(str)); err != nil {", "if _, err := output.Write([]byte(str)); err != nil {", "Interp.Main:halt-output")
}
