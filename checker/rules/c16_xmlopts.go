package rules

import (
	"go/types"
	"strings"

	"golang.org/x/tools/go/ssa"

	"fqverif/fw"
)

// ---------------------------------------------------------------------------
// C16.xml.opts: the XML decoder is not put into HTML mode
//
// encoding/xml's Decoder has two switches that make it read well-formed XML differently from what was
// written: AutoClose (elements with the listed names are closed right after their start tag: <link>x</link>
// becomes an empty <link/> followed by stray text and a stray end tag) and a non-nil CharsetReader that
// rewrites bytes. Strict=false and an Entity map only make the parser accept more. Obligation: in
// format/xml every store to a field of an encoding/xml.Decoder is Strict (any value), Entity or
// DefaultSpace; AutoClose and CharsetReader are not written.

func (x *c16) xmlOpts() {
	ru := x.r.Rule("C16.xml.opts", "format/xml configures its encoding/xml.Decoder only through Strict, Entity and DefaultSpace: AutoClose (HTML void-element mode: a well-formed <link>text</link>, <meta>, <param>, <br> ... loses its content and the document is rejected or altered) and CharsetReader are never set", 1)
	n := 0
	for _, fn := range x.p.FqFunctions() {
		if pkgRel(fn) != "format/xml" {
			continue
		}
		fw.EachInstr(fn, func(ins ssa.Instruction) {
			st, ok := ins.(*ssa.Store)
			if !ok {
				return
			}
			fa, ok := st.Addr.(*ssa.FieldAddr)
			if !ok {
				return
			}
			t := fa.X.Type()
			if pt, ok := t.Underlying().(*types.Pointer); ok {
				t = pt.Elem()
			}
			nt, ok := t.(*types.Named)
			if !ok || nt.Obj().Pkg() == nil || nt.Obj().Pkg().Path() != "encoding/xml" || nt.Obj().Name() != "Decoder" {
				return
			}
			name := nt.Underlying().(*types.Struct).Field(fa.Field).Name()
			n++
			key := "Decoder." + name + "|" + fw.ShortFn(fn)
			switch name {
			case "Strict", "Entity", "DefaultSpace":
				ru.Ok(key, x.p.Rel(st.Pos()), "widens what is accepted, does not change how well-formed input is read")
			default:
				ru.Fail(key, x.p.Rel(st.Pos()), "format/xml sets encoding/xml.Decoder."+name+": "+map[bool]string{true: "elements named like HTML void elements (link, meta, param, br, img, input ...) are closed right after their start tag, so a well-formed document using such names loses the element's content or is rejected", false: "the decoder no longer reads the document's own bytes/structure as written"}[strings.HasPrefix(name, "AutoClose")])
			}
		})
	}
	if n == 0 {
		ru.Undecided("anchor", "", "no store to a field of encoding/xml.Decoder found in format/xml (anchor moved)")
	}
}
