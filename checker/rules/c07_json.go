package rules

import (
	"fmt"
	"go/constant"
	"go/token"
	"go/types"
	"sort"
	"strings"

	"golang.org/x/tools/go/ssa"

	"fqverif/fw"
)

// C07.json: sibling agreement between internal/colorjson.Encoder and the embedded engine's encoder.
//
// Both encoders are analysed with the same abstract semantics, on SSA: for every *effect* of an
// encoder method (a byte/string handed to a Write/WriteString/WriteByte method, a call of another
// encoder method, a store into a data buffer, the choice of a constant through a phi) the analysis
// computes, per data-derived quantity compared against constants on the way ("atom": |f|, s[i], the
// decoded rune, len(buf), buf[len-4], the dynamic type of v ...), the exact set of atom values
// under which the effect may happen (unions of intervals, computed by forward data flow over the
// loop-cut CFG, projected per atom). fq's colour/indent plumbing is pruned by evaluating conditions
// on the Options field under the zero Options value (the engine-equivalent configuration).
// The resulting tables (effect -> atom -> value set) must be equal on both sides. if<->switch,
// case order, >= vs a negated <, helper extraction and renames do not change the tables.

// ---------------------------------------------------------------------------
// value sets

type c07Lit struct {
	rel token.Token
	c   constant.Value
}

func (l c07Lit) neg() c07Lit {
	m := map[token.Token]token.Token{token.LSS: token.GEQ, token.GEQ: token.LSS, token.GTR: token.LEQ, token.LEQ: token.GTR, token.EQL: token.NEQ, token.NEQ: token.EQL}
	return c07Lit{m[l.rel], l.c}
}

func (l c07Lit) String() string { return l.rel.String() + l.c.ExactString() }

type c07Conj []c07Lit

func (c c07Conj) key() string {
	s := make([]string, len(c))
	for i, l := range c {
		s[i] = l.String()
	}
	sort.Strings(s)
	return strings.Join(s, "&")
}

// c07DNF: disjunction of conjunctions over one atom; nil/absent means unconstrained.
type c07DNF []c07Conj

type c07AtomKind struct {
	float    bool
	boolean  bool
	min, max constant.Value // integer domain, nil = unbounded
}

type c07State struct {
	dead bool
	cons map[string]c07DNF
}

func (s c07State) clone() c07State {
	n := c07State{dead: s.dead, cons: map[string]c07DNF{}}
	for k, v := range s.cons {
		n.cons[k] = v
	}
	return n
}

func (s c07State) refine(atom string, l c07Lit) c07State {
	n := s.clone()
	old, ok := n.cons[atom]
	if !ok {
		old = c07DNF{c07Conj{}}
	}
	var out c07DNF
	seen := map[string]bool{}
	for _, cj := range old {
		nc := append(append(c07Conj{}, cj...), l)
		if k := nc.key(); !seen[k] {
			seen[k] = true
			out = append(out, nc)
		}
	}
	n.cons[atom] = out
	return n
}

func c07Join(a, b c07State) c07State {
	if a.dead {
		return b
	}
	if b.dead {
		return a
	}
	n := c07State{cons: map[string]c07DNF{}}
	for k, da := range a.cons {
		db, ok := b.cons[k]
		if !ok {
			continue
		}
		seen := map[string]bool{}
		var out c07DNF
		for _, cj := range append(append(c07DNF{}, da...), db...) {
			if kk := cj.key(); !seen[kk] {
				seen[kk] = true
				out = append(out, cj)
			}
		}
		n.cons[k] = out
	}
	return n
}

func c07evalLit(region int, idx int, rel token.Token) bool {
	switch rel {
	case token.LSS:
		return region < idx
	case token.LEQ:
		return region <= idx
	case token.GTR:
		return region > idx
	case token.GEQ:
		return region >= idx
	case token.EQL:
		return region == idx
	case token.NEQ:
		return region != idx
	}
	return false
}

// c07Canon renders the exact value set of a DNF: "" means every value (unconstrained), "{}" empty.
func c07Canon(d c07DNF, kind c07AtomKind) string {
	var pts []constant.Value
	add := func(c constant.Value) {
		for _, p := range pts {
			if constant.Compare(p, token.EQL, c) {
				return
			}
		}
		pts = append(pts, c)
	}
	for _, cj := range d {
		for _, l := range cj {
			add(l.c)
		}
	}
	if kind.min != nil {
		add(kind.min)
	}
	if kind.max != nil {
		add(kind.max)
	}
	sort.Slice(pts, func(i, j int) bool { return constant.Compare(pts[i], token.LSS, pts[j]) })
	idxOf := func(c constant.Value) int {
		for i, p := range pts {
			if constant.Compare(p, token.EQL, c) {
				return 2*i + 1
			}
		}
		return -1
	}
	k := len(pts)
	truth := make([]bool, 2*k+1)
	all := true
	for r := range truth {
		for _, cj := range d {
			ok := true
			for _, l := range cj {
				if !c07evalLit(r, idxOf(l.c), l.rel) {
					ok = false
					break
				}
			}
			if ok {
				truth[r] = true
				break
			}
		}
		// domain clipping
		if kind.min != nil && r < idxOf(kind.min) {
			truth[r] = false
			continue
		}
		if kind.max != nil && r > idxOf(kind.max) {
			truth[r] = false
			continue
		}
		if !truth[r] {
			all = false
		}
	}
	if all {
		return ""
	}
	one := constant.MakeInt64(1)
	var parts []string
	if !kind.float {
		// closed integer intervals
		type iv struct {
			lo, hi       constant.Value
			loInf, hiInf bool
		}
		var ivs []iv
		for r, t := range truth {
			if !t {
				continue
			}
			var cur iv
			if r%2 == 1 {
				cur = iv{lo: pts[r/2], hi: pts[r/2]}
			} else {
				j := r / 2
				if j == 0 {
					cur.loInf = true
				} else {
					cur.lo = constant.BinaryOp(pts[j-1], token.ADD, one)
				}
				if j == k {
					cur.hiInf = true
				} else {
					cur.hi = constant.BinaryOp(pts[j], token.SUB, one)
				}
				if !cur.loInf && !cur.hiInf && constant.Compare(cur.lo, token.GTR, cur.hi) {
					continue
				}
			}
			if n := len(ivs); n > 0 && !ivs[n-1].hiInf && !cur.loInf && constant.Compare(constant.BinaryOp(ivs[n-1].hi, token.ADD, one), token.GEQ, cur.lo) {
				ivs[n-1].hi, ivs[n-1].hiInf = cur.hi, cur.hiInf
				continue
			}
			ivs = append(ivs, cur)
		}
		for _, v := range ivs {
			lo, hi := "-inf", "+inf"
			if !v.loInf {
				lo = v.lo.ExactString()
			}
			if !v.hiInf {
				hi = v.hi.ExactString()
			}
			if lo == hi {
				parts = append(parts, lo)
			} else {
				parts = append(parts, "["+lo+".."+hi+"]")
			}
		}
	} else {
		f := func(c constant.Value) string {
			x, _ := constant.Float64Val(c)
			return fmt.Sprintf("%g", x)
		}
		for r := 0; r < len(truth); {
			if !truth[r] {
				r++
				continue
			}
			e := r
			for e+1 < len(truth) && truth[e+1] {
				e++
			}
			lo, hi := "(-inf", "+inf)"
			if r%2 == 1 {
				lo = "[" + f(pts[r/2])
			} else if r > 0 {
				lo = "(" + f(pts[r/2-1])
			}
			if e%2 == 1 {
				hi = f(pts[e/2]) + "]"
			} else if e/2 < k {
				hi = f(pts[e/2]) + ")"
			}
			parts = append(parts, lo+","+hi)
			r = e + 1
		}
	}
	if len(parts) == 0 {
		return "{}"
	}
	return strings.Join(parts, " u ")
}

// ---------------------------------------------------------------------------
// one encoder implementation

type c07Enc struct {
	p      *fw.Program
	label  string
	encT   *types.Named
	pkg    *types.Package
	roles  map[string]*ssa.Function
	roleOf map[*ssa.Function]string
	kinds  map[string]c07AtomKind
	// configuration under which fq's plumbing is evaluated: all Options fields zero, or (cfgNonNil)
	// the same except that slice/func fields (colour table, ValueFn) are set while Color stays false
	cfgNonNil bool
}

var c07Roles = []string{"value", "float", "string", "array", "object"}

func c07NewEnc(p *fw.Program, label string, encT *types.Named) (*c07Enc, error) {
	e := &c07Enc{p: p, label: label, encT: encT, pkg: encT.Obj().Pkg(), roles: map[string]*ssa.Function{}, roleOf: map[*ssa.Function]string{}, kinds: map[string]c07AtomKind{}}
	ms := types.NewMethodSet(types.NewPointer(encT))
	cands := map[string][]*ssa.Function{}
	for i := 0; i < ms.Len(); i++ {
		fn := p.SSA.MethodValue(ms.At(i))
		if fn == nil || fn.Blocks == nil {
			continue
		}
		ps := fn.Signature.Params()
		if ps.Len() == 0 {
			continue
		}
		role := ""
		switch t := ps.At(0).Type().Underlying().(type) {
		case *types.Basic:
			if t.Kind() == types.Float64 {
				role = "float"
			} else if t.Kind() == types.String {
				role = "string"
			}
		case *types.Slice:
			if _, isI := t.Elem().Underlying().(*types.Interface); isI {
				role = "array"
			}
		case *types.Map:
			if _, isI := t.Elem().Underlying().(*types.Interface); isI {
				role = "object"
			}
		case *types.Interface:
			if t.NumMethods() == 0 && ps.Len() == 1 {
				role = "value"
			}
		}
		if role == "" {
			continue
		}
		cands[role] = append(cands[role], fn)
	}
	// a role is the method of that parameter type the value encoder dispatches to (a helper that happens to
	// take a string or a float first is not a role)
	for _, role := range c07Roles {
		cs := cands[role]
		if len(cs) > 1 && role != "value" && len(cands["value"]) == 1 {
			var called []*ssa.Function
			for _, c := range cs {
				for _, call := range fw.CallsIn(cands["value"][0]) {
					if call.Common().StaticCallee() == c {
						called = append(called, c)
						break
					}
				}
			}
			cs = called
		}
		if len(cs) > 1 {
			return nil, fmt.Errorf("%s encoder %s: two methods take the %s role (%s, %s)", label, encT.Obj().Name(), role, cs[0].Name(), cs[1].Name())
		}
		if len(cs) == 1 {
			e.roles[role] = cs[0]
			e.roleOf[cs[0]] = role
		}
	}
	for _, r := range c07Roles {
		if e.roles[r] == nil {
			return nil, fmt.Errorf("%s encoder %s: no method for the %s role", label, encT.Obj().Name(), r)
		}
	}
	return e, nil
}

const (
	c07bOther = iota
	c07bRecv
	c07bData
	c07bConfig
	c07bConst
)

type c07Bind struct {
	kind   int
	desc   string
	render string
}

type c07Event struct {
	key  string
	cons map[string]string // canonical value set per constrained atom
	dnf  map[string]c07DNF // the same, uncanonicalised (for merging effects that occur at several places)
	skip bool
}

type c07Ctx struct {
	enc    *c07Enc
	fn     *ssa.Function
	bind   map[*ssa.Parameter]c07Bind
	depth  int
	stack  map[*ssa.Function]bool
	events *[]c07Event
	// results of the last run, for special checks
	edge  map[*ssa.BasicBlock][]c07State
	in    map[*ssa.BasicBlock]c07State
	order []*ssa.BasicBlock // topological order of the loop-cut CFG, loop bodies before loop exits

	liDepth int // recursion guard of loopIndex <-> rooted
}

func c07tstr(t types.Type) string {
	s := types.TypeString(t, func(p *types.Package) string { return p.Name() })
	return strings.ReplaceAll(s, "interface{}", "any")
}

func (c *c07Ctx) isRecvRooted(v ssa.Value) (rooted bool, config bool) {
	for i := 0; i < 8; i++ {
		switch x := v.(type) {
		case *ssa.UnOp:
			if x.Op != token.MUL {
				return false, false
			}
			v = x.X
		case *ssa.FieldAddr:
			if c.isOptionsType(x.X.Type(), x.Field) {
				config = true
			}
			v = x.X
		case *ssa.Field:
			if c.isOptionsType(x.X.Type(), x.Field) {
				config = true
			}
			v = x.X
		case *ssa.Parameter:
			b := c.bind[x]
			if b.kind == c07bRecv {
				return true, config
			}
			if b.kind == c07bConfig {
				return true, true
			}
			return false, false
		default:
			return false, false
		}
	}
	return false, false
}

// isOptionsType: the selected field's type is a named struct of the encoder's package other than the encoder.
func (c *c07Ctx) isOptionsType(t types.Type, field int) bool {
	if p, ok := t.Underlying().(*types.Pointer); ok {
		t = p.Elem()
	}
	st, ok := t.Underlying().(*types.Struct)
	if !ok || field >= st.NumFields() {
		return false
	}
	named, ok := st.Field(field).Type().(*types.Named)
	if !ok || named.Obj().Pkg() != c.enc.pkg || types.Identical(named, c.enc.encT) {
		return false
	}
	_, isStruct := named.Underlying().(*types.Struct)
	return isStruct
}

func (c *c07Ctx) isConfig(v ssa.Value) bool {
	_, cfg := c.isRecvRooted(v)
	return cfg
}

// rooted: v is computed from a data parameter.
func (c *c07Ctx) rooted(v ssa.Value) bool {
	seen := map[ssa.Value]bool{}
	var rec func(v ssa.Value, d int) bool
	rec = func(v ssa.Value, d int) bool {
		if v == nil || seen[v] || d > 14 {
			return false
		}
		seen[v] = true
		switch x := v.(type) {
		case *ssa.Parameter:
			return c.bind[x].kind == c07bData
		case *ssa.Const, *ssa.Global, *ssa.Function, *ssa.Builtin, *ssa.FreeVar:
			return false
		case *ssa.Phi:
			for _, e := range x.Edges {
				if rec(e, d+1) {
					return true
				}
			}
			return c.loopIndex(x)
		case *ssa.Alloc:
			// a local that data is stored into
			if x.Referrers() != nil {
				for _, r := range *x.Referrers() {
					if st, ok := r.(*ssa.Store); ok && st.Addr == ssa.Value(x) && rec(st.Val, d+1) {
						return true
					}
					// an element or a field of the local (composite literal, variadic argument array)
					if part, ok := r.(ssa.Value); ok && part.Referrers() != nil {
						switch r.(type) {
						case *ssa.IndexAddr, *ssa.FieldAddr:
							for _, r2 := range *part.Referrers() {
								if st, ok := r2.(*ssa.Store); ok && st.Addr == part && rec(st.Val, d+1) {
									return true
								}
							}
						}
					}
				}
			}
			return false
		case ssa.Instruction:
			for _, op := range x.Operands(nil) {
				if *op != nil && rec(*op, d+1) {
					return true
				}
			}
		}
		return false
	}
	return rec(v, 0)
}

// loopIndex: an integer phi advanced by a constant and compared (itself or advanced) with len(data).
func (c *c07Ctx) loopIndex(p *ssa.Phi) bool {
	if b, ok := p.Type().Underlying().(*types.Basic); !ok || b.Info()&types.IsInteger == 0 || p.Referrers() == nil {
		return false
	}
	if c.liDepth > 2 {
		return false
	}
	c.liDepth++
	defer func() { c.liDepth-- }()
	check := func(v ssa.Value) bool {
		if v.Referrers() == nil {
			return false
		}
		for _, r := range *v.Referrers() {
			bo, ok := r.(*ssa.BinOp)
			if !ok {
				continue
			}
			switch bo.Op {
			case token.LSS, token.LEQ, token.GTR, token.GEQ:
				other := bo.X
				if other == v {
					other = bo.Y
				}
				if call, ok := other.(*ssa.Call); ok && fw.IsBuiltinCall(call, "len") {
					if c.rooted(call.Common().Args[0]) {
						return true
					}
				}
			}
		}
		return false
	}
	if check(p) {
		return true
	}
	for _, r := range *p.Referrers() {
		if bo, ok := r.(*ssa.BinOp); ok && (bo.Op == token.ADD || bo.Op == token.SUB) && check(bo) {
			return true
		}
	}
	return false
}

func c07ConstStr(k *ssa.Const) string {
	if k.Value == nil {
		return "nil"
	}
	if k.Value.Kind() == constant.String {
		return fmt.Sprintf("%q", constant.StringVal(k.Value))
	}
	if k.Value.Kind() == constant.Float {
		f, _ := constant.Float64Val(k.Value)
		return fmt.Sprintf("%g", f)
	}
	return k.Value.ExactString()
}

func c07PhiConsts(p *ssa.Phi) (string, bool) {
	var cs []string
	seen := map[string]bool{}
	for _, e := range p.Edges {
		k, ok := e.(*ssa.Const)
		if !ok {
			return "", false
		}
		if s := c07ConstStr(k); !seen[s] {
			seen[s] = true
			cs = append(cs, s)
		}
	}
	sort.Strings(cs)
	return "phi{" + strings.Join(cs, ",") + "}", true
}

func c07CalleeShort(f *ssa.Function) string {
	if o := f.Origin(); o != nil {
		f = o
	}
	s := f.String()
	return s
}

// offset renders an index as a small linear form relative to len().
func (c *c07Ctx) offset(idx ssa.Value) string {
	switch x := idx.(type) {
	case *ssa.Const:
		return c07ConstStr(x)
	case *ssa.BinOp:
		if x.Op == token.SUB || x.Op == token.ADD {
			if k, ok := x.Y.(*ssa.Const); ok {
				if call, ok := x.X.(*ssa.Call); ok && fw.IsBuiltinCall(call, "len") {
					return "len" + x.Op.String() + c07ConstStr(k)
				}
			}
		}
	}
	return "."
}

// desc is the shallow, rename-stable identity of an atom.
func (c *c07Ctx) desc(v ssa.Value) string {
	switch x := v.(type) {
	case *ssa.Parameter:
		if b, ok := c.bind[x]; ok && b.desc != "" {
			return b.desc
		}
		return "param:" + c07tstr(x.Type())
	case *ssa.Convert:
		return c.desc(x.X)
	case *ssa.ChangeType:
		return c.desc(x.X)
	case *ssa.Call:
		if b, ok := x.Common().Value.(*ssa.Builtin); ok {
			if len(x.Common().Args) > 0 {
				return b.Name() + ":" + c07tstr(x.Common().Args[0].Type())
			}
			return b.Name()
		}
		if f := x.Common().StaticCallee(); f != nil {
			return "call:" + c07CalleeShort(f)
		}
		if x.Common().IsInvoke() {
			return "invoke:" + x.Common().Method.Name()
		}
	case *ssa.Index:
		return "index:" + c07tstr(x.X.Type()) + "@" + c.offset(x.Index)
	case *ssa.Lookup:
		return "index:" + c07tstr(x.X.Type()) + "@" + c.offset(x.Index)
	case *ssa.UnOp:
		if x.Op == token.MUL {
			if ia, ok := x.X.(*ssa.IndexAddr); ok {
				return "index:" + c07tstr(ia.X.Type()) + "@" + c.offset(ia.Index)
			}
			if fa, ok := x.X.(*ssa.FieldAddr); ok {
				return "field:" + c07tstr(fa.Type().Underlying().(*types.Pointer).Elem())
			}
		}
	case *ssa.Extract:
		switch t := x.Tuple.(type) {
		case *ssa.TypeAssert:
			if x.Index == 1 {
				return "is:" + c07tstr(t.AssertedType)
			}
			return "as:" + c07tstr(t.AssertedType)
		case *ssa.Call:
			if f := t.Common().StaticCallee(); f != nil {
				return fmt.Sprintf("ext%d:%s", x.Index, c07CalleeShort(f))
			}
		}
		return fmt.Sprintf("ext%d", x.Index)
	case *ssa.TypeAssert:
		return "as:" + c07tstr(x.AssertedType)
	case *ssa.Phi:
		if s, ok := c07PhiConsts(x); ok {
			return s
		}
		if c.loopIndex(x) {
			return "loopidx"
		}
		return "phi:" + c07tstr(x.Type())
	case *ssa.Field:
		return "field:" + c07tstr(x.Type())
	case *ssa.BinOp:
		if k, ok := x.Y.(*ssa.Const); ok {
			return "(" + c.desc(x.X) + x.Op.String() + c07ConstStr(k) + ")"
		}
	}
	return "?:" + c07tstr(v.Type())
}

// render prints the structure of an emitted/stored value with its constants.
func (c *c07Ctx) render(v ssa.Value, d int) string {
	if d <= 0 {
		return "_"
	}
	switch x := v.(type) {
	case *ssa.Const:
		return c07ConstStr(x)
	case *ssa.Parameter:
		if b, ok := c.bind[x]; ok {
			if b.render != "" {
				return b.render
			}
			switch b.kind {
			case c07bRecv:
				return "recv"
			case c07bConfig:
				return "cfg"
			}
		}
		return "param:" + c07tstr(x.Type())
	case *ssa.Convert:
		return c.render(x.X, d)
	case *ssa.ChangeType:
		return c.render(x.X, d)
	case *ssa.MakeInterface:
		return c.render(x.X, d)
	case *ssa.Call:
		var name string
		if b, ok := x.Common().Value.(*ssa.Builtin); ok {
			name = b.Name()
		} else if f := x.Common().StaticCallee(); f != nil {
			name = c07CalleeShort(f)
		} else if x.Common().IsInvoke() {
			name = "invoke:" + x.Common().Method.Name()
		} else {
			name = "dyn"
		}
		// a call is identified by its callee and its constant (or constant-choice) arguments
		var as []string
		for _, a := range x.Common().Args {
			in := a
			if cv, ok := in.(*ssa.Convert); ok {
				in = cv.X
			}
			_, isConst := in.(*ssa.Const)
			if ph, ok := in.(*ssa.Phi); ok {
				_, isConst = c07PhiConsts(ph)
			}
			if pa, ok := in.(*ssa.Parameter); ok && c.bind[pa].kind == c07bConst {
				isConst = true
			}
			if isConst {
				as = append(as, c.render(in, 1))
			} else {
				as = append(as, "_")
			}
		}
		return name + "(" + strings.Join(as, ",") + ")"
	case *ssa.BinOp:
		return "(" + c.render(x.X, d-1) + x.Op.String() + c.render(x.Y, d-1) + ")"
	case *ssa.Phi:
		if s, ok := c07PhiConsts(x); ok {
			return s
		}
		if c.loopIndex(x) {
			return "loopidx"
		}
		var es []string
		seen := map[string]bool{}
		for _, e := range x.Edges {
			s := c.render(e, d-1)
			if !seen[s] {
				seen[s] = true
				es = append(es, s)
			}
		}
		sort.Strings(es)
		return "phi(" + strings.Join(es, "|") + ")"
	case *ssa.Index:
		return c.render(x.X, d-1) + "[" + c.render(x.Index, d-1) + "]"
	case *ssa.Lookup:
		return c.render(x.X, d-1) + "[" + c.render(x.Index, d-1) + "]"
	case *ssa.IndexAddr:
		return c.render(x.X, d-1) + "[" + c.render(x.Index, d-1) + "]"
	case *ssa.Slice:
		lo, hi := "", ""
		if x.Low != nil {
			lo = c.render(x.Low, d-1)
		}
		if x.High != nil {
			hi = c.render(x.High, d-1)
		}
		return "slice(" + c.render(x.X, d-1) + ")[" + lo + ":" + hi + "]"
	case *ssa.Extract:
		return fmt.Sprintf("ext%d(%s)", x.Index, c.render(x.Tuple, d-1))
	case *ssa.TypeAssert:
		return "as:" + c07tstr(x.AssertedType) + "(" + c.render(x.X, d-1) + ")"
	case *ssa.UnOp:
		if x.Op == token.MUL {
			return c.render(x.X, d)
		}
		return x.Op.String() + c.render(x.X, d-1)
	case *ssa.FieldAddr:
		if r, cfg := c.isRecvRooted(x); r {
			if cfg {
				return "cfg"
			}
			return "recv:" + c07tstr(x.Type().Underlying().(*types.Pointer).Elem())
		}
		return "field:" + c07tstr(x.Type().Underlying().(*types.Pointer).Elem()) + "(" + c.render(x.X, d-1) + ")"
	case *ssa.Field:
		return "field:" + c07tstr(x.Type()) + "(" + c.render(x.X, d-1) + ")"
	case *ssa.Alloc:
		return "local:" + c07tstr(x.Type().Underlying().(*types.Pointer).Elem())
	}
	return "?:" + c07tstr(v.Type())
}

func (c *c07Ctx) kindOf(t types.Type) c07AtomKind {
	b, ok := t.Underlying().(*types.Basic)
	if !ok {
		return c07AtomKind{boolean: true, min: constant.MakeInt64(0), max: constant.MakeInt64(1)}
	}
	switch {
	case b.Info()&types.IsBoolean != 0:
		return c07AtomKind{boolean: true, min: constant.MakeInt64(0), max: constant.MakeInt64(1)}
	case b.Info()&types.IsFloat != 0:
		return c07AtomKind{float: true}
	case b.Info()&types.IsInteger != 0:
		switch b.Kind() {
		case types.Uint8:
			return c07AtomKind{min: constant.MakeInt64(0), max: constant.MakeInt64(255)}
		case types.Int8:
			return c07AtomKind{min: constant.MakeInt64(-128), max: constant.MakeInt64(127)}
		case types.Uint16:
			return c07AtomKind{min: constant.MakeInt64(0), max: constant.MakeInt64(65535)}
		case types.Int32:
			return c07AtomKind{min: constant.MakeInt64(-1 << 31), max: constant.MakeInt64(1<<31 - 1)}
		case types.Uint32, types.Uint, types.Uint64, types.Uintptr:
			return c07AtomKind{min: constant.MakeInt64(0)}
		}
	}
	return c07AtomKind{}
}

type c07Cond struct {
	known  bool // decided by configuration
	value  bool
	atom   string
	lit    c07Lit // holds when the condition is true
	isAtom bool
}

func (c *c07Ctx) cond(v ssa.Value) c07Cond {
	switch x := v.(type) {
	case *ssa.UnOp:
		if x.Op == token.NOT {
			r := c.cond(x.X)
			if r.known {
				r.value = !r.value
			}
			if r.isAtom {
				r.lit = r.lit.neg()
			}
			return r
		}
	case *ssa.BinOp:
		switch x.Op {
		case token.LSS, token.LEQ, token.GTR, token.GEQ, token.EQL, token.NEQ:
		default:
			return c07Cond{}
		}
		l, r, op := x.X, x.Y, x.Op
		if _, ok := l.(*ssa.Const); ok {
			l, r = r, l
			op = map[token.Token]token.Token{token.LSS: token.GTR, token.GTR: token.LSS, token.LEQ: token.GEQ, token.GEQ: token.LEQ, token.EQL: token.EQL, token.NEQ: token.NEQ}[op]
		}
		k, ok := r.(*ssa.Const)
		if !ok {
			return c07Cond{}
		}
		if c.isConfig(l) {
			// zero Options: every configuration value is the zero of its type
			zero := k.Value == nil
			if zero && c.enc.cfgNonNil && (op == token.EQL || op == token.NEQ) {
				return c07Cond{known: true, value: op == token.NEQ}
			}
			if !zero {
				switch k.Value.Kind() {
				case constant.Int, constant.Float:
					zero = constant.Sign(k.Value) == 0
				case constant.Bool:
					zero = !constant.BoolVal(k.Value)
				case constant.String:
					zero = constant.StringVal(k.Value) == ""
				}
			}
			if zero && (op == token.EQL || op == token.NEQ) {
				return c07Cond{known: true, value: op == token.EQL}
			}
			return c07Cond{}
		}
		if !c.rooted(l) {
			return c07Cond{}
		}
		if k.Value == nil {
			if op != token.EQL && op != token.NEQ {
				return c07Cond{}
			}
			a := "isnil(" + c.desc(l) + ")"
			c.enc.kinds[a] = c07AtomKind{boolean: true, min: constant.MakeInt64(0), max: constant.MakeInt64(1)}
			return c07Cond{isAtom: true, atom: a, lit: c07Lit{op, constant.MakeInt64(1)}}
		}
		var cv constant.Value
		switch k.Value.Kind() {
		case constant.Int, constant.Float:
			cv = k.Value
		case constant.Bool:
			cv = constant.MakeInt64(0)
			if constant.BoolVal(k.Value) {
				cv = constant.MakeInt64(1)
			}
		default:
			return c07Cond{}
		}
		a := c.desc(l)
		kd := c.kindOf(l.Type())
		if mn, ok := c07IndMin(l); ok && kd.min == nil && !kd.float && !kd.boolean {
			kd.min = constant.MakeInt64(mn) // a counter that starts at a constant and only grows
		}
		c.enc.kinds[a] = kd
		return c07Cond{isAtom: true, atom: a, lit: c07Lit{op, cv}}
	}
	if b, ok := v.Type().Underlying().(*types.Basic); ok && b.Info()&types.IsBoolean != 0 {
		if c.isConfig(v) {
			return c07Cond{known: true, value: false}
		}
		if _, isPhi := v.(*ssa.Phi); !isPhi && c.rooted(v) {
			a := c.desc(v)
			c.enc.kinds[a] = c.kindOf(v.Type())
			return c07Cond{isAtom: true, atom: a, lit: c07Lit{token.EQL, constant.MakeInt64(1)}}
		}
	}
	return c07Cond{}
}

// truth splits state st (valid at block blk) into the states under which boolean v is true / false.
// Handles constants, negation, comparisons of atoms, configuration, phis of booleans produced by
// && / || lowering (using the per-edge states) and calls of same-package predicate helpers.
func (c *c07Ctx) truth(v ssa.Value, st c07State, blk *ssa.BasicBlock, depth int) (c07State, c07State) {
	dead := c07State{dead: true}
	if st.dead {
		return dead, dead
	}
	switch x := v.(type) {
	case *ssa.Const:
		if x.Value != nil && x.Value.Kind() == constant.Bool {
			if constant.BoolVal(x.Value) {
				return st, dead
			}
			return dead, st
		}
	case *ssa.UnOp:
		if x.Op == token.NOT {
			t, f := c.truth(x.X, st, blk, depth)
			return f, t
		}
	case *ssa.Phi:
		if x.Block() == blk && depth < 6 {
			t, f := dead, dead
			for i, pb := range blk.Preds {
				es, ok := c.edge[pb]
				if !ok {
					continue
				}
				for si, s := range pb.Succs {
					if s != blk {
						continue
					}
					et, ef := c.truth(x.Edges[i], es[si], pb, depth+1)
					t, f = c07Join(t, et), c07Join(f, ef)
				}
			}
			return t, f
		}
	case *ssa.Call:
		f := x.Common().StaticCallee()
		if f != nil && f.Pkg != nil && f.Pkg.Pkg == c.enc.pkg && f.Blocks != nil && c.enc.roleOf[f] == "" && c.depth < 3 && !c.stack[f] && f.Signature.Results().Len() == 1 {
			if bind, follow := c.bindArgs(f, x.Common()); follow {
				sub := &c07Ctx{enc: c.enc, fn: f, bind: bind, depth: c.depth + 1, stack: c.stack, events: c.events}
				c.stack[f] = true
				sub.flow(st)
				t, fl := dead, dead
				for _, b := range f.Blocks {
					ret, ok := b.Instrs[len(b.Instrs)-1].(*ssa.Return)
					bs, reach := sub.in[b]
					if !ok || !reach || bs.dead {
						continue
					}
					rt, rf := sub.truth(ret.Results[0], bs, b, depth+1)
					t, fl = c07Join(t, rt), c07Join(fl, rf)
				}
				delete(c.stack, f)
				return t, fl
			}
		}
	}
	cd := c.cond(v)
	switch {
	case cd.known:
		if cd.value {
			return st, dead
		}
		return dead, st
	case cd.isAtom:
		t, f := st.refine(cd.atom, cd.lit), st.refine(cd.atom, cd.lit.neg())
		// a branch whose atom set became empty is infeasible
		if c07Canon(t.cons[cd.atom], c.enc.kinds[cd.atom]) == "{}" {
			t = dead
		}
		if c07Canon(f.cons[cd.atom], c.enc.kinds[cd.atom]) == "{}" {
			f = dead
		}
		return t, f
	}
	return st, st
}

// bindArgs binds the parameters of a same-package helper to the caller's arguments; follow reports
// whether the helper receives data or constants (otherwise it is plumbing and is not entered).
func (c *c07Ctx) bindArgs(f *ssa.Function, cc *ssa.CallCommon) (map[*ssa.Parameter]c07Bind, bool) {
	bind := map[*ssa.Parameter]c07Bind{}
	follow := false
	for i, pa := range f.Params {
		if i >= len(cc.Args) {
			break
		}
		a := cc.Args[i]
		switch {
		case i == 0 && f.Signature.Recv() != nil:
			if r, _ := c.isRecvRooted(a); r {
				bind[pa] = c07Bind{kind: c07bRecv}
			} else if pr, ok := a.(*ssa.Parameter); ok && c.bind[pr].kind == c07bRecv {
				bind[pa] = c07Bind{kind: c07bRecv}
			}
		case c.isConfig(a):
			bind[pa] = c07Bind{kind: c07bConfig}
		case c.rooted(a):
			bind[pa] = c07Bind{kind: c07bData, desc: c.desc(a), render: c.render(a, 4)}
			follow = true
		default:
			in := a
			if cv, ok := in.(*ssa.Convert); ok {
				in = cv.X
			}
			if k, ok := in.(*ssa.Const); ok {
				bind[pa] = c07Bind{kind: c07bConst, render: c07ConstStr(k)}
				follow = true
			}
		}
	}
	return bind, follow
}

// flow computes per-block states over the loop-cut CFG.
func (c *c07Ctx) flow(entry c07State) {
	fn := c.fn
	c.in = map[*ssa.BasicBlock]c07State{}
	c.edge = map[*ssa.BasicBlock][]c07State{}
	// reverse postorder ignoring back edges
	var order []*ssa.BasicBlock
	seen := map[*ssa.BasicBlock]bool{}
	var dfs func(b *ssa.BasicBlock)
	dfs = func(b *ssa.BasicBlock) {
		seen[b] = true
		for i := len(b.Succs) - 1; i >= 0; i-- {
			if s := b.Succs[i]; !seen[s] && !s.Dominates(b) {
				dfs(s)
			}
		}
		order = append(order, b)
	}
	dfs(fn.Blocks[0])
	for i, j := 0, len(order)-1; i < j; i, j = i+1, j-1 {
		order[i], order[j] = order[j], order[i]
	}
	c.order = order
	for _, b := range order {
		var st c07State
		if b == fn.Blocks[0] {
			st = entry.clone()
		} else {
			st = c07State{dead: true}
			for _, pb := range b.Preds {
				if b.Dominates(pb) {
					continue // back edge
				}
				es, ok := c.edge[pb]
				if !ok {
					continue
				}
				for i, s := range pb.Succs {
					if s == b {
						st = c07Join(st, es[i])
					}
				}
			}
		}
		c.in[b] = st
		outs := make([]c07State, len(b.Succs))
		for i := range outs {
			outs[i] = st
		}
		if ifi, ok := b.Instrs[len(b.Instrs)-1].(*ssa.If); ok && !st.dead && len(b.Succs) == 2 {
			outs[0], outs[1] = c.truth(ifi.Cond, st, b, 0)
		}
		// blocks that end in panic contribute nothing downstream (no successors anyway)
		c.edge[b] = outs
	}
}

var c07JSONTypes = []string{"isnil(param:any)", "is:bool", "is:int", "is:float64", "is:*big.Int", "is:string", "is:[]any", "is:map[string]any"}

func (c *c07Ctx) emitEvent(key string, st c07State) {
	ev := c07Event{key: key, cons: map[string]string{}, dnf: map[string]c07DNF{}}
	neg := 0
	for a, d := range st.cons {
		s := c07Canon(d, c.enc.kinds[a])
		if s == "" {
			continue
		}
		if strings.HasPrefix(a, "is:") || strings.HasPrefix(a, "isnil(") {
			if s == "0" {
				for _, jt := range c07JSONTypes {
					if jt == a {
						neg++
					}
				}
				continue // type tests are mutually exclusive: negative facts carry no information
			}
			known := false
			for _, jt := range c07JSONTypes {
				if jt == a {
					known = true
				}
			}
			if !known {
				ev.skip = true // arm for a value that is not plain JSON
			}
		}
		ev.cons[a] = s
		ev.dnf[a] = d
	}
	if neg == len(c07JSONTypes) {
		ev.skip = true // the arm taken when the value is none of the plain JSON types
	}
	*c.events = append(*c.events, ev)
}

// c07BasicElem: the indexed container holds basic values (a byte buffer), not bookkeeping structs.
func c07BasicElem(ia *ssa.IndexAddr) bool {
	pt, ok := ia.Type().Underlying().(*types.Pointer)
	if !ok {
		return false
	}
	_, basic := pt.Elem().Underlying().(*types.Basic)
	return basic
}

func c07IsWriterMethod(cc *ssa.CallCommon) bool {
	var name string
	var nargs int
	if cc.IsInvoke() {
		name, nargs = cc.Method.Name(), len(cc.Args)
	} else if f := cc.StaticCallee(); f != nil && f.Signature.Recv() != nil {
		name, nargs = f.Name(), len(cc.Args)-1
	} else {
		return false
	}
	return nargs == 1 && (name == "Write" || name == "WriteString" || name == "WriteByte" || name == "WriteRune")
}

func (c *c07Ctx) run(entry c07State) {
	if c.fn.Blocks == nil {
		return
	}
	c.flow(entry)
	for _, b := range c.order {
		st, ok := c.in[b]
		if !ok || st.dead {
			continue
		}
		for _, ins := range b.Instrs {
			switch x := ins.(type) {
			case *ssa.Phi:
				if _, allConst := c07PhiConsts(x); !allConst {
					continue
				}
				name, _ := c07PhiConsts(x)
				for i, pb := range b.Preds {
					es, ok := c.edge[pb]
					if !ok {
						continue
					}
					for si, s := range pb.Succs {
						if s == b && !es[si].dead {
							c.emitEvent("choose "+name+"="+c07ConstStr(x.Edges[i].(*ssa.Const)), es[si])
						}
					}
				}
			case *ssa.Store:
				if ia, ok := x.Addr.(*ssa.IndexAddr); ok && c07BasicElem(ia) && c.rooted(ia.X) {
					c.emitEvent("store "+c.render(ia, 3)+" <- "+c.render(x.Val, 3), st)
				}
			case ssa.CallInstruction:
				cc := x.Common()
				if c07IsWriterMethod(cc) {
					arg := cc.Args[len(cc.Args)-1]
					if c.isConfig(arg) {
						continue
					}
					if sl, ok := arg.(*ssa.Slice); ok {
						// verbatim copies of stretches of the input string: which stretches, and that together with
						// the replacements they cover every byte once, is C07.scan's obligation
						if pa, ok := sl.X.(*ssa.Parameter); ok && c.bind[pa].kind == c07bData {
							if b, ok := pa.Type().Underlying().(*types.Basic); ok && b.Kind() == types.String {
								continue
							}
						}
					}
					c.emitEvent("emit "+c.render(arg, 4), st)
					continue
				}
				f := cc.StaticCallee()
				if f == nil {
					continue
				}
				if role, ok := c.enc.roleOf[f]; ok {
					// which datum is encoded: shallow shape only (element / field by type / counter), no names
					what := ""
					if len(cc.Args) >= 2 {
						a := cc.Args[1]
						if ex, ok := a.(*ssa.Extract); ok && ex.Index == 0 {
							if ta, ok := ex.Tuple.(*ssa.TypeAssert); ok {
								a = ta // v.(T) and v, ok := v.(T) are the same datum
							}
						}
						if ta, ok := a.(*ssa.TypeAssert); ok {
							what = "(as:" + c07tstr(ta.AssertedType) + ")"
						} else {
							what = "(" + c.render(a, 1) + ")"
						}
					}
					c.emitEvent("encode:"+role+what, st)
					continue
				}
				if f.Pkg == nil || f.Pkg.Pkg != c.enc.pkg || f.Blocks == nil || c.depth >= 3 || c.stack[f] {
					continue
				}
				// follow a helper that receives data or constants
				bind, follow := c.bindArgs(f, cc)
				if !follow {
					continue
				}
				sub := &c07Ctx{enc: c.enc, fn: f, bind: bind, depth: c.depth + 1, stack: c.stack, events: c.events}
				c.stack[f] = true
				sub.run(st)
				delete(c.stack, f)
			}
		}
	}
}

// roleCtx prepares the analysis of one role method: first parameter is data, the others configuration.
func (e *c07Enc) roleCtx(role string, events *[]c07Event) *c07Ctx {
	fn := e.roles[role]
	bind := map[*ssa.Parameter]c07Bind{}
	for i, pa := range fn.Params {
		switch i {
		case 0:
			bind[pa] = c07Bind{kind: c07bRecv}
		case 1:
			bind[pa] = c07Bind{kind: c07bData}
		default:
			bind[pa] = c07Bind{kind: c07bConfig}
		}
	}
	return &c07Ctx{enc: e, fn: fn, bind: bind, stack: map[*ssa.Function]bool{fn: true}, events: events}
}

func (e *c07Enc) analyse(role string) []c07Event {
	var evs []c07Event
	c := e.roleCtx(role, &evs)
	c.run(c07State{cons: map[string]c07DNF{}})
	var out []c07Event
	for _, ev := range evs {
		if !ev.skip {
			out = append(out, ev)
		}
	}
	return out
}

func c07ConsStr(m map[string]string) string {
	var ks []string
	for k, v := range m {
		ks = append(ks, k+" in "+v)
	}
	sort.Strings(ks)
	if len(ks) == 0 {
		return "always"
	}
	return strings.Join(ks, "; ")
}

// table: effect key -> condition; an effect that occurs at several program points is merged by
// per-atom union of its value sets (so splitting one branch into two does not change the table).
func (e *c07Enc) table(evs []c07Event) map[string][]string {
	merged := map[string]c07State{}
	for _, ev := range evs {
		st := c07State{cons: ev.dnf}
		if old, ok := merged[ev.key]; ok {
			st = c07Join(old, st)
		}
		merged[ev.key] = st
	}
	t := map[string][]string{}
	for k, st := range merged {
		m := map[string]string{}
		for a, d := range st.cons {
			if s := c07Canon(d, e.kinds[a]); s != "" {
				m[a] = s
			}
		}
		t[k] = []string{c07ConsStr(m)}
	}
	return t
}

func c07Encoder(r *fw.Run, p *fw.Program, ref *c07Ref) {
	ru := r.Rule("C07.json", "colorjson.Encoder under zero Options has exactly the engine encoder's effect tables: per encoder role (value/float/string/array/object) every emitted literal, formatting call, nested encode, buffer store and constant choice happens under the same exact set of input-derived values (float thresholds and their operators, escape table, NaN, type dispatch, base 10, exponent clean-up); array/object effects also in the same order; evaluated for zero Options and for a configured-but-disabled colour table", 80)
	encT := p.NamedType("internal/colorjson", "Encoder")
	if encT == nil {
		ru.Undecided("anchor:colorjson.Encoder", "", "type not found")
		return
	}
	// engine encoder type: receiver of the first encoder method called by gojq.Marshal
	var refT *types.Named
	if m := p.SSA.FuncValue(c07LookupFunc(ref.pkg.Types, "Marshal")); m != nil {
		for _, c := range fw.CallsIn(m) {
			if f := c.Common().StaticCallee(); f != nil && f.Signature.Recv() != nil && f.Pkg != nil && f.Pkg.Pkg == ref.pkg.Types {
				t := f.Signature.Recv().Type()
				if pt, ok := t.(*types.Pointer); ok {
					t = pt.Elem()
				}
				if n, ok := t.(*types.Named); ok {
					refT = n
					break
				}
			}
		}
	}
	if refT == nil {
		ru.Undecided("anchor:engine encoder", "", "gojq.Marshal does not call a method of an encoder type")
		return
	}
	mine, err := c07NewEnc(p, "fq", encT)
	if err != nil {
		ru.Undecided("anchor:roles", "", err.Error())
		return
	}
	theirs, err := c07NewEnc(p, "engine", refT)
	if err != nil {
		ru.Undecided("anchor:roles", "", err.Error())
		return
	}
	dump := map[string]any{}
	for _, mode := range []string{"", "[colour table set, Color=false] "} {
		mine.cfgNonNil = mode != ""
		for _, role := range c07Roles {
			me, te := mine.analyse(role), theirs.analyse(role)
			mt, tt := mine.table(me), theirs.table(te)
			pos := p.Rel(mine.roles[role].Pos())
			dump[role] = tt
			for _, k := range fw.SortedKeys(tt) {
				key := mode + role + ": " + k
				mc, ok := mt[k]
				switch {
				case !ok:
					ru.Fail(key, pos, "engine's "+theirs.roles[role].Name()+" has this effect when {"+strings.Join(tt[k], " | ")+"}; fq's "+mine.roles[role].Name()+" never has it")
				case strings.Join(mc, " | ") != strings.Join(tt[k], " | "):
					ru.Fail(key, pos, "happens in fq when {"+strings.Join(mc, " | ")+"} but in the engine when {"+strings.Join(tt[k], " | ")+"}")
				default:
					ru.Ok(key, pos, "when {"+strings.Join(mc, " | ")+"} on both sides")
				}
			}
			for _, k := range fw.SortedKeys(mt) {
				if _, ok := tt[k]; !ok {
					ru.Fail(mode+role+": "+k, pos, "fq's "+mine.roles[role].Name()+" has this effect with indent 0 / colour off when {"+strings.Join(mt[k], " | ")+"}; the engine's encoder never has it")
				}
			}
			if role == "array" || role == "object" {
				seq := func(evs []c07Event) string {
					var s []string
					for _, ev := range evs {
						s = append(s, ev.key)
					}
					return strings.Join(s, " ; ")
				}
				a, b := seq(me), seq(te)
				ru.Check(a == b, mode+role+": order", pos, b, "effects happen in the order ["+a+"] in fq but ["+b+"] in the engine")
			}
		}
	}
	mine.cfgNonNil = false
	r.Notes["engine_encoder_effect_tables"] = dump
	c07Clamp(ru, p, mine, theirs)
	c07KeyOrder(ru, p, mine, "fq")
	c07KeyOrder(ru, p, theirs, "engine")
	c07Pairs(ru, p, mine)
	c07Marshal(ru, p, mine)
}

func c07LookupFunc(pk *types.Package, name string) *types.Func {
	f, _ := pk.Scope().Lookup(name).(*types.Func)
	return f
}

// c07Clamp: the value formatted by the float role is the input clamped to [-MaxFloat64, MaxFloat64].
// The engine writes min(max(f, lo), hi); fq writes an if-chain. Both are reduced to (lo, hi).
func c07Clamp(ru *fw.Rule, p *fw.Program, mine, theirs *c07Enc) {
	bounds := func(e *c07Enc) (lo, hi string, how string) {
		var evs []c07Event
		c := e.roleCtx("float", &evs)
		c.run(c07State{cons: map[string]c07DNF{}})
		fn := e.roles["float"]
		data := fn.Params[1]
		var formatted ssa.Value
		for _, call := range fw.CallsIn(fn) {
			if f := call.Common().StaticCallee(); f != nil && f.String() == "strconv.AppendFloat" {
				formatted = call.Common().Args[1]
			}
		}
		if formatted == nil {
			return "", "", "no strconv.AppendFloat call"
		}
		// builtin form
		if mn, ok := formatted.(*ssa.Call); ok && fw.IsBuiltinCall(mn, "min") && len(mn.Common().Args) == 2 {
			if mx, ok := mn.Common().Args[0].(*ssa.Call); ok && fw.IsBuiltinCall(mx, "max") && len(mx.Common().Args) == 2 && mx.Common().Args[0] == ssa.Value(data) {
				l, ok1 := mx.Common().Args[1].(*ssa.Const)
				h, ok2 := mn.Common().Args[1].(*ssa.Const)
				if ok1 && ok2 {
					return c07ConstStr(l), c07ConstStr(h), ""
				}
			}
			return "", "", "min/max form not recognised"
		}
		phi, ok := formatted.(*ssa.Phi)
		if !ok {
			if formatted == ssa.Value(data) {
				return "", "", "the input is formatted unclamped: ±Inf prints as +Inf/-Inf, which is not JSON"
			}
			return "", "", "formatted value is neither min(max(f,lo),hi) nor an if-chain phi"
		}
		atom := c.desc(data)
		kind := c07AtomKind{float: true}
		for i, ev := range phi.Edges {
			pb := phi.Block().Preds[i]
			var st c07State
			for si, s := range pb.Succs {
				if s == phi.Block() {
					st = c.edge[pb][si]
				}
			}
			set := c07Canon(st.cons[atom], kind)
			switch x := ev.(type) {
			case *ssa.Const:
				v := c07ConstStr(x)
				switch set {
				case "[" + v + ",+inf)", "(" + v + ",+inf)":
					hi = v
				case "(-inf," + v + "]", "(-inf," + v + ")":
					lo = v
				default:
					return "", "", "constant " + v + " is chosen when f in " + set
				}
			default:
				if ev != ssa.Value(data) {
					return "", "", "phi edge is neither the input nor a constant"
				}
			}
		}
		if lo == "" || hi == "" {
			return lo, hi, "one clamp bound missing"
		}
		return lo, hi, ""
	}
	tl, th, terr := bounds(theirs)
	if terr != "" {
		ru.Undecided("float: clamp(engine)", p.Rel(theirs.roles["float"].Pos()), "engine clamp not recognised: "+terr)
		return
	}
	ml, mh, merr := bounds(mine)
	pos := p.Rel(mine.roles["float"].Pos())
	if merr != "" {
		ru.Fail("float: clamp", pos, "fq float clamp: "+merr+" (engine clamps to ["+tl+","+th+"])")
		return
	}
	ru.Check(ml == tl && mh == th, "float: clamp", pos, "clamped to ["+tl+","+th+"] on both sides", "fq clamps to ["+ml+","+mh+"], engine to ["+tl+","+th+"]")
}

// c07KeyOrder: object keys are sorted ascending before emission.
func c07KeyOrder(ru *fw.Rule, p *fw.Program, e *c07Enc, label string) {
	fn := e.roles["object"]
	key := "object: keys ascending (" + label + ")"
	pos := p.Rel(fn.Pos())
	verdict, detail := "", "no sort call found: Go map iteration order would leak into the output"
	for _, c := range fw.CallsIn(fn) {
		f := c.Common().StaticCallee()
		if f == nil {
			continue
		}
		name := c07CalleeShort(f)
		var cmpFn *ssa.Function
		for _, a := range c.Common().Args {
			if mc, ok := a.(*ssa.MakeClosure); ok {
				cmpFn, _ = mc.Fn.(*ssa.Function)
			} else if ff, ok := a.(*ssa.Function); ok {
				cmpFn = ff
			}
		}
		switch name {
		case "slices.SortFunc", "slices.SortStableFunc":
			if cmpFn == nil {
				continue
			}
			verdict, detail = c07CmpAscending(cmpFn, false)
		case "sort.Slice", "sort.SliceStable":
			if cmpFn == nil {
				continue
			}
			verdict, detail = c07CmpAscending(cmpFn, true)
		case "sort.Strings", "slices.Sort":
			verdict, detail = "ok", name
		}
	}
	switch verdict {
	case "ok":
		ru.Ok(key, pos, detail)
	case "":
		if label == "engine" {
			ru.Undecided(key, pos, detail)
		} else {
			ru.Fail(key, pos, detail)
		}
	default:
		if label == "engine" {
			ru.Undecided(key, pos, detail)
		} else {
			ru.Fail(key, pos, detail)
		}
	}
}

// c07CmpAscending: comparator orders by a string field/element, first argument before second.
func c07CmpAscending(f *ssa.Function, less bool) (string, string) {
	// origin of a string operand: which parameter it is derived from
	from := func(v ssa.Value) int {
		for i := 0; i < 8; i++ {
			switch x := v.(type) {
			case *ssa.Field:
				v = x.X
			case *ssa.UnOp:
				v = x.X
			case *ssa.FieldAddr:
				v = x.X
			case *ssa.IndexAddr:
				v = x.Index
			case *ssa.Index:
				v = x.Index
			case *ssa.Parameter:
				for j, pa := range f.Params {
					if pa == x {
						return j
					}
				}
				return -1
			case *ssa.Alloc:
				// parameter spilled to a local
				var src ssa.Value
				if x.Referrers() != nil {
					for _, r := range *x.Referrers() {
						if st, ok := r.(*ssa.Store); ok && st.Addr == ssa.Value(x) {
							src = st.Val
						}
					}
				}
				if src == nil {
					return -1
				}
				v = src
			default:
				return -1
			}
		}
		return -1
	}
	res := "bad"
	detail := "comparator not recognised"
	fw.EachInstr(f, func(ins ssa.Instruction) {
		ret, ok := ins.(*ssa.Return)
		if !ok || len(ret.Results) != 1 {
			return
		}
		switch x := ret.Results[0].(type) {
		case *ssa.BinOp:
			if !less {
				return
			}
			a, b := from(x.X), from(x.Y)
			if (x.Op == token.LSS && a == 0 && b == 1) || (x.Op == token.GTR && a == 1 && b == 0) {
				res, detail = "ok", "less(i,j) = key[i] < key[j]"
			} else {
				detail = "less function does not order keys ascending"
			}
		case *ssa.Call:
			if less {
				return
			}
			callee := x.Common().StaticCallee()
			if callee == nil || len(x.Common().Args) != 2 {
				return
			}
			n := c07CalleeShort(callee)
			if n != "cmp.Compare" && n != "strings.Compare" {
				detail = "comparator calls " + n
				return
			}
			a, b := from(x.Common().Args[0]), from(x.Common().Args[1])
			if a == 0 && b == 1 {
				res, detail = "ok", n+"(a.key, b.key)"
			} else {
				detail = "comparator arguments are swapped: keys are emitted in descending order"
			}
		}
	})
	return res, detail
}

// c07Marshal: the exported entry point encodes its own argument into the staging buffer and hands every
// staged byte exactly once to the caller's writer: the sink is set from the writer argument before encoding,
// a flush is executed on every path after encoding, the flush writes the staged bytes to the sink and then
// empties the buffer, and nothing else ever empties or truncates the buffer.
func c07Marshal(ru *fw.Rule, p *fw.Program, e *c07Enc) {
	ms := types.NewMethodSet(types.NewPointer(e.encT))
	var m *ssa.Function
	var methods []*ssa.Function
	for i := 0; i < ms.Len(); i++ {
		mf := p.SSA.MethodValue(ms.At(i))
		if mf == nil || mf.Blocks == nil {
			continue
		}
		methods = append(methods, mf)
		if ms.At(i).Obj().Exported() && ms.At(i).Obj().Name() == "Marshal" {
			m = mf
		}
	}
	if m == nil || len(m.Params) < 3 {
		ru.Undecided("Marshal", "", "colorjson.Encoder.Marshal(v, w) not found")
		return
	}
	var enc ssa.CallInstruction
	for _, c := range fw.CallsIn(m) {
		if f := c.Common().StaticCallee(); f != nil && e.roleOf[f] == "value" && len(c.Common().Args) == 2 && c.Common().Args[1] == ssa.Value(m.Params[1]) {
			enc = c
		}
	}
	ru.Check(enc != nil, "Marshal: encodes its argument", p.Rel(m.Pos()), "encode(v)", "Marshal does not pass its value argument to the value encoder")
	if enc == nil {
		return
	}
	// fields by type: the sink (an interface with Write) and the staging buffer (bytes.Buffer)
	st, _ := e.encT.Underlying().(*types.Struct)
	sinkF, bufF := -1, -1
	for i := 0; st != nil && i < st.NumFields(); i++ {
		t := st.Field(i).Type()
		if pt, ok := t.(*types.Pointer); ok {
			t = pt.Elem()
		}
		switch {
		case t.String() == "bytes.Buffer":
			bufF = i
		case t.String() == "io.Writer":
			sinkF = i
		}
	}
	if sinkF < 0 || bufF < 0 {
		ru.Undecided("Marshal: fields", p.Rel(m.Pos()), "encoder has no io.Writer sink field / bytes.Buffer staging field")
		return
	}
	// isField: v is (a load of) field idx of the function's receiver
	isField := func(fn *ssa.Function, v ssa.Value, idx int) bool {
		if u, ok := v.(*ssa.UnOp); ok && u.Op == token.MUL {
			v = u.X
		}
		fa, ok := v.(*ssa.FieldAddr)
		return ok && fa.Field == idx && len(fn.Params) > 0 && fa.X == ssa.Value(fn.Params[0])
	}
	bufCall := func(fn *ssa.Function, c ssa.CallInstruction, name string) bool {
		f := c.Common().StaticCallee()
		return f != nil && f.String() == "(*bytes.Buffer)."+name && len(c.Common().Args) >= 1 && isField(fn, c.Common().Args[0], bufF)
	}
	// sinkWrite: out.Write(buf.Bytes())
	sinkWrite := func(fn *ssa.Function) ssa.CallInstruction {
		for _, c := range fw.CallsIn(fn) {
			cc := c.Common()
			if !cc.IsInvoke() || cc.Method.Name() != "Write" || !isField(fn, cc.Value, sinkF) || len(cc.Args) != 1 {
				continue
			}
			if bc, ok := cc.Args[0].(*ssa.Call); ok && bufCall(fn, bc, "Bytes") {
				return c
			}
		}
		return nil
	}
	after := func(a, b ssa.Instruction) bool { // a is executed before b whenever b is
		if a.Block() == b.Block() {
			for _, ins := range a.Block().Instrs {
				if ins == a {
					return true
				}
				if ins == b {
					return false
				}
			}
		}
		return a.Block().Dominates(b.Block())
	}
	onEveryReturn := func(fn *ssa.Function, a ssa.Instruction) bool {
		ok, n := true, 0
		fw.EachInstr(fn, func(ins ssa.Instruction) {
			if ret, isRet := ins.(*ssa.Return); isRet {
				n++
				if !after(a, ret) {
					ok = false
				}
			}
		})
		return ok && n > 0
	}
	pos := p.Rel(m.Pos())
	// M1 sink
	okSink := false
	fw.EachInstr(m, func(ins ssa.Instruction) {
		if s, ok := ins.(*ssa.Store); ok && isField(m, s.Addr, sinkF) && s.Val == ssa.Value(m.Params[2]) && after(s, enc) {
			okSink = true
		}
	})
	ru.Check(okSink, "Marshal: sink", pos, "the sink is the writer argument, set before encoding", "Marshal does not store its writer argument into the sink field before encoding: output goes to a stale writer")
	// M2 flush on every path after encode
	var flushFn *ssa.Function
	okFlush := false
	for _, c := range fw.CallsIn(m) {
		f := c.Common().StaticCallee()
		if f == nil || f.Blocks == nil || len(c.Common().Args) == 0 || c.Common().Args[0] != ssa.Value(m.Params[0]) {
			continue
		}
		if sinkWrite(f) != nil {
			flushFn = f
			if after(enc, c) && onEveryReturn(m, c) {
				okFlush = true
			}
		}
	}
	if sw := sinkWrite(m); sw != nil && flushFn == nil {
		flushFn = m
		okFlush = after(enc, sw) && onEveryReturn(m, sw)
	}
	ru.Check(okFlush, "Marshal: flushes", pos, "the staged bytes are written to the sink on every path after encoding", "Marshal does not flush the staging buffer to the sink on every path after encoding: (the tail of) the output is never written")
	if flushFn == nil {
		return
	}
	// M3/M4 flush writes then resets, unconditionally
	sw := sinkWrite(flushFn)
	var reset ssa.CallInstruction
	for _, c := range fw.CallsIn(flushFn) {
		if bufCall(flushFn, c, "Reset") {
			reset = c
		}
	}
	ru.Check(reset != nil && after(sw, reset) && onEveryReturn(flushFn, reset), "flush: empties the buffer", p.Rel(flushFn.Pos()), "Write(buf.Bytes()) then buf.Reset() on every path", "the flush does not empty the staging buffer after writing it (on every path): the same bytes are written again by the next flush")
	// M5 nothing else drops staged bytes
	okOnly := true
	where := ""
	for _, fn := range methods {
		for _, c := range fw.CallsIn(fn) {
			if !(bufCall(fn, c, "Reset") || bufCall(fn, c, "Truncate") || bufCall(fn, c, "Next") || bufCall(fn, c, "Read")) {
				continue
			}
			w := sinkWrite(fn)
			if w == nil || !after(w, c) {
				okOnly = false
				where = p.Rel(c.Pos())
			}
		}
	}
	ru.Check(okOnly, "flush: only place that drops staged bytes", pos, "every Reset/Truncate of the staging buffer follows a write of its bytes to the sink", "staged output bytes are discarded without having been written to the sink (at "+where+")")
}

// c07IndMin: v is an integer counter `phi(c0, v+k)` with constant k > 0, or such a counter advanced by a
// constant; returns its least value (it starts at a constant and only grows; overflow is out of scope for
// indices into in-memory slices).
func c07IndMin(v ssa.Value) (int64, bool) {
	add := int64(0)
	if bo, ok := v.(*ssa.BinOp); ok && bo.Op == token.ADD {
		k, ok := bo.Y.(*ssa.Const)
		if !ok || k.Value == nil || k.Value.Kind() != constant.Int {
			return 0, false
		}
		add = k.Int64()
		v = bo.X
	}
	phi, ok := v.(*ssa.Phi)
	if !ok || len(phi.Edges) != 2 {
		return 0, false
	}
	var start *ssa.Const
	var step ssa.Value
	for _, e := range phi.Edges {
		if k, ok := e.(*ssa.Const); ok && k.Value != nil && k.Value.Kind() == constant.Int && start == nil {
			start = k
		} else {
			step = e
		}
	}
	bo, ok := step.(*ssa.BinOp)
	if start == nil || !ok || bo.Op != token.ADD || bo.X != ssa.Value(phi) {
		return 0, false
	}
	k, ok := bo.Y.(*ssa.Const)
	if !ok || k.Value == nil || k.Value.Kind() != constant.Int || k.Int64() <= 0 {
		return 0, false
	}
	return start.Int64() + add, true
}
