package rules

// C01 second self-review: rules for mechanisms the first set left open.
//
//	C01.ctor   constructors of the readers start at the logical start of the right window
//	C01.multi  MultiReader: cumulative ends, total end, early EOF, sub-reader selection, endPos
//	C01.fetch  IOBitReadSeeker.ReadBitsAt: which arm moves the bits, from where, how many
//
// (c01_more2.go: C01.bytes, C01.ioseek, C01.bufstate, C01.count, C01.copy, C01.stitch, C01.passthru)

import (
	"fmt"
	"go/token"
	"go/types"
	"sort"
	"strings"

	"golang.org/x/tools/go/ssa"

	"fqverif/fw"
)

// ---------------------------------------------------------------------------
// small SSA helpers (prefix c01x)

// c01xStrip removes integer conversions and interface wrappers.
func c01xStrip(v ssa.Value) ssa.Value { return fw.StripConv(v) }

// c01xFieldLoad: v is a load of field `field` of the struct the value base points to
// (base compared after stripping; nested path allowed: "IOReader.b").
func c01xFieldAddrIs(a ssa.Value, base ssa.Value, path string) bool {
	b, p := fw.AddrPath(a)
	return b == base && strings.Join(p, ".") == path
}

func c01xLoadOfField(v ssa.Value, base ssa.Value, path string) bool {
	u, ok := c01xStrip(v).(*ssa.UnOp)
	if !ok || u.Op != token.MUL {
		return false
	}
	return c01xFieldAddrIs(u.X, base, path)
}

// c01xElemLoad: v = *(&S[idx]) ; returns S (the slice value) and idx.
func c01xElemLoad(v ssa.Value) (slice ssa.Value, idx ssa.Value, ok bool) {
	u, isU := c01xStrip(v).(*ssa.UnOp)
	if !isU || u.Op != token.MUL {
		return nil, nil, false
	}
	ia, isIA := u.X.(*ssa.IndexAddr)
	if !isIA {
		return nil, nil, false
	}
	return ia.X, ia.Index, true
}

func c01xIsConst(v ssa.Value, k int64) bool {
	c, ok := c01xStrip(v).(*ssa.Const)
	return ok && c.Value != nil && c.Value.String() == fmt.Sprint(k)
}

// c01xLenOf: v is len(x) (through int conversions) and returns x.
func c01xLenOf(v ssa.Value) (ssa.Value, bool) {
	c, ok := c01xStrip(v).(*ssa.Call)
	if !ok || !fw.IsBuiltinCall(c, "len") {
		return nil, false
	}
	return c.Common().Args[0], true
}

// c01xGuard: block b is only reached with cond (rendered by describe) being `want`.
func c01xHasGuard(b *ssa.BasicBlock, match func(cond ssa.Value, truth bool) bool) bool {
	for _, g := range fw.Guards(b) {
		g = g.Normalize()
		if match(g.Cond, g.True) {
			return true
		}
	}
	return false
}

func c01xStaticCalls(fn *ssa.Function, short string) []*ssa.Call { return fw.CallsTo(fn, short) }

func c01xInvokes(fn *ssa.Function, method string) []*ssa.Call {
	var out []*ssa.Call
	fw.EachInstr(fn, func(ins ssa.Instruction) {
		if c, ok := ins.(*ssa.Call); ok && c.Common().IsInvoke() && c.Common().Method.Name() == method {
			out = append(out, c)
		}
	})
	return out
}

func c01xSuccessReturns(fn *ssa.Function) []*ssa.Return {
	var out []*ssa.Return
	for _, r := range returnsOf(fn) {
		if n := len(r.Results); n > 0 && isNilErr(r.Results[n-1]) {
			out = append(out, r)
		}
	}
	return out
}

// ---------------------------------------------------------------------------
// C01.ctor

type c01CtorSpec struct {
	fn     string
	fields map[string]string // field path -> SymEnv descriptor the constructor must store
	zero   []string          // cursor / carry / cache state that must start at its zero value (other fields are not constrained)
}

var c01Ctors = []c01CtorSpec{
	{"pkg/bitio.NewSectionReader", map[string]string{"r": "P0", "bitBase": "P1", "bitOff": "P1", "bitLimit": "(P1 + P2)"}, nil},
	{"pkg/bitio.NewIOBitReadSeeker", map[string]string{"rs": "P0"}, []string{"bitPos"}},
	{"pkg/bitio.NewLimitReader", map[string]string{"r": "P0", "n": "P1"}, nil},
	{"pkg/bitio.NewIOReader", map[string]string{"r": "P0"}, []string{"rErr", "b", "b.bufBits", "b.bitsOff"}},
	{"pkg/bitio.NewIOReadSeeker", map[string]string{"IOReader.r": "P0", "s": "P0"}, []string{"sPos", "IOReader.rErr", "IOReader.b", "IOReader.b.bufBits", "IOReader.b.bitsOff"}},
	{"pkg/bitio.NewIOBitWriter", map[string]string{"w": "P0"}, []string{"b", "b.bufBits", "b.bitsOff"}},
	{"pkg/bitio.NewMultiReader", map[string]string{"readers": "P0", "readerEnds": "makeslice<[]int64>"}, []string{"pos"}},
	{"internal/bitiox.NewZeroAtSeeker", map[string]string{"nBits": "P0"}, []string{"pos"}},
	{"internal/aheadreadseeker.New", map[string]string{"rs": "P0", "minRead": "P1"}, []string{"offset", "cacheOffset", "cacheUsed"}},
	{"internal/progressreadseeker.New", map[string]string{"rs": "P0"}, []string{"pos"}},
	{"internal/ctxreadseeker.New", map[string]string{"rs": "P1", "ctx": "P0"}, nil},
}

func c01Ctor(r *fw.Run, p *fw.Program) {
	ru := r.Rule("C01.ctor", "every reader constructor wires the wrapped reader it was given and starts at the logical start: NewSectionReader(r,off,n) = window [off, off+n) with the cursor at off; IOBitReadSeeker/Zero/Multi/ahead/progress start at position 0 with empty carry/cache state; NewBitReader(buf,n) is the section [0,n) (n<0: 8*len(buf)) of an IOBitReadSeeker over buf", 35)
	for _, sp := range c01Ctors {
		fn := getFn(ru, p, sp.fn)
		if fn == nil {
			continue
		}
		e := fw.NewSymEnv(fn)
		var lit ssa.Value
		n := 0
		for _, ret := range returnsOf(fn) {
			v := c01xStrip(ret.Results[0])
			if c, ok := v.(*ssa.Const); ok && c.IsNil() {
				continue
			}
			lit = v
			n++
		}
		if n != 1 {
			ru.Undecided(sp.fn+":literal", p.Rel(fn.Pos()), fmt.Sprintf("expected one non-nil return, found %d", n))
			continue
		}
		got, base, ok := e.Fields(lit)
		if !ok || base != "" {
			ru.Undecided(sp.fn+":literal", p.Rel(fn.Pos()), "constructor does not return a fresh composite literal assembled field by field")
			continue
		}
		var names []string
		for k := range sp.fields {
			names = append(names, k)
		}
		sort.Strings(names)
		for _, k := range names {
			want, g := sp.fields[k], got[k]
			ru.Check(g == want, sp.fn+":"+k, p.Rel(fn.Pos()), k+" = "+g, "field "+k+" is initialised to "+g+", must be "+want)
		}
		for _, k := range sp.zero {
			g := got[k]
			ru.Check(fw.IsZeroDesc(g), sp.fn+":"+k, p.Rel(fn.Pos()), k+" starts zero", "field "+k+" (cursor / carry / cache state) starts as "+g+", must start at its zero value")
		}
	}
	// NewBitReader
	if fn := getFn(ru, p, "pkg/bitio.NewBitReader"); fn != nil {
		e := fw.NewSymEnv(fn)
		cs := c01xStaticCalls(fn, "pkg/bitio.NewSectionReader")
		if len(cs) != 1 {
			ru.Undecided("NewBitReader:section", p.Rel(fn.Pos()), "expected one NewSectionReader call")
		} else {
			c := cs[0]
			a := c.Common().Args
			ru.Check(e.Of(a[0]) == "pkg/bitio.NewIOBitReadSeeker(bytes.NewReader(P0))", "NewBitReader:source", p.Rel(c.Pos()), "IOBitReadSeeker over bytes.NewReader(buf)", "source of NewBitReader is "+e.Of(a[0])+", must be NewIOBitReadSeeker(bytes.NewReader(buf))")
			ru.Check(e.Of(a[1]) == "0", "NewBitReader:start", p.Rel(c.Pos()), "window starts at bit 0", "window of NewBitReader starts at "+e.Of(a[1])+", must start at bit 0")
			cnt := e.Of(a[2])
			okCnt := cnt == "phi{(8 * len(P0))|P1}"
			// the 8*len(buf) arm is taken exactly for nBits < 0
			if ph, ok := a[2].(*ssa.Phi); ok && okCnt {
				for i, ed := range ph.Edges {
					pred := ph.Block().Preds[i]
					neg := c01xHasGuard(pred, func(cond ssa.Value, truth bool) bool { return e.Of(cond) == "(P1 < 0)" && truth }) || c01xEdgeCond(pred, ph.Block(), e, "(P1 < 0)", true)
					if e.Of(ed) == "P1" {
						okCnt = okCnt && (c01xEdgeCond(pred, ph.Block(), e, "(P1 < 0)", false) || c01xHasGuard(pred, func(cond ssa.Value, truth bool) bool { return e.Of(cond) == "(P1 < 0)" && !truth }))
					} else {
						okCnt = okCnt && neg
					}
				}
			}
			ru.Check(okCnt, "NewBitReader:length", p.Rel(c.Pos()), "nBits, or 8*len(buf) when negative", "window length of NewBitReader is "+cnt+", must be nBits, or 8*len(buf) exactly when nBits < 0")
		}
	}
}

// c01xEdgeCond: the edge pred->succ is taken exactly when the If ending pred has cond (rendered) == desc with the given truth.
func c01xEdgeCond(pred, succ *ssa.BasicBlock, e *fw.SymEnv, desc string, truth bool) bool {
	ifi, ok := pred.Instrs[len(pred.Instrs)-1].(*ssa.If)
	if !ok || pred.Succs[0] == pred.Succs[1] {
		return false
	}
	g := fw.Guard{Cond: ifi.Cond, True: true}.Normalize()
	if e.Of(g.Cond) != desc {
		return false
	}
	if pred.Succs[0] == succ {
		return g.True == truth
	}
	if pred.Succs[1] == succ {
		return g.True != truth
	}
	return false
}

// ---------------------------------------------------------------------------
// C01.multi

// c01LenGuard: block b is only reached with len(m.readers) (or len(m.readerEnds)) > 0 when nonEmpty, == 0 otherwise.
func c01LenGuard(b *ssa.BasicBlock, m ssa.Value, nonEmpty bool) bool {
	return c01xHasGuard(b, func(cond ssa.Value, truth bool) bool {
		c, ok := cond.(*ssa.BinOp)
		if !ok {
			return false
		}
		l, isLen := c01xLenOf(c.X)
		if !isLen || !(c01xLoadOfField(l, m, "readers") || c01xLoadOfField(l, m, "readerEnds")) {
			return false
		}
		pos := (c.Op == token.GTR && c01xIsConst(c.Y, 0) && truth) || (c.Op == token.NEQ && c01xIsConst(c.Y, 0) && truth) ||
			(c.Op == token.EQL && c01xIsConst(c.Y, 0) && !truth) || (c.Op == token.GEQ && c01xIsConst(c.Y, 1) && truth) ||
			(c.Op == token.LEQ && c01xIsConst(c.Y, 0) && !truth) || (c.Op == token.LSS && c01xIsConst(c.Y, 1) && !truth)
		neg := (c.Op == token.GTR && c01xIsConst(c.Y, 0) && !truth) || (c.Op == token.NEQ && c01xIsConst(c.Y, 0) && !truth) ||
			(c.Op == token.EQL && c01xIsConst(c.Y, 0) && truth) || (c.Op == token.GEQ && c01xIsConst(c.Y, 1) && !truth) ||
			(c.Op == token.LEQ && c01xIsConst(c.Y, 0) && truth) || (c.Op == token.LSS && c01xIsConst(c.Y, 1) && truth)
		if nonEmpty {
			return pos
		}
		return neg
	})
}

// c01LastEnd: v is m.readerEnds[len(m.readers|m.readerEnds)-1].
func c01LastEnd(v ssa.Value, m ssa.Value) bool {
	sl, idx, ok := c01xElemLoad(v)
	if !ok || !c01xLoadOfField(sl, m, "readerEnds") {
		return false
	}
	bo, ok := c01xStrip(idx).(*ssa.BinOp)
	if !ok || bo.Op != token.SUB || !c01xIsConst(bo.Y, 1) {
		return false
	}
	lx, ok := c01xLenOf(bo.X)
	return ok && (c01xLoadOfField(lx, m, "readers") || c01xLoadOfField(lx, m, "readerEnds"))
}

// c01TotalEnd: v is the logical end of MultiReader m: readerEnds[last] when there are readers, 0 otherwise.
// Accepted shapes: the phi{0 | readerEnds[last]} of "var end; if len > 0 { end = ... }", or a call of a helper
// method on m all of whose returns are that value (a phi as above, or 0 / readerEnds[last] returned under the
// matching length test).
func c01TotalEnd(v ssa.Value, m ssa.Value) bool {
	switch x := v.(type) {
	case *ssa.Phi:
		if len(x.Edges) != 2 {
			return false
		}
		zero, elem := false, false
		for i, ed := range x.Edges {
			if c01xIsConst(ed, 0) {
				zero = true
				continue
			}
			if !c01LastEnd(ed, m) {
				return false
			}
			pred := x.Block().Preds[i]
			if !c01LenGuard(pred, m, true) && !c01LenGuard(ed.(ssa.Instruction).Block(), m, true) {
				return false
			}
			elem = true
		}
		return zero && elem
	case *ssa.Call:
		g := x.Common().StaticCallee()
		if g == nil || g.Blocks == nil || len(g.Params) != 1 || len(x.Common().Args) != 1 || x.Common().Args[0] != m {
			return false
		}
		if fn := x.Parent(); fn == nil || g.Pkg != fn.Pkg {
			return false
		}
		rets := returnsOf(g)
		if len(rets) == 0 {
			return false
		}
		sawElem := false
		for _, ret := range rets {
			if len(ret.Results) != 1 {
				return false
			}
			rv := ret.Results[0]
			switch {
			case c01IsPhiTotalEnd(rv, g.Params[0]):
				sawElem = true
			case c01xIsConst(rv, 0) && c01LenGuard(ret.Block(), g.Params[0], false):
			case c01LastEnd(rv, g.Params[0]) && (c01LenGuard(ret.Block(), g.Params[0], true) || c01LenGuard(rv.(ssa.Instruction).Block(), g.Params[0], true)):
				sawElem = true
			default:
				return false
			}
		}
		return sawElem
	}
	return false
}

func c01IsPhiTotalEnd(v ssa.Value, m ssa.Value) bool {
	ph, ok := v.(*ssa.Phi)
	return ok && c01TotalEnd(ph, m)
}

// c01FindTotalEnd returns the values of fn that are the total end of its receiver.
func c01FindTotalEnd(fn *ssa.Function) []ssa.Value {
	var out []ssa.Value
	if len(fn.Params) == 0 {
		return nil
	}
	fw.EachInstr(fn, func(ins ssa.Instruction) {
		switch x := ins.(type) {
		case *ssa.Phi:
			if c01TotalEnd(x, fn.Params[0]) {
				out = append(out, x)
			}
		case *ssa.Call:
			if c01TotalEnd(x, fn.Params[0]) {
				out = append(out, x)
			}
		}
	})
	return out
}

func c01Multi(r *fw.Run, p *fw.Program) {
	ru := r.Rule("C01.multi", "MultiReader: readerEnds[i] is the running sum of the sub-readers' end positions (endPos = SeekBits(0,End), position restored); the logical end is readerEnds[last] (0 when empty); ReadBitsAt answers EOF for every offset >= end before choosing, picks readers[i] for the first i with bitOff < readerEnds[i] and stops searching there, and rebases the offset by readerEnds[i-1] (0 for the first)", 10)

	// endPos
	if fn := getFn(ru, p, "pkg/bitio.endPos"); fn != nil {
		e := fw.NewSymEnv(fn)
		end := "invoke.SeekBits(P0,0,2)#0"
		good := false
		var okRet *ssa.Return
		for _, ret := range c01xSuccessReturns(fn) {
			good = e.Of(ret.Results[0]) == end
			okRet = ret
		}
		ru.Check(good, "endPos:end", p.Rel(fn.Pos()), "endPos = SeekBits(0, SeekEnd)", "endPos must return the position SeekBits(0, io.SeekEnd) reports")
		restore := false
		for _, c := range c01xInvokes(fn, "SeekBits") {
			if e.CallDesc(c) == "invoke.SeekBits(P0,invoke.SeekBits(P0,0,1)#0,0)" && okRet != nil && precedesOnAllPaths(c, okRet) {
				restore = true
				for _, c2 := range c01xInvokes(fn, "SeekBits") {
					if c2 != c && !precedesOnAllPaths(c2, c) {
						restore = false // a seek after the restore
					}
				}
			}
		}
		ru.Check(restore, "endPos:restore", p.Rel(fn.Pos()), "position restored last", "endPos must finish by seeking back (SeekStart) to the position SeekBits(0, SeekCurrent) reported at entry: sub-readers are shared")
	}

	// NewMultiReader: cumulative ends
	if fn := getFn(ru, p, "pkg/bitio.NewMultiReader"); fn != nil {
		var mk *ssa.MakeSlice
		fw.EachInstr(fn, func(ins ssa.Instruction) {
			if m, ok := ins.(*ssa.MakeSlice); ok && types.TypeString(m.Type(), nil) == "[]int64" {
				mk = m
			}
		})
		if mk == nil || len(fn.Params) != 1 {
			ru.Undecided("New:ends", p.Rel(fn.Pos()), "no []int64 slice for the cumulative ends")
		} else {
			rs := fn.Params[0]
			l, isLen := c01xLenOf(mk.Len)
			ru.Check(isLen && l == ssa.Value(rs), "New:ends-len", p.Rel(mk.Pos()), "one end per reader", "readerEnds must have exactly len(rs) elements")
			var sts []*ssa.Store
			fw.EachInstr(fn, func(ins ssa.Instruction) {
				if st, ok := ins.(*ssa.Store); ok {
					if ia, ok := st.Addr.(*ssa.IndexAddr); ok && ia.X == ssa.Value(mk) {
						sts = append(sts, st)
					}
				}
			})
			if len(sts) != 1 {
				ru.Undecided("New:ends-store", p.Rel(fn.Pos()), fmt.Sprintf("expected one store into readerEnds, found %d", len(sts)))
			} else {
				st := sts[0]
				idx := st.Addr.(*ssa.IndexAddr).Index
				msg := ""
				sum, ok := c01xStrip(st.Val).(*ssa.BinOp)
				if !ok || sum.Op != token.ADD {
					msg = "the stored end is not previous sum + this reader's end"
				} else {
					var acc *ssa.Phi
					var e ssa.Value
					for _, pair := range [][2]ssa.Value{{sum.X, sum.Y}, {sum.Y, sum.X}} {
						if ph, ok := pair[0].(*ssa.Phi); ok {
							acc, e = ph, pair[1]
						}
					}
					switch {
					case acc == nil:
						msg = "the stored end does not add to a running sum"
					default:
						for _, ed := range acc.Edges {
							if !(c01xIsConst(ed, 0) || ed == ssa.Value(sum)) {
								msg = "the running sum is not 0 at the start and the last stored end afterwards"
							}
						}
						ex, ok := e.(*ssa.Extract)
						var call *ssa.Call
						if ok && ex.Index == 0 {
							call, _ = ex.Tuple.(*ssa.Call)
						}
						if call == nil || call.Common().StaticCallee() == nil || fw.ShortName(call.Common().StaticCallee().String()) != "pkg/bitio.endPos" {
							if msg == "" {
								msg = "the added term is not endPos(reader)"
							}
						} else {
							sl, i2, ok := c01xElemLoad(call.Common().Args[0])
							if !ok || sl != ssa.Value(rs) || i2 != idx {
								if msg == "" {
									msg = "endPos is not taken of rs[i] for the index i that is stored"
								}
							}
						}
					}
				}
				ru.Check(msg == "", "New:ends-sum", p.Rel(st.Pos()), "readerEnds[i] = readerEnds[i-1] + endPos(rs[i])", "NewMultiReader: "+msg)
			}
		}
	}

	// ReadBitsAt
	if fn := c01Fn(ru, p, "(*pkg/bitio.MultiReader).ReadBitsAt"); fn != nil {
		env := fw.NewPolyEnv(fn)
		m, bitOff := fn.Params[0], fn.Params[3]
		ends := c01FindTotalEnd(fn)
		calls := c01xInvokes(fn, "ReadBitsAt")
		if len(ends) == 0 && len(calls) == 1 {
			ru.Fail("ReadBitsAt:end", p.Rel(fn.Pos()), "the logical end used by ReadBitsAt is not readerEnds[len-1] (0 when there are no readers)")
		} else if len(ends) != 1 || len(calls) != 1 {
			ru.Undecided("ReadBitsAt:end", p.Rel(fn.Pos()), fmt.Sprintf("expected one total-end value (readerEnds[last], 0 when empty) and one delegated read, found %d and %d", len(ends), len(calls)))
		} else {
			end, c := ends[0], calls[0]
			ru.Ok("ReadBitsAt:end", p.Rel(end.Pos()), "end = readerEnds[last] or 0")
			endP := env.Of(end)
			ru.Check(env.Proves(c.Block(), fw.Cmp{P: fw.PAtom("bitOff").Sub(endP), Rel: fw.LT}), "ReadBitsAt:early-eof", p.Rel(c.Pos()), "delegates only for bitOff < end",
				"a sub-reader is read although bitOff may be >= the logical end: offsets at or past the end must return EOF (otherwise the first reader's bits are handed out past the end)")
			// EOF suppression compares with the same end
			supp := false
			rBits := env.Of(extractOrSelf(c, 0))
			fw.EachInstr(fn, func(ins ssa.Instruction) {
				if ifi, ok := ins.(*ssa.If); ok {
					if cmp, ok := env.CmpOf(ifi.Cond); ok && cmp.Rel == fw.LT && cmp.P.Equal(fw.PAtom("bitOff").Add(rBits).Sub(endP)) {
						supp = true
					}
				}
			})
			ru.Check(supp, "ReadBitsAt:eof-end", p.Rel(c.Pos()), "EOF suppression compares with the total end", "the sub-reader's EOF must be suppressed by comparing bitOff + bits read with the total end (readerEnds[last])")

			// selection
			var sel *ssa.If
			var elem ssa.Value
			fw.EachInstr(fn, func(ins ssa.Instruction) {
				ifi, ok := ins.(*ssa.If)
				if !ok {
					return
				}
				bo, ok := ifi.Cond.(*ssa.BinOp)
				if !ok {
					return
				}
				x, y, op := bo.X, bo.Y, bo.Op
				if op == token.GTR {
					x, y, op = y, x, token.LSS
				}
				if op == token.LSS && x == ssa.Value(bitOff) {
					if sl, _, ok := c01xElemLoad(y); ok && c01xLoadOfField(sl, m, "readerEnds") {
						sel, elem = ifi, y
					}
				}
			})
			if sel == nil {
				ru.Fail("ReadBitsAt:pick", p.Rel(fn.Pos()), "no test bitOff < readerEnds[i] selecting the sub-reader")
			} else {
				_, idx, _ := c01xElemLoad(elem)
				match := sel.Block().Succs[0]
				// the reader read from: a phi at the call block with an edge from the match block carrying m.readers[idx]
				msg := ""
				rph, ok := c.Common().Value.(*ssa.Phi)
				if !ok || rph.Block() != c.Block() {
					msg = "the search does not stop at the first reader whose cumulative end is above bitOff (the chosen reader is not fixed when the test succeeds)"
				} else {
					found := false
					for i, ed := range rph.Edges {
						sl, i2, ok := c01xElemLoad(ed)
						if !ok || !c01xLoadOfField(sl, m, "readers") {
							msg = "the reader read from is not an element of m.readers"
							continue
						}
						pred := rph.Block().Preds[i]
						if pred == match || match.Dominates(pred) && !fw.BlockReaches(pred, sel.Block()) {
							if i2 == idx {
								found = true
							} else {
								msg = "the reader chosen when bitOff < readerEnds[i] is not readers[i]"
							}
						}
					}
					if !found && msg == "" {
						msg = "the reader chosen when bitOff < readerEnds[i] is not readers[i], or the search continues after the match"
					}
					if fw.BlockReaches(match, sel.Block()) {
						msg = "the search continues after the first match (missing break)"
					}
				}
				ru.Check(msg == "", "ReadBitsAt:pick", p.Rel(sel.Pos()), "readers[i] for the first i with bitOff < readerEnds[i]", "MultiReader.ReadBitsAt: "+msg)
				// rebase: offset = bitOff - prev, prev = phi{0 | the compared element of the previous iteration}
				msg = ""
				off, ok := c01xStrip(c.Common().Args[2]).(*ssa.BinOp)
				if !ok || off.Op != token.SUB || off.X != ssa.Value(bitOff) {
					msg = "offset passed down is not bitOff - previous end"
				} else if prev, ok := off.Y.(*ssa.Phi); !ok {
					msg = "previous end is not carried from the preceding iteration"
				} else {
					z, el := false, false
					for _, ed := range prev.Edges {
						switch {
						case c01xIsConst(ed, 0):
							z = true
						case ed == elem:
							el = true
						default:
							msg = "previous end is neither 0 nor the cumulative end of the reader just skipped"
						}
					}
					if msg == "" && !(z && el) {
						msg = "previous end must start at 0 and become readerEnds[i] when reader i is skipped"
					}
				}
				ru.Check(msg == "", "ReadBitsAt:rebase", p.Rel(c.Pos()), "offset = bitOff - readerEnds[i-1]", "MultiReader.ReadBitsAt: "+msg)
			}
		}
	}

	// SeekBits: SeekEnd is relative to the total end, and the upper bound is the total end
	if fn := c01Fn(ru, p, "(*pkg/bitio.MultiReader).SeekBits"); fn != nil {
		env := fw.NewPolyEnv(fn)
		ends := c01FindTotalEnd(fn)
		sts := storesTo(fn, "m.pos")
		if len(ends) == 0 && len(sts) == 1 {
			ru.Fail("SeekBits:end", p.Rel(fn.Pos()), "the logical end used by SeekBits is not readerEnds[len-1] (0 when there are no readers)")
		} else if len(ends) != 1 || len(sts) != 1 {
			ru.Undecided("SeekBits:end", p.Rel(fn.Pos()), "expected one total-end value and one cursor store")
		} else {
			arms, _ := phiArmsByConst(env, sts[0].Val, "whence")
			got, ok := arms[2]
			ru.Check(ok && got.Equal(fw.PAtom("bitOff").Add(env.Of(ends[0]))), "SeekBits:end", p.Rel(sts[0].Pos()), "SeekEnd = readerEnds[last] + bitOff", "SeekEnd must be relative to the total end readerEnds[last] (0 when there are no readers)")
		}
	}
}

// ---------------------------------------------------------------------------
// C01.fetch

func c01Fetch(r *fw.Run, p *fw.Program) {
	ru := r.Rule("C01.fetch", "IOBitReadSeeker.ReadBitsAt moves the fetched bytes correctly: the byte-copy arm is used only for bitOffset%8 == 0 and copies from the start of the fetch buffer to the start of p; otherwise byte i of p is Read64(buf, bitOffset%8 + 8i, 8) for i in [0, n/8) and the last partial byte is Read64(buf, bitOffset%8 + 8(n/8), n%8) << (8 - n%8), n being the count returned; a short fetch (io.ErrUnexpectedEOF) is never turned into (0, err)", 6)
	fn := c01Fn(ru, p, "(*pkg/bitio.IOBitReadSeeker).ReadBitsAt")
	if fn == nil {
		return
	}
	env := fw.NewPolyEnv(fn)
	recv, pPar := fn.Params[0], fn.Params[1]
	skip := fw.PAtom("(bitOffset % 8)")
	skipAlt := fw.PAtom("(7 & bitOffset)")
	hasSkip := func(pl *fw.Poly) (*fw.Poly, bool) {
		if pl.Coef("(bitOffset % 8)") == 1 {
			return pl.Sub(skip), true
		}
		if pl.Coef("(7 & bitOffset)") == 1 {
			return pl.Sub(skipAlt), true
		}
		return nil, false
	}
	// returned count on the data paths
	var nV ssa.Value
	for _, ret := range returnsOf(fn) {
		if len(ret.Results) == 2 && !c01xIsConst(ret.Results[0], 0) {
			if nV == nil {
				nV = ret.Results[0]
			} else if nV != ret.Results[0] {
				nV = nil
				break
			}
		}
	}
	if nV == nil {
		ru.Undecided("count", p.Rel(fn.Pos()), "the data paths do not return one common count value")
		return
	}
	nP := env.Of(nV)
	div := func(x *fw.Poly) []string { return []string{"(" + x.String() + " / 8)", "(" + x.String() + " >> 3)"} }
	rem := func(x *fw.Poly) []string {
		return []string{"(" + x.String() + " % 8)", "(7 & " + x.String() + ")", "(" + x.String() + " & 7)"}
	}
	oneOf := func(pl *fw.Poly, names []string) bool {
		for _, n := range names {
			if pl.Equal(fw.PAtom(n)) {
				return true
			}
		}
		return false
	}

	// 1. byte-copy arm
	var cp *ssa.Call
	for _, c := range fw.CallsIn(fn) {
		if fw.IsBuiltinCall(c, "copy") {
			if cc, ok := c.(*ssa.Call); ok {
				cp = cc
			}
		}
	}
	if cp != nil {
		aligned := env.Proves(cp.Block(), fw.Cmp{P: skip, Rel: fw.EQ}) || env.Proves(cp.Block(), fw.Cmp{P: skipAlt, Rel: fw.EQ})
		ru.Check(aligned, "copy:aligned", p.Rel(cp.Pos()), "byte copy only when bitOffset%8 == 0", "the byte-copy arm is reachable with bitOffset%8 != 0: the bits would be handed out unshifted")
		okSl := true
		detail := ""
		for i, want := range []ssa.Value{pPar, nil} {
			sl, ok := cp.Common().Args[i].(*ssa.Slice)
			if !ok {
				// the whole slice
				if i == 0 && cp.Common().Args[i] == ssa.Value(pPar) || i == 1 && c01xLoadOfField(cp.Common().Args[i], recv, "buf") {
					continue
				}
				okSl, detail = false, "operand is not p / r.buf"
				continue
			}
			if sl.Low != nil && !c01xIsConst(sl.Low, 0) {
				okSl, detail = false, fmt.Sprintf("operand %d starts at %s", i, env.Of(sl.Low))
			}
			if want != nil && sl.X != want {
				okSl, detail = false, "destination is not p"
			}
			if want == nil && !c01xLoadOfField(sl.X, recv, "buf") {
				okSl, detail = false, "source is not the fetch buffer r.buf"
			}
		}
		ru.Check(okSl, "copy:from-start", p.Rel(cp.Pos()), "copy(p[0:], r.buf[0:])", "byte-copy arm: "+detail+"; it must copy from the start of the fetch buffer to the start of p")
	} else {
		ru.Ok("copy:aligned", p.Rel(fn.Pos()), "no byte-copy arm (all reads go through Read64)")
	}

	// 2. error classification of the fetch
	rfs := methodCalls(fn, "ReadFull")
	if len(rfs) == 1 {
		rerr := extractOf(rfs[0], 1)
		isShortTest := func(cond ssa.Value) bool {
			c, ok := cond.(*ssa.Call)
			if !ok || c.Common().StaticCallee() == nil || c.Common().StaticCallee().String() != "errors.Is" {
				return false
			}
			a := c.Common().Args
			if a[0] != rerr {
				return false
			}
			u, ok := a[1].(*ssa.UnOp)
			if !ok {
				return false
			}
			g, ok := u.X.(*ssa.Global)
			return ok && g.Name() == "ErrUnexpectedEOF" && g.Pkg.Pkg.Path() == "io"
		}
		n := 0
		for _, ret := range returnsOf(fn) {
			if len(ret.Results) == 2 && ret.Results[1] == rerr && c01xIsConst(ret.Results[0], 0) {
				n++
				ok := c01xHasGuard(ret.Block(), func(cond ssa.Value, truth bool) bool { return isShortTest(cond) && !truth })
				ru.Check(ok, fmt.Sprintf("short:passthrough%d", n), p.Rel(ret.Pos()), "(0, err) only when err is not io.ErrUnexpectedEOF", "the fetch error is returned with 0 bits although it may be io.ErrUnexpectedEOF (a short fetch at the end of the data): the bits before the end are lost")
			}
		}
		// the truncation is applied exactly under errors.Is(err, io.ErrUnexpectedEOF)
		if ph, ok := nV.(*ssa.Phi); ok {
			for i, ed := range ph.Edges {
				if ed == ssa.Value(fn.Params[2]) {
					continue
				}
				b := ph.Block().Preds[i]
				ok := c01xHasGuard(b, func(cond ssa.Value, truth bool) bool { return isShortTest(cond) && truth }) || func() bool {
					if ins, isI := ed.(ssa.Instruction); isI {
						return c01xHasGuard(ins.Block(), func(cond ssa.Value, truth bool) bool { return isShortTest(cond) && truth })
					}
					return false
				}()
				ru.Check(ok, "short:when", p.Rel(ph.Pos()), "count truncated exactly on io.ErrUnexpectedEOF", "the count is truncated on a path that is not the io.ErrUnexpectedEOF (short fetch) path")
			}
		}
	} else {
		ru.Undecided("short:passthrough", p.Rel(fn.Pos()), "expected one io.ReadFull")
	}

	// 3. Read64 based extraction: stores into p
	type pst struct {
		st   *ssa.Store
		idx  ssa.Value
		call *ssa.Call
		shl  ssa.Value // shift count or nil
	}
	var psts []pst
	bad := ""
	fw.EachInstr(fn, func(ins ssa.Instruction) {
		st, ok := ins.(*ssa.Store)
		if !ok {
			return
		}
		ia, ok := st.Addr.(*ssa.IndexAddr)
		if !ok || ia.X != ssa.Value(pPar) {
			return
		}
		v := st.Val
		var sh ssa.Value
		if bo, ok := v.(*ssa.BinOp); ok && bo.Op == token.SHL {
			v, sh = bo.X, bo.Y
		}
		cv, ok := v.(*ssa.Convert)
		if !ok {
			bad = "a byte stored into p is not byte(Read64(...))"
			return
		}
		c, ok := cv.X.(*ssa.Call)
		if !ok || c.Common().StaticCallee() == nil || fw.ShortName(c.Common().StaticCallee().String()) != "pkg/bitio.Read64" {
			bad = "a byte stored into p is not byte(Read64(...))"
			return
		}
		if !c01xLoadOfField(c.Common().Args[0], recv, "buf") {
			bad = "Read64 does not read the fetch buffer r.buf"
		}
		psts = append(psts, pst{st, ia.Index, c, sh})
	})
	if bad != "" {
		ru.Fail("extract:shape", p.Rel(fn.Pos()), bad)
	}
	var loopSt, restSt *pst
	for i := range psts {
		if psts[i].shl == nil {
			loopSt = &psts[i]
		} else {
			restSt = &psts[i]
		}
	}
	if loopSt == nil || restSt == nil || len(psts) != 2 {
		ru.Undecided("extract:stores", p.Rel(fn.Pos()), fmt.Sprintf("expected a whole-byte store loop and one shifted last-byte store into p, found %d stores", len(psts)))
		return
	}
	// loop: i from 0 step 1 while i < n/8
	{
		s := loopSt
		msg := ""
		iph, ok := c01xStrip(s.idx).(*ssa.Phi)
		if !ok {
			msg = "index is not a loop counter"
		} else {
			// fresh environment with the counter named symbolically (loop phis render differently inside their own cycle)
			env := fw.NewPolyEnv(fn)
			env.Subst = map[ssa.Value]*fw.Poly{iph: fw.PAtom("I")}
			for _, ed := range iph.Edges {
				if c01xIsConst(ed, 0) {
					continue
				}
				if bo, ok := ed.(*ssa.BinOp); ok && bo.Op == token.ADD && (bo.X == ssa.Value(iph) && c01xIsConst(bo.Y, 1) || bo.Y == ssa.Value(iph) && c01xIsConst(bo.X, 1)) {
					continue
				}
				msg = "loop counter does not run 0,1,2,..."
			}
			iP := env.Of(iph)
			// bound
			okB := false
			for _, f := range env.Facts(s.st.Block()) {
				if f.Rel == fw.LT && oneOf(iP.Sub(f.P), div(nP)) {
					okB = true
				}
			}
			if !okB && (iph.Block() == s.st.Block() || iph.Block().Dominates(s.st.Block())) {
				// rotated loop (range over an integer): the bound is tested on every edge into the body
				all := len(iph.Edges) > 0
				for j, ed := range iph.Edges {
					edgeOK := false
					var ep *fw.Poly
					if c01xIsConst(ed, 0) {
						ep = fw.PConst(0)
					} else {
						ep = iP.Add(fw.PConst(1))
					}
					for _, f := range env.EdgeFacts(iph.Block().Preds[j], iph.Block()) {
						if f.Rel == fw.LT && oneOf(ep.Sub(f.P), div(nP)) {
							edgeOK = true
						}
					}
					all = all && edgeOK
				}
				okB = all
			}
			if !okB && msg == "" {
				msg = "loop is not bounded by i < n/8 with n the returned count " + nP.String()
			}
			a := s.call.Common().Args
			rest, ok := hasSkip(env.Of(a[1]))
			if (!ok || !rest.Equal(iP.MulC(8))) && msg == "" {
				msg = "byte i is read at bit " + env.Of(a[1]).String() + ", must be bitOffset%8 + 8*i"
			}
			if !c01xIsConst(a[2], 8) && msg == "" {
				msg = "whole bytes must be read with 8 bits"
			}
		}
		ru.Check(msg == "", "extract:bytes", p.Rel(s.st.Pos()), "p[i] = Read64(buf, skip+8i, 8), i in [0, n/8)", "whole-byte extraction: "+msg)
	}
	{
		s := restSt
		msg := ""
		a := s.call.Common().Args
		iP := env.Of(s.idx)
		if !oneOf(iP, div(nP)) {
			msg = "last byte is stored at p[" + iP.String() + "], must be p[n/8] with n the returned count"
		}
		rest, ok := hasSkip(env.Of(a[1]))
		if msg == "" && (!ok || !rest.Equal(iP.MulC(8))) {
			msg = "last bits are read at bit " + env.Of(a[1]).String() + ", must be bitOffset%8 + 8*(n/8)"
		}
		rP := env.Of(a[2])
		if msg == "" && !oneOf(rP, rem(nP)) {
			msg = "last bits are read with count " + rP.String() + ", must be n%8"
		}
		if msg == "" && !env.Of(s.shl).Equal(fw.PConst(8).Sub(rP)) {
			msg = "last bits are shifted left by " + env.Of(s.shl).String() + ", must be 8 - n%8 (most significant bits of the byte)"
		}
		if msg == "" && !env.Proves(s.st.Block(), fw.Cmp{P: rP, Rel: fw.NE}) && !env.Proves(s.st.Block(), fw.Cmp{P: rP, Rel: fw.GT}) {
			msg = "last byte is stored even when n%8 == 0 (index past the requested bytes)"
		}
		ru.Check(msg == "", "extract:last", p.Rel(s.st.Pos()), "p[n/8] = Read64(buf, skip+8(n/8), n%8) << (8-n%8)", "last partial byte: "+msg)
	}
}
