package rules

// C16: serialization decoders recover the encoded value.
//
// Static necessary conditions, per format:
//   - type-code tables are total over their read domain and every row's handler reads what the
//     wire format says (reader kind / width / length-prefix width / net bits consumed),
//   - the torepr jq reducers route every Go row to an arm that reads a field the row produces,
//     compare only against Sym strings the Go tables emit, and build containers with total
//     constructions ({} / [] for empty input),
//   - text decoders accept only "one top-level value, then EOF".
//
// This file holds the shared machinery: decode-op classification, linear width expressions,
// SSA literal tables and a small path-sensitive fact propagation over one function's CFG.

import (
	"fmt"
	"go/constant"
	"go/token"
	"go/types"
	"regexp"
	"sort"
	"strconv"
	"strings"

	"golang.org/x/tools/go/ssa"

	"fqverif/fw"
)

func init() { Register("C16", runC16) }

func runC16(r *fw.Run, p *fw.Program) {
	jq, err := fw.LoadJQ(p.Repo)
	if err != nil {
		r.Fatal("jq sources: " + err.Error())
		return
	}
	x := &c16{r: r, p: p, jq: jq}
	x.dType = p.NamedType("pkg/decode", "D")
	if x.dType == nil {
		r.Fatal("anchor missing: pkg/decode.D")
		return
	}
	r.Assumption("C16: the generated decode.D readers bind name to kind/width/endianness (FieldU16 reads 16 unsigned bits ...); this binding is decided by C02, not here")
	r.Assumption("C16: third-party text parsers (encoding/json, yaml.v3, BurntSushi/toml, encoding/xml, encoding/csv) implement their formats; only fq's use of their results is checked")
	mp := x.msgpack()
	cb := x.cbor()
	bs := x.bson()
	be := x.bencode()
	as := x.asn1()
	x.repr([]*c16Format{mp, cb, bs, be, as})
	x.text()
	x.xmlNS()
	x.xmlOpts()
	// toml/yaml decode results are normalised by gojqx.NormalizeFn (borrowed from C14.norm, NormalizeFn clauses)
	{
		sc := r.Scratch()
		ru := sc.Rule("C14.norm", "", 0)
		c14NormRec(&c14Ctx{r: sc, p: p}, ru)
		r.Import(sc, "C14.norm", "C16.text.norm", "what the toml/yaml parsers hand back is turned into jq values element by element: every container loop of gojqx.NormalizeFn recurses on its element and produces exactly one output element per input element (C14.norm NormalizeFn obligations)", 4, nil)
	}
	// cbor half-precision floats go through mathx.expandF16ToF32 (borrowed from C02.f16)
	{
		sc := r.Scratch()
		if c := newC02(sc, p); c != nil {
			c.f16Rule()
			r.Import(sc, "C02.f16", "C16.cbor.f16", "cbor major type 7 / 25 (half precision) is expanded exactly: sign, exponent rebias, fraction shift, subnormal normalisation with the implicit bit masked off, inf/nan (C02.f16 obligations)", 6, nil)
		}
	}
}

// runC16TextOnly runs only the text-decoder rules (borrowed by C07 for fromjson).
func runC16TextOnly(r *fw.Run, p *fw.Program) {
	x := &c16{r: r, p: p}
	x.dType = p.NamedType("pkg/decode", "D")
	if x.dType == nil {
		r.Fatal("anchor missing: pkg/decode.D")
		return
	}
	x.text()
}

type c16 struct {
	r     *fw.Run
	p     *fw.Program
	jq    *fw.JQ
	dType *types.Named
}

// ---------------------------------------------------------------------------
// linear integer expressions: c + sum(k_i * atom_i)

type c16Lin struct {
	C int64
	T map[string]int64
}

func linC(c int64) c16Lin { return c16Lin{C: c} }
func linA(a string) c16Lin {
	return c16Lin{T: map[string]int64{a: 1}}
}
func (a c16Lin) add(b c16Lin) c16Lin {
	o := c16Lin{C: a.C + b.C, T: map[string]int64{}}
	for k, v := range a.T {
		o.T[k] += v
	}
	for k, v := range b.T {
		o.T[k] += v
	}
	for k, v := range o.T {
		if v == 0 {
			delete(o.T, k)
		}
	}
	return o
}
func (a c16Lin) mulC(c int64) c16Lin {
	o := c16Lin{C: a.C * c, T: map[string]int64{}}
	if c == 0 {
		return o
	}
	for k, v := range a.T {
		o.T[k] = v * c
	}
	return o
}
func (a c16Lin) isConst() (int64, bool) { return a.C, len(a.T) == 0 }
func (a c16Lin) String() string {
	var ks []string
	for k := range a.T {
		ks = append(ks, k)
	}
	sort.Strings(ks)
	var parts []string
	for _, k := range ks {
		if a.T[k] == 1 {
			parts = append(parts, k)
		} else {
			parts = append(parts, fmt.Sprintf("%d*%s", a.T[k], k))
		}
	}
	if a.C != 0 || len(parts) == 0 {
		parts = append(parts, strconv.FormatInt(a.C, 10))
	}
	return strings.Join(parts, "+")
}
func (a c16Lin) eq(b c16Lin) bool { return a.String() == b.String() }

// c16Eval evaluates integer SSA values to linear forms; results of decode reads and bound
// parameters are atoms / constants supplied through bind. Loads of captured variables are
// followed through the closure binding to the single store that initialises the cell.
type c16Eval struct {
	bind map[ssa.Value]c16Lin
}

func newC16Eval() *c16Eval { return &c16Eval{bind: map[ssa.Value]c16Lin{}} }

func isInt(t types.Type) bool {
	b, ok := t.Underlying().(*types.Basic)
	return ok && b.Info()&types.IsInteger != 0
}

func (e *c16Eval) lin(v ssa.Value) c16Lin { return e.linD(v, 0) }

func (e *c16Eval) linD(v ssa.Value, depth int) c16Lin {
	if l, ok := e.bind[v]; ok {
		return l
	}
	if depth > 12 {
		return linA("?deep")
	}
	switch x := v.(type) {
	case *ssa.Const:
		if x.Value != nil && x.Value.Kind() == constant.Int {
			if i, ok := constant.Int64Val(x.Value); ok {
				return linC(i)
			}
		}
		return linA("?const")
	case *ssa.Convert:
		if isInt(x.Type()) && isInt(x.X.Type()) {
			return e.linD(x.X, depth+1)
		}
	case *ssa.ChangeType:
		return e.linD(x.X, depth+1)
	case *ssa.BinOp:
		a, b := e.linD(x.X, depth+1), e.linD(x.Y, depth+1)
		switch x.Op {
		case token.ADD:
			return a.add(b)
		case token.SUB:
			return a.add(b.mulC(-1))
		case token.MUL:
			if c, ok := a.isConst(); ok {
				return b.mulC(c)
			}
			if c, ok := b.isConst(); ok {
				return a.mulC(c)
			}
		case token.SHL:
			if c, ok := b.isConst(); ok && c >= 0 && c < 62 {
				return a.mulC(1 << uint(c))
			}
		}
		return linA("?(" + a.String() + x.Op.String() + b.String() + ")")
	case *ssa.UnOp:
		switch x.Op {
		case token.SUB:
			return e.linD(x.X, depth+1).mulC(-1)
		case token.MUL:
			if src := c16ResolveLoad(x.X); src != nil {
				return e.linD(src, depth+1)
			}
		}
	case *ssa.Phi:
		var first *c16Lin
		for _, ed := range x.Edges {
			if ed == v {
				continue
			}
			l := e.linD(ed, depth+1)
			if first == nil {
				first = &l
			} else if !first.eq(l) {
				return linA("?phi:" + x.Name())
			}
		}
		if first != nil {
			return *first
		}
	case *ssa.Parameter:
		return linA("param:" + x.Name())
	}
	return linA("?" + v.Name())
}

// c16ResolveLoad: the value a load of addr yields when addr is a local cell (or a captured
// cell) with exactly one store in the program; nil otherwise.
func c16ResolveLoad(addr ssa.Value) ssa.Value {
	for i := 0; i < 6; i++ {
		switch a := addr.(type) {
		case *ssa.Alloc:
			return c16CellValue(a)
		case *ssa.FreeVar:
			b := c16FreeVarBinding(a)
			if b == nil {
				return nil
			}
			addr = b
		default:
			return nil
		}
	}
	return nil
}

func c16FreeVarBinding(fv *ssa.FreeVar) ssa.Value {
	fn := fv.Parent()
	if fn == nil || fn.Parent() == nil {
		return nil
	}
	idx := -1
	for i, f := range fn.FreeVars {
		if f == fv {
			idx = i
		}
	}
	if idx < 0 {
		return nil
	}
	var out ssa.Value
	fw.EachInstr(fn.Parent(), func(ins ssa.Instruction) {
		if mc, ok := ins.(*ssa.MakeClosure); ok && mc.Fn == ssa.Value(fn) && idx < len(mc.Bindings) {
			out = mc.Bindings[idx]
		}
	})
	return out
}

// c16CellStores returns all stores into the cell a, including stores made by closures that capture it.
func c16CellStores(a ssa.Value) []*ssa.Store {
	var out []*ssa.Store
	refs := a.Referrers()
	if refs == nil {
		return nil
	}
	for _, r := range *refs {
		switch x := r.(type) {
		case *ssa.Store:
			if x.Addr == a {
				out = append(out, x)
			}
		case *ssa.MakeClosure:
			fn := x.Fn.(*ssa.Function)
			for i, b := range x.Bindings {
				if b == a && i < len(fn.FreeVars) {
					out = append(out, c16CellStores(fn.FreeVars[i])...)
				}
			}
		}
	}
	return out
}

func c16CellValue(a *ssa.Alloc) ssa.Value {
	st := c16CellStores(a)
	if len(st) == 1 {
		return st[0].Val
	}
	return nil
}

// ---------------------------------------------------------------------------
// decode ops: calls of (*decode.D) methods classified by what they consume

type c16Op struct {
	Call  *ssa.Call
	Name  string // method name
	Field string // constant field name ("" when none)
	Kind  string // U S F UTF8 UTF8Null UTF8NullFixed Raw Seek Bool SBig Val* Struct Array Fn Fatal Errorf Peek Query Framed Limited Root Other
	Bits  c16Lin // bits consumed (reads and seeks)
	Known bool   // Bits is meaningful
	Args  []ssa.Value
}

var c16ReaderRE = regexp.MustCompile(`^(Field)?([USF])(\d+)?(LE|BE)?$`)

func (x *c16) isDMethod(f *ssa.Function) bool {
	if f == nil || f.Signature.Recv() == nil {
		return false
	}
	t := f.Signature.Recv().Type()
	if pt, ok := t.(*types.Pointer); ok {
		t = pt.Elem()
	}
	return types.Identical(t, x.dType)
}

// op classifies a call; ok=false when it is not a static call of a decode.D method.
func (x *c16) op(c *ssa.Call, e *c16Eval) (c16Op, bool) {
	callee := c.Common().StaticCallee()
	if !x.isDMethod(callee) {
		return c16Op{}, false
	}
	name := callee.Name()
	o := c16Op{Call: c, Name: name, Kind: "Other", Args: c.Common().Args[1:]}
	// FieldScalarU2 / FieldScalarBool ... read what FieldU2 / FieldBool read and return the scalar
	name = strings.Replace(name, "FieldScalar", "Field", 1)
	ai := 0
	if strings.HasPrefix(name, "Field") && len(o.Args) > 0 {
		if s, ok := constString(o.Args[0]); ok {
			o.Field = s
		}
		ai = 1
	}
	arg := func(i int) c16Lin {
		if ai+i < len(o.Args) {
			return e.lin(o.Args[ai+i])
		}
		return linA("?noarg")
	}
	base := strings.TrimPrefix(name, "Field")
	if m := c16ReaderRE.FindStringSubmatch(name); m != nil {
		o.Kind = m[2]
		o.Known = true
		if m[3] != "" {
			n, _ := strconv.Atoi(m[3])
			o.Bits = linC(int64(n))
		} else {
			o.Bits = arg(0)
		}
		return o, true
	}
	switch {
	case base == "UTF8":
		o.Kind, o.Known, o.Bits = "UTF8", true, arg(0).mulC(8)
	case base == "UTF8NullFixedLen":
		o.Kind, o.Known, o.Bits = "UTF8NullFixed", true, arg(0).mulC(8)
	case base == "UTF8Null":
		o.Kind = "UTF8Null"
	case base == "RawLen":
		o.Kind, o.Known, o.Bits = "Raw", true, arg(0)
	case name == "SeekRel":
		o.Kind, o.Known, o.Bits = "Seek", true, arg(0)
	case base == "Bool":
		o.Kind, o.Known, o.Bits = "Bool", true, linC(1)
	case base == "SBigInt" || base == "UBigInt":
		o.Kind, o.Known, o.Bits = "SBig", true, arg(0)
	case strings.HasPrefix(name, "FieldValue"):
		o.Kind, o.Known, o.Bits = "Val"+strings.TrimPrefix(name, "FieldValue"), true, linC(0)
	case name == "FieldStruct":
		o.Kind = "Struct"
	case name == "FieldArray":
		o.Kind = "Array"
	case strings.HasPrefix(name, "Field") && strings.HasSuffix(name, "Fn"):
		o.Kind = "Fn"
	case name == "Fatalf":
		o.Kind, o.Known = "Fatal", true
	case name == "Errorf":
		o.Kind, o.Known = "Errorf", true
	case strings.HasPrefix(name, "Peek"):
		o.Kind, o.Known = "Peek", true
	case name == "BitsLeft" || name == "End" || name == "Len" || name == "Pos" || name == "NotEnd":
		o.Kind, o.Known = "Query", true
	case name == "FramedFn":
		o.Kind = "Framed"
	case name == "LimitedFn":
		o.Kind = "Limited"
	case name == "FieldRootBitBuf":
		o.Kind, o.Known = "Root", true
	}
	return o, true
}

func (o c16Op) isRead() bool {
	switch o.Kind {
	case "U", "S", "F", "UTF8", "UTF8Null", "UTF8NullFixed", "Raw", "Bool", "SBig":
		return true
	}
	return false
}

// opsIn lists the decode ops of the given blocks (instruction order inside a block, blocks in
// index order); results of reads become atoms $1, $2 ... in e (numbered per call of opsIn).
func (x *c16) opsIn(blocks []*ssa.BasicBlock, e *c16Eval) []c16Op {
	var out []c16Op
	n := 0
	for _, b := range blocks {
		for _, ins := range b.Instrs {
			c, ok := ins.(*ssa.Call)
			if !ok {
				continue
			}
			o, ok := x.op(c, e)
			if !ok {
				continue
			}
			if o.isRead() {
				n++
				e.bind[c] = linA("$" + strconv.Itoa(n))
			}
			out = append(out, o)
		}
	}
	return out
}

func (x *c16) opsOfFn(fn *ssa.Function, e *c16Eval) []c16Op { return x.opsIn(fn.Blocks, e) }

// net is the sum of bits consumed by reads and relative seeks; ok=false if some read has an unknown width.
func c16Net(ops []c16Op) (c16Lin, bool) {
	n := linC(0)
	ok := true
	for _, o := range ops {
		switch {
		case o.isRead() || o.Kind == "Seek":
			if !o.Known {
				ok = false
				n = n.add(linA("?" + o.Kind))
			} else {
				n = n.add(o.Bits)
			}
		case o.Kind == "Fn" || o.Kind == "Framed" || o.Kind == "Limited" || o.Kind == "Other":
			ok = false
		}
	}
	return n, ok
}

func c16Reads(ops []c16Op) []c16Op {
	var out []c16Op
	for _, o := range ops {
		if o.isRead() {
			out = append(out, o)
		}
	}
	return out
}

func c16Find(ops []c16Op, kind string) []c16Op {
	var out []c16Op
	for _, o := range ops {
		if o.Kind == kind {
			out = append(out, o)
		}
	}
	return out
}

func c16Fields(ops []c16Op) map[string]bool {
	m := map[string]bool{}
	for _, o := range ops {
		if o.Field != "" {
			m[o.Field] = true
		}
	}
	return m
}

// fnArg returns the function passed as the i-th explicit argument (function value or closure).
func c16FnArg(o c16Op, i int) *ssa.Function {
	if i >= len(o.Args) {
		return nil
	}
	return c16AsFn(o.Args[i])
}

func c16AsFn(v ssa.Value) *ssa.Function {
	switch f := v.(type) {
	case *ssa.Function:
		return f
	case *ssa.MakeClosure:
		return f.Fn.(*ssa.Function)
	case *ssa.ChangeType:
		return c16AsFn(f.X)
	}
	return nil
}

// ---------------------------------------------------------------------------
// counted loops: for i := start; i < bound; i += step

type c16Loop struct {
	Phi    *ssa.Phi
	Start  int64
	Step   int64
	Bound  ssa.Value
	Strict bool // continues while i < bound (exactly)
	Cmp    *ssa.BinOp
	Body   []*ssa.BasicBlock // blocks inside the loop
	Exits  int               // edges from a block of the loop to a block outside it
}

func c16Reaches(from, to *ssa.BasicBlock) bool {
	seen := map[*ssa.BasicBlock]bool{}
	stack := append([]*ssa.BasicBlock{}, from.Succs...)
	for len(stack) > 0 {
		b := stack[len(stack)-1]
		stack = stack[:len(stack)-1]
		if seen[b] {
			continue
		}
		seen[b] = true
		if b == to {
			return true
		}
		stack = append(stack, b.Succs...)
	}
	return false
}

// c16CountedLoop finds the loop of fn driven by an integer induction phi and the comparison of
// that phi which leaves the loop.
func c16CountedLoop(fn *ssa.Function) (*c16Loop, string) {
	var loops []*c16Loop
	for _, b := range fn.Blocks {
		for _, ins := range b.Instrs {
			ph, ok := ins.(*ssa.Phi)
			if !ok || !isInt(ph.Type()) || len(ph.Edges) != 2 {
				continue
			}
			var start *ssa.Const
			var inc *ssa.BinOp
			for _, e := range ph.Edges {
				if c, ok := e.(*ssa.Const); ok {
					start = c
				}
				if bo, ok := e.(*ssa.BinOp); ok && bo.Op == token.ADD && bo.X == ssa.Value(ph) {
					inc = bo
				}
			}
			if start == nil || inc == nil {
				continue
			}
			stepC, ok := inc.Y.(*ssa.Const)
			if !ok {
				continue
			}
			l := &c16Loop{Phi: ph, Start: start.Int64(), Step: stepC.Int64()}
			for _, bb := range fn.Blocks {
				if bb == b || (c16Reaches(b, bb) && c16Reaches(bb, b)) {
					l.Body = append(l.Body, bb)
				}
			}
			// the leaving comparison
			for _, r := range *ph.Referrers() {
				bo, ok := r.(*ssa.BinOp)
				if !ok {
					continue
				}
				var ifi *ssa.If
				for _, rr := range *bo.Referrers() {
					if i, ok := rr.(*ssa.If); ok {
						ifi = i
					}
				}
				if ifi == nil {
					continue
				}
				blk := ifi.Block()
				inLoop := func(s *ssa.BasicBlock) bool { return s == b || c16Reaches(s, b) }
				tIn, fIn := inLoop(blk.Succs[0]), inLoop(blk.Succs[1])
				if tIn == fIn {
					continue
				}
				op := bo.Op
				var bound ssa.Value
				if bo.X == ssa.Value(ph) {
					bound = bo.Y
				} else {
					bound = bo.X
					// mirror: B op i  ==  i op' B
					switch op {
					case token.LSS:
						op = token.GTR
					case token.GTR:
						op = token.LSS
					case token.LEQ:
						op = token.GEQ
					case token.GEQ:
						op = token.LEQ
					}
				}
				// continue-condition in terms of i ? bound
				if !tIn { // true leaves: continue condition is the negation
					switch op {
					case token.GEQ:
						op = token.LSS
					case token.GTR:
						op = token.LEQ
					case token.LSS:
						op = token.GEQ
					case token.LEQ:
						op = token.GTR
					case token.EQL:
						op = token.NEQ
					case token.NEQ:
						op = token.EQL
					}
				}
				l.Bound = bound
				l.Cmp = bo
				l.Strict = op == token.LSS
				if op == token.NEQ && l.Start == 0 && l.Step == 1 {
					l.Strict = true // i != n from 0 by 1 is i < n
				}
			}
			if l.Bound == nil {
				c16RotatedLoop(l, inc, b)
			}
			inBody := map[*ssa.BasicBlock]bool{}
			for _, bb := range l.Body {
				inBody[bb] = true
			}
			for _, bb := range l.Body {
				for _, sc := range bb.Succs {
					if !inBody[sc] {
						l.Exits++
					}
				}
			}
			if l.Bound != nil {
				loops = append(loops, l)
			}
		}
	}
	if len(loops) != 1 {
		return nil, fmt.Sprintf("%d counted loops found, expected 1", len(loops))
	}
	return loops[0], ""
}

// c16RotatedLoop recognises the bottom-tested lowering of `for range n` / `for i := range n`:
//
//	if start < n { do { body; i' = i + step } while i' < n }
//
// which runs the body exactly as `for i := start; i < n; i += step` does. The leaving comparison
// tests the incremented value; the entry of the loop must be guarded by the same strict
// comparison of the start constant with the same bound.
func c16RotatedLoop(l *c16Loop, inc *ssa.BinOp, head *ssa.BasicBlock) {
	if inc.Referrers() == nil {
		return
	}
	inLoop := func(s *ssa.BasicBlock) bool { return s == head || c16Reaches(s, head) }
	for _, r := range *inc.Referrers() {
		bo, ok := r.(*ssa.BinOp)
		if !ok || bo.Referrers() == nil {
			continue
		}
		var ifi *ssa.If
		for _, rr := range *bo.Referrers() {
			if i, ok := rr.(*ssa.If); ok {
				ifi = i
			}
		}
		if ifi == nil {
			continue
		}
		blk := ifi.Block()
		tIn, fIn := inLoop(blk.Succs[0]), inLoop(blk.Succs[1])
		if tIn == fIn {
			continue
		}
		// continue-condition as `inc OP bound`
		strictLess := func(c *ssa.BinOp, lhs ssa.Value, contOnTrue bool) (ssa.Value, bool) {
			op := c.Op
			var bound ssa.Value
			switch {
			case c.X == lhs:
				bound = c.Y
			case c.Y == lhs:
				bound = c.X
				switch op {
				case token.LSS:
					op = token.GTR
				case token.GTR:
					op = token.LSS
				case token.LEQ:
					op = token.GEQ
				case token.GEQ:
					op = token.LEQ
				}
			default:
				return nil, false
			}
			if !contOnTrue {
				switch op {
				case token.GEQ:
					op = token.LSS
				case token.GTR:
					op = token.LEQ
				case token.LSS:
					op = token.GEQ
				case token.LEQ:
					op = token.GTR
				}
			}
			return bound, op == token.LSS
		}
		bound, strict := strictLess(bo, inc, tIn)
		if bound == nil {
			continue
		}
		// the entry guard: every edge into the loop head from outside the loop comes from a block
		// ending in `if start < bound` on its continue side
		guarded := true
		nOutside := 0
		for _, pr := range head.Preds {
			if inLoop(pr) && pr != head && c16Reaches(head, pr) {
				continue // back edge
			}
			if pr == head {
				continue
			}
			nOutside++
			pif, ok := pr.Instrs[len(pr.Instrs)-1].(*ssa.If)
			if !ok {
				guarded = false
				continue
			}
			pc, ok := pif.Cond.(*ssa.BinOp)
			if !ok {
				guarded = false
				continue
			}
			var startV ssa.Value
			for _, e := range l.Phi.Edges {
				if c, ok := e.(*ssa.Const); ok {
					startV = c
				}
			}
			var lhs ssa.Value
			for _, o := range []ssa.Value{pc.X, pc.Y} {
				if c, ok := o.(*ssa.Const); ok && startV != nil && c.Value != nil && constant.Compare(c.Value, token.EQL, startV.(*ssa.Const).Value) {
					lhs = o
				}
			}
			if lhs == nil {
				guarded = false
				continue
			}
			pb, pstrict := strictLess(pc, lhs, pr.Succs[0] == head)
			if pb != bound || !pstrict {
				guarded = false
			}
		}
		if !guarded || nOutside == 0 {
			continue
		}
		l.Bound = bound
		l.Cmp = bo
		l.Strict = strict
	}
}

// ---------------------------------------------------------------------------
// SSA literal tables

type c16Row struct {
	Key    constant.Value       // map key / slice index
	Fields map[string]ssa.Value // stored leaves by path below the element ("" = the element itself)
	Pos    token.Pos
}

// c16AddrPath walks IndexAddr(const)/FieldAddr chains down to root and returns the path.
func c16AddrPath(addr ssa.Value) (root ssa.Value, path []string) {
	for {
		switch a := addr.(type) {
		case *ssa.FieldAddr:
			path = append([]string{"." + fieldNameOf(a.X.Type(), a.Field)}, path...)
			addr = a.X
		case *ssa.IndexAddr:
			c, ok := a.Index.(*ssa.Const)
			if !ok {
				return addr, path
			}
			path = append([]string{"[" + c.Value.ExactString() + "]"}, path...)
			addr = a.X
		default:
			return addr, path
		}
	}
}

// c16StoresUnder collects the stores of fn whose address is rooted at root: path -> value.
func c16StoresUnder(fn *ssa.Function, root ssa.Value) map[string]ssa.Value {
	out := map[string]ssa.Value{}
	fw.EachInstr(fn, func(ins ssa.Instruction) {
		st, ok := ins.(*ssa.Store)
		if !ok {
			return
		}
		r, path := c16AddrPath(st.Addr)
		if r == root {
			out[strings.Join(path, "")] = st.Val
		}
	})
	return out
}

// c16SliceRows: rows of a slice/array literal backed by alloc (elements are structs or scalars).
func c16SliceRows(alloc *ssa.Alloc) []c16Row {
	fn := alloc.Parent()
	byIdx := map[int64]*c16Row{}
	var idxs []int64
	fw.EachInstr(fn, func(ins ssa.Instruction) {
		st, ok := ins.(*ssa.Store)
		if !ok {
			return
		}
		r, path := c16AddrPath(st.Addr)
		if r != ssa.Value(alloc) || len(path) == 0 || !strings.HasPrefix(path[0], "[") {
			return
		}
		i, err := strconv.ParseInt(strings.Trim(path[0], "[]"), 10, 64)
		if err != nil {
			return
		}
		row := byIdx[i]
		if row == nil {
			row = &c16Row{Key: constant.MakeInt64(i), Fields: map[string]ssa.Value{}, Pos: st.Pos()}
			byIdx[i] = row
			idxs = append(idxs, i)
		}
		row.Fields[strings.TrimPrefix(strings.Join(path[1:], ""), ".")] = st.Val
	})
	sort.Slice(idxs, func(a, b int) bool { return idxs[a] < idxs[b] })
	var out []c16Row
	for _, i := range idxs {
		out = append(out, *byIdx[i])
	}
	return out
}

// c16MapRows: rows of a map literal (MakeMap followed by MapUpdates with constant keys).
func c16MapRows(m *ssa.MakeMap) ([]c16Row, string) {
	var out []c16Row
	fn := m.Parent()
	for _, r := range *m.Referrers() {
		mu, ok := r.(*ssa.MapUpdate)
		if !ok || mu.Map != ssa.Value(m) {
			continue
		}
		k, ok := mu.Key.(*ssa.Const)
		if !ok || k.Value == nil {
			return nil, "map literal with a non-constant key"
		}
		row := c16Row{Key: k.Value, Fields: map[string]ssa.Value{}, Pos: mu.Pos()}
		if ld, ok := mu.Value.(*ssa.UnOp); ok && ld.Op == token.MUL {
			if a, ok := ld.X.(*ssa.Alloc); ok {
				for path, v := range c16StoresUnder(fn, a) {
					row.Fields[strings.TrimPrefix(path, ".")] = v
				}
			}
		} else {
			row.Fields[""] = mu.Value
		}
		out = append(out, row)
	}
	return out, ""
}

// c16GlobalMapRows: the rows of a package-level map variable initialised by a literal.
func (x *c16) globalMapRows(g *ssa.Global) ([]c16Row, string) {
	init := g.Pkg.Func("init")
	if init == nil {
		return nil, "no package init"
	}
	var mm *ssa.MakeMap
	fw.EachInstr(init, func(ins ssa.Instruction) {
		if st, ok := ins.(*ssa.Store); ok && st.Addr == ssa.Value(g) {
			v := st.Val
			if ct, ok := v.(*ssa.ChangeType); ok {
				v = ct.X
			}
			if m, ok := v.(*ssa.MakeMap); ok {
				mm = m
			}
		}
	})
	if mm == nil {
		return nil, "global " + g.Name() + " is not initialised by a map literal"
	}
	return c16MapRows(mm)
}

// c16Sym returns the constant Sym string of a row: the element itself (map[K]string) or its Sym field.
func c16Sym(row c16Row) (string, bool) {
	for _, k := range []string{"", "Sym", "s.Sym", "S.Sym"} {
		if v, ok := row.Fields[k]; ok {
			if s, ok := constString(v); ok {
				return s, true
			}
		}
	}
	return "", false
}

// mappersOf returns the values passed in the variadic mapper argument of a Field* call.
func c16Mappers(c *ssa.Call) []ssa.Value {
	args := c.Common().Args
	if len(args) == 0 {
		return nil
	}
	sl, ok := args[len(args)-1].(*ssa.Slice)
	if !ok {
		return nil
	}
	a, ok := sl.X.(*ssa.Alloc)
	if !ok {
		return nil
	}
	var out []ssa.Value
	for _, v := range c16StoresUnder(c.Parent(), a) {
		inner, _ := stripIface(v)
		out = append(out, inner)
	}
	return out
}

// c16MapperGlobal returns the package-level variable among the mappers of a Field* call whose
// type is a map, or nil.
func c16MapperGlobal(c *ssa.Call) *ssa.Global {
	for _, v := range c16Mappers(c) {
		if ld, ok := v.(*ssa.UnOp); ok && ld.Op == token.MUL {
			if g, ok := ld.X.(*ssa.Global); ok {
				if _, ok := g.Type().(*types.Pointer).Elem().Underlying().(*types.Map); ok {
					return g
				}
			}
		}
	}
	return nil
}

// ---------------------------------------------------------------------------
// path-sensitive facts: which branch outcomes (and which calls) hold on every path to a block

type c16Fact struct {
	V   ssa.Value
	Pol bool
}

type c16FS struct {
	facts  map[ssa.Value]bool
	events map[string]bool
	alias  map[ssa.Value]fw.Guard // boolean phi -> the condition it carries on this path
}

func (f *c16FS) key() string {
	var ks []string
	for v, p := range f.facts {
		fn := ""
		if v.Parent() != nil {
			fn = v.Parent().Name()
		}
		ks = append(ks, fmt.Sprintf("%s.%s=%v", fn, v.Name(), p))
	}
	for e := range f.events {
		ks = append(ks, "!"+e)
	}
	for ph, g := range f.alias {
		ks = append(ks, fmt.Sprintf("@%s=%s/%v", ph.Name(), g.Cond.Name(), g.True))
	}
	sort.Strings(ks)
	return strings.Join(ks, ";")
}

func (f *c16FS) clone() *c16FS {
	o := &c16FS{facts: map[ssa.Value]bool{}, events: map[string]bool{}, alias: map[ssa.Value]fw.Guard{}}
	for k, v := range f.facts {
		o.facts[k] = v
	}
	for k, v := range f.alias {
		o.alias[k] = v
	}
	for k := range f.events {
		o.events[k] = true
	}
	return o
}

type c16Flow struct {
	fn       *ssa.Function
	in       map[*ssa.BasicBlock]map[string]*c16FS
	Overflow bool
	event    func(ssa.Instruction) string
	edge     map[[2]*ssa.BasicBlock]map[string]*c16FS
}

// OnEdge returns the fact sets that flow along the CFG edge from -> to.
func (fl *c16Flow) OnEdge(from, to *ssa.BasicBlock) []*c16FS {
	var out []*c16FS
	m := fl.edge[[2]*ssa.BasicBlock{from, to}]
	var ks []string
	for k := range m {
		ks = append(ks, k)
	}
	sort.Strings(ks)
	for _, k := range ks {
		out = append(out, m[k])
	}
	return out
}

// c16FlowOpt narrows the propagation for large functions: only conditions accepted by Track are
// recorded; values whose origin is in Stable never change while fn runs, so a comparison of such
// a value with a constant that contradicts an earlier one makes the path infeasible.
type c16FlowOpt struct {
	Track  func(cond ssa.Value) bool
	Stable map[ssa.Value]bool
}

func c16EqOf(v ssa.Value, pol bool) (c16EqFact, bool) {
	bo, ok := v.(*ssa.BinOp)
	if !ok || (bo.Op != token.EQL && bo.Op != token.NEQ) {
		return c16EqFact{}, false
	}
	var xv ssa.Value
	var c *ssa.Const
	if cc, ok := bo.Y.(*ssa.Const); ok {
		xv, c = bo.X, cc
	} else if cc, ok := bo.X.(*ssa.Const); ok {
		xv, c = bo.Y, cc
	} else {
		return c16EqFact{}, false
	}
	if c.Value == nil {
		return c16EqFact{}, false
	}
	return c16EqFact{X: xv, C: c.Value, Eq: (bo.Op == token.EQL) == pol}, true
}

// contradicts: the new fact cannot hold together with fs, given stable origins.
func (o *c16FlowOpt) contradicts(fs *c16FS, cond ssa.Value, pol bool) bool {
	if o == nil || o.Stable == nil {
		return false
	}
	nf, ok := c16EqOf(cond, pol)
	if !ok {
		return false
	}
	org := c16Origin(nf.X)
	if !o.Stable[org] {
		return false
	}
	for _, ef := range fs.eqFacts() {
		if c16Origin(ef.X) != org {
			continue
		}
		same := constant.Compare(ef.C, token.EQL, nf.C)
		switch {
		case ef.Eq && nf.Eq && !same:
			return true
		case ef.Eq && !nf.Eq && same:
			return true
		case !ef.Eq && nf.Eq && same:
			return true
		}
	}
	return false
}

const c16FlowCap = 3000

func c16DefBlock(v ssa.Value) *ssa.BasicBlock {
	if ins, ok := v.(ssa.Instruction); ok {
		return ins.Block()
	}
	return nil
}

// c16Facts propagates branch outcomes through fn. event(ins) names calls worth remembering ("" = none).
// Paths end at no-return calls. Facts about values defined inside a loop are dropped on its back edge.
func c16Facts(fn *ssa.Function, event func(ssa.Instruction) string) *c16Flow {
	return c16FactsOpt(fn, event, nil)
}

func c16FactsOpt(fn *ssa.Function, event func(ssa.Instruction) string, opt *c16FlowOpt) *c16Flow {
	fl := &c16Flow{fn: fn, in: map[*ssa.BasicBlock]map[string]*c16FS{}, event: event, edge: map[[2]*ssa.BasicBlock]map[string]*c16FS{}}
	if len(fn.Blocks) == 0 {
		return fl
	}
	entry := fn.Blocks[0]
	start := &c16FS{facts: map[ssa.Value]bool{}, events: map[string]bool{}, alias: map[ssa.Value]fw.Guard{}}
	fl.in[entry] = map[string]*c16FS{start.key(): start}
	type item struct {
		b  *ssa.BasicBlock
		fs *c16FS
	}
	work := []item{{entry, start}}
	total := 0
	for len(work) > 0 {
		it := work[len(work)-1]
		work = work[:len(work)-1]
		b := it.b
		fs := it.fs.clone()
		cut := -1
		if fw.CurrentNR != nil {
			cut = fw.CurrentNR.CutIndex(b)
		}
		for i, ins := range b.Instrs {
			if cut >= 0 && i >= cut {
				break
			}
			if event != nil {
				if e := event(ins); e != "" {
					fs.events[e] = true
				}
			}
		}
		if cut >= 0 {
			continue
		}
		ifi, _ := b.Instrs[len(b.Instrs)-1].(*ssa.If)
		for si, s := range b.Succs {
			ns := fs.clone()
			if ifi != nil && len(b.Succs) == 2 && b.Succs[0] != b.Succs[1] {
				g := c16ResolveGuard(fw.Guard{Cond: ifi.Cond, True: si == 0}.Normalize())
				if c, ok := g.Cond.(*ssa.Const); ok {
					if constant.BoolVal(c.Value) != g.True {
						continue
					}
				} else {
					if old, ok := ns.facts[g.Cond]; ok && old != g.True {
						continue // infeasible
					}
					if opt.contradicts(ns, g.Cond, g.True) {
						continue
					}
					if opt == nil || opt.Track == nil || opt.Track(g.Cond) {
						ns.facts[g.Cond] = g.True
					}
					if al, ok := ns.alias[g.Cond]; ok {
						pol := al.True == g.True
						if old, ok := ns.facts[al.Cond]; ok && old != pol {
							continue
						}
						if opt.contradicts(ns, al.Cond, pol) {
							continue
						}
						if opt == nil || opt.Track == nil || opt.Track(al.Cond) {
							ns.facts[al.Cond] = pol
						}
					}
				}
			}
			ek := [2]*ssa.BasicBlock{b, s}
			if fl.edge[ek] == nil {
				fl.edge[ek] = map[string]*c16FS{}
			}
			pre := ns.clone()
			fl.edge[ek][pre.key()] = pre
			if s.Dominates(b) { // back edge: forget what was learnt inside the loop
				for v := range ns.facts {
					if db := c16DefBlock(v); db != nil && db.Parent() == fn && s.Dominates(db) {
						delete(ns.facts, v)
					}
				}
			}
			// phis of s
			pi := -1
			for i, p := range s.Preds {
				if p == b {
					pi = i
				}
			}
			infeasible := false
			for _, ins := range s.Instrs {
				ph, ok := ins.(*ssa.Phi)
				if !ok {
					break
				}
				delete(ns.facts, ph)
				delete(ns.alias, ph)
				if pi < 0 || pi >= len(ph.Edges) {
					continue
				}
				if bt, ok := ph.Type().Underlying().(*types.Basic); !ok || bt.Kind() != types.Bool {
					continue
				}
				switch ev := ph.Edges[pi].(type) {
				case *ssa.Const:
					ns.facts[ph] = constant.BoolVal(ev.Value)
				default:
					g := fw.Guard{Cond: ev, True: true}.Normalize()
					if pol, ok := ns.facts[g.Cond]; ok {
						ns.facts[ph] = pol == g.True
					} else {
						ns.alias[ph] = g
					}
				}
			}
			if infeasible {
				continue
			}
			k := ns.key()
			m := fl.in[s]
			if m == nil {
				m = map[string]*c16FS{}
				fl.in[s] = m
			}
			if _, seen := m[k]; seen {
				continue
			}
			total++
			if total > c16FlowCap {
				fl.Overflow = true
				return fl
			}
			m[k] = ns
			work = append(work, item{s, ns})
		}
	}
	return fl
}

// c16ResolveGuard: a branch on a boolean local that is assigned exactly once (`indef := sc == 31`,
// possibly captured by a closure) is a branch on the assigned condition.
func c16ResolveGuard(g fw.Guard) fw.Guard {
	for i := 0; i < 4; i++ {
		ld, ok := g.Cond.(*ssa.UnOp)
		if !ok || ld.Op != token.MUL {
			return g
		}
		src := c16ResolveLoad(ld.X)
		if src == nil {
			return g
		}
		if bt, ok := src.Type().Underlying().(*types.Basic); !ok || bt.Kind() != types.Bool {
			return g
		}
		g = fw.Guard{Cond: src, True: g.True}.Normalize()
	}
	return g
}

// At returns the fact sets at the entry of b (nil when b is unreachable).
func (fl *c16Flow) At(b *ssa.BasicBlock) []*c16FS {
	var ks []string
	for k := range fl.in[b] {
		ks = append(ks, k)
	}
	sort.Strings(ks)
	var out []*c16FS
	for _, k := range ks {
		out = append(out, fl.in[b][k])
	}
	return out
}

// AtExit returns the fact sets at the end of b (events of b included).
func (fl *c16Flow) AtExit(b *ssa.BasicBlock) []*c16FS {
	var out []*c16FS
	for _, fs := range fl.At(b) {
		n := fs.clone()
		if fl.event != nil {
			for _, ins := range b.Instrs {
				if e := fl.event(ins); e != "" {
					n.events[e] = true
				}
			}
		}
		out = append(out, n)
	}
	return out
}

// c16EqFact: the fact "X == c" (Eq) or "X != c" known in fs about value X compared with a constant.
type c16EqFact struct {
	X  ssa.Value
	C  constant.Value
	Eq bool
}

func (f *c16FS) eqFacts() []c16EqFact {
	var out []c16EqFact
	for v, pol := range f.facts {
		bo, ok := v.(*ssa.BinOp)
		if !ok || (bo.Op != token.EQL && bo.Op != token.NEQ) {
			continue
		}
		var xv ssa.Value
		var c *ssa.Const
		if cc, ok := bo.Y.(*ssa.Const); ok {
			xv, c = bo.X, cc
		} else if cc, ok := bo.X.(*ssa.Const); ok {
			xv, c = bo.Y, cc
		} else {
			continue
		}
		if c.Value == nil {
			continue
		}
		out = append(out, c16EqFact{X: xv, C: c.Value, Eq: (bo.Op == token.EQL) == pol})
	}
	return out
}

var _ = c16Fact{}

// c16SameSource: a and b denote the same runtime value (identical SSA value, or loads of the same
// single-store cell, or one is the value stored into the cell the other loads).
func c16SameSource(a, b ssa.Value) bool {
	return c16Origin(a) == c16Origin(b)
}

func c16Origin(v ssa.Value) ssa.Value {
	for i := 0; i < 8; i++ {
		switch x := v.(type) {
		case *ssa.UnOp:
			if x.Op == token.MUL {
				if src := c16ResolveLoad(x.X); src != nil {
					v = src
					continue
				}
				// a cell with several stores: identify the value by its cell
				addr := x.X
				for j := 0; j < 6; j++ {
					fv, ok := addr.(*ssa.FreeVar)
					if !ok {
						break
					}
					b := c16FreeVarBinding(fv)
					if b == nil {
						break
					}
					addr = b
				}
				if a, ok := addr.(*ssa.Alloc); ok {
					return a
				}
			}
			return v
		case *ssa.Convert:
			if isInt(x.Type()) && isInt(x.X.Type()) {
				v = x.X
				continue
			}
			return v
		case *ssa.ChangeType:
			v = x.X
			continue
		}
		return v
	}
	return v
}

// holdsEq: fs knows origin(X)==orig is equal to the integer c.
func (f *c16FS) holdsEq(orig ssa.Value, c int64) bool {
	for _, e := range f.eqFacts() {
		if e.Eq && e.C.Kind() == constant.Int && c16Origin(e.X) == orig {
			if i, ok := constant.Int64Val(e.C); ok && i == c {
				return true
			}
		}
	}
	return false
}

// knowsNe: fs knows origin(X)==orig differs from c.
func (f *c16FS) knowsNe(orig ssa.Value, c int64) bool {
	for _, e := range f.eqFacts() {
		if e.C.Kind() != constant.Int || c16Origin(e.X) != orig {
			continue
		}
		i, ok := constant.Int64Val(e.C)
		if !ok {
			continue
		}
		if (!e.Eq && i == c) || (e.Eq && i != c) {
			return true
		}
	}
	return false
}

// armBlocks returns the blocks of fn on which every path knows origin==orig equals one of cs
// (the arm of a switch case), for integer or string constants given by their ExactString.
func (fl *c16Flow) armBlocks(orig ssa.Value, cs map[string]bool) []*ssa.BasicBlock {
	var out []*ssa.BasicBlock
	for _, b := range fl.fn.Blocks {
		fss := fl.At(b)
		if len(fss) == 0 {
			continue
		}
		all := true
		for _, fs := range fss {
			hit := false
			for _, e := range fs.eqFacts() {
				if e.Eq && c16Origin(e.X) == orig && cs[e.C.ExactString()] {
					hit = true
				}
			}
			if !hit {
				all = false
				break
			}
		}
		if all {
			out = append(out, b)
		}
	}
	return out
}

// caseConsts returns every constant origin(X)==orig is compared for equality with in fn.
func c16CaseConsts(fn *ssa.Function, orig ssa.Value) map[string]constant.Value {
	out := map[string]constant.Value{}
	fw.EachInstr(fn, func(ins ssa.Instruction) {
		bo, ok := ins.(*ssa.BinOp)
		if !ok || (bo.Op != token.EQL && bo.Op != token.NEQ) {
			return
		}
		if c, ok := bo.Y.(*ssa.Const); ok && c.Value != nil && c16Origin(bo.X) == orig {
			out[c.Value.ExactString()] = c.Value
		}
		if c, ok := bo.X.(*ssa.Const); ok && c.Value != nil && c16Origin(bo.Y) == orig {
			out[c.Value.ExactString()] = c.Value
		}
	})
	return out
}

// ---------------------------------------------------------------------------
// small helpers

func (x *c16) fnOr(ru *fw.Rule, name string) *ssa.Function { return getFn(ru, x.p, name) }

func c16ConstInt(v ssa.Value) (int64, bool) {
	c, ok := v.(*ssa.Const)
	if !ok || c.Value == nil || c.Value.Kind() != constant.Int {
		return 0, false
	}
	return constant.Int64Val(c.Value)
}

func c16KeyInt(k constant.Value) (int64, bool) {
	if k == nil || k.Kind() != constant.Int {
		return 0, false
	}
	return constant.Int64Val(k)
}

func c16KeyStr(k constant.Value) string {
	if k == nil {
		return ""
	}
	if k.Kind() == constant.String {
		return constant.StringVal(k)
	}
	return k.ExactString()
}

func c16Names(m map[string]bool) string {
	var ks []string
	for k := range m {
		ks = append(ks, k)
	}
	sort.Strings(ks)
	return strings.Join(ks, ",")
}
