package rules

// Positive controls for C15: seeded one-to-three-line slips in the anchored mechanisms; each
// must make exactly the named rule report the named construct.

func init() {
	c := func(id, rule, file, old, new, expect string) {
		AddControl(Control{ID: id, Prop: "C15", Rule: rule, File: file, Old: old, New: new, ExpectKey: expect})
	}
	// ---- C15.layout
	c("C15.layout.gzip-xlen-width", "C15.layout", "format/gzip/gzip.go",
		`d.FieldU16("xlen")`, `d.FieldU8("xlen")`, `FieldU16("xlen")`)
	c("C15.layout.gzip-extra-len-units", "C15.layout", "format/gzip/gzip.go",
		`d.FieldRawLen("extra_fields", int64(xLen*8))`, `d.FieldRawLen("extra_fields", int64(xLen))`, `extra_fields`)
	c("C15.layout.gzip-name-flag", "C15.layout", "format/gzip/gzip.go",
		"\tif hasName {\n\t\td.FieldUTF8Null(\"name\")\n\t}\n\tif hasComment {\n\t\td.FieldUTF8Null(\"comment\")", "\tif hasComment {\n\t\td.FieldUTF8Null(\"name\")\n\t}\n\tif hasName {\n\t\td.FieldUTF8Null(\"comment\")", `FieldUTF8Null("name")`)
	c("C15.layout.gzip-endian", "C15.layout", "format/gzip/gzip.go",
		`d.Endian = decode.LittleEndian`, `d.Endian = decode.BigEndian`, `Endian = `)
	c("C15.layout.zip-sizes-swapped", "C15.layout", "format/zip/zip.go",
		"compressedSizeBytes := d.FieldU32(\"compressed_size\")\n\t\t\t\td.FieldU32(\"uncompressed_size\")",
		"d.FieldU32(\"uncompressed_size\")\n\t\t\t\tcompressedSizeBytes := d.FieldU32(\"compressed_size\")", `/local_files/local_file|order`)
	c("C15.layout.zip-seek-after-member", "C15.layout", "format/zip/zip.go",
		`d.SeekAbs(compressedStart + compressedSize)`, `d.SeekAbs(compressedStart + compressedLimit)`, `SeekAbs(Pos@FieldArray(extra_fields)`)
	c("C15.layout.zip-zip64-offset-guard", "C15.layout", "format/zip/zip.go",
		"ef.zip64ExtendedInformation.localFileOffsetPresent {", "ef.zip64ExtendedInformation.compressedSizePresent {", `localFileOffset`)
	c("C15.layout.zip-eocd64-fixed", "C15.layout", "format/zip/zip.go",
		`const sizeOfFixedFields = 44`, `const sizeOfFixedFields = 56`, `size_of_end_of_central_directory`)
	c("C15.layout.zip-dosdate-month", "C15.layout", "format/zip/zip.go",
		`month := (fatDate >> 5) & 0b1111`, `month := (fatDate >> 5) & 0b11111`, `fat_date`)
	c("C15.layout.tar-size-width", "C15.layout", "format/tar/tar.go",
		`d.FieldScalarUTF8NullFixedLen("size", 12,`, `d.FieldScalarUTF8NullFixedLen("size", 11,`, `"size"`)
	c("C15.layout.tar-octal", "C15.layout", "format/tar/tar.go",
		`d.FieldScalarUTF8NullFixedLen("size", 12, scalar.TryStrSymParseUint(8))`, `d.FieldScalarUTF8NullFixedLen("size", 12, scalar.TryStrSymParseUint(10))`, `"size"`)
	c("C15.layout.tar-padding", "C15.layout", "format/tar/tar.go",
		`return (blockBits - (d.Pos() % blockBits)) % blockBits`, `return blockBits - (d.Pos() % blockBits)`, `return(`)
	c("C15.layout.tar-magic", "C15.layout", "format/tar/tar.go",
		`d.StrAssert("ustar")`, `d.StrAssert("ustar ")`, `magic`)
	c("C15.layout.png-flag-bit", "C15.layout", "format/png/png.go",
		"d.SeekRel(-4 * 8)\n\t\td.SeekRel(2)", "d.SeekRel(-4 * 8)\n\t\td.SeekRel(3)", `SeekRel(2)`)
	c("C15.layout.png-frame-len", "C15.layout", "format/png/png.go",
		`d.FramedFn(int64(chunkLength)*8, func(d *decode.D) {`, `d.FramedFn(int64(chunkLength+4)*8, func(d *decode.D) {`, `FramedFn(8*$length`)
	c("C15.layout.png-ihdr-width", "C15.layout", "format/png/png.go",
		"d.FieldU32(\"height\")\n\t\t\t\td.FieldU8(\"bit_depth\")", "d.FieldU16(\"height\")\n\t\t\t\td.FieldU8(\"bit_depth\")", `"height"`)
	c("C15.layout.gif-subblock", "C15.layout", "format/gif/gif.go",
		"byteCount := d.FieldU8(\"byte_count\")\n\t\t\t\t\t\t\t\td.FieldRawLen(\"data\", int64(byteCount*8))", "byteCount := d.FieldU8(\"byte_count\")\n\t\t\t\t\t\t\t\td.FieldRawLen(\"data\", int64(byteCount*8)+8)", `image_bytes/func_data_byte`)
	c("C15.layout.gif-depth-off-by-one", "C15.layout", "format/gif/gif.go",
		`bitDepth := d.FieldUintFn("bit_depth", func(d *decode.D) uint64 { return d.U3() + 1 })`, `bitDepth := d.FieldUintFn("bit_depth", func(d *decode.D) uint64 { return d.U3() })`, `/bit_depth`)
	c("C15.layout.wav-align", "C15.layout", "format/riff/common.go",
		`d.AlignBits(16)`, `d.AlignBits(32)`, `AlignBits(16)`)
	c("C15.layout.wav-rest-of-file", "C15.layout", "format/riff/wav.go",
		`size = d.BitsLeft() / 8`, `size = d.BitsLeft()`, `return($id`)
	c("C15.layout.wav-loop-count", "C15.layout", "format/riff/wav.go",
		`for range numSampleLoops {`, `for range numSampleLoops + 1 {`, `sample_loop`)
	c("C15.layout.bzip2-footer-search", "C15.layout", "format/bzip2/bzip2.go",
		`const footerByteSize = 10`, `const footerByteSize = 6`, `format/bzip2.bzip2Decode|`)
	c("C15.layout.gzip-empty-member-skipped", "C15.layout", "format/gzip/gzip.go",
		"brs = append(brs, br)", "if br != nil {\n\t\t\t\tbrs = append(brs, br)\n\t\t\t}", `assign(append(`)
	// ---- C15.inflate
	c("C15.inflate.gzip-method", "C15.inflate", "format/gzip/gzip.go",
		`const deflateMethod = 8`, `const deflateMethod = 9`, `flate.NewReader`)
	c("C15.inflate.zip-method", "C15.inflate", "format/zip/zip.go",
		"case compressionMethodDeflated:\n\t\t\t\t\t\t\t// bitio", "case compressionMethodEnhancedDeflated:\n\t\t\t\t\t\t\t// bitio", `flate.NewReader`)
	c("C15.inflate.zip-range-start", "C15.inflate", "format/zip/zip.go",
		`d.TryFieldReaderRangeFormat("uncompressed", d.Pos(), compressedLimit, rFn, &probeGroup, format.Probe_In{})`,
		`d.TryFieldReaderRangeFormat("uncompressed", compressedStart-8, compressedLimit, rFn, &probeGroup, format.Probe_In{})`, `TryFieldReaderRangeFormat("uncompressed"`)
	c("C15.inflate.gzip-compressed-len", "C15.inflate", "format/gzip/gzip.go",
		`d.FieldRawLen("compressed", readCompressedSize)`, `d.FieldRawLen("compressed", readCompressedSize-8)`, `"compressed"`)
	c("C15.inflate.png-zlib-len", "C15.inflate", "format/png/png.go",
		`d.FieldFormatReaderLen("uncompressed", dataLen, zlib.NewReader, &iccProfileGroup)`, `d.FieldFormatReaderLen("uncompressed", dataLen-8, zlib.NewReader, &iccProfileGroup)`, `iccProfileGroup`)
	c("C15.inflate.decode-size-units", "C15.inflate", "pkg/decode/decode.go",
		`return cz * 8, rbr, dv, v, err`, `return cz, rbr, dv, v, err`, `TryFieldReaderRangeFormat`)
	c("C15.inflate.decode-output-limited", "C15.inflate", "pkg/decode/decode.go",
		`rBuf, err := io.ReadAll(r)`, `rBuf, err := io.ReadAll(io.LimitReader(r, nBits))`, `FieldFormatReaderLen`)
	c("C15.inflate.decode-args-swapped", "C15.inflate", "pkg/decode/decode.go",
		`sz, br, _, _, err := d.TryFieldReaderRangeFormat(name, startBit, nBits, fn, nil, nil)`, `sz, br, _, _, err := d.TryFieldReaderRangeFormat(name, nBits, startBit, fn, nil, nil)`, `FieldReaderRange`)
	// ---- C15.sum
	c("C15.sum.gzip-validator-dropped", "C15.sum", "format/gzip/gzip.go",
		`d.FieldU32("crc32", d.UintValidateBytes(crc32W.Sum(nil)), scalar.UintHex)`, `d.FieldU32("crc32", scalar.UintHex)`, `gzipDecodeMember|crc32`)
	c("C15.sum.png-range-start", "C15.sum", "format/png/png.go",
		"crcStartPos := d.Pos()\n\t\tchunkType := d.FieldUTF8(\"type\", 4)", "chunkType := d.FieldUTF8(\"type\", 4)\n\t\tcrcStartPos := d.Pos()", `pngDecode|crc|feeds`)
	c("C15.sum.png-range-len", "C15.sum", "format/png/png.go",
		`d.BitBufRange(crcStartPos, d.Pos()-crcStartPos)`, `d.BitBufRange(crcStartPos, d.Pos()-crcStartPos-8)`, `pngDecode|crc|feeds`)
	c("C15.sum.gzip-feeds-compressed", "C15.sum", "format/gzip/gzip.go",
		`d.CopyBits(crc32W, d.CloneReadSeeker(uncompressedBR))`, `d.CopyBits(crc32W, d.BitBufRange(0, readCompressedSize))`, `gzipDecodeMember|crc32|feeds`)
	c("C15.sum.bzip2-no-bitflip", "C15.sum", "format/bzip2/bzip2.go",
		`d.Copy(blockCRC32W, bitFlipReader{bitio.NewIOReader(uncompressedBR)})`, `d.Copy(blockCRC32W, bitio.NewIOReader(uncompressedBR))`, `bzip2Decode|$crc@block|feeds`)
	c("C15.sum.bzip2-stream-rotate", "C15.sum", "format/bzip2/bzip2.go",
		`streamCRCN = blockCRC32N ^ ((streamCRCN << 1) | (streamCRCN >> 31))`, `streamCRCN = blockCRC32N ^ ((streamCRCN << 1) | (streamCRCN >> 30))`, `bzip2Decode|crc|expected`)
	c("C15.sum.ogg-zeroed-field", "C15.sum", "format/ogg/ogg_page.go",
		`d.Copy(pageCRC, bytes.NewReader([]byte{0, 0, 0, 0}))`, `d.Copy(pageCRC, bytes.NewReader([]byte{0, 0, 0}))`, `pageDecode|$crc|feeds`)
	c("C15.sum.flac-crc-width", "C15.sum", "format/flac/flac_frame.go",
		`footerCRC := &checksum.CRC{Bits: 16, Table: checksum.ANSI16Table}`, `footerCRC := &checksum.CRC{Bits: 16, Table: checksum.ATM8Table}`, `footer_crc|hash`)
	c("C15.sum.png-validate-to-plain-uint", "C15.sum", "format/png/png.go",
		`d.FieldU32("crc", d.UintValidateBytes(chunkCRC.Sum(nil)), scalar.UintHex)`, `d.FieldU32("crc", scalar.UintHex)`, `pngDecode|crc`)
	// ---- C15.mark
	c("C15.mark.uint-eq-negated", "C15.mark", "pkg/decode/decode_gen.go",
		"func requireUint(name string, s scalar.Uint, desc bool, fail bool, vs ...uint64) (scalar.Uint, error) {\n\ta := s.Actual\n\tfor _, b := range vs {\n\t\tif a == b {",
		"func requireUint(name string, s scalar.Uint, desc bool, fail bool, vs ...uint64) (scalar.Uint, error) {\n\ta := s.Actual\n\tfor _, b := range vs {\n\t\tif a != b {", `requireUint`)
	c("C15.mark.range-strict", "C15.mark", "pkg/decode/decode_gen.go",
		"func requireRangeUint(name string, s scalar.Uint, desc bool, fail bool, start, end uint64) (scalar.Uint, error) {\n\ta := s.Actual\n\tif a >= start && a <= end {",
		"func requireRangeUint(name string, s scalar.Uint, desc bool, fail bool, start, end uint64) (scalar.Uint, error) {\n\ta := s.Actual\n\tif a > start && a <= end {", `requireRangeUint|cond`)
	c("C15.mark.validate-desc-off", "C15.mark", "pkg/decode/decode_gen.go",
		`return requireUint("validate", s, true, false, vs...)`, `return requireUint("validate", s, false, false, vs...)`, `UintValidate|desc`)
	c("C15.mark.range-bounds-swapped", "C15.mark", "pkg/decode/decode_gen.go",
		`requireRangeSint("validate", s, true, false, start, end)`, `requireRangeSint("validate", s, true, false, end, start)`, `SintValidateRange|candidates`)
	c("C15.mark.bytes-strings-swapped", "C15.mark", "pkg/decode/scalar.go",
		"\t\tif au == bu {\n\t\t\ts.Description = \"valid\"", "\t\tif au == bu {\n\t\t\ts.Description = \"invalid\"", `UintAssertBytes|paths`)
	c("C15.mark.bitbuf-invalid-dropped", "C15.mark", "pkg/decode/scalar.go",
		"\ts.Description = \"invalid\"\n\tif isErr {\n\t\treturn s, errors.New(\"failed to validate raw\")\n\t}\n\treturn s, nil\n}\n\nfunc (d *D) AssertBitBuf",
		"\tif isErr {\n\t\ts.Description = \"invalid\"\n\t\treturn s, errors.New(\"failed to validate raw\")\n\t}\n\treturn s, nil\n}\n\nfunc (d *D) AssertBitBuf", `assertBitBuf|paths`)
	c("C15.mark.validatebytes-errs", "C15.mark", "pkg/decode/scalar.go",
		`return UintAssertBytes(s, false, d.Endian, bss...)`, `return UintAssertBytes(s, true, d.Endian, bss...)`, `UintValidateBytes|fail`)
	// ---- C15.crc
	c("C15.crc.sum-byte-order", "C15.crc", "pkg/checksum/crc.go",
		`byte(s>>24), byte(s>>16), byte(s>>8), byte(s)`, `byte(s), byte(s>>8), byte(s>>16), byte(s>>24)`, `CRC).Sum`)
	c("C15.crc.poly", "C15.crc", "pkg/checksum/crc.go",
		`MakeTable(0x8005, 16)`, `MakeTable(0x8003, 16)`, `checksum.init`)
	c("C15.crc.write-shift", "C15.crc", "pkg/checksum/crc.go",
		`c.Current = (c.Current<<8 ^ c.Table[(c.Current>>24)^uint(b)]) & 0xff_ff_ff_ff`, `c.Current = (c.Current<<8 ^ c.Table[(c.Current>>16)^uint(b)]) & 0xff_ff_ff_ff`, `CRC).Write`)
	c("C15.crc.table-topbit", "C15.crc", "pkg/checksum/crc.go",
		`if crc&(1<<(bits-1)) != 0 {`, `if crc&(1<<bits) != 0 {`, `MakeTable`)
	c("C15.crc.ipv4-complement", "C15.crc", "pkg/checksum/ipv4.go",
		`s ^= 0xffff`, `s ^= 0xfffe`, `IPv4).Sum`)
	c("C15.crc.ipv4-lane", "C15.crc", "pkg/checksum/ipv4.go",
		`c.sum += uint(b) << 8`, `c.sum += uint(b) << 4`, `IPv4).Write`)
	c("C15.crc.assertbytes-little-endian", "C15.crc", "pkg/decode/scalar.go",
		"case LittleEndian:\n\t\tbo = binary.BigEndian", "case LittleEndian:\n\t\tbo = binary.LittleEndian", `UintAssertBytes|decode:`)
	c("C15.crc.bzip2-bitflip", "C15.crc", "format/bzip2/bzip2.go",
		`p[i] = bits.Reverse8(p[i])`, `p[i] = p[i]`, `bitFlipReader).Read`)
	// ---- C15.find
	c("C15.find.backward-bound", "C15.find", "pkg/decode/decode.go",
		`count < -maxLen)`, `count <= -maxLen)`, `bound:backward`)
	c("C15.find.forward-bound", "C15.find", "pkg/decode/decode.go",
		`count >= maxLen)`, `count > maxLen)`, `bound:forward`)
	c("C15.find.unbounded-guard", "C15.find", "pkg/decode/decode.go",
		`(seekBits < 0 && maxLen > 0 && count < -maxLen)`, `(seekBits < 0 && count < -maxLen)`, `bound:backward`)
	c("C15.find.backward-init", "C15.find", "pkg/decode/decode.go",
		`count = int64(-nBits)`, `count = int64(-nBits) + seekBits`, `offset-init`)
	c("C15.find.backward-preseek", "C15.find", "pkg/decode/decode.go",
		"count = int64(-nBits)\n\t\tif _, err := d.bitBuf.SeekBits(start+count, io.SeekStart); err != nil {", "count = int64(-nBits)\n\t\tif _, err := d.bitBuf.SeekBits(start, io.SeekStart); err != nil {", `backward-start`)
	c("C15.find.match-continues", "C15.find", "pkg/decode/decode.go",
		"found = true\n\t\t\tbreak", "found = true", `match-exits`)
	c("C15.find.none-result", "C15.find", "pkg/decode/decode.go",
		"if !found {\n\t\treturn -1, 0, nil", "if !found {\n\t\treturn 0, 0, nil", `result:none`)
	c("C15.find.not-restored", "C15.find", "pkg/decode/decode.go",
		"if _, err := d.bitBuf.SeekBits(start, io.SeekStart); err != nil {\n\t\treturn -1, 0, err\n\t}\n\n\tif !found {", "if _, err := d.bitBuf.SeekBits(0, io.SeekCurrent); err != nil {\n\t\treturn -1, 0, err\n\t}\n\n\tif !found {", `restore:`)
	c("C15.find.step-borrowed", "C15.find", "pkg/decode/decode.go",
		"count += seekBits\n", "count += int64(nBits)\n", `TryPeekFind`)
	// ---- C15.layout: error arms, merged locals, search predicates, inline formats, reported values, mapper closures
	c("C15.layout.gzip-no-members-weakened", "C15.layout", "format/gzip/gzip.go",
		`if len(brs) == 0 {`, `if len(brs) <= 1 {`, `Fatalf("no members found")`)
	c("C15.layout.tar-no-files-weakened", "C15.layout", "format/tar/tar.go",
		`if filesCount == 0 {`, `if filesCount <= 1 {`, `Errorf("no files found")`)
	c("C15.layout.wav-type-check-negated", "C15.layout", "format/riff/wav.go",
		`if riffType != wavRiffType {`, `if riffType == wavRiffType {`, `Errorf("wrong or no WAV riff type found`)
	c("C15.layout.gif-trailer-const", "C15.layout", "format/gif/gif.go",
		`case ';':`, `case ':':`, `Fatalf("unknown block")`)
	c("C15.layout.gzip-unknown-method-accepted", "C15.layout", "format/gzip/gzip.go",
		"\t} else {\n\t\td.Fatalf(\"unknown compression method %d\", compressionMethod)\n\t}", "\t}", `Fatalf("unknown compression method`)
	c("C15.layout.zip-limit-cond-negated", "C15.layout", "format/zip/zip.go",
		`if compressedLimit == 0 {`, `if compressedLimit != 0 {`, `merge(BitsLeft`)
	c("C15.inflate.zip-streamed-size-cond", "C15.inflate", "format/zip/zip.go",
		"if compressedSize == 0 {\n\t\t\t\t\t\t\tcompressedSize = readCompressedSize", "if compressedSize < 0 {\n\t\t\t\t\t\t\tcompressedSize = readCompressedSize", `merge(TryFieldReaderRangeFormat`)
	c("C15.layout.bzip2-tree-delta-swapped", "C15.layout", "format/bzip2/bzip2.go",
		"if d.Bool() {\n\t\t\t\t\tl--\n\t\t\t\t} else {\n\t\t\t\t\tl++", "if d.Bool() {\n\t\t\t\t\tl++\n\t\t\t\t} else {\n\t\t\t\t\tl--", `merge(`)
	c("C15.layout.zip-eocd-search-signature", "C15.layout", "format/zip/zip.go",
		`int(searchBytes)), endOfCentralDirectoryRecordSignature)`, `int(searchBytes)), endOfCentralDirectoryLocatorSignature)`, `endOfCentralDirectoryRecordSignature`)
	c("C15.layout.zip-locator-search-signature", "C15.layout", "format/zip/zip.go",
		`return v == uint64(endOfCentralDirectoryLocatorSignatureN)`, `return v == uint64(endOfCentralDirectoryRecordSignatureN)`, `endOfCentralDirectoryLocatorSignatureN`)
	c("C15.layout.png-ztxt-text-len", "C15.layout", "format/png/png.go",
		`d.FieldUTF8("text", int(d.BitsLeft()/8))`, `d.FieldUTF8("text", int(d.BitsLeft()/8)-1)`, `/chunks/uncompressed`)
	c("C15.layout.zip-unix-guess-seconds", "C15.layout", "format/zip/zip.go",
		`hour, minute, second*2, 0, time.UTC)`, `hour, minute, second, 0, time.UTC)`, `unix_guess`)
	c("C15.layout.zip-year-base", "C15.layout", "format/zip/zip.go",
		`s.Sym = s.Actual + 1980`, `s.Sym = s.Actual + 1970`, `last_modification/year`)
	c("C15.layout.tar-mtime-unit", "C15.layout", "format/tar/tar.go",
		`time.Duration(v) * time.Second`, `time.Duration(v) * time.Millisecond`, `/files/file/mtime`)
	// ---- C15.attach (borrowed C05.rootbase obligations)
	c("C15.attach.rootbitbuf-reader", "C15.attach", "pkg/decode/decode.go",
		"v.RootReader = br\n\tv.IsRoot = true", "v.RootReader = d.bitBuf\n\tv.IsRoot = true", `FieldRootBitBuf`)
	c("C15.attach.rootbitbuf-len", "C15.attach", "pkg/decode/decode.go",
		`v.Range = ranges.Range{Start: d.Pos(), Len: brLen}`, `v.Range = ranges.Range{Start: d.Pos(), Len: brLen - d.Pos()}`, `FieldRootBitBuf`)
	c("C15.attach.formatbitbuf-reader", "C15.attach", "pkg/decode/decode.go",
		`decode(d.Ctx, br, group, Options{`, `decode(d.Ctx, d.bitBuf, group, Options{`, `TryFieldFormatBitBuf`)
	c("C15.attach.formatbitbuf-len", "C15.attach", "pkg/decode/decode.go",
		"\tdv.Range.Start = d.Pos()\n\n\td.AddChild(dv)\n\n\treturn dv, v, err\n}\n\nfunc (d *D) FieldFormatBitBuf", "\tdv.Range = ranges.Range{Start: d.Pos(), Len: d.BitsLeft()}\n\n\td.AddChild(dv)\n\n\treturn dv, v, err\n}\n\nfunc (d *D) FieldFormatBitBuf", `TryFieldFormatBitBuf`)
	c("C15.layout.bzip2-footer-search-magic", "C15.layout", "format/bzip2/bzip2.go",
		`if d.PeekUintBits(48) == footerMagic {`, `if d.PeekUintBits(48) == blockMagic {`, `break`)
	c("C15.layout.tar-zero-scan-bound", "C15.layout", "format/tar/tar.go",
		`for d.BitsLeft() >= blockBytes*8 && bytes.Equal(d.PeekBytes(blockBytes), zeroBlock[:]) {`, `for d.BitsLeft() > blockBytes*8 && bytes.Equal(d.PeekBytes(blockBytes), zeroBlock[:]) {`, `break`)
	c("C15.find.zip-eocd-window-128", "C15.find", "format/zip/zip.go",
		`searchBytes := min(d.Len()/8, 22+0xffff)`, `searchBytes := min(d.Len()/8, 128)`, `eocd-search|window`)
	c("C15.find.zip-eocd-first-occurrence", "C15.find", "format/zip/zip.go",
		`eocdIndex := bytes.LastIndex(`, `eocdIndex := bytes.Index(`, `eocd-search|last`)
	c("C15.find.zip-eocd-none-not-fatal", "C15.find", "format/zip/zip.go",
		"\tif eocdIndex == -1 {\n\t\td.Fatalf(\"can't find end of central directory\")\n\t}\n", "", `eocd-search|none-fatal`)
	c("C15.find.zip-eocd-seek-units", "C15.find", "format/zip/zip.go",
		`d.SeekAbs(searchStart + int64(eocdIndex)*8)`, `d.SeekAbs(searchStart + int64(eocdIndex))`, `eocd-search|seek`)
	c("C15.find.zip-eocd-range-start", "C15.find", "format/zip/zip.go",
		`searchStart := d.Len() - searchBytes*8`, `searchStart := d.Len() - searchBytes`, `eocd-search|window`)
	// ---- C15.inarg
	c("C15.inarg.default-else-if", "C15.inarg", "pkg/decode/decode.go",
		"\t\t\tinArgs = append(inArgs, opts.InArg)\n\t\t}\n\t\tif !hasFormatOpts && f.DefaultInArg != nil {", "\t\t\tinArgs = append(inArgs, opts.InArg)\n\t\t} else if !hasFormatOpts && f.DefaultInArg != nil {", `decode|inargs|default`)
	c("C15.inarg.default-with-format-opts", "C15.inarg", "pkg/decode/decode.go",
		`if !hasFormatOpts && f.DefaultInArg != nil {`, `if f.DefaultInArg != nil {`, `decode|inargs|default`)
	c("C15.inarg.inarg-dropped", "C15.inarg", "pkg/decode/decode.go",
		"\t\tif opts.InArg != nil {\n\t\t\tinArgs = append(inArgs, opts.InArg)", "\t\tif opts.InArg != nil && !hasFormatOpts {\n\t\t\tinArgs = append(inArgs, opts.InArg)", `decode|inargs|in`)
	c("C15.inarg.format-appends-default", "C15.inarg", "pkg/decode/decode.go",
		`inArgs = append(inArgs, formatArg)`, `inArgs = append(inArgs, f.DefaultInArg)`, `decode|inargs|format`)
	c("C15.inarg.group-negated", "C15.inarg", "pkg/decode/decode.go",
		"\t\tif hasGroupOpts {\n\t\t\tinArgs = append(inArgs, groupArg)", "\t\tif !hasGroupOpts {\n\t\t\tinArgs = append(inArgs, groupArg)", `decode|inargs|group`)
	c("C15.inarg.order", "C15.inarg", "pkg/decode/decode.go",
		"\t\tif hasFormatOpts {\n\t\t\tinArgs = append(inArgs, formatArg)\n\t\t}\n\t\tif opts.InArg != nil {\n\t\t\tinArgs = append(inArgs, opts.InArg)\n\t\t}\n", "\t\tif opts.InArg != nil {\n\t\t\tinArgs = append(inArgs, opts.InArg)\n\t\t}\n\t\tif hasFormatOpts {\n\t\t\tinArgs = append(inArgs, formatArg)\n\t\t}\n", `decode|inargs|order`)
	c("C15.inarg.carried-over", "C15.inarg", "pkg/decode/decode.go",
		"\tfor _, f := range group.Formats {\n\t\tvar inArgs []any\n", "\tvar inArgs []any\n\tfor _, f := range group.Formats {\n", `decode|inargs|fresh`)
	c("C15.inarg.argas-result", "C15.inarg", "pkg/decode/decode.go",
		"targetVal.Elem().Set(reflect.ValueOf(in))\n\t\t\treturn true", "targetVal.Elem().Set(reflect.ValueOf(in))\n\t\t\treturn false", `ArgAs|first-wins`)
	c("C15.inarg.argas-copies-target", "C15.inarg", "pkg/decode/decode.go",
		`targetVal.Elem().Set(reflect.ValueOf(in))`, `targetVal.Elem().Set(reflect.ValueOf(target).Elem())`, `ArgAs|copies-element`)
	c("C15.inarg.zip-default-uncompress", "C15.inarg", "format/zip/zip.go",
		`Uncompress: true,`, `Uncompress: false,`, `DefaultInArg.Uncompress`)
}
