package rules

// Positive controls of C06, second set: one seeded edit per rule (and per clause of the rules that have
// several), each a realistic slip in the anchored mechanism.
func init() {
	add := func(id, rule, file, old, new, expect string) {
		AddControl(Control{ID: id, Prop: "C06", Rule: rule, File: file, Old: old, New: new, ExpectKey: expect})
	}
	const (
		rf  = "internal/recoverfn/recoverfn.go"
		dd  = "pkg/decode/decode.go"
		rd  = "pkg/decode/read.go"
		ldb = "format/leveldb/leveldb_table.go"
	)
	// C06.roots
	add("c06-roots-indirect", "C06.roots", "format/csv/csv.go",
		"\t\t\tDecodeFn:    decodeCSV,", "\t\t\tDecodeFn:    map[string]func(d *decode.D) any{\"csv\": decodeCSV}[\"csv\"],", "store:")
	// C06.recover: the value flow and the failure primitives
	add("c06-recover-value-dropped", "C06.recover", rf, "\t\t\t\t\tv = recoverV\n", "", "Run:value")
	add("c06-recover-ok-true", "C06.recover", rf, "\t\tPCs:       pc,\n\t}, false", "\t\tPCs:       pc,\n\t}, true", "Run:result")
	add("c06-recover-wrong-field", "C06.recover", rf, "\t\tRecoverV:  v,\n", "\t\tRecoverV:  pc,\n", "Run:result")
	add("c06-recover-rok-inverted", "C06.recover", dd, "\t\tif !rOk {\n\t\t\tvar panicErr error", "\t\tif rOk {\n\t\t\tvar panicErr error", "decode:rOk")
	add("c06-recover-fatalf-force", "C06.recover", dd,
		"func (d *D) Fatalf(format string, a ...any) {\n\tpanic(DecoderError{Reason: fmt.Sprintf(format, a...), Pos: d.Pos()})\n}",
		"func (d *D) Fatalf(format string, a ...any) {\n\tif !d.Options.Force {\n\t\tpanic(DecoderError{Reason: fmt.Sprintf(format, a...), Pos: d.Pos()})\n\t}\n}", "api:Fatalf")
	add("c06-recover-errorf-inverted", "C06.recover", dd,
		"func (d *D) Errorf(format string, a ...any) {\n\tif !d.Options.Force {", "func (d *D) Errorf(format string, a ...any) {\n\tif d.Options.Force {", "api:Errorf")
	// C06.panic: mechanised precondition of the Read64 exception
	add("c06-panic-read64-unbounded", "C06.panic", dd,
		"\tif nBits < 0 || nBits > 64 {\n\t\treturn 0, fmt.Errorf(\"nBits must be 0-64 (%d)\", nBits)", "\tif nBits < 0 {\n\t\treturn 0, fmt.Errorf(\"nBits must be 0-64 (%d)\", nBits)", "Read64")
	// C06.table
	add("c06-table-luajit-bound", "C06.table", "format/luajit/luajit.go", "\tif int(op) >= len(opcodes) {", "\tif int(op) > len(opcodes) {", "opcodes")
	// C06.idx: sign of a converted reader result, and a test against the wrong length
	add("c06-idx-leveldb-sign", "C06.idx", ldb, "\t\t\t\tif shared < 0 || shared > int64(len(lastKey)) {", "\t\t\t\tif int(shared) > len(lastKey) {", "readKeyValueContents")
	add("c06-idx-jpeg-wrong-length", "C06.idx", "format/jpeg/jpeg.go", "if offset > uint64(len(extendedXMP)) {", "if offset > fullLength {", "jpegDecode")
	add("c06-idx-avro-negative", "C06.idx", "format/avro/decoders/union.go", "if v < 0 || v >= len(decoders) {", "if v >= len(decoders) {", "decodeUnionFn")
	// C06.force
	add("c06-force-flac-shift", "C06.force", "format/flac/flac_frame.go", "\t\t\t\t\t\td.Fatalf(\"negative LPC shift %d\", shift)", "\t\t\t\t\t\td.Errorf(\"negative LPC shift %d\", shift)", "shift count")
	// C06.param
	add("c06-param-rawip-empty", "C06.param", "format/inet/flowsdecoder/flowsdecoder.go", "\tif len(bs) == 0 {\n\t\treturn fmt.Errorf(\"empty ip packet\")\n\t}\n", "", "RAWIPFrame")
	// C06.bufslice
	add("c06-bufslice-clamp-operand", "C06.bufslice", rd, "\t\tlenBytes = min(lenBytes, uint64(readBytes))\n", "\t\tlenBytes = min(lenBytes, uint64(fixedBytes))\n", "tryTextLenPrefixed")
	add("c06-bufslice-shared-buf", "C06.bufslice", rd, "\tbuf := d.SharedReadBuf(b)[0:b]\n", "\tbuf := d.SharedReadBuf(b)[0 : b+1]\n", "tryBigIntEndianSign")
	// C06.alloc
	add("c06-alloc-byteslen-weak", "C06.alloc", dd, "func (d *D) TryBytesLen(nBytes int) ([]byte, error) {\n\tif nBytes < 0 {", "func (d *D) TryBytesLen(nBytes int) ([]byte, error) {\n\tif nBytes < -1 {", "TryBytesLen")
	add("c06-alloc-byteslen-noclamp", "C06.alloc", dd, "\t\tif maxBytes := bitsLeft/8 + 1; maxBytes > 0 && int64(nBytes) > maxBytes {\n\t\t\tnBytes = int(maxBytes)\n\t\t}", "\t\tif maxBytes := bitsLeft/8 + 1; maxBytes > 0 && int64(nBytes) > maxBytes {\n\t\t\t_ = maxBytes\n\t\t}", "TryBytesLen|clamp")
	add("c06-alloc-bytesrange-noclamp", "C06.alloc", dd, "\t\tif maxBytes := max((bLen-bitOffset)/8, 0) + 1; int64(nBytes) > maxBytes {\n\t\t\tnBytes = int(maxBytes)\n\t\t}", "\t\tif maxBytes := max((bLen-bitOffset)/8, 0) + 1; int64(nBytes) > maxBytes {\n\t\t\t_ = maxBytes\n\t\t}", "TryBytesRange|clamp")
	add("c06-alloc-bytesrange-clamp-skipped", "C06.alloc", dd, "\t\tif maxBytes := max((bLen-bitOffset)/8, 0) + 1; int64(nBytes) > maxBytes {", "\t\tif maxBytes := (bLen-bitOffset)/8 + 1; maxBytes > 0 && int64(nBytes) > maxBytes {", "TryBytesRange|clamp")
	// C06.bounds: index, slice bound, constant index
	add("c06-bounds-mp4-stco", "C06.bounds", "format/mp4/mp4.go", "\t\t\t\t\t\t\t\tif stcoIndex >= len(t.stco) {", "\t\t\t\t\t\t\t\tif stcoIndex > len(t.stco) {", "t.stco")
	add("c06-bounds-slice-jpeg", "C06.bounds", "format/jpeg/jpeg.go", "if offset > uint64(len(extendedXMP)) {", "if offset > uint64(len(extendedXMP))+1 {", "slice#")
	add("c06-bounds-const-keylog", "C06.bounds", "format/tls/keylog/keylog.go", "\t\tif len(parts) != 3 {", "\t\tif len(parts) < 2 {", "const#")
	add("c06-bounds-shared-arm", "C06.bounds", ldb, "\t\t\t\tif shared < 0 || shared > int64(len(lastKey)) {", "\t\t\t\tif shared < 0 || shared > int64(len(lastKey))+1 {", "lastKey")
	// C06.typednil
	add("c06-typednil-reader", "C06.typednil", dd,
		"\trbr := bitio.NewBitReader(rb, -1)\n\tif err != nil {\n\t\treturn 0, nil, nil, nil, err\n\t}",
		"\tvar rbr *bitio.SectionReader\n\tif err != nil {\n\t\treturn 0, rbr, nil, nil, err\n\t}\n\trbr = bitio.NewBitReader(rb, -1)", "TryFieldReaderRangeFormat")
	// C06.outtype
	add("c06-outtype-ogg-pointer", "C06.outtype", "format/ogg/ogg_page.go", "\treturn p\n", "\treturn &p\n", "Ogg_Page_Out")
	// C06.sentinel: not-found result of bytes.IndexByte
	add("c06-sentinel-indexbyte", "C06.sentinel", rd, "\tif nullIndex != -1 {\n\t\tbs = bs[:nullIndex]\n\t}", "\tbs = bs[:nullIndex]", "IndexByte")
	// C06.sym: mechanised totality of the mapper literals
	add("c06-sym-range-gap", "C06.sym", "format/flac/flac_frame.go", "\t\t\t\t\t{Range: [2]uint64{0b001101, 0b001111}, S: scalar.Uint{Sym: SubframeReserved}},\n", "", "no longer holds")
	add("c06-sym-map-key", "C06.sym", "format/asn1/asn1_ber.go", "\t\t\t\t\t\t0b11: 0,\n", "", "no longer holds")
	// C06.lenidx
	add("c06-lenidx-frames", "C06.lenidx", rf, "\tendIndex := len(fs) - 1\n", "\tendIndex := len(fs) + 1\n", "frames")
	add("c06-lenidx-fieldre", "C06.lenidx", dd, "\td.SeekAbs(rs[0].Stop())", "\td.SeekAbs(rs[len(rs)].Stop())", "FieldRE")
	// C06.array
	add("c06-array-mp3-bitrate", "C06.array", "format/mpeg/mp3_frame.go", "\t\t\t\tif i >= 9 {", "\t\t\t\tif i > 9 {", "[9]")
	add("c06-array-mp3-version-map", "C06.array", "format/mpeg/mp3_frame.go", "\tmpegVersion25: 3,\n\tmpegVersion2:  2,", "\tmpegVersion25: 4,\n\tmpegVersion2:  2,", "no longer holds")
	// C06.apisign
	add("c06-apisign-shift", "C06.apisign", rd, "\tif nBits < 1 {\n\t\treturn 0, fmt.Errorf(\"trySEndian nBits must be >= 1 (%d)\", nBits)", "\tif nBits < 0 {\n\t\treturn 0, fmt.Errorf(\"trySEndian nBits must be >= 1 (%d)\", nBits)", "trySEndian")
	add("c06-apisign-bits-negative", "C06.apisign", dd, "func (d *D) TryBits(nBits int) ([]byte, error) {\n\tif nBits < 0 {\n\t\treturn nil, fmt.Errorf(\"nBits must be >= 0 (%d)\", nBits)\n\t}\n", "func (d *D) TryBits(nBits int) ([]byte, error) {\n", "SharedReadBuf")
	// C06.wrapconv
	add("c06-wrapconv-luajit-width", "C06.wrapconv", "format/luajit/luajit.go", "\top := d.FieldU8(\"op\", opcodes)", "\top := d.FieldU64(\"op\", opcodes)", "LuaJITDecodeBCIns")
	add("c06-wrapconv-elf-strtab", "C06.wrapconv", "format/elf/elf.go", "\tif idx < 0 || idx > len(s) {", "\tif idx > len(s) {", "elf.strIndexNull")
	add("c06-wrapconv-leveldb", "C06.wrapconv", ldb, "\t\t\t\tif shared < 0 || shared > int64(len(lastKey)) {", "\t\t\t\tif int(shared) > len(lastKey) {", "readKeyValueContents")
	// C06.nilres
	add("c06-nilres-fieldformat", "C06.nilres", dd,
		"\tdv, v, err := d.TryFieldFormat(name, group, inArg)\n\tif dv == nil || dv.Errors() != nil {", "\tdv, v, err := d.TryFieldFormat(name, group, inArg)\n\tif dv.Errors() != nil {", "FieldFormat")
	add("c06-nilres-tryfieldformat", "C06.nilres", dd,
		"\tif dv == nil || dv.Errors() != nil {\n\t\treturn nil, nil, err\n\t}\n\n\td.AddChild(dv)\n\tif _, err := d.bitBuf.SeekBits(dv.Range.Len, io.SeekCurrent); err != nil {",
		"\tif dv != nil && dv.Errors() != nil {\n\t\treturn nil, nil, err\n\t}\n\n\td.AddChild(dv)\n\tif _, err := d.bitBuf.SeekBits(dv.Range.Len, io.SeekCurrent); err != nil {", "TryFieldFormat")
	// C06.usub
	add("c06-usub-flac-if-form", "C06.usub", "format/flac/flac.go",
		"\t\t\tif streamTotalSamples > 0 {\n\t\t\t\tsamplesInFrame = min(streamTotalSamples-streamDecodedSamples, ffo.Samples)\n\t\t\t}",
		"\t\t\tif streamTotalSamples > 0 && streamDecodedSamples+ffo.Samples > streamTotalSamples {\n\t\t\t\tsamplesInFrame = streamTotalSamples - streamDecodedSamples\n\t\t\t}", "flacDecode")
	add("c06-usub-mp3-version-map", "C06.usub", "format/mpeg/mp3_frame.go", "\tmpegVersion25: 3,\n\tmpegVersion2:  2,", "\tmpegVersion25: 0,\n\tmpegVersion2:  2,", "no longer holds")
	// C06.rdslice
	add("c06-rdslice-midi-peek", "C06.rdslice", "format/midi/midi.go", "\t\t\t\t\t// ... meta-event\n\t\t\t\t\tif ix < n {", "\t\t\t\t\t// ... meta-event\n\t\t\t\t\tif ix <= n {", "peekEvent")
	add("c06-rdslice-caff-loop", "C06.rdslice", "format/caff/caff.go", "\t\tfor i := uint64(0); i < length; i++ {\n\t\t\traw[i] ^= byte(obfsKey)", "\t\tfor i := uint64(0); i <= length; i++ {\n\t\t\traw[i] ^= byte(obfsKey)", "decodeCAFF")
	add("c06-rdslice-aiff-pstring", "C06.rdslice", "format/riff/aiff.go", "\treturn s[0:min(int(l), len(s))]", "\treturn s[0 : l+1-pad]", "aiffPString")
	// C06.lenmin
	add("c06-lenmin-midi-sysex", "C06.lenmin", "format/midi/sysex.go",
		"\t\t\tbytes := d.PeekBytes(int(length - 1))\n\t\t\tN := len(bytes)\n\n\t\t\tif N > 0 && bytes[N-1] == 0xf7 {\n\t\t\t\tctx.casio = false",
		"\t\t\tbytes := d.PeekBytes(int(length - 1))\n\t\t\tN := len(bytes)\n\n\t\t\tif bytes[N-1] == 0xf7 {\n\t\t\t\tctx.casio = false", "decodeSysExMessage")
	add("c06-lenmin-mp4-push-dropped", "C06.lenmin", "format/mp4/boxes.go", "\tctx.path = append(ctx.path, pathEntry{typ: typ, data: parentData})\n", "", "no longer holds")
	// C06.errfirst
	add("c06-errfirst-defer-close", "C06.errfirst", "pkg/decode/decode.go", "\tr, err := fn(bbBR)\n\tif err != nil {", "\tr, err := fn(bbBR)\n\tdefer r.Close()\n\tif err != nil {", "FieldFormatReaderLen")
	// C06.loopguard recseek: the visited set of tiff's sub-IFD recursion
	add("c06-recseek-tiff-not-filled", "C06.loopguard", "format/tiff/tiff.go", "\t\t\t\t\t\tifdSeen[int64(ifdPos)] = struct{}{}\n\t\t\t\t\t\tpos := d.Pos()", "\t\t\t\t\t\tpos := d.Pos()", "recseek:")
	add("c06-recseek-tiff-errorf", "C06.loopguard", "format/tiff/tiff.go", "\t\t\t\t\t\t\td.Fatalf(\"ifd loop detected for %d\", ifdPos)", "\t\t\t\t\t\t\td.Errorf(\"ifd loop detected for %d\", ifdPos)", "recseek:")
	// C06.nilfield
	add("c06-nilfield-mp4-moof", "C06.nilfield", "format/mp4/boxes.go",
		"\tcase \"trun\": // Track Fragment Run\n\t\tm := &moof{}\n\t\t// moof is nil if there was no tfhd box before\n\t\tif t := ctx.currentTrafBox(); t != nil && t.moof != nil {",
		"\tcase \"trun\": // Track Fragment Run\n\t\tm := &moof{}\n\t\tif t := ctx.currentTrafBox(); t != nil {", "moof")
	add("c06-nilfield-matroska-track", "C06.nilfield", "format/matroska/matroska.go",
		"\t\t\t\t\tif dc.currentTrack != nil && tagID == ebml_matroska.CodecIDID {", "\t\t\t\t\tif tagID == ebml_matroska.CodecIDID {", "currentTrack")
	add("c06-nilfield-avi-assert", "C06.nilfield", "format/riff/avi.go",
		"\t\t\t\t\t\t\tif stream != nil {\n\t\t\t\t\t\t\t\tstream.indexes = append(stream.indexes, ranges.Range{\n\t\t\t\t\t\t\t\t\tStart: offset * 8,\n\t\t\t\t\t\t\t\t\tLen:   size * 8,\n\t\t\t\t\t\t\t\t})\n\t\t\t\t\t\t\t}",
		"\t\t\t\t\t\t\tstream.indexes = append(stream.indexes, ranges.Range{\n\t\t\t\t\t\t\t\tStart: offset * 8,\n\t\t\t\t\t\t\t\tLen:   size * 8,\n\t\t\t\t\t\t\t})", "var:stream")
	// C06.outtype: a Try/OrRaw source of the asserted out value
	add("c06-outtype-orraw", "C06.outtype", "format/mp4/boxes.go", "\t\t_, v := d.FieldFormat(\"descriptor\", &mpegESGroup, nil)\n\t\tmpegEsOut, ok := v.(format.MPEG_ES_Out)", "\t\t_, v := d.FieldFormatOrRaw(\"descriptor\", &mpegESGroup, nil)\n\t\tmpegEsOut, ok := v.(format.MPEG_ES_Out)", "MPEG_ES_Out")
	// C06.loopguard
	add("c06-loopguard-fresh-detector", "C06.loopguard", "format/apple/bookmark/apple_bookmark.go", "d.SeekAbs(int64(baseOffset), decodeRecord)", "d.SeekAbs(int64(baseOffset), makeDecodeRecord())", "maker:")
	add("c06-loopguard-detect-errorf", "C06.loopguard", "format/apple/bookmark/apple_bookmark.go", "func() { d.Fatalf(\"infinite recursion detected in record decode function\") },", "func() { d.Errorf(\"infinite recursion detected in record decode function\") },", "detect:")
	add("c06-loopguard-push-dropped", "C06.loopguard", "format/apple/bplist/bplist.go", "\tdefer pl.pld.PushAndPop(idx, func() { d.Fatalf(\"infinite recursion detected\") })()\n", "", "seek:")
}
