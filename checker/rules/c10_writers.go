package rules

import (
	"fmt"
	"go/token"
	"go/types"
	"strings"

	"golang.org/x/tools/go/ssa"

	"fqverif/fw"
)

// C10.writer: the two sibling column writers (hex pairs, ascii) implement the same line model:
// the k-th byte written lands in linear cell startLineOffset+k, a row has `width` cells.

type c10WriterSpec struct {
	key   string // hex | ascii
	pkg   string
	cellW int // characters per cell incl. separator
}

func c10WriterRules(r *fw.Run, p *fw.Program) {
	ru := r.Rule("C10.writer", "hexpairwriter and asciiwriter (siblings): New binds width/startLineOffset/fn to the fields Write uses as modulus / pad bound / cell function, offset starts at 0 and is only ever incremented by 1 (once per pad cell, once per byte); every modulus is offset % width; pad loop runs while offset < startLineOffset; a newline is emitted only after the cell in column width-1 (and only if more bytes follow in the chunk) or, deferred, before column 0 when offset > startLineOffset; pad cells have the width of data cells; cells are fn(p[i]); the cell text is appended at buf[bufOffset:] with bufOffset advanced by its length, bufOffset is reset after every flush and set to 1 after a deferred separator at buf[0], and advanced by 1 after a byte stored at buf[bufOffset]; a replacement (grown) line buffer keeps the old contents, is taken whenever room for the cell (+1) lacks and has that room", 42)
	for _, sp := range []c10WriterSpec{{"hex", "internal/hexpairwriter", 3}, {"ascii", "internal/asciiwriter", 1}} {
		c10WriterCheck(ru, p, sp)
	}
}

func c10WriterCheck(ru *fw.Rule, p *fw.Program, sp c10WriterSpec) {
	k := sp.key + ":"
	newFn := p.Fn(sp.pkg + ".New")
	wr := p.Fn("(*" + sp.pkg + ".Writer).Write")
	if newFn == nil || wr == nil || newFn.Blocks == nil || wr.Blocks == nil || len(newFn.Params) != 4 {
		ru.Undecided(k+"anchor", "", sp.pkg+".New(w, width, startLineOffset, fn) or (*Writer).Write not found")
		return
	}
	pos := func(i ssa.Instruction) string { return p.Rel(i.Pos()) }
	rcv := wr.Params[0]
	env := c10Env(wr, true)
	stT := rcv.Type()

	// --- New: parameter -> field
	paramField := map[int]int{}
	zeroInit := map[int]bool{}
	stored := map[int]bool{}
	fw.EachInstr(newFn, func(ins ssa.Instruction) {
		st, ok := ins.(*ssa.Store)
		if !ok {
			return
		}
		fa, ok := st.Addr.(*ssa.FieldAddr)
		if !ok {
			return
		}
		stored[fa.Field] = true
		for i, prm := range newFn.Params {
			if st.Val == ssa.Value(prm) {
				paramField[i] = fa.Field
			}
		}
		if c, ok := c10ConstInt(st.Val); ok && c == 0 {
			zeroInit[fa.Field] = true
		}
	})

	// --- Write: the modulus operations
	var rems []*ssa.BinOp
	fw.EachInstr(wr, func(ins ssa.Instruction) {
		if b, ok := ins.(*ssa.BinOp); ok && b.Op == token.REM {
			rems = append(rems, b)
		}
	})
	if len(rems) == 0 {
		ru.Undecided(k+"rem", p.Rel(wr.Pos()), "Write has no modulus operation: the line model of the rule does not apply")
		return
	}
	recvField := func(v ssa.Value) int {
		ld, ok := c10Strip(v).(*ssa.UnOp)
		if !ok || ld.Op != token.MUL {
			return -1
		}
		fa, ok := ld.X.(*ssa.FieldAddr)
		if !ok || fa.X != ssa.Value(rcv) {
			return -1
		}
		return fa.Field
	}
	offF, widF := recvField(rems[0].X), recvField(rems[0].Y)
	remOK := offF >= 0 && widF >= 0
	for _, b := range rems {
		if recvField(b.X) != offF || recvField(b.Y) != widF {
			remOK = false
		}
	}
	if !ru.Check(remOK, k+"rem:operands", pos(rems[0]), fmt.Sprintf("all %d modulus operations are offset %% width", len(rems)), "a modulus in Write is not (the running offset field) % (the width field): column positions are computed from something else than the linear cell index") {
		return
	}
	fname := func(i int) string { return fieldNameOf(stT, i) }
	off, wid := fw.PAtom("recv."+fname(offF)), fw.PAtom("recv."+fname(widF))
	rem := c10Rem(off, wid)

	ru.Check(paramField[1] == widF && stored[widF], k+"new:width", p.Rel(newFn.Pos()), "New's 2nd parameter is the modulus of Write", "New does not store its width parameter into the field Write uses as modulus ("+fname(widF)+")")
	soF, okSo := paramField[2]
	if !okSo {
		ru.Fail(k+"new:offset", p.Rel(newFn.Pos()), "New does not store its startLineOffset parameter into a field")
		return
	}
	so := fw.PAtom("recv." + fname(soF))
	ru.Check(soF != widF && soF != offF, k+"new:offset", p.Rel(newFn.Pos()), "New's 3rd parameter is stored in its own field "+fname(soF), "New stores startLineOffset into the width or running offset field")
	ru.Check(zeroInit[offF] || !stored[offF], k+"new:zero", p.Rel(newFn.Pos()), "running offset starts at 0", "New initialises the running offset with something else than 0")

	// --- increments of the running offset
	var incs []*ssa.Store
	incOK := true
	fw.EachInstr(wr, func(ins ssa.Instruction) {
		st, ok := ins.(*ssa.Store)
		if !ok {
			return
		}
		fa, ok := st.Addr.(*ssa.FieldAddr)
		if !ok || fa.X != ssa.Value(rcv) {
			return
		}
		switch fa.Field {
		case offF:
			incs = append(incs, st)
			if !env.Of(st.Val).Equal(off.Add(fw.PConst(1))) {
				incOK = false
			}
		case widF, soF:
			incOK = false // configuration is never written by Write
		}
	})
	ru.Check(incOK && len(incs) == 2, k+"offset:inc", p.Rel(wr.Pos()), "offset is incremented by 1 at exactly two places (pad cell, data cell); width/startLineOffset are not written", fmt.Sprintf("Write changes the running offset other than by two +1 steps (found %d stores, all +1: %v)", len(incs), incOK))

	// --- the cell: fn(p[i])
	var cell *ssa.Call
	var idx ssa.Value
	fnF, okFn := paramField[3]
	fw.EachInstr(wr, func(ins ssa.Instruction) {
		c, ok := ins.(*ssa.Call)
		if !ok || c.Call.IsInvoke() || c.Call.StaticCallee() != nil || len(c.Call.Args) != 1 {
			return
		}
		if _, isB := c.Call.Value.(*ssa.Builtin); isB {
			return
		}
		if okFn && recvField(c.Call.Value) == fnF {
			if ld, ok := c.Call.Args[0].(*ssa.UnOp); ok && ld.Op == token.MUL {
				if ia, ok := ld.X.(*ssa.IndexAddr); ok && ia.X == ssa.Value(wr.Params[1]) {
					cell, idx = c, ia.Index
				}
			}
		}
	})
	if !ru.Check(cell != nil, k+"cell", p.Rel(wr.Pos()), "each byte p[i] is rendered by the cell function given to New", "Write does not render p[i] with the function stored by New") {
		return
	}
	lenP := fw.PAtom("len(" + wr.Params[1].Name() + ")")
	iP := env.Of(idx)
	c10WriterBuf(ru, p, k, wr, rcv, env, cell, recvField, fname)

	// --- newline sites
	type site struct {
		ins  ssa.Instruction
		what string
	}
	var sites []site
	var padConsts []string
	var spaceStores []*ssa.Store
	fw.EachInstr(wr, func(ins ssa.Instruction) {
		switch x := ins.(type) {
		case *ssa.Store:
			if _, ok := x.Addr.(*ssa.IndexAddr); ok {
				if c, ok := c10ConstInt(x.Val); ok && c == '\n' {
					sites = append(sites, site{x, "store '\\n'"})
				} else if ok && c == ' ' {
					spaceStores = append(spaceStores, x)
				}
			}
		case *ssa.Convert:
			if s, ok := c10ConstStr(x.X); ok {
				if _, isSlice := x.Type().Underlying().(*types.Slice); isSlice {
					padConsts = append(padConsts, s)
					if strings.Contains(s, "\n") {
						sites = append(sites, site{x, fmt.Sprintf("constant %q", s)})
					}
				}
			}
		}
	})
	lastCol := fw.Cmp{P: rem.Sub(wid).Add(fw.PConst(1)), Rel: fw.EQ} // offset%width == width-1
	firstCol := fw.Cmp{P: rem, Rel: fw.EQ}                           // offset%width == 0
	resumed := fw.Cmp{P: off.Sub(so), Rel: fw.GT}                    // offset > startLineOffset
	padding := fw.Cmp{P: off.Sub(so), Rel: fw.LT}                    // offset < startLineOffset
	moreInChunk := fw.Cmp{P: iP.Sub(lenP).Add(fw.PConst(1)), Rel: fw.LT}
	fresh := func(q fw.Cmp, at ssa.Instruction) bool {
		cv := c10FactFrom(env, at.Block(), q)
		if cv == nil {
			return false
		}
		for _, ld := range c10FieldLoadsIn(cv, rcv, offF) {
			if !c10NoStoreBetween(ld, at, rcv, offF) {
				return false
			}
		}
		return true
	}
	nA, nB, nALoop := 0, 0, 0
	for i, s := range sites {
		b := s.ins.Block()
		key := fmt.Sprintf("%snl#%d", k, i)
		switch {
		case fresh(lastCol, s.ins):
			nA++
			inByteLoop := cell.Block().Dominates(b) && c10InLoop(b)
			if inByteLoop {
				nALoop++
				ru.Check(c10ExactInRange(env, b, moreInChunk), key, pos(s.ins), s.what+" after the cell in column width-1, only when more bytes follow in this chunk",
					s.what+" after the last column is not restricted to i < len(p)-1: the deferred newline of the next Write doubles it; known: "+c10FactsString(env, b))
			} else {
				ru.Check(c10Exact(env, b, padding), key, pos(s.ins), s.what+" after the pad cell in column width-1", s.what+" in column width-1 outside the pad loop (offset < startLineOffset) and outside the byte loop; known: "+c10FactsString(env, b))
			}
		case fresh(firstCol, s.ins) && fresh(resumed, s.ins):
			nB++
			ru.Ok(key, pos(s.ins), s.what+" before column 0 when resuming after the first cell (offset > startLineOffset)")
		default:
			ru.Fail(key, pos(s.ins), s.what+" is emitted at a position that is neither after column width-1 nor the deferred newline before column 0 (offset > startLineOffset); known at this point: "+c10FactsString(env, b))
		}
	}
	ru.Check(nA >= 2 && nALoop >= 1 && nB >= 1, k+"nl:coverage", p.Rel(wr.Pos()), fmt.Sprintf("%d newline sites after last column (%d in the byte loop), %d deferred", nA, nALoop, nB),
		fmt.Sprintf("rows are not terminated in all three situations (pad row end, row end inside a chunk, row end at a chunk boundary): after-last-column sites=%d (in byte loop %d), deferred sites=%d", nA, nALoop, nB))

	// --- pad loop and pad cells
	padOK, nPad := true, 0
	for _, s := range padConsts {
		nPad++
		body := strings.TrimSuffix(s, "\n")
		if len(s) != sp.cellW || strings.Trim(body, " ") != "" {
			padOK = false
		}
	}
	ru.Check(padOK && nPad >= 2, k+"pad:cells", p.Rel(wr.Pos()), fmt.Sprintf("pad cells are %d characters (spaces, optionally ending the row)", sp.cellW), fmt.Sprintf("pad cells %q are not blank cells of the data cell width %d: the first row's bytes stand under wrong column labels", padConsts, sp.cellW))
	// the pad increment happens under offset < startLineOffset, the other increment in the byte loop
	nPadInc, nByteInc := 0, 0
	for _, st := range incs {
		switch {
		case c10Exact(env, st.Block(), padding) && c10InLoop(st.Block()):
			nPadInc++
		case cell.Block().Dominates(st.Block()) && c10InLoop(st.Block()):
			nByteInc++
		}
	}
	ru.Check(nPadInc == 1 && nByteInc == 1, k+"offset:where", p.Rel(wr.Pos()), "one increment per pad cell (while offset < startLineOffset) and one per byte", fmt.Sprintf("offset increments: %d in the pad loop (offset < startLineOffset), %d in the byte loop; expected 1 and 1", nPadInc, nByteInc))
	// every byte-loop iteration reaches the increment: the increment's block post-dominates the cell
	if nByteInc == 1 {
		for _, st := range incs {
			if cell.Block().Dominates(st.Block()) && c10InLoop(st.Block()) {
				ru.Check(c10AllPathsHit(cell.Block(), st.Block(), p), k+"offset:every-byte", pos(st), "every byte that does not fail to write advances the offset", "some path through the byte loop skips the offset increment")
			}
		}
	}

	// --- separator bookkeeping (writers with a separator: a space is stored into the buffer)
	if len(spaceStores) > 0 {
		bufOffF := -1
		nAfter, nResume := 0, 0
		for _, st := range spaceStores {
			ia := st.Addr.(*ssa.IndexAddr)
			if f := recvField(ia.Index); f >= 0 {
				bufOffF = f
				nAfter++
				continue
			}
			if c, ok := c10ConstInt(ia.Index); ok && c == 0 {
				okR := c10Exact(env, st.Block(), resumed) && c10Exact(env, st.Block(), fw.Cmp{P: rem, Rel: fw.NE})
				if okR {
					nResume++
				} else {
					nResume = -100
				}
			}
		}
		ru.Check(nAfter == 1 && nResume == 1, k+"sep:sites", p.Rel(wr.Pos()), "a separator follows each cell; on resume it is re-inserted only when offset > startLineOffset and not at column 0",
			"separator handling: one ' ' after each cell and one ' ' at buffer start under (offset > startLineOffset && offset%width != 0) expected")
		if bufOffF >= 0 {
			bo := fw.PAtom("recv." + fname(bufOffF))
			// chunk-final flush leaves the trailing separator out; in-chunk row end keeps the '\n' that replaced it
			var finals, rowEnds int
			fw.EachInstr(wr, func(ins ssa.Instruction) {
				sl, ok := ins.(*ssa.Slice)
				if !ok || sl.High == nil || !cell.Block().Dominates(sl.Block()) {
					return
				}
				hi := env.Of(sl.High)
				switch {
				case c10Holds(env, sl.Block(), fw.Cmp{P: iP.Sub(lenP).Add(fw.PConst(1)), Rel: fw.EQ}) && hi.Equal(bo.Sub(fw.PConst(1))):
					finals++
				case c10Holds(env, sl.Block(), lastCol) && hi.Equal(bo):
					rowEnds++
				}
			})
			ru.Check(finals == 1 && rowEnds == 1, k+"sep:flush", p.Rel(wr.Pos()), "row end flushes buf[:bufOffset] (newline in place of the separator), chunk end flushes buf[:bufOffset-1] (separator deferred)",
				fmt.Sprintf("flush bounds: chunk-final buf[:bufOffset-1] seen %d, row-end buf[:bufOffset] seen %d (expected 1 and 1): a separator is doubled or lost at chunk boundaries", finals, rowEnds))
			// the in-loop newline overwrites the separator just written: index bufOffset-1
			for _, s := range sites {
				st, ok := s.ins.(*ssa.Store)
				if !ok || !cell.Block().Dominates(st.Block()) {
					continue
				}
				ix := env.Of(st.Addr.(*ssa.IndexAddr).Index)
				ru.Check(ix.Equal(bo.Sub(fw.PConst(1))), k+"sep:newline-index", pos(st), "row-end newline replaces the separator at bufOffset-1", "row-end newline is stored at "+ix.String()+", the trailing separator is at "+bo.Sub(fw.PConst(1)).String())
			}
		}
	} else {
		// no separator: chunk-final and row-end flush both write buf[:bufOffset]
		n := 0
		// the slices handed to the underlying writer inside the byte loop
		flushed := map[ssa.Value]bool{}
		fw.EachInstr(wr, func(ins ssa.Instruction) {
			if c, ok := ins.(*ssa.Call); ok && c.Call.IsInvoke() && c.Call.Method.Name() == "Write" && cell.Block().Dominates(c.Block()) {
				for _, lf := range c10PhiLeaves(c.Call.Args[0]) {
					flushed[lf.V] = true
				}
			}
		})
		fw.EachInstr(wr, func(ins ssa.Instruction) {
			sl, ok := ins.(*ssa.Slice)
			if !ok || sl.High == nil || !cell.Block().Dominates(sl.Block()) || !flushed[sl] {
				return
			}
			if f := recvField(sl.High); f >= 0 && f != offF && f != widF && f != soF {
				n++
			}
		})
		ru.Check(n == 2, k+"flush", p.Rel(wr.Pos()), "row end and chunk end flush buf[:bufOffset]", fmt.Sprintf("expected two flushes of buf[:bufOffset] in the byte loop, found %d", n))
	}
}

// c10AllPathsHit: every path from block a that returns to a (next loop iteration) or leaves
// normally passes through block b, ignoring paths that end in a return (error exits).
func c10AllPathsHit(a, b *ssa.BasicBlock, p *fw.Program) bool {
	seen := map[*ssa.BasicBlock]bool{}
	ok := true
	var rec func(x *ssa.BasicBlock)
	rec = func(x *ssa.BasicBlock) {
		if !ok || x == b || seen[x] {
			return
		}
		seen[x] = true
		if _, isRet := x.Instrs[len(x.Instrs)-1].(*ssa.Return); isRet {
			return // error exit of Write
		}
		for _, s := range x.Succs {
			if s == a || !a.Dominates(s) {
				// back at the loop head / left the loop body without passing b
				if s != b {
					ok = false
					return
				}
			}
			rec(s)
		}
	}
	rec(a)
	return ok
}
