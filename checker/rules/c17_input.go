package rules

import (
	"fmt"
	"strconv"
	"strings"

	"github.com/wader/gojq"

	"fqverif/fw"
)

// ---------------------------------------------------------------------------
// evaluation-order helper

// c17ChildQueries returns the immediate sub-queries of a (non-pipeline) query.
func c17ChildQueries(q *gojq.Query) []*gojq.Query {
	var out []*gojq.Query
	add := func(x *gojq.Query) {
		if x != nil {
			out = append(out, x)
		}
	}
	if q == nil {
		return nil
	}
	for _, fd := range q.FuncDefs {
		add(fd.Body)
	}
	add(q.Left)
	add(q.Right)
	var term func(t *gojq.Term)
	idx := func(ix *gojq.Index) {
		if ix == nil {
			return
		}
		add(ix.Start)
		add(ix.End)
		if ix.Str != nil {
			out = append(out, ix.Str.Queries...)
		}
	}
	term = func(t *gojq.Term) {
		if t == nil {
			return
		}
		idx(t.Index)
		if t.Func != nil {
			out = append(out, t.Func.Args...)
		}
		if t.Object != nil {
			for _, kv := range t.Object.KeyVals {
				add(kv.KeyQuery)
				add(kv.Val)
				if kv.KeyString != nil {
					out = append(out, kv.KeyString.Queries...)
				}
			}
		}
		if t.Array != nil {
			add(t.Array.Query)
		}
		if t.Unary != nil {
			term(t.Unary.Term)
		}
		if t.Str != nil {
			out = append(out, t.Str.Queries...)
		}
		if t.If != nil {
			add(t.If.Cond)
			add(t.If.Then)
			for _, e := range t.If.Elif {
				add(e.Cond)
				add(e.Then)
			}
			add(t.If.Else)
		}
		if t.Try != nil {
			add(t.Try.Body)
			add(t.Try.Catch)
		}
		if t.Reduce != nil {
			add(t.Reduce.Query)
			add(t.Reduce.Start)
			add(t.Reduce.Update)
		}
		if t.Foreach != nil {
			add(t.Foreach.Query)
			add(t.Foreach.Start)
			add(t.Foreach.Update)
			add(t.Foreach.Extract)
		}
		if t.Label != nil {
			add(t.Label.Body)
		}
		add(t.Query)
		for _, s := range t.SuffixList {
			idx(s.Index)
			if s.Bind != nil {
				add(s.Bind.Body)
			}
		}
	}
	term(q.Term)
	return out
}

// c17Before reports whether, on the way to evaluating the node target inside q, a pipeline step
// satisfying isA is always evaluated first (it is an earlier step of a pipeline enclosing target).
func c17Before(q *gojq.Query, isA func(c17Step) bool, target any) bool {
	steps := c17Steps(q)
	for i, s := range steps {
		if !c17ContainsNode(s.Q, target) {
			continue
		}
		for k := 0; k < i; k++ {
			if c17StepHas(steps[k], isA) {
				return true
			}
		}
		for _, c := range c17ChildQueries(s.Q) {
			if c17ContainsNode(c, target) {
				return c17Before(c, isA, target)
			}
		}
		return false
	}
	return false
}

// c17StepHas: the step is A, or it is a parenthesised pipeline (possibly the source of a binding)
// one of whose own steps is A — those are evaluated unconditionally as part of the step.
func c17StepHas(s c17Step, isA func(c17Step) bool) bool {
	if isA(s) {
		return true
	}
	sub := c17Steps(s.Q)
	if len(sub) == 1 && sub[0].Bind == nil {
		return false
	}
	for _, x := range sub {
		if c17StepHas(x, isA) {
			return true
		}
	}
	return false
}

// ---------------------------------------------------------------------------
// truthiness prover (small, conservative): "this expression always yields a value that `if` treats as true"

type c17Env struct {
	dot   bool
	paths map[string]bool
	vars  map[string]bool
}

func (e c17Env) clone() c17Env {
	n := c17Env{dot: e.dot, paths: map[string]bool{}, vars: map[string]bool{}}
	for k, v := range e.paths {
		n.paths[k] = v
	}
	for k, v := range e.vars {
		n.vars[k] = v
	}
	return n
}

var c17TruthyBuiltins = map[string]bool{
	"tostring/0": true, "tojson/0": true, "join/1": true, "length/0": true, "type/0": true, "keys/0": true,
	"to_entries/0": true, "ascii_downcase/0": true, "tobytes/0": true, "map/1": true, "add/1": false,
}

// seq evaluates a step list; stop (optional) ends the walk at the step containing that node and
// returns the environment in effect there.
func (m *c17Model) truthySeq(ctx *fw.JQDef, steps []c17Step, env c17Env, depth int) (bool, c17Env) {
	for _, s := range steps {
		v := m.truthyExpr(ctx, s.Q, env, depth)
		if s.Bind != nil {
			if len(s.Bind) == 1 && s.Bind[0].Name != "" {
				env.vars[s.Bind[0].Name] = v
			}
			continue
		}
		if !c17IsIdentity(s.Q) {
			env.dot = v
			env.paths = map[string]bool{}
		}
	}
	return env.dot, env
}

func (m *c17Model) truthyExpr(ctx *fw.JQDef, q *gojq.Query, env c17Env, depth int) bool {
	q = c17Unparen(q)
	if q == nil || depth > 6 {
		return false
	}
	if st := c17Steps(q); len(st) > 1 {
		v, _ := m.truthySeq(ctx, st, env.clone(), depth)
		return v
	}
	if q.Left != nil {
		switch q.Op {
		case gojq.OpUpdateAdd, gojq.OpAdd:
			// x + {..} / . += {..}: an object, array or string operand makes the sum truthy
			r := c17Unparen(q.Right)
			if r != nil && r.Left == nil && r.Term != nil && len(r.Term.SuffixList) == 0 {
				switch r.Term.Type {
				case gojq.TermTypeObject, gojq.TermTypeArray, gojq.TermTypeString:
					return true
				}
			}
		case gojq.OpAlt:
			return m.truthyExpr(ctx, q.Right, env, depth)
		}
		return false
	}
	t := q.Term
	if t == nil {
		return false
	}
	if len(t.SuffixList) > 0 || t.Type == gojq.TermTypeIndex {
		return env.paths[q.String()]
	}
	switch t.Type {
	case gojq.TermTypeIdentity:
		return env.dot
	case gojq.TermTypeString, gojq.TermTypeNumber, gojq.TermTypeObject, gojq.TermTypeArray, gojq.TermTypeTrue, gojq.TermTypeFormat:
		return true
	case gojq.TermTypeFunc:
		f := t.Func
		if strings.HasPrefix(f.Name, "$") {
			return env.vars[f.Name]
		}
		if c17TruthyBuiltins[fw.JQFuncKey(f)] {
			return true
		}
		ds := m.resolve(ctx, f)
		if len(ds) != 1 || len(f.Args) != 0 {
			return false
		}
		v, _ := m.truthySeq(ds[0], c17Steps(ds[0].Def.Body), c17Env{dot: env.dot, paths: map[string]bool{}, vars: map[string]bool{}}, depth+1)
		return v
	case gojq.TermTypeIf:
		for _, a := range c17Arms(t.If) {
			e := env.clone()
			if a.Cond != nil {
				c := c17Unparen(a.Cond)
				if f := fw.JQIsCall(c, "", 0); f != nil && (f.Name == "_is_object" || f.Name == "_is_string" || f.Name == "_is_array") {
					e.dot = true
				} else if c.Left == nil && c.Term != nil && (c.Term.Type == gojq.TermTypeIndex || (c.Term.Type == gojq.TermTypeIdentity && len(c.Term.SuffixList) > 0)) {
					e.paths[c.String()] = true
				}
			}
			var v bool
			if a.Then == nil {
				v = e.dot
			} else {
				v = m.truthyExpr(ctx, a.Then, e, depth)
			}
			if !v {
				return false
			}
			// a failed condition teaches nothing we track; conditions only refine their own arm
		}
		return true
	}
	return false
}

// ---------------------------------------------------------------------------
// C17.writes

type c17Write struct {
	store string
	def   *fw.JQDef // innermost enclosing definition
	call  *gojq.Func
	kind  string // reset | accumulate | value
}

func c17DefPath(d *fw.JQDef) string {
	var parts []string
	for x := d; x != nil; x = x.Parent {
		parts = append([]string{x.Key()}, parts...)
	}
	return strings.Join(parts, ".")
}

func (m *c17Model) errorWrites() []c17Write {
	var out []c17Write
	for _, d := range m.jq.Defs {
		for _, s := range c17ErrorStores {
			for _, c := range c17Calls(d.Def.Body, s, 1, true) {
				a := c17Unparen(c.Args[0])
				kind := "value"
				switch {
				case c17IsNull(a) || (a.Left == nil && a.Term != nil && a.Term.Type == gojq.TermTypeFalse) || fw.JQIsCall(a, "empty", 0) != nil:
					kind = "reset"
				case a.Left != nil && (a.Op == gojq.OpUpdateAdd || a.Op == gojq.OpAdd) && c17IsIdentity(a.Left):
					kind = "accumulate"
				}
				out = append(out, c17Write{store: s, def: d, call: c, kind: kind})
			}
		}
	}
	return out
}

func c17Writes(m *c17Model) {
	ru := m.r.Rule("C17.writes", "every write of an error memory (_input_io_errors, _input_decode_errors, _cli_last_expr_error): a clearing write happens only in _main ahead of the evaluation (never in code reached per input, per output or in the finaliser); a recording write stores a value that is always truthy", 3)
	// code evaluated once per input / per output / per error: everything reachable from these roots
	perItem := map[*fw.JQDef]string{}
	for _, root := range []struct {
		name  string
		arity int
		what  string
	}{
		{"input", 0, "once per input"}, {"inputs", 0, "once per input"},
		{"_cli_eval_on_expr_error", 0, "once per failing evaluation"}, {"_cli_display", 0, "once per output"},
		{"_cli_eval", 2, "inside the evaluation"},
	} {
		d := m.def(ru, root.name, root.arity)
		if d == nil {
			continue
		}
		if _, ok := perItem[d]; !ok {
			perItem[d] = root.what + " (" + d.Key() + ")"
		}
		for x := range m.reachDefs(d, d.Def.Body) {
			if _, ok := perItem[x]; !ok {
				perItem[x] = root.what + " (reached from " + d.Key() + ")"
			}
		}
	}
	mainDef, fin := m.mainFinally(ru)
	var evals []*gojq.Func
	if mainDef != nil {
		evals = c17Calls(mainDef.Def.Body, "_cli_eval", 2, true)
		if len(evals) == 0 {
			ru.Undecided("anchor:_main._cli_eval", c17Pos(mainDef), "_main does not call _cli_eval/2")
		}
	}
	n := map[string]int{}
	for _, w := range m.errorWrites() {
		base := fmt.Sprintf("%s:%s:%s", w.store, c17DefPath(w.def), w.kind)
		n[base]++
		key := base
		if n[base] > 1 {
			key = fmt.Sprintf("%s#%d", base, n[base])
		}
		pos := c17Pos(w.def)
		switch w.kind {
		case "reset":
			if why, ok := perItem[w.def]; ok {
				ru.Fail(key, pos, "per-run error memory "+w.store+" is cleared in code that runs "+why+": an error recorded for an earlier input is forgotten and the exit status no longer reflects it")
				continue
			}
			if w.def != mainDef || mainDef == nil {
				ru.Undecided(key, pos, "clearing write of "+w.store+" outside _main: cannot place it in the run order")
				continue
			}
			if fin != nil && c17ContainsNode(fin.Args[1], w.call) {
				ru.Fail(key, pos, w.store+" is cleared inside the finaliser, ahead of or between the exit status tests")
				continue
			}
			ok := false
			for _, ev := range evals {
				if c17Before(mainDef.Def.Body, func(s c17Step) bool { return fw.JQIsCall(s.Q, w.store, 1) == w.call }, ev) {
					ok = true
				}
			}
			ru.Check(ok, key, pos, "cleared once, as a pipeline step ahead of _cli_eval", w.store+" is cleared in _main but not as an unconditional step ahead of the evaluation (_cli_eval): errors recorded during the run can be wiped")
		default:
			// value written must be truthy whenever the handler runs
			steps := c17Steps(w.def.Def.Body)
			env := c17Env{paths: map[string]bool{}, vars: map[string]bool{}}
			// environment at the site: walk the steps of the innermost pipeline containing the call
			site := m.envAt(w.def, steps, env, w.call)
			argEnv := site.clone()
			argEnv.dot = false // the update runs on the stored value, not on the pipeline input
			argEnv.paths = map[string]bool{}
			// second opinion by kinds: a value that is never null or boolean is truthy
			kenv := m.kindEnvAt(w.def, steps, c17KEnv{dot: c17KAny, vars: map[string]c17Kind{}}, w.call)
			kenv.dot = c17KAny // the update runs on the stored value
			argKind := m.kindExpr(w.def, w.call.Args[0], kenv, 0)
			if m.truthyExpr(w.def, w.call.Args[0], argEnv, 0) {
				ru.Ok(key, pos, "records a value that is always truthy: "+c17S(w.call.Args[0]))
			} else if argKind != 0 && argKind&(c17KNull|c17KBool) == 0 {
				ru.Ok(key, pos, "records a value that is never null or boolean ("+argKind.String()+"): "+c17S(w.call.Args[0]))
			} else {
				ru.Undecided(key, pos, "cannot show that the recorded value is always truthy (a null/false record is invisible to the exit status tests): "+c17S(w.call.Args[0]))
			}
		}
	}
}

// envAt walks pipelines towards target, accumulating variable truthiness from earlier steps.
func (m *c17Model) envAt(ctx *fw.JQDef, steps []c17Step, env c17Env, target any) c17Env {
	for _, s := range steps {
		if c17ContainsNode(s.Q, target) {
			for _, c := range c17ChildQueries(s.Q) {
				if c17ContainsNode(c, target) {
					e := env.clone()
					// a catch handler and function arguments start from an unknown input
					e.dot = false
					e.paths = map[string]bool{}
					return m.envAt(ctx, c17Steps(c), e, target)
				}
			}
			return env
		}
		v := m.truthyExpr(ctx, s.Q, env, 0)
		if s.Bind != nil {
			if len(s.Bind) == 1 && s.Bind[0].Name != "" {
				env.vars[s.Bind[0].Name] = v
			}
			continue
		}
		if !c17IsIdentity(s.Q) {
			env.dot = v
			env.paths = map[string]bool{}
		}
	}
	return env
}

// c17SingleKeyObj returns key and value of an object literal {key: value} with one constant key.
func c17SingleKeyObj(q *gojq.Query) (string, *gojq.Query) {
	q = c17Unparen(q)
	if q == nil || q.Left != nil || q.Term == nil || q.Term.Type != gojq.TermTypeObject || q.Term.Object == nil || len(q.Term.SuffixList) > 0 || len(q.Term.Object.KeyVals) != 1 {
		return "", nil
	}
	kv := q.Term.Object.KeyVals[0]
	k := kv.Key
	if k == "" && kv.KeyString != nil && len(kv.KeyString.Queries) == 0 {
		k = kv.KeyString.Str
	}
	if k == "" || strings.HasPrefix(k, "$") || kv.Val == nil {
		return "", nil
	}
	return k, kv.Val
}

// ---------------------------------------------------------------------------
// C17.inputs

func c17Inputs(m *c17Model) {
	ru := m.r.Rule("C17.inputs", "input/_input: break on empty list, pop head before opening, open and decode each in their own try whose handler records into the class specific memory keyed by the file name, prints, and continues with the next input; the continuation's results bypass f (tagged and selected, or nothing follows) and f is applied to the opened value only; inputs = _repeat_break(input); _input_filename cleared before and set after open", 32)
	in := m.def(ru, "input", 0)
	if in == nil {
		return
	}
	d := m.nested(ru, in, "_input", 2)
	if d == nil {
		return
	}
	pos := c17Pos(in) + "._input"
	pOpts, pF := d.Def.Args[0], d.Def.Args[1]
	steps := c17Steps(d.Def.Body)

	// locate the anchors among the steps
	iRead, iSplit, iPop, iOpen, iDec := -1, -1, -1, -1, -1
	var head, tail string
	var tries []int
	for i, s := range steps {
		if iRead < 0 && s.Bind == nil && fw.JQIsCall(s.Q, "_input_filenames", 0) != nil {
			iRead = i
		}
		if iSplit < 0 && len(s.Bind) == 1 && len(s.Bind[0].Array) == 2 && s.Bind[0].Array[0].Name != "" && s.Bind[0].Array[1].Name != "" {
			iSplit = i
			head, tail = s.Bind[0].Array[0].Name, s.Bind[0].Array[1].Name
		}
		if f := fw.JQIsCall(s.Q, "_input_filenames", 1); f != nil && iPop < 0 {
			iPop = i
		}
		if t := c17IsTry(s.Q); t != nil {
			tries = append(tries, i)
		}
	}
	for _, i := range tries {
		t := c17IsTry(steps[i].Q)
		if c17HasCall(t.Body, "open", 0) && iOpen < 0 {
			iOpen = i
		}
	}
	// the decode try may sit in a later stage (an arm that receives only the opened value)
	var openT, decT *gojq.Try
	if iOpen >= 0 {
		openT = c17IsTry(steps[iOpen].Q)
	}
	allTries := c17Tries(d.Def.Body)
	for _, t := range allTries {
		if t == openT || (openT != nil && c17ContainsNode(&gojq.Query{Term: &gojq.Term{Type: gojq.TermTypeTry, Try: openT}}, t)) {
			continue
		}
		if c17HasCall(t.Body, pF, 0) && decT == nil {
			decT = t
		}
	}
	if decT != nil {
		for i, st := range steps {
			if c17ContainsNode(st.Q, decT) {
				iDec = i
			}
		}
	}
	if iRead != 0 || iSplit < 0 || iOpen < 0 || iDec < 0 {
		ru.Undecided("anchor:_input:steps", pos, fmt.Sprintf("cannot locate the steps of _input (list read %d, head/tail split %d, open try %d, decode try %d)", iRead, iSplit, iOpen, iDec))
		return
	}

	// I1 empty list -> break; only tests between the read and the split
	brk := ""
	okBetween := true
	for i := iRead + 1; i < iSplit; i++ {
		f := c17IsIf(steps[i].Q)
		if f == nil || steps[i].Bind != nil || f.Else != nil || len(f.Elif) > 0 {
			okBetween = false
			continue
		}
		if c17S(f.Cond) == "length == 0" {
			if e := fw.JQIsCall(f.Then, "error", 1); e != nil {
				brk, _ = fw.JQConstString(e.Args[0])
			}
		}
	}
	ru.Check(okBetween, "_input:list-intact", pos, "the remaining-input list reaches the head/tail split unchanged", "a step between reading _input_filenames and the head/tail split replaces the list")
	ru.Check(brk != "", "_input:empty-break", pos, "empty list raises \""+brk+"\"", "no `if length == 0 then error(<token>) end` ahead of the head/tail split: input does not terminate on an exhausted list")

	// I2 head/tail
	src := c17Unparen(steps[iSplit].Q)
	var elems []string
	if src != nil && src.Left == nil && src.Term != nil && src.Term.Type == gojq.TermTypeArray && src.Term.Array != nil && len(src.Term.SuffixList) == 0 {
		for _, e := range c17Commas(src.Term.Array.Query) {
			elems = append(elems, c17S(e))
		}
	}
	ru.Check(len(elems) == 2 && elems[0] == ".[0]" && elems[1] == ".[1:]", "_input:head-tail", pos, "[.[0], .[1:]] as ["+head+", "+tail+"]",
		"head/tail split of the remaining inputs is not [.[0], .[1:]]: "+c17S(steps[iSplit].Q))

	// I3 pop before open
	popOK := false
	if iPop > iSplit && iPop < iOpen {
		f := fw.JQIsCall(steps[iPop].Q, "_input_filenames", 1)
		popOK = fw.JQIsCall(f.Args[0], tail, 0) != nil
	}
	ru.Check(popOK, "_input:pop", pos, "_input_filenames("+tail+") before the open step", "the remaining list is not replaced by the tail "+tail+" before the input is opened (a failing open would retry the same input forever or skip one)")

	// I4 what is opened, and the name used in messages/records
	name := ""
	for i := iSplit + 1; i < iOpen; i++ {
		if len(steps[i].Bind) == 1 && steps[i].Bind[0].Name != "" {
			q := c17Unparen(steps[i].Q)
			if q.Op == gojq.OpAlt && fw.JQIsCall(q.Left, head, 0) != nil {
				if _, ok := fw.JQConstString(q.Right); ok {
					name = steps[i].Bind[0].Name
				}
			}
		}
	}
	ru.Check(name != "", "_input:name", pos, name+" = "+head+" // \"<stdin>\"", "no binding NAME = "+head+" // <literal> ahead of the open step (null head means stdin)")
	ru.Check(steps[iOpen-1].Bind == nil && fw.JQIsCall(steps[iOpen-1].Q, head, 0) != nil, "_input:open-operand", pos, "open is applied to "+head,
		"the value piped into the open step is not the head "+head+": "+c17S(steps[iOpen-1].Q))

	// I5 separate tries in the right order
	ru.Check(iOpen < iDec, "_input:order", pos, "open try precedes decode try", "the decode step comes before the open step")
	ru.Check(!c17HasCall(openT.Body, pF, 0) && !c17HasCall(decT.Body, "open", 0), "_input:separate-tries", pos, "open and "+pF+" are protected by separate tries",
		"open and "+pF+" share a try: an open failure and a decode failure can no longer be told apart (2 vs 4)")
	ob := c17Steps(openT.Body)
	openKey := ""
	openBodyOK := false
	if len(ob) > 0 && fw.JQIsCall(ob[0].Q, "open", 0) != nil {
		lastQ := ob[len(ob)-1].Q
		if c17IsIdentity(lastQ) {
			openBodyOK = true
		} else if k, v := c17SingleKeyObj(lastQ); k != "" && c17IsIdentity(v) {
			openBodyOK, openKey = true, k
		}
	}
	ru.Check(openBodyOK, "_input:open-body", pos, "open | ... | the opened value (possibly tagged)",
		"open try body does not start with open and end with the opened value: "+c17S(openT.Body))
	setName := false
	for _, c := range c17Calls(openT.Body, "_input_filename", 1, false) {
		if fw.JQIsCall(c.Args[0], name, 0) != nil {
			setName = true
		}
	}
	ru.Check(setName, "_input:filename", pos, "_input_filename("+name+") after a successful open", "input_filename is not set to the name of the opened input")
	ru.Check(fw.JQIsCall(decT.Body, pF, 0) != nil, "_input:decode-body", pos, "try "+pF, "decode try body is not exactly "+pF+": "+c17S(decT.Body))
	ru.Check(len(allTries) == 2, "_input:try-count", pos, "two protected steps", fmt.Sprintf("%d try terms in _input, expected open and decode", len(allTries)))

	// I6/I7 handlers
	handler := func(tag string, t *gojq.Try, own, other string) (contKey string, hasCont bool) {
		if t.Catch == nil {
			ru.Fail("_input:"+tag+":catch", pos, "try without catch: the failure is swallowed, nothing is recorded and input yields nothing")
			return
		}
		hs := c17Steps(t.Catch)
		// record
		var rec *gojq.Func
		for _, s := range hs {
			if f := fw.JQIsCall(s.Q, own, 1); f != nil {
				rec = f
			}
		}
		reach := m.reachDefs(d, t.Catch, d) // the continuation (recursion) is not part of the handler
		writesOther := c17HasCall(t.Catch, other, 1)
		for x := range reach {
			if c17HasCall(x.Def.Body, other, 1) {
				writesOther = true
			}
		}
		viaHelper := false
		if rec == nil {
			for x := range reach {
				if c17HasCall(x.Def.Body, own, 1) {
					viaHelper = true
				}
			}
		}
		if viaHelper {
			ru.Ok("_input:"+tag+":record", pos, "records into "+own+" through a helper definition")
		} else if rec == nil {
			ru.Fail("_input:"+tag+":record", pos, "handler does not record into "+own)
		} else {
			keyOK := false
			a := c17Unparen(rec.Args[0])
			if a.Left != nil && a.Right != nil {
				r := c17Unparen(a.Right)
				if r.Term != nil && r.Term.Object != nil && len(r.Term.Object.KeyVals) == 1 {
					kv := r.Term.Object.KeyVals[0]
					keyOK = kv.KeyQuery != nil && fw.JQIsCall(kv.KeyQuery, name, 0) != nil
				}
			}
			ru.Check(keyOK && c17IsIdentity(a.Left) && a.Op == gojq.OpUpdateAdd, "_input:"+tag+":record", pos, own+"(. += {("+name+"): ...})",
				"handler does not add an entry keyed by the input name "+name+" to "+own+": "+c17S(rec.Args[0]))
		}
		ru.Check(!writesOther, "_input:"+tag+":class", pos, "does not touch "+other, tag+" failure handler writes "+other+": the failure is counted in the wrong class")
		// last step: print , continue
		last := c17Commas(hs[len(hs)-1].Q)
		cont := fw.JQIsCall(last[len(last)-1], d.Def.Name, 2)
		if cont == nil {
			// the continuation may be tagged: {key: _input(...)}
			if k, v := c17SingleKeyObj(last[len(last)-1]); k != "" {
				if c := fw.JQIsCall(v, d.Def.Name, 2); c != nil {
					cont, contKey = c, k
				}
			}
		}
		hasCont = cont != nil
		contOK := cont != nil && fw.JQIsCall(cont.Args[0], pOpts, 0) != nil && fw.JQIsCall(cont.Args[1], pF, 0) != nil
		ru.Check(contOK, "_input:"+tag+":continue", pos, "handler ends with "+d.Def.Name+"("+pOpts+"; "+pF+")",
			"handler does not end by continuing with the next input ("+d.Def.Name+"("+pOpts+"; "+pF+")): "+c17S(hs[len(hs)-1].Q))
		printed, ctxName := false, false
		for _, alt := range last[:len(last)-1] {
			if c17HasCall(alt, "printerrln", 0) {
				printed = true
			}
			for _, es := range c17Calls(alt, "_error_str", 1, false) {
				if c17HasCall(es.Args[0], name, 0) {
					ctxName = true
				}
			}
		}
		ru.Check(printed && ctxName, "_input:"+tag+":print", pos, "prints error: "+name+": ... to stderr before continuing",
			"handler does not print the error with the input name to stderr before continuing")
		ru.Check(!c17HasCall(t.Catch, "error", 0) && !c17HasCall(t.Catch, "error", 1) && !c17HasCall(t.Catch, "halt_error", 1) && !c17HasCall(t.Catch, "_fatal_error", 1),
			"_input:"+tag+":no-abort", pos, "handler neither re-raises nor halts", "handler re-raises or halts: one failing input prevents the processing of the others")
		return
	}
	openContKey, openHasCont := handler("open", openT, "_input_io_errors", "_input_decode_errors")
	decContKey, decHasCont := handler("decode", decT, "_input_decode_errors", "_input_io_errors")

	// I9 results of a continuation are complete (opened and passed through f): they must leave
	// _input without passing through f again, and f must be applied to the opened value only
	short := func(q *gojq.Query) string {
		txt := c17S(q)
		if len(txt) > 40 {
			txt = txt[:40] + "..."
		}
		return txt
	}
	var after []c17Step // value-transforming steps behind the open try
	for j := iOpen + 1; j < len(steps); j++ {
		if steps[j].Bind == nil && !c17IsIdentity(steps[j].Q) {
			after = append(after, steps[j])
		}
	}
	refeed := func(why string) {
		var again []string
		for _, a := range after {
			again = append(again, short(a.Q))
		}
		ru.Fail("_input:open:no-refeed", pos, "the open failure handler emits the results of "+d.Def.Name+"(...) — already opened and passed through "+pF+" — into the rest of the pipeline, so "+
			"the next good input goes through `"+strings.Join(again, " | ")+"` a second time (decoded twice; the second decode is of a decode value, not of the file)"+why)
	}
	switch {
	case !openHasCont:
		// reported by _input:open:continue
	case openContKey == "" && openKey == "":
		// untagged: nothing may follow the open try... but the decode step has to, so this shape re-feeds
		if len(after) == 0 {
			ru.Ok("_input:open:no-refeed", pos, "continuation results leave _input directly")
		} else {
			refeed("")
		}
	case openContKey == "" || openKey == "" || openContKey == openKey:
		ru.Fail("_input:open:no-refeed", pos, fmt.Sprintf("the opened value is tagged %q and the continuation %q: the next stage cannot tell them apart", openKey, openContKey))
	default:
		// tagged: exactly one following stage, an if on the tag, whose continuation arm is `.tag` alone
		// and whose opened arm is `.tag | try f catch ...`
		var sel *gojq.If
		if len(after) == 1 {
			sel = c17IsIf(after[0].Q)
		}
		if sel == nil || len(sel.Elif) > 0 || sel.Else == nil {
			ru.Undecided("_input:open:no-refeed", pos, "tagged open results are not consumed by a single if/else stage")
			break
		}
		var contArm, openArm *gojq.Query
		switch c17S(sel.Cond) {
		case "has(\"" + openContKey + "\")":
			contArm, openArm = sel.Then, sel.Else
		case "has(\"" + openKey + "\")":
			contArm, openArm = sel.Else, sel.Then
		case "has(\"" + openContKey + "\") | not":
			contArm, openArm = sel.Else, sel.Then
		}
		if contArm == nil {
			ru.Undecided("_input:open:no-refeed", pos, "stage after the open try does not select on the tag: "+short(sel.Cond))
			break
		}
		cs := c17Steps(contArm)
		if len(cs) == 1 && cs[0].Bind == nil && c17S(cs[0].Q) == "."+openContKey {
			ru.Ok("_input:open:no-refeed", pos, "continuation results are passed on as they are (."+openContKey+")")
		} else {
			after = []c17Step{{Q: contArm}}
			refeed(" [arm of the tag " + openContKey + "]")
		}
		os := c17Steps(openArm)
		okArm := len(os) >= 2 && os[0].Bind == nil && c17S(os[0].Q) == "."+openKey && c17IsTry(os[len(os)-1].Q) == decT
		for _, x := range os[1:max(1, len(os)-1)] {
			if x.Bind == nil && !c17IsIdentity(x.Q) {
				okArm = false
			}
		}
		ru.Check(okArm, "_input:decode-operand", pos, pF+" is applied to the opened value (."+openKey+") only", "the arm for an opened input is not `."+openKey+" | try "+pF+" catch ...`: "+short(openArm))
	}
	// decode continuation: the decode try must be the final stage
	if decHasCont {
		lastTop := -1
		for j := range steps {
			if steps[j].Bind == nil && !c17IsIdentity(steps[j].Q) {
				lastTop = j
			}
		}
		final := lastTop == iDec && decContKey == ""
		if final {
			// inside its stage the try must be in tail position of every pipeline on the way down
			q := steps[iDec].Q
			for final {
				st := c17Steps(q)
				lastSt := st[len(st)-1]
				if c17IsTry(lastSt.Q) == decT {
					break
				}
				if !c17ContainsNode(lastSt.Q, decT) {
					final = false
					break
				}
				i := c17IsIf(lastSt.Q)
				if i == nil {
					final = false
					break
				}
				var next *gojq.Query
				for _, a := range c17Arms(i) {
					if a.Then != nil && c17ContainsNode(a.Then, decT) {
						next = a.Then
					}
				}
				if next == nil {
					final = false
					break
				}
				q = next
			}
		}
		ru.Check(final, "_input:decode:no-refeed", pos, "continuation results leave _input directly", "the decode failure handler's continuation results pass through further steps of _input")
	}

	// I10 dispatch in input
	is := c17Steps(in.Def.Body)
	dispatchOK := false
	optsVar := ""
	for _, s := range is {
		if len(s.Bind) == 1 && fw.JQIsCall(s.Q, "options", 0) != nil {
			optsVar = s.Bind[0].Name
		}
	}
	var f *gojq.If
	if len(is) > 0 {
		f = c17IsIf(is[len(is)-1].Q)
	}
	if f != nil && optsVar != "" && len(f.Elif) == 0 && f.Else != nil && c17S(f.Cond) == optsVar+".string_input" {
		th := fw.JQIsCall(f.Then, "_input_string", 1)
		el := fw.JQIsCall(f.Else, "_input", 2)
		dispatchOK = th != nil && el != nil && fw.JQIsCall(th.Args[0], optsVar, 0) != nil && fw.JQIsCall(el.Args[0], optsVar, 0) != nil && fw.JQIsCall(el.Args[1], "decode", 0) != nil
	}
	ru.Check(dispatchOK, "input:dispatch", c17Pos(in), "if $opts.string_input then _input_string($opts) else _input($opts; decode) end",
		"input does not dispatch on options.string_input between raw strings and _input(opts; decode)")
	if sd := m.nested(ru, in, "_input_string", 1); sd != nil {
		calls := c17Calls(sd.Def.Body, "_input", 2, false)
		ok := len(calls) == 1 && c17S(calls[0].Args[1]) == "tobytes | tostring"
		ru.Check(ok, "input:string-mode", c17Pos(in), "_input($opts; tobytes | tostring)", "raw string mode does not read inputs through _input(opts; tobytes | tostring)")
		var toks []string
		for _, e := range c17Calls(sd.Def.Body, "error", 1, false) {
			s, _ := fw.JQConstString(e.Args[0])
			toks = append(toks, s)
		}
		okTok := len(toks) > 0
		for _, tk := range toks {
			if tk != brk {
				okTok = false
			}
		}
		ru.Check(okTok, "input:string-break", c17Pos(in), "raw string mode ends with the same break token", "raw string mode raises a different termination token than _input: "+strings.Join(toks, ","))
	}

	// I11 inputs and _repeat_break
	if id := m.def(ru, "inputs", 0); id != nil {
		c := fw.JQIsCall(id.Def.Body, "_repeat_break", 1)
		ru.Check(c != nil && fw.JQIsCall(c.Args[0], "input", 0) != nil, "inputs", c17Pos(id), "_repeat_break(input)", "inputs is not _repeat_break(input): "+c17S(id.Def.Body))
	}
	if rb := m.def(ru, "_repeat_break", 1); rb != nil {
		t := c17IsTry(rb.Def.Body)
		ok := false
		tok := ""
		if t != nil && t.Catch != nil {
			rp := fw.JQIsCall(t.Body, "repeat", 1)
			hi := c17IsIf(t.Catch)
			if rp != nil && fw.JQIsCall(rp.Args[0], rb.Def.Args[0], 0) != nil && hi != nil && len(hi.Elif) == 0 {
				c := c17Unparen(hi.Cond)
				onTok, other := hi.Then, hi.Else
				if c.Op == gojq.OpNe {
					onTok, other = hi.Else, hi.Then // if . != tok then error else empty end
				}
				if (c.Op == gojq.OpEq || c.Op == gojq.OpNe) && c17IsIdentity(c.Left) {
					tok, _ = fw.JQConstString(c.Right)
				}
				ok = onTok != nil && other != nil && fw.JQIsCall(onTok, "empty", 0) != nil && fw.JQIsCall(other, "error", 0) != nil
			}
		}
		ru.Check(ok, "_repeat_break:shape", c17Pos(rb), "try repeat(f) catch if . == tok then empty else error end", "_repeat_break does not turn exactly the break token into end-of-stream and re-raise everything else: "+c17S(rb.Def.Body))
		ru.Check(tok != "" && tok == brk, "_repeat_break:token", c17Pos(rb), "token \""+tok+"\" agrees with _input", fmt.Sprintf("_repeat_break stops on %q but _input raises %q on an exhausted list", tok, brk))
	}
	if fd := m.def(ru, "input_filename", 0); fd != nil {
		ru.Check(fw.JQIsCall(fd.Def.Body, "_input_filename", 0) != nil, "input_filename", c17Pos(fd), "_input_filename", "input_filename does not read _input_filename")
	}
	c17InputFilenameReset(m, ru)
}

// ---------------------------------------------------------------------------
// C17.rawinput: -R / --raw-input line mode (jq: all inputs concatenated, exactly one final
// newline stripped, split at "\n"; with --slurp one string)

func c17RawInput(m *c17Model) {
	ru := m.r.Rule("C17.rawinput", "raw input mode (_input_string): chunks of all inputs are joined, exactly one trailing \"\\n\" is removed (rtrimstr(\"\\n\")) and the text is split at \"\\n\"; lines are handed out head first with the tail stored back, an exhausted list breaks; --slurp (and only --slurp) yields the joined text once", 8)
	in := m.def(ru, "input", 0)
	if in == nil {
		return
	}
	d := m.nested(ru, in, "_input_string", 1)
	if d == nil {
		return
	}
	pos := c17Pos(in) + "._input_string"
	const store = "_input_strings_lines"
	var split, drain, pop *gojq.Func
	for _, c := range c17Calls(d.Def.Body, store, 1, false) {
		a := c17Unparen(c.Args[0])
		switch {
		case c17S(a) == "[]":
			drain = c
		case len(c17Steps(a)) > 1:
			split = c
		case fw.JQIsCall(a, "", 0) != nil && strings.HasPrefix(fw.JQIsCall(a, "", 0).Name, "$"):
			pop = c
		}
	}
	if split == nil || drain == nil || pop == nil {
		ru.Undecided("anchor:_input_string:writes", pos, "cannot find the three writes of "+store+" (split lines, drain for slurp, pop)")
		return
	}
	// chunks: [_repeat_break(_input($opts; tobytes | tostring))] as $chunks
	chunks := ""
	for _, t := range c17AllBinds(d.Def.Body) {
		if t.name != "" && c17IsIdentity(t.src) {
			chunks = t.name
		}
	}
	// split pipeline
	st := c17Steps(split.Args[0])
	var names []string
	for _, s := range st {
		if s.Bind != nil {
			names = append(names, "<bind>")
			continue
		}
		if f := fw.JQIsCall(s.Q, "", -1); f != nil {
			arg := ""
			if len(f.Args) == 1 {
				if v, ok := fw.JQConstString(f.Args[0]); ok {
					arg = "(" + strconv.Quote(v) + ")"
				} else {
					arg = "(?)"
				}
			} else if len(f.Args) > 1 {
				arg = "(...)"
			}
			names = append(names, f.Name+arg)
		} else {
			names = append(names, c17S(s.Q))
		}
	}
	got := strings.Join(names, " | ")
	ru.Check(len(names) >= 1 && chunks != "" && names[0] == chunks, "lines:source", pos, "lines come from all chunks read ("+chunks+")", "the text split into lines is not the list of chunks read from the inputs: "+got)
	ru.Check(len(names) == 4 && names[1] == `join("")`, "lines:join", pos, "chunks of all inputs are concatenated", "chunks are not concatenated with join(\"\") ahead of the line split: "+got)
	ru.Check(len(names) == 4 && names[2] == `rtrimstr("\n")`, "lines:strip-one-newline", pos, "exactly one final newline is stripped",
		"between joining and splitting the text must lose exactly one trailing \"\\n\" (rtrimstr(\"\\n\")) and nothing else — trailing blank lines and trailing blanks of the last line are data: "+got)
	ru.Check(len(names) >= 1 && names[len(names)-1] == `split("\n")`, "lines:split", pos, "split at \"\\n\"", "lines are not produced by split(\"\\n\") as the last step: "+got)
	// after storing the lines the first one is delivered through input itself
	{
		ok := false
		for _, q := range c17AllQueries(d.Def.Body) {
			s := c17Steps(q)
			if len(s) == 2 && len(s[0].Bind) == 1 && fw.JQIsCall(s[0].Q, store, 1) == split && fw.JQIsCall(s[1].Q, "input", 0) != nil {
				ok = true
			}
		}
		ru.Check(ok, "lines:first", pos, "store the lines, then deliver through input", "after storing the split lines the first line is not delivered by re-entering input")
	}
	// iteration: [.[0], .[1:]] as [$h, $t] | store($t) | $h ; empty -> break
	{
		ok := false
		brk := false
		for _, q := range c17AllQueries(d.Def.Body) {
			s := c17Steps(q)
			if len(s) == 3 && len(s[0].Bind) == 1 && len(s[0].Bind[0].Array) == 2 && c17S(s[0].Q) == "[.[0], .[1:]]" {
				h, t := s[0].Bind[0].Array[0].Name, s[0].Bind[0].Array[1].Name
				if c := fw.JQIsCall(s[1].Q, store, 1); c == pop && s[1].Bind == nil && fw.JQIsCall(c.Args[0], t, 0) != nil && fw.JQIsCall(s[2].Q, h, 0) != nil {
					ok = true
				}
			}
			if i := c17IsIf(q); i != nil && c17S(i.Cond) == "length == 0" && fw.JQIsCall(i.Then, "error", 1) != nil && i.Else != nil && c17ContainsNode(i.Else, pop) {
				brk = true
			}
		}
		ru.Check(ok, "lines:next", pos, "head is delivered, tail stored back", "line iteration is not `[.[0], .[1:]] as [$h, $t] | "+store+"($t) | $h`")
		ru.Check(brk, "lines:exhausted", pos, "no lines left -> break", "an exhausted line list does not raise the break token ahead of taking the head")
	}
	// slurp: drain then the joined chunks
	{
		ok := false
		for _, q := range c17AllQueries(d.Def.Body) {
			s := c17Steps(q)
			if len(s) == 3 && fw.JQIsCall(s[0].Q, store, 1) == drain && len(s[0].Bind) == 1 && c17S(s[1].Q) == chunks && c17S(s[2].Q) == `join("")` {
				ok = true
			}
		}
		ru.Check(ok, "slurp:joined", pos, "-Rs: one string, next input breaks", "raw input with --slurp does not yield the chunks joined into one string after emptying the line list")
	}
	c17RawInputMore(m, ru, d, pos, drain, split)
}

type c17BindSite struct {
	name string
	src  *gojq.Query
}

// c17AllBinds returns every "src as $name" under n.
func c17AllBinds(n any) []c17BindSite {
	var out []c17BindSite
	fw.WalkJQ(n, func(x any) bool {
		t, ok := x.(*gojq.Term)
		if !ok || len(t.SuffixList) == 0 {
			return true
		}
		b := t.SuffixList[len(t.SuffixList)-1].Bind
		if b == nil || len(b.Patterns) != 1 {
			return true
		}
		src := *t
		src.SuffixList = t.SuffixList[:len(t.SuffixList)-1]
		out = append(out, c17BindSite{b.Patterns[0].Name, &gojq.Query{Term: &src}})
		return true
	}, false)
	return out
}

// c17AllQueries returns every query node under n.
func c17AllQueries(n any) []*gojq.Query {
	var out []*gojq.Query
	fw.WalkJQ(n, func(x any) bool {
		if q, ok := x.(*gojq.Query); ok {
			out = append(out, q)
		}
		return true
	}, false)
	return out
}

// ---------------------------------------------------------------------------
// per-input reset of input_filename (exported for other properties)

// c17InputFilenameResetAs checks, under the given rule id, that _input clears _input_filename
// before it opens the next input and sets it to the input's name only after a successful open,
// so a failing open never leaves the previous input's name behind.
func c17InputFilenameResetAs(r *fw.Run, p *fw.Program, ruleID string) {
	ru := r.Rule(ruleID, "input: _input_filename is cleared (null) before the next input is opened and set to its name only after a successful open — no state of one input leaks into the next", 2)
	jq, err := fw.LoadJQ(p.Repo)
	if err != nil {
		ru.Undecided("input_filename:anchor", "", "cannot load bundled jq sources: "+err.Error())
		return
	}
	m := &c17Model{r: r, p: p, jq: jq, codes: map[string]string{}, stores: map[string]string{}}
	c17InputFilenameReset(m, ru)
}

func c17InputFilenameReset(m *c17Model, ru *fw.Rule) {
	in := m.def(ru, "input", 0)
	if in == nil {
		return
	}
	d := m.nested(ru, in, "_input", 2)
	if d == nil {
		return
	}
	pos := c17Pos(in) + "._input"
	steps := c17Steps(d.Def.Body)
	iOpen := -1
	for i, s := range steps {
		if t := c17IsTry(s.Q); t != nil && c17HasCall(t.Body, "open", 0) && iOpen < 0 {
			iOpen = i
		}
	}
	if iOpen < 0 {
		ru.Undecided("input_filename:anchor", pos, "cannot find the protected open step of _input")
		return
	}
	reset := false
	for _, s := range steps[:iOpen] {
		if c := fw.JQIsCall(s.Q, "_input_filename", 1); c != nil {
			reset = c17IsNull(c.Args[0]) // the last write ahead of open decides
		}
	}
	ru.Check(reset, "input_filename:reset-before-open", pos, "_input_filename(null) ahead of the open step",
		"_input does not clear _input_filename before opening the next input: after an input that cannot be opened input_filename still names the previous input")
	openT := c17IsTry(steps[iOpen].Q)
	ob := c17Steps(openT.Body)
	set, afterOpen := false, false
	for i, s := range ob {
		if i == 0 && fw.JQIsCall(s.Q, "open", 0) != nil {
			afterOpen = true
		}
		if c := fw.JQIsCall(s.Q, "_input_filename", 1); c != nil && afterOpen && i > 0 && !c17IsNull(c.Args[0]) {
			set = true
		}
	}
	early := false
	for _, s := range steps[:iOpen] {
		if c := fw.JQIsCall(s.Q, "_input_filename", 1); c != nil && !c17IsNull(c.Args[0]) {
			early = true
		}
	}
	ru.Check(set && !early, "input_filename:set-after-open", pos, "name is set inside the open try, after open succeeded",
		"_input_filename is not set to the input's name only after a successful open")
}
