package rules

import (
	"fmt"
	"go/token"
	"go/types"
	"strings"

	"golang.org/x/tools/go/ssa"

	"fqverif/fw"
)

// ---------------------------------------------------------------------------
// shared helpers of the second-round rules

// c10EdgeConds: the conditions known when control flows pred -> succ: everything known at pred plus
// the outcome of pred's own terminating If on that edge (&& / || phis expanded like c10Conds).
func c10EdgeConds(pred, succ *ssa.BasicBlock) []c10Cond {
	return c10RefineConds(c10EdgeConds0(pred, succ))
}

// c10RefineConds: from !(A && B) and A follows !B; from (A || B) and !A follows B.
func c10RefineConds(conds []c10Cond) []c10Cond {
	for round := 0; round < 3; round++ {
		n := len(conds)
		for _, c := range conds[:n] {
			ph, ok := c.V.(*ssa.Phi)
			if !ok || len(ph.Edges) != 2 {
				continue
			}
			for i, e := range ph.Edges {
				k, isC := c10ConstBool(e)
				if !isC || k != c.True {
					continue
				}
				// edge i is the short-circuit edge (false for &&, true for ||) and the phi has that very value:
				// if the lhs is known not to have short-circuited, the rhs has the phi's value
				lhsBlock := ph.Block().Preds[i]
				ifi, ok := lhsBlock.Instrs[len(lhsBlock.Instrs)-1].(*ssa.If)
				if !ok {
					continue
				}
				// the lhs short-circuits to the phi block when its condition is k for ||, k for && (false)
				shortWhen := lhsBlock.Succs[0] == ph.Block()
				lv, lt := ifi.Cond, true
				for {
					u, ok := lv.(*ssa.UnOp)
					if !ok || u.Op != token.NOT {
						break
					}
					lv, lt = u.X, !lt
				}
				known, okK := c10CondTruth(conds, lv)
				if okK && (known == lt) != shortWhen {
					rhs := ph.Edges[1-i]
					if _, dup := c10CondTruth(conds, rhs); !dup {
						conds = append(conds, c10Cond{rhs, c.True})
					}
				}
			}
		}
		if len(conds) == n {
			break
		}
	}
	return conds
}

func c10EdgeConds0(pred, succ *ssa.BasicBlock) []c10Cond {
	out := c10Conds(pred)
	ifi, ok := pred.Instrs[len(pred.Instrs)-1].(*ssa.If)
	if !ok || len(pred.Succs) != 2 || pred.Succs[0] == pred.Succs[1] {
		return out
	}
	truth := pred.Succs[0] == succ
	v := ifi.Cond
	for {
		u, ok := v.(*ssa.UnOp)
		if !ok || u.Op != token.NOT {
			break
		}
		v, truth = u.X, !truth
	}
	if ph, ok := v.(*ssa.Phi); ok && len(ph.Edges) == 2 {
		for i, e := range ph.Edges {
			k, isC := c10ConstBool(e)
			if isC && k != truth {
				// the short-circuit edge is excluded: the other operand decides and was evaluated
				out = append(out, c10Cond{ph.Edges[1-i], truth})
				out = append(out, c10Conds(ph.Block().Preds[1-i])...)
				return out
			}
		}
	}
	return append(out, c10Cond{v, truth})
}

func c10CondFacts(env *fw.PolyEnv, conds []c10Cond) []fw.Cmp {
	var out []fw.Cmp
	for _, c := range conds {
		v, truth := c.V, c.True
		for {
			u, ok := v.(*ssa.UnOp)
			if !ok || u.Op != token.NOT {
				break
			}
			v, truth = u.X, !truth
		}
		cm, ok := env.CmpOf(v)
		if !ok {
			continue
		}
		if !truth {
			cm.Rel = cm.Rel.Negate()
		}
		out = append(out, cm)
	}
	return out
}

func c10FactsHold(facts []fw.Cmp, q fw.Cmp) bool {
	for _, f := range facts {
		if f.Implies(q) {
			return true
		}
	}
	return false
}

func c10FactsExact(facts []fw.Cmp, q fw.Cmp) bool {
	for _, f := range facts {
		if f.Implies(q) && q.Implies(f) {
			return true
		}
	}
	return false
}

// c10CondTruth: the truth value conds give to the boolean value v (ok=false if unknown).
func c10CondTruth(conds []c10Cond, v ssa.Value) (truth, ok bool) {
	for _, c := range conds {
		if c.V == v {
			return c.True, true
		}
	}
	return false, false
}

// c10EqConstTruth: the truth value conds give to (x == k) for the value x (through == and != tests).
func c10EqConstTruth(conds []c10Cond, x ssa.Value, k int64) (truth, ok bool) {
	for _, c := range conds {
		b, isB := c.V.(*ssa.BinOp)
		if !isB || (b.Op != token.EQL && b.Op != token.NEQ) {
			continue
		}
		var other ssa.Value
		switch {
		case c10Strip(b.X) == x:
			other = b.Y
		case c10Strip(b.Y) == x:
			other = b.X
		default:
			continue
		}
		if kk, isC := c10ConstInt(other); isC && kk == k {
			return c.True == (b.Op == token.EQL), true
		}
	}
	return false, false
}

// c10IsErrorReturn: the last result of the return is not the nil constant.
func c10IsErrorReturn(r *ssa.Return) bool {
	if len(r.Results) == 0 {
		return false
	}
	c, ok := r.Results[len(r.Results)-1].(*ssa.Const)
	return !(ok && c.IsNil())
}

// c10MustHit: on every path starting after instruction from, a target instruction is executed before
// control leaves the region (leave(block) true) or returns normally. Error returns are ignored.
func c10MustHit(from ssa.Instruction, isTarget func(ssa.Instruction) bool, leave func(*ssa.BasicBlock) bool) bool {
	seen := map[*ssa.BasicBlock]bool{}
	var walk func(b *ssa.BasicBlock, i int) bool
	walk = func(b *ssa.BasicBlock, i int) bool {
		for ; i < len(b.Instrs); i++ {
			ins := b.Instrs[i]
			if isTarget(ins) {
				return true
			}
			if r, ok := ins.(*ssa.Return); ok {
				return c10IsErrorReturn(r)
			}
		}
		for _, s := range b.Succs {
			if leave(s) {
				return false
			}
			if seen[s] {
				continue
			}
			seen[s] = true
			if !walk(s, 0) {
				return false
			}
		}
		return true
	}
	return walk(from.Block(), c10InstrIndex(from)+1)
}

// c10ReachesAvoiding: a CFG path a -> b that does not pass through avoid (a != avoid assumed).
func c10ReachesAvoiding(a, b, avoid *ssa.BasicBlock) bool {
	seen := map[*ssa.BasicBlock]bool{}
	stack := []*ssa.BasicBlock{a}
	for len(stack) > 0 {
		x := stack[len(stack)-1]
		stack = stack[:len(stack)-1]
		if x == b {
			return true
		}
		if seen[x] || x == avoid {
			continue
		}
		seen[x] = true
		stack = append(stack, x.Succs...)
	}
	return false
}

// c10RecvFieldStore: ins stores to field #field of the receiver rcv; returns the stored value.
func c10RecvFieldStore(ins ssa.Instruction, rcv ssa.Value, field int) (ssa.Value, bool) {
	st, ok := ins.(*ssa.Store)
	if !ok {
		return nil, false
	}
	fa, ok := st.Addr.(*ssa.FieldAddr)
	if !ok || fa.X != rcv || fa.Field != field {
		return nil, false
	}
	return st.Val, true
}

// ---------------------------------------------------------------------------
// C10.dump.addr (second round)

// c10DumpLastWithin: whatever value the last displayed bit takes, it is provably <= the value's last
// bit: otherwise the rows of a value show bytes of what follows it (shown again under the next value)
// and the truncation marker announces an end that lies before what is displayed.
func c10DumpLastWithin(ru *fw.Rule, d *c10Dumper, last ssa.Value, stopBit *fw.Poly, pos string) {
	env := d.env
	bad := ""
	seen := map[*ssa.Phi]bool{}
	var rec func(v ssa.Value, conds []c10Cond)
	rec = func(v ssa.Value, conds []c10Cond) {
		v = c10Strip(v)
		lp := env.Of(v)
		if lp.Equal(stopBit) {
			return
		}
		facts := c10CondFacts(env, conds)
		if c10FactsHold(facts, fw.Cmp{P: stopBit.Sub(lp), Rel: fw.GE}) {
			return
		}
		if c, ok := v.(*ssa.Call); ok && fw.IsBuiltinCall(c, "min") {
			for _, a := range c.Call.Args {
				if env.Of(a).Equal(stopBit) {
					return
				}
			}
		}
		if ph, ok := v.(*ssa.Phi); ok && !seen[ph] {
			seen[ph] = true
			for i, e := range ph.Edges {
				if e != ssa.Value(ph) {
					rec(e, c10EdgeConds(ph.Block().Preds[i], ph.Block()))
				}
			}
			return
		}
		var fs []string
		for _, f := range facts {
			fs = append(fs, f.String())
		}
		bad = lp.String() + " under {" + strings.Join(fs, "; ") + "}"
	}
	rec(last, nil)
	ru.Check(bad == "", "last:within", pos, "every value of the last displayed bit is guarded to be <= the value's last bit start+len-1",
		"the last displayed bit can be "+bad+", not shown to be <= the value's last bit "+stopBit.String()+": a truncated value's rows run past its end into the bytes of what follows (shown a second time there) and the marker announces an end before the bytes displayed")
}

// c10DumpInner: the range all of the row arithmetic starts from is InnerRange() of the dumped value
// (a parameter of the dumper other than the one whose RootReader is read): a nested root's own
// range is relative to the parent's buffer, only InnerRange is relative to the buffer displayed.
func c10DumpInner(ru *fw.Rule, d *c10Dumper, startV ssa.Value, pos string) {
	_, _, base, ok := c10FieldLoad(startV)
	if !ok {
		ru.Undecided("range:inner", pos, "the displayed range's Start is not a field load")
		return
	}
	src := base
	if al, isAl := base.(*ssa.Alloc); isAl && al.Referrers() != nil {
		n := 0
		for _, rf := range *al.Referrers() {
			if st, isSt := rf.(*ssa.Store); isSt && st.Addr == ssa.Value(al) {
				src = st.Val
				n++
			}
		}
		if n != 1 {
			ru.Undecided("range:inner", pos, fmt.Sprintf("the displayed range variable is assigned %d times", n))
			return
		}
	}
	c, isCall := c10Strip(src).(*ssa.Call)
	good := false
	what := "not a call"
	if isCall {
		what = fw.CalleeName(c)
		if what == c10InnerRange && len(c.Call.Args) == 1 {
			_, _, rbase, okR := c10FieldLoad(d.R.Call.Args[0])
			prm, isPrm := c.Call.Args[0].(*ssa.Parameter)
			good = isPrm && prm.Parent() == d.fn && (!okR || rbase != ssa.Value(prm))
			if !good {
				what = "InnerRange() of " + d.env.Of(c.Call.Args[0]).String()
			}
		}
	} else {
		what = c10NoStoreSuffix(d.env.Of(src).String())
	}
	ru.Check(good, "range:inner", pos, "the displayed range is InnerRange() of the dumped value", "the range the addresses, bytes and verbose range are derived from is "+what+", not (*decode.Value).InnerRange() of the dumped value: for a nested root (own buffer) Range is a position in the parent's buffer while the bytes are read from the nested buffer")
}

// ---------------------------------------------------------------------------
// C10.dump.cols (second round)

// c10DumpWidthMax: the address width pre-pass accumulates a maximum: the measured width replaces the
// running one only when larger (builtin max, or a store guarded by measured > running).
func c10DumpWidthMax(ru *fw.Rule, p *fw.Program, sum ssa.Value, denv *fw.PolyEnv, pos string) {
	good := false
	if sum.Referrers() != nil {
		for _, rf := range *sum.Referrers() {
			switch x := rf.(type) {
			case *ssa.Call:
				if !fw.IsBuiltinCall(x, "max") || len(x.Call.Args) != 2 || x.Referrers() == nil {
					continue
				}
				other := x.Call.Args[0]
				if other == sum {
					other = x.Call.Args[1]
				}
				ld, ok := c10Strip(other).(*ssa.UnOp)
				if !ok || ld.Op != token.MUL {
					continue
				}
				for _, rr := range *x.Referrers() {
					if st, ok := rr.(*ssa.Store); ok && st.Val == ssa.Value(x) && st.Addr == ld.X {
						good = true
					}
				}
			case *ssa.Store:
				if x.Val != sum {
					continue
				}
				fw.EachInstr(x.Parent(), func(ins ssa.Instruction) {
					ld, ok := ins.(*ssa.UnOp)
					if ok && ld.Op == token.MUL && ld.X == x.Addr && c10Holds(denv, x.Block(), fw.Cmp{P: denv.Of(sum).Sub(denv.Of(ld)), Rel: fw.GT}) {
						good = true
					}
				})
			}
		}
	}
	// every value the pre-pass visits is measured: no return of the callback precedes the measurement (a value
	// that is skipped - e.g. the displayed value itself when it is an array element past array_truncate -
	// leaves the column too narrow, or zero wide, for the addresses printed in it)
	if si, ok := sum.(ssa.Instruction); ok && si.Parent() != nil {
		early := ""
		fw.EachInstr(si.Parent(), func(ins ssa.Instruction) {
			if ret, ok := ins.(*ssa.Return); ok && !(si.Block() == ret.Block() || si.Block().Dominates(ret.Block())) {
				early = p.Rel(ret.Pos())
			}
		})
		ru.Check(early == "", "digits:every-value", pos, "the pre-pass measures every value it visits", "the width pre-pass callback can return (at "+early+") before it measured the value it was called for: values it skips are still displayed (the top value is always shown), and their addresses do not fit the column sized without them")
	}
	ru.Check(good, "digits:max", pos, "the address column width is the maximum over all values of indent + digits", "the width pre-pass does not keep the maximum of (indent + address digits) over the walked values: the address column is sized for another value than the widest and longer addresses are cut by FlushLine")
}

// c10DumpRootFits: at the outermost root (walk root depth 0) indent + pad width fits the address
// column for every tree depth: excess must be a polynomial without positive terms.
func c10DumpRootFits(ru *fw.Rule, p *fw.Program, cs *ssa.Call, i int, wcol, ind, pw *fw.Poly) {
	key := fmt.Sprintf("addrwidth:root#%d", i)
	pos := p.Rel(cs.Pos())
	walk := p.NamedType("pkg/decode", "WalkFn")
	par := cs.Parent()
	if walk == nil || par == nil {
		ru.Undecided(key, pos, "decode.WalkFn not found or the dumper is not called from a walk callback")
		return
	}
	sig, _ := walk.Underlying().(*types.Signature)
	if sig == nil || sig.Params().Len() < 1 || !types.Identical(par.Signature.Params(), sig.Params()) {
		ru.Undecided(key, pos, "the dumper's caller is not a decode.WalkFn callback: its root depth parameter cannot be identified")
		return
	}
	// WalkFn(v, rootV, depth, rootDepth): the last parameter
	nfree := len(par.FreeVars)
	_ = nfree
	rd := par.Params[len(par.Params)-1]
	zero := map[string]*fw.Poly{rd.Name(): fw.PConst(0)}
	excess := c10SubstAtoms(ind.Add(pw).Sub(wcol), zero)
	bad := ""
	for m, c := range excess.T {
		if c.Sign() > 0 {
			bad = m
			if m == "" {
				bad = "constant " + c.String()
			}
		}
	}
	ru.Check(bad == "", key, pos, "at the outermost root indent + pad width <= address column width for every tree depth",
		"at the outermost root (root depth 0) a row prints indent + padded address "+c10SubstAtoms(ind.Add(pw), zero).String()+" into an address column of "+wcol.String()+" (excess "+excess.String()+"): FlushLine cuts the last digit(s) of every address")
}

// ---------------------------------------------------------------------------
// C10.writer (second round): the line buffer of the hex/ascii writers

// c10WriterBuf: the cell text is appended at buf[bufOffset:] and bufOffset advanced by its length;
// after every flush inside the byte loop bufOffset is reset before the iteration ends (else the next
// flush repeats bytes already written); a deferred row/cell separator stored at buf[0] is followed
// by bufOffset = 1 before the first cell (else the cell overwrites it).
func c10WriterBuf(ru *fw.Rule, p *fw.Program, k string, wr *ssa.Function, rcv ssa.Value, env *fw.PolyEnv, cell *ssa.Call, recvField func(ssa.Value) int, fname func(int) string) {
	pos := func(i ssa.Instruction) string { return p.Rel(i.Pos()) }
	// the copy of the cell text into the line buffer
	var cp *ssa.Call
	var src ssa.Value
	fw.EachInstr(wr, func(ins ssa.Instruction) {
		c, ok := ins.(*ssa.Call)
		if !ok || !fw.IsBuiltinCall(c, "copy") || len(c.Call.Args) != 2 {
			return
		}
		s := c.Call.Args[1]
		if cv, ok := s.(*ssa.Convert); ok && cv.X == ssa.Value(cell) {
			cp, src = c, s
		} else if s == ssa.Value(cell) {
			cp, src = c, s
		}
	})
	if cp == nil {
		ru.Undecided(k+"buf:append", p.Rel(wr.Pos()), "the cell text is not copied into a line buffer (the buffered line model of the rule does not apply)")
		return
	}
	bufF, offF := -1, -1
	if sl, ok := cp.Call.Args[0].(*ssa.Slice); ok && sl.High == nil {
		bufF = recvField(sl.X)
		if sl.Low != nil {
			offF = recvField(sl.Low)
		}
	}
	if !ru.Check(bufF >= 0 && offF >= 0, k+"buf:append", pos(cp), "the cell text is copied to buf[bufOffset:]", "the cell text is not copied to buf[<fill position field>:] of the writer's line buffer: cells of one flush overwrite each other") {
		return
	}
	bo := fw.PAtom("recv." + fname(offF))
	// bufOffset += len(cell text)
	adv := false
	fw.EachInstr(wr, func(ins ssa.Instruction) {
		v, ok := c10RecvFieldStore(ins, rcv, offF)
		if !ok || !cell.Block().Dominates(ins.Block()) {
			return
		}
		d := env.Of(v).Sub(bo)
		if len(d.T) != 1 {
			return
		}
		// bufOffset += copy(buf[bufOffset:], text)
		if bin, ok := c10Strip(v).(*ssa.BinOp); ok && bin.Op == token.ADD {
			if (bin.X == ssa.Value(cp) && recvField(bin.Y) == offF) || (bin.Y == ssa.Value(cp) && recvField(bin.X) == offF) {
				adv = true
			}
		}
		// the difference is len(<cell text>)
		if bin, ok := c10Strip(v).(*ssa.BinOp); ok && bin.Op == token.ADD {
			for _, side := range []ssa.Value{bin.X, bin.Y} {
				if lc, ok := side.(*ssa.Call); ok && fw.IsBuiltinCall(lc, "len") && (lc.Call.Args[0] == src || lc.Call.Args[0] == ssa.Value(cell)) {
					other := bin.X
					if other == side {
						other = bin.Y
					}
					if recvField(other) == offF && c10NoStoreBetween(cp, ins, rcv, offF) && cp.Block().Dominates(ins.Block()) {
						adv = true
					}
				}
			}
		}
	})
	ru.Check(adv, k+"buf:advance", pos(cp), "bufOffset advances by the length of the cell text copied", "after copying the cell text the fill position is not advanced by exactly len(cell text): the separator or the next cell overwrites it or leaves stale bytes in between")
	// reset after every flush in the byte loop
	inBody := func(b *ssa.BasicBlock) bool { return b != cell.Block() && cell.Block().Dominates(b) }
	nFlush, okReset := 0, true
	var firstFlush ssa.Instruction
	fw.EachInstr(wr, func(ins ssa.Instruction) {
		c, ok := ins.(*ssa.Call)
		if !ok || !c.Call.IsInvoke() || c.Call.Method.Name() != "Write" || !cell.Block().Dominates(c.Block()) {
			return
		}
		nFlush++
		if firstFlush == nil {
			firstFlush = c
		}
		isReset := func(x ssa.Instruction) bool {
			v, ok := c10RecvFieldStore(x, rcv, offF)
			if !ok {
				return false
			}
			z, isC := c10ConstInt(v)
			return isC && z == 0
		}
		// the reset may also directly precede the write (the flushed prefix is already sliced): the
		// last store to the fill position before the write, in the write's block, is the reset
		before := false
		for _, x := range c.Block().Instrs {
			if x == ssa.Instruction(c) {
				break
			}
			if _, ok := c10RecvFieldStore(x, rcv, offF); ok {
				before = isReset(x)
			}
		}
		if !before && !c10MustHit(c, isReset, func(b *ssa.BasicBlock) bool { return !inBody(b) }) {
			okReset = false
		}
	})
	if nFlush == 0 {
		ru.Undecided(k+"buf:reset", p.Rel(wr.Pos()), "no flush of the line buffer inside the byte loop")
	} else {
		ru.Check(okReset, k+"buf:reset", pos(firstFlush), "the fill position is reset to 0 after every flush before the iteration ends", "after a flush of the line buffer inside the byte loop the fill position is not reset to 0 on every path: the next flush writes the bytes already written again (bytes are displayed more than once)")
	}
	// a byte stored at buf[bufOffset] (separator, row end) counts: bufOffset+1 before the buffer is sliced or the iteration ends
	nPut, okPut := 0, true
	var firstPut ssa.Instruction
	fw.EachInstr(wr, func(ins ssa.Instruction) {
		st, ok := ins.(*ssa.Store)
		if !ok || !cell.Block().Dominates(st.Block()) {
			return
		}
		ia, ok := st.Addr.(*ssa.IndexAddr)
		if !ok || recvField(ia.X) != bufF || recvField(ia.Index) != offF {
			return
		}
		nPut++
		if firstPut == nil {
			firstPut = st
		}
		poisoned := false
		hit := c10MustHit(st, func(x ssa.Instruction) bool {
			if sl, ok := x.(*ssa.Slice); ok && recvField(sl.X) == bufF {
				poisoned = true
				return true
			}
			v, ok := c10RecvFieldStore(x, rcv, offF)
			return ok && env.Of(v).Equal(bo.Add(fw.PConst(1)))
		}, func(b *ssa.BasicBlock) bool { return !inBody(b) })
		if !hit || poisoned {
			okPut = false
		}
	})
	if nPut > 0 {
		ru.Check(okPut, k+"buf:put", pos(firstPut), "a byte stored at buf[bufOffset] is followed by bufOffset+1 before the buffer is sliced", "a separator/newline is stored at buf[bufOffset] but the fill position is not advanced by 1 before the buffer is sliced for the flush (or the iteration ends): the flush cuts the last character of a cell or drops the row end")
	}
	c10WriterGrow(ru, p, k, wr, rcv, env, cell, cp, src, bufF, offF, nPut > 0, recvField, fname)
	// deferred separator at buf[0] => bufOffset = 1 before the first cell
	nRes, okRes := 0, true
	var firstRes ssa.Instruction
	fw.EachInstr(wr, func(ins ssa.Instruction) {
		st, ok := ins.(*ssa.Store)
		if !ok || cell.Block().Dominates(st.Block()) {
			return
		}
		ia, ok := st.Addr.(*ssa.IndexAddr)
		if !ok || recvField(ia.X) != bufF {
			return
		}
		if z, isC := c10ConstInt(ia.Index); !isC || z != 0 {
			return
		}
		nRes++
		if firstRes == nil {
			firstRes = st
		}
		hit := c10MustHit(st, func(x ssa.Instruction) bool {
			v, ok := c10RecvFieldStore(x, rcv, offF)
			if !ok {
				return false
			}
			z, isC := c10ConstInt(v)
			return isC && z == 1
		}, func(b *ssa.BasicBlock) bool { return b == cell.Block() })
		if !hit {
			okRes = false
		}
	})
	if nRes == 0 {
		ru.Undecided(k+"buf:resume", p.Rel(wr.Pos()), "no deferred separator stored at buf[0] before the byte loop")
	} else {
		ru.Check(okRes, k+"buf:resume", pos(firstRes), "a separator stored at buf[0] is followed by bufOffset = 1 before the first cell", "a deferred newline/separator is stored at buf[0] but the fill position is not set to 1 on every path to the first cell: the cell overwrites it and two rows (or cells) run together")
	}
}

// ---------------------------------------------------------------------------
// C10.colwriter (second round)

// c10ColWriteSplit: MultiLineColumn.Write splits the buffered bytes b at newlines: each line is
// b[pos : pos+i] with i the newline index within b[pos:], pos advances by i+1, the rest b[pos:] is
// kept for the next Write.
func c10ColWriteSplit(ru *fw.Rule, p *fw.Program) {
	wr := p.Fn("(*internal/columnwriter.MultiLineColumn).Write")
	if wr == nil || wr.Blocks == nil || len(wr.Params) != 2 {
		ru.Undecided("write:split", "", "(*MultiLineColumn).Write not found")
		return
	}
	env := c10Env(wr, true)
	rcv := wr.Params[0]
	bytesCalls := c10CallsTo(wr, "(*bytes.Buffer).Bytes")
	if len(bytesCalls) != 1 {
		ru.Undecided("write:split", p.Rel(wr.Pos()), fmt.Sprintf("%d Bytes() calls in MultiLineColumn.Write (the rule knows the one-snapshot form)", len(bytesCalls)))
		return
	}
	b := ssa.Value(bytesCalls[0])
	// slices of the snapshot
	var search, tail, line *ssa.Slice
	var idx *ssa.Call
	fw.EachInstr(wr, func(ins ssa.Instruction) {
		sl, ok := ins.(*ssa.Slice)
		if !ok || sl.X != b || sl.Referrers() == nil {
			return
		}
		for _, rf := range *sl.Referrers() {
			c, ok := rf.(*ssa.Call)
			if !ok {
				continue
			}
			if c.Call.StaticCallee() != nil && c10IsInt(c.Type()) && sl.High == nil && len(c.Call.Args) >= 1 && c.Call.Args[0] == ssa.Value(sl) {
				search, idx = sl, c
			}
			if fw.CalleeName(c) == "(*bytes.Buffer).Write" && sl.High == nil {
				tail = sl
			}
		}
		if sl.High != nil {
			line = sl
		}
	})
	if search == nil || line == nil || idx == nil {
		ru.Undecided("write:split", p.Rel(wr.Pos()), "newline search over b[pos:] / line slice b[lo:hi] not found")
		return
	}
	pos := func(i ssa.Instruction) string { return p.Rel(i.Pos()) }
	posP := fw.NewPoly()
	if search.Low != nil {
		posP = env.Of(search.Low)
	}
	iP := env.Of(idx)
	lo := fw.NewPoly()
	if line.Low != nil {
		lo = env.Of(line.Low)
	}
	// the line reaches lines through conversions and append
	ru.Check(lo.Equal(posP) && env.Of(line.High).Equal(posP.Add(iP)) && c10Holds(env, line.Block(), fw.Cmp{P: iP, Rel: fw.GE}), "write:split", pos(line),
		"a line is b[pos : pos+i], i >= 0 the newline index within b[pos:]", "a line is cut as b["+lo.String()+" : "+env.Of(line.High).String()+"] while the newline was searched from "+posP.String()+" and found at relative index "+iP.String()+": from the second line of a write on, rows get the wrong bytes")
	// pos advances by i+1
	ph, _ := c10Strip(search.Low).(*ssa.Phi)
	adv := false
	if ph != nil {
		adv = true
		n := 0
		for _, e := range ph.Edges {
			if z, ok := c10ConstInt(e); ok && z == 0 {
				continue
			}
			n++
			if !env.Of(e).Equal(posP.Add(iP).Add(fw.PConst(1))) {
				adv = false
			}
		}
		adv = adv && n >= 1
	}
	ru.Check(adv, "write:advance", pos(search), "pos starts at 0 and advances by i+1 (past the newline)", "the scan position does not start at 0 and advance by exactly i+1 per line: the newline becomes part of the next line or a byte is skipped")
	// the rest
	good := tail != nil && c10Strip(tail.Low) == ssa.Value(ph) && ph != nil
	if good {
		// after Reset of the buffer
		good = len(c10CallsTo(wr, "(*bytes.Buffer).Reset")) == 1
		// taken exactly when no further newline is found
		if !c10Exact(env, tail.Block(), fw.Cmp{P: iP, Rel: fw.LT}) {
			good = false
		}
	}
	_ = rcv
	ru.Check(good, "write:rest", p.Rel(wr.Pos()), "the unterminated rest b[pos:] is kept for the next write", "after the complete lines are taken (exactly when no newline is left: index < 0) the buffer is not reset and refilled with exactly b[pos:] (pos: end of the last complete line): bytes of the row in progress are dropped or repeated, or complete rows stay unsplit")
}

// c10ColReset: Flush resets every column after the rows are written (before returning normally) and
// MultiLineColumn.Reset clears both the lines and the unterminated rest: otherwise the rows of the
// previous value are written again in front of the next value's rows.
func c10ColReset(ru *fw.Rule, p *fw.Program, flush *ssa.Function, flCall *ssa.Call) {
	var resetCall *ssa.Call
	fw.EachInstr(flush, func(ins ssa.Instruction) {
		if c, ok := ins.(*ssa.Call); ok && c.Call.IsInvoke() && c.Call.Method.Name() == "Reset" {
			resetCall = c
		}
	})
	good := false
	if resetCall != nil {
		hdr := resetCall.Block().Idom()
		good = hdr != nil && c10InLoop(resetCall.Block()) && !c10Reaches(resetCall.Block(), flCall.Block())
		// every normal return is reached through the reset loop
		for _, rt := range c10Returns(flush) {
			if !c10IsErrorReturn(rt) && (hdr == nil || !hdr.Dominates(rt.Block())) {
				good = false
			}
		}
		// it ranges over the receiver's Columns
		if ld, ok := c10Strip(resetCall.Call.Value).(*ssa.UnOp); ok {
			if ia, ok := ld.X.(*ssa.IndexAddr); ok {
				if _, f, base, ok := c10FieldLoad(ia.X); !ok || f != "Columns" || base != ssa.Value(flush.Params[0]) {
					good = false
				}
			} else {
				good = false
			}
		} else {
			good = false
		}
	}
	at := p.Rel(flush.Pos())
	if resetCall != nil {
		at = p.Rel(resetCall.Pos())
	}
	ru.Check(good, "flush:reset", at, "every column is Reset after the rows are written, before Flush returns normally", "Flush does not Reset every column of the writer after writing the rows: the rows of one value are written again with the next value (bytes shown twice, under the wrong field)")
	rs := p.Fn("(*internal/columnwriter.MultiLineColumn).Reset")
	if rs == nil || rs.Blocks == nil {
		ru.Undecided("reset:body", "", "(*MultiLineColumn).Reset not found")
		return
	}
	linesCleared, bufCleared := false, false
	fw.EachInstr(rs, func(ins ssa.Instruction) {
		if st, ok := ins.(*ssa.Store); ok {
			if fa, ok := st.Addr.(*ssa.FieldAddr); ok && fa.X == ssa.Value(rs.Params[0]) && fieldNameOf(fa.X.Type(), fa.Field) == "lines" {
				if c, ok := st.Val.(*ssa.Const); ok && c.IsNil() {
					linesCleared = true
				}
				if sl, ok := st.Val.(*ssa.Slice); ok && sl.High != nil {
					if z, ok := c10ConstInt(sl.High); ok && z == 0 {
						linesCleared = true
					}
				}
			}
		}
		if c, ok := ins.(*ssa.Call); ok && fw.CalleeName(c) == "(*bytes.Buffer).Reset" {
			if fa, ok := c.Call.Args[0].(*ssa.FieldAddr); ok && fa.X == ssa.Value(rs.Params[0]) {
				bufCleared = true
			}
		}
	})
	ru.Check(linesCleared && bufCleared, "reset:body", p.Rel(rs.Pos()), "Reset empties the lines and the unterminated rest", fmt.Sprintf("MultiLineColumn.Reset does not empty both the collected lines (cleared=%v) and the buffered rest (cleared=%v): stale rows are flushed again with the next value", linesCleared, bufCleared))
}

// c10ColPreFlush: PreFlush terminates the unterminated rest exactly when there is one (buf.Len() > 0)
// and Lines() is the number of complete lines: Flush sizes the rows by it.
func c10ColPreFlush(ru *fw.Rule, p *fw.Program) {
	pf := p.Fn("(*internal/columnwriter.MultiLineColumn).PreFlush")
	ln := p.Fn("(*internal/columnwriter.MultiLineColumn).Lines")
	wr := p.Fn("(*internal/columnwriter.MultiLineColumn).Write")
	if pf == nil || ln == nil || wr == nil || pf.Blocks == nil || ln.Blocks == nil {
		ru.Undecided("preflush:body", "", "(*MultiLineColumn).PreFlush/Lines/Write not found")
		return
	}
	env := c10Env(pf, true)
	good, n := true, 0
	for _, c := range c10CallsTo(pf, wr.String()) {
		n++
		nl := false
		if sl, ok := c.Call.Args[1].(*ssa.Slice); ok {
			if al, ok := sl.X.(*ssa.Alloc); ok && al.Referrers() != nil {
				for _, rf := range *al.Referrers() {
					if ia, ok := rf.(*ssa.IndexAddr); ok && ia.Referrers() != nil {
						for _, rr := range *ia.Referrers() {
							if st, ok := rr.(*ssa.Store); ok {
								if k, ok := c10ConstInt(st.Val); ok && k == '\n' {
									nl = true
								}
							}
						}
					}
				}
			}
		}
		if cv, ok := c.Call.Args[1].(*ssa.Convert); ok {
			if s, ok := c10ConstStr(cv.X); ok && s == "\n" {
				nl = true
			}
		}
		guard := false
		for _, lc := range c10CallsTo(pf, "(*bytes.Buffer).Len") {
			fa, ok := lc.Call.Args[0].(*ssa.FieldAddr)
			if !ok || fa.X != ssa.Value(pf.Params[0]) {
				continue
			}
			l := env.Of(lc)
			if c10Exact(env, c.Block(), fw.Cmp{P: l, Rel: fw.GT}) || c10Exact(env, c.Block(), fw.Cmp{P: l, Rel: fw.NE}) {
				guard = true
			}
		}
		if !nl || !guard || c.Call.Args[0] != ssa.Value(pf.Params[0]) {
			good = false
		}
	}
	ru.Check(good && n == 1, "preflush:body", p.Rel(pf.Pos()), "PreFlush writes one newline to the column iff its unterminated rest is non-empty", "PreFlush does not terminate the unterminated rest with a newline exactly when buf.Len() > 0: the last (partial) hex/ascii row of a value is dropped, or an empty row is added")
	lgood := true
	for _, rt := range c10Returns(ln) {
		lc, ok := rt.Results[0].(*ssa.Call)
		if !ok || !fw.IsBuiltinCall(lc, "len") {
			lgood = false
			continue
		}
		if _, f, base, ok := c10FieldLoad(lc.Call.Args[0]); !ok || f != "lines" || base != ssa.Value(ln.Params[0]) {
			lgood = false
		}
	}
	ru.Check(lgood, "lines:body", p.Rel(ln.Pos()), "Lines() is len(lines)", "MultiLineColumn.Lines does not return the number of collected lines: Flush writes too few rows (bytes missing) or empty extra rows")
}

// c10ColFnGuards: the optional LenFn/SliceFn hooks are called only under a nil test of one of the
// two (they are set together, C10.dump.cols lenfn-slicefn), otherwise the rune based default runs.
func c10ColFnGuards(ru *fw.Rule, p *fw.Program) {
	for _, name := range []string{"lenFn", "sliceFn"} {
		fn := p.Fn("(*internal/columnwriter.MultiLineColumn)." + name)
		key := "hook-guard:" + name
		if fn == nil || fn.Blocks == nil {
			ru.Undecided(key, "", "(*MultiLineColumn)."+name+" not found")
			continue
		}
		rcv := fn.Params[0]
		hook := func(v ssa.Value) string {
			_, f, base, ok := c10FieldLoad(v)
			if ok && base == ssa.Value(rcv) && (f == "LenFn" || f == "SliceFn") {
				return f
			}
			return ""
		}
		n, good := 0, true
		fw.EachInstr(fn, func(ins ssa.Instruction) {
			c, ok := ins.(*ssa.Call)
			if !ok || c.Call.IsInvoke() || c.Call.StaticCallee() != nil || hook(c.Call.Value) == "" {
				return
			}
			n++
			guarded := false
			for _, cd := range c10Conds(c.Block()) {
				b, ok := cd.V.(*ssa.BinOp)
				if !ok || (b.Op != token.NEQ && b.Op != token.EQL) {
					continue
				}
				var h ssa.Value
				if isNilConst(b.Y) {
					h = b.X
				} else if isNilConst(b.X) {
					h = b.Y
				}
				if h != nil && hook(h) != "" && cd.True == (b.Op == token.NEQ) {
					guarded = true
				}
			}
			if !guarded {
				good = false
			}
		})
		ru.Check(good && n >= 1, key, p.Rel(fn.Pos()), "the display length/slice hook is called only when set", fmt.Sprintf("%s calls a LenFn/SliceFn hook %d time(s) not all under a non-nil test of the hooks: with colour off (hooks nil) cutting or measuring a cell panics instead of using the rune based default", name, n))
	}
}

// c10AnsiRules: ansi.Len (the LenFn of every column when colour is on) counts exactly the characters
// outside SGR escape sequences ESC ... 'm'; ansi.Slice counts the same way, records the byte index of
// visible character #start and cuts before visible character #stop.
func c10AnsiRules(ru *fw.Rule, p *fw.Program) {
	for _, name := range []string{"Len", "Slice"} {
		fn := p.Fn("internal/ansi." + name)
		key := "ansi:" + strings.ToLower(name)
		if fn == nil || fn.Blocks == nil {
			ru.Undecided(key, "", "ansi."+name+" not found")
			continue
		}
		c10AnsiCounter(ru, p, fn, key, name == "Slice")
	}
}

func c10AnsiCounter(ru *fw.Rule, p *fw.Program, fn *ssa.Function, key string, slice bool) {
	at := p.Rel(fn.Pos())
	env := c10Env(fn, false)
	// the range loop over the string parameter
	var next *ssa.Next
	fw.EachInstr(fn, func(ins ssa.Instruction) {
		if n, ok := ins.(*ssa.Next); ok && n.IsString {
			if rg, ok := n.Iter.(*ssa.Range); ok && rg.X == ssa.Value(fn.Params[0]) {
				next = n
			}
		}
	})
	if next == nil || next.Referrers() == nil {
		ru.Undecided(key, at, "no range loop over the string parameter")
		return
	}
	var ch, byteIdx ssa.Value
	for _, rf := range *next.Referrers() {
		if ex, ok := rf.(*ssa.Extract); ok {
			switch ex.Index {
			case 1:
				byteIdx = ex
			case 2:
				ch = ex
			}
		}
	}
	hdr := next.Block()
	var st, cnt *ssa.Phi
	for _, ins := range hdr.Instrs {
		ph, ok := ins.(*ssa.Phi)
		if !ok {
			continue
		}
		if bt, ok := ph.Type().Underlying().(*types.Basic); ok && bt.Kind() == types.Bool {
			st = ph
			continue
		}
		for _, e := range ph.Edges {
			if bo, ok := e.(*ssa.BinOp); ok && bo.Op == token.ADD && bo.X == ssa.Value(ph) {
				if one, ok := c10ConstInt(bo.Y); ok && one == 1 {
					cnt = ph
				}
			}
		}
	}
	if ch == nil || st == nil || cnt == nil {
		ru.Undecided(key, at, "escape-sequence state / visible character counter not found in the loop header")
		return
	}
	const esc, fin = 27, 'm'
	bad := ""
	nInc := 0
	for k, pred := range hdr.Preds {
		sE, cE := st.Edges[k], cnt.Edges[k]
		if !hdr.Dominates(pred) {
			// entry: not in a sequence, count 0
			b, okB := c10ConstBool(sE)
			z, okZ := c10ConstInt(cE)
			if !okB || b || !okZ || z != 0 {
				bad = "initial state is not (outside a sequence, count 0)"
			}
			continue
		}
		conds := c10EdgeConds(pred, hdr)
		inSeq, okS := c10CondTruth(conds, st)
		if !okS {
			bad = "a loop path does not test the in-sequence state"
			continue
		}
		stays := func(v ssa.Value, want bool) bool {
			if v == ssa.Value(st) {
				return inSeq == want
			}
			b, ok := c10ConstBool(v)
			return ok && b == want
		}
		unchanged := cE == ssa.Value(cnt)
		inc := false
		if bo, ok := cE.(*ssa.BinOp); ok && bo.Op == token.ADD && bo.X == ssa.Value(cnt) {
			if one, ok := c10ConstInt(bo.Y); ok && one == 1 {
				inc = true
			}
		}
		if inSeq {
			isFin, okF := c10EqConstTruth(conds, ch, fin)
			switch {
			case !okF:
				bad = "inside a sequence the character is not compared with 'm'"
			case !unchanged:
				bad = "a character inside an escape sequence is counted"
			case !stays(sE, !isFin):
				bad = fmt.Sprintf("inside a sequence, character=='m' is %v but the in-sequence state becomes %s", isFin, env.Of(sE).String())
			}
		} else {
			isEsc, okE := c10EqConstTruth(conds, ch, esc)
			switch {
			case !okE:
				bad = "outside a sequence the character is not compared with ESC"
			case isEsc && !unchanged:
				bad = "the ESC that opens a sequence is counted as visible"
			case !isEsc && !inc:
				bad = "a visible character (outside a sequence, not ESC) is not counted exactly once"
			case !stays(sE, isEsc):
				bad = fmt.Sprintf("outside a sequence, character==ESC is %v but the in-sequence state becomes %s", isEsc, env.Of(sE).String())
			}
			if !isEsc && inc {
				nInc++
			}
		}
	}
	ru.Check(bad == "" && nInc >= 1, key+":count", at, "characters are counted iff outside ESC..'m' sequences; ESC opens and 'm' closes a sequence", "the visible-length scan is wrong: "+bad+" — with colour on cells are padded/cut by a length that is not what the terminal shows, bars and bytes leave their columns")
	if !slice {
		good := true
		for _, rt := range c10Returns(fn) {
			if len(rt.Results) != 1 || rt.Results[0] != ssa.Value(cnt) {
				good = false
			}
		}
		ru.Check(good, key+":result", at, "Len returns the count", "ansi.Len does not return its visible character count")
		return
	}
	if len(fn.Params) != 3 || byteIdx == nil {
		ru.Undecided(key+":cut", at, "ansi.Slice(s, start, stop) shape not recognised")
		return
	}
	start, stop := env.Of(fn.Params[1]), env.Of(fn.Params[2])
	cP := env.Of(cnt)
	visible := func(conds []c10Cond) bool {
		inSeq, okS := c10CondTruth(conds, st)
		isEsc, okE := c10EqConstTruth(conds, ch, esc)
		return okS && okE && !inSeq && !isEsc
	}
	// the start byte: a phi chain fed by the current byte index exactly when count == start
	var sb *ssa.Phi
	for _, ins := range hdr.Instrs {
		if ph, ok := ins.(*ssa.Phi); ok && ph != cnt && ph != st && c10IsInt(ph.Type()) {
			sb = ph
		}
	}
	startOK := sb != nil
	nSet := 0
	if sb != nil {
		seen := map[*ssa.Phi]bool{}
		var rec func(ph *ssa.Phi)
		rec = func(ph *ssa.Phi) {
			if seen[ph] {
				return
			}
			seen[ph] = true
			for k, e := range ph.Edges {
				switch {
				case e == ssa.Value(sb) || e == ssa.Value(ph):
				case e == byteIdx:
					nSet++
					conds := c10EdgeConds(ph.Block().Preds[k], ph.Block())
					if !visible(conds) || !c10FactsExact(c10CondFacts(env, conds), fw.Cmp{P: cP.Sub(start), Rel: fw.EQ}) {
						startOK = false
					}
				default:
					if q, ok := e.(*ssa.Phi); ok {
						rec(q)
					} else if _, ok := c10ConstInt(e); !ok || hdr.Dominates(ph.Block().Preds[k]) {
						startOK = false
					}
				}
			}
		}
		rec(sb)
	}
	ru.Check(startOK && nSet >= 1, key+":start", at, "the cut starts at the byte index of visible character #start", "ansi.Slice does not record the byte index of the current character exactly when the visible count equals start (outside a sequence): the kept part starts at another character")
	// the cut: return s[startByte : byteIdx] (+ reset) exactly when count == stop at a visible character
	nCut, cutOK := 0, true
	for _, rt := range c10Returns(fn) {
		if len(rt.Results) != 1 {
			continue
		}
		var sl *ssa.Slice
		for _, part := range c10ConcatParts(rt.Results[0]) {
			if s, ok := part.(*ssa.Slice); ok && s.X == ssa.Value(fn.Params[0]) {
				sl = s
			}
		}
		if sl == nil || sl.High == nil {
			continue
		}
		nCut++
		conds := c10RefineConds(c10Conds(rt.Block()))
		if sl.High != byteIdx || c10Strip(sl.Low) != ssa.Value(sb) || !visible(conds) || !c10FactsExact(c10CondFacts(env, conds), fw.Cmp{P: cP.Sub(stop), Rel: fw.EQ}) {
			cutOK = false
		}
	}
	ru.Check(cutOK && nCut >= 1, key+":cut", at, "the cut ends before visible character #stop", "ansi.Slice does not return s[startByte : byte index of the current character] exactly when the visible count equals stop (outside a sequence): a cell cut to the column width keeps one character too many or too few")
}

// ---------------------------------------------------------------------------
// C10.bits (second round): DigitsInBase

// c10DigitsFn: DigitsInBase(n, prefix, base) is len(prefix of base) (iff prefix) + 1 + floor(log(n)/log(base)),
// and len(prefix)+1 for n == 0 (or the exact len(strconv.Format*(n, base)) form).
func c10DigitsFn(ru *fw.Rule, p *fw.Program) {
	insts := c10FnInstances(p, c10Digits)
	if len(insts) == 0 {
		ru.Undecided("digits:fn", "", "mathx.DigitsInBase has no instance with a body")
		return
	}
	isLogOf := func(v ssa.Value, prm *ssa.Parameter) bool {
		c, ok := v.(*ssa.Call)
		if !ok || fw.CalleeName(c) != "math.Log" {
			return false
		}
		cv, ok := c.Call.Args[0].(*ssa.Convert)
		return ok && cv.X == ssa.Value(prm)
	}
	for _, fn := range insts {
		key := "digits:fn:" + strings.TrimPrefix(fw.ShortFn(fn), "internal/mathx.")
		at := p.Rel(fn.Pos())
		if len(fn.Params) != 3 {
			ru.Undecided(key, at, "DigitsInBase(n, basePrefix, base) shape not recognised")
			continue
		}
		n, pfx, base := fn.Params[0], fn.Params[1], fn.Params[2]
		// prefix length: phi{0, len(BasePrefixMap[base])} with the lookup only under basePrefix
		prefixOK := func(v ssa.Value) bool {
			sawLen := false
			for _, lf := range c10PhiLeaves(v) {
				if z, ok := c10ConstInt(lf.V); ok && z == 0 {
					continue
				}
				lc, ok := lf.V.(*ssa.Call)
				if !ok || !fw.IsBuiltinCall(lc, "len") {
					return false
				}
				lk, ok := lc.Call.Args[0].(*ssa.Lookup)
				if !ok || lk.Index != ssa.Value(base) {
					return false
				}
				if ld, ok := lk.X.(*ssa.UnOp); !ok || ld.Op != token.MUL {
					return false
				} else if g, ok := ld.X.(*ssa.Global); !ok || g.Name() != "BasePrefixMap" {
					return false
				}
				t, known := c10CondTruth(c10Conds(lc.Block()), pfx)
				if !known || !t {
					return false
				}
				sawLen = true
			}
			return sawLen
		}
		good, why := true, ""
		nZero, nLog := 0, 0
		for _, rt := range c10Returns(fn) {
			bo, ok := rt.Results[0].(*ssa.BinOp)
			if !ok || bo.Op != token.ADD {
				good, why = false, "a result is not prefixLen + digits"
				continue
			}
			pl, dg := bo.X, bo.Y
			if !prefixOK(pl) {
				pl, dg = dg, pl
			}
			if !prefixOK(pl) {
				good, why = false, "the prefix part is not len(BasePrefixMap[base]) iff basePrefix, else 0"
				continue
			}
			if one, ok := c10ConstInt(dg); ok {
				isZero, known := c10EqConstTruth(c10Conds(rt.Block()), n, 0)
				if one != 1 || !known || !isZero {
					good, why = false, "a constant digit count other than 1 for n == 0"
				}
				nZero++
				continue
			}
			// int(1 + floor(log(n)/log(base)))   or   len(strconv.Format*(n, base))
			if lc, ok := dg.(*ssa.Call); ok && fw.IsBuiltinCall(lc, "len") {
				fc, ok := lc.Call.Args[0].(*ssa.Call)
				if ok && (fw.CalleeName(fc) == "strconv.FormatInt" || fw.CalleeName(fc) == "strconv.FormatUint") && c10Strip(fc.Call.Args[0]) == ssa.Value(n) && c10Strip(fc.Call.Args[1]) == ssa.Value(base) {
					nLog++
					continue
				}
			}
			cv, ok := dg.(*ssa.Convert)
			shape := false
			if ok {
				if add, ok := cv.X.(*ssa.BinOp); ok && add.Op == token.ADD {
					fl, k := add.Y, add.X
					if _, isC := k.(*ssa.Const); !isC {
						fl, k = k, fl
					}
					if kc, ok := k.(*ssa.Const); ok && kc.Value != nil && kc.Value.ExactString() == "1" {
						if fc, ok := fl.(*ssa.Call); ok && fw.CalleeName(fc) == "math.Floor" {
							if q, ok := fc.Call.Args[0].(*ssa.BinOp); ok && q.Op == token.QUO && isLogOf(q.X, n) && isLogOf(q.Y, base) {
								shape = true
							}
						}
					}
				}
			}
			if !shape {
				good, why = false, "the digit count is not 1 + floor(log(n)/log(base))"
				continue
			}
			nLog++
		}
		ru.Check(good && nLog >= 1, key, at, "prefix length (iff basePrefix) + 1 + floor(log_base(n)), 1 digit for n == 0", "DigitsInBase: "+why+" — the address column is sized narrower than the addresses printed into it and FlushLine cuts their last digits")
		_ = nZero
	}
}

// ---------------------------------------------------------------------------
// C10.json (second round): string escaping and separators

var c10JSONEscapes = map[int64]string{'"': `\"`, '\\': `\\`, '\b': `\b`, '\f': `\f`, '\n': `\n`, '\r': `\r`, '\t': `\t`}

func c10JSONStringRules(ru *fw.Rule, p *fw.Program) {
	es := p.Fn("(*internal/colorjson.Encoder).encodeString")
	if es == nil || es.Blocks == nil || len(es.Params) < 2 {
		ru.Undecided("string:anchor", "", "colorjson.(*Encoder).encodeString not found")
		return
	}
	at := p.Rel(es.Pos())
	env := c10Env(es, true)
	s := es.Params[1]
	// b := s[i]
	var lk ssa.Instruction
	var iPhi *ssa.Phi
	fw.EachInstr(es, func(ins ssa.Instruction) {
		var x, ix ssa.Value
		switch l := ins.(type) {
		case *ssa.Lookup:
			if !l.CommaOk {
				x, ix = l.X, l.Index
			}
		case *ssa.Index:
			x, ix = l.X, l.Index
		}
		if ph, isPhi := ix.(*ssa.Phi); isPhi && x == ssa.Value(s) {
			lk, iPhi = ins, ph
		}
	})
	if lk == nil {
		ru.Undecided("string:raw", at, "no byte load s[i] with a loop variable i")
		return
	}
	hdr := iPhi.Block()
	var startPhi *ssa.Phi
	fw.EachInstr(es, func(ins ssa.Instruction) {
		if sl, ok := ins.(*ssa.Slice); ok && sl.X == ssa.Value(s) && sl.High == ssa.Value(iPhi) {
			if ph, ok := sl.Low.(*ssa.Phi); ok && ph.Block() == hdr {
				startPhi = ph
			}
		}
	})
	if startPhi == nil {
		ru.Undecided("string:raw", at, "no pending segment s[start:i] written before an escape")
		return
	}
	b := lk.(ssa.Value)
	bP := env.Of(b)
	iP := env.Of(iPhi)
	// arms: b == K  =>  WriteString(const)
	nArms, armsBad := 0, ""
	isBufWrite := func(ins ssa.Instruction) (string, bool, bool) { // const text, isConstText, isWrite
		c, ok := ins.(*ssa.Call)
		if !ok {
			return "", false, false
		}
		switch fw.CalleeName(c) {
		case "(*bytes.Buffer).WriteString":
			t, isC := c10ConstStr(c.Call.Args[1])
			return t, isC, true
		case "(*bytes.Buffer).WriteByte", "(*bytes.Buffer).WriteRune", "(*bytes.Buffer).Write":
			return "", false, true
		}
		return "", false, false
	}
	fw.EachInstr(es, func(ins ssa.Instruction) {
		ifi, ok := ins.(*ssa.If)
		if !ok {
			return
		}
		cm, ok := ifi.Cond.(*ssa.BinOp)
		if !ok || cm.Op != token.EQL || c10Strip(cm.X) != b {
			return
		}
		k, ok := c10ConstInt(cm.Y)
		if !ok {
			return
		}
		arm := ifi.Block().Succs[0]
		if len(arm.Preds) != 1 {
			return
		}
		for _, x := range arm.Instrs {
			if t, isC, isW := isBufWrite(x); isW && isC {
				nArms++
				if want, known := c10JSONEscapes[k]; !known || t != want {
					armsBad = fmt.Sprintf("byte %d is written as %q", k, t)
				}
			}
		}
	})
	if nArms == 0 {
		ru.Undecided("string:escapes", at, "no escape arms of the form `case K: WriteString(const)` found")
	} else {
		ru.Check(armsBad == "", "string:escapes", at, fmt.Sprintf("%d escape arms write the JSON escape of their byte", nArms), "encodeString: "+armsBad+", which is not the JSON two-character escape of that byte: the output is not the string")
	}
	// raw bytes: loop edges that keep `start`
	bad := ""
	nRaw := 0
	for k, pred := range hdr.Preds {
		if !hdr.Dominates(pred) {
			continue
		}
		sE, iE := startPhi.Edges[k], iPhi.Edges[k]
		if sE == iE {
			continue // flushed up to the new i
		}
		if sE != ssa.Value(startPhi) {
			bad = "start is set to " + env.Of(sE).String() + " while i becomes " + env.Of(iE).String()
			continue
		}
		facts := c10CondFacts(env, c10EdgeConds(pred, hdr))
		step := env.Of(iE).Sub(iP)
		if one, isC := step.IsConst(); isC && one == 1 {
			nRaw++
			for _, q := range []fw.Cmp{
				{P: bP.Sub(fw.PConst(0x20)), Rel: fw.GE},
				{P: bP.Sub(fw.PConst('"')), Rel: fw.NE},
				{P: bP.Sub(fw.PConst('\\')), Rel: fw.NE},
				{P: bP.Sub(fw.PConst(0x80)), Rel: fw.LT},
			} {
				if !c10FactsHold(facts, q) {
					bad = "a byte is passed over unescaped without " + q.String() + " (b = " + bP.String() + ")"
				}
			}
			continue
		}
		// multi-byte character: only for b >= 0x80, by the decoded size
		sizeOK := false
		if bo, ok := iE.(*ssa.BinOp); ok && bo.Op == token.ADD && bo.X == ssa.Value(iPhi) {
			if ex, ok := bo.Y.(*ssa.Extract); ok && ex.Index == 1 {
				if c, ok := ex.Tuple.(*ssa.Call); ok && fw.CalleeName(c) == "unicode/utf8.DecodeRuneInString" {
					if sl, ok := c.Call.Args[0].(*ssa.Slice); ok && sl.X == ssa.Value(s) && sl.Low == ssa.Value(iPhi) && sl.High == nil {
						sizeOK = true
					}
				}
			}
		}
		if !sizeOK || !c10FactsHold(facts, fw.Cmp{P: bP.Sub(fw.PConst(0x80)), Rel: fw.GE}) {
			bad = "i advances by " + step.String() + " without flushing, not by the size of the character decoded at s[i:] under b >= 0x80"
		}
	}
	ru.Check(bad == "" && nRaw >= 1, "string:raw", at, "bytes stay unescaped only if 0x20 <= b < 0x80, b != '\"', b != '\\\\' (or as whole decoded multi-byte characters)", "encodeString: "+bad+": quotes, backslashes or control characters reach the output raw (invalid JSON) or characters are emitted twice")
	// every escaped byte writes something: a path from the byte load to a flushed back edge passes a write other than the pending segment
	type stt struct {
		b *ssa.BasicBlock
		w bool
	}
	seen := map[stt]bool{}
	dropped := false
	var walk func(bl *ssa.BasicBlock, i int, w bool)
	walk = func(bl *ssa.BasicBlock, i int, w bool) {
		for ; i < len(bl.Instrs); i++ {
			ins := bl.Instrs[i]
			if c, ok := ins.(*ssa.Call); ok {
				if _, _, isW := isBufWrite(c); isW {
					seg := false
					if fw.CalleeName(c) == "(*bytes.Buffer).WriteString" {
						if sl, ok := c.Call.Args[1].(*ssa.Slice); ok && sl.X == ssa.Value(s) {
							seg = true
						}
					}
					if !seg {
						w = true
					}
				}
			}
		}
		for _, sc := range bl.Succs {
			if sc == hdr {
				for k, pred := range hdr.Preds {
					if pred == bl && startPhi.Edges[k] == iPhi.Edges[k] && !w {
						dropped = true
					}
				}
				continue
			}
			if !hdr.Dominates(sc) || seen[stt{sc, w}] {
				continue
			}
			seen[stt{sc, w}] = true
			walk(sc, 0, w)
		}
	}
	walk(lk.Block(), c10InstrIndex(lk)+1, false)
	ru.Check(!dropped, "string:dropped", at, "every byte taken out of the raw segment is replaced by an escape", "encodeString has a path that skips a byte (start moves past it) without writing an escape for it: the character is missing from the output")
}

// c10JSONSeparators: encodeArray / encodeMap write '[' ... ']' / '{' ... '}', a ',' before every
// element but the first, and ':' between key and value.
func c10JSONSeparators(ru *fw.Rule, p *fw.Program) {
	enc := p.Fn("(*internal/colorjson.Encoder).encode")
	for _, w := range []struct {
		name        string
		open, close int64
		isMap       bool
	}{{"encodeArray", '[', ']', false}, {"encodeMap", '{', '}', true}} {
		fn := p.Fn("(*internal/colorjson.Encoder)." + w.name)
		key := "sep:" + w.name
		if fn == nil || fn.Blocks == nil || enc == nil {
			ru.Undecided(key, "", "colorjson.(*Encoder)."+w.name+" not found")
			continue
		}
		at := p.Rel(fn.Pos())
		env := c10Env(fn, true)
		// constant bytes written through writeByte / WriteByte
		byteCalls := map[int64][]*ssa.Call{}
		fw.EachInstr(fn, func(ins ssa.Instruction) {
			c, ok := ins.(*ssa.Call)
			if !ok || c.Call.StaticCallee() == nil || len(c.Call.Args) < 2 {
				return
			}
			n := c.Call.StaticCallee().Name()
			if n != "writeByte" && n != "WriteByte" {
				return
			}
			if k, ok := c10ConstInt(c.Call.Args[1]); ok {
				byteCalls[k] = append(byteCalls[k], c)
			}
		})
		// the element encode call in a loop
		var ec *ssa.Call
		for _, c := range c10CallsTo(fn, enc.String()) {
			if c.Parent() == fn && c10InLoop(c.Block()) {
				ec = c
			}
		}
		if ec == nil {
			ru.Undecided(key, at, "no loop encoding the elements")
			continue
		}
		// loop header: the innermost loop block dominating ec with a back edge
		var hdr *ssa.BasicBlock
		for d := ec.Block(); d != nil; d = d.Idom() {
			for _, pr := range d.Preds {
				if d.Dominates(pr) && c10Reaches(ec.Block(), pr) {
					hdr = d
				}
			}
			if hdr != nil {
				break
			}
		}
		bad := ""
		one := func(k int64) *ssa.Call {
			if len(byteCalls[k]) != 1 {
				bad = fmt.Sprintf("%q is written at %d places (expected 1)", rune(k), len(byteCalls[k]))
				return nil
			}
			return byteCalls[k][0]
		}
		op, cl, comma := one(w.open), one(w.close), one(',')
		if hdr == nil {
			bad = "element loop header not found"
		}
		if bad == "" {
			if !op.Block().Dominates(hdr) || c10InLoop(op.Block()) {
				bad = "the opening bracket is not written once before the elements"
			}
			for _, rt := range c10Returns(fn) {
				if !c10IsErrorReturn(rt) && !cl.Block().Dominates(rt.Block()) {
					bad = "the closing bracket is not written before every normal return"
				}
			}
			if c10InLoop(cl.Block()) || !c10Reaches(hdr, cl.Block()) {
				bad = "the closing bracket is not written once after the elements"
			}
			// comma: exactly when the element index > 0, before the element
			var idx ssa.Value
			fw.EachInstr(fn, func(ins ssa.Instruction) {
				if ia, ok := ins.(*ssa.IndexAddr); ok && hdr.Dominates(ia.Block()) && ia.Block().Dominates(ec.Block()) {
					if _, isC := ia.Index.(*ssa.Const); !isC {
						idx = ia.Index
					}
				}
			})
			if idx == nil {
				bad = "element index not found"
			} else {
				q := env.Of(idx)
				facts := c10CondFacts(env, c10Conds(comma.Block()))
				if !(c10FactsExact(facts, fw.Cmp{P: q, Rel: fw.GT}) || c10FactsExact(facts, fw.Cmp{P: q, Rel: fw.NE})) || !hdr.Dominates(comma.Block()) {
					bad = "the ',' is not written exactly when the element index is > 0"
				} else if !c10ReachesAvoiding(comma.Block(), ec.Block(), hdr) || c10ReachesAvoiding(ec.Block(), comma.Block(), hdr) {
					bad = "the ',' is not written before the element within the iteration"
				}
			}
		}
		if bad == "" && w.isMap {
			colon := one(':')
			var kc *ssa.Call
			for _, c := range c10CallsTo(fn, "(*"+fw.Mod+"/internal/colorjson.Encoder).encodeString") {
				if c.Parent() == fn && hdr.Dominates(c.Block()) {
					kc = c
				}
			}
			switch {
			case colon == nil:
			case kc == nil:
				bad = "the key is not written with encodeString"
			case !(kc.Block().Dominates(colon.Block()) && (kc.Block() != colon.Block() || c10InstrIndex(kc) < c10InstrIndex(colon))):
				bad = "the ':' does not follow the key"
			case !(colon.Block().Dominates(ec.Block()) && (colon.Block() != ec.Block() || c10InstrIndex(colon) < c10InstrIndex(ec))):
				bad = "the ':' is not written before every value"
			case !hdr.Dominates(kc.Block()) || !kc.Block().Dominates(ec.Block()):
				bad = "the key is not written before every value"
			}
		}
		ru.Check(bad == "", key, at, fmt.Sprintf("%q elements separated by ',' (index > 0)%s %q", rune(w.open), map[bool]string{true: ", key ':' value,", false: ""}[w.isMap], rune(w.close)), w.name+": "+bad+": the output is not valid JSON")
	}
}

// ---------------------------------------------------------------------------
// C10.dump.range (second round)

// c10DumpEndMark: once the hex and ascii writers are fed, a character printed into their columns
// sits in the cell of the byte after the last displayed one. Apart from the truncation marker (its
// own rows) this is only true to the input where no such byte exists: the last displayed byte is the
// root buffer's last byte (bitLen-1)/8.
func c10DumpEndMark(ru *fw.Rule, d *c10Dumper, untilCall *ssa.Call) {
	p, env := d.p, d.env
	hk, hok := c10ColumnIndex(d.H.Call.Args[0])
	ak, aok := c10ColumnIndex(d.A.Call.Args[0])
	if !hok || !aok || d.total == nil || d.E == nil {
		ru.Undecided("endmark:cond", p.Rel(d.fn.Pos()), "hex/ascii column indices, the root buffer's bit length or the last displayed byte are not resolved")
		return
	}
	lastByte := c10QuoAtom(d.total.Sub(fw.PConst(1)), fw.PConst(8))
	fed := d.A.Block()
	if d.H.Block().Dominates(fed) {
		// the later of the two writer constructions
	} else {
		fed = d.H.Block()
	}
	n, bad := 0, ""
	var at ssa.Instruction
	fw.EachInstr(d.fn, func(ins ssa.Instruction) {
		c, ok := ins.(*ssa.Call)
		if !ok || c.Call.IsInvoke() || len(c.Call.Args) < 1 {
			return
		}
		// a call of a print closure of the dumper with a constant column
		isClosure := c10LocalClosure(c.Call.Value, d.fn)
		k, isC := c10ConstInt(c.Call.Args[0])
		if !isClosure || !isC || (k != hk && k != ak) {
			return
		}
		if !fed.Dominates(c.Block()) || c.Block() == fed || untilCall.Block().Dominates(c.Block()) || c.Block() == untilCall.Block() {
			return
		}
		n++
		if at == nil {
			at = c
		}
		if !c10Holds(env, c.Block(), fw.Cmp{P: d.E.Sub(lastByte), Rel: fw.EQ}) {
			bad = c10FactsString(env, c.Block())
		}
	})
	if n == 0 {
		ru.Ok("endmark:none", p.Rel(d.fn.Pos()), "nothing but the bytes and the truncation marker is printed into the hex/ascii columns")
		return
	}
	ru.Check(bad == "", "endmark:cond", p.Rel(at.Pos()), fmt.Sprintf("%d prints after the bytes into the hex/ascii columns, all where the last displayed byte is the buffer's last byte", n),
		"a character is printed into the hex/ascii column right after the displayed bytes without the guard (last displayed byte == (bitLen(root buffer)-1)/8); known there: "+bad+": it stands in the cell of an input byte that exists and is not that character (and claims the buffer ends there)")
}

// c10LocalClosure: v is a closure of parent (directly, or loaded from the local variable it was assigned to once).
func c10LocalClosure(v ssa.Value, parent *ssa.Function) bool {
	switch x := v.(type) {
	case *ssa.MakeClosure:
		f, ok := x.Fn.(*ssa.Function)
		return ok && f.Parent() == parent
	case *ssa.Function:
		return x.Parent() == parent
	case *ssa.UnOp:
		al, ok := x.X.(*ssa.Alloc)
		if x.Op != token.MUL || !ok || al.Referrers() == nil {
			return false
		}
		n, good := 0, false
		for _, rf := range *al.Referrers() {
			if st, ok := rf.(*ssa.Store); ok && st.Addr == ssa.Value(al) {
				n++
				good = c10LocalClosure(st.Val, parent)
			}
		}
		return n == 1 && good
	}
	return false
}

// c10WriterGrow: a Write that replaces its line buffer (growth for long cell texts) keeps what is
// already buffered for the row: the new buffer is append(old, ..) or receives copy(new, old) with
// the old prefix; it is taken whenever the old one has no room for the cell text (plus the byte that
// may be put after it) and the new length has that room. A writer that never replaces its buffer
// has nothing to keep (no obligation).
func c10WriterGrow(ru *fw.Rule, p *fw.Program, k string, wr *ssa.Function, rcv ssa.Value, env *fw.PolyEnv, cell, cp *ssa.Call, src ssa.Value, bufF, offF int, puts bool, recvField func(ssa.Value) int, fname func(int) string) {
	pos := func(i ssa.Instruction) string { return p.Rel(i.Pos()) }
	bo := fw.PAtom("recv." + fname(offF))
	before := func(a, b ssa.Instruction) bool { // a executes before b on every path to b
		if a.Block() == b.Block() {
			return c10InstrIndex(a) < c10InstrIndex(b)
		}
		return a.Block().Dominates(b.Block())
	}
	// old prefix: a load of the buffer field, or its slice [0:hi] with hi absent or the fill position / its length
	oldPrefix := func(v ssa.Value) (ssa.Instruction, bool) {
		v = c10Strip(v)
		if sl, ok := v.(*ssa.Slice); ok {
			if sl.Low != nil {
				if z, isC := c10ConstInt(sl.Low); !isC || z != 0 {
					return nil, false
				}
			}
			if sl.High != nil {
				hi := env.Of(sl.High)
				isLen := false
				if lc, ok := c10Strip(sl.High).(*ssa.Call); ok && fw.IsBuiltinCall(lc, "len") && recvField(lc.Call.Args[0]) == bufF {
					isLen = true
				}
				if !hi.Equal(bo) && !isLen {
					return nil, false
				}
			}
			v = sl.X
		}
		if recvField(v) != bufF {
			return nil, false
		}
		ld, _ := v.(ssa.Instruction)
		return ld, ld != nil
	}
	var stores []*ssa.Store
	fw.EachInstr(wr, func(ins ssa.Instruction) {
		if _, ok := c10RecvFieldStore(ins, rcv, bufF); ok {
			stores = append(stores, ins.(*ssa.Store))
		}
	})
	if len(stores) == 0 {
		return
	}
	// the lengths involved
	var lenBuf, lenSrc *fw.Poly
	fw.EachInstr(wr, func(ins ssa.Instruction) {
		lc, ok := ins.(*ssa.Call)
		if !ok || !fw.IsBuiltinCall(lc, "len") {
			return
		}
		if recvField(lc.Call.Args[0]) == bufF && lenBuf == nil {
			lenBuf = fw.StripVersions(env.Of(lc))
		}
		if (lc.Call.Args[0] == src || lc.Call.Args[0] == ssa.Value(cell)) && lenSrc == nil {
			lenSrc = fw.StripVersions(env.Of(lc))
		}
	})
	for i, st := range stores {
		keyK, keyR := fmt.Sprintf("%sbuf:grow:keep#%d", k, i), fmt.Sprintf("%sbuf:grow:room#%d", k, i)
		v := c10Strip(st.Val)
		// --- keep
		keep := false
		var newLen *fw.Poly
		mkLen := func(x ssa.Value) *fw.Poly {
			if ms, ok := c10Strip(x).(*ssa.MakeSlice); ok {
				return fw.StripVersions(env.Of(ms.Len))
			}
			return nil
		}
		if ac, ok := v.(*ssa.Call); ok && fw.IsBuiltinCall(ac, "append") && len(ac.Call.Args) == 2 {
			if ld, ok := oldPrefix(ac.Call.Args[0]); ok && before(ld, st) {
				if _, sliced := c10Strip(ac.Call.Args[0]).(*ssa.Slice); !sliced {
					keep = true
					if n := mkLen(ac.Call.Args[1]); n != nil && lenBuf != nil {
						newLen = lenBuf.Add(n)
					}
				}
			}
		} else {
			newLen = mkLen(v)
			fw.EachInstr(wr, func(ins ssa.Instruction) {
				c, ok := ins.(*ssa.Call)
				if !ok || !fw.IsBuiltinCall(c, "copy") || len(c.Call.Args) != 2 || c == cp {
					return
				}
				ld, okOld := oldPrefix(c.Call.Args[1])
				if !okOld || !before(ld, st) {
					return
				}
				dst := c10Strip(c.Call.Args[0])
				if sl, ok := dst.(*ssa.Slice); ok && sl.Low == nil {
					dst = c10Strip(sl.X)
				}
				switch {
				case dst == v && before(c, st):
					keep = true
				case dst == v && before(st, c) && !cp.Block().Dominates(c.Block()):
					keep = true
				case recvField(dst) == bufF && before(st, c) && !cp.Block().Dominates(c.Block()):
					if dl, ok := dst.(ssa.Instruction); ok && before(st, dl) {
						keep = true
					}
				}
			})
		}
		ru.Check(keep, keyK, pos(st), "the replacement line buffer starts with the old one's contents (append(old, ..) or copy(new, old))", "Write replaces its line buffer by "+c10NoStoreSuffix(env.Of(st.Val).String())+" without carrying over the bytes already buffered for the row (neither append(old buffer, ..) nor copy(new, old buffer) before the next cell): the cells buffered so far are lost, the row shows fewer (or zero) bytes than the address rows and the ascii column announce")
		// --- room
		if lenBuf == nil || lenSrc == nil {
			ru.Undecided(keyR, pos(st), "len(line buffer) / len(cell text) not found")
			continue
		}
		required := bo.Add(lenSrc)
		if puts {
			required = required.Add(fw.PConst(1))
		}
		why := ""
		// skipped only when there is room: the negation of the guard of the growth implies len(buf) >= required
		guarded := false
		for d := st.Block(); d != nil && !guarded; d = d.Idom() {
			id := d.Idom()
			if id == nil || !cell.Block().Dominates(id) {
				break
			}
			ifi, ok := id.Instrs[len(id.Instrs)-1].(*ssa.If)
			if !ok || len(id.Succs) != 2 {
				continue
			}
			// the edge that bypasses the growth
			for si, sc := range id.Succs {
				if sc.Dominates(st.Block()) && len(sc.Preds) == 1 {
					continue
				}
				for _, f := range c10CondFacts(env, []c10Cond{{ifi.Cond, si == 0}}) {
					f.P = fw.StripVersions(f.P)
					if f.Implies(fw.Cmp{P: lenBuf.Sub(required), Rel: fw.GE}) {
						guarded = true
					}
				}
			}
		}
		if !guarded {
			why = "the growth is not taken whenever len(buffer) < " + required.String()
		}
		if newLen == nil {
			why = "the new buffer's length is not derivable"
		} else {
			for m, c := range newLen.Sub(required).T {
				if c.Sign() < 0 {
					why = "the new length " + newLen.String() + " can be below " + required.String() + " (term " + m + ")"
				}
			}
		}
		ru.Check(why == "", keyR, pos(st), "the buffer is replaced whenever it lacks room for fill position + cell text (+1) and the new length has it", "line buffer growth: "+why+": the cell text is copied truncated (copy stops at the buffer's end) or the write panics instead of showing the bytes")
	}
}
