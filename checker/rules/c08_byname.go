package rules

import (
	"strings"

	"fqverif/fw"
)

// C08.byname / C08.bynameadd / C08.bynameown: the struct wrapper answers has(k) and .k from Compound.ByName
// but keys, length, iteration and tovalue from Compound.Children (C08.iface checks each side). The two views
// are the same set of fields only if every mutation of the tree keeps the name index and the child list
// together. Those obligations are C03's (tree shape); they are borrowed here because breaking them breaks
// "v | q == v | tovalue | q" for q in {has, .name} vs {keys, length, .[]}.
func (c *c08ctx) ruleByName() {
	sc := c.r.Scratch()
	runC03(sc, c.p)
	c.r.Import(sc, "C03.byname", "C08.byname",
		"every insert into / delete from Compound.ByName is keyed by the Name of the very value inserted / removed; Value.Remove rewrites Children without exactly the removed value and, on every struct path, deletes its ByName entry: has(k)/.k (name index) and keys/length/.[]/tovalue (child list) of a decoded struct keep describing the same fields (C03.byname obligations)", 6, nil)
	c.r.Import(sc, "C03.addchild", "C08.bynameadd",
		"AddChild appends to Children and, on every struct path, inserts ByName[v.Name] = v behind a duplicate-name test that never continues; ByName is created only while nil: every child keys/length show is found by has(k)/.k and no name is filed twice (C03.addchild obligations)", 7, nil)
	c.r.Import(sc, "C03.own", "C08.bynameown",
		"Compound.Children and Compound.ByName are written only by the functions the two rules above check (AddChild, Remove; postProcess's stable sort and newDecoder's fresh compound): no other code can make the name index and the child list of a struct disagree (C03.own obligations for these two fields)", 7,
		func(key string) bool {
			return strings.HasPrefix(key, "Compound.Children|") || strings.HasPrefix(key, "Compound.ByName|")
		})
}

var _ = fw.Mod
