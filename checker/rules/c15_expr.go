package rules

// C15 support: a small symbolic normal form for the values decoders pass to the decode.D API
// (lengths, positions, guards), closure-cell resolution across a function family, and the
// enumeration of decode.D calls of a decoder with a stable context path.
//
// Nothing here looks at source text or positions: values are resolved through SSA operands,
// StaticCallee, MakeClosure bindings and field indices.

import (
	"fmt"
	"go/constant"
	"go/token"
	"go/types"
	"sort"
	"strings"

	"golang.org/x/tools/go/ssa"

	"fqverif/fw"
)

const c15DecodePkg = fw.Mod + "/pkg/decode"

// c15Family is a root function with all its (transitively) nested closures.
type c15Family struct {
	p         *fw.Program
	root      *ssa.Function
	fns       []*ssa.Function
	mc        map[*ssa.Function]*ssa.MakeClosure // closure -> its (unique) MakeClosure
	stores    map[ssa.Value][]*ssa.Store         // cell root (Alloc/Global) -> stores (any field path)
	ctx       map[*ssa.Function]string           // closure -> context path
	memo      map[ssa.Value]string
	busy      map[ssa.Value]bool
	nameSites map[string]map[*ssa.Function]bool
	bind      map[*ssa.Parameter]string    // helper parameters bound to the caller's arguments during a layout walk
	helpers   map[*ssa.Function]*c15Family // families of same-package helpers whose calls are rendered by their result
}

func newC15Family(p *fw.Program, root *ssa.Function) *c15Family {
	f := &c15Family{p: p, root: root, mc: map[*ssa.Function]*ssa.MakeClosure{}, stores: map[ssa.Value][]*ssa.Store{},
		ctx: map[*ssa.Function]string{}, memo: map[ssa.Value]string{}, busy: map[ssa.Value]bool{}}
	f.fns = fw.WithClosures(root)
	for _, fn := range f.fns {
		fw.EachInstr(fn, func(ins ssa.Instruction) {
			if m, ok := ins.(*ssa.MakeClosure); ok {
				if c, ok := m.Fn.(*ssa.Function); ok {
					f.mc[c] = m
				}
			}
		})
	}
	for _, fn := range f.fns {
		fw.EachInstr(fn, func(ins ssa.Instruction) {
			if st, ok := ins.(*ssa.Store); ok {
				if r, _ := f.cellRoot(st.Addr); r != nil {
					f.stores[r] = append(f.stores[r], st)
				}
			}
		})
	}
	f.ctx[root] = fw.ShortFn(root)
	f.nameClosures(root)
	return f
}

// cellRoot resolves an address to (Alloc|Global, field path); FreeVars are mapped to the
// binding of the enclosing MakeClosure.
func (f *c15Family) cellRoot(addr ssa.Value) (ssa.Value, string) {
	switch x := addr.(type) {
	case *ssa.Alloc:
		return x, ""
	case *ssa.Global:
		return x, ""
	case *ssa.FreeVar:
		fn := x.Parent()
		m := f.mc[fn]
		if m == nil {
			return nil, ""
		}
		for i, fv := range fn.FreeVars {
			if fv == x && i < len(m.Bindings) {
				return f.cellRoot(m.Bindings[i])
			}
		}
	case *ssa.FieldAddr:
		r, p := f.cellRoot(x.X)
		if r == nil {
			return nil, ""
		}
		return r, p + "." + fieldNameOf(x.X.Type(), x.Field)
	case *ssa.UnOp:
		// pointer loaded from a cell (e.g. *T stored in a captured variable): not a cell itself
	}
	return nil, ""
}

// nameClosures gives every closure a label used inside expressions: parent label + "/" + the
// constant name of the call it is passed to (or the callee's name and argument index).
func (f *c15Family) nameClosures(fn *ssa.Function) {
	used := map[string]int{}
	named := map[*ssa.Function]bool{}
	give := func(c *ssa.Function, label string) {
		if named[c] {
			return
		}
		named[c] = true
		used[label]++
		if used[label] > 1 {
			label = fmt.Sprintf("%s~%d", label, used[label])
		}
		f.ctx[c] = f.ctx[fn] + "/" + label
	}
	for _, b := range fn.Blocks {
		for _, ins := range b.Instrs {
			call, ok := ins.(ssa.CallInstruction)
			if !ok {
				continue
			}
			cc := call.Common()
			callee := cc.StaticCallee()
			if callee == nil {
				continue
			}
			args := cc.Args
			if callee.Signature.Recv() != nil && len(args) > 0 {
				args = args[1:]
			}
			name := ""
			for _, a := range args {
				if s, ok := constString(a); ok {
					name = s
					break
				}
			}
			for i, a := range args {
				c := closureOf(a)
				if c == nil || c.Parent() != fn {
					continue
				}
				if name != "" {
					give(c, name)
				} else {
					give(c, fmt.Sprintf("%s#%d", callee.Name(), i))
				}
			}
		}
	}
	for _, c := range fn.AnonFuncs {
		give(c, "func")
		f.nameClosures(c)
	}
}

// closureOf returns the function behind a closure value (MakeClosure or a plain function
// literal without captured variables).
func closureOf(v ssa.Value) *ssa.Function {
	switch x := stripConv(v).(type) {
	case *ssa.MakeClosure:
		c, _ := x.Fn.(*ssa.Function)
		return c
	case *ssa.Function:
		return x
	}
	return nil
}

func stripConv(v ssa.Value) ssa.Value {
	for {
		switch x := v.(type) {
		case *ssa.Convert:
			v = x.X
		case *ssa.ChangeType:
			v = x.X
		case *ssa.MakeInterface:
			v = x.X
		case *ssa.ChangeInterface:
			v = x.X
		default:
			return v
		}
	}
}

// isDMethod reports a static call of a method of *decode.D and returns its name.
func isDMethod(c ssa.CallInstruction) (string, bool) {
	callee := c.Common().StaticCallee()
	if callee == nil || callee.Signature.Recv() == nil {
		return "", false
	}
	if fw.FnPkgPath(callee) != c15DecodePkg {
		return "", false
	}
	rt := callee.Signature.Recv().Type()
	if p, ok := rt.(*types.Pointer); ok {
		rt = p.Elem()
	}
	n, ok := rt.(*types.Named)
	if !ok || n.Obj().Name() != "D" {
		return "", false
	}
	return callee.Name(), true
}

// c15Consuming: the D methods that add a field, move the position or open a frame.
func c15Consuming(name string) bool {
	if strings.HasPrefix(name, "FieldValue") || strings.HasPrefix(name, "FieldGet") || strings.HasPrefix(name, "FieldMustGet") {
		return false
	}
	for _, p := range []string{"Field", "TryField", "Seek", "TrySeek", "FramedFn", "LimitedFn", "RangeFn", "AlignBits", "ByteAlignBits"} {
		if strings.HasPrefix(name, p) {
			return true
		}
	}
	// raw scalar readers: U8, S16, Bool, UTF8, RawLen, Bits, Bytes...
	if isRawReaderName(name) {
		return true
	}
	return false
}

func isRawReaderName(name string) bool {
	name = strings.TrimPrefix(name, "Try")
	if name == "Bool" || name == "Bits" || name == "UintBits" || name == "RawLen" || name == "BytesLen" || name == "UTF8" {
		return true
	}
	if len(name) >= 2 && (name[0] == 'U' || name[0] == 'S' || name[0] == 'F') && name[1] >= '0' && name[1] <= '9' {
		return true
	}
	return false
}

// ---------------------------------------------------------------------------
// expression normal form

func (f *c15Family) expr(v ssa.Value) string { return f.poly(v, 0).String() }

func c15Atom(s string) *fw.Poly {
	return fw.PAtom(strings.ReplaceAll(s, "*", "×"))
}

func (f *c15Family) poly(v ssa.Value, depth int) *fw.Poly {
	if depth > 30 {
		return c15Atom("…")
	}
	switch x := v.(type) {
	case *ssa.Const:
		if x.Value != nil && x.Value.Kind() == constant.Int {
			if i, ok := constant.Int64Val(x.Value); ok {
				return fw.PConst(i)
			}
		}
		return c15Atom(f.atom(v, depth))
	case *ssa.Convert:
		if isIntegerT(x.Type()) && isIntegerT(x.X.Type()) {
			return f.poly(x.X, depth+1)
		}
	case *ssa.ChangeType:
		return f.poly(x.X, depth+1)
	case *ssa.BinOp:
		switch x.Op {
		case token.ADD:
			if isIntegerT(x.Type()) {
				return f.poly(x.X, depth+1).Add(f.poly(x.Y, depth+1))
			}
		case token.SUB:
			return f.poly(x.X, depth+1).Sub(f.poly(x.Y, depth+1))
		case token.MUL:
			return f.poly(x.X, depth+1).Mul(f.poly(x.Y, depth+1))
		case token.SHL:
			if c, ok := f.poly(x.Y, depth+1).IsConst(); ok && c >= 0 && c < 62 {
				return f.poly(x.X, depth+1).MulC(1 << uint(c))
			}
		}
	}
	return c15Atom(f.atom(v, depth))
}

func isIntegerT(t types.Type) bool {
	b, ok := t.Underlying().(*types.Basic)
	return ok && b.Info()&types.IsInteger != 0
}

var c15Commut = map[token.Token]bool{token.ADD: true, token.MUL: true, token.AND: true, token.OR: true, token.XOR: true, token.EQL: true, token.NEQ: true}

// atom renders a non-polynomial value.
func (f *c15Family) atom(v ssa.Value, depth int) string {
	if s, ok := f.memo[v]; ok && f.bind == nil {
		return s
	}
	if f.busy[v] {
		return "↺"
	}
	f.busy[v] = true
	s := f.atom1(v, depth+1)
	delete(f.busy, v)
	if !strings.Contains(s, "↺") && f.bind == nil {
		f.memo[v] = s
	}
	return s
}

func (f *c15Family) sub(v ssa.Value, depth int) string { return f.poly(v, depth).String() }

func (f *c15Family) atom1(v ssa.Value, depth int) string {
	if depth > 32 {
		return "…"
	}
	switch x := v.(type) {
	case *ssa.Const:
		if x.Value == nil {
			return "nil"
		}
		return x.Value.ExactString()
	case *ssa.Convert:
		// string -> []byte and the like
		if c, ok := x.X.(*ssa.Const); ok && c.Value != nil && c.Value.Kind() == constant.String {
			return "bytes(" + c.Value.ExactString() + ")"
		}
		return f.sub(x.X, depth)
	case *ssa.ChangeType:
		return f.sub(x.X, depth)
	case *ssa.MakeInterface:
		return f.sub(x.X, depth)
	case *ssa.ChangeInterface:
		return f.sub(x.X, depth)
	case *ssa.Parameter:
		if b, ok := f.bind[x]; ok {
			return b
		}
		for i, p := range x.Parent().Params {
			if p == x {
				return fmt.Sprintf("param%d", i)
			}
		}
		return "param"
	case *ssa.BinOp:
		a, b := paren(f.sub(x.X, depth)), paren(f.sub(x.Y, depth))
		op := x.Op.String()
		if c15Commut[x.Op] && b < a {
			a, b = b, a
		}
		// canonical direction for orderings: a<b, a<=b
		switch x.Op {
		case token.GTR:
			a, b, op = b, a, "<"
		case token.GEQ:
			a, b, op = b, a, "<="
		}
		return "(" + a + op + b + ")"
	case *ssa.UnOp:
		switch x.Op {
		case token.NOT:
			return "!" + f.sub(x.X, depth)
		case token.SUB:
			return "-(" + f.sub(x.X, depth) + ")"
		case token.XOR:
			return "^(" + f.sub(x.X, depth) + ")"
		case token.MUL:
			return f.load(x, depth)
		}
	case *ssa.Phi:
		if len(x.Edges) == 2 {
			for i := 0; i < 2; i++ {
				c, ok := x.Edges[i].(*ssa.Const)
				bo, ok2 := x.Edges[1-i].(*ssa.BinOp)
				if ok && ok2 && bo.Op == token.ADD && bo.X == ssa.Value(x) {
					if k, ok := bo.Y.(*ssa.Const); ok && k.Value != nil && k.Value.ExactString() == "1" && c.Value != nil {
						return "iv(" + c.Value.ExactString() + ")"
					}
				}
			}
		}
		if name, a, b, ok := c15ClampPhi(x); ok {
			// if a > b { a = b }  ==  min(a, b): rendered like the builtin (operands sorted)
			as := []string{f.sub(a, depth), f.sub(b, depth)}
			sort.Strings(as)
			return name + "(" + strings.Join(as, ",") + ")"
		}
		// normal form independent of where a chain of phis is entered (the value after a loop is the
		// header phi in a classic loop and a separate exit phi in a rotated one): all phis reachable
		// through phi-only edges form one set; its non-phi incoming values are rendered with every phi
		// of the set standing for "the value so far" (↺). Edges from blocks that never complete
		// (d.Fatalf arms) carry no value.
		var closure []*ssa.Phi
		inSet := map[*ssa.Phi]bool{}
		var leaves []ssa.Value
		var collect func(ph *ssa.Phi)
		collect = func(ph *ssa.Phi) {
			inSet[ph] = true
			closure = append(closure, ph)
			for _, i := range c15LiveEdges(ph) {
				e := ph.Edges[i]
				if q, ok := e.(*ssa.Phi); ok {
					if !inSet[q] {
						collect(q)
					}
					continue
				}
				leaves = append(leaves, e)
			}
		}
		collect(x)
		var was []bool
		for _, ph := range closure {
			was = append(was, f.busy[ph])
			f.busy[ph] = true
		}
		set := map[string]bool{}
		for _, e := range leaves {
			s := f.sub(e, depth)
			if strings.HasPrefix(s, "phi{") && strings.HasSuffix(s, "}") && balanced(s[4:len(s)-1]) {
				for _, part := range splitTop(s[4:len(s)-1], '|') {
					set[part] = true
				}
				continue
			}
			set[s] = true
		}
		for k, ph := range closure {
			if !was[k] && ph != x {
				delete(f.busy, ph)
			}
		}
		delete(set, "↺")
		ks := sortedSet(set)
		if len(ks) == 1 {
			return ks[0]
		}
		return "phi{" + strings.Join(ks, "|") + "}"
	case *ssa.Extract:
		return f.sub(x.Tuple, depth) + fmt.Sprintf("#%d", x.Index)
	case *ssa.Field:
		return f.sub(x.X, depth) + "." + fieldNameOf(x.X.Type(), x.Field)
	case *ssa.Call:
		return f.call(x, depth)
	case *ssa.Function:
		if s, ok := f.ctx[x]; ok && x.Parent() != nil {
			return "closure(" + s + ")"
		}
		return fw.ShortFn(x)
	case *ssa.MakeClosure:
		if c, ok := x.Fn.(*ssa.Function); ok {
			if s, ok := f.ctx[c]; ok {
				return "closure(" + s + ")"
			}
			return "closure(" + fw.ShortFn(c) + ")"
		}
	case *ssa.Global:
		return f.global(x, depth)
	case *ssa.Alloc:
		return "&local"
	case *ssa.FieldAddr:
		if r, p := f.cellRoot(x); r != nil {
			if g, ok := r.(*ssa.Global); ok {
				return "&" + g.Pkg.Pkg.Name() + "." + g.Name() + p
			}
			return "&local" + p
		}
		return "&(" + f.sub(x.X, depth) + ")." + fieldNameOf(x.X.Type(), x.Field)
	case *ssa.Slice:
		if els, ok := variadicElems(x); ok {
			var out []string
			for _, e := range els {
				out = append(out, f.sub(e, depth))
			}
			return "[" + strings.Join(out, ",") + "]"
		}
		s := f.sub(x.X, depth) + "["
		if x.Low != nil {
			s += f.sub(x.Low, depth)
		}
		s += ":"
		if x.High != nil {
			s += f.sub(x.High, depth)
		}
		return s + "]"
	case *ssa.IndexAddr:
		return "&" + f.sub(x.X, depth) + "[" + f.sub(x.Index, depth) + "]"
	case *ssa.Index:
		return f.sub(x.X, depth) + "[" + f.sub(x.Index, depth) + "]"
	case *ssa.Lookup:
		return f.sub(x.X, depth) + "[" + f.sub(x.Index, depth) + "]"
	case *ssa.TypeAssert:
		return f.sub(x.X, depth) + ".(" + shortType(x.AssertedType) + ")"
	case *ssa.FreeVar:
		if r, _ := f.cellRoot(x); r != nil {
			return "&local"
		}
		return "freevar"
	case *ssa.Range, *ssa.Next:
		return "range"
	}
	return "?" + fmt.Sprintf("%T", v)
}

func paren(s string) string {
	if strings.Contains(s, " + ") {
		return "(" + s + ")"
	}
	return s
}

func balanced(s string) bool {
	d := 0
	for _, c := range s {
		switch c {
		case '{', '(', '[':
			d++
		case '}', ')', ']':
			d--
			if d < 0 {
				return false
			}
		}
	}
	return d == 0
}

func splitTop(s string, sep rune) []string {
	var out []string
	d, start := 0, 0
	for i, c := range s {
		switch c {
		case '{', '(', '[':
			d++
		case '}', ')', ']':
			d--
		default:
			if c == sep && d == 0 {
				out = append(out, s[start:i])
				start = i + len(string(sep))
			}
		}
	}
	return append(out, s[start:])
}

func sortedSet(m map[string]bool) []string {
	var out []string
	for k := range m {
		out = append(out, k)
	}
	sort.Strings(out)
	return out
}

// load renders *addr: closure cells and locals are replaced by the set of values stored to them
// anywhere in the family (zero-value initialisers are dropped when another store exists).
func (f *c15Family) load(x *ssa.UnOp, depth int) string {
	root, path := f.cellRoot(x.X)
	if root == nil {
		// pointer-typed value: field of a struct pointer etc.
		switch a := x.X.(type) {
		case *ssa.FieldAddr:
			return f.sub(a.X, depth) + "." + fieldNameOf(a.X.Type(), a.Field)
		case *ssa.IndexAddr:
			idx := f.sub(a.Index, depth)
			if strings.Contains(idx, "iv(") || strings.Contains(idx, "phi{") || strings.Contains(idx, "↺") || strings.Contains(idx, "range") {
				return "elem(" + f.sub(a.X, depth) + ")"
			}
			return f.sub(a.X, depth) + "[" + idx + "]"
		}
		return "*" + f.sub(x.X, depth)
	}
	if g, ok := root.(*ssa.Global); ok {
		if path == "" {
			return f.global(g, depth)
		}
		return g.Pkg.Pkg.Name() + "." + g.Name() + path
	}
	set := map[string]bool{}
	zero := map[string]bool{}
	for _, st := range f.stores[root] {
		_, sp := f.cellRoot(st.Addr)
		switch {
		case sp == path:
			if c, ok := st.Val.(*ssa.Const); ok && isZeroConst(c) {
				zero[f.sub(st.Val, depth)] = true
				continue
			}
			set[f.sub(st.Val, depth)] = true
		case sp == "" && path != "":
			// store of the whole struct also defines the field
			if c, ok := st.Val.(*ssa.Const); ok && isZeroConst(c) {
				zero["zero"] = true
				continue
			}
			set[f.sub(st.Val, depth)+path] = true
		}
	}
	nonConst := false
	for _, st := range f.stores[root] {
		if _, sp := f.cellRoot(st.Addr); sp == path {
			if _, ok := st.Val.(*ssa.Const); !ok {
				nonConst = true
			}
		}
	}
	if !nonConst {
		for z := range zero {
			set[z] = true
		}
	}
	if len(set) == 0 {
		if len(zero) > 0 {
			return strings.Join(sortedSet(zero), "|")
		}
		// a struct literal built field by field
		if path == "" {
			var fs []string
			for _, st := range f.stores[root] {
				if _, sp := f.cellRoot(st.Addr); sp != "" {
					fs = append(fs, sp[1:]+"="+f.sub(st.Val, depth))
				}
			}
			if len(fs) > 0 {
				sort.Strings(fs)
				tn := ""
				if pt, ok := root.Type().Underlying().(*types.Pointer); ok {
					tn = shortType(pt.Elem())
				}
				return tn + "{" + strings.Join(fs, ",") + "}"
			}
		}
		// never stored in the family: filled through its address by a callee (d.ArgAs(&x)) or zero
		if al, ok := root.(*ssa.Alloc); ok && al.Referrers() != nil {
			for _, r := range *al.Referrers() {
				if call, ok := r.(*ssa.Call); ok {
					if callee := call.Common().StaticCallee(); callee != nil {
						return "out:" + callee.Name() + path
					}
				}
				if mi, ok := r.(*ssa.MakeInterface); ok && mi.Referrers() != nil {
					for _, rr := range *mi.Referrers() {
						if call, ok := rr.(*ssa.Call); ok {
							if callee := call.Common().StaticCallee(); callee != nil {
								return "out:" + callee.Name() + path
							}
						}
					}
				}
			}
		}
		return "zero" + path
	}
	keys := sortedSet(set)
	if len(keys) == 1 {
		return keys[0]
	}
	return "{" + strings.Join(keys, "|") + "}"
}

func isZeroConst(c *ssa.Const) bool {
	if c.Value == nil {
		return true
	}
	switch c.Value.Kind() {
	case constant.Bool:
		return !constant.BoolVal(c.Value)
	case constant.Int:
		return constant.Sign(c.Value) == 0
	case constant.String:
		return constant.StringVal(c.Value) == ""
	case constant.Float:
		return constant.Sign(c.Value) == 0
	}
	return false
}

// global renders a package-level variable: by its single initialising store when that is a
// constant-like value (signature byte strings, numeric constants), else by name.
func (f *c15Family) global(g *ssa.Global, depth int) string {
	name := g.Pkg.Pkg.Name() + "." + g.Name()
	if strings.HasPrefix(g.Pkg.Pkg.Path(), fw.Mod) {
		if init := g.Pkg.Func("init"); init != nil {
			var vals []ssa.Value
			fw.EachInstr(init, func(ins ssa.Instruction) {
				if st, ok := ins.(*ssa.Store); ok && st.Addr == ssa.Value(g) {
					vals = append(vals, st.Val)
				}
			})
			if len(vals) == 1 {
				if cv, ok := vals[0].(*ssa.Convert); ok {
					if c, ok := cv.X.(*ssa.Const); ok && c.Value != nil {
						return name + "=bytes(" + c.Value.ExactString() + ")"
					}
				}
				if c, ok := vals[0].(*ssa.Const); ok && c.Value != nil {
					return name + "=" + c.Value.ExactString()
				}
			}
		}
	}
	return name
}

// call renders a call value. Field readers with a constant name become $name; position queries
// are tagged with the last consuming decode.D call that precedes them.
func (f *c15Family) call(c *ssa.Call, depth int) string {
	cc := c.Common()
	if cc.IsInvoke() {
		return f.sub(cc.Value, depth) + "." + cc.Method.Name() + "(" + f.args(cc.Args, depth) + ")"
	}
	callee := cc.StaticCallee()
	if callee == nil {
		if b, ok := cc.Value.(*ssa.Builtin); ok {
			if b.Name() == "min" || b.Name() == "max" {
				var as []string
				for _, a := range cc.Args {
					as = append(as, f.sub(a, depth))
				}
				sort.Strings(as)
				return b.Name() + "(" + strings.Join(as, ",") + ")"
			}
			return b.Name() + "(" + f.args(cc.Args, depth) + ")"
		}
		if c := f.fnOf(cc.Value); c != nil {
			if s, ok := f.inlineResult(c, cc.Args, depth); ok {
				return s
			}
		}
		return "dyn:" + f.sub(cc.Value, depth) + "(" + f.args(cc.Args, depth) + ")"
	}
	if m, ok := isDMethod(c); ok {
		args := cc.Args[1:]
		if c15Consuming(m) || m == "FieldGet" || m == "FieldMustGet" {
			for _, a := range args {
				if s, ok := constString(a); ok {
					s += f.nameSuffix(m, s, c)
					if strings.HasPrefix(m, "Field") && !strings.Contains(m, "Reader") && !strings.Contains(m, "Format") {
						return "$" + s
					}
					return m + "($" + s + ")"
				}
			}
		}
		switch m {
		case "NotEnd":
			return "!End@" + f.lastConsuming(c) // d.NotEnd() is !d.End()
		case "Pos", "BitsLeft", "End", "Len", "BytePos":
			return m + "@" + f.lastConsuming(c)
		}
		return m + "(" + f.args(args, depth) + ")"
	}
	if fw.FnPkgPath(callee) == fw.FnPkgPath(f.root) && callee.Signature.Recv() == nil {
		if s, ok := f.inlineResult(callee, cc.Args, depth); ok {
			return s
		}
	}
	name := fw.ShortFn(callee)
	if o := callee.Origin(); o != nil {
		name = fw.ShortFn(o)
	}
	return name + "(" + f.args(cc.Args, depth) + ")"
}

// nameSuffix disambiguates a field name that is read at several places of the family: the label
// of the closure that contains the reader call is appended ("@" + label relative to the root).
func (f *c15Family) nameSuffix(method, name string, c *ssa.Call) string {
	if f.nameSites == nil {
		f.nameSites = map[string]map[*ssa.Function]bool{}
		for _, fn := range f.reachFns() {
			fw.EachInstr(fn, func(ins ssa.Instruction) {
				call, ok := ins.(*ssa.Call)
				if !ok {
					return
				}
				m, ok := isDMethod(call)
				if !ok || !(c15Consuming(m)) {
					return
				}
				for _, a := range call.Common().Args[1:] {
					if s, ok := constString(a); ok {
						if f.nameSites[s] == nil {
							f.nameSites[s] = map[*ssa.Function]bool{}
						}
						f.nameSites[s][fn] = true
						break
					}
				}
			})
		}
	}
	if len(f.nameSites[name]) < 2 {
		return ""
	}
	var keep []string
	for _, part := range strings.Split(strings.TrimPrefix(strings.TrimPrefix(f.ctx[c.Parent()], f.ctx[f.root]), "/"), "/") {
		if part != "" && !strings.Contains(part, "#") && !strings.HasPrefix(part, "func") {
			keep = append(keep, part)
		}
	}
	return "@" + strings.Join(keep, "/")
}

func (f *c15Family) args(as []ssa.Value, depth int) string {
	var out []string
	for _, a := range as {
		out = append(out, f.sub(a, depth))
	}
	return strings.Join(out, ",")
}

// lastConsuming names the closest consuming decode.D call executed before ins on every path
// (same block earlier, else walking up the dominator tree), "entry" when there is none.
func (f *c15Family) lastConsuming(ins ssa.Instruction) string {
	b := ins.Block()
	idx := instrIndex(ins)
	for b != nil {
		for i := idx - 1; i >= 0; i-- {
			if call, ok := b.Instrs[i].(*ssa.Call); ok {
				if m, ok := isDMethod(call); ok && c15Consuming(m) {
					return f.callLabel(call)
				}
			}
		}
		b = b.Idom()
		if b != nil {
			idx = len(b.Instrs)
		}
	}
	return "entry"
}

// callLabel: Method("name") or Method.
func (f *c15Family) callLabel(c *ssa.Call) string {
	m, _ := isDMethod(c)
	for _, a := range c.Common().Args[1:] {
		if s, ok := constString(a); ok {
			return m + "(" + s + ")"
		}
	}
	return m
}

// reachFns: the family's functions plus, transitively, the functions (with their closures) of the
// same-package helpers they call directly: the scope in which a field name must be unambiguous.
// Extracting part of a decoder into a helper of the package keeps this set's field readers.
func (f *c15Family) reachFns() []*ssa.Function {
	pkg := fw.FnPkgPath(f.root)
	seen := map[*ssa.Function]bool{}
	var out []*ssa.Function
	queue := append([]*ssa.Function{}, f.fns...)
	for _, fn := range queue {
		seen[fn] = true
	}
	for len(queue) > 0 {
		fn := queue[0]
		queue = queue[1:]
		out = append(out, fn)
		fw.EachInstr(fn, func(ins ssa.Instruction) {
			call, ok := ins.(ssa.CallInstruction)
			if !ok {
				return
			}
			callee := call.Common().StaticCallee()
			if callee == nil || callee.Blocks == nil || fw.FnPkgPath(callee) != pkg {
				return
			}
			for _, g := range fw.WithClosures(fw.Top(callee)) {
				if !seen[g] {
					seen[g] = true
					queue = append(queue, g)
				}
			}
		})
	}
	return out
}

// c15ClampPhi recognises the two-way merge of `v := a; if a OP b { v = b }` (and the if/else
// form) over integers as min(a,b) / max(a,b): the phi's two incoming values are exactly the two
// operands of the comparison that selects between them.
func c15ClampPhi(x *ssa.Phi) (string, ssa.Value, ssa.Value, bool) {
	if len(x.Edges) != 2 || !isIntegerT(x.Type()) {
		return "", nil, nil, false
	}
	blk := x.Block()
	// the deciding If: the common dominator that ends in If and whose two arms lead to the two edges
	d := blk.Idom()
	if d == nil || len(d.Succs) != 2 {
		return "", nil, nil, false
	}
	ifi, ok := d.Instrs[len(d.Instrs)-1].(*ssa.If)
	if !ok {
		return "", nil, nil, false
	}
	bo, ok := ifi.Cond.(*ssa.BinOp)
	if !ok || !isIntegerT(bo.X.Type()) {
		return "", nil, nil, false
	}
	// value selected when the condition holds / does not hold
	var vt, vf ssa.Value
	for i, pred := range blk.Preds {
		var onTrue bool
		switch {
		case pred == d:
			onTrue = d.Succs[0] == blk
		case len(pred.Preds) == 1 && pred.Preds[0] == d && len(pred.Succs) == 1:
			onTrue = d.Succs[0] == pred
		default:
			return "", nil, nil, false
		}
		if onTrue {
			vt = x.Edges[i]
		} else {
			vf = x.Edges[i]
		}
	}
	if vt == nil || vf == nil {
		return "", nil, nil, false
	}
	same := func(a, b ssa.Value) bool {
		if a == b {
			return true
		}
		ca, ok1 := a.(*ssa.Const)
		cb, ok2 := b.(*ssa.Const)
		return ok1 && ok2 && ca.Value != nil && cb.Value != nil && ca.Value.ExactString() == cb.Value.ExactString()
	}
	var smallerOnTrue bool // condition true means X is the smaller (or equal) one
	switch bo.Op {
	case token.LSS, token.LEQ:
		smallerOnTrue = true
	case token.GTR, token.GEQ:
		smallerOnTrue = false
	default:
		return "", nil, nil, false
	}
	xs, ys := bo.X, bo.Y
	if !smallerOnTrue {
		xs, ys = ys, xs // now: condition true means xs <= ys
	}
	switch {
	case same(vt, xs) && same(vf, ys):
		return "min", bo.X, bo.Y, true
	case same(vt, ys) && same(vf, xs):
		return "max", bo.X, bo.Y, true
	}
	return "", nil, nil, false
}

// c15LiveEdges: the indices of the phi's incoming edges whose predecessor block can complete
// (an arm that ends in d.Fatalf / panic never delivers its value).
func c15LiveEdges(ph *ssa.Phi) []int {
	var out []int
	for i := range ph.Edges {
		pred := ph.Block().Preds[i]
		if fw.CurrentNR != nil && len(pred.Preds) > 0 && fw.CurrentNR.BlockFails(pred) {
			continue
		}
		out = append(out, i)
	}
	if len(out) == 0 {
		for i := range ph.Edges {
			out = append(out, i)
		}
	}
	return out
}

// fnOf resolves a called value to a function of the program: a closure literal, or a local that is
// assigned exactly one closure.
func (f *c15Family) fnOf(v ssa.Value) *ssa.Function {
	if c := closureOf(v); c != nil {
		if fw.InFq(c) {
			return c
		}
		return nil
	}
	if ld, ok := stripConv(v).(*ssa.UnOp); ok && ld.Op == token.MUL {
		root, path := f.cellRoot(ld.X)
		if root == nil || path != "" {
			return nil
		}
		var found *ssa.Function
		n := 0
		for _, st := range f.stores[root] {
			if c, ok := st.Val.(*ssa.Const); ok && c.IsNil() {
				continue
			}
			n++
			found = closureOf(st.Val)
		}
		if n == 1 && found != nil && fw.InFq(found) {
			return found
		}
	}
	return nil
}

// inlineResult renders a call of a small helper by what it returns: a function (package level or
// a closure of the decoder) with exactly one return statement of one value, no captured variables
// and no consuming decode.D call is the same thing written as a closure, as a function or in
// place. Parameters are bound to the caller's arguments.
func (f *c15Family) inlineResult(c *ssa.Function, args []ssa.Value, depth int) (string, bool) {
	if depth > 24 || c.Blocks == nil || len(c.FreeVars) != 0 || c.Signature.Results().Len() != 1 || len(args) != len(c.Params) {
		return "", false
	}
	var ret *ssa.Return
	n, bad := 0, false
	fw.EachInstr(c, func(ins ssa.Instruction) {
		if ins.Parent() != c {
			return
		}
		switch x := ins.(type) {
		case *ssa.Return:
			ret = x
			n++
		case *ssa.Call:
			if m, ok := isDMethod(x); ok && c15Consuming(m) {
				bad = true
			}
		case *ssa.Store, *ssa.MakeClosure, *ssa.Go, *ssa.Defer:
			bad = true
		}
	})
	if n != 1 || bad || len(ret.Results) != 1 {
		return "", false
	}
	hf := f
	if fw.Top(c) != f.root {
		if f.helpers == nil {
			f.helpers = map[*ssa.Function]*c15Family{}
		}
		hf = f.helpers[fw.Top(c)]
		if hf == nil {
			hf = newC15Family(f.p, fw.Top(c))
			f.helpers[fw.Top(c)] = hf
		}
	}
	bind := map[*ssa.Parameter]string{}
	for i, prm := range c.Params {
		bind[prm] = f.sub(args[i], depth+1)
	}
	old := hf.bind
	// keep the bindings of enclosing helpers visible
	merged := map[*ssa.Parameter]string{}
	for k, v := range old {
		merged[k] = v
	}
	for k, v := range bind {
		merged[k] = v
	}
	hf.bind = merged
	s := hf.sub(ret.Results[0], depth+1)
	hf.bind = old
	return "(" + s + ")", true
}
