package rules

// Positive controls of C10: seeded one-line slips (applied through the loader overlay) that must
// make exactly the named rule report.
func init() {
	add := func(id, rule, file, old, new, key string) {
		AddControl(Control{ID: id, Prop: "C10", Rule: rule, File: file, Old: old, New: new, ExpectKey: key})
	}
	const dumpGo = "pkg/interp/dump.go"
	// C10.dump.addr
	add("c10-offset-mask", "C10.dump.addr", dumpGo,
		"startLineByteOffset := startByte % int64(opts.LineBytes)",
		"startLineByteOffset := startByte & (int64(opts.LineBytes) - 1)", "addr:first")
	add("c10-rows-off-by-one", "C10.dump.addr", dumpGo,
		"addrLines := lastDisplayLine - startLine + 1",
		"addrLines := lastDisplayLine - startLine", "rows")
	add("c10-read-len", "C10.dump.addr", dumpGo,
		"displaySizeBytes := lastDisplayByte - startByte + 1",
		"displaySizeBytes := lastDisplayByte - startByte", "range:len")
	add("c10-truncate-unconditionally", "C10.dump.addr", dumpGo,
		"if opts.DisplayBytes > 0 && sizeBits > int64(opts.DisplayBytes)*8 {",
		"if sizeBits > int64(opts.DisplayBytes)*8 {", "last:untruncated")
	add("c10-ascii-offset", "C10.dump.addr", dumpGo,
		"asciiwriter.New(cw.Columns[colASCII], opts.LineBytes, int(startLineByteOffset), asciiFn),",
		"asciiwriter.New(cw.Columns[colASCII], opts.LineBytes, int(startLine), asciiFn),", "offset:siblings")
	// C10.dump.range
	add("c10-size-in-addrbase", "C10.dump.range", dumpGo,
		"mathx.Bits(innerRange.Len).StringByteBits(opts.Sizebase))",
		"mathx.Bits(innerRange.Len).StringByteBits(opts.Addrbase))", "verbose:size")
	add("c10-marker-cond", "C10.dump.range", dumpGo,
		"if stopByte != lastDisplayByte {",
		"if stopByte > lastDisplayByte+1 {", "marker:cond")
	// C10.dump.src
	add("c10-ascii-reads-hex-clone", "C10.dump.src", dumpGo,
		"asciiBR, err := bitio.CloneReadSeeker(vBR)",
		"asciiBR, err := bitio.CloneReadSeeker(hexBR)", "copy:ascii-src")
	add("c10-hex-cell-other-byte", "C10.dump.src", dumpGo,
		"deco.ByteColor(b).Wrap(hexpairwriter.Pair(b))",
		"deco.ByteColor(b).Wrap(hexpairwriter.Pair(b + 1))", "cell:hex")
	// C10.dump.cols
	add("c10-hex-column-width", "C10.dump.cols", dumpGo,
		"hexColumnWidth := opts.LineBytes*3 - 1",
		"hexColumnWidth := opts.LineBytes*3 - 2", "width:hex")
	add("c10-digits-no-prefix", "C10.dump.cols", dumpGo,
		"mathx.DigitsInBase(bitio.BitsByteCount(v.InnerRange().Stop()), true, opts.Addrbase)",
		"mathx.DigitsInBase(bitio.BitsByteCount(v.InnerRange().Stop()), false, opts.Addrbase)", "digits:args")
	// C10.writer
	add("c10-hex-pad-newline-col", "C10.writer", "internal/hexpairwriter/hexpairwriter.go",
		"if h.offset%h.width == h.width-1 {", "if h.offset%h.width == h.width {", "hex:nl")
	add("c10-ascii-deferred-newline", "C10.writer", "internal/asciiwriter/asciiwriter.go",
		"if h.offset > h.startLineOffset && h.offset%h.width == 0 {", "if h.offset%h.width == 0 {", "ascii:nl")
	// C10.colwriter
	add("c10-pad-single-chunk", "C10.colwriter", "internal/columnwriter/columnwriter.go",
		"n := c.Width - l\n", "n := c.Width - l - 1\n", "flushline:pad")
	add("c10-min-lines", "C10.colwriter", "internal/columnwriter/columnwriter.go",
		"if l > maxLines {", "if l < maxLines {", "flush:max")
	// C10.tables
	add("c10-safeascii-127", "C10.tables", "internal/asciiwriter/asciiwriter.go",
		"if c < 32 || c > 126 {", "if c < 32 || c > 127 {", "safeascii")
	add("c10-octal-base", "C10.tables", "pkg/scalar/scalar.go",
		"\tcase NumberOctal:\n\t\treturn 8", "\tcase NumberOctal:\n\t\treturn 16", "formatbase")
	// C10.bits
	add("c10-bits-shift", "C10.bits", "internal/mathx/num.go",
		"return BasePrefixMap[base] + strconv.FormatUint(uint64(b>>3), base)", "return BasePrefixMap[base] + strconv.FormatUint(uint64(b>>2), base)", "bits:return")
	add("c10-bitrange-stop", "C10.bits", "internal/mathx/num.go",
		"Bits(r.Start+r.Len).StringByteBits(base))", "Bits(r.Start+r.Len-1).StringByteBits(base))", "bitrange")
	// C10.opts
	add("c10-linebytes-zero", "C10.opts", "pkg/interp/interp.go",
		"opts.LineBytes = max(1, opts.LineBytes)", "opts.LineBytes = max(0, opts.LineBytes)", "clamp:LineBytes")
	// C10.json
	add("c10-bigint-base16", "C10.json", "internal/colorjson/encoder.go",
		"e.write(v.Append(e.buf[:0], 10), e.opts.Colors.Number)", "e.write(v.Append(e.buf[:0], 16), e.opts.Colors.Number)", "bigint:base10")
	add("c10-exp-cleanup-unguarded", "C10.json", "internal/colorjson/encoder.go",
		"buf[n-4] == 'e' && buf[n-3] == '-' && buf[n-2] == '0'", "buf[n-4] == 'e' && buf[n-3] == '-'", "float:edit")
	add("c10-preview-uint-as-int", "C10.json", "pkg/interp/preview.go",
		"return mathx.PadFormatUint(vv, df.FormatBase(), true, 0)", "return mathx.PadFormatInt(int64(vv), df.FormatBase(), true, 0)", "preview:uint64")
	// second round: clamp of the bits read, units, end annotation, float clamp sign, buffer aliases, indentation
	add("c10-clamp-off-by-one", "C10.dump.addr", dumpGo,
		"maxDisplaySizeBits := bufferLastBit - startByte*8 + 1",
		"maxDisplaySizeBits := bufferLastBit - startByte*8", "range:clamp")
	add("c10-clamp-from-unaligned-start", "C10.dump.addr", dumpGo,
		"maxDisplaySizeBits := bufferLastBit - startByte*8 + 1",
		"maxDisplaySizeBits := bufferLastBit - startBit + 1", "range:clamp")
	add("c10-units-last-byte-is-last-bit", "C10.dump.units", dumpGo,
		"bufferLastByte := bufferLastBit / 8",
		"bufferLastByte := bufferLastBit", "units:")
	add("c10-units-display-bytes-as-bits", "C10.dump.units", dumpGo,
		"lastDisplayBit = startBit + (int64(opts.DisplayBytes)*8 - 1)",
		"lastDisplayBit = startBit + (int64(opts.DisplayBytes) - 1)", "units:")
	add("c10-units-clamp-bytes-from-bits", "C10.dump.units", dumpGo,
		"maxDisplaySizeBits := bufferLastBit - startByte*8 + 1",
		"maxDisplaySizeBits := bufferLastBit - startByte + 1", "units:")
	add("c10-end-annotation-by-byte", "C10.dump.range", dumpGo,
		"if stopBit == bufferLastBit {",
		"if stopByte == bufferLastByte {", "marker:end")
	const encGo = "internal/colorjson/encoder.go"
	add("c10-float-neg-inf-to-pos-max", "C10.json", encGo,
		"\t} else if f <= -math.MaxFloat64 {\n\t\tf = -math.MaxFloat64",
		"\t} else if f <= -math.MaxFloat64 {\n\t\tf = math.MaxFloat64", "float:clamp")
	add("c10-float-isinf-any-sign", "C10.json", encGo,
		"\tif f >= math.MaxFloat64 {\n\t\tf = math.MaxFloat64\n\t} else if f <= -math.MaxFloat64 {\n\t\tf = -math.MaxFloat64\n\t}",
		"\tif math.IsInf(f, 0) {\n\t\tf = math.MaxFloat64\n\t}", "float:clamp")
	add("c10-float-clamp-threshold", "C10.json", encGo,
		"if f >= math.MaxFloat64 {", "if f >= math.MaxFloat32 {", "float:clamp")
	add("c10-indent-stale-bytes", "C10.alias", encGo,
		"\t\tfor n -= l; n > 0; n, l = n-l, l*2 {\n\t\t\tif n < l {\n\t\t\t\tl = n\n\t\t\t}\n\t\t\te.w.Write(e.w.Bytes()[e.w.Len()-l:])",
		"\t\tb := e.w.Bytes()\n\t\tfor n -= l; n > 0; n, l = n-l, l*2 {\n\t\t\tif n < l {\n\t\t\t\tl = n\n\t\t\t}\n\t\t\te.w.Write(b[len(b)-l:])", "alias:")
	add("c10-flush-after-summarised-write", "C10.alias", encGo,
		"\t_, err := e.out.Write(e.w.Bytes())\n\te.w.Reset()",
		"\tb := e.w.Bytes()\n\te.writeByte(10, nil)\n\t_, err := e.out.Write(b)\n\te.w.Reset()", "alias:")
	add("c10-column-bytes-before-write", "C10.alias", "internal/columnwriter/columnwriter.go",
		"\tbb.Write(p)\n\n\tb := bb.Bytes()",
		"\tb := bb.Bytes()\n\tbb.Write(p)\n\tb = b[:bb.Len()]", "alias:")
	add("c10-indent-stale-len", "C10.json", encGo,
		"\t\tfor n -= l; n > 0; n, l = n-l, l*2 {\n\t\t\tif n < l {\n\t\t\t\tl = n\n\t\t\t}\n\t\t\te.w.Write(e.w.Bytes()[e.w.Len()-l:])",
		"\t\tn0 := e.w.Len()\n\t\tfor n -= l; n > 0; n, l = n-l, l*2 {\n\t\t\tif n < l {\n\t\t\t\tl = n\n\t\t\t}\n\t\t\te.w.Write(e.w.Bytes()[n0-l:])", "indent:src")
	add("c10-indent-not-whitespace", "C10.json", encGo,
		"e.writeIndentInternal(n, \"                                \")",
		"e.writeIndentInternal(n, \"                               .\")", "indent:chars")
}
