package rules

import (
	"fmt"
	"go/token"
	"go/types"
	"os"
	"sort"
	"strings"

	"golang.org/x/tools/go/ssa"

	"fqverif/fw"
)

// ---------------------------------------------------------------------------
// C15.inarg: the argument list a format decoder is started with.
//
// zip inflates its members only when Zip_In.Uncompress is set, and that value reaches zipDecode
// through d.ArgAs(&zi) from the list decode() builds for every format it tries:
//
//	[ options parsed for the format   if ParseOptsFn gave a non-nil value for f.DefaultInArg ]
//	[ opts.InArg                      if the caller passed one                                ]
//	[ f.DefaultInArg                  if no format options were parsed and it is non-nil      ]
//	[ options parsed for the group    if ParseOptsFn gave a non-nil value for group.DefaultInArg ]
//
// in this order (ArgAs takes the first assignable element). Each element is there under its OWN
// condition only: a zip found by probing inside a tar member / gzip payload / stored zip member is
// started with InArg = format.Probe_In{} AND must still get its default Zip_In{Uncompress: true}.
//
// The rule does not compare the shape of the code. It enumerates the truth values of the six
// elementary conditions (ParseOptsFn != nil, the three arguments != nil, the two parse results
// != nil), follows the SSA control flow of one iteration of decode() under each assignment
// (conditions are looked up, phis take the value of the edge walked, unrelated branches follow the
// only successor that reaches the store) and compares the list stored to d.inArgs with the list
// above. if/else-if chains, switches, boolean locals and helper variables all give the same
// answer as long as the behaviour is the same.

const c15InargDesc = "decode(): every format decoder is started with inArgs = [parsed format options if any] + [opts.InArg if non-nil] + [the format's DefaultInArg if no format options were parsed and it is non-nil] + [parsed group options if any], in this order, each element under its own condition only (decided by following the control flow under every consistent truth assignment of the six elementary conditions); d.ArgAs scans that list from the front, copies the first element assignable to the target and reports true, false when there is none"

func c15Inarg(r *fw.Run, p *fw.Program) {
	ru := r.Rule("C15.inarg", c15InargDesc, 8)
	c15InargDecode(ru, p)
	c15InargArgAs(ru, p)
	c15InargZipDefault(ru, p)
}

// c15InargZipDefault: the default that the list above delivers: zip registers
// DefaultInArg = format.Zip_In{Uncompress: true}, so that members are inflated unless the user
// turns it off.
func c15InargZipDefault(ru *fw.Rule, p *fw.Program) {
	fn := getFn(ru, p, "format/zip.init")
	if fn == nil {
		return
	}
	const key = "format/zip.init|DefaultInArg.Uncompress"
	found, isTrue := false, false
	// the package initialiser and the declared init functions (init#1, ...)
	var inits []*ssa.Function
	for name, m := range fn.Pkg.Members {
		if f, ok := m.(*ssa.Function); ok && strings.HasPrefix(name, "init") {
			inits = append(inits, fw.WithClosures(f)...)
		}
	}
	sort.Slice(inits, func(i, j int) bool { return inits[i].String() < inits[j].String() })
	for _, g := range inits {
		fw.EachInstr(g, func(ins ssa.Instruction) {
			st, ok := ins.(*ssa.Store)
			if !ok {
				return
			}
			fa, ok := st.Addr.(*ssa.FieldAddr)
			if !ok || fieldNameOf(fa.X.Type(), fa.Field) != "Uncompress" {
				return
			}
			pt, ok := fa.X.Type().Underlying().(*types.Pointer)
			if !ok {
				return
			}
			if n, ok := pt.Elem().(*types.Named); !ok || n.Obj().Name() != "Zip_In" {
				return
			}
			found = true
			if c, ok := st.Val.(*ssa.Const); ok && c.Value != nil && c.Value.ExactString() == "true" {
				isTrue = true
			}
		})
	}
	if !found {
		// a constant composite literal may be stored as one value: look for the struct constant
		ru.Fail(key, p.Rel(fn.Pos()), "zip does not register a default Zip_In with Uncompress set: members of an archive decoded without options are not inflated")
		return
	}
	ru.Check(isTrue, key, p.Rel(fn.Pos()), "zip's default options inflate members", "zip's DefaultInArg must be Zip_In{Uncompress: true}: without options the members of an archive are inflated and probed")
}

// value classes
const (
	c15vIn      = "opts.InArg"
	c15vDef     = "f.DefaultInArg"
	c15vGrp     = "group.DefaultInArg"
	c15vParseFn = "opts.ParseOptsFn"
)

// c15FieldClass names a load of one of the tracked fields (through Field, or a load of FieldAddr),
// resolved by the field's name and the name of its struct type in pkg/decode.
func c15FieldClass(v ssa.Value) string {
	v = stripConv(v)
	var st types.Type
	idx := -1
	switch x := v.(type) {
	case *ssa.Field:
		st, idx = x.X.Type(), x.Field
	case *ssa.UnOp:
		if x.Op != token.MUL {
			return ""
		}
		fa, ok := x.X.(*ssa.FieldAddr)
		if !ok {
			return ""
		}
		st, idx = fa.X.Type(), fa.Field
	default:
		return ""
	}
	if pt, ok := st.Underlying().(*types.Pointer); ok {
		st = pt.Elem()
	}
	named, ok := st.(*types.Named)
	if !ok || named.Obj().Pkg() == nil || named.Obj().Pkg().Path() != c15DecodePkg {
		return ""
	}
	switch named.Obj().Name() + "." + fieldNameOf(st, idx) {
	case "Options.InArg":
		return c15vIn
	case "Options.ParseOptsFn":
		return c15vParseFn
	case "Format.DefaultInArg":
		return c15vDef
	case "Group.DefaultInArg":
		return c15vGrp
	}
	return ""
}

type c15Exec struct {
	fn     *ssa.Function
	assign map[string]bool // elementary condition -> truth value
	phi    map[*ssa.Phi]ssa.Value
	target *ssa.BasicBlock
	reach  map[*ssa.BasicBlock]bool // blocks from which target is reachable
	err    string
}

// class resolves a value to its class under the current path.
func (e *c15Exec) class(v ssa.Value, depth int) string {
	if depth > 20 {
		return "?"
	}
	v = stripConv(v)
	if c := c15FieldClass(v); c != "" {
		return c
	}
	switch x := v.(type) {
	case *ssa.Phi:
		if t, ok := e.phi[x]; ok {
			return e.class(t, depth+1)
		}
		return "?phi"
	case *ssa.Const:
		if x.IsNil() {
			return "nil"
		}
		return "const"
	case *ssa.Call:
		cc := x.Common()
		if !cc.IsInvoke() && cc.StaticCallee() == nil && c15FieldClass(cc.Value) == c15vParseFn && len(cc.Args) == 1 {
			return "parsed(" + e.class(cc.Args[0], depth+1) + ")"
		}
	}
	return "?"
}

// cond evaluates a branch condition: (value, known).
func (e *c15Exec) cond(v ssa.Value, depth int) (bool, bool) {
	if depth > 20 {
		return false, false
	}
	switch x := v.(type) {
	case *ssa.Const:
		if x.Value != nil && x.Value.Kind().String() == "Bool" {
			return x.Value.ExactString() == "true", true
		}
	case *ssa.Phi:
		if t, ok := e.phi[x]; ok {
			return e.cond(t, depth+1)
		}
	case *ssa.UnOp:
		if x.Op == token.NOT {
			b, ok := e.cond(x.X, depth+1)
			return !b, ok
		}
	case *ssa.BinOp:
		if x.Op != token.EQL && x.Op != token.NEQ {
			return false, false
		}
		a, b := x.X, x.Y
		if c, ok := stripConv(a).(*ssa.Const); ok && c.IsNil() {
			a, b = b, a
		}
		if c, ok := stripConv(b).(*ssa.Const); !ok || !c.IsNil() {
			return false, false
		}
		cl := e.class(a, depth+1)
		if strings.HasPrefix(cl, "?") || cl == "nil" || cl == "const" {
			return false, false
		}
		nonNil, ok := e.assign[cl]
		if !ok {
			return false, false
		}
		if x.Op == token.EQL {
			return !nonNil, true
		}
		return nonNil, true
	}
	return false, false
}

// list resolves the stored slice to the classes of its elements.
func (e *c15Exec) list(v ssa.Value, depth int) []string {
	if depth > 40 {
		e.err = "argument list too deep"
		return nil
	}
	v = stripConv(v)
	switch x := v.(type) {
	case *ssa.Const:
		return nil
	case *ssa.Phi:
		if t, ok := e.phi[x]; ok {
			return e.list(t, depth+1)
		}
		e.err = "argument list merges a value of a path not walked"
		return nil
	case *ssa.Call:
		if b, ok := x.Common().Value.(*ssa.Builtin); ok && b.Name() == "append" && len(x.Common().Args) == 2 {
			out := e.list(x.Common().Args[0], depth+1)
			els, ok := variadicElems(x.Common().Args[1])
			if !ok {
				e.err = "appended elements are not listed at the call"
				return out
			}
			for _, el := range els {
				out = append(out, e.class(el, 0))
			}
			return out
		}
	}
	e.err = fmt.Sprintf("argument list is built by %T", v)
	return nil
}

// run walks from the entry to the store under e.assign and returns the stored list. A branch on
// something else than the elementary conditions follows the only successor that reaches the store;
// when both do (an unrelated option) both are walked and must give the same list.
func (e *c15Exec) run(store *ssa.Store) ([]string, bool) {
	lists := e.walk(store, e.fn.Blocks[0], nil, 0, 0)
	if e.err != "" || len(lists) == 0 {
		if e.err == "" {
			e.err = "no path reaches the store"
		}
		return nil, false
	}
	for _, l := range lists[1:] {
		if strings.Join(l, ",") != strings.Join(lists[0], ",") {
			e.err = "the argument list depends on a condition that is not one of the elementary conditions: [" + strings.Join(lists[0], ", ") + "] vs [" + strings.Join(l, ", ") + "]"
			return nil, false
		}
	}
	return lists[0], true
}

func (e *c15Exec) walk(store *ssa.Store, b, prev *ssa.BasicBlock, steps, forks int) [][]string {
	for ; steps < 400; steps++ {
		for _, ins := range b.Instrs {
			ph, ok := ins.(*ssa.Phi)
			if !ok {
				break
			}
			for i, pred := range b.Preds {
				if pred == prev {
					e.phi[ph] = ph.Edges[i]
				}
			}
		}
		for _, ins := range b.Instrs {
			if ins == ssa.Instruction(store) {
				l := e.list(store.Val, 0)
				if l == nil {
					l = []string{}
				}
				return [][]string{l}
			}
		}
		var next *ssa.BasicBlock
		switch t := b.Instrs[len(b.Instrs)-1].(type) {
		case *ssa.If:
			if v, ok := e.cond(t.Cond, 0); ok {
				next = b.Succs[1]
				if v {
					next = b.Succs[0]
				}
			} else {
				r0, r1 := e.reach[b.Succs[0]], e.reach[b.Succs[1]]
				switch {
				case r0 && !r1:
					next = b.Succs[0]
				case r1 && !r0:
					next = b.Succs[1]
				case r0 && r1 && forks < 6:
					saved := map[*ssa.Phi]ssa.Value{}
					for k, v := range e.phi {
						saved[k] = v
					}
					a := e.walk(store, b.Succs[0], b, steps+1, forks+1)
					e.phi = saved
					c := e.walk(store, b.Succs[1], b, steps+1, forks+1)
					return append(a, c...)
				default:
					e.err = "too many unrelated branches on the way to the assignment of d.inArgs"
					return nil
				}
			}
		case *ssa.Jump:
			next = b.Succs[0]
		default:
			e.err = "the walk ended before the decoder got its arguments"
			return nil
		}
		if !e.reach[next] {
			e.err = "under this assignment the decoder is never started"
			return nil
		}
		prev, b = b, next
	}
	e.err = "walk did not reach the store"
	return nil
}

func c15InargDecode(ru *fw.Rule, p *fw.Program) {
	fn := getFn(ru, p, "pkg/decode.decode")
	if fn == nil {
		return
	}
	pos := p.Rel(fn.Pos())
	key := func(s string) string { return "decode|inargs|" + s }
	var store *ssa.Store
	n := 0
	fw.EachInstr(fn, func(ins ssa.Instruction) {
		st, ok := ins.(*ssa.Store)
		if !ok || st.Parent() != fn {
			return
		}
		if fa, ok := st.Addr.(*ssa.FieldAddr); ok && fieldNameOf(fa.X.Type(), fa.Field) == "inArgs" {
			store = st
			n++
		}
	})
	if n != 1 {
		ru.Undecided(key("shape"), pos, fmt.Sprintf("expected exactly one assignment of d.inArgs in decode(), found %d", n))
		return
	}
	reach := map[*ssa.BasicBlock]bool{}
	for _, b := range fn.Blocks {
		if c15Reaches(b, store.Block()) {
			reach[b] = true
		}
	}
	// the list is built from nothing for every format tried (not carried over from the previous one)
	carried := false
	seenV := map[ssa.Value]bool{}
	var back func(v ssa.Value)
	back = func(v ssa.Value) {
		v = stripConv(v)
		if seenV[v] {
			return
		}
		seenV[v] = true
		switch x := v.(type) {
		case *ssa.Phi:
			for _, pred := range x.Block().Preds {
				if x.Block().Dominates(pred) {
					carried = true
				}
			}
			for _, e := range x.Edges {
				back(e)
			}
		case *ssa.Call:
			if b, ok := x.Common().Value.(*ssa.Builtin); ok && b.Name() == "append" && len(x.Common().Args) == 2 {
				back(x.Common().Args[0])
			}
		}
	}
	back(store.Val)
	ru.Check(!carried, key("fresh"), p.Rel(store.Pos()), "the list starts empty for every format tried", "the argument list must be built from nothing for every format of the group: arguments collected for a format tried before (and failed) must not reach the next one")
	atoms := []string{c15vParseFn, c15vIn, c15vDef, c15vGrp, "parsed(" + c15vDef + ")", "parsed(" + c15vGrp + ")"}
	type verdict struct{ bad string }
	res := map[string]*verdict{"format": {}, "in": {}, "default": {}, "group": {}, "order": {}, "extra": {}}
	elemOf := map[string]string{"format": "parsed(" + c15vDef + ")", "in": c15vIn, "default": c15vDef, "group": "parsed(" + c15vGrp + ")"}
	undecided := ""
	for m := 0; m < 1<<len(atoms); m++ {
		asg := map[string]bool{}
		for i, a := range atoms {
			asg[a] = m&(1<<i) != 0
		}
		// a parse result only exists when there is a parser and something to parse
		if asg[atoms[4]] && !(asg[c15vParseFn] && asg[c15vDef]) || asg[atoms[5]] && !(asg[c15vParseFn] && asg[c15vGrp]) {
			continue
		}
		e := &c15Exec{fn: fn, assign: asg, phi: map[*ssa.Phi]ssa.Value{}, target: store.Block(), reach: reach}
		got, ok := e.run(store)
		if !ok {
			undecided = e.err
			break
		}
		hasF := asg[c15vParseFn] && asg[c15vDef] && asg[atoms[4]]
		hasG := asg[c15vParseFn] && asg[c15vGrp] && asg[atoms[5]]
		wantIn := map[string]bool{"format": hasF, "in": asg[c15vIn], "default": !hasF && asg[c15vDef], "group": hasG}
		var want []string
		for _, k := range []string{"format", "in", "default", "group"} {
			if wantIn[k] {
				want = append(want, elemOf[k])
			}
		}
		desc := c15AsgString(atoms, asg)
		cnt := map[string]int{}
		for _, g := range got {
			cnt[g]++
		}
		for k, el := range elemOf {
			w := 0
			if wantIn[k] {
				w = 1
			}
			if cnt[el] != w && res[k].bad == "" {
				res[k].bad = fmt.Sprintf("with %s the list is [%s], expected [%s]", desc, strings.Join(got, ", "), strings.Join(want, ", "))
			}
			delete(cnt, el)
		}
		if len(cnt) > 0 && res["extra"].bad == "" {
			res["extra"].bad = fmt.Sprintf("with %s the list is [%s], expected [%s]", desc, strings.Join(got, ", "), strings.Join(want, ", "))
		}
		if len(got) == len(want) && strings.Join(got, ",") != strings.Join(want, ",") {
			a, b := append([]string{}, got...), append([]string{}, want...)
			sort.Strings(a)
			sort.Strings(b)
			if strings.Join(a, ",") == strings.Join(b, ",") && res["order"].bad == "" {
				res["order"].bad = fmt.Sprintf("with %s the list is [%s], expected the order [%s] (ArgAs takes the first assignable element)", desc, strings.Join(got, ", "), strings.Join(want, ", "))
			}
		}
		if os.Getenv("C15_INARG_DEBUG") != "" {
			fmt.Fprintf(os.Stderr, "inarg %s -> %v want %v\n", desc, got, want)
		}
	}
	if undecided != "" {
		ru.Undecided(key("walk"), p.Rel(store.Pos()), "cannot follow decode() to the assignment of d.inArgs: "+undecided)
		return
	}
	why := map[string]string{
		"format":  "the options parsed for the format are passed iff ParseOptsFn returned a non-nil value for the format's DefaultInArg",
		"in":      "the caller's InArg is passed iff it is non-nil",
		"default": "the format's DefaultInArg is passed iff no format options were parsed and it is non-nil, whatever else is passed (a zip probed inside a tar/gzip/zip member gets Probe_In AND its default Zip_In{Uncompress:true})",
		"group":   "the options parsed for the group are passed iff ParseOptsFn returned a non-nil value for the group's DefaultInArg",
		"order":   "format options, InArg, format default, group options, in this order",
		"extra":   "nothing else is passed",
	}
	for _, k := range []string{"format", "in", "default", "group", "order", "extra"} {
		ru.Check(res[k].bad == "", key(k), p.Rel(store.Pos()), why[k], why[k]+": "+res[k].bad)
	}
}

func c15AsgString(atoms []string, asg map[string]bool) string {
	var s []string
	for _, a := range atoms {
		if asg[a] {
			s = append(s, a+"!=nil")
		} else {
			s = append(s, a+"==nil")
		}
	}
	return strings.Join(s, ", ")
}

// ---------------------------------------------------------------------------
// ArgAs: first assignable element wins.
func c15InargArgAs(ru *fw.Rule, p *fw.Program) {
	fn := getFn(ru, p, "(*pkg/decode.D).ArgAs")
	if fn == nil {
		return
	}
	pos := p.Rel(fn.Pos())
	key := func(s string) string { return "ArgAs|" + s }
	// the element read from d.inArgs inside the loop
	var elem ssa.Value
	var idxPhi *ssa.Phi
	fw.EachInstr(fn, func(ins ssa.Instruction) {
		ld, ok := ins.(*ssa.UnOp)
		if !ok || ld.Op != token.MUL {
			return
		}
		ia, ok := ld.X.(*ssa.IndexAddr)
		if !ok {
			return
		}
		src, ok := ia.X.(*ssa.UnOp)
		if !ok || src.Op != token.MUL {
			return
		}
		if fa, ok := src.X.(*ssa.FieldAddr); ok && fieldNameOf(fa.X.Type(), fa.Field) == "inArgs" {
			elem = ld
			if bo, ok := ia.Index.(*ssa.BinOp); ok && bo.Op == token.ADD {
				idxPhi, _ = bo.X.(*ssa.Phi)
			} else {
				idxPhi, _ = ia.Index.(*ssa.Phi)
			}
		}
	})
	if elem == nil {
		ru.Undecided(key("shape"), pos, "ArgAs does not read the elements of d.inArgs in a loop")
		return
	}
	asc := false
	if idxPhi != nil {
		for _, e := range idxPhi.Edges {
			if bo, ok := e.(*ssa.BinOp); ok && bo.Op == token.ADD && bo.X == ssa.Value(idxPhi) {
				if k, ok := bo.Y.(*ssa.Const); ok && k.Value != nil && k.Value.ExactString() == "1" {
					asc = true
				}
			}
		}
	}
	ru.Check(asc, key("front-to-back"), pos, "the list is scanned from the front", "d.inArgs must be scanned from its first element on: its order is the priority of the arguments")
	// the copy: (reflect.Value).Set(x, reflect.ValueOf(elem))
	var set *ssa.Call
	fw.EachInstr(fn, func(ins ssa.Instruction) {
		c, ok := ins.(*ssa.Call)
		if !ok {
			return
		}
		callee := c.Common().StaticCallee()
		if callee == nil || callee.Name() != "Set" || callee.Pkg == nil || callee.Pkg.Pkg.Path() != "reflect" || len(c.Common().Args) != 2 {
			return
		}
		if vo, ok := c.Common().Args[1].(*ssa.Call); ok {
			if f := vo.Common().StaticCallee(); f != nil && f.Name() == "ValueOf" && len(vo.Common().Args) == 1 && stripConv(vo.Common().Args[0]) == elem {
				set = c
			}
		}
	})
	if !ru.Check(set != nil, key("copies-element"), pos, "the matching element is copied into the target", "the element of d.inArgs that matched must be copied into the target (reflect.ValueOf(target).Elem().Set(reflect.ValueOf(in)))") {
		return
	}
	// after the copy: return true, without looking at later elements
	first := true
	var retTrue, retFalse int
	for _, b := range fn.Blocks {
		ret, ok := b.Instrs[len(b.Instrs)-1].(*ssa.Return)
		if !ok || len(ret.Results) != 1 {
			continue
		}
		c, ok := ret.Results[0].(*ssa.Const)
		if !ok || c.Value == nil {
			first = false
			continue
		}
		after := set.Block() == b || set.Block().Dominates(b)
		switch {
		case c.Value.ExactString() == "true" && after:
			retTrue++
		case c.Value.ExactString() == "false" && !after:
			retFalse++
		default:
			first = false
		}
	}
	loops := blockReachesStrict(set.Block(), set.Block())
	ru.Check(first && retTrue >= 1 && !loops, key("first-wins"), pos, "the first assignable element ends the scan with true", "ArgAs must return true right after copying the first assignable element (later elements have lower priority and must not overwrite it)")
	ru.Check(first && retFalse >= 1, key("none"), pos, "no assignable element gives false", "ArgAs must report false when no element of d.inArgs is assignable to the target (decoders fall back to their zero options)")
	// the test that selects the element
	sel := false
	for _, g := range fw.Guards(set.Block()) {
		g = g.Normalize()
		if c, ok := g.Cond.(*ssa.Call); ok && g.True {
			if f := c.Common().StaticCallee(); f != nil && f.Name() == "AssignableTo" {
				sel = true
			}
			if c.Common().IsInvoke() && c.Common().Method.Name() == "AssignableTo" {
				sel = true
			}
		}
	}
	ru.Check(sel, key("assignable"), pos, "an element is taken iff its pointer type is assignable to the target's type", "the element must be selected by reflect AssignableTo of its (pointer) type to the target's type")
}
