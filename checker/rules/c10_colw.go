package rules

import (
	"fmt"
	"go/token"
	"strings"

	"golang.org/x/tools/go/ssa"

	"fqverif/fw"
)

// C10.colwriter: row alignment of columnwriter on Flush.
func c10ColWriterRules(r *fw.Run, p *fw.Program) {
	ru := r.Rule("C10.colwriter", "columnwriter: FlushLine writes line lineNr (or nothing), cuts only when longer than Width with slice(s,0,Width), and pads non-last columns by exactly Width-len(s) blanks; Flush takes the maximum of Lines(), runs PreFlush on all columns first, calls FlushLine(w, row, isLast) for every row < max and every column in order, ends each row with one newline and Resets every column (lines and rest) before returning; Write splits the buffered bytes into lines b[pos:pos+i] at the newline found in b[pos:], advancing by i+1 and keeping b[pos:]; the LenFn/SliceFn hooks are called only when set; ansi.Len/ansi.Slice count exactly the characters outside ESC..m sequences and Slice cuts at visible characters #start/#stop; PreFlush terminates a non-empty rest, Lines() is len(lines)", 23)
	fl := p.Fn("(*internal/columnwriter.MultiLineColumn).FlushLine")
	flush := p.Fn("(*internal/columnwriter.Writer).Flush")
	if fl == nil || flush == nil || fl.Blocks == nil || flush.Blocks == nil || len(fl.Params) != 4 {
		ru.Undecided("anchor", "", "(*MultiLineColumn).FlushLine(w, lineNr, lastColumn) or (*Writer).Flush not found")
		return
	}
	pos := func(i ssa.Instruction) string { return p.Rel(i.Pos()) }
	env := c10Env(fl, true)
	rcv, wPar, lineNr, lastCol := fl.Params[0], fl.Params[1], fl.Params[2], fl.Params[3]
	width := fw.PAtom("recv.Width")
	if c10StructFieldIndex(rcv.Type(), "Width") < 0 {
		ru.Undecided("anchor:Width", p.Rel(fl.Pos()), "MultiLineColumn has no Width field")
		return
	}
	lenFn := p.Fn("(*internal/columnwriter.MultiLineColumn).lenFn")
	sliceFn := p.Fn("(*internal/columnwriter.MultiLineColumn).sliceFn")

	// writes to w in order of appearance
	var writes []*ssa.Call
	fw.EachInstr(fl, func(ins ssa.Instruction) {
		if c, ok := ins.(*ssa.Call); ok && c.Call.IsInvoke() && c.Call.Value == ssa.Value(wPar) && c.Call.Method.Name() == "Write" {
			writes = append(writes, c)
		}
	})
	var content *ssa.Call
	var pads []*ssa.Call
	for _, w := range writes {
		arg := c10Strip(w.Call.Args[0])
		if cv, ok := arg.(*ssa.Convert); ok {
			arg = cv.X
		}
		if c10IsBlankPad(arg) {
			pads = append(pads, w)
		} else if content == nil {
			content = w
		} else {
			ru.Undecided("flushline:writes", pos(w), "FlushLine has more than one non-padding write")
			return
		}
	}
	if content == nil {
		ru.Undecided("flushline:content", p.Rel(fl.Pos()), "FlushLine does not write a line")
		return
	}
	// content: phi leaves are "", lines[lineNr], sliceFn(c, lines[lineNr], 0, Width)
	sv := c10Strip(content.Call.Args[0])
	if cv, ok := sv.(*ssa.Convert); ok {
		sv = cv.X
	}
	okContent, nLine, nCut := true, 0, 0
	detail := ""
	isLineLoad := func(v ssa.Value) bool {
		ld, ok := v.(*ssa.UnOp)
		if !ok || ld.Op != token.MUL {
			return false
		}
		ia, ok := ld.X.(*ssa.IndexAddr)
		if !ok || ia.Index != ssa.Value(lineNr) {
			return false
		}
		_, f, base, ok := c10FieldLoad(ia.X)
		return ok && f == "lines" && base == ssa.Value(rcv)
	}
	for _, lf := range c10PhiLeaves(sv) {
		switch {
		case isLineLoad(lf.V):
			nLine++
		default:
			if s, ok := c10ConstStr(lf.V); ok && s == "" {
				continue
			}
			c, ok := lf.V.(*ssa.Call)
			if ok && sliceFn != nil && c.Call.StaticCallee() == sliceFn && len(c.Call.Args) == 4 {
				nCut++
				lo, okLo := c10ConstInt(c.Call.Args[2])
				hi := env.Of(c.Call.Args[3])
				l := fw.NewPoly()
				var lcall *ssa.Call
				for _, x := range c10CallsTo(fl, lenFn.String()) {
					if x.Call.Args[1] == c.Call.Args[1] && x.Block().Dominates(c.Block()) {
						l, lcall = env.Of(x), x
					}
				}
				good := isLineLoad(c.Call.Args[1]) && okLo && lo == 0 && hi.Equal(width) && lcall != nil &&
					c10Exact(env, c.Block(), fw.Cmp{P: l.Sub(width), Rel: fw.GT})
				ru.Check(good, "flushline:cut", pos(c), "a line is cut to slice(line, 0, Width) only when its display length exceeds Width",
					"FlushLine cuts with slice(_, "+env.Of(c.Call.Args[2]).String()+", "+hi.String()+") under "+c10FactsString(env, c.Block())+": expected slice(line, 0, Width) under len(line) > Width — characters of a fitting cell are dropped or the wrong end is kept")
				continue
			}
			okContent = false
			detail = lf.V.String()
		}
	}
	ru.Check(okContent && nLine >= 1, "flushline:content", pos(content), "the cell written is lines[lineNr] (possibly cut) or empty", "FlushLine writes "+detail+" instead of lines[lineNr]: rows of different columns no longer correspond")
	if nCut == 0 {
		ru.Undecided("flushline:cut", p.Rel(fl.Pos()), "no cut of over-long cells found (sliceFn call)")
	}
	// the line is taken exactly when it exists: lineNr < len(lines)
	guardOK, nLoads := true, 0
	fw.EachInstr(fl, func(ins ssa.Instruction) {
		ld, ok := ins.(*ssa.UnOp)
		if !ok || !isLineLoad(ld) {
			return
		}
		nLoads++
		exact := false
		fw.EachInstr(fl, func(x ssa.Instruction) {
			lc, ok := x.(*ssa.Call)
			if !ok || !fw.IsBuiltinCall(lc, "len") {
				return
			}
			if _, f, base, ok := c10FieldLoad(lc.Call.Args[0]); ok && f == "lines" && base == ssa.Value(rcv) {
				if c10Exact(env, ld.Block(), fw.Cmp{P: env.Of(lineNr).Sub(env.Of(lc)), Rel: fw.LT}) {
					exact = true
				}
			}
		})
		if !exact {
			guardOK = false
		}
	})
	ru.Check(guardOK && nLoads >= 1, "flushline:exists", pos(content), "lines[lineNr] is written exactly when lineNr < len(lines)", "FlushLine does not take lines[lineNr] exactly under lineNr < len(lines); known there: "+c10FactsString(env, content.Block())+": the last row(s) of a column are left blank although collected (bytes not shown)")

	// padding: total blanks == Width - len(s), only for non-last columns
	if len(pads) != 1 || lenFn == nil {
		ru.Undecided("flushline:pad", p.Rel(fl.Pos()), fmt.Sprintf("%d padding writes in FlushLine (expected 1)", len(pads)))
	} else {
		pw := pads[0]
		total, how := c10PadTotal(env, pw)
		// len of the written string
		var l *fw.Poly
		for _, x := range c10CallsTo(fl, lenFn.String()) {
			if x.Call.Args[1] == sv && x.Block().Dominates(pw.Block()) {
				l = env.Of(x)
			}
		}
		switch {
		case total == nil:
			ru.Undecided("flushline:pad", pos(pw), "cannot derive how many blanks the padding writes: "+how)
		case l == nil:
			ru.Undecided("flushline:pad", pos(pw), "padding is not computed from lenFn of the cell just written")
		default:
			want := width.Sub(l)
			ru.Check(total.Equal(want), "flushline:pad", pos(pw), "padding writes exactly Width - len(cell) blanks ("+how+")", "padding writes "+total.String()+" blanks ("+how+"), the cell needs "+want.String()+": following columns and bars shift left on short rows")
		}
		notLast := false
		for _, c := range c10Conds(pw.Block()) {
			if c.V == ssa.Value(lastCol) && !c.True {
				notLast = true
			}
		}
		ru.Check(notLast && l != nil && c10Exact(env, pw.Block(), fw.Cmp{P: l.Sub(width), Rel: fw.LT}), "flushline:pad-guard", pos(pw), "padding only for non-last columns shorter than Width", "padding is not restricted to (!lastColumn && len < Width)")
	}

	// ---- Flush
	fenv := c10Env(flush, true)
	var flCall, preCall, linesCall *ssa.Call
	fw.EachInstr(flush, func(ins ssa.Instruction) {
		c, ok := ins.(*ssa.Call)
		if !ok || !c.Call.IsInvoke() {
			return
		}
		switch c.Call.Method.Name() {
		case "FlushLine":
			flCall = c
		case "PreFlush":
			preCall = c
		case "Lines":
			linesCall = c
		}
	})
	if flCall == nil || preCall == nil || linesCall == nil {
		ru.Undecided("flush:anchors", p.Rel(flush.Pos()), "Flush does not invoke Lines, PreFlush and FlushLine on its columns")
		return
	}
	// max of Lines()
	var maxPhi *ssa.Phi
	var maxCall *ssa.Call // builtin max(running, Lines()) form
	if linesCall.Referrers() != nil {
		for _, rf := range *linesCall.Referrers() {
			if ph, ok := rf.(*ssa.Phi); ok {
				maxPhi = ph
			}
			if mc, ok := rf.(*ssa.Call); ok && fw.IsBuiltinCall(mc, "max") && len(mc.Call.Args) == 2 && mc.Referrers() != nil {
				for _, rr := range *mc.Referrers() {
					ph, ok := rr.(*ssa.Phi)
					if ok && (mc.Call.Args[0] == ssa.Value(ph) || mc.Call.Args[1] == ssa.Value(ph)) {
						maxPhi, maxCall = ph, mc
					}
				}
			}
		}
	}
	if maxPhi == nil {
		ru.Fail("flush:max", pos(linesCall), "the row count is not a running maximum of Lines()")
	} else {
		good := true
		for i, e := range maxPhi.Edges {
			switch {
			case e == ssa.Value(maxPhi):
			case maxCall != nil && e == ssa.Value(maxCall):
				// max(running, Lines()): by construction the larger one
			case e == ssa.Value(linesCall):
				if !c10Exact(fenv, maxPhi.Block().Preds[i], fw.Cmp{P: fenv.Of(linesCall).Sub(fenv.Of(maxPhi)), Rel: fw.GT}) {
					good = false
				}
			default:
				if k, ok := c10ConstInt(e); !ok || k != 0 {
					good = false
				}
			}
		}
		ru.Check(good, "flush:max", pos(linesCall), "row count = max over columns of Lines(), starting at 0", "the row count is not max(Lines()): it takes a column's count when it is not larger, or starts above 0 — rows of the longest column are dropped")
	}
	// FlushLine(w.w, row, ci == len(Columns)-1)
	_, f0, b0, ok0 := c10FieldLoad(flCall.Call.Args[0])
	ru.Check(ok0 && f0 == "w" && b0 == ssa.Value(flush.Params[0]), "flush:dst", pos(flCall), "cells are written to the writer's output", "FlushLine is not given the Writer's output")
	rowPhi, _ := c10Strip(flCall.Call.Args[1]).(*ssa.Phi)
	rowOK := false
	if rowPhi != nil && maxPhi != nil {
		init, step, bound := false, false, false
		for _, e := range rowPhi.Edges {
			if k, ok := c10ConstInt(e); ok && k == 0 {
				init = true
			} else if bo, ok := e.(*ssa.BinOp); ok && bo.Op == token.ADD && bo.X == ssa.Value(rowPhi) {
				if k, ok := c10ConstInt(bo.Y); ok && k == 1 {
					step = true
					// continuation test: next < max
					if bo.Referrers() != nil {
						for _, rf := range *bo.Referrers() {
							if cm, ok := rf.(*ssa.BinOp); ok && cm.Op == token.LSS && cm.X == ssa.Value(bo) && cm.Y == ssa.Value(maxPhi) {
								bound = true
							}
						}
					}
				}
			}
		}
		// `for row := 0; row < max; row++` form: test on the phi itself
		if rowPhi.Referrers() != nil {
			for _, rf := range *rowPhi.Referrers() {
				if cm, ok := rf.(*ssa.BinOp); ok && cm.Op == token.LSS && cm.X == ssa.Value(rowPhi) && cm.Y == ssa.Value(maxPhi) {
					bound = true
				}
			}
		}
		rowOK = init && step && bound
	}
	ru.Check(rowOK, "flush:rows", pos(flCall), "rows 0..max-1 are flushed, each once", "the row argument of FlushLine does not run 0,1,..,max-1: a row is skipped, repeated or the last one dropped")
	// last-column flag
	lastOK := false
	if cm, ok := flCall.Call.Args[2].(*ssa.BinOp); ok && cm.Op == token.EQL {
		d := fenv.Of(cm.X).Sub(fenv.Of(cm.Y))
		// ci - (len(Columns)-1) == 0 where ci indexes the column FlushLine is invoked on
		var ci ssa.Value
		if ld, ok := c10Strip(flCall.Call.Value).(*ssa.UnOp); ok {
			if ia, ok := ld.X.(*ssa.IndexAddr); ok {
				ci = ia.Index
			}
		}
		if ci != nil {
			want := fenv.Of(ci).Sub(fw.PAtom("len(recv.Columns)")).Add(fw.PConst(1))
			got := c10LenName(d)
			lastOK = got.Equal(want) || got.Neg().Equal(want)
		}
	}
	ru.Check(lastOK, "flush:last", pos(flCall), "isLast == (column index == len(Columns)-1)", "the lastColumn flag is not (index == len(Columns)-1): the last column is padded/cut as an inner one or an inner column is left unpadded")
	// PreFlush for all columns before the first FlushLine
	ru.Check(preCall.Block().Idom() != nil && preCall.Block().Idom().Dominates(flCall.Block()) && !c10Reaches(flCall.Block(), preCall.Block()), "flush:preflush-first", pos(preCall), "unterminated last lines are completed (PreFlush loop) before any row is written", "PreFlush does not run on all columns before rows are written: an unterminated last line (the hex/ascii row in progress) is lost")
	// newline per row: a write of "\n" to w.w in the row loop, outside the column loop
	nlOK := false
	fw.EachInstr(flush, func(ins ssa.Instruction) {
		c, ok := ins.(*ssa.Call)
		if !ok || !c.Call.IsInvoke() || c.Call.Method.Name() != "Write" {
			return
		}
		if _, f, _, ok := c10FieldLoad(c.Call.Value); !ok || f != "w" {
			return
		}
		isNL := false
		if sl, ok := c.Call.Args[0].(*ssa.Slice); ok {
			if al, ok := sl.X.(*ssa.Alloc); ok && al.Referrers() != nil {
				for _, rf := range *al.Referrers() {
					if ia, ok := rf.(*ssa.IndexAddr); ok && ia.Referrers() != nil {
						for _, rr := range *ia.Referrers() {
							if st, ok := rr.(*ssa.Store); ok {
								if k, ok := c10ConstInt(st.Val); ok && k == '\n' {
									isNL = true
								}
							}
						}
					}
				}
			}
		}
		if cv, ok := c.Call.Args[0].(*ssa.Convert); ok {
			if s, ok := c10ConstStr(cv.X); ok && s == "\n" {
				isNL = true
			}
		}
		if isNL && rowPhi != nil && rowPhi.Block().Dominates(c.Block()) && c10InLoop(c.Block()) && !flCall.Block().Dominates(c.Block()) && c10Reaches(flCall.Block(), c.Block()) {
			nlOK = true
		}
	})
	ru.Check(nlOK, "flush:newline", p.Rel(flush.Pos()), "each row is terminated by one newline after its last column", "Flush does not write a newline after the columns of each row")
	c10ColReset(ru, p, flush, flCall)
	c10ColWriteSplit(ru, p)
	c10ColPreFlush(ru, p)
	c10ColFnGuards(ru, p)
	c10AnsiRules(ru, p)
}

// c10LenName rewrites len(<path>) atoms of loads of the receiver's Columns to len(recv.Columns).
func c10LenName(p *fw.Poly) *fw.Poly {
	out := fw.NewPoly()
	for m, c := range p.T {
		term := fw.NewPoly()
		term.T[""] = c
		if m != "" {
			for _, a := range splitMonoC10(m) {
				if strings.HasPrefix(a, "len(") && strings.Contains(a, "Columns") {
					a = "len(recv.Columns)"
				}
				term = term.Mul(fw.PAtom(a))
			}
		}
		out = out.Add(term)
	}
	return out
}

// c10IsBlankPad: v is a slice of (or is) a constant string of blanks, or strings.Repeat(" ", n).
func c10IsBlankPad(v ssa.Value) bool {
	switch x := v.(type) {
	case *ssa.Slice:
		if s, ok := c10ConstStr(x.X); ok && s != "" && strings.Trim(s, " ") == "" {
			return true
		}
	case *ssa.Call:
		if fw.CalleeName(x) == "strings.Repeat" {
			if s, ok := c10ConstStr(x.Call.Args[0]); ok && s == " " {
				return true
			}
		}
	}
	return false
}

// c10PadTotal derives the total number of blanks written by the padding write pw:
//   - strings.Repeat(" ", n): n
//   - blanks[0:n] written once (not in a loop): n, provided n <= len(blanks) is known
//   - chunk loop: n := N; for n > 0 { r := min(n, K); n -= r; write(blanks[0:r]) } with K <= len(blanks): N
func c10PadTotal(env *fw.PolyEnv, pw *ssa.Call) (*fw.Poly, string) {
	arg := c10Strip(pw.Call.Args[0])
	if cv, ok := arg.(*ssa.Convert); ok {
		arg = cv.X
	}
	if c, ok := arg.(*ssa.Call); ok {
		if c10InLoop(pw.Block()) {
			return nil, "strings.Repeat inside a loop"
		}
		return env.Of(c.Call.Args[1]), "strings.Repeat"
	}
	sl, ok := arg.(*ssa.Slice)
	if !ok {
		return nil, "padding is not a slice of blanks"
	}
	blanks, _ := c10ConstStr(sl.X)
	if sl.Low != nil {
		if k, ok := c10ConstInt(sl.Low); !ok || k != 0 {
			return nil, "blank slice does not start at 0"
		}
	}
	if sl.High == nil {
		return nil, "blank slice has no upper bound"
	}
	hi := c10Strip(sl.High)
	if !c10InLoop(pw.Block()) {
		// single write: the bound itself, but a min() against the blank string's length caps it
		if mc, ok := hi.(*ssa.Call); ok && fw.IsBuiltinCall(mc, "min") {
			return env.Of(hi), "single write of min(.., " + fmt.Sprint(len(blanks)) + ") blanks"
		}
		return env.Of(hi), "single write"
	}
	// chunk loop
	mc, ok := hi.(*ssa.Call)
	if !ok || !fw.IsBuiltinCall(mc, "min") || len(mc.Call.Args) != 2 {
		return nil, "chunk size is not min(remaining, K)"
	}
	var rem *ssa.Phi
	var kOK bool
	for i, a := range mc.Call.Args {
		if ph, ok := c10Strip(a).(*ssa.Phi); ok {
			rem = ph
			if k, ok := c10ConstInt(mc.Call.Args[1-i]); ok && k >= 1 && int(k) <= len(blanks) {
				kOK = true
			}
		}
	}
	if rem == nil || !kOK {
		return nil, "chunk size is not min(remaining, K) with 1 <= K <= len(blanks)"
	}
	// remaining: phi{N, remaining - chunk}; loop continues while remaining > 0
	var init ssa.Value
	dec := false
	for _, e := range rem.Edges {
		if bo, ok := e.(*ssa.BinOp); ok && bo.Op == token.SUB && bo.X == ssa.Value(rem) && c10Strip(bo.Y) == ssa.Value(mc) {
			dec = true
		} else {
			init = e
		}
	}
	if !dec || init == nil || len(rem.Edges) != 2 {
		return nil, "remaining count is not decreased by the chunk size"
	}
	cond := false
	if ifi, ok := rem.Block().Instrs[len(rem.Block().Instrs)-1].(*ssa.If); ok {
		if cm, ok := ifi.Cond.(*ssa.BinOp); ok && cm.Op == token.GTR && cm.X == ssa.Value(rem) {
			if k, ok := c10ConstInt(cm.Y); ok && k == 0 && rem.Block().Succs[0].Dominates(pw.Block()) {
				cond = true
			}
		}
	}
	if !cond {
		return nil, "chunk loop does not run while remaining > 0"
	}
	return env.Of(init), "chunks of min(remaining, " + fmt.Sprint(len(blanks)) + ") while remaining > 0"
}
