package rules

// Positive controls of the third-round C10 rules (self-review by mutation).
func init() {
	add := func(id, rule, file, old, new, key string) {
		AddControl(Control{ID: id, Prop: "C10", Rule: rule, File: file, Old: old, New: new, ExpectKey: key})
	}
	const (
		dumpGo = "pkg/interp/dump.go"
		hexGo  = "internal/hexpairwriter/hexpairwriter.go"
		ascGo  = "internal/asciiwriter/asciiwriter.go"
		colGo  = "internal/columnwriter/columnwriter.go"
		numGo  = "internal/mathx/num.go"
		encGo  = "internal/colorjson/encoder.go"
		ansiGo = "internal/ansi/ansi.go"
	)
	// C10.dump.addr
	add("c10-last-bit-past-value", "C10.dump.addr", dumpGo,
		"if lastDisplayBit > stopBit || stopBit-lastDisplayBit <= int64(opts.LineBytes)*8 {",
		"if stopBit-lastDisplayBit <= int64(opts.LineBytes)*8 && stopBit > lastDisplayBit {", "last:within")
	add("c10-range-not-inner", "C10.dump.addr", dumpGo,
		"innerRange := v.InnerRange()\n", "innerRange := v.Range\n", "range:inner")
	add("c10-end-bar-anywhere", "C10.dump.range", dumpGo,
		"if lastDisplayByte == bufferLastByte && lastDisplayByte != lastLineStopByte {",
		"if lastDisplayByte <= bufferLastByte && lastDisplayByte != lastLineStopByte {", "endmark:cond")
	// C10.dump.cols
	add("c10-width-min", "C10.dump.cols", dumpGo,
		"\t\tmaxAddrIndentWidth = max(\n", "\t\tmaxAddrIndentWidth = min(\n", "digits:max")
	add("c10-addr-column-narrow", "C10.dump.cols", dumpGo,
		"addrColumnWidth := maxAddrIndentWidth\n", "addrColumnWidth := maxAddrIndentWidth - 1\n", "addrwidth:root")
	add("c10-depth-args-swapped", "C10.dump.cols", dumpGo,
		"return dumpEx(v, ctx, depth, rootV, rootDepth, maxAddrIndentWidth-rootDepth)",
		"return dumpEx(v, ctx, rootDepth, rootV, depth, maxAddrIndentWidth-rootDepth)", "addrwidth:root")
	// C10.writer
	add("c10-hex-no-reset-after-flush", "C10.writer", hexGo, "\t\t\th.bufOffset = 0\n", "", "hex:buf:reset")
	add("c10-ascii-no-reset-after-flush", "C10.writer", ascGo, "\t\t\th.bufOffset = 0\n", "", "ascii:buf:reset")
	add("c10-hex-resume-overwritten", "C10.writer", hexGo, "\t\th.bufOffset = 1\n", "", "hex:buf:resume")
	add("c10-ascii-resume-overwritten", "C10.writer", ascGo, "\t\th.bufOffset = 1\n", "", "ascii:buf:resume")
	add("c10-hex-copy-at-zero", "C10.writer", hexGo, "copy(h.buf[h.bufOffset:], s)", "copy(h.buf, s)", "hex:buf:append")
	add("c10-hex-advance-two", "C10.writer", hexGo, "h.bufOffset += len(s)", "h.bufOffset += 2", "hex:buf:advance")
	add("c10-hex-separator-not-counted", "C10.writer", hexGo,
		"\t\th.buf[h.bufOffset] = ' '\n\t\th.bufOffset++\n", "\t\th.buf[h.bufOffset] = ' '\n", "hex:buf:put")
	add("c10-ascii-newline-not-counted", "C10.writer", ascGo,
		"\t\t\th.buf[h.bufOffset] = '\\n'\n\t\t\th.bufOffset++\n", "\t\t\th.buf[h.bufOffset] = '\\n'\n", "ascii:buf:put")
	add("c10-hex-grow-drops-row", "C10.writer", hexGo,
		"\t\t\th.buf = append(h.buf, make([]byte, need-len(h.buf))...)\n", "\t\t\th.buf = make([]byte, need*2)\n", "hex:buf:grow:keep")
	add("c10-ascii-grow-copies-tail", "C10.writer", ascGo,
		"\t\t\th.buf = append(h.buf, make([]byte, need-len(h.buf))...)\n", "\t\t\tnb := make([]byte, need*2)\n\t\t\tcopy(nb, h.buf[h.bufOffset:])\n\t\t\th.buf = nb\n", "ascii:buf:grow:keep")
	add("c10-hex-grow-one-short", "C10.writer", hexGo,
		"\t\t\th.buf = append(h.buf, make([]byte, need-len(h.buf))...)\n", "\t\t\th.buf = append(h.buf, make([]byte, need-len(h.buf)-1)...)\n", "hex:buf:grow:room")
	add("c10-ascii-grow-late", "C10.writer", ascGo,
		"if need := h.bufOffset + len(s) + 1; need > len(h.buf) {", "if need := h.bufOffset + len(s) + 1; need > len(h.buf)+1 {", "ascii:buf:grow:room")
	// C10.colwriter
	add("c10-flushline-last-row", "C10.colwriter", colGo, "\tif lineNr < len(c.lines) {", "\tif lineNr+1 < len(c.lines) {", "flushline:exists")
	add("c10-line-slice-absolute", "C10.colwriter", colGo,
		"line := string([]rune(string(b[pos : pos+i])))", "line := string([]rune(string(b[pos:i])))", "write:split")
	add("c10-rest-skips-byte", "C10.colwriter", colGo, "\tbb.Write(b[pos:])\n", "\tbb.Write(b[pos+1:])\n", "write:rest")
	add("c10-rest-not-reset", "C10.colwriter", colGo, "\tbb.Reset()\n", "", "write:rest")
	add("c10-flush-no-reset", "C10.colwriter", colGo, "\tfor _, c := range w.Columns {\n\t\tc.Reset()\n\t}\n", "", "flush:reset")
	add("c10-reset-keeps-lines", "C10.colwriter", colGo, "\tc.lines = nil\n", "", "reset:body")
	add("c10-slicefn-guard", "C10.colwriter", colGo,
		"\tif c.LenFn != nil {\n\t\treturn c.SliceFn(s, start, stop)", "\tif c.SliceFn == nil {\n\t\treturn c.SliceFn(s, start, stop)", "hook-guard:sliceFn")
	add("c10-preflush-one-char-rest", "C10.colwriter", colGo, "\tif c.buf.Len() > 0 {", "\tif c.buf.Len() > 1 {", "preflush:body")
	add("c10-lines-off-by-one", "C10.colwriter", colGo,
		"func (c *MultiLineColumn) Lines() int { return len(c.lines) }", "func (c *MultiLineColumn) Lines() int { return len(c.lines) - 1 }", "lines:body")
	add("c10-ansi-len-counts-esc", "C10.colwriter", ansiGo,
		"\t\t\tif c == '\\x1b' {\n\t\t\t\tinANSI = true\n\t\t\t} else {\n\t\t\t\tl++\n\t\t\t}\n\t\t}\n\t}\n\treturn l",
		"\t\t\tif c == '\\x1b' {\n\t\t\t\tinANSI = true\n\t\t\t}\n\t\t\tl++\n\t\t}\n\t}\n\treturn l", "ansi:len:count")
	add("c10-ansi-slice-stop", "C10.colwriter", ansiGo,
		"\t\t\t\t} else if l == stop {", "\t\t\t\t} else if l == stop-1 {", "ansi:slice:cut")
	add("c10-ansi-slice-start", "C10.colwriter", ansiGo,
		"if startByte == -1 && l == start {", "if startByte == -1 && l == start+1 {", "ansi:slice:start")
	// C10.bits
	add("c10-digits-one-short", "C10.bits", numGo,
		"return prefixLen + int(1+math.Floor(math.Log(float64(n))/math.Log(float64(base))))",
		"return prefixLen + int(math.Floor(math.Log(float64(n))/math.Log(float64(base))))", "digits:fn")
	add("c10-digits-prefix-of-other-base", "C10.bits", numGo,
		"prefixLen = len(BasePrefixMap[base])", "prefixLen = len(BasePrefixMap[10])", "digits:fn")
	// C10.json
	add("c10-json-backslash-raw", "C10.json", encGo,
		"if ' ' <= b && b <= '~' && b != '\"' && b != '\\\\' {", "if ' ' <= b && b <= '~' && b != '\"' {", "string:raw")
	add("c10-json-start-stale", "C10.json", encGo,
		"\t\t\ti++\n\t\t\tstart = i\n\t\t\tcontinue\n\t\t}\n\t\tc, size", "\t\t\ti++\n\t\t\tcontinue\n\t\t}\n\t\tc, size", "string:raw")
	add("c10-json-cr-as-lf", "C10.json", encGo,
		"\t\t\tcase '\\r':\n\t\t\t\te.w.WriteString(`\\r`)", "\t\t\tcase '\\r':\n\t\t\t\te.w.WriteString(`\\n`)", "string:escapes")
	add("c10-json-del-dropped", "C10.json", encGo,
		"\t\t\tdefault:\n\t\t\t\tconst hex", "\t\t\tcase 0x7f:\n\t\t\tdefault:\n\t\t\t\tconst hex", "string:dropped")
	add("c10-json-bigint-fastpath", "C10.json", encGo,
		"\t\te.write(v.Append(e.buf[:0], 10), e.opts.Colors.Number)\n", "\t\tif v.BitLen() <= 64 {\n\t\t\te.write(strconv.AppendUint(e.buf[:0], v.Uint64(), 10), e.opts.Colors.Number)\n\t\t} else {\n\t\t\te.write(v.Append(e.buf[:0], 10), e.opts.Colors.Number)\n\t\t}\n", "encode:one-printer")
	add("c10-json-float-intpath", "C10.json", encGo,
		"\tformat := byte('f')\n", "\tif f == math.Trunc(f) && math.Abs(f) < 1e21 {\n\t\te.write(strconv.AppendInt(e.buf[:0], int64(f), 10), e.opts.Colors.Number)\n\t\treturn\n\t}\n\tformat := byte('f')\n", "encodeFloat64:one-printer")
	add("c10-json-int-narrowed", "C10.json", encGo,
		"strconv.AppendInt(e.buf[:0], int64(v), 10)", "strconv.AppendInt(e.buf[:0], int64(int32(v)), 10)", "int:base10")
	add("c10-json-array-comma-late", "C10.json", encGo,
		"\t\tif i > 0 {\n\t\t\te.writeByte(',', e.opts.Colors.Array)", "\t\tif i > 1 {\n\t\t\te.writeByte(',', e.opts.Colors.Array)", "sep:encodeArray")
	add("c10-json-colon-before-key", "C10.json", encGo,
		"\t\te.encodeString(kv.key, e.opts.Colors.ObjectKey)\n\t\te.writeByte(':', e.opts.Colors.Object)\n",
		"\t\te.writeByte(':', e.opts.Colors.Object)\n\t\te.encodeString(kv.key, e.opts.Colors.ObjectKey)\n", "sep:encodeMap")
}
