package rules

import (
	"fmt"
	"go/token"
	"go/types"
	"strings"

	"golang.org/x/tools/go/ssa"

	"fqverif/fw"
)

// symExceptions: calls of panicking scalar Sym accessors that are not dominated by a Sym != nil
// test. key = enclosing function | accessor | ordinal. Confirmed by reading.
var symExceptions = map[string]string{
	"format/asn1.decodeASN1BERValue$1|(pkg/scalar.Bool).SymSint|1": "mapper BoolMapSymSint literal has both keys true and false (total over a bool)",
	"format/asn1.decodeASN1BERValue$1|(pkg/scalar.Uint).SymUint|1": "mapper UintMapSymUint literal has keys 0..3, the whole domain of the 2-bit read",
	"format/nes.getFlagMapper$1|(pkg/scalar.Uint).SymUint|1":       "first iteration: Sym was assigned a uint64 two statements earlier; every call site passes at most one description mapper",
	"format/nes.decodeCHRROM$1|(pkg/scalar.Uint).SymStr|1":         "decodeTilePart always returns a scalar with a string Sym",
	"format/nes.decodeCHRROM$1|(pkg/scalar.Uint).SymStr|2":         "decodeTilePart always returns a scalar with a string Sym",
	"format/flac.frameDecode$2$1|(pkg/scalar.Uint).SymStr|1":       "subframeTypeRangeMap ranges cover 0..63, the whole domain of the 6-bit read, each with a string Sym",
	"format/flac.frameDecode$2$1|(pkg/scalar.Uint).SymStr|2":       "same scalar as above",
}

// c06Sym: every call of a panicking symbolic accessor (scalar.<K>.Sym<T>) in fq is dominated by a
// test that the same scalar's Sym is non-nil, or is a confirmed exception.
func c06Sym(r *fw.Run, p *fw.Program) {
	ru := r.Rule("C06.sym", "every call of a panicking scalar Sym accessor (SymStr/SymUint/...) is dominated by a Sym != nil test whose failing arm does not continue, or is a confirmed total-mapper exception", 8)
	for _, fn := range p.FqFunctions() {
		if pkgRel(fn) == "pkg/scalar" {
			continue
		}
		ord := map[string]int{}
		for _, c := range fw.CallsIn(fn) {
			callee := c.Common().StaticCallee()
			if callee == nil || callee.Pkg == nil || callee.Pkg.Pkg.Path() != fw.Mod+"/pkg/scalar" {
				continue
			}
			n := callee.Name()
			if !strings.HasPrefix(n, "Sym") || callee.Signature.Recv() == nil || callee.Signature.Results().Len() != 1 {
				continue
			}
			// panicking accessor = has a Panic instruction
			hasPanic := false
			fw.EachInstr(callee, func(i ssa.Instruction) {
				if _, ok := i.(*ssa.Panic); ok {
					hasPanic = true
				}
			})
			if !hasPanic {
				continue
			}
			acc := fw.ShortFn(callee)
			ord[acc]++
			key := fmt.Sprintf("%s|%s|%d", fw.ShortFn(fn), acc, ord[acc])
			if symGuarded(c) {
				ru.Ok(key, p.Rel(c.Pos()), "dominated by a Sym != nil test")
				continue
			}
			if reason, ok := symExceptions[key]; ok {
				if chk := symExceptionChecks[key]; chk != nil {
					if why := chk(p, c); why != "" {
						ru.Fail(key, p.Rel(c.Pos()), "the exception for this accessor ("+reason+") no longer holds: "+why+"; the accessor panics on the uncovered value")
						continue
					}
					reason += " [checked]"
				}
				ru.Except(key, p.Rel(c.Pos()), reason)
				continue
			}
			ru.Fail(key, p.Rel(c.Pos()), "call of panicking "+acc+" with no dominating Sym != nil test: a value without symbolic mapping crashes fq")
		}
	}
}

// symGuarded: a dominating branch condition compares a field named Sym with nil such that Sym != nil holds.
func symGuarded(c ssa.CallInstruction) bool {
	for _, g := range fw.Guards(c.Block()) {
		g = g.Normalize()
		bo, ok := g.Cond.(*ssa.BinOp)
		if !ok || (bo.Op != token.EQL && bo.Op != token.NEQ) {
			continue
		}
		var other ssa.Value
		if isNilConst(bo.X) {
			other = bo.Y
		} else if isNilConst(bo.Y) {
			other = bo.X
		} else {
			continue
		}
		if !isSymField(other) {
			continue
		}
		if (bo.Op == token.NEQ && g.True) || (bo.Op == token.EQL && !g.True) {
			return true
		}
	}
	return false
}

func isNilConst(v ssa.Value) bool {
	c, ok := v.(*ssa.Const)
	return ok && c.IsNil()
}

func isSymField(v ssa.Value) bool {
	switch x := v.(type) {
	case *ssa.Field:
		return fieldNameOf(x.X.Type(), x.Field) == "Sym"
	case *ssa.UnOp:
		if fa, ok := x.X.(*ssa.FieldAddr); ok && x.Op == token.MUL {
			return fieldNameOf(fa.X.Type(), fa.Field) == "Sym"
		}
	}
	return false
}

func fieldNameOf(t types.Type, i int) string {
	if p, ok := t.Underlying().(*types.Pointer); ok {
		t = p.Elem()
	}
	if s, ok := t.Underlying().(*types.Struct); ok && i < s.NumFields() {
		return s.Field(i).Name()
	}
	return ""
}
