package rules

// The element loop of cbor arrays and maps, as a decision model instead of a loop shape:
//
//	i counts the items decoded so far (0, 1, 2 ...); before each item the loop continues
//	  - indefinite form (shortCount == 31):  iff the next byte is not the 0xff break,
//	  - definite form   (shortCount != 31):  iff i < count.
//
// The decision may be written in the loop (if / break, either comparison sense), or in a predicate
// the loop calls (a function or closure taking / capturing i, shortCount and count), with early
// returns or a single boolean expression.

import (
	"fmt"
	"go/constant"
	"go/token"

	"golang.org/x/tools/go/ssa"

	"fqverif/fw"
)

type c16CborLoop struct {
	Body         []*ssa.BasicBlock // blocks of the loop in the element closure
	RowMsg       string            // "" when the definite form is i = 0; i < count; i++
	BreakTest    bool              // the indefinite form stops exactly in front of 0xff
	CountGuarded bool              // the count never decides for the indefinite form
	GuardMsg     string
	Undecided    string
	Pos          token.Pos
}

// c16CborAtom classifies a comparison: kind "cnt" with pol = (value true <=> i < count), kind
// "brk" with pol = (value true <=> next byte is not the break marker).
func (x *c16) cborAtom(v ssa.Value, isI, isCount func(ssa.Value) bool) (string, bool) {
	bo, ok := v.(*ssa.BinOp)
	if !ok {
		return "", false
	}
	switch {
	case isI(bo.X) && isCount(bo.Y):
		switch bo.Op {
		case token.LSS:
			return "cnt", true
		case token.GEQ:
			return "cnt", false
		}
		return "cnt?", false
	case isCount(bo.X) && isI(bo.Y):
		switch bo.Op {
		case token.GTR:
			return "cnt", true
		case token.LEQ:
			return "cnt", false
		}
		return "cnt?", false
	}
	if bo.Op != token.EQL && bo.Op != token.NEQ {
		return "", false
	}
	for _, pr := range [][2]ssa.Value{{bo.X, bo.Y}, {bo.Y, bo.X}} {
		call, isCall := pr[0].(*ssa.Call)
		c, isC := c16ConstInt(pr[1])
		if !isCall || !isC {
			continue
		}
		if o, ok := x.op(call, newC16Eval()); ok && o.Kind == "Peek" && len(o.Args) > 0 {
			if w, ok := c16ConstInt(o.Args[0]); ok && w == 8 {
				if c != c16CborBreak {
					return "brk?", false
				}
				return "brk", bo.Op == token.NEQ
			}
		}
	}
	return "", false
}

// c16BoolUnder evaluates a boolean value under a fact set to (atom kind, continue <=> atom) or "".
// v is the "continue" decision.
func (x *c16) cborDecision(v ssa.Value, fs *c16FS, isI, isCount func(ssa.Value) bool) (string, bool, bool) {
	g := c16ResolveGuard(fw.Guard{Cond: v, True: true}.Normalize())
	if ph, ok := g.Cond.(*ssa.Phi); ok {
		if al, ok := fs.alias[ph]; ok {
			g = c16ResolveGuard(fw.Guard{Cond: al.Cond, True: al.True == g.True}.Normalize())
		} else if b, ok := fs.facts[ph]; ok {
			return x.cborConstDecision(b == g.True, fs, isI, isCount)
		}
	}
	if c, ok := g.Cond.(*ssa.Const); ok && c.Value != nil && c.Value.Kind() == constant.Bool {
		return x.cborConstDecision(constant.BoolVal(c.Value) == g.True, fs, isI, isCount)
	}
	kind, pol := x.cborAtom(g.Cond, isI, isCount)
	if kind == "" {
		return "", false, false
	}
	return kind, pol == g.True, true
}

// a constant decision is justified by the atom facts known on the path: `if i >= count { return false }`.
func (x *c16) cborConstDecision(cont bool, fs *c16FS, isI, isCount func(ssa.Value) bool) (string, bool, bool) {
	kindOut, polOut, n := "", false, 0
	for cond, val := range fs.facts {
		kind, pol := x.cborAtom(cond, isI, isCount)
		if kind == "" {
			continue
		}
		if kind == "cnt?" || kind == "brk?" {
			return kind, false, true
		}
		atomTrue := val == pol // i < count  /  not break
		n++
		kindOut, polOut = kind, cont == atomTrue
	}
	if n != 1 {
		return "", false, false
	}
	return kindOut, polOut, true
}

// cborElemLoop models the element loop of the array/map handler h whose FieldArray closure is cl.
func (x *c16) cborElemLoop(cl, h *ssa.Function) *c16CborLoop {
	m := &c16CborLoop{Pos: cl.Pos()}
	sc, count := ssa.Value(h.Params[1]), ssa.Value(h.Params[2])

	// the item counter: an integer phi starting at 0 and advancing by 1
	var ph *ssa.Phi
	nPh := 0
	var start, step int64
	for _, b := range cl.Blocks {
		for _, ins := range b.Instrs {
			p, ok := ins.(*ssa.Phi)
			if !ok || !isInt(p.Type()) || len(p.Edges) != 2 {
				continue
			}
			var st *ssa.Const
			var inc *ssa.BinOp
			for _, e := range p.Edges {
				if c, ok := e.(*ssa.Const); ok {
					st = c
				}
				if bo, ok := e.(*ssa.BinOp); ok && bo.Op == token.ADD && bo.X == ssa.Value(p) {
					inc = bo
				}
			}
			if st == nil || inc == nil {
				continue
			}
			sc2, ok := inc.Y.(*ssa.Const)
			if !ok {
				continue
			}
			ph, start, step = p, st.Int64(), sc2.Int64()
			nPh++
		}
	}
	if nPh != 1 {
		m.Undecided = fmt.Sprintf("%d item counters found in the element loop, expected 1", nPh)
		m.RowMsg = "element loop: " + m.Undecided
		return m
	}
	head := ph.Block()
	for _, bb := range cl.Blocks {
		if bb == head || (c16Reaches(head, bb) && c16Reaches(bb, head)) {
			m.Body = append(m.Body, bb)
		}
	}
	inBody := map[*ssa.BasicBlock]bool{}
	for _, b := range m.Body {
		inBody[b] = true
	}
	if start != 0 || step != 1 {
		m.RowMsg = fmt.Sprintf("the item counter starts at %d and advances by %d, expected 0 and 1", start, step)
	}

	// exits of the loop: every If in the loop with exactly one successor outside
	type exit struct {
		ifi     *ssa.If
		contIdx int // successor index that stays in the loop
	}
	var exits []exit
	for _, b := range m.Body {
		ifi, ok := b.Instrs[len(b.Instrs)-1].(*ssa.If)
		if !ok {
			continue
		}
		tIn, fIn := inBody[b.Succs[0]], inBody[b.Succs[1]]
		if tIn == fIn {
			continue
		}
		ci := 0
		if !tIn {
			ci = 1
		}
		exits = append(exits, exit{ifi, ci})
	}
	if len(exits) == 0 {
		m.Undecided = "the element loop has no exit"
		m.RowMsg = "element loop: " + m.Undecided
		return m
	}
	if p := exits[0].ifi.Cond.Pos(); p.IsValid() {
		m.Pos = p
	}

	seenDef, seenIndef := false, false
	fail := func(row, guard string) {
		if row != "" && m.RowMsg == "" {
			m.RowMsg = row
		}
		if guard != "" && m.GuardMsg == "" {
			m.GuardMsg = guard
		}
	}
	// judge one decision (continue <=> atom, or its negation) taken knowing `form`
	judge := func(kind string, contIsAtom bool, indef, def bool) {
		switch {
		case kind == "cnt?":
			fail("the item counter is compared with count by an operator other than i < count / i >= count", "")
		case kind == "brk?":
			fail("", "the next byte is compared with a constant other than the 0xff break marker")
		case !indef && !def:
			fail("", "the loop decides without knowing whether shortCount is 31")
		case kind == "cnt" && indef:
			fail("", "the `i >= count` exit is reachable when shortCount == 31 (count is then 31): indefinite-length containers are cut off after 31 elements")
		case kind == "cnt" && !contIsAtom:
			fail("the loop continues while i >= count", "")
		case kind == "cnt":
			seenDef = true
		case kind == "brk" && !contIsAtom:
			fail("", "the loop continues only at the break marker")
		case kind == "brk" && indef:
			seenIndef = true
		}
	}

	cfl := c16Facts(cl, nil)
	for _, ex := range exits {
		cond := c16ResolveGuard(fw.Guard{Cond: ex.ifi.Cond, True: ex.contIdx == 0}.Normalize())
		if c, ok := cond.Cond.(*ssa.Const); ok && c.Value != nil && c.Value.Kind() == constant.Bool {
			// `for i := 0; true; i++`: an exit that is never taken
			if constant.BoolVal(c.Value) != cond.True {
				m.RowMsg = "the element loop is never entered"
			}
			continue
		}
		// (a) a predicate called with the counter
		if call, ok := cond.Cond.(*ssa.Call); ok {
			H, args := c16CalleeAndArgs(call)
			if H == nil || len(H.Blocks) == 0 || len(H.Params) != len(args) {
				m.Undecided = "the loop condition is a call that cannot be resolved"
				continue
			}
			scH, countH := c16Origin(sc), c16Origin(count)
			var iH ssa.Value
			for j, a := range args {
				switch {
				case c16Origin(a) == c16Origin(sc):
					scH = H.Params[j]
				case c16Origin(a) == c16Origin(count):
					countH = H.Params[j]
				case c16Origin(a) == ssa.Value(ph):
					iH = H.Params[j]
				}
			}
			if iH == nil {
				m.Undecided = "the loop predicate does not receive the item counter"
				continue
			}
			isI := func(v ssa.Value) bool { return c16Origin(v) == iH }
			isCount := func(v ssa.Value) bool { return c16Origin(v) == countH }
			hfl := c16Facts(H, nil)
			nRet := 0
			for _, b := range H.Blocks {
				ret, ok := b.Instrs[len(b.Instrs)-1].(*ssa.Return)
				if !ok || len(ret.Results) != 1 {
					continue
				}
				for _, fs := range hfl.AtExit(b) {
					nRet++
					kind, contIsAtom, ok := x.cborDecision(ret.Results[0], fs, isI, isCount)
					if !ok {
						m.Undecided = "a result of the loop predicate " + H.Name() + " is not a comparison of the counter with count or of the next byte with the break marker"
						continue
					}
					if !cond.True {
						contIsAtom = !contIsAtom
					}
					judge(kind, contIsAtom, fs.holdsEq(scH, c16CborIndef), fs.knowsNe(scH, c16CborIndef))
				}
			}
			if nRet == 0 {
				m.Undecided = "the loop predicate has no return"
			}
			continue
		}
		// (b) written in the loop
		isI := func(v ssa.Value) bool { return v == ssa.Value(ph) }
		isCount := func(v ssa.Value) bool { return c16Origin(v) == c16Origin(count) }
		kind, pol := x.cborAtom(cond.Cond, isI, isCount)
		if kind == "" {
			m.Undecided = "a loop exit is not a comparison of the counter with count or of the next byte with the break marker"
			continue
		}
		for _, fs := range cfl.At(ex.ifi.Block()) {
			judge(kind, pol == cond.True, fs.holdsEq(c16Origin(sc), c16CborIndef), fs.knowsNe(c16Origin(sc), c16CborIndef))
		}
	}
	if m.RowMsg == "" && !seenDef && m.Undecided == "" {
		m.RowMsg = "no exit of the definite form at i >= count"
	}
	m.BreakTest = seenIndef
	m.CountGuarded = m.GuardMsg == ""
	return m
}

// c16CalleeAndArgs resolves a call of a function, a closure literal or a closure held in a local
// that is assigned once; args exclude nothing (closures take their captures as free variables).
func c16CalleeAndArgs(call *ssa.Call) (*ssa.Function, []ssa.Value) {
	cc := call.Common()
	if cc.IsInvoke() {
		return nil, nil
	}
	if f := cc.StaticCallee(); f != nil {
		return f, cc.Args
	}
	v := cc.Value
	if ld, ok := v.(*ssa.UnOp); ok && ld.Op == token.MUL {
		if src := c16ResolveLoad(ld.X); src != nil {
			v = src
		}
	}
	if f := c16AsFn(v); f != nil {
		return f, cc.Args
	}
	return nil, nil
}
