package rules

import (
	"fmt"
	"go/constant"
	"go/token"
	"go/types"
	"strings"

	"fqverif/fw"

	"golang.org/x/tools/go/ssa"
)

// ---------------------------------------------------------------------------
// C13.idx: every index and slice expression in jq-callable code stays inside its container
//
// x[i] needs 0 <= i < len(x), x[a:b] needs 0 <= a <= b <= len(x) (cap for slices); anything else is an
// "index out of range" / "slice bounds out of range" runtime panic that no jq `try` can catch. For every
// such expression in the code reachable from the jq-callable roots the bound is established by
//   - the construction of the container (array type, constant string, make with that length, x[:n]),
//   - a dominating comparison with len(x) (range loops and classic loops included),
//   - strings.HasPrefix(x, p) for x[len(p):],
//   - an interval (masks, shifts, clamps),
// or the site is listed with the reason why the bound holds (contracts of gojq's JQValue protocol,
// properties of library results). Keys describe the function, the container and the index expression
// structurally (parameters by position, fields by name, locals not at all), so a listed reason stays
// attached to exactly the expression it argues about: changing the expression (off by one, other
// operand, dropped term) detaches it.
// Sites already decided by C13.pre (non-constant index into a fixed-size array, constant index into an
// option string) are not repeated here.

func c13Idx(r *fw.Run, p *fw.Program, scope []*ssa.Function) {
	ru := r.Rule("C13.idx", "in jq-callable Go code every index x[i] and slice x[a:b] is inside its container: the bound follows from the container's construction, a dominating comparison with len(x) (loops included), strings.HasPrefix for x[len(p):], or an interval; otherwise the site is listed with the reason (JQValue protocol contract, property of a library result). Listed reasons are keyed by the exact index expression and by the part of the bound (lower / upper / order) they argue", 340)
	for _, fn := range scope {
		if fn.TypeParams().Len() > 0 && len(fn.TypeArgs()) == 0 {
			continue
		}
		var env *fw.IntervalEnv
		seen := map[string]int{}
		fw.EachInstr(fn, func(ins ssa.Instruction) {
			var xs ssa.Value
			var bounds []ssa.Value // index: [i]; slice: [low, high, max]
			kind := "index"
			switch y := ins.(type) {
			case *ssa.Index:
				if _, isMap := y.X.Type().Underlying().(*types.Map); isMap {
					return
				}
				xs, bounds = y.X, []ssa.Value{y.Index}
			case *ssa.IndexAddr:
				xs, bounds = y.X, []ssa.Value{y.Index}
			case *ssa.Slice:
				if y.Low == nil && y.High == nil && y.Max == nil {
					return
				}
				xs, bounds, kind = y.X, []ssa.Value{y.Low, y.High, y.Max}, "slice"
			default:
				return
			}
			if !ins.Pos().IsValid() && kind == "index" {
				// synthesized (range over array copy etc.)
			}
			if c13IdxHandledByPre(xs, bounds, kind) {
				return
			}
			if env == nil {
				env = newC13Env(fn)
			}
			fails := c13IdxProved(p, env, fn, ins, xs, bounds, kind)
			var bd []string
			for _, b := range bounds {
				if b == nil {
					bd = append(bd, "")
				} else {
					bd = append(bd, c13Desc(fn, b, 0))
				}
			}
			for len(bd) > 1 && bd[len(bd)-1] == "" {
				bd = bd[:len(bd)-1]
			}
			base := fmt.Sprintf("%s|%s|%s[%s]", fw.ShortFn(fn), kind, c13Desc(fn, xs, 0), strings.Join(bd, ":"))
			seen[base]++
			key := base
			if seen[base] > 1 {
				key = fmt.Sprintf("%s#%d", base, seen[base])
			}
			if len(fails) == 0 {
				ru.Ok(key, p.Rel(ins.Pos()), kind+" proved inside the container")
				return
			}
			// a listed reason argues one part (lower / upper / order) of one expression; every unproved part needs its own
			var reasons, open []string
			for _, f := range fails {
				if reason, found := c13IdxExceptions[base+"?"+f.aspect]; found {
					reasons = append(reasons, f.aspect+": "+reason)
				} else {
					open = append(open, f.msg)
				}
			}
			if len(open) == 0 {
				ru.Except(key, p.Rel(ins.Pos()), strings.Join(reasons, "; "))
				return
			}
			ru.Fail(key, p.Rel(ins.Pos()), "the "+kind+" expression is not proved inside its container ("+strings.Join(open, "; ")+"): out-of-range is an uncatchable runtime panic")
		})
	}
}

// c13IdxHandledByPre: the two classes C13.pre reports itself.
func c13IdxHandledByPre(xs ssa.Value, bounds []ssa.Value, kind string) bool {
	if kind != "index" {
		return false
	}
	_, isConst := bounds[0].(*ssa.Const)
	at := xs.Type().Underlying()
	if pt, ok := at.(*types.Pointer); ok {
		at = pt.Elem().Underlying()
	}
	if _, isArr := at.(*types.Array); isArr {
		return !isConst // constant index into an array is checked by the compiler
	}
	if bt, ok := at.(*types.Basic); ok && bt.Kind() == types.String && isConst {
		if _, cs := xs.(*ssa.Const); !cs {
			return true
		}
	}
	return false
}

// c13LenPolys: polynomials known to equal (or be a lower bound of) len(xs).
func c13LenPolys(env *fw.IntervalEnv, xs ssa.Value, forSlice bool) []*fw.Poly {
	var out []*fw.Poly
	t := xs.Type().Underlying()
	if pt, ok := t.(*types.Pointer); ok {
		t = pt.Elem().Underlying()
	}
	if arr, ok := t.(*types.Array); ok {
		return []*fw.Poly{fw.PConst(arr.Len())}
	}
	if c, ok := xs.(*ssa.Const); ok && c.Value != nil && c.Value.Kind() == constant.String {
		return []*fw.Poly{fw.PConst(int64(len(constant.StringVal(c.Value))))}
	}
	switch y := xs.(type) {
	case *ssa.MakeSlice:
		out = append(out, env.Poly.Of(y.Len))
		if forSlice {
			out = append(out, env.Poly.Of(y.Cap))
		}
	case *ssa.Slice:
		switch {
		case y.Low == nil && y.High != nil:
			out = append(out, env.Poly.Of(y.High))
		case y.Low == nil && y.High == nil:
			out = append(out, c13LenPolys(env, y.X, forSlice)...)
		case y.Low != nil && y.High != nil:
			out = append(out, env.Poly.Of(y.High).Sub(env.Poly.Of(y.Low)))
		case y.Low != nil && y.High == nil:
			for _, l := range c13LenPolys(env, y.X, false) {
				out = append(out, l.Sub(env.Poly.Of(y.Low)))
			}
		}
	case *ssa.Convert:
		// []byte(s), []rune(s), string(b): []byte/string conversions keep the length
		if c13ByteString(y.Type()) && c13ByteString(y.X.Type()) {
			out = append(out, c13LenPolys(env, y.X, forSlice)...)
		}
		// []rune(s) has utf8.RuneCountInString(s) elements
		if sl, ok := y.Type().Underlying().(*types.Slice); ok {
			if eb, ok := sl.Elem().Underlying().(*types.Basic); ok && eb.Kind() == types.Int32 && y.Parent() != nil {
				fw.EachInstr(y.Parent(), func(ins ssa.Instruction) {
					if c, ok := ins.(*ssa.Call); ok {
						if cal := c.Common().StaticCallee(); cal != nil && cal.String() == "unicode/utf8.RuneCountInString" && c.Common().Args[0] == y.X {
							out = append(out, env.Poly.Of(c))
						}
					}
				})
			}
		}
	}
	name := ""
	if path, ok := fw.AccessPath(xs); ok {
		name = path
	} else {
		name = env.Poly.Of(xs).String()
	}
	out = append(out, fw.PAtom("len("+name+")"))
	if forSlice {
		if _, isStr := t.(*types.Basic); !isStr {
			out = append(out, fw.PAtom("cap("+name+")"))
		}
	}
	return out
}

func c13ByteString(t types.Type) bool {
	switch u := t.Underlying().(type) {
	case *types.Basic:
		return u.Kind() == types.String
	case *types.Slice:
		b, ok := u.Elem().Underlying().(*types.Basic)
		return ok && b.Kind() == types.Byte
	}
	return false
}

// c13IdxProved decides one site. Returns the parts of the obligation that are not proved (none: proved).
func c13IdxProved(p *fw.Program, env *fw.IntervalEnv, fn *ssa.Function, ins ssa.Instruction, xs ssa.Value, bounds []ssa.Value, kind string) []c13IdxFail {
	b := ins.Block()
	lens := c13LenPolys(env, xs, kind == "slice")
	facts := c13Facts(env, b)
	// JQValue protocol (gojq func.go): JQValueIndex(i) is called with i in {-2,-1} or 0 <= i < JQValueSliceLen(),
	// JQValueSlice(s, e) with 0 <= s <= e <= JQValueSliceLen(). Assumed only when JQValueSliceLen of the same
	// type returns the length of exactly this container.
	if proto := c13ProtocolLen(p, fn, xs); proto {
		switch fn.Name() {
		case "JQValueIndex":
			if len(fn.Params) == 2 {
				for _, l := range lens {
					facts = append(facts, fw.Cmp{P: env.Poly.Of(fn.Params[1]).Sub(l), Rel: fw.LT})
				}
			}
		case "JQValueSlice":
			if len(fn.Params) == 3 {
				st, en := env.Poly.Of(fn.Params[1]), env.Poly.Of(fn.Params[2])
				facts = append(facts, fw.Cmp{P: st, Rel: fw.GE}, fw.Cmp{P: en, Rel: fw.GE}, fw.Cmp{P: st.Sub(en), Rel: fw.LE})
				for _, l := range lens {
					facts = append(facts, fw.Cmp{P: en.Sub(l), Rel: fw.LE}, fw.Cmp{P: st.Sub(l), Rel: fw.LE})
				}
			}
		}
	}
	proves := func(q fw.Cmp) bool {
		if c, ok := q.P.IsConst(); ok {
			switch q.Rel {
			case fw.LT:
				return c < 0
			case fw.LE:
				return c <= 0
			}
		}
		qs := fw.Cmp{P: fw.StripVersions(q.P), Rel: q.Rel}
		for _, f := range facts {
			if f.Implies(q) || f.Implies(qs) {
				return true
			}
		}
		return false
	}
	var nonNegD func(v ssa.Value, depth int) bool
	nonNeg := func(v ssa.Value) bool { return nonNegD(v, 0) }
	nonNegD = func(v ssa.Value, depth int) bool {
		if c, ok := v.(*ssa.Const); ok && c.Value != nil {
			return c.Int64() >= 0
		}
		// v >= w (dominating test, e.g. the condition of a loop counting down to w) with w >= 0
		if depth < 3 {
			for _, g := range fw.Guards(b) {
				g = g.Normalize()
				bo, ok := g.Cond.(*ssa.BinOp)
				if !ok {
					continue
				}
				var w ssa.Value
				switch {
				case bo.X == v && (g.True && (bo.Op == token.GEQ || bo.Op == token.GTR) || !g.True && (bo.Op == token.LSS || bo.Op == token.LEQ)):
					w = bo.Y
				case bo.Y == v && (g.True && (bo.Op == token.LEQ || bo.Op == token.LSS) || !g.True && (bo.Op == token.GTR || bo.Op == token.GEQ)):
					w = bo.X
				}
				if w != nil && isIntT(w.Type()) && !isUnsignedT(v.Type()) && nonNegD(w, depth+1) {
					return true
				}
			}
		}
		if isUnsignedT(v.Type()) {
			return true
		}
		if env.ProvedNonNeg(v, b) || c13NonNegInduct(env, v, map[ssa.Value]bool{}, 0) {
			return true
		}
		if proves(fw.Cmp{P: env.Poly.Of(v).Neg(), Rel: fw.LE}) {
			return true
		}
		if ok, _ := provedOrLifted(p, fn, env, v, b, needNonNeg, 0); ok {
			return true
		}
		// a length, or a sum/product of non-negative terms with non-negative coefficients
		pv := env.Poly.Of(v)
		if pv.Const() < 0 {
			return false
		}
		for _, a := range pv.Atoms() {
			if pv.Coef(a) < 0 || !(strings.HasPrefix(a, "len(") || strings.HasPrefix(a, "cap(")) {
				return false
			}
		}
		return len(pv.Atoms()) > 0
	}
	below := func(v ssa.Value, rel fw.Rel) bool {
		pv := env.Poly.Of(v)
		for _, l := range lens {
			if proves(fw.Cmp{P: pv.Sub(l), Rel: rel}) {
				return true
			}
			if c13PhiEdgeProves(env, fn, b, v, l, rel) {
				return true
			}
			if lc, ok := l.IsConst(); ok {
				iv := env.At(v, b)
				if !iv.HiInf && (iv.Hi < lc || rel == fw.LE && iv.Hi <= lc) {
					return true
				}
			}
		}
		return false
	}
	var fails []c13IdxFail
	miss := func(aspect, msg string) { fails = append(fails, c13IdxFail{aspect, msg}) }
	if kind == "index" {
		i := bounds[0]
		if !nonNeg(i) {
			miss("lower", "index "+env.Poly.Of(i).String()+" not proved >= 0")
		}
		if !below(i, fw.LT) {
			miss("upper", "index "+env.Poly.Of(i).String()+" not proved < len")
		}
		return fails
	}
	lo, hi, mx := bounds[0], bounds[1], bounds[2]
	if mx != nil {
		miss("max", "three-index slice")
		return fails
	}
	if lo != nil && !nonNeg(lo) {
		miss("lower", "low bound "+env.Poly.Of(lo).String()+" not proved >= 0")
	}
	if hi != nil {
		if lo == nil && !nonNeg(hi) {
			miss("lower", "high bound "+env.Poly.Of(hi).String()+" not proved >= 0")
		}
		if !below(hi, fw.LE) {
			miss("upper", "high bound "+env.Poly.Of(hi).String()+" not proved <= len")
		}
		if lo != nil {
			ordered := proves(fw.Cmp{P: env.Poly.Of(lo).Sub(env.Poly.Of(hi)), Rel: fw.LE})
			if c, ok := lo.(*ssa.Const); ok && c.Value != nil && c.Int64() == 0 && nonNeg(hi) {
				ordered = true
			}
			if !ordered {
				miss("order", "low bound "+env.Poly.Of(lo).String()+" not proved <= high bound "+env.Poly.Of(hi).String())
			}
		}
		return fails
	}
	// x[lo:]
	if !below(lo, fw.LE) {
		miss("upper", "low bound "+env.Poly.Of(lo).String()+" not proved <= len")
	}
	return fails
}

// c13IdxFail: one part of the bounds obligation of a site that is not proved.
type c13IdxFail struct {
	aspect string // lower | upper | order | max
	msg    string
}

// c13LenAtom: the polynomial the engine uses for len(v).
func c13LenAtom(env *fw.IntervalEnv, v ssa.Value) *fw.Poly {
	name := env.Poly.Of(v).String()
	if path, ok := fw.AccessPath(v); ok {
		name = path
	}
	return fw.PAtom("len(" + name + ")")
}

// c13NonNilLen2: library calls whose non-nil result has at least two elements (the whole-match pair).
var c13NonNilLen2 = map[string]bool{
	"(*regexp.Regexp).FindReaderSubmatchIndex": true,
	"(*regexp.Regexp).FindSubmatchIndex":       true,
	"(*regexp.Regexp).FindStringSubmatchIndex": true,
	"(*regexp.Regexp).FindIndex":               true,
	"(*regexp.Regexp).FindStringIndex":         true,
	"(*regexp.Regexp).FindReaderIndex":         true,
}

// c13Facts: the comparison facts at b, plus facts about lengths that follow from dominating tests:
//
//	s != ""                        => len(s) >= 1
//	strings.HasPrefix/HasSuffix(s, p) => len(s) >= len(p)
//	v != nil, v a regexp Find*Index result => len(v) >= 2
//	i < len(x)/c  (c > 0)          => c*i + c <= len(x)
//	a comparison with len(S), S = make(n) / x[a:b] / x[:n] => the same comparison with n / b-a
func c13Facts(env *fw.IntervalEnv, b *ssa.BasicBlock) []fw.Cmp {
	return c13FactsFrom(env, env.Poly.Facts(b), fw.Guards(b))
}

// c13EdgeFacts: the same for control flowing from pred to succ (pred's own branch outcome included).
func c13EdgeFacts(env *fw.IntervalEnv, pred, succ *ssa.BasicBlock) []fw.Cmp {
	gs := fw.Guards(pred)
	if ifi, ok := pred.Instrs[len(pred.Instrs)-1].(*ssa.If); ok && len(pred.Succs) == 2 && pred.Succs[0] != pred.Succs[1] {
		gs = append(gs, fw.Guard{Cond: ifi.Cond, True: pred.Succs[0] == succ, If: ifi})
	}
	return c13FactsFrom(env, env.Poly.EdgeFacts(pred, succ), gs)
}

func c13FactsFrom(env *fw.IntervalEnv, out []fw.Cmp, guards []fw.Guard) []fw.Cmp {
	// definitional: len(S) of a constructed slice S (make(n), x[a:b], x[a:], x[:b]) equals what its construction says
	fw.EachInstr(env.Fn, func(ins ssa.Instruction) {
		c, ok := ins.(*ssa.Call)
		if !ok || !fw.IsBuiltinCall(c, "len") {
			return
		}
		sv := c.Common().Args[0]
		switch sv.(type) {
		case *ssa.Slice, *ssa.MakeSlice:
		default:
			return
		}
		atomP := c13LenAtom(env, sv)
		for _, alt := range c13LenPolys(env, sv, false) {
			if !alt.Equal(atomP) {
				out = append(out, fw.Cmp{P: atomP.Sub(alt), Rel: fw.EQ})
			}
		}
	})
	isLenCall := func(v ssa.Value) (ssa.Value, bool) {
		for {
			if cv, ok := v.(*ssa.Convert); ok && isIntT(cv.Type()) && isIntT(cv.X.Type()) {
				v = cv.X
				continue
			}
			break
		}
		c, ok := v.(*ssa.Call)
		if !ok || !fw.IsBuiltinCall(c, "len") {
			return nil, false
		}
		return c.Common().Args[0], true
	}
	for _, g := range guards {
		g = g.Normalize()
		switch c := g.Cond.(type) {
		case *ssa.Call:
			cal := c.Common().StaticCallee()
			if cal == nil || !g.True {
				continue
			}
			switch cal.String() {
			case "strings.HasPrefix", "strings.HasSuffix", "bytes.HasPrefix", "bytes.HasSuffix":
				args := c.Common().Args
				for _, lp := range c13LenPolys(env, args[1], false) {
					out = append(out, fw.Cmp{P: c13LenAtom(env, args[0]).Sub(lp), Rel: fw.GE})
				}
			}
		case *ssa.BinOp:
			if c.Op == token.NEQ || c.Op == token.EQL {
				for _, pr := range [][2]ssa.Value{{c.X, c.Y}, {c.Y, c.X}} {
					k, ok := pr[1].(*ssa.Const)
					if !ok || (c.Op == token.NEQ) != g.True {
						continue
					}
					if k.Value != nil && k.Value.Kind() == constant.String && constant.StringVal(k.Value) == "" {
						out = append(out, fw.Cmp{P: c13LenAtom(env, pr[0]).Sub(fw.PConst(1)), Rel: fw.GE})
					}
					if k.IsNil() {
						if call, ok := pr[0].(*ssa.Call); ok {
							if cal := call.Common().StaticCallee(); cal != nil && c13NonNilLen2[cal.String()] {
								out = append(out, fw.Cmp{P: c13LenAtom(env, call).Sub(fw.PConst(2)), Rel: fw.GE})
							}
						}
					}
				}
			}
			cmp, ok := env.Poly.CmpOf(c)
			if !ok {
				continue
			}
			if !g.True {
				cmp.Rel = cmp.Rel.Negate()
			}
			// the comparison re-expressed with what is known about the length of a constructed slice
			for _, op := range []ssa.Value{c.X, c.Y} {
				sv, ok := isLenCall(op)
				if !ok {
					continue
				}
				atomP := c13LenAtom(env, sv)
				atoms := atomP.Atoms()
				if len(atoms) != 1 {
					continue
				}
				coef := cmp.P.Coef(atoms[0])
				if coef == 0 {
					continue
				}
				for _, alt := range c13LenPolys(env, sv, false) {
					if alt.Equal(atomP) {
						continue
					}
					out = append(out, fw.Cmp{P: cmp.P.Sub(atomP.MulC(coef)).Add(alt.MulC(coef)), Rel: cmp.Rel})
				}
			}
			// i < len(x)/k
			x, y, rel := c.X, c.Y, cmp.Rel
			// cmp is (X - Y) rel 0
			if q, ok := y.(*ssa.BinOp); ok && q.Op == token.QUO && (rel == fw.LT || rel == fw.LE) {
				if k, ok := q.Y.(*ssa.Const); ok && k.Value != nil && k.Int64() > 0 {
					if _, isLen := isLenCall(q.X); isLen {
						kk := k.Int64()
						pz := env.Poly.Of(x).MulC(kk).Sub(env.Poly.Of(q.X))
						if rel == fw.LT {
							pz = pz.Add(fw.PConst(kk))
						}
						out = append(out, fw.Cmp{P: pz, Rel: fw.LE})
					}
				}
			}
		}
	}
	return out
}

// c13NonNegInduct: v is non-negative by construction: constants, lengths, unsigned values, sizes returned
// by utf8 decoders, sums and products of such values, and loop variables (phis) all of whose incoming
// values are such (co-inductively: i = 0; i += size).
func c13NonNegInduct(env *fw.IntervalEnv, v ssa.Value, assume map[ssa.Value]bool, depth int) bool {
	if depth > 8 {
		return false
	}
	if assume[v] {
		return true
	}
	rec := func(x ssa.Value) bool { return c13NonNegInduct(env, x, assume, depth+1) }
	switch x := v.(type) {
	case *ssa.Const:
		return x.Value != nil && isIntT(x.Type()) && x.Int64() >= 0
	case *ssa.Phi:
		assume[v] = true
		for _, e := range x.Edges {
			if !rec(e) {
				delete(assume, v)
				return false
			}
		}
		return true
	case *ssa.BinOp:
		switch x.Op {
		case token.ADD:
			// strings.Index(...) + k with k >= 1
			for _, pr := range [][2]ssa.Value{{x.X, x.Y}, {x.Y, x.X}} {
				if c, ok := pr[1].(*ssa.Const); ok && c.Value != nil && c.Int64() >= 1 && c13IndexLike(pr[0]) {
					return true
				}
			}
			return rec(x.X) && rec(x.Y)
		case token.MUL:
			return rec(x.X) && rec(x.Y)
		case token.QUO, token.REM, token.SHR:
			return rec(x.X) && rec(x.Y)
		case token.AND:
			return rec(x.X) || rec(x.Y)
		}
	case *ssa.Convert:
		if isIntT(x.Type()) && isIntT(x.X.Type()) {
			if isUnsignedT(x.X.Type()) {
				sb, _ := x.X.Type().Underlying().(*types.Basic)
				db, _ := x.Type().Underlying().(*types.Basic)
				// widening (or same size to unsigned) keeps the value; uint8/16/32 into int always fits
				if sb != nil && db != nil && (sb.Kind() == types.Uint8 || sb.Kind() == types.Uint16 || sb.Kind() == types.Uint32) {
					return true
				}
				return false
			}
			return rec(x.X)
		}
	case *ssa.Call:
		if fw.IsBuiltinCall(x, "len") || fw.IsBuiltinCall(x, "cap") {
			return true
		}
		if cal := x.Common().StaticCallee(); cal != nil {
			switch cal.String() {
			case "unicode/utf8.RuneCountInString", "unicode/utf8.RuneCount", "unicode/utf8.RuneLen", "(*bytes.Buffer).Len", "(*strings.Builder).Len":
				return cal.String() != "unicode/utf8.RuneLen"
			}
		}
	case *ssa.Extract:
		if c, ok := x.Tuple.(*ssa.Call); ok && x.Index == 1 {
			if cal := c.Common().StaticCallee(); cal != nil {
				switch cal.String() {
				case "unicode/utf8.DecodeRuneInString", "unicode/utf8.DecodeRune", "unicode/utf8.DecodeLastRuneInString", "unicode/utf8.DecodeLastRune":
					return true
				}
			}
		}
	}
	if isIntT(v.Type()) && isUnsignedT(v.Type()) {
		return true
	}
	return false
}

// c13IndexLike: a call of strings.Index and relatives (result >= -1).
func c13IndexLike(v ssa.Value) bool {
	c, ok := v.(*ssa.Call)
	if !ok {
		return false
	}
	cal := c.Common().StaticCallee()
	if cal == nil {
		return false
	}
	switch cal.String() {
	case "strings.Index", "strings.IndexByte", "strings.IndexRune", "strings.IndexAny", "strings.LastIndex", "strings.LastIndexByte",
		"bytes.Index", "bytes.IndexByte", "bytes.IndexRune", "bytes.IndexAny", "bytes.LastIndex", "bytes.LastIndexByte":
		return true
	}
	return false
}

// c13PhiEdgeProves: v depends (linearly) on one loop variable phi whose block dominates b; the bound
// v rel l holds if, on every edge into the phi's block, the facts of that edge prove it for the value the
// phi takes on that edge (rotated loops: `for i := range n` tests the next value at the latch).
func c13PhiEdgeProves(env *fw.IntervalEnv, fn *ssa.Function, b *ssa.BasicBlock, v ssa.Value, l *fw.Poly, rel fw.Rel) bool {
	var phi *ssa.Phi
	many := false
	var find func(x ssa.Value, d int)
	find = func(x ssa.Value, d int) {
		if d > 5 {
			return
		}
		switch y := x.(type) {
		case *ssa.Phi:
			if phi != nil && phi != y {
				many = true
			}
			phi = y
		case *ssa.BinOp:
			find(y.X, d+1)
			find(y.Y, d+1)
		case *ssa.Convert:
			find(y.X, d+1)
		}
	}
	find(v, 0)
	if phi == nil || many || !isIntT(phi.Type()) {
		return false
	}
	h := phi.Block()
	if h != b && !h.Dominates(b) {
		return false
	}
	for k, pred := range h.Preds {
		if k >= len(phi.Edges) {
			return false
		}
		pe := fw.NewPolyEnv(fn)
		pe.Subst = map[ssa.Value]*fw.Poly{phi: env.Poly.Of(phi.Edges[k])}
		q := fw.Cmp{P: pe.Of(v).Sub(l), Rel: rel}
		ok := false
		if c, isC := q.P.IsConst(); isC {
			ok = rel == fw.LT && c < 0 || rel == fw.LE && c <= 0
		}
		if !ok && c13DependsOn(phi.Edges[k], phi, 0) {
			// back edge: the next value is computed from the current one, for which the bound is the induction
			// hypothesis (i < len(x) now, so i-1 < len(x) next; len(x) as the engine models it, by access path)
			// (both sides over one fresh name for the current value, independent of memoised phi spellings)
			ph := fw.NewPolyEnv(fn)
			ph.Subst = map[ssa.Value]*fw.Poly{phi: fw.PAtom("<current " + phi.Name() + ">")}
			hyp := fw.Cmp{P: ph.Of(v).Sub(l), Rel: rel}
			pn := fw.NewPolyEnv(fn)
			pn.Subst = map[ssa.Value]*fw.Poly{phi: ph.Of(phi.Edges[k])}
			ok = hyp.Implies(fw.Cmp{P: pn.Of(v).Sub(l), Rel: rel})
		}
		if !ok {
			qs := fw.Cmp{P: fw.StripVersions(q.P), Rel: q.Rel}
			for _, f := range c13EdgeFacts(env, pred, h) {
				if f.Implies(q) || f.Implies(qs) {
					ok = true
					break
				}
			}
		}
		if !ok {
			return false
		}
	}
	return len(h.Preds) > 0
}

// c13DependsOn: v is computed (through integer arithmetic and conversions) from phi.
func c13DependsOn(v ssa.Value, phi *ssa.Phi, depth int) bool {
	if depth > 5 {
		return false
	}
	switch x := v.(type) {
	case *ssa.Phi:
		return x == phi
	case *ssa.BinOp:
		return c13DependsOn(x.X, phi, depth+1) || c13DependsOn(x.Y, phi, depth+1)
	case *ssa.Convert:
		return c13DependsOn(x.X, phi, depth+1)
	}
	return false
}

// c13ProtocolLen: fn is the JQValueIndex / JQValueSlice method of a type whose JQValueSliceLen method
// returns len(xs) for exactly this container xs (compared structurally).
func c13ProtocolLen(p *fw.Program, fn *ssa.Function, xs ssa.Value) bool {
	if fn.Signature.Recv() == nil || (fn.Name() != "JQValueIndex" && fn.Name() != "JQValueSlice") {
		return false
	}
	rt := fn.Signature.Recv().Type()
	for _, f := range p.FqFunctions() {
		if f.Name() != "JQValueSliceLen" || f.Signature.Recv() == nil || !types.Identical(f.Signature.Recv().Type(), rt) || f.Blocks == nil {
			continue
		}
		rets := returnsOf(f)
		if len(rets) != 1 || len(rets[0].Results) != 1 {
			return false
		}
		v := rets[0].Results[0]
		if mi, ok := v.(*ssa.MakeInterface); ok {
			v = mi.X
		}
		return c13Desc(f, v, 0) == "len("+c13Desc(fn, xs, 0)+")"
	}
	return false
}

// c13Desc renders a value structurally: parameters by position, fields by name, constants by value,
// operators, builtin and callee names; locals and temporaries are anonymous. Stable under renames.
func c13Desc(fn *ssa.Function, v ssa.Value, depth int) string {
	if depth > 5 {
		return "_"
	}
	d := func(x ssa.Value) string { return c13Desc(fn, x, depth+1) }
	switch x := v.(type) {
	case *ssa.Const:
		if x.Value == nil {
			return "nil"
		}
		return x.Value.ExactString()
	case *ssa.Parameter:
		for i, pa := range fn.Params {
			if pa == x {
				if fn.Signature.Recv() != nil {
					if i == 0 {
						return "recv"
					}
					return fmt.Sprintf("arg%d", i-1)
				}
				return fmt.Sprintf("arg%d", i)
			}
		}
		return "arg"
	case *ssa.FreeVar:
		t := x.Type()
		if pt, ok := t.(*types.Pointer); ok {
			t = pt.Elem()
		}
		return "captured<" + shortType(t) + ">"
	case *ssa.Global:
		return x.Pkg.Pkg.Name() + "." + x.Name()
	case *ssa.BinOp:
		return "(" + d(x.X) + x.Op.String() + d(x.Y) + ")"
	case *ssa.UnOp:
		if x.Op == token.MUL {
			switch a := x.X.(type) {
			case *ssa.FieldAddr:
				return d(a.X) + "." + fieldNameOf(a.X.Type(), a.Field)
			case *ssa.Alloc:
				// spilled parameter keeps its identity
				if a.Referrers() != nil {
					for _, r := range *a.Referrers() {
						if st, ok := r.(*ssa.Store); ok && st.Addr == ssa.Value(a) {
							if pa, ok := st.Val.(*ssa.Parameter); ok {
								return d(pa)
							}
						}
					}
				}
				return "var"
			case *ssa.FreeVar, *ssa.Global:
				return d(a)
			case *ssa.IndexAddr:
				return d(a.X) + "[" + d(a.Index) + "]"
			}
			return "*" + d(x.X)
		}
		return x.Op.String() + d(x.X)
	case *ssa.FieldAddr:
		return "&" + d(x.X) + "." + fieldNameOf(x.X.Type(), x.Field)
	case *ssa.Field:
		return d(x.X) + "." + fieldNameOf(x.X.Type(), x.Field)
	case *ssa.Alloc:
		if x.Referrers() != nil {
			for _, r := range *x.Referrers() {
				if st, ok := r.(*ssa.Store); ok && st.Addr == ssa.Value(x) {
					if pa, ok := st.Val.(*ssa.Parameter); ok {
						return d(pa)
					}
				}
			}
		}
		return "var"
	case *ssa.Convert:
		return d(x.X)
	case *ssa.ChangeType:
		return d(x.X)
	case *ssa.Phi:
		return "phi"
	case *ssa.Extract:
		return d(x.Tuple) + fmt.Sprintf("#%d", x.Index)
	case *ssa.Slice:
		s := d(x.X) + "["
		if x.Low != nil {
			s += d(x.Low)
		}
		s += ":"
		if x.High != nil {
			s += d(x.High)
		}
		return s + "]"
	case *ssa.MakeSlice:
		return "make(" + d(x.Len) + ")"
	case *ssa.Call:
		cc := x.Common()
		name := "call"
		if bi, ok := cc.Value.(*ssa.Builtin); ok {
			name = bi.Name()
		} else if cc.IsInvoke() {
			name = d(cc.Value) + "." + cc.Method.Name()
		} else if cal := cc.StaticCallee(); cal != nil {
			name = cal.String()
			if fw.InFq(cal) {
				name = fw.ShortFn(cal)
			}
		}
		var as []string
		for _, a := range cc.Args {
			as = append(as, d(a))
		}
		return name + "(" + strings.Join(as, ",") + ")"
	case *ssa.TypeAssert:
		return d(x.X) + ".(" + shortType(x.AssertedType) + ")"
	case *ssa.Lookup:
		return d(x.X) + "[" + d(x.Index) + "]"
	case *ssa.Index:
		return d(x.X) + "[" + d(x.Index) + "]"
	case *ssa.IndexAddr:
		return "&" + d(x.X) + "[" + d(x.Index) + "]"
	case *ssa.MakeInterface:
		return d(x.X)
	}
	return "_"
}

// c13IdxExceptions: site (function | kind | container[index expression] ? part) -> why that part of the bound holds.
var c13IdxExceptions = map[string]string{
	"(*internal/colorjson.Encoder).encodeMap|index|make(len(arg0))[phi]?upper":                                                                                          "i counts the iterations of the range over the very map whose len sized the slice: i < len(vs) in every iteration",
	"(*internal/colorjson.Encoder).writeIndentInternal|slice|(*bytes.Buffer).Bytes(recv.w)[((*bytes.Buffer).Len(recv.w)-phi)]?lower":                                    "encoding/json's indent doubling: l <= n and l <= number of bytes already written (at least len(spaces) were just written); n is the nesting depth, not a jq number",
	"(*internal/colorjson.Encoder).writeIndentInternal|slice|(*bytes.Buffer).Bytes(recv.w)[((*bytes.Buffer).Len(recv.w)-phi)]?upper":                                    "encoding/json's indent doubling: l <= n and l <= number of bytes already written (at least len(spaces) were just written); n is the nesting depth, not a jq number",
	"(internal/recoverfn.Raw).frames|index|make(len(recv.PCs))[phi]?upper":                                                                                              "i counts the frames runtime.CallersFrames yields for r.PCs: at most len(r.PCs) (one frame per PC unless inlined frames are expanded, which only the decode-error path formats; C06's territory)",
	"(internal/recoverfn.Raw).frames|slice|make(len(recv.PCs))[arg0:phi]?upper":                                                                                         "startSkip 3 / bottomSkip 1 relative to the recover frames fq itself put on the stack (Frames()); formatting of a recovered decode panic, C06's territory, no jq operand",
	"(internal/recoverfn.Raw).frames|slice|make(len(recv.PCs))[arg0:phi]?order":                                                                                         "startSkip 3 / bottomSkip 1 relative to the recover frames fq itself put on the stack (Frames()); formatting of a recovered decode panic, C06's territory, no jq operand",
	"(*pkg/interp.Interp)._binaryMatch$1|slice|phi[1]?upper":                                                                                                            "captures has one entry per submatch pair; l is non-nil here (tested) so len(l) >= 2 and the loop appended at least the whole-match capture",
	"(*pkg/interp.Interp)._binaryMatch$1|index|captured<[]string>[phi]?upper":                                                                                           "sreNames = sre.SubexpNames() has NumSubexp()+1 entries and l = FindReaderSubmatchIndex has 2*(NumSubexp()+1): i < len(l)/2 (proved for l[2i+1]) is i < len(sreNames)",
	"format/text.init#2$5|index|_#2[0]?upper":                                                                                                                           "url.Values built by url.ParseQuery / URL.Query only ever holds keys with at least one value (values are appended on first sight of the key)",
	"internal/mapstruct.CamelToSnake$1|slice|arg0[0:1]?upper":                                                                                                           "callback of camelToSnakeRe.ReplaceAllStringFunc: s is a match of `[[:lower:]][[:upper:]]`, two ASCII bytes",
	"internal/mapstruct.CamelToSnake$1|slice|arg0[1:2]?upper":                                                                                                           "callback of camelToSnakeRe.ReplaceAllStringFunc: s is a match of `[[:lower:]][[:upper:]]`, two ASCII bytes",
	"internal/pos.offsetToLineColumn|slice|arg0[phi]?upper":                                                                                                             "co advances by strings.Index(s[co:], \"\\n\")+1 <= len(s[co:]), so co <= len(s) is a loop invariant (start 0)",
	"pkg/interp.dump|slice|internal/mathx.PadFormatInt[int64](phi,arg2.Addrbase,false,2)[(len(internal/mathx.PadFormatInt[int64](phi,arg2.Addrbase,false,2))-2)]?lower": "PadFormatInt(.., width 2) left-pads to at least two characters (padFormatNumber), so len(s)-2 >= 0; the width argument is part of this key",
	"pkg/interp.dumpEx|index|var.Columns[2]?upper":                                                                                                                      "dump() builds the column writer with 7 columns (C10.colwriter); colHex = 2",
	"pkg/interp.dumpEx|index|var.Columns[4]?upper":                                                                                                                      "dump() builds the column writer with 7 columns (C10.colwriter); colASCII = 4",
	"pkg/interp.dumpEx$1|index|captured<*internal/columnwriter.Writer>.Columns[arg0]?upper":                                                                             "cprint is only called with the col* constants 0..6; the column writer has 7 columns (C10.colwriter)",
	"pkg/interp.dumpEx$2|index|captured<*internal/columnwriter.Writer>.Columns[arg0]?lower":                                                                             "cfmt is only called with the col* constants 0..6; the column writer has 7 columns (C10.colwriter)",
	"pkg/interp.dumpEx$2|index|captured<*internal/columnwriter.Writer>.Columns[arg0]?upper":                                                                             "cfmt is only called with the col* constants 0..6; the column writer has 7 columns (C10.colwriter)",
	"pkg/interp.indentStr|slice|\"                                                                \"[0:arg0]?order":                                                     "n is width x depth of the value in the decode tree (>= 0, depth of an existing tree); n > len(spaces) took the Repeat branch",
}
