package rules

import (
	"os"
	"strings"

	"fqverif/fw"
)

func c03DebugDump(p *fw.Program) {
	names := os.Getenv("C03_SSA")
	if names == "" {
		return
	}
	for _, n := range strings.Split(names, ",") {
		fn := p.Fn(n)
		if fn == nil {
			println("no such fn", n)
			continue
		}
		for _, f := range fw.WithClosures(fn) {
			f.WriteTo(os.Stdout)
		}
	}
}
